#!/bin/sh
# Offline setup: full .vo build of the Coq development, extraction, OCaml driver.
set -e
cd "$(dirname "$0")"
mkdir -p .work evidence
# regenerate every translated file from /repo first (the committed copies are placeholders)
for t in tools/gen_all.sh; do [ -x "$t" ] && "$t" || true; done
cd coq
coq_makefile -f _CoqProject $(find . -name '*.v' ! -name Extract.v | sed 's|^\./||' | sort) -o Makefile >/dev/null
timeout 7000 make -k -j16 >../.work/setup-make.log 2>&1 || { tail -40 ../.work/setup-make.log; echo "setup: coq build had failures (checks will report them)"; }
cd ..
python3 - <<'PY'
import sys
sys.path.insert(0, 'tools')
import runner as R
log = []
print('ocaml driver:', R.build_ocaml(log)); print('\n'.join(log))
PY
