(* C04  Table initialisation accepts exactly the well-formed tables.
   Statements only (printed by Coq from the lemmas they are closed with); proofs in Proof/RegLemmas.v, Proof/RegInitLemmas.v;
   model Model/RegTable.v (reg_init mirrors register_init step by step and is tied to it by correspondence over the layout grid).
   The post-state is proved for plain tables (all areas memory-backed and default-loading); for tables with callback-backed, read-only
   or skip-defaults areas it is correspondence-tested only. *)
From Ufw Require Import Base.Bits Model.RegTable Proof.RegLemmas Proof.RegInitLemmas Proof.RegInvariant Proof.RegMemory Proof.RegBlockInv Proof.RegInitInv Proof.RegInitZero Proof.RegLink.
From Coq Require Import ZArith.
From Ufw Require Import Base.Cexpr Gen.RegLeafGen Proof.RegLeafT.
Local Open Scope N_scope.

(* initialisation succeeds exactly when there is an area, the areas and the entries are each ordered and disjoint (every element starts at or behind the end of its predecessor), and the defaults load *)
Theorem C04_success_iff :
  forall t : table,
         let t0 := with_flags t false true in
         fst (reg_init t) = (ISuccess, 0) <->
         areas_ordered t /\
         entries_ordered t /\
         fst (load_defaults (S (Datatypes.length (t_entries t))) (with_flags (zero_mem_areas t0) true true) 0) = None.
Proof. exact (@init_success_iff). Qed.
Print Assumptions C04_success_iff.

(* ... and the defaults load only if every register lies wholly inside one area *)
Theorem C04_defaults_all_fit :
  forall (fuel : nat) (t : table) (i : N),
         fst (load_defaults fuel t i) = None ->
         (Datatypes.length (t_entries t) <= N.to_nat i + fuel)%nat ->
         forall (j : nat) (e : entry),
         (N.to_nat i <= j)%nat -> nth_error (t_entries t) j = Some e -> entry_fits t e = true.
Proof. exact (@load_defaults_all_fit). Qed.
Print Assumptions C04_defaults_all_fit.

(* the only other reasons: a register outside one area, or a default its own constraint refuses *)
Theorem C04_default_codes :
  forall (fuel : nat) (t : table) (i : N) (r : icode * N),
         fst (load_defaults fuel t i) = Some r -> fst r = IEntryHole \/ fst r = IEntryDefault.
Proof. exact (@load_defaults_code). Qed.
Print Assumptions C04_default_codes.

(* otherwise it reports the FIRST violated rule, in the order: no areas < area order/overlap < entry order/overlap < entry placement/default, with the index of the offending element *)
Theorem C04_first_error :
  forall t : table,
         let t0 := with_flags t false true in
         match t_areas t with
         | [] => fst (reg_init t) = (INoAreas, 0)
         | a0 :: ar =>
             match first_break a_base a_size a0 ar with
             | Some (k, p, a) =>
                 fst (reg_init t) = (if a_base a <? a_base p then IAreaOrder else IAreaOverlap, 1 + N.of_nat k)
             | None =>
                 match
                   match t_entries t with
                   | [] => None
                   | e0 :: er => first_break e_addr (fun e : entry => tsize (e_type e)) e0 er
                   end
                 with
                 | Some (k, p, e) =>
                     fst (reg_init t) = (if e_addr e <? e_addr p then IEntryOrder else IEntryOverlap, 1 + N.of_nat k)
                 | None =>
                     fst (reg_init t) =
                     match
                       fst
                         (load_defaults (S (Datatypes.length (t_entries t))) (with_flags (zero_mem_areas t0) true true)
                            0)
                     with
                     | Some r => r
                     | None => (ISuccess, 0)
                     end
                 end
             end
         end.
Proof. exact (@init_first_error). Qed.
Print Assumptions C04_first_error.

(* the area check reports the first area that starts before the end of its predecessor: order fault when it starts before the predecessor itself, overlap otherwise *)
Theorem C04_area_check :
  forall (r : list area) (prev : area) (i : N),
         check_areas prev r i =
         match first_break a_base a_size prev r with
         | Some (k, p, a) => Some (if a_base a <? a_base p then IAreaOrder else IAreaOverlap, i + N.of_nat k)
         | None => None
         end.
Proof. exact (@check_areas_spec). Qed.
Print Assumptions C04_area_check.

(* likewise for the entries *)
Theorem C04_entry_check :
  forall (r : list entry) (prev : entry) (i : N),
         check_entries prev r i =
         match first_break e_addr (fun e : entry => tsize (e_type e)) prev r with
         | Some (k, p, e) => Some (if e_addr e <? e_addr p then IEntryOrder else IEntryOverlap, i + N.of_nat k)
         | None => None
         end.
Proof. exact (@check_entries_spec). Qed.
Print Assumptions C04_entry_check.

(* no such element iff the list is a chain *)
Theorem C04_first_break_none :
  forall (A : Type) (start len : A -> N) (r : list A) (prev : A),
         first_break start len prev r = None <-> chain start len prev r.
Proof. exact (@first_break_none). Qed.
Print Assumptions C04_first_break_none.

(* the reported element is the first: everything before it is a chain *)
Theorem C04_first_break_is_first :
  forall (A : Type) (start len : A -> N) (r : list A) (prev : A) (k : nat) (p x : A),
         first_break start len prev r = Some (k, p, x) ->
         nth_error r k = Some x /\
         nth_error (prev :: r) k = Some p /\ start x < start p + len p /\ chain start len prev (firstn k r).
Proof. exact (@first_break_some). Qed.
Print Assumptions C04_first_break_is_first.

(* after a successful initialisation of a plain table (memory-backed, default-loading areas; no always-failing constraint; typed defaults) the entries are unchanged, every register reads back its default, and the constraint invariant of C05 holds *)
Theorem C04_post_state :
  forall t t' : table,
         plain_table t ->
         reg_init t = (ISuccess, 0, t') ->
         InvB t' /\
         t_entries t' = t_entries t /\
         (forall (idx : N) (e : entry),
          entry_at t' idx = Some e ->
          reg_get t' idx = (ASuccess, 0, Some {| v_type := e_type e; v_bits := e_default e |})).
Proof. exact (@init_establishes_invariant). Qed.
Print Assumptions C04_post_state.

(* post-state, second half: every word of the table memory that no register covers is zero after a successful initialisation *)
Theorem C04_post_state_other_words_zero :
  forall t t' : table,
         plain_table t ->
         reg_init t = (ISuccess, 0, t') ->
         forall x w : N, word_at t' x = Some w -> (forall e : entry, In e (t_entries t) -> ~ covers e x) -> w = 0.
Proof. exact (@init_other_words_zero). Qed.
Print Assumptions C04_post_state_other_words_zero.

(* post-state, third part: the first / last / count fields of every area describe exactly the registers whose address lies in the area, a contiguous run of the register list *)
Theorem C04_post_state_area_fields :
  forall t t' : table,
         reg_init t = (ISuccess, 0, t') ->
         forall a' : area,
         In a' (t_areas t') ->
         a_count a' = N.of_nat (Datatypes.length (filter (fun e : entry => addr_in_area a' (e_addr e)) (t_entries t'))) /\
         (a_count a' <> 0 -> a_last a' + 1 = a_first a' + a_count a') /\
         (forall (j : nat) (e : entry),
          nth_error (t_entries t') j = Some e ->
          addr_in_area a' (e_addr e) = true <-> a_count a' <> 0 /\ a_first a' <= N.of_nat j <= a_last a').
Proof. exact (@init_area_fields). Qed.
Print Assumptions C04_post_state_area_fields.

(* the same for the linking step alone, any ordered register list and any area *)
Theorem C04_link_fields_spec :
  forall (es : list entry) (a : area),
         match es with
         | [] => True
         | e0 :: er => chain e_addr (fun e : entry => tsize (e_type e)) e0 er
         end ->
         let a' := link_area es a in
         a_count a' = N.of_nat (Datatypes.length (filter (fun e : entry => addr_in_area a (e_addr e)) es)) /\
         (a_count a' <> 0 -> a_last a' + 1 = a_first a' + a_count a') /\
         (forall (j : nat) (e : entry),
          nth_error es j = Some e ->
          addr_in_area a (e_addr e) = true <-> a_count a' <> 0 /\ a_first a' <= N.of_nat j <= a_last a').
Proof. exact (@link_area_spec). Qed.
Print Assumptions C04_link_fields_spec.

(* TRANSLATOR TIE (Gen/RegLeafGen.v is regenerated from src/registers/core.c on every check): the 32-bit membership test of the C code is the membership predicate of the model for every area inside the 32-bit address space, including areas that reach its last address *)
Theorem C04_T_address_in_area :
  forall (a : area) (e : entry) (addr n : N),
         area_in_space a ->
         addr < SPACE -> eval (envC a e addr n) tabsC c_ra_addr_is_part_of = b2z (addr_in_area a addr).
Proof. exact (@C_ra_addr_is_part_of). Qed.
Print Assumptions C04_T_address_in_area.

(* ... and its test that a register located in an area lies wholly inside it is the comparison of the (unrepresentable) end addresses that the model makes *)
Theorem C04_T_register_fits_area :
  forall (a : area) (e : entry) (addr n : N),
         area_in_space a ->
         addr_in_area a (e_addr e) = true ->
         eval (envC a e addr n) tabsC c_ra_reg_fits_into = b2z (e_addr e + tsize (e_type e) <=? a_base a + a_size a).
Proof. exact (@C_ra_reg_fits_into). Qed.
Print Assumptions C04_T_register_fits_area.

(* the pre-repair form of the membership test (end address computed in 32 bits) disagrees with the model on the area 0xfffffff0+16, where the repaired one agrees: defect 36 *)
Theorem C04_T_end_address_form_refuted :
  exists base size addr : Z,
           (0 <= base < two32)%Z /\
           (0 <= size)%Z /\
           (base + size <= two32)%Z /\
           (0 <= addr < two32)%Z /\
           env_top "a.base" = base /\
           env_top "a.size" = size /\
           env_top "addr" = addr /\
           eval env_top (fun _ : string => []) old_ra_addr_is_part_of <>
           b2z ((base <=? addr)%Z && (addr <? base + size)%Z) /\
           eval env_top (fun _ : string => []) c_ra_addr_is_part_of =
           b2z ((base <=? addr)%Z && (addr <? base + size)%Z).
Proof. exact (@old_end_address_form_refuted). Qed.
Print Assumptions C04_T_end_address_form_refuted.

(* a failed initialisation leaves the table uninitialised *)
Theorem C04_failure_uninitialised :
  forall (t : table) (r : icode * N) (t' : table),
         reg_init t = (r, t') -> fst r <> ISuccess -> t_init t' = false.
Proof. exact (@init_failure_uninit). Qed.
Print Assumptions C04_failure_uninitialised.

(* the initialised flag is set exactly by a successful initialisation *)
Theorem C04_flag_iff_success :
  forall t : table,
         t_init (snd (reg_init t)) = true -> fst (reg_init t) = (ISuccess, 0) /\ t_during (snd (reg_init t)) = false.
Proof. exact (@init_flag_iff_success). Qed.
Print Assumptions C04_flag_iff_success.

(* on an uninitialised table every operation reports UNINITIALISED and changes nothing *)
Theorem C04_uninitialised_operations :
  forall t : table,
         t_init t = false ->
         (forall (idx : N) (v : rvalue) (c : bool), reg_setx t idx v c = (AUninit, idx, t)) /\
         (forall idx : N, reg_get t idx = (AUninit, idx, None)) /\
         (forall (cl : bool) (idx : N) (v : rvalue), reg_bitop cl t idx v = (AUninit, idx, t)) /\
         (forall (addr n : N) (buf : list N), block_write t addr n buf = (AUninit, addr, t)) /\
         (forall addr n : N, block_read t addr n = (AUninit, addr, [])) /\
         (forall (addr off : N) (s : list Z), foreach_in t addr off s = (AUninit, 0, [])) /\
         sanitise t = (AUninit, 0, t).
Proof. exact (@uninit_everything). Qed.
Print Assumptions C04_uninitialised_operations.


(* non-vacuity: overlapping areas are reported at the second area; a register straddling the area end at its index *)
Example C04_example :
  let mk b s := {| a_base := b; a_size := s; a_readable := true; a_writeable := true; a_skip := false; a_has_read := true;
                   a_has_write := true; a_is_mem := true; a_words := repeat 7 (N.to_nat s); a_first := 0; a_last := 0; a_count := 0 |} in
  let e ty ad := {| e_type := ty; e_default := 1; e_addr := ad; e_check := CTrivial; e_touched := false |} in
  fst (reg_init {| t_init := false; t_during := false; t_be := false; t_areas := [mk 0 4; mk 3 2]; t_entries := [] |}) = (IAreaOverlap, 1) /\
  fst (reg_init {| t_init := false; t_during := false; t_be := false; t_areas := [mk 0 4]; t_entries := [e TU16 0; e TU32 3] |}) = (IEntryHole, 1) /\
  fst (reg_init {| t_init := false; t_during := false; t_be := false; t_areas := [mk 0 4]; t_entries := [e TU16 0; e TU32 2] |}) = (ISuccess, 0).
Proof. repeat split; vm_compute; reflexivity. Qed.

(* the post-state theorems are not vacuous: a plain table (stale memory content 7) whose initialisation succeeds; afterwards the
   registers hold their defaults, the word no register covers is zero and the area records registers 0..1 *)
Example C04_post_state_example :
  let a := {| a_base := 0; a_size := 4; a_readable := true; a_writeable := true; a_skip := false; a_has_read := true;
              a_has_write := true; a_is_mem := true; a_words := [7; 7; 7; 7]; a_first := 0; a_last := 0; a_count := 0 |} in
  let e ty ad := {| e_type := ty; e_default := 1; e_addr := ad; e_check := CTrivial; e_touched := false |} in
  let t := {| t_init := false; t_during := false; t_be := false; t_areas := [a]; t_entries := [e TU16 0; e TU32 2] |} in
  plain_table t /\
  match reg_init t with
  | ((ISuccess, _), t') => map (fun b => (a_words b, a_first b, a_last b, a_count b)) (t_areas t') = [([1; 0; 1; 0], 0, 1, 2)]
  | _ => False
  end.
Proof.
  split.
  - split; repeat constructor; cbn; try discriminate; lia.
  - vm_compute. reflexivity.
Qed.
