(* C04  Table initialisation accepts exactly the well-formed tables.
   Statements only.  Proved: the initialised flag is set exactly by a successful initialisation; on an uninitialised
   table every operation reports UNINITIALISED and changes nothing.  The characterisation "succeeds iff well formed",
   the first-error precedence and the post-state are carried by the executable model reg_init, which mirrors
   register_init step by step, and are tied by correspondence over the layout grid (DESIGN.md C04, partial). *)
From Ufw Require Import Base.Bits Model.RegTable Proof.RegLemmas.
Local Open Scope N_scope.

Theorem C04_failure_uninitialised : forall t r t', reg_init t = (r, t') -> fst r <> ISuccess -> t_init t' = false.
Proof. exact init_failure_uninit. Qed.
Print Assumptions C04_failure_uninitialised.

Theorem C04_flag_iff_success : forall t,
  t_init (snd (reg_init t)) = true -> fst (reg_init t) = (ISuccess, 0) /\ t_during (snd (reg_init t)) = false.
Proof. exact init_flag_iff_success. Qed.
Print Assumptions C04_flag_iff_success.

Theorem C04_uninitialised_operations : forall t, t_init t = false ->
  (forall idx v c, reg_setx t idx v c = ((AUninit, idx), t)) /\
  (forall idx, reg_get t idx = ((AUninit, idx), None)) /\
  (forall cl idx v, reg_bitop cl t idx v = ((AUninit, idx), t)) /\
  (forall addr n buf, block_write t addr n buf = ((AUninit, addr), t)) /\
  (forall addr n, block_read t addr n = ((AUninit, addr), [])) /\
  (forall addr off s, foreach_in t addr off s = ((AUninit, 0), [])) /\
  sanitise t = ((AUninit, 0), t).
Proof. exact uninit_everything. Qed.
Print Assumptions C04_uninitialised_operations.

(* non-vacuity: overlapping areas are reported at the second area; a register straddling the area end at its index *)
Example C04_example :
  let mk b s := {| a_base := b; a_size := s; a_readable := true; a_writeable := true; a_skip := false; a_has_read := true;
                   a_has_write := true; a_is_mem := true; a_words := repeat 7 (N.to_nat s); a_first := 0; a_last := 0; a_count := 0 |} in
  let e ty ad := {| e_type := ty; e_default := 1; e_addr := ad; e_check := CTrivial; e_touched := false |} in
  fst (reg_init {| t_init := false; t_during := false; t_be := false; t_areas := [mk 0 4; mk 3 2]; t_entries := [] |}) = (IAreaOverlap, 1) /\
  fst (reg_init {| t_init := false; t_during := false; t_be := false; t_areas := [mk 0 4]; t_entries := [e TU16 0; e TU32 3] |}) = (IEntryHole, 1) /\
  fst (reg_init {| t_init := false; t_during := false; t_be := false; t_areas := [mk 0 4]; t_entries := [e TU16 0; e TU32 2] |}) = (ISuccess, 0).
Proof. repeat split; vm_compute; reflexivity. Qed.
