(* C14  Varint coding is canonical, lossless and bounded.
   Statements only; proofs in Proof/VarintLemmas.v; model Model/Varint.v. *)
From Ufw Require Import Base.Bits Base.Errno Model.ByteBuffer Model.Endpoints Model.Varint Proof.VarintLemmas Proof.VarintSource.
Local Open Scope N_scope.

(* length of the encoding = the length query, at most 10 (5 below 2^32) *)
Theorem C14_length : forall n, N.of_nat (length (vi_encode n)) = vi_length n.
Proof. exact encode_length. Qed.
Print Assumptions C14_length.
Theorem C14_length_bound64 : forall n, n < 2 ^ 64 -> 1 <= vi_length n <= 10.
Proof. exact length_bound64. Qed.
Print Assumptions C14_length_bound64.
Theorem C14_length_bound32 : forall n, n < 2 ^ 32 -> 1 <= vi_length n <= 5.
Proof. exact length_bound32. Qed.
Print Assumptions C14_length_bound32.

(* minimal little-endian base-128 form: continuation bit on all but the last octet, value = n,
   last octet non-zero unless n = 0 *)
Theorem C14_canonical : forall n,
  canonical (vi_encode n) /\ value (vi_encode n) = n /\ (n <> 0 -> last (vi_encode n) 0 <> 0).
Proof. exact encode_canonical. Qed.
Print Assumptions C14_canonical.

(* decoding the encoding (followed by anything) returns the value and consumes exactly the encoding *)
Theorem C14_roundtrip_buffer : forall k b n r, bb_inv b -> bb_tail b = vi_encode n ++ r ->
  n < 2 ^ (match k with KU32 | KS32 => 32 | _ => 64 end) ->
  exists b', vi_decode k b = (VOk n (vi_length n), b') /\
             bb_offset b' = bb_offset b + vi_length n /\ bb_mem b' = bb_mem b /\ bb_used b' = bb_used b.
Proof. exact decode_buf_roundtrip. Qed.
Print Assumptions C14_roundtrip_buffer.
Theorem C14_roundtrip_source : forall k n r oct,
  n < 2 ^ (match k with KU32 | KS32 => 32 | _ => 64 end) ->
  fst (vi_from_source k (src_plain oct (vi_encode n ++ r))) = SOk n (vi_length n).
Proof. exact from_source_roundtrip. Qed.
Print Assumptions C14_roundtrip_source.
Theorem C14_signed32 : forall z, (- 2 ^ 31 <= z < 2 ^ 31)%Z -> vk_result KS32 (vk_arg KS32 z) = z.
Proof. exact signed_roundtrip32. Qed.
Print Assumptions C14_signed32.
Theorem C14_signed64 : forall z, (- 2 ^ 63 <= z < 2 ^ 63)%Z -> vk_result KS64 (vk_arg KS64 z) = z.
Proof. exact signed_roundtrip64. Qed.
Print Assumptions C14_signed64.

(* for EVERY octet string the buffer decoder and the source decoder agree on verdict, value and count *)
Theorem C14_agree : forall k l oct,
  let b := {| bb_mem := l; bb_size := N.of_nat (length l); bb_used := N.of_nat (length l); bb_offset := 0 |} in
  fst (vi_from_source k (src_plain oct l)) = sres_of (fst (vi_decode k b)).
Proof. exact decoders_agree. Qed.
Print Assumptions C14_agree.

(* a sequence without terminator within the maximum length is illegal; cut off earlier it is "short" *)
Theorem C14_illegal : forall fuel l i acc,
  Forall (fun d => N.land d 128 <> 0) l -> (fuel <= length l)%nat -> dec_list fuel l i acc = VIllegal.
Proof. exact dec_list_all_continuation. Qed.
Print Assumptions C14_illegal.
Theorem C14_short : forall fuel l i acc,
  Forall (fun d => N.land d 128 <> 0) l -> (length l < fuel)%nat -> dec_list fuel l i acc = VShort.
Proof. exact dec_list_short. Qed.
Print Assumptions C14_short.

(* the buffer decoder reads the buffer's memory [offset, size) only: its result is a function of those octets *)
Theorem C14_no_overread : forall k b1 b2, bb_inv b1 -> bb_inv b2 -> bb_tail b1 = bb_tail b2 ->
  match fst (vi_decode k b1), fst (vi_decode k b2) with
  | VOk u1 c1, VOk u2 c2 => u1 = u2 /\ c1 = c2
  | VIllegal, VIllegal | VShort, VShort => True
  | _, _ => False
  end.
Proof. exact decode_reads_unread_only. Qed.
Print Assumptions C14_no_overread.
Theorem C14_buffer_decoder_is_list_decoder : forall fuel b i acc, bb_inv b ->
  vi_decode_loop fuel b i acc = dec_list fuel (skipn (N.to_nat i) (bb_tail b)) i acc.
Proof. exact decode_loop_list. Qed.
Print Assumptions C14_buffer_decoder_is_list_decoder.
Theorem C14_error_consumes_nothing : forall k b,
  match fst (vi_decode k b) with VOk _ _ => True | _ => snd (vi_decode k b) = b end.
Proof. exact decode_error_consumes_nothing. Qed.
Print Assumptions C14_error_consumes_nothing.

(* reading from ANY source (octet- or chunk-style driver; EINTR / EAGAIN / hard errors end the call with that error): a reported
   success consumed exactly the encoding and delivered the encoded value, and what it consumed is a prefix of at most 5 / 10 octets *)
Theorem C14_from_source_any : forall k s n r u c s',
  n < 2 ^ (match k with KU32 | KS32 => 32 | _ => 64 end) -> s_stream s = vi_encode n ++ r ->
  vi_from_source k s = (SOk u c, s') -> u = n /\ c = vi_length n /\ s_stream s' = r.
Proof. exact from_source_any_roundtrip. Qed.
Print Assumptions C14_from_source_any.
Theorem C14_from_source_consumes : forall k s u c s', vi_from_source k s = (SOk u c, s') ->
  exists consumed, s_stream s = consumed ++ s_stream s' /\ N.of_nat (length consumed) = c /\ 1 <= c <= vk_max k.
Proof. exact from_source_any_consumed. Qed.
Print Assumptions C14_from_source_consumes.

Example C14_example : vi_encode 300 = [172; 2] /\ vi_length 300 = 2 /\
  fst (vi_decode KU32 {| bb_mem := [172; 2; 9]; bb_size := 3; bb_used := 3; bb_offset := 0 |}) = VOk 300 2 /\
  fst (vi_decode KU32 {| bb_mem := [172]; bb_size := 1; bb_used := 1; bb_offset := 0 |}) = VShort.
Proof. repeat split; vm_compute; reflexivity. Qed.
