(* C06  A valid request is executed exactly once and answered faithfully.
   Statements only (printed by Coq from the lemmas they are closed with); proofs in Proof/RegpLemmas.v; model Model/Regp.v. *)
From Ufw Require Import Base.Bits Base.Errno Model.Crc Model.ByteBuffer Model.Endpoints Model.Varint Model.Slip Model.Lenp
  Model.Regp Proof.LenpLemmas Proof.RegpFraming Proof.RegpLemmas.
From Coq Require Import Bool Lia.
Local Open Scope N_scope.
Local Open Scope bool_scope.

(* a successfully received request: a word-size mismatch is answered with EWORDSIZE without any access; a read that cannot fit with ETXOVERFLOW without any access; otherwise exactly one backend call with the request's address and block size (and, for writes, exactly the received payload; for reads a buffer of at least that many words inside the block), and the reply is the one prescribed for the backend's verdict *)
Theorem C06_request_executed_once :
  forall (p : regp) (r : recv_result) (f : rframe) (backend : backend_call -> verdict),
         rr_rc r = RcOk ->
         rr_errid r = None ->
         rr_frame r = Some f ->
         is_request f = true ->
         let unit := if g_mem16 p then 2 else 1 in
         if negb (eqb (has_w16 f) (g_mem16 p))
         then regp_process p r backend = ([], Some (resp_0 p f R_EWORDSIZE))
         else
          if f_type f =? T_READ_REQ
          then
           if tx_room p f / unit <? f_bsize f
           then regp_process p r backend = ([], Some (resp_32 p f R_ETXOVERFLOW (trxbufsize p)))
           else
            let call :=
              {|
                bc_write := false;
                bc_addr := f_addr f;
                bc_bsize := f_bsize f;
                bc_payload := [];
                bc_room := tx_room p f / unit
              |} in
            bc_bsize call <= bc_room call /\
            unit * bc_room call <= tx_room p f /\
            regp_process p r backend =
            ([call],
             verdict_reply p f (backend call) (firstn (N.to_nat (unit * f_bsize f)) (vd_data (backend call)))
               (f_bsize f))
          else
           let call :=
             {|
               bc_write := true; bc_addr := f_addr f; bc_bsize := f_bsize f; bc_payload := f_payload f; bc_room := 0
             |} in
           regp_process p r backend = ([call], verdict_reply p f (backend call) [] 0).
Proof. exact (@process_request). Qed.
Print Assumptions C06_request_executed_once.

(* the reply for any of the twelve verdicts, received by the requester: matching response type, the verdict as code, the request's sequence number and address, and as payload exactly the delivered words (acknowledge), the buffer size resp. the reported address as four big-endian octets (ERXOVERFLOW/ETXOVERFLOW resp. EUNMAPPED..EINVALID) in octet semantics, nothing otherwise *)
Theorem C06_reply_is_faithful :
  forall (p q : regp) (f : rframe) (v : verdict) (ackpl : list N) (ackn : N) (oct : bool) 
           (r : list N) (calls : N),
         f_type f = T_READ_REQ \/ f_type f = T_WRITE_REQ ->
         f_seq f < 65536 ->
         f_addr f < 4294967296 ->
         vd_status v <= R_EIO ->
         octets ackpl ->
         ackn < 4294967296 ->
         N.of_nat (length ackpl) = (if g_mem16 p then 2 else 1) * ackn ->
         g_serial q = g_serial p ->
         16 + N.of_nat (length ackpl) + 4 <= room q ->
         exists (wire : list N) (ms : msem) (n calls' : N),
           verdict_reply p f v ackpl ackn = Some wire /\
           regp_recv q (plain_src oct (wire ++ r) calls) true =
           Some
             {|
               rr_rc := RcOk;
               rr_errid := None;
               rr_frame :=
                 Some
                   (emitted_frame p ms (req2resp (f_type f)) (vd_status v) (f_seq f) (f_addr f) n
                      (crc (reply_payload p v ackpl)) (reply_payload p v ackpl));
               rr_block_to_caller := true;
               rr_allocated := true;
               rr_freed_by_recv := false;
               rr_reply := [];
               rr_rest := plain_src oct r calls'
             |} /\ (vd_status v <> R_ACK -> ms = M8) /\ (vd_status v = R_ACK -> ms = MAuto /\ n = ackn).
Proof. exact (@reply_decodes). Qed.
Print Assumptions C06_reply_is_faithful.

(* the same reply as a conforming frame of the header encoder (what C08 is about) *)
Theorem C06_reply_shape :
  forall (p : regp) (f : rframe) (v : verdict) (ackpl : list N) (ackn : N),
         f_type f = T_READ_REQ \/ f_type f = T_WRITE_REQ ->
         f_seq f < 65536 ->
         f_addr f < 4294967296 ->
         vd_status v <= R_EIO ->
         octets ackpl ->
         ackn < 4294967296 ->
         N.of_nat (length ackpl) = (if g_mem16 p then 2 else 1) * ackn ->
         exists (ms : msem) (n : N),
           verdict_reply p f v ackpl ackn =
           Some
             (frame_wire p
                (encode_header p ms (req2resp (f_type f)) (vd_status v) (f_seq f) (f_addr f) n
                   (crc (reply_payload p v ackpl))) (reply_payload p v ackpl)) /\
           conforming p ms (req2resp (f_type f)) (vd_status v) (f_seq f) (f_addr f) n (reply_payload p v ackpl) /\
           (vd_status v <> R_ACK -> ms = M8) /\ (vd_status v = R_ACK -> ms = MAuto /\ n = ackn).
Proof. exact (@reply_shape). Qed.
Print Assumptions C06_reply_shape.

(* responses and meta messages cause neither an access nor a reply *)
Theorem C06_responses_and_meta_are_silent :
  forall (p : regp) (r : recv_result) (backend : backend_call -> verdict) (f : rframe),
         rr_rc r = RcOk ->
         rr_errid r = None -> rr_frame r = Some f -> is_request f = false -> regp_process p r backend = ([], Some []).
Proof. exact (@process_silent). Qed.
Print Assumptions C06_responses_and_meta_are_silent.

(* a frame that failed reception (channel error, any error id, no frame) or is no request never causes a memory access *)
Theorem C06_failed_reception_never_executes :
  forall (p : regp) (r : recv_result) (backend : backend_call -> verdict),
         (exists e : errno, rr_rc r = RcChannel e) \/
         rr_errid r <> None \/ rr_frame r = None \/ (exists f : rframe, rr_frame r = Some f /\ is_request f = false) ->
         fst (regp_process p r backend) = [].
Proof. exact (@process_no_access). Qed.
Print Assumptions C06_failed_reception_never_executes.

(* payload faults of requests are answered with EPAYLOADCRC / EPAYLOADSIZE (C07), of other frames with nothing *)
Theorem C06_payload_faults_are_answered :
  forall (p : regp) (r : recv_result) (backend : backend_call -> verdict) (f : rframe) (e : errno),
         rr_rc r = RcOk ->
         rr_errid r = Some e ->
         rr_frame r = Some f ->
         e = EPROTO \/ e = EFAULT ->
         regp_process p r backend =
         ([],
          Some
            (if is_request f
             then resp_0 p f (if match e with
                                 | EPROTO => true
                                 | _ => false
                                 end then R_EPAYLOADCRC else R_EPAYLOADSIZE)
             else [])).
Proof. exact (@process_payload_fault). Qed.
Print Assumptions C06_payload_faults_are_answered.

(* in any session history every round performs at most one access (and releases what it allocated, C09) *)
Theorem C06_every_round_of_a_session :
  forall (p : regp) (rounds : nat) (st : sess) (rs : list round) (st' : sess),
         serve rounds p st = Some (rs, st') ->
         ss_allocs st = ss_frees st ->
         ss_allocs st' = ss_frees st' /\
         Forall (fun rd : round => rd_allocs rd = rd_frees rd /\ (length (rd_calls rd) <= 1)%nat) rs.
Proof. exact (@serve_balanced). Qed.
Print Assumptions C06_every_round_of_a_session.


(* the premises are satisfiable: a 16-bit read of two words on TCP, served from a 128-octet block *)
Example C06_nonvacuous :
  let p := {| g_mem16 := true; g_serial := false; g_seq := 0; g_blocksize := 128 |} in
  match regp_recv p (src_plain false [12; 1; 0; 0; 7; 0; 0; 0; 100; 0; 0; 0; 2]) true with
  | Some r => Some (rr_rc r, rr_errid r, option_map is_request (rr_frame r), regp_process p r (backend_of true (0, 0, 5)))
  | None => None
  end
  = Some (RcOk, None, Some true,
          ([{| bc_write := false; bc_addr := 100; bc_bsize := 2; bc_payload := []; bc_room := 26 |}],
           Some [16; 1; 16; 0; 7; 0; 0; 0; 100; 0; 0; 0; 2; 5; 18; 31; 44])).
Proof. vm_compute. reflexivity. Qed.
