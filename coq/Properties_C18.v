(* C18  Byte buffers keep 0 <= offset <= used <= size and behave as a FIFO of octets.
   Statements only; proofs in Proof/ByteBufferLemmas.v; model Model/ByteBuffer.v
   (tied to src/byte-buffer.c by the correspondence run of ./check C18). *)
From Ufw Require Import Base.Bits Base.Errno Model.ByteBuffer Proof.ByteBufferLemmas.
Local Open Scope N_scope.

(* set-up refuses exactly: null memory, zero size, used > size, offset > used *)
Theorem C18_set_refuses : forall nn mem size used offset,
  bb_set nn mem size used offset = None <-> (nn = false \/ size = 0 \/ size < used \/ used < offset).
Proof. exact set_refuses. Qed.
Print Assumptions C18_set_refuses.

Theorem C18_set_inv : forall nn mem size used offset b,
  size <= N.of_nat (length mem) -> bb_set nn mem size used offset = Some b -> bb_inv b.
Proof. exact set_inv. Qed.
Print Assumptions C18_set_inv.

(* invariant + frame through every history (any length); op_wf: a set stays inside the arena and
   an accepted add is given at least n octets by its caller *)
Theorem C18_inv_step : forall b o, bb_inv b -> op_wf b o ->
  bb_inv (fst (bb_step b o)) /\ length (bb_mem (fst (bb_step b o))) = length (bb_mem b).
Proof. exact step_inv. Qed.
Print Assumptions C18_inv_step.

Theorem C18_inv_reachable : forall ops b, bb_inv b -> hist_wf b ops ->
  bb_inv (run b ops) /\ length (bb_mem (run b ops)) = length (bb_mem b).
Proof. exact inv_reachable. Qed.
Print Assumptions C18_inv_reachable.

(* add: appends exactly the given octets, or fails without change - for every n < 2^64 and beyond *)
Theorem C18_add_ok : forall b xs n, bb_inv b -> n <= bb_avail b -> n <= N.of_nat (length xs) ->
  exists b', bb_add b xs n = (None, b') /\
    bb_filled b' = bb_filled b ++ firstn (N.to_nat n) xs /\
    bb_offset b' = bb_offset b /\ bb_used b' = bb_used b + n /\ bb_size b' = bb_size b /\
    length (bb_mem b') = length (bb_mem b) /\
    skipn (N.to_nat (bb_size b)) (bb_mem b') = skipn (N.to_nat (bb_size b)) (bb_mem b) /\
    bb_inv b'.
Proof. exact add_accepted. Qed.
Print Assumptions C18_add_ok.
Theorem C18_add_refused : forall b xs n, bb_avail b < n -> bb_add b xs n = (Some ENOMEM, b).
Proof. exact add_refused. Qed.
Print Assumptions C18_add_refused.

(* consume: exactly the oldest unread octets in order, or ENODATA without change *)
Theorem C18_consume_ok : forall b n, bb_inv b -> n <= bb_rest b ->
  exists b', bb_consume b n = (None, firstn (N.to_nat n) (bb_unread b), b') /\
    bb_unread b' = skipn (N.to_nat n) (bb_unread b) /\
    bb_mem b' = bb_mem b /\ bb_used b' = bb_used b /\ bb_size b' = bb_size b /\ bb_inv b'.
Proof. exact consume_accepted. Qed.
Print Assumptions C18_consume_ok.
Theorem C18_consume_refused : forall b n, bb_rest b < n -> bb_consume b n = (Some ENODATA, [], b).
Proof. exact consume_refused. Qed.
Print Assumptions C18_consume_refused.

(* at-most variant: min n |unread| octets, failing only when none are there *)
Theorem C18_consume_at_most : forall b n, bb_inv b -> bb_rest b <> 0 ->
  let k := N.min n (bb_rest b) in
  exists b', bb_consume_at_most b n = (None, firstn (N.to_nat k) (bb_unread b), b') /\
    bb_unread b' = skipn (N.to_nat k) (bb_unread b) /\
    bb_mem b' = bb_mem b /\ bb_used b' = bb_used b /\ bb_size b' = bb_size b /\ bb_inv b'.
Proof. exact consume_at_most_some. Qed.
Print Assumptions C18_consume_at_most.
Theorem C18_consume_at_most_empty : forall b n, bb_rest b = 0 -> bb_consume_at_most b n = (Some ENODATA, [], b).
Proof. exact consume_at_most_empty. Qed.
Print Assumptions C18_consume_at_most_empty.

(* rewind keeps exactly the unread octets, now at offset 0, space behind them free again *)
Theorem C18_rewind : forall b, bb_inv b ->
  let b' := bb_rewind b in
  bb_unread b' = bb_unread b /\ bb_offset b' = 0 /\ bb_used b' = bb_rest b /\
  bb_size b' = bb_size b /\ length (bb_mem b') = length (bb_mem b) /\
  skipn (N.to_nat (bb_size b)) (bb_mem b') = skipn (N.to_nat (bb_size b)) (bb_mem b) /\ bb_inv b'.
Proof. exact rewind_spec. Qed.
Print Assumptions C18_rewind.

Theorem C18_reset : forall b, bb_inv b ->
  let b' := bb_reset b in
  bb_filled b' = [] /\ bb_unread b' = [] /\ bb_mem b' = bb_mem b /\ bb_size b' = bb_size b /\ bb_inv b'.
Proof. exact reset_spec. Qed.
Print Assumptions C18_reset.
Theorem C18_clear : forall b, bb_inv b ->
  let b' := bb_clear b in
  bb_filled b' = [] /\ bb_unread b' = [] /\ bb_size b' = bb_size b /\
  firstn (N.to_nat (bb_size b)) (bb_mem b') = repeat 0 (N.to_nat (bb_size b)) /\
  length (bb_mem b') = length (bb_mem b) /\
  skipn (N.to_nat (bb_size b)) (bb_mem b') = skipn (N.to_nat (bb_size b)) (bb_mem b) /\ bb_inv b'.
Proof. exact clear_spec. Qed.
Print Assumptions C18_clear.
Theorem C18_repeat : forall b, bb_inv b ->
  let b' := bb_repeat b in
  bb_unread b' = bb_filled b /\ bb_filled b' = bb_filled b /\ bb_mem b' = bb_mem b /\
  bb_size b' = bb_size b /\ bb_inv b'.
Proof. exact repeat_spec. Qed.
Print Assumptions C18_repeat.

(* a call that reports an error changes nothing *)
Theorem C18_refused_unchanged : forall b o e,
  (snd (bb_step b o) = OutRc (Some e) \/ (exists d, snd (bb_step b o) = OutData (Some e) d)
   \/ (exists d, snd (bb_step b o) = OutCount (Some e) d)) -> fst (bb_step b o) = b.
Proof. exact refused_unchanged. Qed.
Print Assumptions C18_refused_unchanged.

(* FIFO: over any history of add/consume/consume_at_most/rewind, everything delivered followed by
   what is still unread equals what was unread at the start followed by everything accepted *)
Theorem C18_fifo : forall ops b, bb_inv b -> hist_wf b ops -> forallb fifo_op ops = true ->
  hist_out b ops ++ bb_unread (run b ops) = bb_unread b ++ hist_in b ops.
Proof. exact fifo_history. Qed.
Print Assumptions C18_fifo.

(* non-vacuity: a concrete buffer meets the invariant; a history with wrap-free rewind *)
Example C18_example :
  let b := {| bb_mem := [1;2;3;4;5]; bb_size := 5; bb_used := 4; bb_offset := 2 |} in
  bb_inv b /\ bb_unread b = [3;4] /\
  bb_unread (run b [OpRewind; OpAdd [9;8;7] 3; OpConsume 1]) = [4;9;8;7].
Proof. cbv zeta. unfold bb_inv. cbn. repeat split; lia. Qed.
