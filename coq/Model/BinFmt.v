(* Combinators the generated Gen/BfGen_<cfg>.v files are written in (tools/bf2coq.py), and the
   specification vocabulary of C15.  Values are Z; a memory is a list of octets (Z in 0..255). *)
From Ufw Require Import Base.Bits Base.Cexpr.
From Coq Require Import Lia.
Local Open Scope Z_scope.

Fixpoint lebZ (k : nat) (v : Z) : list Z :=
  match k with O => [] | S k => v mod 256 :: lebZ k (v / 256) end.
Fixpoint oflZ (l : list Z) : Z := match l with [] => 0 | b :: r => b + 256 * oflZ r end.
Definition bebZ (k : nat) (v : Z) : list Z := rev (lebZ k v).
Definition ofbZ (l : list Z) : Z := oflZ (rev l).

(* the k octets read at pos / written at pos *)
Definition rd (mem : list Z) (pos k : nat) : list Z := map (fun j => nth (pos + j)%nat mem 0) (seq 0 k).
Definition wr (mem : list Z) (pos : nat) (xs : list Z) : list Z := blit mem pos xs.

(* two's complement reading of the low w bits *)
Definition sextZ (w : Z) (u : Z) : Z := norm (Ity true w) u.

(* ---- what the translator emits ---- *)
Definition notabs : string -> list Z := fun _ => [].
(* __builtin_bswapN: modelled as octet reversal (trusted compiler builtin) *)
Definition bswap (k : nat) (v : Z) : Z := oflZ (rev (lebZ k v)).
(* union punning between the unsigned, signed and float members of equal width (floats = their bit pattern) *)
Definition as_signed (w : Z) (u : Z) : Z := norm (Ity true w) u.
Definition as_unsigned (w : Z) (s : Z) : Z := norm (Ity false w) s.
(* byte image of a sz-octet object in host order *)
Definition host_bytes (big : bool) (sz : nat) (v : Z) : list Z := if big then bebZ sz v else lebZ sz v.
Definition from_host (big : bool) (l : list Z) : Z := if big then ofbZ l else oflZ l.

(* uintN_t buffer = 0; dst = (unsigned char* )&buffer; dst[i] = src[j]; ...; return buffer; *)
Definition moves_ref (big : bool) (sz : nat) (moves : list (nat * nat)) (mem : list Z) (pos : nat) : Z :=
  from_host big (fold_left (fun d m => upd d (fst m) (nth (pos + snd m)%nat mem 0)) moves (repeat 0 sz)).
(* src = (const unsigned char* )&value; dst = ptr; dst[i] = src[j]; ...; return dst + ret; *)
Definition moves_set (big : bool) (sz : nat) (moves : list (nat * nat)) (ret : nat)
           (mem : list Z) (pos : nat) (v : Z) : list Z * nat :=
  (fold_left (fun m mv => upd m (pos + fst mv)%nat (nth (snd mv) (host_bytes big sz v) 0)) moves mem,
   (pos + ret)%nat).

Definition octetsZ (l : list Z) : Prop := Forall (fun b => 0 <= b < 256) l.
