(* src/sx.c: the s-expression reader (symbols, unsigned integers decimal / #x hexadecimal, nested proper lists).
   The reader sees the n given octets and nothing else; the parsers below work on the unread suffix of the input
   and report how many octets they consumed. *)
From Ufw Require Import Base.Bits.
From Coq Require Import Bool.
Local Open Scope N_scope.
Local Open Scope bool_scope.

Inductive sx := Sym (cs : list N) | Int (n : N) | Nil | Cons (a d : sx).
Inductive sxstatus := SSuccess | SFoundList | SBrokenInt | SBrokenSym | SUnknown | SUnexpectedEnd.

(* ---- character classes (C locale, octets below 128) ---- *)
Definition is_space (c : N) : bool := (c =? 32) || ((9 <=? c) && (c <=? 13)).
Definition is_digit (c : N) : bool := (48 <=? c) && (c <=? 57).
Definition is_lower_hex (c : N) : bool := (97 <=? c) && (c <=? 102).
Definition is_upper_hex (c : N) : bool := (65 <=? c) && (c <=? 70).
Definition is_xdigit (c : N) : bool := is_digit c || is_lower_hex c || is_upper_hex c.
Definition is_alpha (c : N) : bool := ((97 <=? c) && (c <=? 122)) || ((65 <=? c) && (c <=? 90)).
(* "+%|/_:;.!?$&=*<>~" ; strchr also finds the terminating NUL of the table *)
Definition sym_punct : list N := [43; 37; 124; 47; 95; 58; 59; 46; 33; 63; 36; 38; 61; 42; 60; 62; 126].
Definition is_syminit (c : N) : bool := is_alpha c || existsb (N.eqb c) sym_punct || (c =? 0).
Definition is_symch (c : N) : bool := is_syminit c || is_digit c || (c =? 45).
Definition is_delim (c : N) : bool := (c =? 40) || (c =? 41) || is_space c.
Definition LPAREN : N := 40. Definition RPAREN : N := 41. Definition HASH : N := 35. Definition CH_x : N := 120.

(* digit2int after the repair: both letter cases *)
Definition digit_val (c : N) : N :=
  if is_digit c then c - 48 else if is_lower_hex c then c - 87 else if is_upper_hex c then c - 55 else 0.

(* longest prefix of characters of a class *)
Fixpoint span (p : N -> bool) (l : list N) : list N * list N :=
  match l with
  | c :: r => if p c then let '(a, b) := span p r in (c :: a, b) else ([], l)
  | [] => ([], [])
  end.

Definition number (base : N) (ds : list N) : N := fold_left (fun acc d => (acc * base + digit_val d) mod 2 ^ 64) ds 0.

(* after the token's characters: end of input or a delimiter *)
Definition ends_well (rest : list N) : bool := match rest with [] => true | c :: _ => is_delim c end.

(* ---- sx_parse_token on the suffix [inp]: status, node, octets consumed (incl. leading white space);
   None for the count: nothing but white space left (the C leaves position 0) ---- *)
Record tokres := { t_status : sxstatus; t_node : option sx; t_used : option nat }.

Definition token (inp : list N) : tokres :=
  let '(ws, r) := span is_space inp in
  let w := length ws in
  match r with
  | [] => {| t_status := SSuccess; t_node := None; t_used := None |}
  | c :: r1 =>
      let hex := match r1 with x :: h :: _ => (c =? HASH) && (x =? CH_x) && is_xdigit h | _ => false end in
      if hex then
        let '(ds, rest) := span is_xdigit (tl r1) in
        if ends_well rest then {| t_status := SSuccess; t_node := Some (Int (number 16 ds)); t_used := Some (w + 2 + length ds)%nat |}
        else {| t_status := SBrokenInt; t_node := None; t_used := Some (w + 2 + length ds)%nat |}
      else if c =? LPAREN then {| t_status := SFoundList; t_node := None; t_used := Some (w + 1)%nat |}
      else if c =? RPAREN then {| t_status := SSuccess; t_node := Some Nil; t_used := Some (w + 1)%nat |}
      else if is_digit c then
        let '(ds, rest) := span is_digit r in
        if ends_well rest then {| t_status := SSuccess; t_node := Some (Int (number 10 ds)); t_used := Some (w + length ds)%nat |}
        else {| t_status := SBrokenInt; t_node := None; t_used := Some (w + length ds)%nat |}
      else if is_syminit c then
        let '(cs, rest) := span is_symch r in
        if ends_well rest then {| t_status := SSuccess; t_node := Some (Sym cs); t_used := Some (w + length cs)%nat |}
        else {| t_status := SBrokenSym; t_node := None; t_used := Some (w + length cs)%nat |}
      else {| t_status := SUnknown; t_node := None; t_used := Some w |}
  end.

(* ---- sx_parse: an expression at the start of [inp] ---- *)
Inductive sxres := ROk (t : sx) (used : nat) | RErr (st : sxstatus).

(* the elements of a list, behind its opening parenthesis, up to and including the closing one *)
Fixpoint parse_list (fuel : nat) (inp : list N) : option sxres :=
  match fuel with
  | O => None
  | S f =>
      let tk := token inp in
      match t_used tk with
      | None => Some (RErr SUnexpectedEnd)                       (* the input ends inside the list *)
      | Some c =>
          match t_status tk, t_node tk with
          | SSuccess, Some Nil => Some (ROk Nil c)                 (* the closing parenthesis *)
          | SSuccess, Some a =>
              match parse_list f (skipn c inp) with
              | None => None
              | Some (ROk d c2) => Some (ROk (Cons a d) (c + c2))
              | Some (RErr e) => Some (RErr e)
              end
          | SFoundList, _ =>
              match parse_list f (skipn c inp) with                (* a nested list, possibly empty *)
              | None => None
              | Some (RErr e) => Some (RErr e)
              | Some (ROk a c1) =>
                  match parse_list f (skipn (c + c1) inp) with
                  | None => None
                  | Some (ROk d c2) => Some (ROk (Cons a d) (c + c1 + c2))
                  | Some (RErr e) => Some (RErr e)
                  end
              end
          | st, _ => Some (RErr st)
          end
      end
  end.

Definition parse_fuel (inp : list N) : nat := S (length inp).

Definition sx_parse (inp : list N) : option sxres :=
  let tk := token inp in
  match t_used tk with
  | None => Some (RErr SUnexpectedEnd)                           (* empty or nothing but white space *)
  | Some c =>
      match t_status tk, t_node tk with
      | SSuccess, Some Nil => Some (RErr SUnknown)                 (* a closing parenthesis that closes nothing *)
      | SSuccess, Some a => Some (ROk a c)
      | SFoundList, _ =>
          match parse_list (parse_fuel inp) (skipn c inp) with
          | None => None
          | Some (ROk a c1) => Some (ROk a (c + c1))
          | Some (RErr e) => Some (RErr e)
          end
      | st, _ => Some (RErr st)
      end
  end.
