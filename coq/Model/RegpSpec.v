(* doc/regp.txt read independently of the implementation: the octets of a frame, and what a receiver must make of
   an arbitrary octet sequence.  Written by pattern matching on the octet list, sharing nothing with Model/Regp.v but
   the CRC-16/ARC specification (Model/Crc.v, bit-serial, property C16), the SLIP specification (Model/Slip.v slip_encode,
   property C12) and the canonical varint (Model/Varint.v vi_encode, property C14). *)
From Ufw Require Import Base.Bits Model.Crc Model.Varint Model.Slip.
From Coq Require Import Bool.
Local Open Scope N_scope.
Local Open Scope bool_scope.

Definition crc16arc (l : list N) : N := spec_crc 0 l.
Definition be16 (x : N) : list N := [x / 256 mod 256; x mod 256].
Definition be32 (x : N) : list N := [x / 16777216 mod 256; x / 65536 mod 256; x / 256 mod 256; x mod 256].

(* section 2: the header *)
Record hfields := { h_version : N; h_type : N; h_opts : N; h_meta : N; h_seq : N; h_addr : N; h_bsize : N }.

Definition word0 (h : hfields) : N := h_version h + 16 * h_type h + 256 * h_opts h + 4096 * h_meta h.
Definition opt_w16 (o : N) : bool := N.odd o.
Definition opt_hdcrc (o : N) : bool := N.odd (o / 2).
Definition opt_plcrc (o : N) : bool := N.odd (o / 4).
Definition opt_reserved (o : N) : bool := N.odd (o / 8).

Definition spec_raw (h : hfields) (payload : list N) : list N :=
  let base := be16 (word0 h) ++ be16 (h_seq h) ++ be32 (h_addr h) ++ be32 (h_bsize h) in
  let pc := if opt_plcrc (h_opts h) then be16 (crc16arc payload) else [] in
  base ++ (if opt_hdcrc (h_opts h) then be16 (crc16arc (base ++ pc)) else []) ++ pc ++ payload.

(* section 5: which option bits a sender sets on which transport *)
Definition spec_opts (serial w16 : bool) (payload : list N) : N :=
  (if w16 then 1 else 0) + (if serial then 2 else 0)
  + (if serial && negb (match payload with [] => true | _ => false end) then 4 else 0).

Definition spec_wire (serial : bool) (raw : list N) : list N :=
  if serial then slip_encode false raw else vi_encode (N.of_nat (length raw)) ++ raw.

(* sections 2.1, 3: which (type, meta) pairs exist *)
Definition spec_type_meta (type meta : N) : bool :=
  match type with
  | 0 | 2 => meta =? 0              (* requests: meta reserved, zero *)
  | 1 | 3 => meta <=? 11            (* responses: a response code *)
  | 15 => (meta =? 1) || (meta =? 2)
  | _ => false
  end.

(* what a receiver makes of an octet sequence *)
Inductive sverdict :=
| SAccept (h : hfields) (hdcrc plcrc : N) (payload : list N)
| SBadHeader               (* answered with META EHEADERENC *)
| SBadHeaderCrc            (* answered with META EHEADERCRC *)
| SBadSize (h : hfields) (payload : list N)          (* requests: answered with EPAYLOADSIZE *)
| SBadPayloadCrc (h : hfields) (payload : list N).   (* requests: answered with EPAYLOADCRC *)

Definition payload_rule (h : hfields) (payload : list N) : bool :=
  let len := N.of_nat (length payload) in
  let units := if opt_w16 (h_opts h) then (if N.even len then Some (len / 2) else None) else Some len in
  match units with
  | None => false
  | Some u => match h_type h with
              | 0 | 15 => u =? 0           (* read requests and meta messages carry nothing *)
              | _ => u =? h_bsize h        (* the block size is the size of the payload *)
              end
  end.

Definition judge (h : hfields) (hdcrc plcrc : N) (payload : list N) : sverdict :=
  if negb (payload_rule h payload) then SBadSize h payload
  else if opt_plcrc (h_opts h) && negb (match payload with [] => true | _ => false end)
          && negb (crc16arc payload =? plcrc) then SBadPayloadCrc h payload
  else SAccept h hdcrc plcrc payload.

Definition spec_classify (raw : list N) : sverdict :=
  match raw with
  | m1 :: m0 :: s1 :: s0 :: a3 :: a2 :: a1 :: a0 :: n3 :: n2 :: n1 :: n0 :: rest =>
      let base := [m1; m0; s1; s0; a3; a2; a1; a0; n3; n2; n1; n0] in
      let w0 := 256 * m1 + m0 in
      let h := {| h_version := w0 mod 16; h_type := (w0 / 16) mod 16; h_opts := (w0 / 256) mod 16; h_meta := (w0 / 4096) mod 16;
                  h_seq := 256 * s1 + s0; h_addr := 16777216 * a3 + 65536 * a2 + 256 * a1 + a0;
                  h_bsize := 16777216 * n3 + 65536 * n2 + 256 * n1 + n0 |} in
      if negb (h_version h =? 0) || opt_reserved (h_opts h) || negb (spec_type_meta (h_type h) (h_meta h)) then SBadHeader
      else
        match opt_hdcrc (h_opts h), opt_plcrc (h_opts h), rest with
        | true, true, c1 :: c0 :: p1 :: p0 :: payload =>
            if crc16arc (base ++ [p1; p0]) =? 256 * c1 + c0 then judge h (256 * c1 + c0) (256 * p1 + p0) payload else SBadHeaderCrc
        | true, false, c1 :: c0 :: payload =>
            if crc16arc base =? 256 * c1 + c0 then judge h (256 * c1 + c0) 0 payload else SBadHeaderCrc
        | false, true, p1 :: p0 :: payload => judge h 0 (256 * p1 + p0) payload
        | false, false, payload => judge h 0 0 payload
        | _, _, _ => SBadHeader     (* shorter than the header it announces *)
        end
  | _ => SBadHeader                 (* shorter than the minimal header *)
  end.
