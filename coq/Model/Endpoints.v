(* src/endpoints/core.c: sources and sinks over scripted drivers.
   A driver is a stream plus a script of behaviours, one event consumed per
   driver call; an exhausted script behaves as "transfer everything asked". *)
From Ufw Require Import Base.Bits Base.Errno.
From Coq Require Import Bool.
Local Open Scope N_scope.
Local Open Scope bool_scope.

Inductive ev := Give (k : N) | Zero | Intr | Again | Fail (e : errno).
Inductive dres := DOk (k : N) | DErr (e : errno).

Definition SSIZE_MAX : N := 9223372036854775807.

Definition pop_ev (sc : list ev) : ev * list ev :=
  match sc with [] => (Give SSIZE_MAX, []) | e :: r => (e, r) end.

(* ---------------- sources ---------------- *)
Record src := { s_octet : bool; s_stream : list N; s_script : list ev; s_calls : N }.

Definition src_with (s : src) (st : list N) (sc : list ev) : src :=
  {| s_octet := s_octet s; s_stream := st; s_script := sc; s_calls := s_calls s + 1 |}.

(* one call of an octet-style driver: result, octet delivered *)
Definition src_octet_call (s : src) : dres * list N * src :=
  let '(e, sc) := pop_ev (s_script s) in
  match e with
  | Give _ => match s_stream s with
              | [] => (DErr ENODATA, [], src_with s [] sc)
              | x :: r => (DOk 1, [x], src_with s r sc)
              end
  | Zero => (DOk 0, [], src_with s (s_stream s) sc)
  | Intr => (DErr EINTR, [], src_with s (s_stream s) sc)
  | Again => (DErr EAGAIN, [], src_with s (s_stream s) sc)
  | Fail e => (DErr e, [], src_with s (s_stream s) sc)
  end.

(* one call of a chunk-style driver asked for n octets *)
Definition src_chunk_call (s : src) (n : N) : dres * list N * src :=
  let '(e, sc) := pop_ev (s_script s) in
  match e with
  | Give k => match s_stream s with
              | [] => (DErr ENODATA, [], src_with s [] sc)
              | _ => let m := N.min (N.min k n) (N.of_nat (length (s_stream s))) in
                     (DOk m, firstn (N.to_nat m) (s_stream s), src_with s (skipn (N.to_nat m) (s_stream s)) sc)
              end
  | Zero => (DOk 0, [], src_with s (s_stream s) sc)
  | Intr => (DErr EINTR, [], src_with s (s_stream s) sc)
  | Again => (DErr EAGAIN, [], src_with s (s_stream s) sc)
  | Fail e => (DErr e, [], src_with s (s_stream s) sc)
  end.

Definition source_get_octet (s : src) : dres * list N * src :=
  if s_octet s then src_octet_call s else src_chunk_call s 1.

Definition is_retry (e : errno) : bool :=
  match e with EINTR | EAGAIN => true | _ => false end.

(* source_adapt: n octets from an octet driver, retrying EINTR/EAGAIN/0 *)
Fixpoint source_adapt (fuel : nat) (s : src) (rest : N) (acc : list N) : option (dres * list N * src) :=
  if rest =? 0 then Some (DOk (N.of_nat (length acc)), acc, s) else
  match fuel with
  | O => None
  | S f =>
      let '(r, d, s') := src_octet_call s in
      match r with
      | DErr e => if is_retry e then source_adapt f s' rest acc else Some (DErr e, acc, s')
      | DOk k => source_adapt f s' (rest - k) (acc ++ d)
      end
  end.

Definition src_fuel (s : src) (n : N) : nat := S (length (s_script s) + N.to_nat (N.min n (N.of_nat (length (s_stream s)))) + 1).

Definition once_source_get_chunk (s : src) (n : N) : option (dres * list N * src) :=
  if s_octet s then source_adapt (src_fuel s n) s n []
  else Some (src_chunk_call s n).

(* source_get_chunk: exactly n octets into the destination (acc = octets written so far, in order) *)
Fixpoint source_get_chunk_loop (fuel : nat) (s : src) (n rest : N) (acc : list N) : option (dres * list N * src) :=
  if rest =? 0 then Some (DOk n, acc, s) else
  match fuel with
  | O => None
  | S f =>
      match once_source_get_chunk s rest with
      | None => None
      | Some (DErr e, d, s') =>
          if is_retry e then source_get_chunk_loop f s' n rest (acc ++ d) else Some (DErr e, acc ++ d, s')
      | Some (DOk k, d, s') => source_get_chunk_loop f s' n (rest - k) (acc ++ d)
      end
  end.

Definition source_get_chunk (s : src) (n : N) : option (dres * list N * src) :=
  if (n =? 0) || (SSIZE_MAX <? n) then Some (DErr EINVAL, [], s)
  else source_get_chunk_loop (src_fuel s n) s n n [].

Definition source_get_chunk_atmost (s : src) (n : N) : option (dres * list N * src) :=
  once_source_get_chunk s n.

(* ---------------- sinks ---------------- *)
Record snk := { k_octet : bool; k_got : list N; k_script : list ev; k_calls : N }.

Definition snk_with (k : snk) (got : list N) (sc : list ev) : snk :=
  {| k_octet := k_octet k; k_got := got; k_script := sc; k_calls := k_calls k + 1 |}.

Definition snk_octet_call (k : snk) (x : N) : dres * snk :=
  let '(e, sc) := pop_ev (k_script k) in
  match e with
  | Give _ => (DOk 1, snk_with k (k_got k ++ [x]) sc)
  | Zero => (DOk 0, snk_with k (k_got k) sc)
  | Intr => (DErr EINTR, snk_with k (k_got k) sc)
  | Again => (DErr EAGAIN, snk_with k (k_got k) sc)
  | Fail e => (DErr e, snk_with k (k_got k) sc)
  end.

Definition snk_chunk_call (k : snk) (xs : list N) : dres * snk :=
  let '(e, sc) := pop_ev (k_script k) in
  match e with
  | Give m => let c := N.min m (N.of_nat (length xs)) in
              (DOk c, snk_with k (k_got k ++ firstn (N.to_nat c) xs) sc)
  | Zero => (DOk 0, snk_with k (k_got k) sc)
  | Intr => (DErr EINTR, snk_with k (k_got k) sc)
  | Again => (DErr EAGAIN, snk_with k (k_got k) sc)
  | Fail e => (DErr e, snk_with k (k_got k) sc)
  end.

Definition sink_put_octet (k : snk) (x : N) : dres * snk :=
  if k_octet k then snk_octet_call k x else snk_chunk_call k [x].

Fixpoint sink_adapt (fuel : nat) (k : snk) (n : N) (xs : list N) : option (dres * snk) :=
  match xs with
  | [] => Some (DOk n, k)
  | x :: r =>
      match fuel with
      | O => None
      | S f =>
          let '(res, k') := snk_octet_call k x in
          match res with
          | DErr e => if is_retry e then sink_adapt f k' n xs else Some (DErr e, k')
          | DOk c => if c =? 0 then sink_adapt f k' n xs else sink_adapt f k' n r
          end
      end
  end.

Definition snk_fuel (k : snk) (n : nat) : nat := S (length (k_script k) + n + 1).

Definition once_sink_put_chunk (k : snk) (xs : list N) : option (dres * snk) :=
  if k_octet k then sink_adapt (snk_fuel k (length xs)) k (N.of_nat (length xs)) xs
  else Some (snk_chunk_call k xs).

Fixpoint sink_put_chunk_loop (fuel : nat) (k : snk) (n : N) (xs : list N) : option (dres * snk) :=
  match xs with
  | [] => Some (DOk n, k)
  | _ =>
      match fuel with
      | O => None
      | S f =>
          match once_sink_put_chunk k xs with
          | None => None
          | Some (DErr e, k') => if is_retry e then sink_put_chunk_loop f k' n xs else Some (DErr e, k')
          | Some (DOk c, k') => sink_put_chunk_loop f k' n (skipn (N.to_nat c) xs)
          end
      end
  end.

(* sink_put_chunk(sink, buf, n): xs = the n octets at buf *)
Definition sink_put_chunk (k : snk) (xs : list N) (n : N) : option (dres * snk) :=
  if (n =? 0) || (SSIZE_MAX <? n) then Some (DErr EINVAL, k)
  else sink_put_chunk_loop (snk_fuel k (length xs)) k n (firstn (N.to_nat n) xs).

Definition sink_put_chunk_atmost (k : snk) (xs : list N) : option (dres * snk) :=
  once_sink_put_chunk k xs.

(* plain endpoints used by the framing modules: no script *)
Definition src_plain (octet : bool) (stream : list N) : src :=
  {| s_octet := octet; s_stream := stream; s_script := []; s_calls := 0 |}.
Definition snk_plain (octet : bool) : snk :=
  {| k_octet := octet; k_got := []; k_script := []; k_calls := 0 |}.

(* ---------------- source-to-sink plumbing (no getbuffer extension: the library provides none) ---------------- *)
(* sts_cbc: one octet; the result is the sink's result.  Each of the two single-octet driver calls is repeated while the
   driver reports that it transferred nothing (a zero return consumes one script event, the exhausted script always
   transfers or ends the stream: the recursion is over the script and its [] branch is unreachable -
   Proof/EndpointsTotal.v, get_octet_nz_spec / put_octet_nz_spec) *)
Fixpoint get_octet_nz (sc : list ev) (s : src) : dres * list N * src :=
  match source_get_octet s with
  | (DOk c, [], s') => match sc with [] => (DOk c, [], s') | _ :: r => get_octet_nz r s' end
  | res => res
  end.
Fixpoint put_octet_nz (sc : list ev) (k : snk) (x : N) : dres * snk :=
  match sink_put_octet k x with
  | (DOk c, k') => if c =? 0 then match sc with [] => (DOk c, k') | _ :: r => put_octet_nz r k' x end else (DOk c, k')
  | res => res
  end.
Definition sts_cbc (s : src) (k : snk) : dres * src * snk :=
  match get_octet_nz (s_script s) s with
  | (DErr e, _, s') => (DErr e, s', k)
  | (DOk _, [], s') => (DErr (EOTHER 0), s', k)      (* unreachable *)
  | (DOk _, x :: _, s') => let '(r, k') := put_octet_nz (k_script k) k x in (r, s', k')
  end.

Fixpoint sts_n_cbc (n : nat) (total : N) (s : src) (k : snk) : dres * src * snk :=
  match n with
  | O => (DOk total, s, k)
  | S m => match sts_cbc s k with
           | (DErr e, s', k') => (DErr e, s', k')
           | (DOk _, s', k') => sts_n_cbc m total s' k'
           end
  end.

Fixpoint sts_drain_cbc (fuel : nat) (s : src) (k : snk) : option (dres * src * snk) :=
  match fuel with
  | O => None
  | S f => match sts_cbc s k with
           | (DErr e, s', k') => Some (DErr e, s', k')
           | (DOk _, s', k') => sts_drain_cbc f s' k'
           end
  end.

(* sts_atmost / sts_some without buffer extension = sts_cbc *)
Definition sts_atmost (s : src) (k : snk) (n : N) := sts_cbc s k.

(* sts_n without extension: loop over sts_cbc, counting what the sink reports *)
Fixpoint sts_n_loop (fuel : nat) (total rest : N) (s : src) (k : snk) : option (dres * src * snk) :=
  if rest =? 0 then Some (DOk total, s, k) else
  match fuel with
  | O => None
  | S f => match sts_cbc s k with
           | (DErr e, s', k') => Some (DErr e, s', k')
           | (DOk c, s', k') => sts_n_loop f total (rest - c) s' k'
           end
  end.
Definition sts_fuel (s : src) (k : snk) (n : N) : nat :=
  S (length (s_script s) + length (k_script k) + N.to_nat (N.min n (N.of_nat (length (s_stream s)))) + 2).
Definition sts_n (s : src) (k : snk) (n : N) := sts_n_loop (sts_fuel s k n) n n s k.
Definition sts_drain (s : src) (k : snk) :=
  sts_drain_cbc (sts_fuel s k (N.of_nat (length (s_stream s)))) s k.

(* ---- with an auxiliary buffer: [asize] = size of its free region (the buffer is empty: used = offset = 0);
   the scratch image [aux] records what was written into it *)
Definition sts_some_aux (s : src) (k : snk) (aux : list N) (n : N) : option (dres * src * snk * list N) :=
  (* n = octets asked from the source = free space (capped) *)
  match once_source_get_chunk s n with
  | None => None
  | Some (DErr e, d, s') => Some (DErr e, s', k, blit aux 0 d)
  | Some (DOk c, d, s') =>
      match sink_put_chunk k d c with
      | None => None
      | Some (r, k') => Some (r, s', k', blit aux 0 d)
      end
  end.

Definition sts_atmost_aux (s : src) (k : snk) (aux : list N) (n : N) :=
  sts_some_aux s k aux (N.min n (N.of_nat (length aux))).

Fixpoint sts_n_aux_loop (fuel : nat) (total rest : N) (s : src) (k : snk) (aux : list N)
  : option (dres * src * snk * list N) :=
  if rest =? 0 then Some (DOk total, s, k, aux) else
  match fuel with
  | O => None
  | S f => match sts_atmost_aux s k aux rest with
           | None => None
           | Some (DErr e, s', k', aux') => Some (DErr e, s', k', aux')
           | Some (DOk c, s', k', aux') => sts_n_aux_loop f total (rest - c) s' k' aux'
           end
  end.
Definition sts_n_aux (s : src) (k : snk) (aux : list N) (n : N) :=
  sts_n_aux_loop (sts_fuel s k n) n n s k aux.

Fixpoint sts_drain_aux_loop (fuel : nat) (s : src) (k : snk) (aux : list N)
  : option (dres * src * snk * list N) :=
  match fuel with
  | O => None
  | S f => match sts_atmost_aux s k aux (N.of_nat (length aux)) with
           | None => None
           | Some (DErr e, s', k', aux') => Some (DErr e, s', k', aux')
           | Some (DOk _, s', k', aux') => sts_drain_aux_loop f s' k' aux'
           end
  end.
Definition sts_drain_aux (s : src) (k : snk) (aux : list N) :=
  sts_drain_aux_loop (sts_fuel s k (N.of_nat (length (s_stream s)))) s k aux.
