(* src/endpoints/buffer.c: the library's own chunk-style drivers - a byte buffer as source, a chunk list as source, a byte buffer
   as sink - under the generic loops of src/endpoints/core.c (written once more for an arbitrary chunk-style driver function). *)
From Ufw Require Import Base.Bits Base.Errno Model.ByteBuffer Model.Endpoints.
From Coq Require Import Bool.
Local Open Scope N_scope.
Local Open Scope bool_scope.

(* ---- the three drivers ---- *)
(* read_from_buffer: byte_buffer_consume_at_most *)
Definition read_from_buffer (b : bbuf) (n : N) : dres * list N * bbuf :=
  match bb_consume_at_most b n with
  | (Some e, _, b') => (DErr e, [], b')
  | (None, d, b') => (DOk (N.of_nat (length d)), d, b')
  end.

(* read_from_chunks: consume from the active chunk, stepping over exhausted ones *)
Record chunks := { c_list : list bbuf; c_active : nat }.
Fixpoint read_from_chunks_from (cs : list bbuf) (before : list bbuf) (active : nat) (n : N) : dres * list N * chunks :=
  match cs with
  | [] => (DErr ENODATA, [], {| c_list := before; c_active := active |})
  | b :: r =>
      match bb_consume_at_most b n with
      | (Some ENODATA, _, _) => read_from_chunks_from r (before ++ [b]) (S active) n
      | (Some e, _, b') => (DErr e, [], {| c_list := before ++ b' :: r; c_active := active |})
      | (None, d, b') => (DOk (N.of_nat (length d)), d, {| c_list := before ++ b' :: r; c_active := active |})
      end
  end.
Definition read_from_chunks (c : chunks) (n : N) : dres * list N * chunks :=
  read_from_chunks_from (skipn (c_active c) (c_list c)) (firstn (c_active c) (c_list c)) (c_active c) n.

(* write_to_buffer: byte_buffer_add, all or nothing *)
Definition write_to_buffer (b : bbuf) (xs : list N) : dres * bbuf :=
  match bb_add b xs (N.of_nat (length xs)) with
  | (Some e, b') => (DErr e, b')
  | (None, b') => (DOk (N.of_nat (length xs)), b')
  end.

(* ---- the generic loops for a chunk-style driver ---- *)
Section Source.
  Context {D : Type} (call : D -> N -> dres * list N * D).

  (* source_get_chunk: the loop of core.c; [fuel] bounds the number of driver calls *)
  Fixpoint get_chunk_loop_d (fuel : nat) (d : D) (n rest : N) (acc : list N) : option (dres * list N * D) :=
    if rest =? 0 then Some (DOk n, acc, d) else
    match fuel with
    | O => None
    | S f =>
        match call d rest with
        | (DErr e, _, d') => if is_retry e then get_chunk_loop_d f d' n rest acc else Some (DErr e, acc, d')
        | (DOk k, x, d') => get_chunk_loop_d f d' n (rest - k) (acc ++ x)
        end
    end.
  Definition get_chunk_d (fuel : nat) (d : D) (n : N) : option (dres * list N * D) :=
    if (n =? 0) || (SSIZE_MAX <? n) then Some (DErr EINVAL, [], d) else get_chunk_loop_d fuel d n n [].
  Definition get_chunk_atmost_d (d : D) (n : N) : dres * list N * D := call d n.
End Source.

Section Sink.
  Context {K : Type} (call : K -> list N -> dres * K).
  Fixpoint put_chunk_loop_k (fuel : nat) (k : K) (n : N) (xs : list N) : option (dres * K) :=
    match xs with
    | [] => Some (DOk n, k)
    | _ =>
        match fuel with
        | O => None
        | S f =>
            match call k xs with
            | (DErr e, k') => if is_retry e then put_chunk_loop_k f k' n xs else Some (DErr e, k')
            | (DOk c, k') => put_chunk_loop_k f k' n (skipn (N.to_nat c) xs)
            end
        end
    end.
  Definition put_chunk_k (fuel : nat) (k : K) (xs : list N) (n : N) : option (dres * K) :=
    if (n =? 0) || (SSIZE_MAX <? n) then Some (DErr EINVAL, k) else put_chunk_loop_k fuel k n (firstn (N.to_nat n) xs).
End Sink.

(* the library's instances; the fuel exceeds what the loops can use: every call but the last consumes an octet of the request *)
Definition buffer_get_chunk (b : bbuf) (n : N) := get_chunk_d read_from_buffer (S (S (N.to_nat (bb_rest b)))) b n.
Definition chunks_rest (c : chunks) : N := fold_right (fun b acc => bb_rest b + acc) 0 (skipn (c_active c) (c_list c)).
Definition chunks_get_chunk (c : chunks) (n : N) := get_chunk_d read_from_chunks (S (S (N.to_nat (chunks_rest c)))) c n.
Definition buffer_put_chunk (b : bbuf) (xs : list N) (n : N) := put_chunk_k write_to_buffer 2 b xs n.

(* source-to-sink, counted, buffer to buffer (no extension): per octet *)
Fixpoint buf_sts_n (fuel : nat) (total rest : N) (s k : bbuf) : option (dres * bbuf * bbuf) :=
  if rest =? 0 then Some (DOk total, s, k) else
  match fuel with
  | O => None
  | S f =>
      match read_from_buffer s 1 with
      | (DErr e, _, s') => Some (DErr e, s', k)
      | (DOk _, [], s') => None
      | (DOk _, x :: _, s') =>
          match write_to_buffer k [x] with
          | (DErr e, k') => Some (DErr e, s', k')
          | (DOk c, k') => buf_sts_n f total (rest - c) s' k'
          end
      end
  end.
