(* CRC-16/ARC: the model folds the *generated* octet step (Gen/CrcGen.v,
   translated from src/crc-16-arc.c on every run) the way the three C loops do;
   the specification is the bit-serial reflected LFSR. *)
From Ufw Require Import Base.Bits Base.Cexpr Gen.CrcGen.
From Coq Require Import String.
Local Open Scope N_scope.

Definition crc_tabs (name : string) : list Z :=
  if String.eqb name "crc16_table" then crc16_table_gen else [].

Definition crc16_octet (crc d : N) : N :=
  Z.to_N (eval (bind "crc" (Z.of_N crc) (bind "data" (Z.of_N d) env0)) crc_tabs crc16_octet_body).

(* ufw_crc16_arc *)
Definition crc_bytes (c : N) (l : list N) : N := fold_left crc16_octet l c.

(* ufw_crc16_arc_u16: the two octets of a word in the order the source feeds them *)
Definition u16_first (w : N) : N := Z.to_N (eval (bind "w" (Z.of_N w) env0) crc_tabs crc16_u16_first).
Definition u16_second (w : N) : N := Z.to_N (eval (bind "w" (Z.of_N w) env0) crc_tabs crc16_u16_second).
Definition crc_u16 (c : N) (ws : list N) : N :=
  fold_left (fun c w => crc16_octet (crc16_octet c (u16_first w)) (u16_second w)) ws c.

(* ---- specification: catalogue definition of CRC-16/ARC
   width 16, poly 0x8005, refin = refout = true (=> shift right with the
   reflected polynomial 0xA001), init supplied by the caller, xorout 0. *)
Definition poly_reflected : N := 40961.  (* 0xA001 *)
Definition bitstep (x : N) : N :=
  N.lxor (N.shiftr x 1) (if N.odd x then poly_reflected else 0).
Definition step8 (x : N) : N :=
  bitstep (bitstep (bitstep (bitstep (bitstep (bitstep (bitstep (bitstep x))))))).
Definition spec_octet (c d : N) : N := step8 (N.lxor c d).
Definition spec_crc (c : N) (l : list N) : N := fold_left spec_octet l c.

(* in-memory octet image of a uint16_t on this (little-endian) host *)
Definition host_bytes16 (w : N) : list N := [w mod 256; w / 256].
