(* src/rfc1055.c: SLIP framing (classic and start-of-frame mode) *)
From Ufw Require Import Base.Bits Base.Errno Model.Endpoints.
From Coq Require Import Bool.
Local Open Scope N_scope.
Local Open Scope bool_scope.

Definition RAW_EOF : N := 192. (* 0xc0 *)
Definition RAW_ESC : N := 219. (* 0xdb *)
Definition ESC_EOF : N := 220. (* 0xdc *)
Definition ESC_ESC : N := 221. (* 0xdd *)

Inductive sstate := SearchStart | SearchEnd | Normal.
Definition slip_init (sof : bool) : sstate := if sof then SearchStart else Normal.

(* ---------- specification of the encoding ---------- *)
Definition esc_octet (d : N) : list N :=
  if d =? RAW_ESC then [RAW_ESC; ESC_ESC]
  else if d =? RAW_EOF then [RAW_ESC; ESC_EOF]
  else [d].
Definition slip_encode (sof : bool) (p : list N) : list N :=
  (if sof then [RAW_EOF] else []) ++ flat_map esc_octet p ++ [RAW_EOF].

(* ---------- operational encoder over scripted endpoints ---------- *)
(* result: None = 0 (success), Some e = -e *)
Definition put_octet_rc (k : snk) (x : N) : option errno * snk :=
  match sink_put_octet k x with
  | (DErr e, k') => (Some e, k')
  | (DOk _, k') => (None, k')
  end.

Definition encode_octet_op (k : snk) (d : N) : option (option errno * snk) :=
  if (d =? RAW_ESC) || (d =? RAW_EOF) then
    match sink_put_chunk k (esc_octet d) 2 with
    | None => None
    | Some (DErr e, k') => Some (Some e, k')
    | Some (DOk _, k') => Some (None, k')
    end
  else Some (put_octet_rc k d).

Fixpoint encode_loop (fuel : nat) (s : src) (k : snk) : option (option errno * src * snk) :=
  match fuel with
  | O => None
  | S f =>
      match source_get_octet s with
      | (DErr ENODATA, _, s') => Some (let '(e, k') := put_octet_rc k RAW_EOF in (e, s', k'))
      | (DErr e, _, s') => Some (Some e, s', k)
      | (DOk 0, _, s') => Some (let '(e, k') := put_octet_rc k RAW_EOF in (e, s', k'))
      | (DOk _, d :: _, s') =>
          match encode_octet_op k d with
          | None => None
          | Some (Some e, k') => Some (Some e, s', k')
          | Some (None, k') => encode_loop f s' k'
          end
      | (DOk _, [], s') => Some (Some (EOTHER 0), s', k)
      end
  end.

Definition slip_encode_op (sof : bool) (s : src) (k : snk) : option (option errno * src * snk) :=
  let fuel := S (length (s_stream s) + length (s_script s) + 1) in
  if sof then
    match put_octet_rc k RAW_EOF with
    | (Some e, k') => Some (Some e, s, k')
    | (None, k') => encode_loop fuel s k'
    end
  else encode_loop fuel s k.

(* ---------- operational decoder: one call of rfc1055_decode ---------- *)
Inductive drc := DFrame | DFail (e : errno).

(* rfc1055_decode_octet: Some (inl data, count) | end of frame | error(data) *)
Inductive doct := OData (d : N) | OEnd | OIlseq (d : N) | OErr (e : errno).
Definition decode_octet (s : src) : doct * src :=
  match source_get_octet s with
  | (DErr e, _, s') => (OErr e, s')
  | (DOk _, [], s') => (OErr (EOTHER 0), s')
  | (DOk _, first :: _, s') =>
      if first =? RAW_ESC then
        match source_get_octet s' with
        | (DErr e, _, s'') => (OErr e, s'')
        | (DOk _, [], s'') => (OErr (EOTHER 0), s'')
        | (DOk _, second :: _, s'') =>
            if second =? ESC_EOF then (OData RAW_EOF, s'')
            else if second =? ESC_ESC then (OData RAW_ESC, s'')
            else (OIlseq second, s'')
        end
      else if first =? RAW_EOF then (OEnd, s')
      else (OData first, s')
  end.

(* transition(): Some true = saw END, Some false = other octet *)
Definition transition (s : src) : (errno + bool) * src :=
  match source_get_octet s with
  | (DErr e, _, s') => (inl e, s')
  | (DOk _, [], s') => (inl (EOTHER 0), s')
  | (DOk _, d :: _, s') => (inr (d =? RAW_EOF), s')
  end.

Fixpoint decode_loop (fuel : nat) (sof : bool) (st : sstate) (s : src) (k : snk)
  : option (drc * sstate * src * snk) :=
  match fuel with
  | O => None
  | S f =>
      match st with
      | SearchStart =>
          match transition s with
          | (inl e, s') => Some (DFail e, st, s', k)
          | (inr true, s') => decode_loop f sof Normal s' k
          | (inr false, s') => Some (DFail EILSEQ, SearchEnd, s', k)
          end
      | SearchEnd =>
          match transition s with
          | (inl e, s') => Some (DFail e, st, s', k)
          | (inr true, s') => decode_loop f sof (if sof then SearchStart else Normal) s' k
          | (inr false, s') => decode_loop f sof SearchEnd s' k
          end
      | Normal =>
          match decode_octet s with
          | (OIlseq d, s') =>
              Some (DFail EILSEQ,
                    (if d =? RAW_EOF then (if sof then SearchStart else Normal) else SearchEnd), s', k)
          | (OErr EILSEQ, s') => Some (DFail EILSEQ, SearchEnd, s', k)  (* a source's own -EILSEQ is taken for an invalid escape with data = 0 *)
          | (OErr e, s') => Some (DFail e, st, s', k)
          | (OEnd, s') => Some (DFrame, (if sof then SearchStart else Normal), s', k)
          | (OData d, s') =>
              match put_octet_rc k d with
              | (Some e, k') => Some (DFail e, st, s', k')
              | (None, k') => decode_loop f sof Normal s' k'
              end
          end
      end
  end.

Definition slip_decode_op (sof : bool) (st : sstate) (s : src) (k : snk) :=
  decode_loop (S (length (s_stream s) + length (s_script s) + 1)) sof st s k.

(* ---------- pure decoder on octet lists (plain source, accepting sink) ---------- *)
(* one call: verdict, octets emitted, remaining input, next state; structural on the input *)
Inductive pres := PFrame | PIlseq | PNoData.

Definition after_frame (sof : bool) : sstate := if sof then SearchStart else Normal.

Fixpoint pdecode (sof : bool) (st : sstate) (inp : list N) (out : list N) {struct inp}
  : pres * list N * list N * sstate :=
  match inp with
  | [] => (PNoData, out, [], st)
  | d :: r =>
      match st with
      | SearchStart =>
          if d =? RAW_EOF then pdecode sof Normal r out else (PIlseq, out, r, SearchEnd)
      | SearchEnd =>
          if d =? RAW_EOF then pdecode sof (after_frame sof) r out else pdecode sof SearchEnd r out
      | Normal =>
          if d =? RAW_ESC then
            match r with
            | [] => (PNoData, out, [], Normal)
            | e :: r' =>
                if e =? ESC_EOF then pdecode sof Normal r' (out ++ [RAW_EOF])
                else if e =? ESC_ESC then pdecode sof Normal r' (out ++ [RAW_ESC])
                else (PIlseq, out, r', if e =? RAW_EOF then after_frame sof else SearchEnd)
            end
          else if d =? RAW_EOF then (PFrame, out, r, after_frame sof)
          else pdecode sof Normal r (out ++ [d])
      end
  end.

(* the results of calling the decoder again and again until the input is exhausted *)
Fixpoint trace (sof : bool) (st : sstate) (inp : list N) (out : list N) {struct inp} : list (pres * list N) :=
  match inp with
  | [] => [(PNoData, out)]
  | d :: r =>
      match st with
      | SearchStart =>
          if d =? RAW_EOF then trace sof Normal r out else (PIlseq, out) :: trace sof SearchEnd r []
      | SearchEnd =>
          if d =? RAW_EOF then trace sof (after_frame sof) r out else trace sof SearchEnd r out
      | Normal =>
          if d =? RAW_ESC then
            match r with
            | [] => [(PNoData, out)]
            | e :: r' =>
                if e =? ESC_EOF then trace sof Normal r' (out ++ [RAW_EOF])
                else if e =? ESC_ESC then trace sof Normal r' (out ++ [RAW_ESC])
                else (PIlseq, out) :: trace sof (if e =? RAW_EOF then after_frame sof else SearchEnd) r' []
            end
          else if d =? RAW_EOF then (PFrame, out) :: trace sof (after_frame sof) r []
          else trace sof Normal r (out ++ [d])
      end
  end.
