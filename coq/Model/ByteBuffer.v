(* src/byte-buffer.c.  A buffer is a view {size; used; offset} onto a memory
   region [mem]; every operation returns the new view and memory.  Lengths are N
   (size_t values up to 2^64-1 are passed by callers). *)
From Ufw Require Import Base.Bits Base.Errno.
From Coq Require Import Bool.
Local Open Scope N_scope.
Local Open Scope bool_scope.

Record bbuf := { bb_mem : list N; bb_size : N; bb_used : N; bb_offset : N }.

Definition bb_with_mem (b : bbuf) (m : list N) : bbuf :=
  {| bb_mem := m; bb_size := bb_size b; bb_used := bb_used b; bb_offset := bb_offset b |}.

(* byte_buffer_set: [nonnull] = (data != NULL) *)
Definition bb_set (nonnull : bool) (mem : list N) (size used offset : N) : option bbuf :=
  if negb nonnull || (size =? 0) || (size <? used) || (used <? offset) then None
  else Some {| bb_mem := mem; bb_size := size; bb_used := used; bb_offset := offset |}.

Definition bb_use nonnull mem size := bb_set nonnull mem size size 0.
Definition bb_space nonnull mem size := bb_set nonnull mem size 0 0.

Definition bb_avail (b : bbuf) : N := bb_size b - bb_used b.
Definition bb_rest (b : bbuf) : N := bb_used b - bb_offset b.

(* byte_buffer_add(b, data, n): [xs] is the caller's memory at [data]; the call
   reads its first n octets when it accepts. *)
Definition bb_add (b : bbuf) (xs : list N) (n : N) : option errno * bbuf :=
  if bb_avail b <? n then (Some ENOMEM, b)
  else (None, {| bb_mem := blit (bb_mem b) (N.to_nat (bb_used b)) (firstn (N.to_nat n) xs);
                 bb_size := bb_size b; bb_used := bb_used b + n; bb_offset := bb_offset b |}).

Definition bb_unread_slice (b : bbuf) (n : N) : list N :=
  slice (bb_mem b) (N.to_nat (bb_offset b)) (N.to_nat n).

Definition bb_consume (b : bbuf) (n : N) : option errno * list N * bbuf :=
  if bb_rest b <? n then (Some ENODATA, [], b)
  else (None, bb_unread_slice b n,
        {| bb_mem := bb_mem b; bb_size := bb_size b; bb_used := bb_used b; bb_offset := bb_offset b + n |}).

(* returns the count (Some k) or ENODATA *)
Definition bb_consume_at_most (b : bbuf) (n : N) : option errno * list N * bbuf :=
  let rest := bb_rest b in
  if rest =? 0 then (Some ENODATA, [], b)
  else let k := if rest <? n then rest else n in
       (None, bb_unread_slice b k,
        {| bb_mem := bb_mem b; bb_size := bb_size b; bb_used := bb_used b; bb_offset := bb_offset b + k |}).

Definition bb_rewind (b : bbuf) : bbuf :=
  if bb_offset b =? 0 then b
  else {| bb_mem := blit (bb_mem b) 0 (bb_unread_slice b (bb_rest b));
          bb_size := bb_size b; bb_used := bb_rest b; bb_offset := 0 |}.

Definition bb_clear (b : bbuf) : bbuf :=
  {| bb_mem := blit (bb_mem b) 0 (repeat 0 (N.to_nat (bb_size b)));
     bb_size := bb_size b; bb_used := 0; bb_offset := 0 |}.
Definition bb_reset (b : bbuf) : bbuf :=
  {| bb_mem := bb_mem b; bb_size := bb_size b; bb_used := 0; bb_offset := 0 |}.
Definition bb_repeat (b : bbuf) : bbuf :=
  {| bb_mem := bb_mem b; bb_size := bb_size b; bb_used := bb_used b; bb_offset := 0 |}.

(* abstraction *)
Definition bb_filled (b : bbuf) : list N := firstn (N.to_nat (bb_used b)) (bb_mem b).
Definition bb_unread (b : bbuf) : list N := skipn (N.to_nat (bb_offset b)) (bb_filled b).
(* the memory from the read position to the end of the buffer *)
Definition bb_tail (b : bbuf) : list N := skipn (N.to_nat (bb_offset b)) (firstn (N.to_nat (bb_size b)) (bb_mem b)).
Definition bb_inv (b : bbuf) : Prop :=
  bb_offset b <= bb_used b /\ bb_used b <= bb_size b /\ bb_size b <= N.of_nat (length (bb_mem b)).

(* ---- operation histories (correspondence + theorems) ---- *)
Inductive bbop :=
| OpSet (nonnull : bool) (size used offset : N)
| OpAdd (xs : list N) (n : N)
| OpConsume (n : N) | OpConsumeAtMost (n : N)
| OpRewind | OpClear | OpReset | OpRepeat.

Inductive bbout :=
| OutRc (e : option errno)                 (* 0 or -errno *)
| OutData (e : option errno) (d : list N)  (* consume: rc + octets delivered *)
| OutCount (e : option errno) (d : list N) (* consume_at_most: count = |d| *)
| OutVoid.

Definition bb_step (b : bbuf) (o : bbop) : bbuf * bbout :=
  match o with
  | OpSet nn size used offset =>
      match bb_set nn (bb_mem b) size used offset with
      | Some b' => (b', OutRc None)
      | None => (b, OutRc (Some EINVAL))
      end
  | OpAdd xs n => let '(e, b') := bb_add b xs n in (b', OutRc e)
  | OpConsume n => let '(e, d, b') := bb_consume b n in (b', OutData e d)
  | OpConsumeAtMost n => let '(e, d, b') := bb_consume_at_most b n in (b', OutCount e d)
  | OpRewind => (bb_rewind b, OutRc None)
  | OpClear => (bb_clear b, OutVoid)
  | OpReset => (bb_reset b, OutVoid)
  | OpRepeat => (bb_repeat b, OutVoid)
  end.
