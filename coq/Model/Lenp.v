(* src/length-prefix.c *)
From Ufw Require Import Base.Bits Base.Errno Model.ByteBuffer Model.Endpoints Model.Varint.
From Coq Require Import Bool.
Local Open Scope N_scope.
Local Open Scope bool_scope.

Inductive lkind := LVar | LOct | LLe16 | LLe32 | LBe16 | LBe32.

Definition lk_size (k : lkind) : N :=
  match k with LVar => 0 | LOct => 1 | LLe16 | LBe16 => 2 | LLe32 | LBe32 => 4 end.
Definition lk_max (k : lkind) : N :=
  match k with
  | LVar => SSIZE_MAX | LOct => 255 | LLe16 | LBe16 => 65535 | LLe32 | LBe32 => 4294967295
  end.

Definition lenp_prefix (k : lkind) (n : N) : list N :=
  match k with
  | LVar => vi_encode n
  | LOct => [n]
  | LLe16 => le_bytes 2 n | LLe32 => le_bytes 4 n
  | LBe16 => be_bytes 2 n | LBe32 => be_bytes 4 n
  end.

(* encode_prefix: Some prefix octets, or EINVAL *)
Definition encode_prefix (k : lkind) (n : N) : option (list N) :=
  if (SSIZE_MAX <? n) || (lk_max k <? n) then None else Some (lenp_prefix k n).

(* flenp_memory_to_sink(k, sink, buf, n): xs = the n octets at buf *)
Definition lenp_memory_to_sink (k : lkind) (snk0 : snk) (xs : list N) (n : N) : option (dres * snk) :=
  match encode_prefix k n with
  | None => Some (DErr EINVAL, snk0)
  | Some p =>
      let numlen := N.of_nat (length p) in
      if SSIZE_MAX - numlen <? n then Some (DErr EINVAL, snk0) else
      match sink_put_chunk snk0 p numlen with
      | None => None
      | Some (DErr e, k1) => Some (DErr e, k1)
      | Some (DOk _, k1) =>
          match sink_put_chunk k1 xs n with
          | None => None
          | Some (DErr e, k2) => Some (DErr e, k2)
          | Some (DOk _, k2) => Some (DOk (numlen + n), k2)
          end
      end
  end.

Definition lenp_buffer_to_sink (k : lkind) (snk0 : snk) (b : bbuf) : option (dres * snk) :=
  lenp_memory_to_sink k snk0 (bb_unread b) (bb_rest b).

(* ..._to_sink_n: the first n unread octets; the buffer is advanced by n *)
Definition lenp_buffer_to_sink_n (k : lkind) (snk0 : snk) (b : bbuf) (n : N) : option (dres * snk * bbuf) :=
  if bb_rest b <? n then Some (DErr EINVAL, snk0, b) else
  match lenp_memory_to_sink k snk0 (bb_unread b) n with
  | None => None
  | Some (r, k') => Some (r, k', {| bb_mem := bb_mem b; bb_size := bb_size b; bb_used := bb_used b;
                                    bb_offset := bb_offset b + n |})
  end.

(* chunk lists: [active] chunks already consumed are skipped; empty chunks are allowed *)
Definition chunks_payload (active : nat) (cs : list bbuf) : list (list N) :=
  map bb_unread (skipn active cs).

Fixpoint put_chunks (snk0 : snk) (ps : list (list N)) : option (dres * snk) :=
  match ps with
  | [] => Some (DOk 0, snk0)
  | p :: r =>
      match p with
      | [] => put_chunks snk0 r
      | _ => match sink_put_chunk snk0 p (N.of_nat (length p)) with
             | None => None
             | Some (DErr e, k1) => Some (DErr e, k1)
             | Some (DOk _, k1) => put_chunks k1 r
             end
      end
  end.

Definition lenp_chunks_to_sink (k : lkind) (snk0 : snk) (active : nat) (cs : list bbuf) : option (dres * snk) :=
  let ps := chunks_payload active cs in
  let size := N.of_nat (length (List.concat ps)) in
  match encode_prefix k size with
  | None => Some (DErr EINVAL, snk0)
  | Some p =>
      let numlen := N.of_nat (length p) in
      if SSIZE_MAX - numlen <? size then Some (DErr EINVAL, snk0) else
      match sink_put_chunk snk0 p numlen with
      | None => None
      | Some (DErr e, k1) => Some (DErr e, k1)
      | Some (DOk _, k1) =>
          match put_chunks k1 ps with
          | None => None
          | Some (DErr e, k2) => Some (DErr e, k2)
          | Some (DOk _, k2) => Some (DOk (numlen + size), k2)
          end
      end
  end.

(* prefix objects: (prefix octets, payload view) *)
Definition lenp_memory_encode (k : lkind) (xs : list N) (n : N) : option errno * list N * list N :=
  match encode_prefix k n with
  | None => (Some EINVAL, [], [])
  | Some p => if n =? 0 then (Some EINVAL, p, []) else (None, p, firstn (N.to_nat n) xs)
  end.
Definition lenp_buffer_encode (k : lkind) (b : bbuf) := lenp_memory_encode k (bb_unread b) (bb_rest b).
Definition lenp_buffer_encode_n (k : lkind) (b : bbuf) (n : N) : option errno * list N * list N * bbuf :=
  if bb_rest b <? n then (Some EINVAL, [], [], b) else
  let '(e, p, pl) := lenp_memory_encode k (bb_unread b) n in
  (e, p, pl, {| bb_mem := bb_mem b; bb_size := bb_size b; bb_used := bb_used b; bb_offset := bb_offset b + n |}).
Definition lenp_chunks_use (k : lkind) (active : nat) (cs : list bbuf) : option errno * list N :=
  match encode_prefix k (N.of_nat (length (List.concat (chunks_payload active cs)))) with
  | None => (Some EINVAL, [])
  | Some p => (None, p)
  end.

(* ---------- decoding ---------- *)
Definition decode_prefix (k : lkind) (s : src) : option (dres * src) :=
  match k with
  | LVar => match vi_from_source KU64 s with
            | (SOk u _, s') => Some (DOk u, s')
            | (SIllegal, s') => Some (DErr EILSEQ, s')
            | (SErr e, s') => Some (DErr e, s')
            end
  | _ => match source_get_chunk s (lk_size k) with
         | None => None
         | Some (DErr e, _, s') => Some (DErr e, s')
         | Some (DOk _, d, s') =>
             Some (DOk (match k with LBe16 | LBe32 => of_be d | _ => of_le d end), s')
         end
  end.

(* flenp_memory_from_source: result, octets written to the destination (from its start) *)
Definition lenp_memory_from_source (k : lkind) (s : src) (size : N) : option (dres * list N * src) :=
  match decode_prefix k s with
  | None => None
  | Some (DErr e, s') => Some (DErr e, [], s')
  | Some (DOk len, s') =>
      if size <? len then Some (DErr ENOMEM, [], s')
      else source_get_chunk s' len
  end.

(* flenp_buffer_from_source: appends at [used] *)
Definition lenp_buffer_from_source (k : lkind) (s : src) (b : bbuf) : option (dres * src * bbuf) :=
  match lenp_memory_from_source k s (bb_avail b) with
  | None => None
  | Some (DOk c, d, s') =>
      Some (DOk c, s', {| bb_mem := blit (bb_mem b) (N.to_nat (bb_used b)) d; bb_size := bb_size b;
                          bb_used := bb_used b + c; bb_offset := bb_offset b |})
  | Some (DErr e, d, s') =>
      Some (DErr e, s', bb_with_mem b (blit (bb_mem b) (N.to_nat (bb_used b)) d))
  end.

Definition lenp_decode_source_to_sink (k : lkind) (s : src) (snk0 : snk) : option (dres * src * snk) :=
  match decode_prefix k s with
  | None => None
  | Some (DErr e, s') => Some (DErr e, s', snk0)
  | Some (DOk len, s') => sts_n s' snk0 len
  end.
