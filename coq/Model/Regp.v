(* src/register-protocol.c: the register protocol (doc/regp.txt), at octet level.
   A 16-bit payload word travels as the two octets of its in-memory image on the sending host (little-endian). *)
From Ufw Require Import Base.Bits Base.Errno Model.Crc Model.ByteBuffer Model.Endpoints Model.Varint Model.Slip Model.Lenp.
From Coq Require Import Bool.
Local Open Scope N_scope.
Local Open Scope bool_scope.

Definition SIZEOF_RPFRAME : N := 64.
Definition RP_VERSION : N := 0.
(* frame types *)
Definition T_READ_REQ : N := 0.  Definition T_READ_RESP : N := 1.
Definition T_WRITE_REQ : N := 2. Definition T_WRITE_RESP : N := 3. Definition T_META : N := 15.
(* option bits *)
Definition OPT_W16 : N := 1. Definition OPT_HDCRC : N := 2. Definition OPT_PLCRC : N := 4.
(* response codes *)
Definition R_ACK : N := 0. Definition R_EWORDSIZE : N := 1. Definition R_EPAYLOADCRC : N := 2. Definition R_EPAYLOADSIZE : N := 3.
Definition R_ERXOVERFLOW : N := 4. Definition R_ETXOVERFLOW : N := 5. Definition R_EBUSY : N := 6. Definition R_EUNMAPPED : N := 7.
Definition R_EACCESS : N := 8. Definition R_ERANGE : N := 9. Definition R_EINVALID : N := 10. Definition R_EIO : N := 11.
Definition META_EHEADERENC : N := 1. Definition META_EHEADERCRC : N := 2.

Record regp := { g_mem16 : bool; g_serial : bool; g_seq : N; g_blocksize : N }.

Inductive msem := MAuto | M8 | M16.

(* the CRC the implementation uses is the spec CRC (C16); the model uses the specification directly *)
Definition crc (l : list N) : N := spec_crc 0 l.

Definition make_motv (p : regp) (ms : msem) (meta type n : N) : N :=
  let w16 := match ms with MAuto => g_mem16 p | M16 => true | M8 => false end in
  let opts := (if w16 then OPT_W16 else 0)
              + (if g_serial p then OPT_HDCRC else 0)
              + (if g_serial p && negb (n =? 0) && negb (type =? T_READ_REQ) then OPT_PLCRC else 0) in
  RP_VERSION mod 16 + 16 * (type mod 16) + 256 * opts + 4096 * (meta mod 16).

(* encode_header: the header octets that go on the wire *)
Definition encode_header (p : regp) (ms : msem) (type meta seq addr n plcrc : N) : list N :=
  let motv := make_motv p ms meta type n in
  let base := be_bytes 2 motv ++ be_bytes 2 (seq mod 65536) ++ be_bytes 4 (addr mod 2 ^ 32) ++ be_bytes 4 (n mod 2 ^ 32) in
  let with_hd := N.testbit motv 9 in
  let with_pl := N.testbit motv 10 in
  let plc := be_bytes 2 plcrc in
  if with_hd then
    let c := if with_pl then crc (base ++ plc) else crc base in
    base ++ be_bytes 2 c ++ (if with_pl then plc else [])
  else base ++ (if with_pl then [0; 0] else []).

(* send_memory: framing of header ++ payload for the session's transport *)
Definition frame_wire (p : regp) (hdr payload : list N) : list N :=
  if g_serial p then slip_encode false (hdr ++ payload)
  else vi_encode (N.of_nat (length (hdr ++ payload))) ++ hdr ++ payload.

Definition req2resp (type : N) : N :=
  if type =? T_READ_REQ then T_READ_RESP else if type =? T_WRITE_REQ then T_WRITE_RESP else T_META.

(* ---- frames as parsed ---- *)
Record rframe := { f_type : N; f_opts : N; f_meta : N; f_seq : N; f_addr : N; f_bsize : N;
                   f_hdcrc : N; f_plcrc : N; f_hlen : N (* header octets *); f_payload : list N }.

Definition is_request (f : rframe) : bool := (f_type f =? T_READ_REQ) || (f_type f =? T_WRITE_REQ).
Definition has_w16 (f : rframe) : bool := N.testbit (f_opts f) 0.
Definition has_hdcrc (f : rframe) : bool := N.testbit (f_opts f) 1.
Definition has_plcrc (f : rframe) : bool := N.testbit (f_opts f) 2.

Inductive perr := PE_BADMSG | PE_ILSEQ | PE_FAULT | PE_PROTO.
Definition perr_errno (e : perr) : errno :=
  match e with PE_BADMSG => EBADMSG | PE_ILSEQ => EILSEQ | PE_FAULT => EFAULT | PE_PROTO => EPROTO end.

(* parse_header on the raw frame octets *)
Definition parse_header (raw : list N) : perr + rframe :=
  let n := N.of_nat (length raw) in
  if n <? 12 then inl PE_BADMSG else
  let motv := of_be (firstn 2 raw) in
  let version := motv mod 16 in
  let type := (motv / 16) mod 16 in
  let opts := (motv / 256) mod 16 in
  let meta := (motv / 4096) mod 16 in
  if negb (version =? RP_VERSION) then inl PE_BADMSG else
  if N.testbit opts 3 then inl PE_BADMSG else
  let type_ok :=
    if (type =? T_READ_REQ) || (type =? T_WRITE_REQ) then meta =? 0
    else if (type =? T_READ_RESP) || (type =? T_WRITE_RESP) then meta <=? R_EIO
    else if type =? T_META then (1 <=? meta) && (meta <=? 2)
    else false in
  if negb type_ok then inl PE_BADMSG else
  let with_hd := N.testbit opts 1 in
  let with_pl := N.testbit opts 2 in
  if with_hd && with_pl && (n <? 16) then inl PE_BADMSG else
  if (with_hd || with_pl) && (n <? 14) then inl PE_BADMSG else
  let seq := of_be (slice raw 2 2) in
  let addr := of_be (slice raw 4 4) in
  let bsize := of_be (slice raw 8 4) in
  let hdcrc := if with_hd then of_be (slice raw 12 2) else 0 in
  let ploff := if with_hd then 14%nat else 12%nat in
  let plcrc := if with_pl then of_be (slice raw ploff 2) else 0 in
  let hlen := 12 + (if with_hd then 2 else 0) + (if with_pl then 2 else 0) in
  let c := if with_hd then (if with_pl then crc (firstn 12 raw ++ slice raw 14 2) else crc (firstn 12 raw)) else 0 in
  if negb (c =? hdcrc) then inl PE_ILSEQ else
  inr {| f_type := type; f_opts := opts; f_meta := meta; f_seq := seq; f_addr := addr; f_bsize := bsize;
         f_hdcrc := hdcrc; f_plcrc := plcrc; f_hlen := hlen; f_payload := skipn (N.to_nat hlen) raw |}.

(* payload_plausible: the payload size rule per type, in the frame's declared word size *)
Definition payload_plausible (f : rframe) : bool :=
  let sz := N.of_nat (length (f_payload f)) in
  if has_w16 f && N.odd sz then false else
  let actual := if has_w16 f then sz / 2 else sz in
  if (f_type f =? T_READ_REQ) || (f_type f =? T_META) then actual =? 0
  else f_bsize f =? actual.

(* check_payload: verified whenever the frame declares a payload checksum and carries payload *)
Definition check_payload (f : rframe) : bool :=
  if negb (has_plcrc f) || (length (f_payload f) =? 0)%nat then true
  else crc (f_payload f) =? f_plcrc f.

Definition parse_frame (raw : list N) : perr + rframe :=
  match parse_header raw with
  | inl e => inl e
  | inr f => if negb (payload_plausible f) then inl PE_FAULT
             else if negb (check_payload f) then inl PE_PROTO else inr f
  end.

(* ---- replies ---- *)
Definition resp_0 (p : regp) (f : rframe) (code : N) : list N :=
  frame_wire p (encode_header p M8 (req2resp (f_type f)) code (f_seq f) (f_addr f) 0 0) [].
Definition resp_32 (p : regp) (f : rframe) (code pl : N) : list N :=
  let plo := be_bytes 4 (pl mod 2 ^ 32) in
  frame_wire p (encode_header p M8 (req2resp (f_type f)) code (f_seq f) (f_addr f) 4 (crc plo)) plo.
Definition resp_meta (p : regp) (meta : N) : list N :=
  frame_wire p (encode_header p M8 T_META meta 0 0 0 0) [].
(* regp_resp_ack: n units of the attached memory's word size, payload octets pl *)
Definition resp_ack (p : regp) (f : rframe) (pl : list N) (n : N) : list N :=
  frame_wire p (encode_header p MAuto (req2resp (f_type f)) 0 (f_seq f) (f_addr f) n (crc pl)) pl.

(* requests *)
Definition req_read (p : regp) (w16 : bool) (addr n : N) : list N * regp :=
  (frame_wire p (encode_header p (if w16 then M16 else M8) T_READ_REQ 0 (g_seq p) addr n 0) [],
   {| g_mem16 := g_mem16 p; g_serial := g_serial p; g_seq := (g_seq p + 1) mod 65536; g_blocksize := g_blocksize p |}).
Definition req_write (p : regp) (w16 : bool) (addr n : N) (pl : list N) : list N * regp :=
  (frame_wire p (encode_header p (if w16 then M16 else M8) T_WRITE_REQ 0 (g_seq p) addr n (crc pl)) pl,
   {| g_mem16 := g_mem16 p; g_serial := g_serial p; g_seq := (g_seq p + 1) mod 65536; g_blocksize := g_blocksize p |}).

(* ---- reception ---- *)
(* what regp_recv hands back: the channel result, the error id, the frame (when a block was allocated and the
   header parsed), whether a block is handed to the caller (to be released with regp_free), whether the receiver
   released a block itself, and the octets it sent *)
Inductive recv_rc := RcOk | RcChannel (e : errno).
Record recv_result := { rr_rc : recv_rc; rr_errid : option errno; rr_frame : option rframe;
                        rr_block_to_caller : bool; rr_allocated : bool; rr_freed_by_recv : bool;
                        rr_reply : list N; rr_rest : src }.

(* deframing into an accept-everything sink: (channel error or end of frame, octets delivered, source after) *)
Definition deframe (p : regp) (s : src) : option (option errno * list N * src) :=
  if g_serial p then
    match slip_decode_op false Normal s (snk_plain false) with
    | None => None
    | Some (DFrame, _, s', k) => Some (None, k_got k, s')
    | Some (DFail e, _, s', k) => Some (Some e, k_got k, s')
    end
  else
    match lenp_decode_source_to_sink LVar s (snk_plain false) with
    | None => None
    | Some (DOk _, s', k) => Some (None, k_got k, s')
    | Some (DErr e, s', k) => Some (Some e, k_got k, s')
    end.

(* early replies are built from the first 16 octets that arrived *)
Definition early_response (p : regp) (hdr : list N) (code : N) : list N :=
  match parse_header hdr with
  | inr f => resp_0 p f code
  | inl PE_BADMSG => resp_meta p META_EHEADERENC
  | inl PE_ILSEQ => resp_meta p META_EHEADERCRC
  | inl _ => []
  end.

Definition regp_recv (p : regp) (s : src) (alloc_ok : bool) : option recv_result :=
  match deframe p s with
  | None => None
  | Some (chan, octets, s') =>
      let called := negb (length octets =? 0)%nat in              (* the sink allocates on its first call *)
      let allocated := called && alloc_ok in
      match chan with
      | Some e =>
          (* channel error: nothing is handed to the caller; an allocated block is released by the receiver *)
          Some {| rr_rc := RcChannel e; rr_errid := None; rr_frame := None; rr_block_to_caller := false;
                  rr_allocated := allocated; rr_freed_by_recv := allocated; rr_reply := []; rr_rest := s' |}
      | None =>
          if negb called then
            (* an empty frame: shorter than a header *)
            Some {| rr_rc := RcOk; rr_errid := Some EBADMSG; rr_frame := None; rr_block_to_caller := false;
                    rr_allocated := false; rr_freed_by_recv := false; rr_reply := resp_meta p META_EHEADERENC; rr_rest := s' |}
          else if negb alloc_ok then
            Some {| rr_rc := RcOk; rr_errid := Some EBUSY; rr_frame := None; rr_block_to_caller := false;
                    rr_allocated := false; rr_freed_by_recv := false;
                    rr_reply := early_response p (firstn 16 octets) R_EBUSY; rr_rest := s' |}
          else if g_blocksize p - SIZEOF_RPFRAME <? N.of_nat (length octets) then
            Some {| rr_rc := RcOk; rr_errid := Some ENOMEM; rr_frame := None; rr_block_to_caller := true;
                    rr_allocated := true; rr_freed_by_recv := false;
                    rr_reply := early_response p (firstn 16 (firstn (N.to_nat (g_blocksize p - SIZEOF_RPFRAME)) octets)) R_ERXOVERFLOW;
                    rr_rest := s' |}
          else
            match parse_frame octets with
            | inr f => Some {| rr_rc := RcOk; rr_errid := None; rr_frame := Some f; rr_block_to_caller := true;
                               rr_allocated := true; rr_freed_by_recv := false; rr_reply := []; rr_rest := s' |}
            | inl e =>
                let fr := match parse_header octets with inr f => Some f | inl _ => None end in
                Some {| rr_rc := RcOk; rr_errid := Some (perr_errno e); rr_frame := fr; rr_block_to_caller := true;
                        rr_allocated := true; rr_freed_by_recv := false;
                        rr_reply := match e with PE_BADMSG => resp_meta p META_EHEADERENC
                                               | PE_ILSEQ => resp_meta p META_EHEADERCRC | _ => [] end;
                        rr_rest := s' |}
            end
      end
  end.

(* ---- processing ---- *)
(* the memory backend: a verdict (response code, reported address) and, for reads, the data it delivered *)
Record backend_call := { bc_write : bool; bc_addr : N; bc_bsize : N; bc_payload : list N (* writes *); bc_room : N (* reads: units *) }.
Record verdict := { vd_status : N; vd_addr : N; vd_data : list N (* octets delivered by a read *) }.

(* room (in octets) behind the header inside the receive block *)
Definition tx_room (p : regp) (f : rframe) : N := g_blocksize p - SIZEOF_RPFRAME - f_hlen f.
Definition trxbufsize (p : regp) : N := g_blocksize p - SIZEOF_RPFRAME.

(* the reply for a backend verdict; None: a status outside the protocol's codes (-EINVAL, nothing is sent) *)
Definition verdict_reply (p : regp) (f : rframe) (v : verdict) (ackpl : list N) (ackn : N) : option (list N) :=
  if vd_status v =? R_ACK then Some (resp_ack p f ackpl ackn)
  else if (vd_status v =? R_ERXOVERFLOW) || (vd_status v =? R_ETXOVERFLOW) then Some (resp_32 p f (vd_status v) (trxbufsize p))
  else if (R_EUNMAPPED <=? vd_status v) && (vd_status v <=? R_EINVALID) then Some (resp_32 p f (vd_status v) (vd_addr v))
  else if vd_status v <=? R_EIO then Some (resp_0 p f (vd_status v))
  else None.

Definition regp_process (p : regp) (r : recv_result) (backend : backend_call -> verdict)
  : list backend_call * option (list N) :=
  match rr_rc r with
  | RcChannel _ => ([], Some [])
  | RcOk =>
      match rr_errid r, rr_frame r with
      | Some EPROTO, Some f => ([], Some (if is_request f then resp_0 p f R_EPAYLOADCRC else []))
      | Some EFAULT, Some f => ([], Some (if is_request f then resp_0 p f R_EPAYLOADSIZE else []))
      | Some _, _ => ([], Some [])
      | None, None => ([], Some [])
      | None, Some f =>
          if negb (is_request f) then ([], Some []) else
          if negb (Bool.eqb (has_w16 f) (g_mem16 p)) then ([], Some (resp_0 p f R_EWORDSIZE)) else
          let unit := if g_mem16 p then 2 else 1 in
          if f_type f =? T_READ_REQ then
            let room := tx_room p f / unit in
            if room <? f_bsize f then ([], Some (resp_32 p f R_ETXOVERFLOW (trxbufsize p))) else
            let call := {| bc_write := false; bc_addr := f_addr f; bc_bsize := f_bsize f; bc_payload := []; bc_room := room |} in
            let v := backend call in
            ([call], verdict_reply p f v (firstn (N.to_nat (unit * f_bsize f)) (vd_data v)) (f_bsize f))
          else
            let call := {| bc_write := true; bc_addr := f_addr f; bc_bsize := f_bsize f; bc_payload := f_payload f; bc_room := 0 |} in
            let v := backend call in
            ([call], verdict_reply p f v [] 0)
      end
  end.

(* ---- a serving session: receive, process, release, until the input is used up ---- *)
Definition gen_data (seed : N) (n : nat) : list N := map (fun j => (seed + 13 * N.of_nat j) mod 256) (seq 0 n).
Definition backend_of (mem16 : bool) (v : N * N * N) (c : backend_call) : verdict :=
  let '(st, ad, seed) := v in
  {| vd_status := st; vd_addr := ad;
     vd_data := if bc_write c then [] else gen_data seed (N.to_nat ((if mem16 then 2 else 1) * bc_bsize c)) |}.

Record round := { rd_recv : recv_result; rd_calls : list backend_call; rd_prc_ok : bool;
                  rd_reply : list N (* everything sent in this round *); rd_allocs : N; rd_frees : N }.
Record sess := { ss_src : src; ss_alloc : list bool; ss_verdicts : list (N * N * N); ss_allocs : N; ss_frees : N }.

Definition serve_round (p : regp) (st : sess) : option (round * sess) :=
  (* the allocator is asked only when the sink is called, i.e. when at least one octet arrives *)
  let ok := match ss_alloc st with [] => true | b :: _ => b end in
  match regp_recv p (ss_src st) ok with
  | None => None
  | Some r =>
      (* the script advances whenever the sink was called (at least one octet arrived), also when the allocation failed and the
         reception then ended in a channel error *)
      let alloc_called := match deframe p (ss_src st) with
                          | Some (_, octets, _) => negb (length octets =? 0)%nat
                          | None => false end in
      let script' := if alloc_called then tl (ss_alloc st) else ss_alloc st in
      let v := match ss_verdicts st with [] => (0, 0, 0) | v :: _ => v end in
      let '(calls, reply) := regp_process p r (backend_of (g_mem16 p) v) in
      let verdicts' := match calls with [] => ss_verdicts st | _ => tl (ss_verdicts st) end in
      let allocs := ss_allocs st + (if rr_allocated r then 1 else 0) in
      let frees := ss_frees st + (if rr_freed_by_recv r then 1 else 0) + (if rr_block_to_caller r then 1 else 0) in
      Some ({| rd_recv := r; rd_calls := calls; rd_prc_ok := match reply with Some _ => true | None => false end;
               rd_reply := (rr_reply r ++ match reply with Some x => x | None => [] end)%list;
               rd_allocs := allocs; rd_frees := frees |},
            {| ss_src := rr_rest r; ss_alloc := script'; ss_verdicts := verdicts'; ss_allocs := allocs; ss_frees := frees |})
  end.

Fixpoint serve (rounds : nat) (p : regp) (st : sess) : option (list round * sess) :=
  match rounds with
  | O => Some ([], st)
  | S k =>
      match s_stream (ss_src st) with
      | [] => Some ([], st)
      | _ =>
          match serve_round p st with
          | None => None
          | Some (r, st') =>
              match serve k p st' with
              | None => None
              | Some (rs, st'') => Some (r :: rs, st'')
              end
          end
      end
  end.

(* ---- the emitters, by number (the harness' numbering): 0/1 read request 8/16, 2/3 write request 8/16,
   4 acknowledge, 10+code error response, 30 meta ---- *)
Definition mkframe (type seq addr : N) : rframe :=
  {| f_type := type; f_opts := 0; f_meta := 0; f_seq := seq; f_addr := addr; f_bsize := 0; f_hdcrc := 0; f_plcrc := 0;
     f_hlen := 12; f_payload := [] |}.
Definition code_has_payload (code : N) : bool :=
  (code =? R_ERXOVERFLOW) || (code =? R_ETXOVERFLOW) || ((R_EUNMAPPED <=? code) && (code <=? R_EINVALID)).
Definition emit (p : regp) (kind ftype fseq addr n val : N) (pl : list N) : list N * regp :=
  let f := mkframe ftype fseq addr in
  if kind =? 0 then req_read p false addr n
  else if kind =? 1 then req_read p true addr n
  else if kind =? 2 then req_write p false addr n pl
  else if kind =? 3 then req_write p true addr n pl
  else if kind =? 4 then (resp_ack p f pl n, p)
  else if kind =? 30 then (resp_meta p val, p)
  else let code := kind - 10 in
       (if code_has_payload code then resp_32 p f code val else resp_0 p f code, p).
