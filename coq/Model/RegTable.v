(* src/registers/core.c: typed register table over a flat 16-bit word address space.
   Values are carried as raw bit patterns (N) of the type's width; floats as IEEE-754 bit patterns. *)
From Ufw Require Import Base.Bits.
From Coq Require Import Bool.
Local Open Scope N_scope.
Local Open Scope bool_scope.

Inductive rtype := TU16 | TU32 | TU64 | TS16 | TS32 | TS64 | TF32 | TF64.
Definition rtype_eqb (a b : rtype) : bool :=
  match a, b with
  | TU16, TU16 | TU32, TU32 | TU64, TU64 | TS16, TS16 | TS32, TS32 | TS64, TS64 | TF32, TF32 | TF64, TF64 => true
  | _, _ => false
  end.
Definition tsize (t : rtype) : N :=      (* in 16-bit words: rds_size *)
  match t with TU16 | TS16 => 1 | TU32 | TS32 | TF32 => 2 | TU64 | TS64 | TF64 => 4 end.
Definition tbits (t : rtype) : N := 16 * tsize t.

Record rvalue := { v_type : rtype; v_bits : N }.

(* ---- IEEE-754 on bit patterns ---- *)
Definition f_exp_bits (t : rtype) : N := match t with TF32 => 8 | _ => 11 end.
Definition f_man_bits (t : rtype) : N := match t with TF32 => 23 | _ => 52 end.
Definition f_sign (t : rtype) (b : N) : bool := N.testbit b (tbits t - 1).
Definition f_exp (t : rtype) (b : N) : N := (b / 2 ^ f_man_bits t) mod 2 ^ f_exp_bits t.
Definition f_man (t : rtype) (b : N) : N := b mod 2 ^ f_man_bits t.
Definition f_is_nan (t : rtype) (b : N) : bool := (f_exp t b =? 2 ^ f_exp_bits t - 1) && negb (f_man t b =? 0).
Definition f_is_zero (t : rtype) (b : N) : bool := (f_exp t b =? 0) && (f_man t b =? 0).
Definition f_is_normal (t : rtype) (b : N) : bool := negb (f_exp t b =? 0) && negb (f_exp t b =? 2 ^ f_exp_bits t - 1).
(* the serialiser / deserialiser accept zero and normal numbers only *)
Definition f_acceptable (t : rtype) (b : N) : bool := f_is_zero t b || f_is_normal t b.
(* total order key of non-NaN patterns: negative numbers mirrored, -0 = +0 *)
Definition f_key (t : rtype) (b : N) : Z :=
  let mag := Z.of_N (b mod 2 ^ (tbits t - 1)) in if f_sign t b then (- mag)%Z else mag.
Definition f_le (t : rtype) (a b : N) : bool :=
  negb (f_is_nan t a) && negb (f_is_nan t b) && (f_key t a <=? f_key t b)%Z.

Definition is_float (t : rtype) : bool := match t with TF32 | TF64 => true | _ => false end.
Definition is_signed (t : rtype) : bool := match t with TS16 | TS32 | TS64 => true | _ => false end.
Definition is_unsigned (t : rtype) : bool := match t with TU16 | TU32 | TU64 => true | _ => false end.

(* a <= b in the type's own order *)
Definition v_le (t : rtype) (a b : N) : bool :=
  if is_float t then f_le t a b
  else if is_signed t then (sext (tbits t) a <=? sext (tbits t) b)%Z
  else a <=? b.

(* ---- serialisation: words (as the host reads them) of a value in the table's byte order ---- *)
Fixpoint words_of_bytes (l : list N) : list N :=
  match l with a :: b :: r => (a + 256 * b) :: words_of_bytes r | _ => [] end.
Fixpoint bytes_of_words (l : list N) : list N :=
  match l with [] => [] | w :: r => (w mod 256) :: (w / 256) :: bytes_of_words r end.
Definition ser_words (be : bool) (t : rtype) (bits : N) : list N :=
  let k := N.to_nat (2 * tsize t) in
  words_of_bytes (if be then be_bytes k bits else le_bytes k bits).
Definition des_bits (be : bool) (t : rtype) (ws : list N) : N :=
  let bs := bytes_of_words ws in if be then of_be bs else of_le bs.
(* the serialiser refuses non-finite / subnormal floats; the deserialiser reports them *)
Definition ser_ok (v : rvalue) : bool := if is_float (v_type v) then f_acceptable (v_type v) (v_bits v) else true.

(* ---- validators ---- *)
Inductive rcheck := CTrivial | CFail | CMin (lo : N) | CMax (hi : N) | CRange (lo hi : N) | CCallback (k : N).

(* the callback family shared with the harness: predicates on the raw bit pattern *)
Definition callback (k bits : N) : bool :=
  match k with 0 => N.even bits | 1 => bits mod 3 =? 0 | _ => negb (bits =? 0) end.

Record entry := { e_type : rtype; e_default : N; e_addr : N; e_check : rcheck; e_touched : bool }.
Record area := { a_base : N; a_size : N; a_readable : bool; a_writeable : bool; a_skip : bool;
                 a_has_read : bool; a_has_write : bool; a_is_mem : bool;
                 a_words : list N;
                 a_first : N; a_last : N; a_count : N }.
Record table := { t_init : bool; t_during : bool; t_be : bool; t_areas : list area; t_entries : list entry }.

Definition validate (during_init : bool) (e : entry) (v : rvalue) : bool :=
  if negb (rtype_eqb (e_type e) (v_type v)) then false else
  let t := e_type e in let b := v_bits v in
  match e_check e with
  | CTrivial => true
  | CFail => during_init
  | CMin lo => v_le t lo b
  | CMax hi => v_le t b hi
  | CRange lo hi => v_le t lo b && v_le t b hi
  | CCallback k => callback k b
  end.

Inductive acode := ASuccess | AFailure | AUninit | ANoEntry | ARange | AInvalid | AReadOnly | AIoError.
Definition acc := (acode * N)%type.

(* ---- areas and the flat address space ---- *)
Definition addr_in_area (a : area) (addr : N) : bool := (a_base a <=? addr) && (addr <? a_base a + a_size a).
Fixpoint find_area (areas : list area) (addr : N) (i : nat) : option (nat * area) :=
  match areas with
  | [] => None
  | a :: r => if addr_in_area a addr then Some (i, a) else find_area r addr (S i)
  end.
Definition area_can_write (a : area) : bool := a_has_write a.
Definition area_is_writeable (a : area) : bool := a_has_write a && a_writeable a.
Definition area_is_readable (a : area) : bool := a_has_read a && a_readable a.

Definition area_read (a : area) (off n : N) : list N := slice (a_words a) (N.to_nat off) (N.to_nat n).
Definition area_with_words (a : area) (ws : list N) : area :=
  {| a_base := a_base a; a_size := a_size a; a_readable := a_readable a; a_writeable := a_writeable a;
     a_skip := a_skip a; a_has_read := a_has_read a; a_has_write := a_has_write a; a_is_mem := a_is_mem a;
     a_words := ws; a_first := a_first a; a_last := a_last a; a_count := a_count a |}.
Definition area_write (a : area) (off : N) (ws : list N) : area :=
  area_with_words a (blit (a_words a) (N.to_nat off) ws).

Definition set_area (t : table) (i : nat) (a : area) : table :=
  {| t_init := t_init t; t_during := t_during t; t_be := t_be t; t_areas := upd (t_areas t) i a; t_entries := t_entries t |}.
Definition set_entries (t : table) (es : list entry) : table :=
  {| t_init := t_init t; t_during := t_during t; t_be := t_be t; t_areas := t_areas t; t_entries := es |}.

(* the n words at a mapped address range, reading across area borders; None if a hole is touched *)
Fixpoint read_words (fuel : nat) (t : table) (addr n : N) (respect_readable : bool) : option (list N) :=
  if n =? 0 then Some [] else
  match fuel with
  | O => None
  | S f =>
      match find_area (t_areas t) addr 0 with
      | None => None
      | Some (_, a) =>
          let k := N.min (a_base a + a_size a - addr) n in
          let ws := if respect_readable && negb (area_is_readable a) then repeat 0 (N.to_nat k)
                    else area_read a (addr - a_base a) k in
          match read_words f t (addr + k) (n - k) respect_readable with
          | None => None
          | Some r => Some (ws ++ r)
          end
      end
  end.

Fixpoint write_words (fuel : nat) (t : table) (addr : N) (ws : list N) : table :=
  match ws with
  | [] => t
  | _ =>
      match fuel with
      | O => t
      | S f =>
          match find_area (t_areas t) addr 0 with
          | None => t
          | Some (i, a) =>
              let k := N.min (a_base a + a_size a - addr) (N.of_nat (length ws)) in
              let t' := set_area t i (area_write a (addr - a_base a) (firstn (N.to_nat k) ws)) in
              write_words f t' (addr + k) (skipn (N.to_nat k) ws)
          end
      end
  end.

(* first unmapped address of [addr, addr+n) *)
Fixpoint first_hole (fuel : nat) (t : table) (addr n : N) : option N :=
  if n =? 0 then None else
  match fuel with
  | O => Some addr
  | S f =>
      match find_area (t_areas t) addr 0 with
      | None => Some addr
      | Some (_, a) => let k := N.min (a_base a + a_size a - addr) n in first_hole f t (addr + k) (n - k)
      end
  end.

Definition area_fuel (t : table) : nat := S (length (t_areas t)).

(* ---- entries ---- *)
Definition entry_words (t : table) (e : entry) : option (list N) :=
  read_words (area_fuel t) t (e_addr e) (tsize (e_type e)) false.
Definition entry_area (t : table) (e : entry) : option (nat * area) := find_area (t_areas t) (e_addr e) 0.

(* entry lookup by handle; handles beyond the table are never converted to unary numbers *)
Definition entry_at (t : table) (idx : N) : option entry :=
  if idx <? N.of_nat (length (t_entries t)) then nth_error (t_entries t) (N.to_nat idx) else None.

(* register_setx *)
Definition reg_setx (t : table) (idx : N) (v : rvalue) (checked : bool) : acc * table :=
  if negb (t_init t) then ((AUninit, idx), t) else
  match entry_at t idx with
  | None => ((ANoEntry, idx), t)
  | Some e =>
      if checked && negb (validate (t_during t) e v) then ((ARange, e_addr e), t) else
      match entry_area t e with
      | None => ((AFailure, e_addr e), t)
      | Some (i, a) =>
          if negb (area_can_write a) then ((AReadOnly, e_addr e), t) else
          if negb (ser_ok v) then ((AInvalid, e_addr e), t) else
          ((ASuccess, 0), set_area t i (area_write a (e_addr e - a_base a) (ser_words (t_be t) (e_type e) (v_bits v))))
      end
  end.

(* register_get: result, value *)
Definition reg_get (t : table) (idx : N) : acc * option rvalue :=
  if negb (t_init t) then ((AUninit, idx), None) else
  match entry_at t idx with
  | None => ((ANoEntry, idx), None)
  | Some e =>
      match entry_words t e with
      | None => ((AFailure, idx), None)
      | Some ws =>
          let bits := des_bits (t_be t) (e_type e) ws in
          let v := {| v_type := e_type e; v_bits := bits |} in
          if ser_ok v then ((ASuccess, 0), Some v) else ((AInvalid, idx), Some v)
      end
  end.

(* register_bit_set / register_bit_clear *)
Definition reg_bitop (clear : bool) (t : table) (idx : N) (v : rvalue) : acc * table :=
  match reg_get t idx with
  | ((ASuccess, _), Some cur) =>
      if negb (rtype_eqb (v_type cur) (v_type v)) || negb (is_unsigned (v_type cur)) then ((AInvalid, idx), t)
      else
        let nb := if clear then N.ldiff (v_bits cur) (v_bits v) else N.lor (v_bits cur) (v_bits v) in
        reg_setx t idx {| v_type := v_type cur; v_bits := nb |} true
  | (r, _) => (r, t)
  end.

(* ---- block operations ---- *)
Definition overlaps (e : entry) (addr n : N) : bool :=
  (addr <? e_addr e + tsize (e_type e)) && (e_addr e <? addr + n).

(* the first request address lying in an area that is not writeable *)
Fixpoint first_readonly (areas : list area) (addr n : N) : option N :=
  match areas with
  | [] => None
  | a :: r =>
      if (addr <? a_base a + a_size a) && (a_base a <? addr + n) && negb (area_is_writeable a)
      then Some (N.max addr (a_base a)) else first_readonly r addr n
  end.

(* ra_malformed_write: every overlapped register must decode and validate once the new words are overlaid *)
Fixpoint malformed (t : table) (es : list entry) (addr n : N) (buf : list N) : option acc :=
  match es with
  | [] => None
  | e :: r =>
      if overlaps e addr n then
        match entry_words t e with
        | None => Some (AFailure, e_addr e)
        | Some cur =>
            let lo := N.max addr (e_addr e) in
            let hi := N.min (addr + n) (e_addr e + tsize (e_type e)) in
            let new := blit cur (N.to_nat (lo - e_addr e)) (slice buf (N.to_nat (lo - addr)) (N.to_nat (hi - lo))) in
            let v := {| v_type := e_type e; v_bits := des_bits (t_be t) (e_type e) new |} in
            if negb (ser_ok v) then Some (AInvalid, lo)
            else if negb (validate (t_during t) e v) then Some (ARange, lo)
            else malformed t r addr n buf
        end
      else malformed t r addr n buf
  end.

Definition taint (es : list entry) (addr n : N) : list entry :=
  map (fun e => if overlaps e addr n
                then {| e_type := e_type e; e_default := e_default e; e_addr := e_addr e; e_check := e_check e; e_touched := true |}
                else e) es.

(* register_block_write(t, addr, n, buf): buf = the n words *)
Definition block_write (t : table) (addr n : N) (buf : list N) : acc * table :=
  if negb (t_init t) then ((AUninit, addr), t) else
  if n =? 0 then ((ASuccess, 0), t) else
  match first_readonly (t_areas t) addr n with
  | Some a => ((AReadOnly, a), t)
  | None =>
      match first_hole (area_fuel t) t addr n with
      | Some a => ((ANoEntry, a), t)
      | None =>
          match malformed t (t_entries t) addr n buf with
          | Some r => (r, t)
          | None =>
              let t' := write_words (area_fuel t) t addr (firstn (N.to_nat n) buf) in
              ((ASuccess, 0), set_entries t' (taint (t_entries t') addr n))
          end
      end
  end.

(* register_block_read: result and the n words written to the caller's buffer *)
Definition block_read (t : table) (addr n : N) : acc * list N :=
  if negb (t_init t) then ((AUninit, addr), []) else
  if n =? 0 then ((ASuccess, 0), []) else
  match first_hole (area_fuel t) t addr n with
  | Some a => ((ANoEntry, a), [])
  | None => match read_words (area_fuel t) t addr n true with
            | Some ws => ((ASuccess, 0), ws)
            | None => ((AFailure, addr), [])
            end
  end.

(* register_foreach_in: the handles passed to the callback and the result; [script] = callback results *)
Fixpoint foreach_loop (es : list entry) (i : N) (addr off : N) (script : list Z) : acc * list N :=
  match es with
  | [] => ((ASuccess, 0), [])
  | e :: r =>
      if e_addr e + tsize (e_type e) <=? addr then foreach_loop r (i + 1) addr off script     (* below the range *)
      else if addr + off <=? e_addr e then ((ASuccess, 0), [])                              (* beyond: done *)
      else
        match script with
        | [] => let '(res, hs) := foreach_loop r (i + 1) addr off [] in (res, i :: hs)
        | z :: zs =>
            if (z =? 0)%Z then let '(res, hs) := foreach_loop r (i + 1) addr off zs in (res, i :: hs)
            else if (z <? 0)%Z then ((AFailure, e_addr e), [i])
            else ((ASuccess, 0), [i])
        end
  end.
Definition foreach_in (t : table) (addr off : N) (script : list Z) : acc * list N :=
  if negb (t_init t) then ((AUninit, 0), []) else
  if (off =? 0) then ((ASuccess, 0), []) else foreach_loop (t_entries t) 0 addr off script.

(* ---- sanitise ---- *)
Definition untouch (e : entry) : entry :=
  {| e_type := e_type e; e_default := e_default e; e_addr := e_addr e; e_check := e_check e; e_touched := false |}.

Fixpoint sanitise_loop (fuel : nat) (t : table) (i : N) : acc * table :=
  match fuel with
  | O => ((ASuccess, 0), t)
  | S f =>
      match nth_error (t_entries t) (N.to_nat i) with
      | None => ((ASuccess, 0), t)
      | Some e =>
          let fix_default :=
            let '(r, t1) := reg_setx t i {| v_type := e_type e; v_bits := e_default e |} true in
            match r with
            | (ASuccess, _) => None
            | _ => Some (r, t1)
            end in
          let step (t1 : table) :=
            sanitise_loop f (set_entries t1 (upd (t_entries t1) (N.to_nat i) (untouch e))) (i + 1) in
          match reg_get t i with
          | ((ASuccess, _), Some cur) =>
              if validate (t_during t) e cur then step t
              else let '(r, t1) := reg_setx t i {| v_type := e_type e; v_bits := e_default e |} true in
                   match r with (ASuccess, _) => step t1 | _ => (r, t1) end
          | ((AInvalid, _), _) =>
              let '(r, t1) := reg_setx t i {| v_type := e_type e; v_bits := e_default e |} true in
              match r with (ASuccess, _) => step t1 | _ => (r, t1) end
          | (r, _) => (r, t)
          end
      end
  end.
Definition sanitise (t : table) : acc * table :=
  if negb (t_init t) then ((AUninit, 0), t) else sanitise_loop (S (length (t_entries t))) t 0.

(* ---- initialisation ---- *)
Inductive icode := ISuccess | INoAreas | IAreaOrder | IAreaOverlap | IEntryOrder | IEntryOverlap | IEntryHole | IEntryDefault.

Fixpoint check_areas (prev : area) (r : list area) (i : N) : option (icode * N) :=
  match r with
  | [] => None
  | a :: r' =>
      if a_base a <? a_base prev then Some (IAreaOrder, i)
      else if a_base a <? a_base prev + a_size prev then Some (IAreaOverlap, i)
      else check_areas a r' (i + 1)
  end.
Fixpoint check_entries (prev : entry) (r : list entry) (i : N) : option (icode * N) :=
  match r with
  | [] => None
  | e :: r' =>
      if e_addr e <? e_addr prev then Some (IEntryOrder, i)
      else if e_addr e <? e_addr prev + tsize (e_type prev) then Some (IEntryOverlap, i)
      else check_entries e r' (i + 1)
  end.

Definition with_flags (t : table) (init during : bool) : table :=
  {| t_init := init; t_during := during; t_be := t_be t; t_areas := t_areas t; t_entries := t_entries t |}.

Definition zero_mem_areas (t : table) : table :=
  {| t_init := t_init t; t_during := t_during t; t_be := t_be t;
     t_areas := map (fun a => if a_is_mem a then area_with_words a (repeat 0 (N.to_nat (a_size a))) else a) (t_areas t);
     t_entries := t_entries t |}.

Definition entry_fits (t : table) (e : entry) : bool :=
  match find_area (t_areas t) (e_addr e) 0 with
  | None => false
  | Some (_, a) => e_addr e + tsize (e_type e) <=? a_base a + a_size a
  end.

Fixpoint load_defaults (fuel : nat) (t : table) (i : N) : option (icode * N) * table :=
  match fuel with
  | O => (None, t)
  | S f =>
      match nth_error (t_entries t) (N.to_nat i) with
      | None => (None, t)
      | Some e =>
          if negb (entry_fits t e) then (Some (IEntryHole, i), t) else
          match entry_area t e with
          | None => (Some (IEntryHole, i), t)
          | Some (_, a) =>
              if a_has_write a && negb (a_skip a) then
                let '(r, t1) := reg_setx t i {| v_type := e_type e; v_bits := e_default e |} true in
                match r with
                | (ASuccess, _) => load_defaults f t1 (i + 1)
                | _ => (Some (IEntryDefault, i), t1)
                end
              else load_defaults f t (i + 1)
          end
      end
  end.

(* a->entry.first/last/count: the contiguous run of entries whose address lies in the area *)
Definition link_area (es : list entry) (a : area) : area :=
  let idx := filter (fun p => addr_in_area a (e_addr (snd p))) (combine (seq 0 (length es)) es) in
  match idx with
  | [] => {| a_base := a_base a; a_size := a_size a; a_readable := a_readable a; a_writeable := a_writeable a;
             a_skip := a_skip a; a_has_read := a_has_read a; a_has_write := a_has_write a; a_is_mem := a_is_mem a;
             a_words := a_words a; a_first := 0; a_last := 0; a_count := 0 |}
  | (f, _) :: _ =>
      {| a_base := a_base a; a_size := a_size a; a_readable := a_readable a; a_writeable := a_writeable a;
         a_skip := a_skip a; a_has_read := a_has_read a; a_has_write := a_has_write a; a_is_mem := a_is_mem a;
         a_words := a_words a; a_first := N.of_nat f; a_last := N.of_nat (f + length idx - 1); a_count := N.of_nat (length idx) |}
  end.

Definition reg_init (t : table) : (icode * N) * table :=
  let t0 := with_flags t false true in
  let fail (r : icode * N) (tt : table) := (r, with_flags tt false false) in
  match t_areas t0 with
  | [] => fail (INoAreas, 0) t0
  | a0 :: ar =>
      match check_areas a0 ar 1 with
      | Some r => fail r t0
      | None =>
          match (match t_entries t0 with [] => None | e0 :: er => check_entries e0 er 1 end) with
          | Some r => fail r t0
          | None =>
              let t1 := with_flags (zero_mem_areas t0) true true in
              match load_defaults (S (length (t_entries t1))) t1 0 with
              | (Some r, t2) => fail r t2
              | (None, t2) =>
                  ((ISuccess, 0),
                   {| t_init := true; t_during := false; t_be := t_be t2;
                      t_areas := map (link_area (t_entries t2)) (t_areas t2); t_entries := t_entries t2 |})
              end
          end
      end
  end.
