(* include/ufw/ring-buffer.h, ring-buffer-iter.h, src/ring-buffer-iter.c *)
From Ufw Require Import Base.Bits.
From Coq Require Import Arith Bool.
Local Open Scope nat_scope.

Record ring := { r_data : list N; r_head : nat; r_tail : nat; r_ds : nat; r_ovr : bool }.

Definition ring_init (ds : nat) : ring :=
  {| r_data := repeat 0%N ds; r_head := 0; r_tail := ds; r_ds := ds; r_ovr := false |}.

Definition ring_empty (r : ring) : bool := r_tail r =? r_ds r.
Definition ring_full (r : ring) : bool := r_head r =? r_tail r.
Definition ring_size (r : ring) : nat :=
  if ring_empty r then 0
  else if r_tail r <? r_head r then r_head r - r_tail r
  else (r_ds r - r_tail r) + r_head r.

Definition set_tail (r : ring) (t : nat) : ring :=
  {| r_data := r_data r; r_head := r_head r; r_tail := t; r_ds := r_ds r; r_ovr := r_ovr r |}.

Definition advance_tail (r : ring) : ring :=
  let t := (r_tail r + 1) mod r_ds r in
  set_tail r (if t =? r_head r then r_ds r else t).

Definition ring_get (r : ring) : N * ring :=
  if ring_empty r then (0%N, r) else (nth (r_tail r) (r_data r) 0%N, advance_tail r).

Definition store (r : ring) (x : N) : ring :=
  let r1 := if ring_empty r then set_tail r (r_head r) else r in
  {| r_data := upd (r_data r1) (r_head r1) x; r_head := (r_head r1 + 1) mod r_ds r1;
     r_tail := r_tail r1; r_ds := r_ds r1; r_ovr := r_ovr r1 |}.

Definition ring_put (r : ring) (x : N) : ring :=
  if ring_full r then (if r_ovr r then store (advance_tail r) x else r) else store r x.

Definition ring_clear (r : ring) : ring := set_tail r (r_ds r).
Definition ring_override (r : ring) (b : bool) : ring :=
  {| r_data := r_data r; r_head := r_head r; r_tail := r_tail r; r_ds := r_ds r; r_ovr := b |}.

(* iterators: construct, then [steps] times inspect + advance *)
Definition iter_start (r : ring) (new_to_old : bool) : nat :=
  if new_to_old then (if r_head r =? 0 then r_ds r - 1 else r_head r - 1) else r_tail r.
Definition iter_next (ds : nat) (new_to_old : bool) (i : nat) : nat :=
  if new_to_old then (if i =? 0 then ds - 1 else i - 1) else (i + 1) mod ds.
Fixpoint iter_walk (r : ring) (new_to_old : bool) (steps i : nat) : list N :=
  match steps with
  | O => []
  | S k => nth i (r_data r) 0%N :: iter_walk r new_to_old k (iter_next (r_ds r) new_to_old i)
  end.
Definition ring_iter (r : ring) (new_to_old : bool) : list N :=
  iter_walk r new_to_old (ring_size r) (iter_start r new_to_old).

Inductive rop := RPut (x : N) | RGet | RClear | ROverride (b : bool).
Definition ring_step (r : ring) (o : rop) : ring * N :=
  match o with
  | RPut x => (ring_put r x, 0%N)
  | RGet => let '(v, r') := ring_get r in (r', v)
  | RClear => (ring_clear r, 0%N)
  | ROverride b => (ring_override r b, 0%N)
  end.

(* ---- specification: a bounded queue, oldest first ---- *)
Record queue := { q_items : list N; q_cap : nat; q_ovr : bool }.
Definition queue_step (q : queue) (o : rop) : queue * N :=
  match o with
  | RPut x =>
      if length (q_items q) <? q_cap q then ({| q_items := q_items q ++ [x]; q_cap := q_cap q; q_ovr := q_ovr q |}, 0%N)
      else if q_ovr q then ({| q_items := tl (q_items q) ++ [x]; q_cap := q_cap q; q_ovr := q_ovr q |}, 0%N)
      else (q, 0%N)
  | RGet => match q_items q with
            | [] => (q, 0%N)
            | x :: t => ({| q_items := t; q_cap := q_cap q; q_ovr := q_ovr q |}, x)
            end
  | RClear => ({| q_items := []; q_cap := q_cap q; q_ovr := q_ovr q |}, 0%N)
  | ROverride b => ({| q_items := q_items q; q_cap := q_cap q; q_ovr := b |}, 0%N)
  end.

(* abstraction: the elements from tail to head, wrapping *)
Definition ring_abs_items (r : ring) : list N :=
  map (fun i => nth ((r_tail r + i) mod r_ds r) (r_data r) 0%N) (seq 0 (ring_size r)).
Definition ring_abs (r : ring) : queue :=
  {| q_items := ring_abs_items r; q_cap := r_ds r; q_ovr := r_ovr r |}.
