(* src/variable-length-integer.c *)
From Ufw Require Import Base.Bits Base.Errno Model.ByteBuffer Model.Endpoints.
From Coq Require Import Bool.
Local Open Scope N_scope.
Local Open Scope bool_scope.

Definition VARINT_32BIT_MAX_OCTETS : N := 5.
Definition VARINT_64BIT_MAX_OCTETS : N := 10.

(* varint_encode: the loop runs until n >> 7 == 0 *)
Fixpoint vi_encode_fuel (fuel : nat) (n : N) : list N :=
  match fuel with
  | O => []
  | S f => let d := N.land n 127 in
           let n' := N.shiftr n 7 in
           if n' =? 0 then [d] else N.lor d 128 :: vi_encode_fuel f n'
  end.
Definition vi_encode (n : N) : list N := vi_encode_fuel (S (N.to_nat (N.log2 n))) n.

Fixpoint vi_length_fuel (fuel : nat) (n : N) : N :=
  match fuel with
  | O => 0
  | S f => let n' := N.shiftr n 7 in if n' =? 0 then 1 else 1 + vi_length_fuel f n'
  end.
Definition vi_length (n : N) : N := vi_length_fuel (S (N.to_nat (N.log2 n))) n.

Inductive vkind := KU32 | KS32 | KU64 | KS64.
Definition vk_max (k : vkind) : N :=
  match k with KU32 | KS32 => VARINT_32BIT_MAX_OCTETS | _ => VARINT_64BIT_MAX_OCTETS end.
(* the unsigned 64-bit quantity the encoder works on, from the C argument (as Z) *)
Definition vk_arg (k : vkind) (z : Z) : N :=
  match k with
  | KU32 | KS32 => wrapZ 32 z
  | KU64 | KS64 => wrapZ 64 z
  end.
(* the value delivered through the out-parameter, from the accumulated uint64 *)
Definition vk_result (k : vkind) (u : N) : Z :=
  match k with
  | KU32 => Z.of_N (wrap 32 u)
  | KS32 => sext 32 u
  | KU64 => Z.of_N (wrap 64 u)
  | KS64 => sext 64 u
  end.

(* varint_encode_*: into the buffer at [offset]; used := offset + length *)
Definition vi_encode_buf (k : vkind) (b : bbuf) (z : Z) : option errno * N * bbuf :=
  if bb_avail b <? vk_max k then (Some EINVAL, 0, b)
  else let e := vi_encode (vk_arg k z) in
       let len := N.of_nat (length e) in
       (None, len, {| bb_mem := blit (bb_mem b) (N.to_nat (bb_offset b)) e;
                      bb_size := bb_size b; bb_used := bb_offset b + len; bb_offset := bb_offset b |}).

Inductive vres := VOk (u : N) (count : N) | VIllegal | VShort.

(* varint_decode: reads buf[offset+i], i < maxoctets, never beyond the buffer's memory [offset, size)
   (the existing tests decode from buffers set up with byte_buffer_space, i.e. used = 0) *)
Fixpoint vi_decode_loop (fuel : nat) (b : bbuf) (i : N) (acc : N) : vres :=
  match fuel with
  | O => VIllegal
  | S f =>
      if bb_size b - bb_offset b <=? i then VShort else
      match nth_error (bb_mem b) (N.to_nat (bb_offset b + i)) with
      | None => VShort      (* unreachable under bb_inv *)
      | Some d =>
          let acc' := wrap 64 (N.lor acc (N.shiftl (N.land d 127) (7 * i))) in
          if N.land d 128 =? 0 then VOk acc' (i + 1) else vi_decode_loop f b (i + 1) acc'
      end
  end.

Definition vi_decode (k : vkind) (b : bbuf) : vres * bbuf :=
  match vi_decode_loop (N.to_nat (vk_max k)) b 0 0 with
  | VOk u c => (VOk u c, {| bb_mem := bb_mem b; bb_size := bb_size b; bb_used := bb_used b; bb_offset := bb_offset b + c |})
  | r => (r, b)
  end.

(* varint_from_source: octet-wise; a driver error is passed through *)
Inductive sres := SOk (u : N) (count : N) | SIllegal | SErr (e : errno).
Fixpoint vi_from_source_loop (fuel : nat) (s : src) (i : N) (acc : N) : sres * src :=
  match fuel with
  | O => (SIllegal, s)
  | S f =>
      match source_get_octet s with
      | (DErr e, _, s') => (SErr e, s')
      | (DOk _, d :: _, s') =>
          let acc' := wrap 64 (N.lor acc (N.shiftl (N.land d 127) (7 * i))) in
          if N.land d 128 =? 0 then (SOk acc' (i + 1), s') else vi_from_source_loop f s' (i + 1) acc'
      | (DOk _, [], s') => (SErr (EOTHER 0), s')   (* a driver returning 0: outside the modelled domain *)
      end
  end.
Definition vi_from_source (k : vkind) (s : src) : sres * src :=
  vi_from_source_loop (N.to_nat (vk_max k)) s 0 0.

(* varint_*_to_sink *)
Definition vi_to_sink (k : vkind) (z : Z) (snk0 : snk) : option (dres * snk) :=
  let e := vi_encode (vk_arg k z) in
  sink_put_chunk snk0 e (N.of_nat (length e)).
