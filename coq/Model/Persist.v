(* src/persistent-storage.c: checksummed persistent store over a block medium *)
From Ufw Require Import Base.Bits.
From Coq Require Import Bool.
Local Open Scope N_scope.
Local Open Scope bool_scope.

Inductive paccess := PSuccess | PInvalidData | PIoError | PAddrRange.

(* a medium call transfers everything (Fok) or at most m octets (Fshort m; m = 0: the call fails) *)
Inductive fault := Fok | Fshort (m : N).

(* the medium: a window [m_base, m_base + |m_img|) of the 32-bit address space; accesses are logged
   as (is_write, address, length asked); octets outside the window read as 238 and writes there are dropped *)
Record medium := { m_base : N; m_img : list N; m_log : list (bool * N * N * N);  (* is_write, address, asked, granted *)
                   m_rd : list fault; m_wr : list fault }.

Record pstore := { p_caddr : N;      (* checksum address *)
                   p_csize : N;      (* 2 or 4 *)
                   p_dsize : N;      (* data size *)
                   p_init : N;       (* initial checksum value *)
                   p_bsize : N }.    (* chunk size of checksum calculation / reset: buffer size, 1 without buffer *)

Definition p_daddr (st : pstore) : N := wrap 32 (p_caddr st + p_csize st).

Definition pop_fault (l : list fault) : fault * list fault :=
  match l with [] => (Fok, []) | f :: r => (f, r) end.
Definition granted (f : fault) (n : N) : N := match f with Fok => n | Fshort m => N.min m n end.

Definition img_read (m : medium) (addr : N) (n : nat) : list N :=
  map (fun i => let a := wrap 32 (addr + N.of_nat i) in
                if (m_base m <=? a) && (a <? m_base m + N.of_nat (length (m_img m)))
                then nth (N.to_nat (a - m_base m)) (m_img m) 238 else 238) (seq 0 n).
Fixpoint img_write (base : N) (img : list N) (addr : N) (xs : list N) : list N :=
  match xs with
  | [] => img
  | x :: r =>
      let a := wrap 32 addr in
      let img' := if (base <=? a) && (a <? base + N.of_nat (length img)) then upd img (N.to_nat (a - base)) x else img in
      img_write base img' (addr + 1) r
  end.

(* block.read(dst, address, n): octets delivered (count = their number) *)
Definition med_read (m : medium) (addr n : N) : list N * medium :=
  let '(f, rd) := pop_fault (m_rd m) in
  let g := granted f n in
  (img_read m addr (N.to_nat g),
   {| m_base := m_base m; m_img := m_img m; m_log := m_log m ++ [(false, addr, n, g)]; m_rd := rd; m_wr := m_wr m |}).

(* block.write(address, src, n): count written *)
Definition med_write (m : medium) (addr : N) (xs : list N) : N * medium :=
  let n := N.of_nat (length xs) in
  let '(f, wr) := pop_fault (m_wr m) in
  let g := granted f n in
  (g, {| m_base := m_base m; m_img := img_write (m_base m) (m_img m) addr (firstn (N.to_nat g) xs);
         m_log := m_log m ++ [(true, addr, n, g)]; m_rd := m_rd m; m_wr := wr |}).

Section Store.
  (* the configured checksum algorithm: one step per octet (all three instances are folds) *)
  Variable step : N -> N -> N.
  Definition cks (init : N) (l : list N) : N := fold_left step l init.

  (* persistent_calculate_checksum *)
  Fixpoint calc_loop (fuel : nat) (st : pstore) (m : medium) (rest addr sum : N) : option N * medium :=
    if rest =? 0 then (Some sum, m) else
    match fuel with
    | O => (None, m)          (* no progress (chunk size 0): the C loop does not terminate *)
    | S f =>
        let toget := if p_bsize st <? rest then p_bsize st else rest in
        let '(d, m') := med_read m addr toget in
        if negb (N.of_nat (length d) =? toget) then (None, m')
        else calc_loop f st m' (rest - toget) (wrap 32 (addr + toget)) (cks sum d)
    end.
  Definition calc_checksum (st : pstore) (m : medium) : option N * medium :=
    calc_loop (S (N.to_nat (p_dsize st))) st m (p_dsize st) (p_daddr st) (p_init st).

  Definition store_checksum (st : pstore) (m : medium) (sum : N) : paccess * medium :=
    let '(n, m') := med_write m (p_caddr st) (le_bytes (N.to_nat (p_csize st)) sum) in
    (if n =? p_csize st then PSuccess else PIoError, m').

  (* persistent_store_part(store, src, offset, n): src = the n octets at src *)
  Definition store_part (st : pstore) (m : medium) (src : list N) (offset n : N) : paccess * medium :=
    if p_dsize st <? offset + n then (PAddrRange, m) else
    let '(stored, m1) := med_write m (wrap 32 (p_daddr st + offset)) (firstn (N.to_nat n) src) in
    if negb (stored =? n) then (PIoError, m1) else
    if (offset =? 0) && (n =? p_dsize st) then
      store_checksum st m1 (cks (p_init st) (firstn (N.to_nat n) src))
    else
      match calc_checksum st m1 with
      | (None, m2) => (PIoError, m2)
      | (Some sum, m2) => store_checksum st m2 sum
      end.
  Definition store (st : pstore) (m : medium) (src : list N) := store_part st m src 0 (p_dsize st).

  Definition validate (st : pstore) (m : medium) : paccess * medium :=
    let '(d, m1) := med_read m (p_caddr st) (p_csize st) in
    if negb (N.of_nat (length d) =? p_csize st) then (PIoError, m1) else
    match calc_checksum st m1 with
    | (None, m2) => (PIoError, m2)
    | (Some sum, m2) => (if of_le d =? sum then PSuccess else PInvalidData, m2)
    end.

  Definition fetch_part (st : pstore) (m : medium) (offset n : N) : paccess * list N * medium :=
    if p_dsize st <? offset + n then (PAddrRange, [], m) else
    let '(d, m1) := med_read m (wrap 32 (p_daddr st + offset)) n in
    (if N.of_nat (length d) =? n then PSuccess else PIoError, d, m1).
  Definition fetch (st : pstore) (m : medium) := fetch_part st m 0 (p_dsize st).

  Fixpoint writen_loop (fuel : nat) (st : pstore) (m : medium) (addr item rest : N) : paccess * medium :=
    if rest =? 0 then (PSuccess, m) else
    match fuel with
    | O => (PIoError, m)
    | S f =>
        let toput := if p_bsize st <? rest then p_bsize st else rest in
        let '(n, m') := med_write m addr (repeat item (N.to_nat toput)) in
        if negb (n =? toput) then (PIoError, m')
        else writen_loop f st m' (wrap 32 (addr + toput)) item (rest - toput)
    end.
  Definition reset (st : pstore) (m : medium) (item : N) : paccess * medium :=
    match writen_loop (S (N.to_nat (p_csize st))) st m (p_caddr st) item (p_csize st) with
    | (PSuccess, m1) => writen_loop (S (N.to_nat (p_dsize st))) st m1 (p_daddr st) item (p_dsize st)
    | r => r
    end.
End Store.

(* the three algorithms of the harness *)
Definition step_trivial (s d : N) : N := (s + d) mod 65536.
Definition step_sum32 (s d : N) : N := (s * 31 + d + 1) mod 4294967296.

(* region of an instance *)
Definition in_region (st : pstore) (e : bool * N * N * N) : bool :=
  let '(_, a, n, _) := e in
  (p_caddr st <=? a) && (a + n <=? p_caddr st + p_csize st + p_dsize st).

(* every logged call transferred all it was asked for *)
Definition full_transfer (e : bool * N * N * N) : bool := let '(_, _, n, g) := e in g =? n.
