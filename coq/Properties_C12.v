(* C12  SLIP framing is transparent, bounded and self-resynchronising.
   Statements only; proofs in Proof/SlipLemmas.v; model Model/Slip.v.
   [pdecode] is one call of the decoder on an octet list, [trace] the results of calling it again
   and again until the input is exhausted (both tied to rfc1055_decode by ./check C12). *)
From Ufw Require Import Base.Bits Base.Errno Model.Endpoints Model.Slip Proof.LenpLemmas Proof.SlipLemmas Proof.SlipOperational Proof.SlipFaults Proof.SlipEncodeFaults.
Local Open Scope N_scope.

(* decoding the encoding returns exactly the payload, signals end-of-frame, leaves what follows *)
Theorem C12_roundtrip : forall sof p r,
  pdecode sof (slip_init sof) (slip_encode sof p ++ r) [] = (PFrame, p, r, after_frame sof).
Proof. exact roundtrip. Qed.
Print Assumptions C12_roundtrip.

(* concatenated encodings decode to the same payload sequence in order *)
Theorem C12_concat : forall sof ps,
  trace sof (slip_init sof) (concat (map (slip_encode sof) ps)) []
  = map (fun p => (PFrame, p)) ps ++ [(PNoData, [])].
Proof. exact trace_frames. Qed.
Print Assumptions C12_concat.

Theorem C12_trace_is_repeated_decode : forall sof inp st out,
  trace sof st inp out =
  let '(res, out', rest, st') := pdecode sof st inp out in
  match res with PNoData => [(PNoData, out')] | _ => (res, out') :: trace sof st' rest [] end.
Proof. exact trace_is_repeated_decode. Qed.
Print Assumptions C12_trace_is_repeated_decode.

(* the delimiter octet occurs only as frame delimiter *)
Theorem C12_delimiter : forall sof p,
  slip_encode sof p = (if sof then [RAW_EOF] else []) ++ flat_map esc_octet p ++ [RAW_EOF] /\
  ~ In RAW_EOF (flat_map esc_octet p).
Proof. exact encode_delimiter. Qed.
Print Assumptions C12_delimiter.

(* at most 2n+1 (2n+2 with start-of-frame) octets, reached when every octet is a control octet *)
Theorem C12_bound : forall sof p,
  (length (slip_encode sof p) <= 2 * length p + (if sof then 2 else 1))%nat.
Proof. exact encode_bound. Qed.
Print Assumptions C12_bound.
Theorem C12_bound_tight : forall sof p, Forall (fun d => d = RAW_ESC \/ d = RAW_EOF) p ->
  length (slip_encode sof p) = (2 * length p + (if sof then 2 else 1))%nat.
Proof. exact encode_bound_tight. Qed.
Print Assumptions C12_bound_tight.

(* resynchronisation, classic mode: every well-formed frame after the next delimiter is delivered *)
Theorem C12_resync_classic : forall g st ps, st <> SearchStart ->
  exists pre, trace false st (g ++ RAW_EOF :: concat (map (slip_encode false) ps)) []
              = pre ++ map (fun p => (PFrame, p)) ps ++ [(PNoData, [])].
Proof. exact resync_classic. Qed.
Print Assumptions C12_resync_classic.

(* start-of-frame mode: at most the first following non-empty frame is lost *)
Theorem C12_resync_sof : forall g st p ps, p <> [] ->
  exists pre, trace true st (g ++ slip_encode true p ++ concat (map (slip_encode true) ps)) []
              = pre ++ map (fun q => (PFrame, q)) ps ++ [(PNoData, [])].
Proof. exact resync_sof. Qed.
Print Assumptions C12_resync_sof.

(* an invalid escape is an illegal sequence *)
Theorem C12_eilseq : forall sof x r out, x <> ESC_EOF -> x <> ESC_ESC ->
  pdecode sof Normal (RAW_ESC :: x :: r) out =
  (PIlseq, out, r, if x =? RAW_EOF then after_frame sof else SearchEnd).
Proof. exact invalid_escape. Qed.
Print Assumptions C12_eilseq.

(* never emits more octets than it consumed *)
Theorem C12_no_amplification : forall sof inp st,
  let '(res, out', rest, st') := pdecode sof st inp [] in
  (length out' + length rest <= length inp)%nat.
Proof. exact no_amplification. Qed.
Print Assumptions C12_no_amplification.

Example C12_example :
  slip_encode true [192; 65; 219] = [192; 219; 220; 65; 219; 221; 192] /\
  trace true SearchEnd ([1; 2] ++ slip_encode true [7] ++ slip_encode true [8; 9]) [] =
    [(PIlseq, []); (PFrame, [8; 9]); (PNoData, [])].
Proof. split; vm_compute; reflexivity. Qed.

(* the operational decoder and encoder (one call of rfc1055_decode / rfc1055_encode over endpoints) on a plain source and
   an accepting sink ARE the structural decoder and the specification encoder the theorems above are about -
   in every decoder state, classic and start-of-frame mode, octet- and chunk-style sources *)
Theorem C12_operational_decoder : forall sof st oct inp calls got kc,
  exists calls' kc',
    slip_decode_op sof st (plain_src oct inp calls) (plain_snk false got kc) =
    let '(pr, out, rest, st') := pdecode sof st inp got in
    Some (drc_of pr, st', plain_src oct rest calls', plain_snk false out kc').
Proof. exact slip_decode_op_plain. Qed.
Print Assumptions C12_operational_decoder.

Theorem C12_operational_encoder : forall sof oct inp calls got kc,
  exists calls' kc',
    slip_encode_op sof (plain_src oct inp calls) (plain_snk false got kc)
    = Some (None, plain_src oct [] calls', plain_snk false (got ++ slip_encode sof inp) kc').
Proof. exact slip_encode_op_plain. Qed.
Print Assumptions C12_operational_encoder.

(* ---- one call of the operational decoder under EVERY behaviour script of the source and of the sink (short answers, EINTR/EAGAIN,
   hard errors at any position) ---- *)
(* it returns *)
Theorem C12_decode_returns : forall sof st s k, slip_decode_op sof st s k <> None.
Proof. exact slip_decode_op_total. Qed.
Print Assumptions C12_decode_returns.
(* what it consumed is a prefix of the source's stream, what it emitted was appended to the sink, and it never emits more octets
   than it consumed *)
Theorem C12_decode_no_amplification : forall sof st s k rc st' s' k', slip_decode_op sof st s k = Some (rc, st', s', k') ->
  exists consumed emitted, s_stream s = consumed ++ s_stream s' /\ k_got k' = k_got k ++ emitted /\
    (length emitted <= length consumed)%nat.
Proof. exact slip_decode_op_bounded. Qed.
Print Assumptions C12_decode_no_amplification.
(* error codes: EILSEQ is the decoder's own; every other code is one the source or the sink driver produced (for drivers that
   answer every call with an octet or an error) *)
Theorem C12_decode_errors_unchanged : forall sof st s k e st' s' k', answers s ->
  slip_decode_op sof st s k = Some (DFail e, st', s', k') -> e = EILSEQ \/ src_error s e \/ snk_error k e.
Proof. exact slip_decode_op_errors. Qed.
Print Assumptions C12_decode_errors_unchanged.


(* the call under driver faults REFINES the structural decoder: run on exactly the octets the call consumed, the structural decoder
   gives the call's verdict, output and next state - a frame; an invalid escape; or a stop in mid-frame (driver error) with at most the
   octet in flight not delivered.  For sources that answer every call with an octet or an error and never report EILSEQ themselves,
   and sinks that take the octet or fail. *)
Theorem C12_decode_refines : forall sof st s k rc st' s' k', answers s -> no_ilseq s -> sink_answers k ->
  slip_decode_op sof st s k = Some (rc, st', s', k') ->
  exists consumed, s_stream s = consumed ++ s_stream s' /\
    match rc with
    | DFrame => pdecode sof st consumed (k_got k) = (PFrame, k_got k', [], st')
    | DFail e =>
        (e = EILSEQ /\ pdecode sof st consumed (k_got k) = (PIlseq, k_got k', [], st')) \/
        (exists out, pdecode sof st consumed (k_got k) = (PNoData, out, [], st') /\ (out = k_got k' \/ exists x, out = k_got k' ++ [x]))
    end.
Proof. exact slip_decode_op_refines. Qed.
Print Assumptions C12_decode_refines.

(* one call of the operational ENCODER under every source script and every sink that takes what it is given or fails: what reached the
   sink is a prefix of the specified encoding of the octets taken from the source; success = the whole frame *)
Theorem C12_encode_under_faults : forall sof s k e s' k', answers s -> sink_answers k ->
  slip_encode_op sof s k = Some (e, s', k') ->
  exists consumed sent, s_stream s = consumed ++ s_stream s' /\ k_got k' = k_got k ++ sent /\
    (e = None -> sent = slip_encode sof consumed) /\
    (forall err, e = Some err -> exists rest, slip_encode sof consumed = sent ++ rest).
Proof. exact slip_encode_op_spec. Qed.
Print Assumptions C12_encode_under_faults.

(* the fault theorems are not vacuous: a chunk-style source that delivers "a ESC" and then fails with EIO, a sink that takes two
   octets and then fails - the hypotheses hold, the decoder stops with the driver's code and "a" in the sink *)
Example C12_faults_example :
  let s := {| s_octet := false; s_stream := [97; 219; 220; 98; 192]; s_script := [Give 1; Give 1; Fail EIO]; s_calls := 0 |} in
  let k := {| k_octet := true; k_got := []; k_script := [Give 1; Give 1; Fail EPIPE]; k_calls := 0 |} in
  answers s /\ no_ilseq s /\ sink_answers k /\
  match slip_decode_op false Normal s k with
  | Some (rc, st', s', k') => (rc, st', s_stream s', k_got k') = (DFail EIO, Normal, [220; 98; 192], [97])
  | None => False
  end.
Proof.
  split; [repeat constructor; cbn; lia|]. split; [intros [H|[H|[H|[]]]]; discriminate|]. split; [repeat constructor; cbn; lia|].
  vm_compute. reflexivity.
Qed.
