(* Fixed-width integers as N / Z, byte images. *)
From Coq Require Export List NArith ZArith Lia.
Export ListNotations.
Local Open Scope N_scope.

Definition wrap (w x : N) : N := x mod 2 ^ w.
Definition wrapZ (w : N) (z : Z) : N := Z.to_N (z mod 2 ^ Z.of_N w).
(* two's complement value of the low w bits *)
Definition sext (w : N) (x : N) : Z :=
  let x := wrap w x in
  if x <? 2 ^ (w - 1) then Z.of_N x else (Z.of_N x - 2 ^ Z.of_N w)%Z.

Fixpoint le_bytes (k : nat) (v : N) : list N :=
  match k with O => [] | S k => (v mod 256) :: le_bytes k (v / 256) end.
Definition be_bytes (k : nat) (v : N) : list N := rev (le_bytes k v).
Fixpoint of_le (l : list N) : N :=
  match l with [] => 0 | b :: r => b + 256 * of_le r end.
Definition of_be (l : list N) : N := of_le (rev l).

Definition octets (l : list N) : Prop := Forall (fun b => b < 256) l.
Definition octetsb (l : list N) : bool := forallb (fun b => b <? 256) l.

(* list update *)
Fixpoint upd {A} (l : list A) (i : nat) (x : A) : list A :=
  match l, i with
  | [], _ => []
  | _ :: r, O => x :: r
  | a :: r, S i => a :: upd r i x
  end.
(* overwrite a slice starting at i; elements beyond the end are dropped *)
Fixpoint blit {A} (l : list A) (i : nat) (xs : list A) : list A :=
  match xs with
  | [] => l
  | x :: xs => blit (upd l i x) (S i) xs
  end.
Definition slice {A} (l : list A) (i n : nat) : list A := firstn n (skipn i l).
