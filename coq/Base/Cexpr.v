(* A small deep embedding of loop-free C integer expressions, the target of
   the translators in tools/.  Every operator node carries the C type clang
   assigned to it; evaluation is over Z and normalises into that type at each
   node (unsigned: modulo 2^w; signed: two's complement wrap, which the
   translated code never relies on). *)
From Coq Require Export List ZArith String Bool.
Export ListNotations.
Local Open Scope Z_scope.

Inductive ity := Ity (signed : bool) (w : Z).
Definition U8 := Ity false 8.   Definition U16 := Ity false 16.
Definition U32 := Ity false 32. Definition U64 := Ity false 64.
Definition S8 := Ity true 8.    Definition S16 := Ity true 16.
Definition S32 := Ity true 32.  Definition S64 := Ity true 64.

Definition norm (t : ity) (z : Z) : Z :=
  match t with
  | Ity false w => z mod 2 ^ w
  | Ity true w => (z + 2 ^ (w - 1)) mod 2 ^ w - 2 ^ (w - 1)
  end.

Inductive binop := Oand | Oor | Oxor | Oshl | Oshr | Oadd | Osub | Omul | Odiv | Orem
                 | Oeq | One | Olt | Ogt | Ole | Oge | Oland | Olor.
Inductive unop := Onot | Oneg | Olnot.

Inductive expr :=
| Var (x : string)
| Lit (z : Z)
| Bin (o : binop) (t : ity) (a b : expr)
| Un (o : unop) (t : ity) (a : expr)
| Cast (t : ity) (a : expr)
| Idx (tab : string) (i : expr)
| Cond (c a b : expr).

Definition b2z (b : bool) : Z := if b then 1 else 0.

Definition eval_bin (o : binop) (a b : Z) : Z :=
  match o with
  | Oand => Z.land a b | Oor => Z.lor a b | Oxor => Z.lxor a b
  | Oshl => Z.shiftl a b | Oshr => Z.shiftr a b
  | Oadd => a + b | Osub => a - b | Omul => a * b
  | Odiv => Z.quot a b | Orem => Z.rem a b
  | Oeq => b2z (a =? b) | One => b2z (negb (a =? b))
  | Olt => b2z (a <? b) | Ogt => b2z (a >? b) | Ole => b2z (a <=? b) | Oge => b2z (a >=? b)
  | Oland => b2z (negb (a =? 0) && negb (b =? 0))
  | Olor => b2z (negb (a =? 0) || negb (b =? 0))
  end.

Definition eval_un (o : unop) (a : Z) : Z :=
  match o with
  | Onot => Z.lnot a | Oneg => - a | Olnot => b2z (a =? 0)
  end.

Section Eval.
  Variable env : string -> Z.
  Variable tabs : string -> list Z.
  Fixpoint eval (e : expr) : Z :=
    match e with
    | Var x => env x
    | Lit z => z
    | Bin o t a b => norm t (eval_bin o (eval a) (eval b))
    | Un o t a => norm t (eval_un o (eval a))
    | Cast t a => norm t (eval a)
    | Idx tab i => nth (Z.to_nat (eval i)) (tabs tab) 0
    | Cond c a b => if eval c =? 0 then eval b else eval a
    end.
End Eval.

Definition env0 : string -> Z := fun _ => 0.
Definition bind (x : string) (v : Z) (env : string -> Z) : string -> Z :=
  fun y => if String.eqb x y then v else env y.
