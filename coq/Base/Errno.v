From Coq Require Import String.
From Coq Require Export NArith ZArith.
Local Open Scope string_scope.

Inductive errno := EINVAL | ENOMEM | ENODATA | EILSEQ | EINTR | EAGAIN | EBADMSG
                 | EPROTO | EFAULT | EBUSY | EPIPE | EIO | ENOENT | ERANGE | EOVERFLOW | EOTHER (n : N).

Definition ename (e : errno) : string :=
  match e with
  | EINVAL => "EINVAL" | ENOMEM => "ENOMEM" | ENODATA => "ENODATA" | EILSEQ => "EILSEQ"
  | EINTR => "EINTR" | EAGAIN => "EAGAIN" | EBADMSG => "EBADMSG" | EPROTO => "EPROTO"
  | EFAULT => "EFAULT" | EBUSY => "EBUSY" | EPIPE => "EPIPE" | EIO => "EIO"
  | ENOENT => "ENOENT" | ERANGE => "ERANGE" | EOVERFLOW => "EOVERFLOW" | EOTHER _ => "EOTHER"
  end.

Definition errno_eqb (a b : errno) : bool :=
  match a, b with
  | EOTHER x, EOTHER y => N.eqb x y
  | _, _ => String.eqb (ename a) (ename b)
  end.

(* errno numbers of the host (Linux), used only to decode fault scripts of the
   correspondence cases; checked against <errno.h> by harness/h_probe (consts) *)
Local Open Scope N_scope.
Definition errno_of_N (n : N) : errno :=
  match n with
  | 22 => EINVAL | 12 => ENOMEM | 61 => ENODATA | 84 => EILSEQ | 4 => EINTR | 11 => EAGAIN
  | 74 => EBADMSG | 71 => EPROTO | 14 => EFAULT | 16 => EBUSY | 32 => EPIPE | 5 => EIO
  | 2 => ENOENT | 34 => ERANGE | 75 => EOVERFLOW | _ => EOTHER n
  end.
