From Coq Require Import String.
From Coq Require Export NArith ZArith.
Local Open Scope string_scope.

Inductive errno := EINVAL | ENOMEM | ENODATA | EILSEQ | EINTR | EAGAIN | EBADMSG
                 | EPROTO | EFAULT | EBUSY | EPIPE | EIO | ENOENT | ERANGE | EOVERFLOW | EOTHER (n : N).

Definition ename (e : errno) : string :=
  match e with
  | EINVAL => "EINVAL" | ENOMEM => "ENOMEM" | ENODATA => "ENODATA" | EILSEQ => "EILSEQ"
  | EINTR => "EINTR" | EAGAIN => "EAGAIN" | EBADMSG => "EBADMSG" | EPROTO => "EPROTO"
  | EFAULT => "EFAULT" | EBUSY => "EBUSY" | EPIPE => "EPIPE" | EIO => "EIO"
  | ENOENT => "ENOENT" | ERANGE => "ERANGE" | EOVERFLOW => "EOVERFLOW" | EOTHER _ => "EOTHER"
  end.

Definition errno_eqb (a b : errno) : bool :=
  match a, b with
  | EOTHER x, EOTHER y => N.eqb x y
  | _, _ => String.eqb (ename a) (ename b)
  end.
