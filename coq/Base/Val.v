(* Generic values exchanged with the correspondence drivers.  One case line
   = one op name + a list of [val]; the observation is a list of [val]. *)
From Coq Require Export List NArith ZArith String Bool.
Export ListNotations.
Local Open Scope N_scope.

Inductive val :=
| VN (n : N)                (* unsigned integer, printed in decimal *)
| VZ (z : Z)                (* signed integer, printed in decimal (only negative ones reach the wire) *)
| VH (l : list N)           (* octet string, printed h:<hex> *)
| VL (l : list val)         (* list, printed l:<a>,<b>,... (elements must be integers) *)
| VS (s : string).          (* symbol: error class, mask "-" *)

Definition vbool (b : bool) : val := VN (if b then 1 else 0).

Definition getN (v : val) : N :=
  match v with VN n => n | VZ z => Z.to_N z | _ => 0 end.
Definition getZ (v : val) : Z :=
  match v with VN n => Z.of_N n | VZ z => z | _ => 0%Z end.
Definition getH (v : val) : list N :=
  match v with VH l => l | VL l => map getN l | _ => [] end.
Definition getL (v : val) : list val :=
  match v with VL l => l | VH l => map VN l | _ => [] end.
Definition getLN (v : val) : list N := map getN (getL v).
Definition getLZ (v : val) : list Z := map getZ (getL v).

Definition arg (n : nat) (args : list val) : val := nth n args (VN 0).
Definition argN n args := getN (arg n args).
Definition argZ n args := getZ (arg n args).
Definition argH n args := getH (arg n args).
Definition argLN n args := getLN (arg n args).
Definition argLZ n args := getLZ (arg n args).
Definition argB n args := negb (N.eqb (argN n args) 0).

(* result code printing: rc >= 0 -> VN, rc < 0 -> VZ *)
Definition vint (z : Z) : val := if (z <? 0)%Z then VZ z else VN (Z.to_N z).
