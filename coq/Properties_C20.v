(* C20  The s-expression reader inverts printing and fails cleanly on anything else.
   Statements only (printed by Coq from the lemmas they are closed with); proofs in Proof/SxLemmas.v; model Model/Sx.v.
   [renders t s]: s is a textual rendering of the tree t - symbols, decimal or #x hexadecimal integers in either letter case, nested proper
   lists incl. empty ones, arbitrary white space around list elements.  The model reader is a function of the n given octets only (it cannot read
   outside them); that the compiled code does not either, and that it frees what it allocated, is observed under ASan on exact-size blocks. *)
From Ufw Require Import Base.Bits Model.Sx Proof.SxLemmas.
From Coq Require Import Bool Lia.
Local Open Scope N_scope.
Local Open Scope bool_scope.

(* any rendering of any tree, behind any white space and in front of any rest (an atom must be followed by the end or a delimiter), is read back as the structurally identical tree, at the position just past the expression *)
Theorem C20_reader_inverts_printing :
  forall (t : sx) (s w rest : list N),
         renders t s ->
         all_space w ->
         octet_text (w ++ s ++ rest) ->
         (is_atom t = true -> ends_well rest = true) -> sx_parse (w ++ s ++ rest) = Some (ROk t (length w + length s)).
Proof. exact (@parse_printed). Qed.
Print Assumptions C20_reader_inverts_printing.

(* the decimal numeral of any 64-bit value reads back as that value *)
Theorem C20_decimal_numerals :
  forall n : N,
         n < 2 ^ 64 ->
         let text := map dec_char (digits_of 10 19 n) in
         number 10 text = n /\ forallb is_digit text = true /\ text <> [].
Proof. exact (@decimal_reads_back). Qed.
Print Assumptions C20_decimal_numerals.

(* the hexadecimal numeral of any 64-bit value, in any mixture of letter cases, reads back as that value *)
Theorem C20_hexadecimal_numerals :
  forall (n : N) (cases : list bool),
         n < 2 ^ 64 ->
         let ds := digits_of 16 15 n in
         let text :=
           map (fun p : bool * N => hex_char (fst p) (snd p)) (combine (cases ++ repeat false (length ds)) ds) in
         number 16 text = n /\ forallb is_xdigit text = true /\ text <> [].
Proof. exact (@hexadecimal_reads_back). Qed.
Print Assumptions C20_hexadecimal_numerals.

(* in general: the value read is the positional value of the digits *)
Theorem C20_numeral_value :
  forall (base : N) (ds text : list N),
         Forall2 (fun d c : N => digit_val c = d) ds text -> value base ds < 2 ^ 64 -> number base text = value base ds.
Proof. exact (@number_value). Qed.
Print Assumptions C20_numeral_value.

(* whatever the reader accepts is optional white space and a rendering of the returned tree, inside the input; the position is its end *)
Theorem C20_accepted_means_printed :
  forall (inp : list N) (t : sx) (c : nat),
         octet_text inp ->
         sx_parse inp = Some (ROk t c) ->
         (c <= length inp)%nat /\
         (exists w s : list N,
            firstn c inp = w ++ s /\ all_space w /\ renders t s /\ (is_atom t = true -> ends_well (skipn c inp) = true)).
Proof. exact (@sx_parse_sound). Qed.
Print Assumptions C20_accepted_means_printed.

(* an input that does not begin, after optional white space, with a complete expression yields an error status (and the model returns no tree with an error) *)
Theorem C20_everything_else_is_rejected :
  forall inp : list N,
         octet_text inp ->
         (forall (w s rest : list N) (t : sx),
          inp = w ++ s ++ rest -> all_space w -> renders t s -> (is_atom t = true -> ends_well rest = true) -> False) ->
         exists e : sxstatus, sx_parse inp = Some (RErr e).
Proof. exact (@sx_parse_rejects). Qed.
Print Assumptions C20_everything_else_is_rejected.

(* the reader terminates on every input (the fuel of the model, length + 1, is never exhausted) *)
Theorem C20_reader_terminates :
  forall inp : list N, octet_text inp -> sx_parse inp <> None.
Proof. exact (@sx_parse_total). Qed.
Print Assumptions C20_reader_terminates.

(* the same for the elements of a list up to its closing parenthesis *)
Theorem C20_list_elements :
  forall (fuel : nat) (inp : list N) (t : sx) (c : nat),
         octet_text inp ->
         parse_list fuel inp = Some (ROk t c) ->
         (c <= length inp)%nat /\ (exists ts : list sx, t = list_of ts /\ renders_elems ts (firstn c inp)).
Proof. exact (@parse_list_sound). Qed.
Print Assumptions C20_list_elements.


(* the premises are satisfiable *)
Example C20_nonvacuous :
  (* "(a () #xfF)" *)
  let text := [40; 97; 32; 40; 41; 32; 35; 120; 102; 70; 41] in
  renders (list_of [Sym [97]; list_of []; Int 255]) text /\
  sx_parse (32 :: text ++ [32; 120]) = Some (ROk (Cons (Sym [97]) (Cons Nil (Cons (Int 255) Nil))) 12).
Proof.
  split; [|vm_compute; reflexivity].
  apply (R_list [Sym [97]; list_of []; Int 255]).
  apply (RE_cons [] (Sym [97]) _ [97] [32; 40; 41; 32; 35; 120; 102; 70; 41]); [reflexivity| | |intros _; reflexivity].
  - apply R_atom, A_sym. split; reflexivity.
  - apply (RE_cons [32] (list_of []) _ [40; 41] [32; 35; 120; 102; 70; 41]); [reflexivity| | |discriminate].
    + apply (R_list [] [41]). apply (RE_nil []). reflexivity.
    + apply (RE_cons [32] (Int 255) [] [35; 120; 102; 70] [41]); [reflexivity| | |intros _; reflexivity].
      * apply R_atom. apply (A_hex [102; 70]); [discriminate|reflexivity].
      * apply (RE_nil []). reflexivity.
Qed.
