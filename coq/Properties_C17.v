From Ufw Require Import Model.Endpoints.
