(* C17  Endpoints move exactly N octets in order whatever the driver does.
   Statements only (printed by Coq from the lemmas they are closed with); proofs in Proof/EndpointsLemmas.v, Proof/EndpointsTotal.v,
   Proof/EndpointsAux.v; model Model/Endpoints.v (scripted drivers: every driver call consumes one behaviour event
   Give k | Zero | Intr | Again | Fail e; behind the script the driver delivers what is asked until the stream ends).
   Proved for EVERY source script and EVERY sink script, octet- and chunk-style drivers on both sides: the get/put sides and their at-most
   variants incl. termination of the retry loops; the per-octet, counted and draining source-to-sink plumbing without and with an auxiliary
   buffer (what reached the sink is a prefix of the stream, a success moved exactly the requested octets in order, the calls return;
   at most the one octet - or the one scratch-buffer load - in flight is lost when the sink fails). *)
From Ufw Require Import Base.Bits Base.Errno Model.Endpoints Proof.EndpointsLemmas Proof.EndpointsTotal Proof.EndpointsAux Model.ByteBuffer Model.BufEndpoints Proof.BufEndpointsLemmas.
From Coq Require Import Lia.
Local Open Scope N_scope.

(* reading N octets: what is delivered followed by what the driver still holds is the original stream (no loss, duplication, reordering); success = exactly the next N octets; EINTR/EAGAIN never surface *)
Theorem C17_get :
  forall (s : src) (n : N) (r : dres) (d : list N) (s' : src),
         source_get_chunk s n = Some (r, d, s') ->
         d ++ s_stream s' = s_stream s /\
         (forall c : N, r = DOk c -> c = n /\ N.of_nat (length d) = n /\ d = firstn (N.to_nat n) (s_stream s)) /\
         (forall e : errno, r = DErr e -> is_retry e = false).
Proof. exact (@get_chunk_exact). Qed.
Print Assumptions C17_get.

(* ... and it always returns, whatever the driver does *)
Theorem C17_get_terminates :
  forall (s : src) (n : N), source_get_chunk s n <> None.
Proof. exact (@get_chunk_total). Qed.
Print Assumptions C17_get_terminates.

(* N = 0 or N > SSIZE_MAX is refused without a driver call *)
Theorem C17_get_invalid :
  forall (s : src) (n : N), n = 0 \/ SSIZE_MAX < n -> source_get_chunk s n = Some (DErr EINVAL, [], s).
Proof. exact (@get_chunk_invalid). Qed.
Print Assumptions C17_get_invalid.

(* the at-most variant never delivers more than asked and reports the count delivered *)
Theorem C17_get_atmost :
  forall (s : src) (n : N) (r : dres) (d : list N) (s' : src),
         source_get_chunk_atmost s n = Some (r, d, s') ->
         d ++ s_stream s' = s_stream s /\ (forall c : N, r = DOk c -> N.of_nat (length d) = c /\ c <= n).
Proof. exact (@get_chunk_atmost_bound). Qed.
Print Assumptions C17_get_atmost.

(* writing N octets: what reached the sink is a prefix of the data; success = all N, in order *)
Theorem C17_put :
  forall (k : snk) (xs : list N) (n : N) (r : dres) (k' : snk),
         sink_put_chunk k xs n = Some (r, k') ->
         exists sent : list N,
           k_got k' = k_got k ++ sent /\
           (exists rest : list N, firstn (N.to_nat n) xs = sent ++ rest) /\
           (forall c : N, r = DOk c -> c = n /\ sent = firstn (N.to_nat n) xs) /\
           (forall e : errno, r = DErr e -> is_retry e = false).
Proof. exact (@put_chunk_exact). Qed.
Print Assumptions C17_put.

(* ... and it always returns *)
Theorem C17_put_terminates :
  forall (k : snk) (xs : list N) (n : N), sink_put_chunk k xs n <> None.
Proof. exact (@put_chunk_total). Qed.
Print Assumptions C17_put_terminates.

(* N = 0 or N > SSIZE_MAX is refused *)
Theorem C17_put_invalid :
  forall (k : snk) (xs : list N) (n : N),
         n = 0 \/ SSIZE_MAX < n -> sink_put_chunk k xs n = Some (DErr EINVAL, k).
Proof. exact (@put_chunk_invalid). Qed.
Print Assumptions C17_put_invalid.

(* the at-most variant *)
Theorem C17_put_atmost :
  forall (k : snk) (xs : list N) (r : dres) (k' : snk),
         once_sink_put_chunk k xs = Some (r, k') ->
         exists sent : list N,
           k_got k' = k_got k ++ sent /\
           (exists rest : list N, xs = sent ++ rest) /\
           (forall c : N, r = DOk c -> sent = firstn (N.to_nat c) xs /\ c <= N.of_nat (length xs)) /\
           (forall e : errno, r = DErr e -> is_retry e = true -> sent = []).
Proof. exact (@once_put_spec). Qed.
Print Assumptions C17_put_atmost.

(* the at-most variants return *)
Theorem C17_atmost_terminate :
  forall (s : src) (n : N), once_source_get_chunk s n <> None.
Proof. exact (@once_get_total). Qed.
Print Assumptions C17_atmost_terminate.

Theorem C17_atmost_put_terminates :
  forall (k : snk) (xs : list N), once_sink_put_chunk k xs <> None.
Proof. exact (@once_put_total). Qed.
Print Assumptions C17_atmost_put_terminates.

(* source-to-sink, counted: exactly the next n octets reach the sink in order, or an error is returned and what reached the sink is a prefix of the stream (at most the one octet in flight is lost) *)
Theorem C17_plumbing_counted :
  forall (s : src) (k : snk) (n : N) (r : dres) (s' : src) (k' : snk),
         sts_n s k n = Some (r, s', k') ->
         exists moved lost : list N,
           s_stream s = moved ++ lost ++ s_stream s' /\
           k_got k' = k_got k ++ moved /\
           (length lost <= 1)%nat /\
           (forall t : N,
            r = DOk t -> t = n /\ moved = firstn (N.to_nat n) (s_stream s) /\ N.of_nat (length moved) = n /\ lost = []).
Proof. exact (@sts_n_spec). Qed.
Print Assumptions C17_plumbing_counted.

Theorem C17_plumbing_counted_terminates :
  forall (s : src) (k : snk) (n : N), sts_n s k n <> None.
Proof. exact (@sts_n_total). Qed.
Print Assumptions C17_plumbing_counted_terminates.

(* source-to-sink, draining: everything up to the point where source or sink ended it reached the sink, in order *)
Theorem C17_plumbing_drain :
  forall (fuel : nat) (s : src) (k : snk) (r : dres) (s' : src) (k' : snk),
         sts_drain_cbc fuel s k = Some (r, s', k') ->
         exists (moved lost : list N) (e : errno),
           r = DErr e /\
           s_stream s = moved ++ lost ++ s_stream s' /\ k_got k' = k_got k ++ moved /\ (length lost <= 1)%nat.
Proof. exact (@sts_drain_spec). Qed.
Print Assumptions C17_plumbing_drain.

Theorem C17_plumbing_drain_terminates :
  forall (s : src) (k : snk), sts_drain s k <> None.
Proof. exact (@sts_drain_total). Qed.
Print Assumptions C17_plumbing_drain_terminates.

(* one octet through: zero-length answers of either driver are repeated, never forwarded or counted *)
Theorem C17_plumbing_one_octet :
  forall (s : src) (k : snk) (r : dres) (s' : src) (k' : snk),
         sts_cbc s k = (r, s', k') ->
         (length (s_script s') <= length (s_script s))%nat /\
         (length (k_script k') <= length (k_script k))%nat /\
         (exists moved lost : list N,
            s_stream s = moved ++ lost ++ s_stream s' /\
            k_got k' = k_got k ++ moved /\
            (forall c : N, r = DOk c -> c = 1 /\ length moved = 1%nat /\ lost = []) /\
            (forall e : errno, r = DErr e -> moved = [] /\ (length lost <= 1)%nat)).
Proof. exact (@sts_cbc_spec). Qed.
Print Assumptions C17_plumbing_one_octet.

(* the fixed-count per-octet loop *)
Theorem C17_plumbing_fixed_count :
  forall (n : nat) (total : N) (s : src) (k : snk) (r : dres) (s' : src) (k' : snk),
         sts_n_cbc n total s k = (r, s', k') ->
         exists moved lost : list N,
           s_stream s = moved ++ lost ++ s_stream s' /\
           k_got k' = k_got k ++ moved /\
           (length lost <= 1)%nat /\ (forall t : N, r = DOk t -> t = total /\ length moved = n /\ lost = []).
Proof. exact (@sts_n_cbc_spec). Qed.
Print Assumptions C17_plumbing_fixed_count.

(* one round through the auxiliary buffer: what was read is written to the start of the scratch image only, and all of it is pushed *)
Theorem C17_aux_round :
  forall (s : src) (k : snk) (aux : list N) (n : N) (r : dres) (s' : src) (k' : snk) (aux' : list N),
         sts_some_aux s k aux n = Some (r, s', k', aux') ->
         exists d sent : list N,
           s_stream s = d ++ s_stream s' /\
           k_got k' = k_got k ++ sent /\
           (exists rest : list N, d = sent ++ rest) /\
           aux' = blit aux 0 d /\ (forall c : N, r = DOk c -> sent = d /\ N.of_nat (length d) = c /\ 1 <= c <= n).
Proof. exact (@sts_some_aux_spec). Qed.
Print Assumptions C17_aux_round.

Theorem C17_aux_round_terminates :
  forall (s : src) (k : snk) (aux : list N) (n : N), sts_some_aux s k aux n <> None.
Proof. exact (@sts_some_aux_total). Qed.
Print Assumptions C17_aux_round_terminates.

(* counted, through the auxiliary buffer: exactly the next n octets in order, or an error with a prefix in the sink *)
Theorem C17_aux_counted :
  forall (s : src) (k : snk) (aux : list N) (n : N) (r : dres) (s' : src) (k' : snk) (aux' : list N),
         sts_n_aux s k aux n = Some (r, s', k', aux') ->
         exists moved lost : list N,
           s_stream s = moved ++ lost ++ s_stream s' /\
           k_got k' = k_got k ++ moved /\
           (forall t : N,
            r = DOk t -> t = n /\ moved = firstn (N.to_nat n) (s_stream s) /\ N.of_nat (length moved) = n /\ lost = []).
Proof. exact (@sts_n_aux_spec). Qed.
Print Assumptions C17_aux_counted.

Theorem C17_aux_counted_terminates :
  forall (s : src) (k : snk) (aux : list N) (n : N), sts_n_aux s k aux n <> None.
Proof. exact (@sts_n_aux_total). Qed.
Print Assumptions C17_aux_counted_terminates.

(* draining through the auxiliary buffer *)
Theorem C17_aux_drain :
  forall (s : src) (k : snk) (aux : list N) (r : dres) (s' : src) (k' : snk) (aux' : list N),
         sts_drain_aux s k aux = Some (r, s', k', aux') ->
         exists (moved lost : list N) (e : errno),
           r = DErr e /\ s_stream s = moved ++ lost ++ s_stream s' /\ k_got k' = k_got k ++ moved.
Proof. exact (@sts_drain_aux_spec). Qed.
Print Assumptions C17_aux_drain.

Theorem C17_aux_drain_terminates :
  forall (s : src) (k : snk) (aux : list N), sts_drain_aux s k aux <> None.
Proof. exact (@sts_drain_aux_total). Qed.
Print Assumptions C17_aux_drain_terminates.

(* the library's own drivers (endpoints/buffer.c), a byte buffer as source: reading N octets delivers exactly the next N unread octets and advances the read position by N; with fewer than N unread it delivers them all and reports end of data *)
Theorem C17_buffer_source :
  forall (b : bbuf) (n : N),
         bb_inv b ->
         1 <= n <= SSIZE_MAX ->
         exists b' : bbuf,
           buffer_get_chunk b n =
           (if n <=? bb_rest b
            then Some (DOk n, firstn (N.to_nat n) (bb_unread b), b')
            else Some (DErr ENODATA, bb_unread b, b')) /\
           bb_unread b' = skipn (N.to_nat (N.min n (bb_rest b))) (bb_unread b) /\
           bb_mem b' = bb_mem b /\ bb_used b' = bb_used b /\ bb_size b' = bb_size b /\ bb_inv b'.
Proof. exact (@buffer_get_chunk_spec). Qed.
Print Assumptions C17_buffer_source.

Theorem C17_buffer_source_invalid :
  forall (b : bbuf) (n : N), n = 0 \/ SSIZE_MAX < n -> buffer_get_chunk b n = Some (DErr EINVAL, [], b).
Proof. exact (@buffer_get_chunk_invalid). Qed.
Print Assumptions C17_buffer_source_invalid.

(* a chunk list as source: the unread octets of the chunks from the active one on, in order, across chunk borders and exhausted chunks *)
Theorem C17_chunk_list_source :
  forall (c : chunks) (n : N),
         chunks_inv c ->
         1 <= n <= SSIZE_MAX ->
         exists c' : chunks,
           chunks_get_chunk c n =
           (if n <=? N.of_nat (length (chunks_unread c))
            then Some (DOk n, firstn (N.to_nat n) (chunks_unread c), c')
            else Some (DErr ENODATA, chunks_unread c, c')) /\
           chunks_unread c' = skipn (N.to_nat n) (chunks_unread c) /\ chunks_inv c'.
Proof. exact (@chunks_get_chunk_spec). Qed.
Print Assumptions C17_chunk_list_source.

(* counted move from a buffer source into a buffer sink (per octet, no extension): with enough unread octets and enough room exactly the next n octets are appended, in order *)
Theorem C17_buffer_to_buffer :
  forall (fuel : nat) (total rest : N) (s k : bbuf),
         bb_inv s ->
         bb_inv k ->
         rest <= bb_rest s ->
         rest <= bb_avail k ->
         (N.to_nat rest < fuel)%nat ->
         exists s' k' : bbuf,
           buf_sts_n fuel total rest s k = Some (DOk total, s', k') /\
           bb_unread s' = skipn (N.to_nat rest) (bb_unread s) /\
           bb_filled k' = bb_filled k ++ firstn (N.to_nat rest) (bb_unread s) /\
           bb_offset k' = bb_offset k /\ bb_inv s' /\ bb_inv k'.
Proof. exact (@buf_sts_n_spec). Qed.
Print Assumptions C17_buffer_to_buffer.

(* a byte buffer as sink: N octets are appended exactly, or the call is refused with ENOMEM and the buffer is unchanged *)
Theorem C17_buffer_sink :
  forall (b : bbuf) (xs : list N) (n : N),
         bb_inv b ->
         1 <= n <= SSIZE_MAX ->
         n <= N.of_nat (length xs) ->
         n <= bb_avail b /\
         (exists b' : bbuf,
            buffer_put_chunk b xs n = Some (DOk n, b') /\
            bb_filled b' = bb_filled b ++ firstn (N.to_nat n) xs /\
            bb_offset b' = bb_offset b /\ bb_size b' = bb_size b /\ bb_inv b') \/
         bb_avail b < n /\ buffer_put_chunk b xs n = Some (DErr ENOMEM, b).
Proof. exact (@buffer_put_chunk_spec). Qed.
Print Assumptions C17_buffer_sink.


(* non-vacuity: a chunk driver that gives 2, then nothing, is interrupted, then gives the rest; a counted transfer into a sink that takes
   nothing at first and fails at the third octet; a counted transfer through a 2-octet scratch buffer *)
Example C17_example :
  source_get_chunk {| s_octet := false; s_stream := [1;2;3;4;5;6]; s_script := [Give 2; Zero; Intr; Give 1]; s_calls := 0 |} 5
  = Some (DOk 5, [1;2;3;4;5],
          {| s_octet := false; s_stream := [6]; s_script := []; s_calls := 5 |}).
Proof. vm_compute. reflexivity. Qed.
Example C17_plumbing_example :
  let k := {| k_octet := true; k_got := []; k_script := [Zero; Give 1; Zero; Give 1; Fail EIO]; k_calls := 0 |} in
  match sts_n (src_plain false [1;2;3;4;5]) k 4 with
  | Some (r, s', k') => (r, s_stream s', k_got k') = (DErr EIO, [4;5], [1;2])
  | None => False
  end.
Proof. vm_compute. reflexivity. Qed.
Example C17_aux_example :
  match sts_n_aux (src_plain true [1;2;3;4;5]) (snk_plain false) [0;0] 5 with
  | Some (r, s', k', aux') => (r, s_stream s', k_got k', aux') = (DOk 5, [], [1;2;3;4;5], [5;4])
  | None => False
  end.
Proof. vm_compute. reflexivity. Qed.
