(* C17  Endpoints move exactly N octets in order whatever the driver does.
   Statements only; proofs in Proof/EndpointsLemmas.v; model Model/Endpoints.v (scripted drivers:
   every driver call consumes one behaviour event Give k | Zero | Intr | Again | Fail e).
   Proved here: the source and sink sides (get/put, at-most variants, refusal of invalid counts) for
   EVERY script, octet- and chunk-style drivers.  The source-to-sink plumbing functions are modelled
   (the sts functions of Model/Endpoints.v) and tied by correspondence only - see DESIGN.md C17 (partial). *)
From Ufw Require Import Base.Bits Base.Errno Model.Endpoints Proof.EndpointsLemmas.
Local Open Scope N_scope.

(* reading N octets: what is delivered followed by what the driver still holds is the original stream
   (no loss, duplication, reordering); success = exactly the next N octets; EINTR/EAGAIN never surface *)
Theorem C17_get : forall s n r d s', source_get_chunk s n = Some (r, d, s') ->
  d ++ s_stream s' = s_stream s /\
  (forall c, r = DOk c -> c = n /\ N.of_nat (length d) = n /\ d = firstn (N.to_nat n) (s_stream s)) /\
  (forall e, r = DErr e -> is_retry e = false).
Proof. exact get_chunk_exact. Qed.
Print Assumptions C17_get.

Theorem C17_get_invalid : forall s n, n = 0 \/ SSIZE_MAX < n ->
  source_get_chunk s n = Some (DErr EINVAL, [], s).
Proof. exact get_chunk_invalid. Qed.
Print Assumptions C17_get_invalid.

Theorem C17_get_atmost : forall s n r d s', source_get_chunk_atmost s n = Some (r, d, s') ->
  d ++ s_stream s' = s_stream s /\ (forall c, r = DOk c -> N.of_nat (length d) = c /\ c <= n).
Proof. exact get_chunk_atmost_bound. Qed.
Print Assumptions C17_get_atmost.

(* writing N octets: what reached the sink is a prefix of the data; success = all N, in order *)
Theorem C17_put : forall k xs n r k', sink_put_chunk k xs n = Some (r, k') ->
  exists sent, k_got k' = k_got k ++ sent /\
    (exists rest, firstn (N.to_nat n) xs = sent ++ rest) /\
    (forall c, r = DOk c -> c = n /\ sent = firstn (N.to_nat n) xs) /\
    (forall e, r = DErr e -> is_retry e = false).
Proof. exact put_chunk_exact. Qed.
Print Assumptions C17_put.

Theorem C17_put_invalid : forall k xs n, n = 0 \/ SSIZE_MAX < n ->
  sink_put_chunk k xs n = Some (DErr EINVAL, k).
Proof. exact put_chunk_invalid. Qed.
Print Assumptions C17_put_invalid.

Theorem C17_put_atmost : forall k xs r k', sink_put_chunk_atmost k xs = Some (r, k') ->
  exists sent, k_got k' = k_got k ++ sent /\ (exists rest, xs = sent ++ rest) /\
               (forall c, r = DOk c -> sent = firstn (N.to_nat c) xs /\ c <= N.of_nat (length xs)) /\
               (forall e, r = DErr e -> is_retry e = true -> sent = []).
Proof. exact once_put_spec. Qed.
Print Assumptions C17_put_atmost.

(* non-vacuity: a chunk driver that gives 2, then nothing, is interrupted, then gives the rest *)
Example C17_example :
  source_get_chunk {| s_octet := false; s_stream := [1;2;3;4;5;6]; s_script := [Give 2; Zero; Intr; Give 1]; s_calls := 0 |} 5
  = Some (DOk 5, [1;2;3;4;5],
          {| s_octet := false; s_stream := [6]; s_script := []; s_calls := 5 |}).
Proof. vm_compute. reflexivity. Qed.
