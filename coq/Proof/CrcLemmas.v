From Ufw Require Import Base.Bits Base.Cexpr Gen.CrcGen Model.Crc Proof.CexprLemmas Proof.Sweep.
From Coq Require Import Lia String.
Local Open Scope N_scope.

(* ---- Step 1: the translated octet step, freed of its C types ---- *)
Definition tableN : list N := map Z.to_N crc16_table_gen.
Definition crc16_octet_simple (crc d : N) : N :=
  N.lxor (N.shiftr crc 8) (nth (N.to_nat (N.land (N.lxor crc (N.land d 255)) 255)) tableN 0).

Lemma table_Z : crc16_table_gen = map Z.of_N tableN.
Proof. vm_compute. reflexivity. Qed.

Lemma table_fits i : fitsN 16 (nth i tableN 0).
Proof.
  assert (H : forallb (fun x => x <? 2 ^ 16) tableN = true) by (vm_compute; reflexivity).
  rewrite forallb_forall in H.
  destruct (Nat.lt_ge_cases i (List.length tableN)) as [Hi|Hi].
  - apply N.ltb_lt, H, nth_In, Hi.
  - rewrite nth_overflow by exact Hi. apply fitsN_0.
Qed.

Lemma nth_map_ofN i l : nth i (map Z.of_N l) 0%Z = Z.of_N (nth i l 0).
Proof. change 0%Z with (Z.of_N 0). apply map_nth. Qed.

Ltac crc_leaf := first [ fits_hyp | eapply fitsN_mono; [|apply table_fits]; vm_compute; discriminate ].
Ltac crc_fits := fits_with crc_leaf.

Ltac denorm leaf :=
  repeat match goal with
  | |- context [norm (Ity false (Z.of_N ?w)) (Z.of_N ?x)] => rewrite (norm_u_N w x) by fits_with leaf
  | |- context [norm (Ity true (Z.of_N ?w)) (Z.of_N ?x)] =>
      rewrite (norm_s_N w x) by (first [reflexivity | fits_with leaf])
  | |- context [Z.land (Z.of_N ?a) (Z.of_N ?b)] => rewrite <- (N2Z_land a b)
  | |- context [Z.lxor (Z.of_N ?a) (Z.of_N ?b)] => rewrite <- (N2Z_lxor a b)
  | |- context [Z.lor (Z.of_N ?a) (Z.of_N ?b)] => rewrite <- (N2Z_lor a b)
  | |- context [Z.shiftr (Z.of_N ?a) (Z.of_N ?b)] => rewrite <- (N2Z_shiftr a b)
  | |- context [Z.to_nat (Z.of_N ?a)] => rewrite (Z2nat_ofN a)
  | |- context [nth ?i (map Z.of_N ?l) 0%Z] => rewrite (nth_map_ofN i l)
  end.

Lemma octet_eval crc d : fitsN 16 crc -> fitsN 8 d ->
  crc16_octet crc d = crc16_octet_simple crc d.
Proof.
  intros Hc Hd. unfold crc16_octet, crc16_octet_body.
  cbn [eval eval_bin].
  change (bind "crc" (Z.of_N crc) (bind "data" (Z.of_N d) env0) "crc") with (Z.of_N crc).
  change (bind "crc" (Z.of_N crc) (bind "data" (Z.of_N d) env0) "data") with (Z.of_N d).
  change (crc_tabs "crc16_table") with crc16_table_gen. rewrite table_Z.
  change 255%Z with (Z.of_N 255). change 8%Z with (Z.of_N 8).
  change 16%Z with (Z.of_N 16). change 32%Z with (Z.of_N 32).
  Opaque norm.
  denorm crc_leaf.
  rewrite N2Z.id. reflexivity.
  Transparent norm.
Qed.

(* ---- Step 2: xor-linearity of the LFSR ---- *)
Lemma odd_lxor a b : N.odd (N.lxor a b) = xorb (N.odd a) (N.odd b).
Proof. rewrite <- !N.bit0_odd. apply N.lxor_spec. Qed.

Lemma bitstep_lxor a b : bitstep (N.lxor a b) = N.lxor (bitstep a) (bitstep b).
Proof.
  unfold bitstep. rewrite odd_lxor, N.shiftr_lxor.
  set (x := N.shiftr a 1). set (y := N.shiftr b 1). set (p := poly_reflected).
  destruct (N.odd a), (N.odd b); cbn [xorb];
    apply N.bits_inj; intro n; rewrite ?N.lxor_spec, ?N.bits_0;
    destruct (N.testbit x n), (N.testbit y n), (N.testbit p n); reflexivity.
Qed.

Lemma step8_lxor a b : step8 (N.lxor a b) = N.lxor (step8 a) (step8 b).
Proof. unfold step8. rewrite !bitstep_lxor. reflexivity. Qed.

Lemma step8_high h : h < 256 -> step8 (N.shiftl h 8) = h.
Proof.
  intros H. apply N.eqb_eq.
  apply (sweep256 (fun h => step8 (N.shiftl h 8) =? h)); [vm_compute; reflexivity|exact H].
Qed.

Lemma step8_table x : x < 256 -> step8 x = nth (N.to_nat x) tableN 0.
Proof.
  intros H. apply N.eqb_eq.
  apply (sweep256 (fun x => step8 x =? nth (N.to_nat x) tableN 0)); [vm_compute; reflexivity|exact H].
Qed.

Lemma split8 c : c = N.lxor (N.shiftl (N.shiftr c 8) 8) (N.land c 255).
Proof.
  apply N.bits_inj; intro n. rewrite N.lxor_spec, N.land_spec.
  change 255 with (N.ones 8).
  destruct (N.lt_ge_cases n 8) as [Hn|Hn].
  - rewrite N.shiftl_spec_low by exact Hn. rewrite N.ones_spec_low by exact Hn.
    rewrite andb_true_r, xorb_false_l. reflexivity.
  - rewrite N.shiftl_spec_high' by exact Hn. rewrite N.shiftr_spec'.
    rewrite N.ones_spec_high by exact Hn. rewrite andb_false_r, xorb_false_r.
    f_equal. lia.
Qed.

Lemma land255_small d : fitsN 8 d -> N.land d 255 = d.
Proof.
  intros H. change 255 with (N.ones 8). rewrite N.land_ones. apply N.mod_small. exact H.
Qed.

Lemma land_lxor_distr a b c : N.land (N.lxor a b) c = N.lxor (N.land a c) (N.land b c).
Proof.
  apply N.bits_inj; intro n. rewrite ?N.land_spec, ?N.lxor_spec, ?N.land_spec.
  destruct (N.testbit a n), (N.testbit b n), (N.testbit c n); reflexivity.
Qed.

Lemma simple_eq_spec crc d : fitsN 16 crc -> fitsN 8 d ->
  crc16_octet_simple crc d = spec_octet crc d.
Proof.
  intros Hc Hd. unfold crc16_octet_simple, spec_octet.
  rewrite (land255_small d Hd).
  rewrite (split8 crc) at 3.
  rewrite N.lxor_assoc, step8_lxor.
  assert (Hh : N.shiftr crc 8 < 256) by (apply (fitsN_shiftr 8 8 crc); exact Hc).
  rewrite (step8_high _ Hh).
  rewrite land_lxor_distr, (land255_small d Hd).
  assert (Hl : N.lxor (N.land crc 255) d < 256).
  { apply (fitsN_lxor 8); [apply fitsN_land_r; vm_compute; reflexivity|exact Hd]. }
  rewrite (step8_table _ Hl). reflexivity.
Qed.

Theorem octet_spec crc d : crc < 2 ^ 16 -> d < 2 ^ 8 -> crc16_octet crc d = spec_octet crc d.
Proof. intros Hc Hd. rewrite octet_eval by assumption. apply simple_eq_spec; assumption. Qed.

Theorem table_spec i : i < 256 -> nth (N.to_nat i) tableN 0 = step8 i.
Proof. intros H. symmetry. apply step8_table. exact H. Qed.

(* the spec step stays in 16 bits *)
Lemma bitstep_fits x : fitsN 16 x -> fitsN 16 (bitstep x).
Proof.
  intros H. unfold bitstep. apply fitsN_lxor.
  - apply (fitsN_mono 15); [vm_compute; discriminate|]. apply fitsN_shiftr. exact H.
  - destruct (N.odd x); vm_compute; reflexivity.
Qed.

Lemma spec_octet_fits c d : fitsN 16 c -> fitsN 8 d -> fitsN 16 (spec_octet c d).
Proof.
  intros Hc Hd. unfold spec_octet, step8.
  do 8 apply bitstep_fits. apply fitsN_lxor; [exact Hc|].
  apply (fitsN_mono 8); [vm_compute; discriminate|exact Hd].
Qed.

(* two step functions that agree on 16-bit states and octets, one of which keeps the state in 16 bits, give the same
   fold; stated for abstract functions so that the kernel never looks into the translated step function *)
Lemma fold_agree (f g : N -> N -> N) :
  (forall c d, c < 2 ^ 16 -> d < 2 ^ 8 -> f c d = g c d) ->
  (forall c d, c < 2 ^ 16 -> d < 2 ^ 8 -> g c d < 2 ^ 16) ->
  forall l c, c < 2 ^ 16 -> Forall (fun b => b < 2 ^ 8) l -> fold_left f l c = fold_left g l c.
Proof.
  intros Hfg Hg. induction l as [|d l IH]; intros c Hc Hl; [reflexivity|].
  inversion Hl as [|? ? Hd Hl']; subst. cbn [fold_left].
  rewrite (Hfg c d Hc Hd). apply IH; [apply Hg; assumption|exact Hl'].
Qed.

Theorem bytes_spec l : forall c, c < 2 ^ 16 -> Forall (fun b => b < 2 ^ 8) l ->
  crc_bytes c l = spec_crc c l.
Proof.
  intros c Hc Hl. exact (fold_agree crc16_octet spec_octet octet_spec (fun c d Hc Hd => spec_octet_fits c d Hc Hd) l c Hc Hl).
Qed.

Theorem bytes_app c a b : crc_bytes c (a ++ b) = crc_bytes (crc_bytes c a) b.
Proof. unfold crc_bytes. apply fold_left_app. Qed.

Theorem spec_app c a b : spec_crc c (a ++ b) = spec_crc (spec_crc c a) b.
Proof. unfold spec_crc. apply fold_left_app. Qed.

(* ---- the 16-bit-word variant ---- *)
Lemma u16_first_eq w : fitsN 16 w -> u16_first w = w mod 256.
Proof.
  intros Hw. unfold u16_first, crc16_u16_first. cbn [eval eval_bin].
  change (bind "w" (Z.of_N w) env0 "w") with (Z.of_N w).
  change 255%Z with (Z.of_N 255). change 8%Z with (Z.of_N 8). change 32%Z with (Z.of_N 32).
  Opaque norm. denorm ltac:(idtac; fits_hyp). Transparent norm.
  rewrite N2Z.id. change 255 with (N.ones 8). apply N.land_ones.
Qed.

Lemma u16_second_eq w : fitsN 16 w -> u16_second w = w / 256.
Proof.
  intros Hw. unfold u16_second, crc16_u16_second. cbn [eval eval_bin].
  change (bind "w" (Z.of_N w) env0 "w") with (Z.of_N w).
  change 255%Z with (Z.of_N 255). change 8%Z with (Z.of_N 8). change 32%Z with (Z.of_N 32).
  Opaque norm. denorm ltac:(idtac; fits_hyp). Transparent norm.
  rewrite N2Z.id. rewrite N.shiftr_div_pow2. change (2 ^ 8) with 256.
  change 255 with (N.ones 8). rewrite N.land_ones. apply N.mod_small.
  apply N.div_lt_upper_bound; [discriminate|exact Hw].
Qed.

Global Opaque crc16_octet u16_first u16_second.

Lemma fold_concat_map {A B} (f : A -> B -> A) (g : N -> list B) (h : A -> N -> A) (P : N -> Prop) :
  (forall c w, P w -> h c w = fold_left f (g w) c) ->
  forall ws c, Forall P ws -> fold_left h ws c = fold_left f (List.concat (map g ws)) c.
Proof.
  intros Hh. induction ws as [|w ws IH]; intros c Hws; [reflexivity|].
  inversion Hws as [|? ? Hw Hws']; subst.
  change (fold_left h (w :: ws) c) with (fold_left h ws (h c w)).
  change (List.concat (map g (w :: ws))) with (g w ++ List.concat (map g ws)).
  rewrite fold_left_app, <- (Hh c w Hw). apply IH. exact Hws'.
Qed.

Theorem u16_bytes ws c : Forall (fun w => w < 2 ^ 16) ws ->
  crc_u16 c ws = crc_bytes c (List.concat (map host_bytes16 ws)).
Proof.
  unfold crc_u16, crc_bytes. apply fold_concat_map.
  intros c0 w Hw. unfold host_bytes16. change (fold_left crc16_octet [w mod 256; w / 256] c0)
    with (crc16_octet (crc16_octet c0 (w mod 256)) (w / 256)).
  Time rewrite (u16_first_eq w Hw), (u16_second_eq w Hw). reflexivity.
Qed.
