(* Register protocol: header round trip, reception, processing. *)
From Ufw Require Import Base.Bits Base.Errno Model.Crc Model.ByteBuffer Model.Endpoints Model.Varint Model.Slip Model.Lenp Model.Regp
  Proof.ListLemmas Proof.CexprLemmas Proof.CrcLemmas Proof.LenpLemmas Proof.RegpFraming.
From Coq Require Import Lia Bool ZifyN ZifyBool ZifyNat.
Local Open Scope N_scope.
Local Open Scope bool_scope.
Ltac Zify.zify_post_hook ::= Z.div_mod_to_equations.

(* ---------- the first header word ---------- *)
Definition opts_of (p : regp) (ms : msem) (type n : N) : N :=
  (if match ms with MAuto => g_mem16 p | M16 => true | M8 => false end then OPT_W16 else 0)
  + (if g_serial p then OPT_HDCRC else 0)
  + (if g_serial p && negb (n =? 0) && negb (type =? T_READ_REQ) then OPT_PLCRC else 0).

Lemma opts_of_lt p ms type n : opts_of p ms type n < 8.
Proof.
  unfold opts_of, OPT_W16, OPT_HDCRC, OPT_PLCRC.
  destruct (match ms with MAuto => g_mem16 p | M16 => true | M8 => false end), (g_serial p), (negb (n =? 0)), (negb (type =? T_READ_REQ)); cbn; lia.
Qed.

Lemma make_motv_eq p ms meta type n :
  make_motv p ms meta type n = 16 * (type mod 16) + 256 * opts_of p ms type n + 4096 * (meta mod 16).
Proof. unfold make_motv, opts_of, RP_VERSION. cbv zeta. rewrite N.mod_0_l by discriminate. lia. Qed.

Lemma motv_fields t o m : t < 16 -> o < 16 -> m < 16 ->
  let motv := 16 * t + 256 * o + 4096 * m in
  motv < 65536 /\ motv mod 16 = 0 /\ (motv / 16) mod 16 = t /\ (motv / 256) mod 16 = o /\ (motv / 4096) mod 16 = m.
Proof. intros Ht Ho Hm motv. subst motv. repeat split; lia. Qed.

Lemma testbit_field t o m i : t < 16 -> o < 16 -> (i < 4) ->
  N.testbit (16 * t + 256 * o + 4096 * m) (8 + i) = N.testbit o i.
Proof.
  intros Ht Ho Hi.
  replace (8 + i) with (i + 8) by lia. rewrite <- N.div_pow2_bits.
  replace ((16 * t + 256 * o + 4096 * m) / 2 ^ 8) with (o + 16 * m) by (change (2 ^ 8) with 256; lia).
  rewrite <- (N.mod_pow2_bits_low (o + 16 * m) 4 i) by exact Hi.
  f_equal. change (2 ^ 4) with 16. lia.
Qed.

Lemma opts_bits p ms type n :
  let o := opts_of p ms type n in
  N.testbit o 0 = match ms with MAuto => g_mem16 p | M16 => true | M8 => false end /\
  N.testbit o 1 = g_serial p /\
  N.testbit o 2 = (g_serial p && negb (n =? 0) && negb (type =? T_READ_REQ)) /\
  N.testbit o 3 = false.
Proof.
  unfold opts_of, OPT_W16, OPT_HDCRC, OPT_PLCRC.
  destruct (match ms with MAuto => g_mem16 p | M16 => true | M8 => false end), (g_serial p), (negb (n =? 0)), (negb (type =? T_READ_REQ));
    cbn; auto.
Qed.

(* ---------- header octets ---------- *)
Lemma be2 x : be_bytes 2 x = [x / 256 mod 256; x mod 256].
Proof. reflexivity. Qed.
Lemma be4 x : be_bytes 4 x = [x / 256 / 256 / 256 mod 256; x / 256 / 256 mod 256; x / 256 mod 256; x mod 256].
Proof. reflexivity. Qed.
Lemma of_be2 a b : of_be [a; b] = b + 256 * a.
Proof. unfold of_be; cbn [rev app of_le]. lia. Qed.
Lemma of_be4 a b c d : of_be [a; b; c; d] = d + 256 * (c + 256 * (b + 256 * a)).
Proof. unfold of_be; cbn [rev app of_le]. lia. Qed.
Lemma of_be2_be x : x < 65536 -> of_be [x / 256 mod 256; x mod 256] = x.
Proof. intros H. rewrite of_be2. lia. Qed.
Lemma of_be4_be x : x < 4294967296 ->
  of_be [x / 256 / 256 / 256 mod 256; x / 256 / 256 mod 256; x / 256 mod 256; x mod 256] = x.
Proof. intros H. rewrite of_be4. lia. Qed.

Definition type_ok (type meta : N) : bool :=
  if (type =? T_READ_REQ) || (type =? T_WRITE_REQ) then meta =? 0
  else if (type =? T_READ_RESP) || (type =? T_WRITE_RESP) then meta <=? R_EIO
  else if type =? T_META then (1 <=? meta) && (meta <=? 2)
  else false.

Lemma type_ok_bounds type meta : type_ok type meta = true -> type < 16 /\ meta < 16.
Proof.
  unfold type_ok, T_READ_REQ, T_WRITE_REQ, T_READ_RESP, T_WRITE_RESP, T_META, R_EIO.
  destruct (N.eqb_spec type 0), (N.eqb_spec type 2), (N.eqb_spec type 1), (N.eqb_spec type 3), (N.eqb_spec type 15);
    cbn [orb]; intros H; try discriminate; lia.
Qed.

(* what the receiver must read out of an emitted header *)
Definition emitted_frame (p : regp) (ms : msem) (type meta seq addr n plc : N) (pl : list N) : rframe :=
  let o := opts_of p ms type n in
  let with_pl := g_serial p && negb (n =? 0) && negb (type =? T_READ_REQ) in
  let base := be_bytes 2 (make_motv p ms meta type n) ++ be_bytes 2 seq ++ be_bytes 4 addr ++ be_bytes 4 n in
  {| f_type := type; f_opts := o; f_meta := meta; f_seq := seq; f_addr := addr; f_bsize := n;
     f_hdcrc := if g_serial p then (if with_pl then crc (base ++ be_bytes 2 plc) else crc base) else 0;
     f_plcrc := if with_pl then plc else 0;
     f_hlen := 12 + (if g_serial p then 2 else 0) + (if with_pl then 2 else 0);
     f_payload := pl |}.

Lemma spec_crc_fits l : forall c, c < 65536 -> octets l -> spec_crc c l < 65536.
Proof.
  unfold spec_crc. induction l as [|d l IH]; intros c Hc Hl; [exact Hc|].
  inversion Hl as [|? ? Hd Hl']; subst. cbn [fold_left]. apply IH; [|exact Hl'].
  apply (spec_octet_fits c d); [exact Hc|exact Hd].
Qed.
Lemma crc_lt l : octets l -> crc l < 65536.
Proof. intros H. apply spec_crc_fits; [reflexivity|exact H]. Qed.

Lemma octets_app a b : octets a -> octets b -> octets (a ++ b).
Proof. unfold octets. rewrite Forall_app. auto. Qed.
Lemma octets_be k v : octets (be_bytes k v).
Proof.
  unfold be_bytes, octets. apply Forall_rev. revert v. induction k as [|k IH]; intros v; cbn [le_bytes]; constructor.
  - apply N.mod_lt. discriminate.
  - apply IH.
Qed.

Lemma length_ge12 {A} (a1 a2 a3 a4 a5 a6 a7 a8 a9 a10 a11 a12 : A) t :
  N.of_nat (length (a1 :: a2 :: a3 :: a4 :: a5 :: a6 :: a7 :: a8 :: a9 :: a10 :: a11 :: a12 :: t)) = 12 + N.of_nat (length t).
Proof. cbn [length]. lia. Qed.

Theorem parse_emitted p ms type meta seq addr n plc pl :
  type_ok type meta = true -> seq < 65536 -> addr < 4294967296 -> n < 4294967296 -> plc < 65536 ->
  parse_header (encode_header p ms type meta seq addr n plc ++ pl) = inr (emitted_frame p ms type meta seq addr n plc pl).
Proof.
  intros Hok Hseq Haddr Hn Hplc.
  destruct (type_ok_bounds _ _ Hok) as [Ht Hm].
  unfold encode_header, emitted_frame. cbv zeta.
  rewrite (N.mod_small seq), (N.mod_small addr), (N.mod_small n) by (try change (2 ^ 32) with 4294967296; assumption).
  pose proof (opts_of_lt p ms type n) as Ho.
  destruct (opts_bits p ms type n) as (B0 & B1 & B2 & B3).
  assert (M : make_motv p ms meta type n = 16 * type + 256 * opts_of p ms type n + 4096 * meta).
  { rewrite make_motv_eq, !N.mod_small by assumption. reflexivity. }
  set (o := opts_of p ms type n) in *.
  destruct (motv_fields type o meta Ht ltac:(lia) Hm) as (F0 & F1 & F2 & F3 & F4).
  assert (T9 : N.testbit (make_motv p ms meta type n) 9 = g_serial p).
  { rewrite M. change 9 with (8 + 1). rewrite testbit_field by lia. exact B1. }
  assert (T10 : N.testbit (make_motv p ms meta type n) 10 = (g_serial p && negb (n =? 0) && negb (type =? T_READ_REQ))).
  { rewrite M. change 10 with (8 + 2). rewrite testbit_field by lia. exact B2. }
  rewrite T9, T10.
  set (motv := make_motv p ms meta type n) in *.
  set (with_pl := g_serial p && negb (n =? 0) && negb (type =? T_READ_REQ)) in *.
  assert (Hpl : with_pl = true -> g_serial p = true).
  { subst with_pl. destruct (g_serial p); [reflexivity|discriminate]. }
  assert (Hty : (if (type =? T_READ_REQ) || (type =? T_WRITE_REQ) then meta =? 0
                 else if (type =? T_READ_RESP) || (type =? T_WRITE_RESP) then meta <=? R_EIO
                 else if type =? T_META then (1 <=? meta) && (meta <=? 2) else false) = true) by exact Hok.
  assert (Hmo : of_be [motv / 256 mod 256; motv mod 256] = motv) by (apply of_be2_be; rewrite M; exact F0).

  assert (Hv : (motv mod 16 =? RP_VERSION) = true) by (rewrite M, F1; reflexivity).
  clearbody with_pl.
  rewrite <- M in F0, F1, F2, F3, F4. clear M. clearbody motv.
  pose proof (octets_be 2 plc) as Oplc. rewrite be2 in Oplc.
  destruct (g_serial p) eqn:Hs, with_pl eqn:Hw; try (specialize (Hpl eq_refl); discriminate); clear Hpl;
    rewrite !be2, !be4; cbn [app];
    unfold parse_header; rewrite length_ge12;
    match goal with |- context [12 + N.of_nat (length ?t) <? 12] => destruct (N.ltb_spec (12 + N.of_nat (length t)) 12) as [Hlt|_]; [lia|] end;
    cbn [firstn skipn slice app length];
    rewrite Hmo, Hv, F2, F3, F4, B3, B1, B2, Hty; cbn [negb andb orb].
  - (* serial, payload checksum *)
    destruct (N.ltb_spec (12 + N.of_nat (S (S (S (S (length pl)))))) 16) as [Hlt|_]; [lia|].
    destruct (N.ltb_spec (12 + N.of_nat (S (S (S (S (length pl)))))) 14) as [Hlt|_]; [lia|].
    cbn [negb andb orb].
    match goal with |- context [crc ?l] => set (c := crc l); assert (Hc : c < 65536) end.
    { apply crc_lt. repeat (constructor; [apply N.mod_lt; discriminate|]). constructor. }
    rewrite (of_be2_be c Hc), N.eqb_refl. cbn [negb].
    cbn [skipn firstn]. rewrite ?(of_be2_be seq Hseq), ?(of_be4_be addr Haddr), ?(of_be4_be n Hn), ?(of_be2_be plc Hplc). reflexivity.
  - (* serial, no payload checksum *)
    destruct (N.ltb_spec (12 + N.of_nat (S (S (length pl)))) 14) as [Hlt|_]; [lia|].
    cbn [negb andb orb].
    match goal with |- context [crc ?l] => set (c := crc l); assert (Hc : c < 65536) end.
    { apply crc_lt. repeat (constructor; [apply N.mod_lt; discriminate|]). constructor. }
    rewrite (of_be2_be c Hc), N.eqb_refl. cbn [negb].
    rewrite ?(of_be2_be seq Hseq), ?(of_be4_be addr Haddr), ?(of_be4_be n Hn). reflexivity.
  - (* TCP *)
    rewrite ?(of_be2_be seq Hseq), ?(of_be4_be addr Haddr), ?(of_be4_be n Hn). reflexivity.
Qed.

(* ---------- a conforming frame passes the payload checks ---------- *)
Definition w16_of (p : regp) (ms : msem) : bool := match ms with MAuto => g_mem16 p | M16 => true | M8 => false end.

Definition conforming (p : regp) (ms : msem) (type meta seq addr n : N) (pl : list N) : Prop :=
  type_ok type meta = true /\ seq < 65536 /\ addr < 4294967296 /\ n < 4294967296 /\ octets pl /\
  (if (type =? T_READ_REQ) || (type =? T_META) then pl = []
   else N.of_nat (length pl) = (if w16_of p ms then 2 else 1) * n).

Lemma emitted_bits p ms type meta seq addr n plc pl :
  let f := emitted_frame p ms type meta seq addr n plc pl in
  has_w16 f = w16_of p ms /\ has_hdcrc f = g_serial p /\
  has_plcrc f = (g_serial p && negb (n =? 0) && negb (type =? T_READ_REQ)).
Proof.
  destruct (opts_bits p ms type n) as (B0 & B1 & B2 & _).
  unfold has_w16, has_hdcrc, has_plcrc, emitted_frame; cbn [f_opts]. auto.
Qed.

Theorem parse_frame_emitted p ms type meta seq addr n pl :
  conforming p ms type meta seq addr n pl ->
  parse_frame (encode_header p ms type meta seq addr n (crc pl) ++ pl)
  = inr (emitted_frame p ms type meta seq addr n (crc pl) pl).
Proof.
  intros (Hok & Hseq & Haddr & Hn & Hoct & Hsz).
  unfold parse_frame. rewrite parse_emitted by (try assumption; apply crc_lt; exact Hoct).
  destruct (emitted_bits p ms type meta seq addr n (crc pl) pl) as (E0 & E1 & E2).
  set (f := emitted_frame p ms type meta seq addr n (crc pl) pl) in *.
  assert (Hp : payload_plausible f = true).
  { unfold payload_plausible. rewrite E0.
    change (f_payload f) with pl. change (f_type f) with type. change (f_bsize f) with n.
    destruct ((type =? T_READ_REQ) || (type =? T_META)) eqn:Et.
    - subst pl. cbn [length N.of_nat N.odd andb]. destruct (w16_of p ms); reflexivity.
    - rewrite Hsz. destruct (w16_of p ms).
      + replace (N.odd (2 * n)) with false by (symmetry; rewrite N.odd_mul; reflexivity).
        cbn [andb]. replace (2 * n / 2) with n by lia. apply N.eqb_refl.
      + cbn [andb]. replace (1 * n) with n by lia. apply N.eqb_refl. }
  assert (Hc : check_payload f = true).
  { unfold check_payload. change (f_payload f) with pl. change (f_plcrc f) with
      (if g_serial p && negb (n =? 0) && negb (type =? T_READ_REQ) then crc pl else 0).
    rewrite E2. destruct (g_serial p && negb (n =? 0) && negb (type =? T_READ_REQ)); cbn [negb orb].
    - destruct (length pl =? 0)%nat; [reflexivity|apply N.eqb_refl].
    - reflexivity. }
  rewrite Hp, Hc. reflexivity.
Qed.

(* ---------- the receiver accepts what the library emits ---------- *)
Lemma encode_header_length p ms type meta seq addr n plc :
  (12 <= length (encode_header p ms type meta seq addr n plc) <= 16)%nat.
Proof.
  unfold encode_header. cbv zeta. rewrite !be2, !be4.
  destruct (N.testbit _ 9), (N.testbit _ 10); cbn [app length]; lia.
Qed.

Theorem recv_emitted p q ms type meta seq addr n pl oct r calls :
  g_serial q = g_serial p ->
  conforming p ms type meta seq addr n pl ->
  N.of_nat (length (encode_header p ms type meta seq addr n (crc pl) ++ pl)) <= g_blocksize q - SIZEOF_RPFRAME ->
  exists calls',
    regp_recv q (plain_src oct (frame_wire p (encode_header p ms type meta seq addr n (crc pl)) pl ++ r) calls) true
    = Some {| rr_rc := RcOk; rr_errid := None;
              rr_frame := Some (emitted_frame p ms type meta seq addr n (crc pl) pl);
              rr_block_to_caller := true; rr_allocated := true; rr_freed_by_recv := false;
              rr_reply := []; rr_rest := plain_src oct r calls' |}.
Proof.
  intros Hq Hconf Hfit.
  set (hdr := encode_header p ms type meta seq addr n (crc pl)) in *.
  assert (Hlen : N.of_nat (length (hdr ++ pl)) < 2 ^ 64).
  { destruct Hconf as (_ & _ & _ & Hn & _ & Hsz).
    pose proof (encode_header_length p ms type meta seq addr n (crc pl)) as Hh. fold hdr in Hh.
    rewrite app_length. change (2 ^ 64) with 18446744073709551616.
    destruct ((type =? T_READ_REQ) || (type =? T_META)); [subst pl; cbn [length]; lia|].
    destruct (w16_of p ms); lia. }
  assert (Hw : frame_wire p hdr pl = frame_wire q hdr pl) by (unfold frame_wire; rewrite Hq; reflexivity).
  rewrite Hw.
  destruct (deframe_frame_wire q oct hdr pl r calls Hlen) as (c' & D).
  exists c'. unfold regp_recv. rewrite D.
  pose proof (encode_header_length p ms type meta seq addr n (crc pl)) as Hh. fold hdr in Hh.
  assert (Hne : (length (hdr ++ pl) =? 0)%nat = false).
  { apply Nat.eqb_neq. rewrite app_length. lia. }
  rewrite Hne. cbn [negb andb].
  destruct (N.ltb_spec (g_blocksize q - SIZEOF_RPFRAME) (N.of_nat (length (hdr ++ pl)))) as [H|_]; [lia|].
  subst hdr. rewrite parse_frame_emitted by exact Hconf. reflexivity.
Qed.

(* ---------- every emitter is an instance of the conforming frame ---------- *)
(* (word-size semantics, type, meta, sequence, block size, payload) of emission number [kind] *)
Definition emit_descr (p : regp) (kind ftype fseq n val : N) (pl : list N) : msem * N * N * N * N * list N :=
  if kind =? 0 then (M8, T_READ_REQ, 0, g_seq p, n, [])
  else if kind =? 1 then (M16, T_READ_REQ, 0, g_seq p, n, [])
  else if kind =? 2 then (M8, T_WRITE_REQ, 0, g_seq p, n, pl)
  else if kind =? 3 then (M16, T_WRITE_REQ, 0, g_seq p, n, pl)
  else if kind =? 4 then (MAuto, req2resp ftype, 0, fseq, n, pl)
  else if kind =? 30 then (M8, T_META, val, 0, 0, [])
  else if code_has_payload (kind - 10) then (M8, req2resp ftype, kind - 10, fseq, 4, be_bytes 4 val)
  else (M8, req2resp ftype, kind - 10, fseq, 0, []).

Definition emit_valid (p : regp) (kind ftype fseq addr n val : N) (pl : list N) : Prop :=
  addr < 4294967296 /\ n < 4294967296 /\ fseq < 65536 /\ val < 4294967296 /\ g_seq p < 65536 /\ octets pl /\
  (kind <= 4 \/ 11 <= kind <= 21 \/ kind = 30) /\
  (kind = 2 -> N.of_nat (length pl) = n) /\ (kind = 3 -> N.of_nat (length pl) = 2 * n) /\
  (kind = 4 -> N.of_nat (length pl) = (if g_mem16 p then 2 else 1) * n) /\
  (4 <= kind <= 21 -> ftype = T_READ_REQ \/ ftype = T_WRITE_REQ) /\
  (kind = 30 -> val = 1 \/ val = 2).

Lemma emit_eq p kind ftype fseq addr n val pl :
  emit_valid p kind ftype fseq addr n val pl ->
  let '(ms, type, meta, seq, n', pl') := emit_descr p kind ftype fseq n val pl in
  fst (emit p kind ftype fseq addr n val pl) = frame_wire p (encode_header p ms type meta seq (if kind =? 30 then 0 else addr) n' (crc pl')) pl'.
Proof.
  intros (Ha & Hn & Hf & Hv & Hs & Ho & Hk & _).
  unfold emit, emit_descr.
  destruct (N.eqb_spec kind 0) as [->|K0]; [reflexivity|]. destruct (N.eqb_spec kind 1) as [->|K1]; [reflexivity|].
  destruct (N.eqb_spec kind 2) as [->|K2]; [reflexivity|]. destruct (N.eqb_spec kind 3) as [->|K3]; [reflexivity|].
  destruct (N.eqb_spec kind 4) as [->|K4]; [reflexivity|]. destruct (N.eqb_spec kind 30) as [->|K30]; [reflexivity|].
  destruct (code_has_payload (kind - 10)); cbn [fst]; [|reflexivity].
  unfold resp_32. rewrite (N.mod_small val) by (change (2 ^ 32) with 4294967296; exact Hv). reflexivity.
Qed.

Lemma emit_conforming p kind ftype fseq addr n val pl :
  emit_valid p kind ftype fseq addr n val pl ->
  let '(ms, type, meta, seq, n', pl') := emit_descr p kind ftype fseq n val pl in
  conforming p ms type meta seq (if kind =? 30 then 0 else addr) n' pl' /\ (type = T_META -> n' = 0).
Proof.
  intros (Ha & Hn & Hf & Hv & Hs & Ho & Hk & H2 & H3 & H4 & Hft & H30).
  unfold emit_descr, conforming.
  destruct (N.eqb_spec kind 0) as [->|K0]; [repeat split; auto; try reflexivity; try discriminate; constructor|].
  destruct (N.eqb_spec kind 1) as [->|K1]; [repeat split; auto; try reflexivity; try discriminate; constructor|].
  destruct (N.eqb_spec kind 2) as [->|K2].
  { repeat split; auto; try discriminate. change ((T_WRITE_REQ =? T_READ_REQ) || (T_WRITE_REQ =? T_META)) with false. cbn [w16_of]. rewrite (H2 eq_refl). lia. }
  destruct (N.eqb_spec kind 3) as [->|K3].
  { repeat split; auto; try discriminate. change ((T_WRITE_REQ =? T_READ_REQ) || (T_WRITE_REQ =? T_META)) with false. cbn [w16_of]. exact (H3 eq_refl). }
  destruct (N.eqb_spec kind 4) as [->|K4].
  { destruct (Hft ltac:(lia)) as [-> | ->]; repeat split; auto; try discriminate; exact (H4 eq_refl). }
  destruct (N.eqb_spec kind 30) as [->|K30].
  { destruct (H30 eq_refl) as [-> | ->]; repeat split; auto; try reflexivity; try lia; constructor. }
  assert (Hr : 11 <= kind <= 21) by lia.
  assert (Hc : type_ok T_READ_RESP (kind - 10) = true /\ type_ok T_WRITE_RESP (kind - 10) = true).
  { unfold type_ok, T_READ_RESP, T_WRITE_RESP, T_READ_REQ, T_WRITE_REQ, R_EIO. cbn [N.eqb orb Pos.eqb].
    split; apply N.leb_le; lia. }
  destruct Hc as [Hc1 Hc3].
  destruct (code_has_payload (kind - 10)).
  - destruct (Hft ltac:(lia)) as [-> | ->]; repeat split; auto; try discriminate; try (cbv; reflexivity); try apply octets_be.
  - destruct (Hft ltac:(lia)) as [-> | ->]; repeat split; auto; try discriminate; try (cbv; reflexivity); try constructor.
Qed.

(* ---------- reception: what the result record can be ---------- *)
Definition room (p : regp) : N := g_blocksize p - SIZEOF_RPFRAME.

Ltac conjs := repeat match goal with |- _ /\ _ => split end; try reflexivity.

Lemma recv_cases p s ok r :
  regp_recv p s ok = Some r ->
  exists chan octets s', deframe p s = Some (chan, octets, s') /\ rr_rest r = s' /\
  match chan with
  | Some e => rr_rc r = RcChannel e /\ rr_frame r = None /\ rr_errid r = None /\ rr_reply r = [] /\ rr_block_to_caller r = false /\
              rr_allocated r = (negb (length octets =? 0)%nat && ok) /\ rr_freed_by_recv r = rr_allocated r
  | None =>
      rr_rc r = RcOk /\ rr_freed_by_recv r = false /\ rr_block_to_caller r = rr_allocated r /\
      if (length octets =? 0)%nat then
        rr_errid r = Some EBADMSG /\ rr_frame r = None /\ rr_allocated r = false /\ rr_reply r = resp_meta p META_EHEADERENC
      else if negb ok then
        rr_errid r = Some EBUSY /\ rr_frame r = None /\ rr_allocated r = false /\
        rr_reply r = early_response p (firstn 16 octets) R_EBUSY
      else
        rr_allocated r = true /\
        if room p <? N.of_nat (length octets) then
          rr_errid r = Some ENOMEM /\ rr_frame r = None /\
          rr_reply r = early_response p (firstn 16 (firstn (N.to_nat (room p)) octets)) R_ERXOVERFLOW
        else
          match parse_frame octets with
          | inr f => rr_errid r = None /\ rr_frame r = Some f /\ rr_reply r = []
          | inl e => rr_errid r = Some (perr_errno e) /\
                     rr_frame r = (match parse_header octets with inr f => Some f | inl _ => None end) /\
                     rr_reply r = match e with PE_BADMSG => resp_meta p META_EHEADERENC
                                             | PE_ILSEQ => resp_meta p META_EHEADERCRC | _ => [] end
          end
  end.
Proof.
  unfold regp_recv, room. destruct (deframe p s) as [[[chan octets] s']|]; [|discriminate].
  intros H. exists chan, octets, s'. split; [reflexivity|].
  destruct chan as [e|].
  - injection H as <-. cbn; conjs.
  - destruct (length octets =? 0)%nat; cbn [negb andb] in *.
    + injection H as <-. cbn; conjs.
    + destruct ok; cbn [negb andb] in *.
      * destruct (g_blocksize p - SIZEOF_RPFRAME <? N.of_nat (length octets)).
        -- injection H as <-. cbn; conjs.
        -- destruct (parse_frame octets); injection H as <-; cbn; conjs.
      * injection H as <-. cbn; conjs.
Qed.

(* every block obtained is released exactly once: by the receiver on a channel error, by the caller otherwise *)
Theorem recv_ledger p s ok r : regp_recv p s ok = Some r ->
  rr_allocated r = xorb (rr_freed_by_recv r) (rr_block_to_caller r) /\
  (ok = false -> rr_allocated r = false) /\
  (rr_block_to_caller r = true -> rr_rc r = RcOk) /\
  (rr_freed_by_recv r = true -> exists e, rr_rc r = RcChannel e).
Proof.
  intros H. destruct (recv_cases _ _ _ _ H) as (chan & octets & s' & _ & _ & C).
  destruct chan as [e|].
  - destruct C as (Hrc & _ & _ & _ & Hb & Ha & Hf). rewrite Hf, Hb, Ha.
    repeat split.
    + destruct (negb _ && ok); reflexivity.
    + intros ->. apply andb_false_r.
    + discriminate.
    + eauto.
  - destruct C as (Hrc & Hf & Hb & C). rewrite Hf, Hb. repeat split; try discriminate; auto.
    + destruct (rr_allocated r); reflexivity.
    + intros ->. destruct (length octets =? 0)%nat; [tauto|]. cbn [negb] in C. tauto.
Qed.

(* an accepted frame: inside the block, sizes consistent *)
Theorem recv_accepted p s ok r f : regp_recv p s ok = Some r -> rr_rc r = RcOk -> rr_errid r = None -> rr_frame r = Some f ->
  exists octets, parse_frame octets = inr f /\ N.of_nat (length octets) <= room p /\ rr_reply r = [] /\ rr_allocated r = true.
Proof.
  intros H Hrc He Hf. destruct (recv_cases _ _ _ _ H) as (chan & octets & s' & _ & _ & C).
  destruct chan as [e|]; [destruct C as (C & _); congruence|].
  destruct C as (_ & _ & _ & C).
  destruct (length octets =? 0)%nat; [destruct C as (C & _); congruence|].
  destruct (negb ok); [destruct C as (C & _); congruence|].
  destruct C as (Ha & C).
  destruct (N.ltb_spec (room p) (N.of_nat (length octets))) as [Hl|Hl]; [destruct C as (C & _); congruence|].
  destruct (parse_frame octets) as [e|f'] eqn:E.
  - destruct C as (C & _). rewrite He in C. discriminate.
  - destruct C as (_ & C & R). exists octets. rewrite Hf in C. injection C as ->. auto.
Qed.

Lemma of_le_lt l : octets l -> of_le l < 256 ^ N.of_nat (length l).
Proof.
  induction l as [|b t IH]; intros H; [cbn; lia|].
  inversion H as [|? ? Hb Ht]; subst. specialize (IH Ht). cbn [of_le length].
  rewrite Nat2N.inj_succ, N.pow_succ_r'. lia.
Qed.
Lemma of_be_lt l : octets l -> of_be l < 256 ^ N.of_nat (length l).
Proof.
  intros H. unfold of_be. rewrite <- rev_length. apply of_le_lt. apply Forall_rev. exact H.
Qed.
Lemma octets_firstn n l : octets l -> octets (firstn n l).
Proof. unfold octets. revert l; induction n; intros [|x t] H; cbn; try constructor; inversion H; subst; auto. Qed.
Lemma octets_skipn n l : octets l -> octets (skipn n l).
Proof. unfold octets. revert l; induction n; intros [|x t] H; cbn; try constructor; inversion H; subst; auto. Qed.
Lemma of_be_slice_lt raw i k : octets raw -> of_be (slice raw i k) < 256 ^ N.of_nat k.
Proof.
  intros H. unfold slice.
  pose proof (of_be_lt (firstn k (skipn i raw)) (octets_firstn _ _ (octets_skipn _ _ H))) as L.
  eapply N.lt_le_trans; [exact L|]. apply N.pow_le_mono_r; [discriminate|]. rewrite firstn_length. lia.
Qed.

(* what a successfully parsed header looks like *)
Lemma parse_header_shape raw f : parse_header raw = inr f ->
  f_payload f = skipn (N.to_nat (f_hlen f)) raw /\ f_hlen f <= N.of_nat (length raw) /\ 12 <= f_hlen f <= 16 /\
  f_type f < 16 /\ f_meta f < 16 /\ type_ok (f_type f) (f_meta f) = true /\ (octets raw -> f_seq f < 65536 /\ f_addr f < 4294967296 /\ f_bsize f < 4294967296).
Proof.
  intros H. unfold parse_header in H.
  destruct (N.ltb_spec (N.of_nat (length raw)) 12) as [|Hlen]; [discriminate|].
  cbv zeta in H.
  destruct (negb (_ =? RP_VERSION)); [discriminate|].
  destruct (N.testbit _ 3); [discriminate|].
  match type of H with (if negb ?b then _ else _) = _ => destruct b eqn:Hty; [|discriminate] end. cbn [negb] in H.
  match type of H with (if ?a && ?b && ?c then _ else _) = _ => destruct a eqn:Ehd, b eqn:Epl end; cbn [andb orb] in H.
  - destruct (N.ltb_spec (N.of_nat (length raw)) 16); [discriminate|].
    destruct (N.ltb_spec (N.of_nat (length raw)) 14); [discriminate|].
    destruct (negb (_ =? _)); [discriminate|]. injection H as <-. cbn.
    conjs; try lia; try (apply N.mod_lt; discriminate); try exact Hty.
    intros Ho. conjs; [apply (of_be_slice_lt raw 2 2 Ho)|apply (of_be_slice_lt raw 4 4 Ho)|apply (of_be_slice_lt raw 8 4 Ho)].
  - destruct (N.ltb_spec (N.of_nat (length raw)) 14); [discriminate|].
    destruct (negb (_ =? _)); [discriminate|]. injection H as <-. cbn.
    conjs; try lia; try (apply N.mod_lt; discriminate); try exact Hty.
    intros Ho. conjs; [apply (of_be_slice_lt raw 2 2 Ho)|apply (of_be_slice_lt raw 4 4 Ho)|apply (of_be_slice_lt raw 8 4 Ho)].
  - destruct (N.ltb_spec (N.of_nat (length raw)) 14); [discriminate|].
    destruct (negb (_ =? _)); [discriminate|]. injection H as <-. cbn.
    conjs; try lia; try (apply N.mod_lt; discriminate); try exact Hty.
    intros Ho. conjs; [apply (of_be_slice_lt raw 2 2 Ho)|apply (of_be_slice_lt raw 4 4 Ho)|apply (of_be_slice_lt raw 8 4 Ho)].
  - destruct (negb (_ =? _)); [discriminate|]. injection H as <-. cbn.
    conjs; try lia; try (apply N.mod_lt; discriminate); try exact Hty.
    intros Ho. conjs; [apply (of_be_slice_lt raw 2 2 Ho)|apply (of_be_slice_lt raw 4 4 Ho)|apply (of_be_slice_lt raw 8 4 Ho)].
Qed.

(* ---------- processing (C06) ---------- *)
Theorem process_request p r f backend :
  rr_rc r = RcOk -> rr_errid r = None -> rr_frame r = Some f -> is_request f = true ->
  let unit := if g_mem16 p then 2 else 1 in
  if negb (Bool.eqb (has_w16 f) (g_mem16 p)) then
    regp_process p r backend = ([], Some (resp_0 p f R_EWORDSIZE))
  else if f_type f =? T_READ_REQ then
    if tx_room p f / unit <? f_bsize f then
      regp_process p r backend = ([], Some (resp_32 p f R_ETXOVERFLOW (trxbufsize p)))
    else
      let call := {| bc_write := false; bc_addr := f_addr f; bc_bsize := f_bsize f; bc_payload := []; bc_room := tx_room p f / unit |} in
      bc_bsize call <= bc_room call /\ unit * bc_room call <= tx_room p f /\
      regp_process p r backend
      = ([call], verdict_reply p f (backend call) (firstn (N.to_nat (unit * f_bsize f)) (vd_data (backend call))) (f_bsize f))
  else
    let call := {| bc_write := true; bc_addr := f_addr f; bc_bsize := f_bsize f; bc_payload := f_payload f; bc_room := 0 |} in
    regp_process p r backend = ([call], verdict_reply p f (backend call) [] 0).
Proof.
  intros Hrc He Hf Hreq. unfold regp_process. rewrite Hrc, He, Hf, Hreq. cbn [negb].
  destruct (negb (Bool.eqb (has_w16 f) (g_mem16 p))); [reflexivity|].
  destruct (f_type f =? T_READ_REQ); [|reflexivity].
  cbv zeta.
  destruct (N.ltb_spec (tx_room p f / (if g_mem16 p then 2 else 1)) (f_bsize f)); [reflexivity|].
  cbn [bc_bsize bc_room]. split; [assumption|]. split; [|reflexivity].
  destruct (g_mem16 p); lia.
Qed.

Theorem process_no_access p r backend :
  (exists e, rr_rc r = RcChannel e) \/ rr_errid r <> None \/ rr_frame r = None \/
  (exists f, rr_frame r = Some f /\ is_request f = false) ->
  fst (regp_process p r backend) = [].
Proof.
  unfold regp_process. intros [[e ->]|[H|[H|[f [Hf H]]]]]; [reflexivity| | |].
  - destruct (rr_rc r); [|reflexivity]. destruct (rr_errid r) as [e|]; [|congruence].
    destruct e, (rr_frame r); reflexivity.
  - destruct (rr_rc r); [|reflexivity]. rewrite H. destruct (rr_errid r) as [e|]; [destruct e|]; reflexivity.
  - destruct (rr_rc r); [|reflexivity]. rewrite Hf. destruct (rr_errid r) as [e|]; [destruct e; reflexivity|].
    rewrite H. reflexivity.
Qed.

Theorem process_silent p r backend f :
  rr_rc r = RcOk -> rr_errid r = None -> rr_frame r = Some f -> is_request f = false ->
  regp_process p r backend = ([], Some []).
Proof. intros Hrc He Hf Hq. unfold regp_process. rewrite Hrc, He, Hf, Hq. reflexivity. Qed.

Theorem process_payload_fault p r backend f e :
  rr_rc r = RcOk -> rr_errid r = Some e -> rr_frame r = Some f -> e = EPROTO \/ e = EFAULT ->
  regp_process p r backend
  = ([], Some (if is_request f then resp_0 p f (if match e with EPROTO => true | _ => false end then R_EPAYLOADCRC else R_EPAYLOADSIZE) else [])).
Proof. intros Hrc He Hf [-> | ->]; unfold regp_process; rewrite Hrc, He, Hf; reflexivity. Qed.

(* the reply for a verdict, as a conforming frame *)
Definition reply_payload (p : regp) (v : verdict) (ackpl : list N) : list N :=
  if vd_status v =? R_ACK then ackpl
  else if (vd_status v =? R_ERXOVERFLOW) || (vd_status v =? R_ETXOVERFLOW) then be_bytes 4 (trxbufsize p mod 2 ^ 32)
  else if (R_EUNMAPPED <=? vd_status v) && (vd_status v <=? R_EINVALID) then be_bytes 4 (vd_addr v mod 2 ^ 32)
  else [].

Lemma reply_shape p f v ackpl ackn :
  f_type f = T_READ_REQ \/ f_type f = T_WRITE_REQ -> f_seq f < 65536 -> f_addr f < 4294967296 ->
  vd_status v <= R_EIO -> octets ackpl -> ackn < 4294967296 ->
  N.of_nat (length ackpl) = (if g_mem16 p then 2 else 1) * ackn ->
  exists ms n,
    verdict_reply p f v ackpl ackn
    = Some (frame_wire p (encode_header p ms (req2resp (f_type f)) (vd_status v) (f_seq f) (f_addr f) n (crc (reply_payload p v ackpl)))
                       (reply_payload p v ackpl)) /\
    conforming p ms (req2resp (f_type f)) (vd_status v) (f_seq f) (f_addr f) n (reply_payload p v ackpl) /\
    (vd_status v <> R_ACK -> ms = M8) /\ (vd_status v = R_ACK -> ms = MAuto /\ n = ackn).
Proof.
  intros Hty Hseq Haddr Hst Hoct Hn Hlen.
  assert (Tok : type_ok (req2resp (f_type f)) (vd_status v) = true).
  { unfold R_EIO in Hst. destruct Hty as [-> | ->]; unfold type_ok; cbn; apply N.leb_le; exact Hst. }
  assert (Tne : (req2resp (f_type f) =? T_READ_REQ) || (req2resp (f_type f) =? T_META) = false).
  { destruct Hty as [-> | ->]; reflexivity. }
  unfold verdict_reply, reply_payload, conforming. rewrite Tne.
  destruct (N.eqb_spec (vd_status v) R_ACK) as [E|E].
  - exists MAuto, ackn. rewrite E in *. conjs; auto; try congruence.
  - destruct ((vd_status v =? R_ERXOVERFLOW) || (vd_status v =? R_ETXOVERFLOW)).
    + exists M8, 4. conjs; auto; try congruence; try apply octets_be; try (cbv; reflexivity).
    + destruct ((R_EUNMAPPED <=? vd_status v) && (vd_status v <=? R_EINVALID)).
      * exists M8, 4. conjs; auto; try congruence; try apply octets_be; try (cbv; reflexivity).
      * destruct (N.leb_spec (vd_status v) R_EIO) as [_|H]; [|lia].
        exists M8, 0. conjs; auto; try congruence; try constructor; try (cbv; reflexivity).
Qed.

Lemma reply_payload_length p v ackpl : (length (reply_payload p v ackpl) <= length ackpl + 4)%nat.
Proof.
  unfold reply_payload. destruct (vd_status v =? R_ACK); [lia|].
  destruct (_ || _); [rewrite be_bytes_length; lia|]. destruct (_ && _); [rewrite be_bytes_length; lia|cbn; lia].
Qed.

(* the requester's receiver reads the reply back: type, code, sequence number, address, payload *)
Theorem reply_decodes p q f v ackpl ackn oct r calls :
  f_type f = T_READ_REQ \/ f_type f = T_WRITE_REQ -> f_seq f < 65536 -> f_addr f < 4294967296 ->
  vd_status v <= R_EIO -> octets ackpl -> ackn < 4294967296 ->
  N.of_nat (length ackpl) = (if g_mem16 p then 2 else 1) * ackn ->
  g_serial q = g_serial p -> 16 + N.of_nat (length ackpl) + 4 <= room q ->
  exists wire ms n calls',
    verdict_reply p f v ackpl ackn = Some wire /\
    regp_recv q (plain_src oct (wire ++ r) calls) true
    = Some {| rr_rc := RcOk; rr_errid := None;
              rr_frame := Some (emitted_frame p ms (req2resp (f_type f)) (vd_status v) (f_seq f) (f_addr f) n
                                              (crc (reply_payload p v ackpl)) (reply_payload p v ackpl));
              rr_block_to_caller := true; rr_allocated := true; rr_freed_by_recv := false;
              rr_reply := []; rr_rest := plain_src oct r calls' |} /\
    (vd_status v <> R_ACK -> ms = M8) /\ (vd_status v = R_ACK -> ms = MAuto /\ n = ackn).
Proof.
  intros Hty Hseq Haddr Hst Hoct Hn Hlen Hq Hroom.
  destruct (reply_shape p f v ackpl ackn Hty Hseq Haddr Hst Hoct Hn Hlen) as (ms & n & E & C & M1 & M2).
  destruct (recv_emitted p q ms (req2resp (f_type f)) (vd_status v) (f_seq f) (f_addr f) n (reply_payload p v ackpl) oct r calls Hq C)
    as (c' & R).
  { rewrite app_length.
    pose proof (encode_header_length p ms (req2resp (f_type f)) (vd_status v) (f_seq f) (f_addr f) n (crc (reply_payload p v ackpl))).
    pose proof (reply_payload_length p v ackpl). unfold room in Hroom. lia. }
  eauto 10.
Qed.

(* ---------- a serving session: resource balance after every round (C09) ---------- *)
Lemma serve_round_balance p st rd st' : serve_round p st = Some (rd, st') ->
  ss_allocs st = ss_frees st -> ss_allocs st' = ss_frees st' /\ rd_allocs rd = rd_frees rd /\
  (length (rd_calls rd) <= 1)%nat.
Proof.
  unfold serve_round. intros H Hb.
  destruct (regp_recv p (ss_src st) _) as [r|] eqn:R; [|discriminate].
  destruct (recv_ledger _ _ _ _ R) as (L & _ & L3 & L4).
  destruct (regp_process p r _) as [calls reply] eqn:P.
  injection H as <- <-. cbn [ss_allocs ss_frees rd_allocs rd_frees rd_calls].
  assert (Hc : (length calls <= 1)%nat).
  { unfold regp_process in P.
    repeat match type of P with
           | context [match ?x with _ => _ end] => destruct x
           | context [if ?b then _ else _] => destruct b
           end; injection P as <- _; cbn; lia. }
  rewrite L, Hb. destruct (rr_freed_by_recv r), (rr_block_to_caller r); cbn [xorb]; repeat split; try lia; try exact Hc.
  all: exfalso; destruct (L4 eq_refl) as [e E]; rewrite (L3 eq_refl) in E; discriminate.
Qed.

Theorem serve_balanced p : forall rounds st rs st', serve rounds p st = Some (rs, st') ->
  ss_allocs st = ss_frees st ->
  ss_allocs st' = ss_frees st' /\ Forall (fun rd => rd_allocs rd = rd_frees rd /\ (length (rd_calls rd) <= 1)%nat) rs.
Proof.
  induction rounds as [|k IH]; intros st rs st' H Hb.
  - injection H as <- <-. auto.
  - cbn [serve] in H. destruct (s_stream (ss_src st)); [injection H as <- <-; auto|].
    destruct (serve_round p st) as [[rd st1]|] eqn:R; [|discriminate].
    destruct (serve k p st1) as [[rs1 st2]|] eqn:S; [|discriminate].
    injection H as <- <-.
    destruct (serve_round_balance _ _ _ _ R Hb) as (B1 & B2 & B3).
    destruct (IH _ _ _ S B1) as (B4 & B5). split; [exact B4|]. constructor; auto.
Qed.

(* ---------- sequence numbers of a session's requests ---------- *)
Inductive request := RRead (w16 : bool) (addr n : N) | RWrite (w16 : bool) (addr n : N) (pl : list N).
Definition do_request (p : regp) (r : request) : list N * regp :=
  match r with RRead w a n => req_read p w a n | RWrite w a n pl => req_write p w a n pl end.
Fixpoint do_requests (p : regp) (rs : list request) : list (list N) * regp :=
  match rs with
  | [] => ([], p)
  | r :: t => let '(w, p1) := do_request p r in let '(ws, p2) := do_requests p1 t in (w :: ws, p2)
  end.
Definition with_seq (p : regp) (s : N) : regp :=
  {| g_mem16 := g_mem16 p; g_serial := g_serial p; g_seq := s; g_blocksize := g_blocksize p |}.

Lemma do_request_seq p r : snd (do_request p r) = with_seq p ((g_seq p + 1) mod 65536).
Proof. destruct r; reflexivity. Qed.

(* the k-th request of a session is the request sent with sequence number (start + k) mod 2^16 *)
Theorem requests_sequence : forall rs p, g_seq p < 65536 ->
  snd (do_requests p rs) = with_seq p ((g_seq p + N.of_nat (length rs)) mod 65536) /\
  forall k r, nth_error rs k = Some r ->
    nth_error (fst (do_requests p rs)) k = Some (fst (do_request (with_seq p ((g_seq p + N.of_nat k) mod 65536)) r)).
Proof.
  induction rs as [|r t IH]; intros p Hs.
  - split.
    + cbn. rewrite N.add_0_r, N.mod_small by exact Hs. destruct p; reflexivity.
    + intros [|k] r H; discriminate.
  - cbn [do_requests]. destruct (do_request p r) as [w p1] eqn:E1.
    assert (P1 : p1 = with_seq p ((g_seq p + 1) mod 65536)) by (rewrite <- (do_request_seq p r), E1; reflexivity).
    assert (Hs1 : g_seq p1 < 65536) by (rewrite P1; cbn; apply N.mod_lt; discriminate).
    destruct (IH p1 Hs1) as [I1 I2]. destruct (do_requests p1 t) as [ws p2]. cbn [fst snd] in *.
    split.
    + rewrite I1, P1. unfold with_seq; cbn [g_seq g_mem16 g_serial g_blocksize length]. f_equal.
      rewrite N.add_mod_idemp_l by discriminate. f_equal. lia.
    + intros [|k] r' H; cbn [nth_error] in *.
      * injection H as <-. rewrite N.add_0_r, N.mod_small by exact Hs.
        replace (with_seq p (g_seq p)) with p by (destruct p; reflexivity). rewrite E1. reflexivity.
      * rewrite (I2 k r' H), P1. unfold with_seq; cbn [g_seq g_mem16 g_serial g_blocksize]. do 3 f_equal.
        rewrite N.add_mod_idemp_l by discriminate. f_equal. lia.
Qed.

(* ---------- reception terminates on every finite input (no hang) ---------- *)
From Ufw Require Import Proof.EndpointsTotal Proof.SlipOperational.

Theorem deframe_total p oct inp calls : deframe p (plain_src oct inp calls) <> None.
Proof.
  unfold deframe. destruct (g_serial p).
  - destruct (slip_decode_op_plain false Normal oct inp calls [] 0) as (c' & k' & E).
    unfold plain_snk, snk_plain in *. rewrite E. destruct (pdecode false Normal inp []) as [[[pr out] rest] st'].
    destruct pr; discriminate.
  - unfold lenp_decode_source_to_sink, decode_prefix.
    destruct (vi_from_source KU64 (plain_src oct inp calls)) as [[u c| |e] s']; try discriminate.
    pose proof (sts_n_total s' (snk_plain false) u) as T.
    destruct (sts_n s' (snk_plain false) u) as [[[r s''] k']|]; [destruct r; discriminate|contradiction].
Qed.

Theorem recv_total p oct inp calls ok : regp_recv p (plain_src oct inp calls) ok <> None.
Proof.
  unfold regp_recv. pose proof (deframe_total p oct inp calls) as T.
  destruct (deframe p (plain_src oct inp calls)) as [[[chan octets] s']|]; [|contradiction].
  destruct chan; [discriminate|].
  destruct (negb (length octets =? 0)%nat); cbn [negb]; [|discriminate].
  destruct (negb ok); [discriminate|].
  destruct (_ <? _); [discriminate|]. destruct (parse_frame octets); discriminate.
Qed.
