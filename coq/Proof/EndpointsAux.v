(* Source-to-sink plumbing through an auxiliary buffer (sts_some_aux / sts_atmost_aux / sts_n_aux / sts_drain_aux):
   for EVERY source script and EVERY sink script the calls return, what reached the sink is in stream order with nothing
   duplicated, and a reported success of the counted variant means exactly the next n octets were moved. *)
From Coq Require Import Lia ZifyN ZifyBool.
From Ufw Require Import Base.Bits Base.Errno Model.Endpoints Proof.EndpointsLemmas Proof.EndpointsTotal.
Local Open Scope N_scope.

Ltac splits := repeat match goal with |- _ /\ _ => split end.

(* one round: read at most n octets into the scratch buffer, push all of them *)
Lemma sts_some_aux_spec s k aux n r s' k' aux' : sts_some_aux s k aux n = Some (r, s', k', aux') ->
  exists d sent, s_stream s = d ++ s_stream s' /\ k_got k' = k_got k ++ sent /\ (exists rest, d = sent ++ rest) /\
    aux' = blit aux 0 d /\
    (forall c, r = DOk c -> sent = d /\ N.of_nat (length d) = c /\ 1 <= c /\ c <= n).
Proof.
  unfold sts_some_aux. destruct (once_source_get_chunk s n) as [[[r1 d] s1]|] eqn:G; [|discriminate].
  destruct (once_spec _ _ _ _ _ G) as (P & _ & L & _).
  destruct r1 as [c|e].
  - destruct (L c eq_refl) as [Hl Hc].
    destruct (sink_put_chunk k d c) as [[r2 k2]|] eqn:E; [|discriminate]. intros [= <- <- <- <-].
    destruct (put_chunk_exact _ _ _ _ _ E) as (sent & Gk & (rest & X) & L2 & _).
    assert (Hf : firstn (N.to_nat c) d = d) by (apply firstn_all2; lia). rewrite Hf in X, L2.
    exists d, sent. splits; auto; [exists rest; exact X|].
    intros c' ->. destruct (L2 c' eq_refl) as [-> ->]. splits; auto.
    destruct (N.eq_dec c 0) as [->|]; [|lia].
    rewrite put_chunk_invalid in E by (left; reflexivity). discriminate.
  - intros [= <- <- <- <-]. exists d, []. rewrite app_nil_r. splits; auto; [exists d; reflexivity|discriminate].
Qed.

Theorem sts_some_aux_total s k aux n : sts_some_aux s k aux n <> None.
Proof.
  unfold sts_some_aux. pose proof (once_get_total s n).
  destruct (once_source_get_chunk s n) as [[[[c|e] d] s1]|]; try congruence.
  pose proof (put_chunk_total k d c). destruct (sink_put_chunk k d c) as [[? ?]|]; congruence.
Qed.

(* counted variant *)
Theorem sts_n_aux_loop_spec : forall fuel total rest s k aux r s' k' aux',
  sts_n_aux_loop fuel total rest s k aux = Some (r, s', k', aux') ->
  exists moved lost, s_stream s = moved ++ lost ++ s_stream s' /\ k_got k' = k_got k ++ moved /\
    (forall t, r = DOk t -> t = total /\ N.of_nat (length moved) = rest /\ lost = []).
Proof.
  induction fuel as [|f IH]; intros total rest s k aux r s' k' aux' H; cbn [sts_n_aux_loop] in H.
  - destruct (N.eqb_spec rest 0) as [->|]; [|discriminate]. injection H as <- <- <- <-.
    exists [], []. cbn [app]. rewrite app_nil_r. splits; auto. intros t [= <-]. auto.
  - destruct (N.eqb_spec rest 0) as [->|Hr].
    { injection H as <- <- <- <-. exists [], []. cbn [app]. rewrite app_nil_r. splits; auto. intros t [= <-]. auto. }
    unfold sts_atmost_aux in H.
    destruct (sts_some_aux s k aux _) as [[[[r1 s1] k1] aux1]|] eqn:C; [|discriminate].
    destruct (sts_some_aux_spec _ _ _ _ _ _ _ _ C) as (d & sent & P & G & (rst & X) & _ & L).
    destruct r1 as [c|e].
    + destruct (L c eq_refl) as (-> & Hl & H1 & Hc).
      destruct (IH _ _ _ _ _ _ _ _ _ H) as (moved2 & lost2 & P2 & G2 & L3).
      exists (d ++ moved2), lost2. rewrite P, P2, G2, G, <- !app_assoc. splits; auto.
      intros t Ht. destruct (L3 t Ht) as (-> & Hn & ->). splits; auto. rewrite app_length. lia.
    + injection H as <- <- <- <-. exists sent, rst. rewrite P, X, <- app_assoc. splits; auto. discriminate.
Qed.

Theorem sts_n_aux_spec s k aux n r s' k' aux' : sts_n_aux s k aux n = Some (r, s', k', aux') ->
  exists moved lost, s_stream s = moved ++ lost ++ s_stream s' /\ k_got k' = k_got k ++ moved /\
    (forall t, r = DOk t -> t = n /\ moved = firstn (N.to_nat n) (s_stream s) /\ N.of_nat (length moved) = n /\ lost = []).
Proof.
  intros H. destruct (sts_n_aux_loop_spec _ _ _ _ _ _ _ _ _ _ H) as (moved & lost & P & G & L).
  exists moved, lost. split; [exact P|]. split; [exact G|].
  intros t Ht. destruct (L t Ht) as (-> & Hn & ->). splits; auto.
  rewrite P. cbn [app]. rewrite firstn_app. replace (N.to_nat n - length moved)%nat with 0%nat by lia.
  cbn [firstn]. rewrite app_nil_r. symmetry. apply firstn_all2. lia.
Qed.

Lemma sts_n_aux_loop_total : forall fuel total rest s k aux,
  (N.to_nat (N.min rest (N.of_nat (length (s_stream s)))) < fuel)%nat -> sts_n_aux_loop fuel total rest s k aux <> None.
Proof.
  induction fuel as [|f IH]; intros total rest s k aux Hm; [lia|]. cbn [sts_n_aux_loop].
  destruct (N.eqb_spec rest 0) as [|Hr]; [discriminate|]. unfold sts_atmost_aux.
  pose proof (sts_some_aux_total s k aux (N.min rest (N.of_nat (length aux)))) as T.
  destruct (sts_some_aux s k aux _) as [[[[r1 s1] k1] aux1]|] eqn:C; [|congruence].
  destruct r1 as [c|e]; [|discriminate].
  destruct (sts_some_aux_spec _ _ _ _ _ _ _ _ C) as (d & sent & P & _ & _ & _ & L).
  destruct (L c eq_refl) as (_ & Hl & H1 & Hc). apply IH.
  assert (length (s_stream s) = (length d + length (s_stream s1))%nat) by (rewrite P, app_length; reflexivity). lia.
Qed.

Theorem sts_n_aux_total s k aux n : sts_n_aux s k aux n <> None.
Proof. unfold sts_n_aux. apply sts_n_aux_loop_total. unfold sts_fuel. lia. Qed.

(* draining variant: ends only with an error code (end of data included); everything moved is in order *)
Theorem sts_drain_aux_loop_spec : forall fuel s k aux r s' k' aux',
  sts_drain_aux_loop fuel s k aux = Some (r, s', k', aux') ->
  exists moved lost e, r = DErr e /\ s_stream s = moved ++ lost ++ s_stream s' /\ k_got k' = k_got k ++ moved.
Proof.
  induction fuel as [|f IH]; intros s k aux r s' k' aux' H; cbn [sts_drain_aux_loop] in H; [discriminate|].
  unfold sts_atmost_aux in H.
  destruct (sts_some_aux s k aux _) as [[[[r1 s1] k1] aux1]|] eqn:C; [|discriminate].
  destruct (sts_some_aux_spec _ _ _ _ _ _ _ _ C) as (d & sent & P & G & (rst & X) & _ & L).
  destruct r1 as [c|e].
  - destruct (L c eq_refl) as (-> & Hl & H1 & Hc).
    destruct (IH _ _ _ _ _ _ _ H) as (moved2 & lost2 & e & -> & P2 & G2).
    exists (d ++ moved2), lost2, e. rewrite P, P2, G2, G, <- !app_assoc. splits; auto.
  - injection H as <- <- <- <-. exists sent, rst, e. rewrite P, X, <- app_assoc. splits; auto.
Qed.

Lemma sts_drain_aux_loop_total : forall fuel s k aux,
  (length (s_stream s) < fuel)%nat -> sts_drain_aux_loop fuel s k aux <> None.
Proof.
  induction fuel as [|f IH]; intros s k aux Hm; [lia|]. cbn [sts_drain_aux_loop]. unfold sts_atmost_aux.
  pose proof (sts_some_aux_total s k aux (N.min (N.of_nat (length aux)) (N.of_nat (length aux)))) as T.
  destruct (sts_some_aux s k aux _) as [[[[r1 s1] k1] aux1]|] eqn:C; [|congruence].
  destruct r1 as [c|e]; [|discriminate].
  destruct (sts_some_aux_spec _ _ _ _ _ _ _ _ C) as (d & sent & P & _ & _ & _ & L).
  destruct (L c eq_refl) as (_ & Hl & H1 & Hc). apply IH.
  assert (length (s_stream s) = (length d + length (s_stream s1))%nat) by (rewrite P, app_length; reflexivity). lia.
Qed.

Theorem sts_drain_aux_total s k aux : sts_drain_aux s k aux <> None.
Proof. unfold sts_drain_aux. apply sts_drain_aux_loop_total. unfold sts_fuel. lia. Qed.

Theorem sts_drain_aux_spec s k aux r s' k' aux' : sts_drain_aux s k aux = Some (r, s', k', aux') ->
  exists moved lost e, r = DErr e /\ s_stream s = moved ++ lost ++ s_stream s' /\ k_got k' = k_got k ++ moved.
Proof. apply sts_drain_aux_loop_spec. Qed.
