(* C05, C02: block writes keep the constraint invariant; histories of all checked operations. *)
From Ufw Require Import Base.Bits Model.RegTable Proof.ListLemmas Proof.PersistLemmas Proof.RegLemmas Proof.RegInitLemmas
  Proof.RegInvariant Proof.RegMemory.
From Coq Require Import Lia Bool ZifyN ZifyBool ZifyNat.
Local Open Scope N_scope.
Local Open Scope bool_scope.

Record InvB (t : table) : Prop := { invb_inv : Inv t; invb_areas : areas_wf (t_areas t) }.

(* ---- a typed store keeps the areas well formed ---- *)
Lemma setx_areas_wf t idx v c : areas_wf (t_areas t) -> areas_wf (t_areas (snd (reg_setx t idx v c))).
Proof.
  intros Hwf. destruct (reg_setx t idx v c) as [r t'] eqn:E. cbn [snd].
  destruct (acode_eq_dec (fst r) ASuccess) as [Hr|Hr]; [|rewrite (setx_refused_unchanged _ _ _ _ _ _ E Hr); exact Hwf].
  destruct (setx_success_form _ _ _ _ _ _ E Hr) as (e & i & a & _ & _ & Ha & _ & _ & ->).
  unfold entry_area in Ha. destruct (find_area_props _ _ _ _ _ Ha) as (_ & _ & Hn). rewrite Nat.sub_0_r in Hn.
  unfold set_area; cbn [t_areas].
  assert (G : same_geom (t_areas t) (upd (t_areas t) i (area_write a (e_addr e - a_base a) (ser_words (t_be t) (e_type e) (v_bits v)))))
    by (apply (same_geom_upd _ i a); [exact Hn|reflexivity|reflexivity]).
  split; [apply (chain_geom _ _ G), Hwf|].
  apply Forall_upd; [apply Hwf|]. unfold area_write, area_with_words; cbn [a_words a_size]. rewrite blit_length.
  apply (area_full_in _ _ Hwf (nth_error_In _ _ Hn)).
Qed.

Theorem checked_set_preserves_b t idx v r t' : InvB t -> typed v -> reg_setx t idx v true = (r, t') -> InvB t'.
Proof.
  intros [HI Hwf] Hv H. split; [exact (checked_set_preserves t idx v r t' HI Hv H)|].
  pose proof (setx_areas_wf t idx v true Hwf) as W. rewrite H in W. exact W.
Qed.

Theorem bitop_preserves_b clear t idx v r t' : InvB t -> typed v -> reg_bitop clear t idx v = (r, t') -> InvB t'.
Proof.
  intros [HI Hwf] Hv H. split; [exact (bitop_preserves clear t idx v r t' HI Hv H)|].
  unfold reg_bitop in H. destruct (reg_get t idx) as [[c x] o].
  destruct c; try (injection H as _ <-; exact Hwf). destruct o as [cur|]; [|injection H as _ <-; exact Hwf].
  destruct (_ || _); [injection H as _ <-; exact Hwf|].
  pose proof (setx_areas_wf t idx {| v_type := v_type cur; v_bits := if clear then N.ldiff (v_bits cur) (v_bits v) else N.lor (v_bits cur) (v_bits v) |} true Hwf) as W.
  rewrite H in W. exact W.
Qed.

(* ---- taint changes only the touched marks ---- *)
Lemma taint_in es addr n e' : In e' (taint es addr n) ->
  exists e, In e es /\ e_type e' = e_type e /\ e_addr e' = e_addr e /\ e_check e' = e_check e /\ e_default e' = e_default e.
Proof.
  unfold taint. intros H. apply in_map_iff in H as (e & <- & Hin). exists e. split; [exact Hin|].
  destruct (overlaps e addr n); cbn; auto.
Qed.

Lemma chain_taint : forall es e0 addr n, chain e_addr (fun e => tsize (e_type e)) e0 es ->
  match taint (e0 :: es) addr n with [] => True | x :: r => chain e_addr (fun e => tsize (e_type e)) x r end.
Proof.
  induction es as [|e1 es IH]; intros e0 addr n H; cbn [taint map]; [exact I|].
  destruct H as [H1 H2]. specialize (IH e1 addr n H2). cbn [taint map] in IH. split; [|exact IH].
  destruct (overlaps e0 addr n), (overlaps e1 addr n); cbn; exact H1.
Qed.

Lemma In_firstn {A} (l : list A) n x : In x (firstn n l) -> In x l.
Proof. intros H. rewrite <- (firstn_skipn n l). apply in_or_app. left. exact H. Qed.

Lemma write_words_16 : forall fuel t addr ws, Forall (fun w => w < 65536) ws ->
  Forall (fun a => Forall (fun w => w < 65536) (a_words a)) (t_areas t) ->
  Forall (fun a => Forall (fun w => w < 65536) (a_words a)) (t_areas (write_words fuel t addr ws)).
Proof.
  induction fuel as [|f IH]; intros t addr ws Hws Ht; destruct ws as [|w ws'] eqn:E; cbn [write_words]; try exact Ht.
  rewrite <- E in *. destruct (find_area (t_areas t) addr 0) as [[i a]|] eqn:Ef; [|exact Ht].
  apply IH.
  - rewrite Forall_forall in *. intros x Hx. apply Hws. rewrite <- (firstn_skipn (N.to_nat (N.min (a_base a + a_size a - addr) (N.of_nat (length ws)))) ws).
    apply in_or_app. right. exact Hx.
  - unfold set_area; cbn [t_areas]. apply Forall_upd; [exact Ht|].
    unfold area_write, area_with_words; cbn [a_words]. apply Forall_blit.
    + destruct (find_area_in _ _ _ _ _ Ef) as [Hin _]. rewrite Forall_forall in Ht. apply Ht. exact Hin.
    + rewrite Forall_forall in *. intros x Hx. apply Hws. apply (In_firstn _ _ _ Hx).
Qed.

Lemma placed_geom t t' e e' : same_geom (t_areas t) (t_areas t') -> areas_wf (t_areas t') ->
  e_addr e' = e_addr e -> e_type e' = e_type e -> placed t e -> placed t' e'.
Proof.
  intros G Hwf' Ha Ht (i & a & Hf & Hfit & _). unfold placed, entry_area in *. rewrite Ha, Ht.
  pose proof (find_area_geom _ _ G (e_addr e) 0) as F. rewrite Hf in F.
  destruct (find_area (t_areas t') (e_addr e) 0) as [[j b]|] eqn:E; [|contradiction]. destruct F as (<- & Hb & Hs).
  exists i, b. split; [reflexivity|]. split; [lia|]. destruct (find_area_in _ _ _ _ _ E) as [Hin _]. apply (area_full_in _ _ Hwf' Hin).
Qed.

Lemma validate_same d e e' v : e_type e' = e_type e -> e_check e' = e_check e -> validate d e' v = validate d e v.
Proof. intros Ht Hc. unfold validate. rewrite Ht, Hc. reflexivity. Qed.

Lemma entry_words_same t e e' : e_addr e' = e_addr e -> e_type e' = e_type e -> entry_words t e' = entry_words t e.
Proof. intros Ha Ht. unfold entry_words. rewrite Ha, Ht. reflexivity. Qed.

Theorem block_write_preserves t addr n buf r t' : InvB t -> n <= N.of_nat (length buf) ->
  Forall (fun w => w < 65536) (firstn (N.to_nat n) buf) ->
  block_write t addr n buf = (r, t') -> InvB t'.
Proof.
  intros HB Hlen H16 H.
  destruct (acode_eq_dec (fst r) ASuccess) as [Hr|Hr]; [|rewrite (block_write_failure_atomic _ _ _ _ _ _ H Hr); exact HB].
  destruct (N.eq_dec n 0) as [->|Hn].
  { pose proof (inv_init t (invb_inv t HB)) as Hi0. rewrite block_write_zero in H by exact Hi0. injection H as _ <-. exact HB. }
  assert (Hr' : r = (ASuccess, 0)).
  { unfold block_write in H. destruct (negb (t_init t)); [injection H as <- _; discriminate|]. destruct (n =? 0); [injection H as <- _; reflexivity|].
    destruct (first_readonly _ _ _); [injection H as <- _; discriminate|]. destruct (first_hole _ _ _ _); [injection H as <- _; discriminate|].
    destruct (malformed _ _ _ _ _) as [r0|] eqn:Em; [injection H as <- _; exfalso; apply (malformed_not_success _ _ _ _ _ _ Em Hr)|].
    injection H as <- _. reflexivity. }
  subst r. destruct HB as [[Hi Hd Hc Hp Hw16 Hs] Hwf].
  destruct (block_write_image t addr n buf t' Hwf Hn Hlen H) as (Hwf' & G & W).
  destruct (block_write_success_form _ _ _ _ _ H Hn) as (_ & _ & Em & Et').
  pose proof (malformed_none _ _ _ _ _ Em) as Hval. rewrite Hd in Hval.
  set (tw := write_words (area_fuel t) t addr (firstn (N.to_nat n) buf)) in *.
  assert (Hent : t_entries tw = t_entries t) by apply write_words_entries.
  assert (Hflags : t_init t' = true /\ t_during t' = false /\ t_be t' = t_be t).
  { destruct (write_words_at (area_fuel t) t addr (firstn (N.to_nat n) buf) Hwf) as (_ & _ & (F1 & F2 & F3 & _) & _).
    - intros i Hi'. rewrite firstn_length in Hi'. destruct (block_write_success_form _ _ _ _ _ H Hn) as (_ & Eh & _ & _).
      apply (first_hole_none _ _ _ _ Eh). lia.
    - right. intros j a _. unfold area_fuel. lia.
    - subst t'. unfold set_entries; cbn [t_init t_during t_be]. fold tw in F1, F2, F3. rewrite F1, F2, F3. auto. }
  destruct Hflags as (Fi & Fd & Fbe).
  assert (Hentries' : t_entries t' = taint (t_entries t) addr n) by (subst t'; unfold set_entries; cbn [t_entries]; rewrite Hent; reflexivity).
  rewrite Forall_forall in Hp, Hs.
  split; [|exact Hwf'].
  constructor.
  - exact Fi.
  - exact Fd.
  - unfold entries_ordered in *. rewrite Hentries'. destruct (t_entries t) as [|e0 es]; [exact I|]. apply chain_taint. exact Hc.
  - rewrite Hentries'. apply Forall_forall. intros e' Hin'. destruct (taint_in _ _ _ _ Hin') as (e & Hin & Ty & Ad & _ & _).
    apply (placed_geom t t' e e' G Hwf' Ad Ty (Hp e Hin)).
  - subst t'. unfold set_entries; cbn [t_areas]. apply write_words_16; assumption.
  - rewrite Hentries'. apply Forall_forall. intros e' Hin'. destruct (taint_in _ _ _ _ Hin') as (e & Hin & Ty & Ad & Ck & _).
    intros ws' Hw' Hok'. rewrite (entry_words_same t' e e' Ad Ty) in Hw'.
    rewrite (validate_same false e e' _ Ty Ck). rewrite Ty in *. rewrite Fbe in *.
    destruct (entry_words_at t' e ws' Hwf' Hw') as [Lw' Ww'].
    destruct (Hp e Hin) as (i & a & Ha & Hfit & Hfull).
    pose proof (entry_words_placed t e i a Ha Hfit) as Hcur.
    destruct (entry_words_at t e _ Hwf Hcur) as [Lc Wc].
    set (cur := area_read a (e_addr e - a_base a) (tsize (e_type e))) in *.
    destruct (overlaps e addr n) eqn:Eo.
    + (* overlapped: the stored words are the validated overlay *)
      destruct (Hval e Hin Eo) as (cur' & Hc' & Hv). rewrite Hcur in Hc'. injection Hc' as <-. cbv zeta in Hv.
      set (lo := N.max addr (e_addr e)) in *. set (hi := N.min (addr + n) (e_addr e + tsize (e_type e))) in *.
      unfold overlaps in Eo. apply andb_prop in Eo as [O1 O2]. apply N.ltb_lt in O1, O2.
      assert (Enew : ws' = blit cur (N.to_nat (lo - e_addr e)) (slice buf (N.to_nat (lo - addr)) (N.to_nat (hi - lo)))).
      { assert (Hsl : length (slice buf (N.to_nat (lo - addr)) (N.to_nat (hi - lo))) = N.to_nat (hi - lo)) by (apply slice_length; unfold lo, hi; lia).
        apply list_eq_nth; [rewrite blit_length; lia|].
        intros k Hk. rewrite nth_error_blit by (rewrite Hsl; unfold lo, hi; lia). rewrite Hsl.
        replace (nth_error ws' k) with (nth_error ws' (N.to_nat (N.of_nat k))) by (rewrite Nat2N.id; reflexivity).
        rewrite <- (Ww' (N.of_nat k)) by lia. rewrite (W (e_addr e + N.of_nat k)).
        destruct (N.leb_spec addr (e_addr e + N.of_nat k)) as [L1|L1], (N.ltb_spec (e_addr e + N.of_nat k) (addr + n)) as [L2|L2]; cbn [andb].
        * destruct (Nat.leb_spec (N.to_nat (lo - e_addr e)) k) as [M1|M1]; [|unfold lo in M1; lia].
          destruct (Nat.ltb_spec k (N.to_nat (lo - e_addr e) + N.to_nat (hi - lo))) as [M2|M2]; [|unfold lo, hi in M2; lia]. cbn [andb].
          rewrite nth_error_slice by (unfold lo, hi in *; lia). f_equal. unfold lo. lia.
        * destruct (Nat.leb_spec (N.to_nat (lo - e_addr e)) k) as [M1|M1]; cbn [andb].
          -- destruct (Nat.ltb_spec k (N.to_nat (lo - e_addr e) + N.to_nat (hi - lo))) as [M2|M2]; [unfold lo, hi in *; lia|].
             rewrite (Wc (N.of_nat k)) by lia. rewrite Nat2N.id. reflexivity.
          -- rewrite (Wc (N.of_nat k)) by lia. rewrite Nat2N.id. reflexivity.
        * destruct (Nat.leb_spec (N.to_nat (lo - e_addr e)) k) as [M1|M1]; cbn [andb]; [unfold lo in M1; lia|].
          rewrite (Wc (N.of_nat k)) by lia. rewrite Nat2N.id. reflexivity.
        * lia. }
      rewrite <- Enew in Hv. apply Hv.
    + (* not overlapped: the words are the old ones *)
      unfold overlaps in Eo. apply andb_false_iff in Eo.
      assert (Eold : ws' = cur).
      { apply list_eq_nth; [lia|]. intros k Hk.
        replace (nth_error ws' k) with (nth_error ws' (N.to_nat (N.of_nat k))) by (rewrite Nat2N.id; reflexivity).
        rewrite <- (Ww' (N.of_nat k)) by lia. rewrite (W (e_addr e + N.of_nat k)).
        replace ((addr <=? e_addr e + N.of_nat k) && (e_addr e + N.of_nat k <? addr + n)) with false.
        - rewrite (Wc (N.of_nat k)) by lia. rewrite Nat2N.id. reflexivity.
        - symmetry. apply andb_false_iff. destruct Eo as [E|E]; [left|right]; [apply N.ltb_ge in E; apply N.leb_gt; lia|apply N.ltb_ge in E; apply N.ltb_ge; lia]. }
      subst ws'. apply (Hs e Hin cur Hcur Hok').
Qed.

(* ---- sanitise: checked stores of defaults and cleared marks ---- *)
Lemma read_words_areas : forall fuel t1 t2 addr n rr, t_areas t1 = t_areas t2 -> read_words fuel t1 addr n rr = read_words fuel t2 addr n rr.
Proof.
  induction fuel as [|f IH]; intros t1 t2 addr n rr E; cbn [read_words]; [reflexivity|]. rewrite E.
  destruct (n =? 0); [reflexivity|]. destruct (find_area (t_areas t2) addr 0) as [[i a]|]; [|reflexivity].
  rewrite (IH t1 t2 _ _ rr E). reflexivity.
Qed.
Lemma entry_words_areas t1 t2 e : t_areas t1 = t_areas t2 -> entry_words t1 e = entry_words t2 e.
Proof. intros E. unfold entry_words, area_fuel. rewrite E. apply read_words_areas. exact E. Qed.
Lemma untouch_preserves t i e : InvB t -> nth_error (t_entries t) i = Some e ->
  InvB (set_entries t (upd (t_entries t) i (untouch e))).
Proof.
  intros [[Hi Hd Hc Hp Hw16 Hs] Hwf] Hn. split; [|exact Hwf].
  assert (Hin' : forall e', In e' (upd (t_entries t) i (untouch e)) ->
                  exists e0, In e0 (t_entries t) /\ e_type e' = e_type e0 /\ e_addr e' = e_addr e0 /\ e_check e' = e_check e0).
  { intros e' H. apply In_nth_error in H as [j Hj]. destruct (Nat.eq_dec j i) as [->|Hne].
    - rewrite nth_error_upd_eq in Hj by (apply nth_error_Some; congruence). injection Hj as <-. exists e. split; [apply (nth_error_In _ _ Hn)|auto].
    - rewrite nth_error_upd_neq in Hj by auto. exists e'. split; [apply (nth_error_In _ _ Hj)|auto]. }
  rewrite Forall_forall in Hp, Hs.
  constructor; try assumption.
  - (* order: addresses and sizes are unchanged *)
    unfold entries_ordered in *. cbn [set_entries t_entries].
    assert (M : map (fun x => (e_addr x, tsize (e_type x))) (upd (t_entries t) i (untouch e)) = map (fun x => (e_addr x, tsize (e_type x))) (t_entries t)).
    { clear - Hn. revert i Hn. induction (t_entries t) as [|y r IH]; intros [|i] Hn; cbn in *; try discriminate; [injection Hn as ->; reflexivity|].
      f_equal. apply IH. exact Hn. }
    revert M Hc. generalize (upd (t_entries t) i (untouch e)) as l2. generalize (t_entries t) as l1. clear.
    intros l1 l2 M. destruct l1 as [|a r1], l2 as [|b r2]; try discriminate; auto. cbn [map] in M. injection M as A1 A2 M.
    revert a b r2 A1 A2 M. induction r1 as [|a' r1 IH]; intros a b r2 A1 A2 M Hc; destruct r2 as [|b' r2]; try discriminate; [exact I|].
    cbn [map] in M. injection M as B1 B2 M. destruct Hc as [H1 H2]. split; [rewrite A1, A2, B1; exact H1|]. apply (IH a' b' r2 B1 B2 M H2).
  - cbn [set_entries t_entries]. apply Forall_forall. intros e' H. destruct (Hin' e' H) as (e0 & Hin0 & Ty & Ad & _).
    apply (placed_geom t _ e0 e' (same_geom_refl _) Hwf Ad Ty (Hp e0 Hin0)).
  - cbn [set_entries t_entries]. apply Forall_forall. intros e' H. destruct (Hin' e' H) as (e0 & Hin0 & Ty & Ad & Ck).
    intros ws Hw Hok. rewrite (entry_words_areas (set_entries t (upd (t_entries t) i (untouch e))) t e' eq_refl) in Hw.
    rewrite (entry_words_same t e0 e' Ad Ty) in Hw. rewrite (validate_same false e0 e' _ Ty Ck). rewrite Ty in *.
    apply (Hs e0 Hin0 ws Hw Hok).
Qed.

Lemma sanitise_loop_preserves : forall fuel t i r t', InvB t -> Forall (fun e => e_default e < 2 ^ tbits (e_type e)) (t_entries t) ->
  sanitise_loop fuel t i = (r, t') -> InvB t'.
Proof.
  induction fuel as [|f IH]; intros t i r t' HB Hdef H; cbn [sanitise_loop] in H; [injection H as _ <-; exact HB|].
  destruct (nth_error (t_entries t) (N.to_nat i)) as [e|] eqn:En; [|injection H as _ <-; exact HB].
  assert (Hde : typed {| v_type := e_type e; v_bits := e_default e |}).
  { unfold typed; cbn. rewrite Forall_forall in Hdef. apply Hdef. apply (nth_error_In _ _ En). }
  assert (Step : forall t1, InvB t1 -> t_entries t1 = t_entries t ->
                  sanitise_loop f (set_entries t1 (upd (t_entries t1) (N.to_nat i) (untouch e))) (i + 1) = (r, t') -> InvB t').
  { intros t1 HB1 E1 H1. assert (En1 : nth_error (t_entries t1) (N.to_nat i) = Some e) by (rewrite E1; exact En).
    refine (IH _ (i + 1) r t' (untouch_preserves t1 (N.to_nat i) e HB1 En1) _ H1).
    cbn [set_entries t_entries]. rewrite E1. apply Forall_forall. intros e' Hin. apply In_nth_error in Hin as [j Hj].
    rewrite Forall_forall in Hdef. destruct (Nat.eq_dec j (N.to_nat i)) as [->|Hne].
    - rewrite nth_error_upd_eq in Hj by (apply nth_error_Some; congruence). injection Hj as <-. cbn. apply Hdef. apply (nth_error_In _ _ En).
    - rewrite nth_error_upd_neq in Hj by auto. apply Hdef. apply (nth_error_In _ _ Hj). }
  assert (Fix : forall r1 t1, reg_setx t i {| v_type := e_type e; v_bits := e_default e |} true = (r1, t1) -> InvB t1 /\ t_entries t1 = t_entries t).
  { intros r1 t1 E. split; [apply (checked_set_preserves_b t i _ r1 t1 HB Hde E)|].
    pose proof (setx_geom t i {| v_type := e_type e; v_bits := e_default e |} true) as [_ Ee]. rewrite E in Ee. exact Ee. }
  destruct (reg_get t i) as [[c x] o].
  destruct c; try (injection H as _ <-; exact HB).
  - destruct o as [cur|]; [|injection H as _ <-; exact HB].
    destruct (validate (t_during t) e cur); [apply (Step t HB eq_refl H)|].
    destruct (reg_setx t i _ true) as [r1 t1] eqn:E. destruct (Fix r1 t1 eq_refl) as [HB1 E1].
    destruct r1 as [c1 x1]. destruct c1; try (injection H as _ <-; exact HB1). apply (Step t1 HB1 E1 H).
  - destruct (reg_setx t i _ true) as [r1 t1] eqn:E. destruct (Fix r1 t1 eq_refl) as [HB1 E1].
    destruct r1 as [c1 x1]. destruct c1; try (injection H as _ <-; exact HB1). apply (Step t1 HB1 E1 H).
Qed.

Theorem sanitise_preserves t r t' : InvB t -> Forall (fun e => e_default e < 2 ^ tbits (e_type e)) (t_entries t) ->
  sanitise t = (r, t') -> InvB t'.
Proof.
  intros HB Hdef H. unfold sanitise in H. destruct (negb (t_init t)); [injection H as _ <-; exact HB|].
  apply (sanitise_loop_preserves _ _ _ _ _ HB Hdef H).
Qed.

(* ---- histories of all checked operations ---- *)
Inductive op_all := OTyped (o : cop) | OBlockWrite (addr n : N) (buf : list N) | OSanitise.
Definition op_all_ok (t0 : table) (o : op_all) : Prop :=
  match o with
  | OTyped c => typed (cop_value c)
  | OBlockWrite addr n buf => n <= N.of_nat (length buf) /\ Forall (fun w => w < 65536) (firstn (N.to_nat n) buf)
  | OSanitise => True
  end.
Definition run_op_all (t : table) (o : op_all) : table :=
  match o with
  | OTyped c => run_cop t c
  | OBlockWrite addr n buf => snd (block_write t addr n buf)
  | OSanitise => snd (sanitise t)
  end.

Definition defaults_typed (t : table) : Prop := Forall (fun e => e_default e < 2 ^ tbits (e_type e)) (t_entries t).

(* the defaults are part of the table description: no operation changes them *)
Definition descr (t : table) : list (rtype * N * N * rcheck) := map (fun e => (e_type e, e_default e, e_addr e, e_check e)) (t_entries t).

Lemma defaults_typed_descr t1 t2 : descr t1 = descr t2 -> defaults_typed t1 -> defaults_typed t2.
Proof.
  unfold descr, defaults_typed. revert t2. generalize (t_entries t1) as l1. intros l1 t2. generalize (t_entries t2) as l2.
  induction l1 as [|a l1 IH]; intros [|b l2] E H; try discriminate; constructor; cbn [map] in E; injection E as E1 E2 E3 E4 E.
  - inversion H; subst. rewrite <- E1, <- E2. assumption.
  - inversion H; subst. apply IH; assumption.
Qed.

Lemma setx_descr t idx v c : descr (snd (reg_setx t idx v c)) = descr t.
Proof. unfold descr. destruct (setx_geom t idx v c) as [_ E]. rewrite E. reflexivity. Qed.

Lemma bitop_descr cl t idx v : descr (snd (reg_bitop cl t idx v)) = descr t.
Proof.
  unfold reg_bitop. destruct (reg_get t idx) as [[c x] o]. destruct c; try reflexivity. destruct o; [|reflexivity].
  destruct (_ || _); [reflexivity|]. apply setx_descr.
Qed.

Lemma taint_descr es addr n : map (fun e => (e_type e, e_default e, e_addr e, e_check e)) (taint es addr n)
                              = map (fun e => (e_type e, e_default e, e_addr e, e_check e)) es.
Proof. unfold taint. rewrite map_map. apply map_ext. intros e. destruct (overlaps e addr n); reflexivity. Qed.

Lemma block_write_descr t addr n buf : descr (snd (block_write t addr n buf)) = descr t.
Proof.
  unfold block_write. destruct (negb (t_init t)); [reflexivity|]. destruct (n =? 0); [reflexivity|].
  destruct (first_readonly _ _ _); [reflexivity|]. destruct (first_hole _ _ _ _); [reflexivity|].
  destruct (malformed _ _ _ _ _); [reflexivity|]. cbn [snd]. unfold descr, set_entries; cbn [t_entries].
  rewrite taint_descr, write_words_entries. reflexivity.
Qed.

Lemma upd_untouch_descr es i e : nth_error es i = Some e ->
  map (fun e => (e_type e, e_default e, e_addr e, e_check e)) (upd es i (untouch e)) = map (fun e => (e_type e, e_default e, e_addr e, e_check e)) es.
Proof. revert i. induction es as [|y r IH]; intros [|i] H; cbn in *; try discriminate; [injection H as ->; reflexivity|]. f_equal. apply IH. exact H. Qed.

Lemma sanitise_loop_descr : forall fuel t i, descr (snd (sanitise_loop fuel t i)) = descr t.
Proof.
  induction fuel as [|f IH]; intros t i; cbn [sanitise_loop]; [reflexivity|].
  destruct (nth_error (t_entries t) (N.to_nat i)) as [e|] eqn:En; [|reflexivity].
  assert (Step : forall t1, t_entries t1 = t_entries t ->
            descr (snd (sanitise_loop f (set_entries t1 (upd (t_entries t1) (N.to_nat i) (untouch e))) (i + 1))) = descr t).
  { intros t1 E1. rewrite IH. unfold descr, set_entries; cbn [t_entries]. rewrite E1. apply upd_untouch_descr. exact En. }
  assert (SX : forall r1 t1, reg_setx t i {| v_type := e_type e; v_bits := e_default e |} true = (r1, t1) -> t_entries t1 = t_entries t /\ descr t1 = descr t).
  { intros r1 t1 E. pose proof (setx_geom t i {| v_type := e_type e; v_bits := e_default e |} true) as [_ Ee]. rewrite E in Ee. cbn [snd] in Ee.
    split; [exact Ee|unfold descr; rewrite Ee; reflexivity]. }
  destruct (reg_get t i) as [[c x] o]. destruct c; try reflexivity.
  - destruct o as [cur|]; [|reflexivity]. destruct (validate (t_during t) e cur); [apply (Step t eq_refl)|].
    destruct (reg_setx t i _ true) as [r1 t1] eqn:E. destruct (SX r1 t1 eq_refl) as [E1 D1].
    destruct r1 as [c1 x1]. destruct c1; try exact D1. apply (Step t1 E1).
  - destruct (reg_setx t i _ true) as [r1 t1] eqn:E. destruct (SX r1 t1 eq_refl) as [E1 D1].
    destruct r1 as [c1 x1]. destruct c1; try exact D1. apply (Step t1 E1).
Qed.

Lemma run_op_all_descr t o : descr (run_op_all t o) = descr t.
Proof.
  destruct o as [c|addr n buf|]; cbn [run_op_all].
  - destruct c; cbn [run_cop]; [apply setx_descr|apply bitop_descr|apply bitop_descr].
  - apply block_write_descr.
  - unfold sanitise. destruct (negb (t_init t)); [reflexivity|]. apply sanitise_loop_descr.
Qed.

Theorem history_invariant_all ops : forall t, InvB t -> defaults_typed t -> Forall (op_all_ok t) ops ->
  InvB (fold_left run_op_all ops t).
Proof.
  induction ops as [|o ops IH]; intros t HB Hdef Hall; [exact HB|].
  inversion Hall as [|? ? Ho Hrest]; subst. cbn [fold_left].
  assert (HB' : InvB (run_op_all t o)).
  { destruct o as [c|addr n buf|]; cbn [run_op_all op_all_ok] in *.
    - destruct c as [i v|i v|i v]; cbn [run_cop cop_value] in *.
      + destruct (reg_setx t i v true) as [r t'] eqn:E. exact (checked_set_preserves_b t i v r t' HB Ho E).
      + destruct (reg_bitop false t i v) as [r t'] eqn:E. exact (bitop_preserves_b false t i v r t' HB Ho E).
      + destruct (reg_bitop true t i v) as [r t'] eqn:E. exact (bitop_preserves_b true t i v r t' HB Ho E).
    - destruct Ho as [Hl H16]. destruct (block_write t addr n buf) as [r t'] eqn:E. exact (block_write_preserves t addr n buf r t' HB Hl H16 E).
    - destruct (sanitise t) as [r t'] eqn:E. exact (sanitise_preserves t r t' HB Hdef E). }
  apply IH; [exact HB'|apply (defaults_typed_descr t); [symmetry; apply run_op_all_descr|exact Hdef]|].
  apply Forall_forall. intros o' Hin. rewrite Forall_forall in Hrest. specialize (Hrest o' Hin). destruct o'; exact Hrest.
Qed.

Corollary history_get_all ops t idx e v : InvB t -> defaults_typed t -> Forall (op_all_ok t) ops ->
  entry_at (fold_left run_op_all ops t) idx = Some e ->
  reg_get (fold_left run_op_all ops t) idx = ((ASuccess, 0), Some v) -> validate false e v = true.
Proof. intros HB Hd Hall. apply inv_get. apply (history_invariant_all ops t HB Hd Hall). Qed.
