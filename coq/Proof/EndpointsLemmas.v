From Ufw Require Import Base.Bits Base.Errno Model.Endpoints.
From Coq Require Import Lia Bool.
Local Open Scope N_scope.

Ltac fin := try discriminate;
  try (intros; repeat match goal with H : DOk _ = DOk _ |- _ => injection H as H; subst end;
       rewrite ?firstn_length; cbn [length]; lia).

(* ---------- one driver call delivers a prefix of the stream ---------- *)
Lemma octet_call_prefix s r d s' : src_octet_call s = (r, d, s') ->
  d ++ s_stream s' = s_stream s /\ s_octet s' = s_octet s /\
  (forall c, r = DOk c -> N.of_nat (length d) = c /\ c <= 1) /\
  (forall e, r = DErr e -> d = []).
Proof.
  unfold src_octet_call. destruct (pop_ev (s_script s)) as [ev sc].
  destruct ev as [g| | | |e0]; [destruct (s_stream s) as [|x t] eqn:E|..]; intros [= <- <- <-];
    cbn [s_stream s_octet src_with app length]; rewrite ?E;
    repeat split; auto; fin.
Qed.

Lemma chunk_call_prefix s n r d s' : src_chunk_call s n = (r, d, s') ->
  d ++ s_stream s' = s_stream s /\ s_octet s' = s_octet s /\
  (forall c, r = DOk c -> N.of_nat (length d) = c /\ c <= n) /\
  (forall e, r = DErr e -> d = []).
Proof.
  unfold src_chunk_call. destruct (pop_ev (s_script s)) as [ev sc].
  destruct ev as [g| | | |e0]; [destruct (s_stream s) as [|x t] eqn:E|..]; intros [= <- <- <-];
    cbn [s_stream s_octet src_with app]; rewrite ?E;
    repeat split; auto; fin.
  apply firstn_skipn.
Qed.

Ltac splits := repeat match goal with |- _ /\ _ => split end.

Lemma adapt_spec fuel : forall s rest acc r d s',
  source_adapt fuel s rest acc = Some (r, d, s') ->
  exists d', d = acc ++ d' /\ d' ++ s_stream s' = s_stream s /\ s_octet s' = s_octet s /\
             (forall c, r = DOk c -> N.of_nat (length d') = rest /\ c = N.of_nat (length d)) /\
             (forall e, r = DErr e -> is_retry e = false).
Proof.
  induction fuel as [|f IH]; intros s rest acc r d s' H; cbn [source_adapt] in H.
  - destruct (N.eqb_spec rest 0) as [E|E]; [|discriminate]. injection H as <- <- <-.
    exists []. rewrite app_nil_r. splits; auto; [intros c [= <-]; cbn; lia|discriminate].
  - destruct (N.eqb_spec rest 0) as [E|E].
    { injection H as <- <- <-. exists []. rewrite app_nil_r.
      splits; auto; [intros c [= <-]; cbn; lia|discriminate]. }
    destruct (src_octet_call s) as [[r1 d1] s1] eqn:C.
    destruct (octet_call_prefix _ _ _ _ C) as (P1 & O1 & L1 & Z1).
    destruct r1 as [k1|e1].
    + destruct (IH _ _ _ _ _ _ H) as (d' & -> & P & O & L & R).
      destruct (L1 k1 eq_refl) as [L1a L1b].
      exists (d1 ++ d'). rewrite <- app_assoc. splits; auto.
      * rewrite <- app_assoc, P. exact P1.
      * congruence.
      * intros c Hc. destruct (L c Hc) as [L2 L3]. split.
        -- rewrite app_length. lia.
        -- rewrite L3, <- app_assoc. reflexivity.
    + rewrite (Z1 e1 eq_refl) in *. cbn [app] in P1.
      destruct (is_retry e1) eqn:Er.
      * destruct (IH _ _ _ _ _ _ H) as (d' & -> & P & O & L & R).
        exists d'. splits; auto; congruence.
      * injection H as <- <- <-. exists []. rewrite app_nil_r.
        splits; auto; [discriminate|]. intros e [= <-]. exact Er.
Qed.

Lemma once_spec s n r d s' : once_source_get_chunk s n = Some (r, d, s') ->
  d ++ s_stream s' = s_stream s /\ s_octet s' = s_octet s /\
  (forall c, r = DOk c -> N.of_nat (length d) = c /\ c <= n) /\
  (forall e, r = DErr e -> is_retry e = true -> d = []).
Proof.
  unfold once_source_get_chunk. destruct (s_octet s) eqn:Eo.
  - intros H. destruct (adapt_spec _ _ _ _ _ _ _ H) as (d' & -> & P & O & L & R).
    cbn [app] in *. splits; auto; try congruence.
    + intros c Hc. destruct (L c Hc) as [L1 L2]. lia.
    + intros e He Hr. rewrite (R e He) in Hr. discriminate.
  - intros [= H]. destruct (chunk_call_prefix _ _ _ _ _ H) as (P & O & L & Z).
    splits; [exact P|congruence|exact L|intros e He _; exact (Z e He)].
Qed.

(* ---------- source_get_chunk: exactly n octets in order, or an error that is not a retry code ---------- *)
Lemma get_chunk_loop_spec fuel : forall s n rest acc r d s',
  source_get_chunk_loop fuel s n rest acc = Some (r, d, s') ->
  exists d', d = acc ++ d' /\ d' ++ s_stream s' = s_stream s /\
             (forall c, r = DOk c -> c = n /\ N.of_nat (length d') = rest) /\
             (forall e, r = DErr e -> is_retry e = false).
Proof.
  induction fuel as [|f IH]; intros s n rest acc r d s' H; cbn [source_get_chunk_loop] in H.
  - destruct (N.eqb_spec rest 0) as [E|E]; [|discriminate]. injection H as <- <- <-.
    exists []. rewrite app_nil_r. splits; auto; [intros c [= <-]; cbn; lia|discriminate].
  - destruct (N.eqb_spec rest 0) as [E|E].
    { injection H as <- <- <-. exists []. rewrite app_nil_r.
      splits; auto; [intros c [= <-]; cbn; lia|discriminate]. }
    destruct (once_source_get_chunk s rest) as [[[r1 d1] s1]|] eqn:C; [|discriminate].
    destruct (once_spec _ _ _ _ _ C) as (P1 & O1 & L1 & Z1).
    destruct r1 as [k1|e1].
    + destruct (IH _ _ _ _ _ _ _ H) as (d' & -> & P & L & R).
      destruct (L1 k1 eq_refl) as [L1a L1b].
      exists (d1 ++ d'). rewrite <- app_assoc. splits; auto.
      * rewrite <- app_assoc, P. exact P1.
      * intros c Hc. destruct (L c Hc) as [L2 L3]. split; [exact L2|]. rewrite app_length. lia.
    + destruct (is_retry e1) eqn:Er.
      * rewrite (Z1 e1 eq_refl Er) in *. cbn [app] in P1. rewrite app_nil_r in H.
        destruct (IH _ _ _ _ _ _ _ H) as (d' & -> & P & L & R).
        exists d'. splits; auto; congruence.
      * injection H as <- <- <-. exists d1. splits; auto; [discriminate|]. intros e [= <-]. exact Er.
Qed.

Theorem get_chunk_exact s n r d s' : source_get_chunk s n = Some (r, d, s') ->
  (* what was delivered, followed by what the driver still holds, is the original stream: no loss,
     duplication or reordering *)
  d ++ s_stream s' = s_stream s /\
  (* success means exactly n octets *)
  (forall c, r = DOk c -> c = n /\ N.of_nat (length d) = n /\ d = firstn (N.to_nat n) (s_stream s)) /\
  (* EINTR/EAGAIN are never passed up *)
  (forall e, r = DErr e -> is_retry e = false).
Proof.
  unfold source_get_chunk. destruct ((n =? 0) || (SSIZE_MAX <? n)) eqn:Ev.
  - intros [= <- <- <-]. splits; auto; [discriminate|intros e [= <-]; reflexivity].
  - intros H. destruct (get_chunk_loop_spec _ _ _ _ _ _ _ _ H) as (d' & -> & P & L & R).
    cbn [app] in *. splits; auto.
    intros c Hc. destruct (L c Hc) as [L1 L2]. splits; auto.
    rewrite <- P. rewrite firstn_app.
    replace (N.to_nat n - length d')%nat with 0%nat by lia. cbn [firstn]. rewrite app_nil_r.
    symmetry. apply firstn_all2. lia.
Qed.

Theorem get_chunk_invalid s n : n = 0 \/ SSIZE_MAX < n ->
  source_get_chunk s n = Some (DErr EINVAL, [], s).   (* the source is untouched: no driver call *)
Proof.
  intros H. unfold source_get_chunk.
  destruct H as [->|H]; [reflexivity|].
  destruct (N.eqb_spec n 0); [reflexivity|]. destruct (N.ltb_spec SSIZE_MAX n); [reflexivity|lia].
Qed.

Theorem get_chunk_atmost_bound s n r d s' : source_get_chunk_atmost s n = Some (r, d, s') ->
  d ++ s_stream s' = s_stream s /\ (forall c, r = DOk c -> N.of_nat (length d) = c /\ c <= n).
Proof.
  unfold source_get_chunk_atmost. intros H. destruct (once_spec _ _ _ _ _ H) as (P & _ & L & _). auto.
Qed.

(* ---------- sinks ---------- *)
Lemma snk_octet_call_spec k x r k' : snk_octet_call k x = (r, k') ->
  k_octet k' = k_octet k /\
  ((exists c, r = DOk c /\ c = 1 /\ k_got k' = k_got k ++ [x]) \/
   (r = DOk 0 /\ k_got k' = k_got k) \/ (exists e, r = DErr e /\ k_got k' = k_got k)).
Proof.
  unfold snk_octet_call. destruct (pop_ev (k_script k)) as [ev sc].
  destruct ev as [g| | | |e0]; intros [= <- <-]; cbn; split; auto.
  - left. exists 1. auto.
  - right. right. exists EINTR. auto.
  - right. right. exists EAGAIN. auto.
  - right. right. exists e0. auto.
Qed.

Lemma snk_chunk_call_spec k xs r k' : snk_chunk_call k xs = (r, k') ->
  k_octet k' = k_octet k /\
  ((exists c, r = DOk c /\ c <= N.of_nat (length xs) /\ k_got k' = k_got k ++ firstn (N.to_nat c) xs) \/
   (exists e, r = DErr e /\ k_got k' = k_got k)).
Proof.
  unfold snk_chunk_call. destruct (pop_ev (k_script k)) as [ev sc].
  destruct ev as [g| | | |e0]; intros [= <- <-]; cbn; split; auto.
  - left. exists (N.min g (N.of_nat (length xs))). splits; [reflexivity|lia|reflexivity].
  - left. exists 0. cbn. rewrite app_nil_r. splits; [reflexivity|lia|reflexivity].
  - right. exists EINTR. auto.
  - right. exists EAGAIN. auto.
  - right. exists e0. auto.
Qed.

Lemma sink_adapt_spec fuel : forall k n xs r k', sink_adapt fuel k n xs = Some (r, k') ->
  exists sent, k_got k' = k_got k ++ sent /\ k_octet k' = k_octet k /\
               (exists rest, xs = sent ++ rest) /\
               (forall c, r = DOk c -> c = n /\ sent = xs) /\
               (forall e, r = DErr e -> is_retry e = false).
Proof.
  assert (Base : forall k n r k', Some (DOk n, k) = Some (r, k') ->
     exists sent, k_got k' = k_got k ++ sent /\ k_octet k' = k_octet k /\
               (exists rest, @nil N = sent ++ rest) /\
               (forall c, r = DOk c -> c = n /\ sent = []) /\
               (forall e, r = DErr e -> is_retry e = false)).
  { intros k n r k' [= <- <-]. exists []. rewrite app_nil_r.
    splits; auto; [exists []; reflexivity|intros c [= <-]; auto|discriminate]. }
  induction fuel as [|f IH]; intros k n xs r k' H.
  - destruct xs; cbn in H; [apply Base; exact H|discriminate].
  - destruct xs as [|x t]; cbn [sink_adapt] in H; [apply Base; exact H|].
    destruct (snk_octet_call k x) as [r1 k1] eqn:C.
    destruct (snk_octet_call_spec _ _ _ _ C) as (O1 & [(c1 & -> & -> & G1)|[(-> & G1)|(e1 & -> & G1)]]).
    + cbn [N.eqb] in H. destruct (IH _ _ _ _ _ H) as (sent & G & O & (rest & E) & L & R).
      exists (x :: sent). rewrite G, G1, <- app_assoc. cbn [app]. splits; auto; try congruence.
      * exists rest. rewrite E. reflexivity.
      * intros c Hc. destruct (L c Hc) as [L1 ->]. auto.
    + cbn [N.eqb] in H. destruct (IH _ _ _ _ _ H) as (sent & G & O & X & L & R).
      exists sent. rewrite G, G1. splits; auto; congruence.
    + destruct (is_retry e1) eqn:Er.
      * destruct (IH _ _ _ _ _ H) as (sent & G & O & X & L & R).
        exists sent. rewrite G, G1. splits; auto; congruence.
      * injection H as <- <-. exists []. rewrite app_nil_r.
        splits; auto; [exists (x :: t); reflexivity|discriminate|]. intros e [= <-]. exact Er.
Qed.

Lemma once_put_spec k xs r k' : once_sink_put_chunk k xs = Some (r, k') ->
  exists sent, k_got k' = k_got k ++ sent /\ (exists rest, xs = sent ++ rest) /\
               (forall c, r = DOk c -> sent = firstn (N.to_nat c) xs /\ c <= N.of_nat (length xs)) /\
               (forall e, r = DErr e -> is_retry e = true -> sent = []).
Proof.
  unfold once_sink_put_chunk. destruct (k_octet k).
  - intros H. destruct (sink_adapt_spec _ _ _ _ _ _ H) as (sent & G & _ & X & L & R).
    exists sent. splits; auto.
    + intros c Hc. destruct (L c Hc) as [-> ->]. rewrite Nat2N.id. split; [symmetry; apply firstn_all|lia].
    + intros e He Hr. rewrite (R e He) in Hr. discriminate.
  - intros [= H]. destruct (snk_chunk_call_spec _ _ _ _ H) as (_ & [(c & -> & Hc & G)|(e & -> & G)]).
    + exists (firstn (N.to_nat c) xs). splits; auto.
      * exists (skipn (N.to_nat c) xs). symmetry. apply firstn_skipn.
      * intros c' [= <-]. auto.
      * discriminate.
    + exists []. rewrite app_nil_r. splits; auto; [exists xs; reflexivity|discriminate].
Qed.

Lemma put_chunk_loop_spec fuel : forall k n xs r k', sink_put_chunk_loop fuel k n xs = Some (r, k') ->
  exists sent, k_got k' = k_got k ++ sent /\ (exists rest, xs = sent ++ rest) /\
               (forall c, r = DOk c -> c = n /\ sent = xs) /\
               (forall e, r = DErr e -> is_retry e = false).
Proof.
  assert (Base : forall k n r k', Some (DOk n, k) = Some (r, k') ->
     exists sent, k_got k' = k_got k ++ sent /\ (exists rest, @nil N = sent ++ rest) /\
               (forall c, r = DOk c -> c = n /\ sent = []) /\
               (forall e, r = DErr e -> is_retry e = false)).
  { intros k n r k' [= <- <-]. exists []. rewrite app_nil_r.
    splits; auto; [exists []; reflexivity|intros c [= <-]; auto|discriminate]. }
  induction fuel as [|f IH]; intros k n xs r k' H.
  - destruct xs; cbn in H; [apply Base; exact H|discriminate].
  - destruct xs as [|x t] eqn:Ex; cbn [sink_put_chunk_loop] in H; [apply Base; exact H|].
    rewrite <- Ex in *. clear Ex.
    destruct (once_sink_put_chunk k xs) as [[r1 k1]|] eqn:C; [|discriminate].
    destruct (once_put_spec _ _ _ _ C) as (s1 & G1 & (rest1 & X1) & L1 & Z1).
    destruct r1 as [c1|e1].
    + destruct (L1 c1 eq_refl) as [S1 B1].
      destruct (IH _ _ _ _ _ H) as (sent & G & (rest & X) & L & R).
      exists (s1 ++ sent). rewrite G, G1, <- app_assoc. splits; auto.
      * exists rest. rewrite <- app_assoc, <- X, S1. symmetry. apply firstn_skipn.
      * intros c Hc. destruct (L c Hc) as [L2 ->]. split; [exact L2|]. rewrite S1. apply firstn_skipn.
    + destruct (is_retry e1) eqn:Er.
      * rewrite (Z1 e1 eq_refl Er) in *. rewrite app_nil_r in G1.
        destruct (IH _ _ _ _ _ H) as (sent & G & X & L & R).
        exists sent. rewrite G, G1. splits; auto.
      * injection H as <- <-. exists s1. splits; auto; [exists rest1; exact X1|discriminate|].
        intros e [= <-]. exact Er.
Qed.

Theorem put_chunk_exact k xs n r k' : sink_put_chunk k xs n = Some (r, k') ->
  exists sent, k_got k' = k_got k ++ sent /\
    (* what reached the sink is a prefix of the data *)
    (exists rest, firstn (N.to_nat n) xs = sent ++ rest) /\
    (forall c, r = DOk c -> c = n /\ sent = firstn (N.to_nat n) xs) /\
    (forall e, r = DErr e -> is_retry e = false).
Proof.
  unfold sink_put_chunk. destruct ((n =? 0) || (SSIZE_MAX <? n)) eqn:Ev.
  - intros [= <- <-]. exists []. rewrite app_nil_r. splits; auto.
    + exists (firstn (N.to_nat n) xs). reflexivity.
    + discriminate.
    + intros e [= <-]. reflexivity.
  - intros H. destruct (put_chunk_loop_spec _ _ _ _ _ _ H) as (sent & G & X & L & R).
    exists sent. splits; auto.
Qed.

Theorem put_chunk_invalid k xs n : n = 0 \/ SSIZE_MAX < n -> sink_put_chunk k xs n = Some (DErr EINVAL, k).
Proof.
  intros H. unfold sink_put_chunk.
  destruct H as [->|H]; [reflexivity|].
  destruct (N.eqb_spec n 0); [reflexivity|]. destruct (N.ltb_spec SSIZE_MAX n); [reflexivity|lia].
Qed.
