From Ufw Require Import Base.Bits Base.Errno Model.ByteBuffer Proof.ListLemmas.
From Coq Require Import Lia Bool.
Local Open Scope N_scope.

Ltac nat_len := rewrite ?blit_length, ?app_length, ?firstn_length, ?skipn_length, ?repeat_length in *.

(* ---------- set-up ---------- *)
Lemma set_refuses nn mem size used offset :
  bb_set nn mem size used offset = None <->
  (nn = false \/ size = 0 \/ size < used \/ used < offset).
Proof.
  unfold bb_set. destruct nn; cbn [negb orb].
  - destruct (N.eqb_spec size 0) as [E1|E1], (N.ltb_spec size used) as [E2|E2],
      (N.ltb_spec used offset) as [E3|E3]; cbn [orb]; split; intros Hx;
      try reflexivity; try discriminate; try (intuition (congruence || lia)).
  - intuition congruence.
Qed.

Lemma set_accepts nn mem size used offset b :
  bb_set nn mem size used offset = Some b ->
  bb_mem b = mem /\ bb_size b = size /\ bb_used b = used /\ bb_offset b = offset /\
  nn = true /\ size <> 0 /\ offset <= used /\ used <= size.
Proof.
  unfold bb_set. destruct nn; cbn [negb orb]; [|discriminate].
  destruct (N.eqb_spec size 0); cbn [orb]; [discriminate|].
  destruct (N.ltb_spec size used); cbn [orb]; [discriminate|].
  destruct (N.ltb_spec used offset); cbn [orb]; [discriminate|].
  intros [= <-]. cbn. repeat split; auto.
Qed.

Lemma set_inv nn mem size used offset b :
  size <= N.of_nat (length mem) -> bb_set nn mem size used offset = Some b -> bb_inv b.
Proof.
  intros Hs H. apply set_accepts in H as (Hm & Hz & Hu & Ho & _ & _ & H1 & H2).
  unfold bb_inv. rewrite Hm, Hz, Hu, Ho. auto.
Qed.

(* ---------- one-step effects ---------- *)
Lemma add_refused b xs n : bb_avail b < n -> bb_add b xs n = (Some ENOMEM, b).
Proof. intros H. unfold bb_add. destruct (N.ltb_spec (bb_avail b) n); [reflexivity|lia]. Qed.

Lemma add_accepted b xs n : bb_inv b -> n <= bb_avail b -> n <= N.of_nat (length xs) ->
  exists b', bb_add b xs n = (None, b') /\
    bb_filled b' = bb_filled b ++ firstn (N.to_nat n) xs /\
    bb_offset b' = bb_offset b /\ bb_used b' = bb_used b + n /\ bb_size b' = bb_size b /\
    length (bb_mem b') = length (bb_mem b) /\
    skipn (N.to_nat (bb_size b)) (bb_mem b') = skipn (N.to_nat (bb_size b)) (bb_mem b) /\
    bb_inv b'.
Proof.
  intros (Ho & Hu & Hs) Hn Hx. unfold bb_avail in Hn. unfold bb_add, bb_avail.
  destruct (N.ltb_spec (bb_size b - bb_used b) n); [lia|].
  eexists; split; [reflexivity|].
  set (ys := firstn (N.to_nat n) xs).
  assert (Hy : length ys = N.to_nat n) by (unfold ys; rewrite firstn_length; lia).
  unfold bb_filled, bb_inv; cbn [bb_mem bb_used bb_offset bb_size].
  repeat split; try lia.
  - rewrite blit_spec by lia.
    rewrite firstn_app. rewrite firstn_length.
    replace (N.to_nat (bb_used b + n)) with (N.to_nat (bb_used b) + N.to_nat n)%nat by lia.
    rewrite firstn_firstn. replace (Nat.min _ _) with (N.to_nat (bb_used b)) by lia.
    f_equal.
    replace (_ - _)%nat with (N.to_nat n) by lia.
    rewrite firstn_app, Hy, Nat.sub_diag. cbn [firstn]. rewrite app_nil_r.
    rewrite <- Hy at 1. apply firstn_all.
  - apply blit_length.
  - apply blit_skipn. lia.
  - rewrite blit_length. exact Hs.
Qed.

Lemma consume_refused b n : bb_rest b < n -> bb_consume b n = (Some ENODATA, [], b).
Proof. intros H. unfold bb_consume. destruct (N.ltb_spec (bb_rest b) n); [reflexivity|lia]. Qed.

Lemma unread_slice_spec b k : bb_inv b -> k <= bb_rest b ->
  bb_unread_slice b k = firstn (N.to_nat k) (bb_unread b).
Proof.
  intros (Ho & Hu & Hs) Hk. unfold bb_rest in Hk.
  unfold bb_unread_slice, slice, bb_unread, bb_filled.
  rewrite skipn_firstn_comm, firstn_firstn. f_equal. lia.
Qed.

Lemma unread_length b : bb_inv b -> length (bb_unread b) = N.to_nat (bb_rest b).
Proof.
  intros (Ho & Hu & Hs). unfold bb_unread, bb_filled, bb_rest.
  rewrite skipn_length, firstn_length. lia.
Qed.

Lemma unread_advance b k b' : bb_inv b -> k <= bb_rest b ->
  bb_mem b' = bb_mem b -> bb_used b' = bb_used b -> bb_offset b' = bb_offset b + k ->
  bb_unread b' = skipn (N.to_nat k) (bb_unread b).
Proof.
  intros (Ho & Hu & Hs) Hk Hm Hu' Ho'. unfold bb_rest in Hk.
  unfold bb_unread, bb_filled. rewrite Hm, Hu', Ho'.
  set (f := firstn _ _).
  replace (N.to_nat (bb_offset b + k)) with (N.to_nat k + N.to_nat (bb_offset b))%nat by lia.
  apply skipn_add.
Qed.

Lemma consume_accepted b n : bb_inv b -> n <= bb_rest b ->
  exists b', bb_consume b n = (None, firstn (N.to_nat n) (bb_unread b), b') /\
    bb_unread b' = skipn (N.to_nat n) (bb_unread b) /\
    bb_mem b' = bb_mem b /\ bb_used b' = bb_used b /\ bb_size b' = bb_size b /\ bb_inv b'.
Proof.
  intros Hi Hn. unfold bb_consume.
  destruct (N.ltb_spec (bb_rest b) n); [lia|].
  rewrite unread_slice_spec by assumption.
  eexists; split; [reflexivity|].
  split; [apply (unread_advance b n); auto|].
  destruct Hi as (Ho & Hu & Hs). unfold bb_rest in Hn.
  unfold bb_inv; cbn. repeat split; auto; lia.
Qed.

Lemma consume_at_most_empty b n : bb_rest b = 0 -> bb_consume_at_most b n = (Some ENODATA, [], b).
Proof. intros H. unfold bb_consume_at_most. rewrite H. reflexivity. Qed.

Lemma consume_at_most_some b n : bb_inv b -> bb_rest b <> 0 ->
  let k := N.min n (bb_rest b) in
  exists b', bb_consume_at_most b n = (None, firstn (N.to_nat k) (bb_unread b), b') /\
    bb_unread b' = skipn (N.to_nat k) (bb_unread b) /\
    bb_mem b' = bb_mem b /\ bb_used b' = bb_used b /\ bb_size b' = bb_size b /\ bb_inv b'.
Proof.
  intros Hi Hr k. unfold bb_consume_at_most.
  destruct (N.eqb_spec (bb_rest b) 0); [contradiction|].
  assert (Hk : (if bb_rest b <? n then bb_rest b else n) = k).
  { unfold k. destruct (N.ltb_spec (bb_rest b) n); lia. }
  rewrite Hk. assert (Hle : k <= bb_rest b) by (unfold k; lia).
  rewrite unread_slice_spec by assumption.
  eexists; split; [reflexivity|].
  split; [apply (unread_advance b k); auto|].
  destruct Hi as (Ho & Hu & Hs). unfold bb_rest in Hle.
  unfold bb_inv; cbn. repeat split; auto; lia.
Qed.

Lemma rewind_spec b : bb_inv b ->
  let b' := bb_rewind b in
  bb_unread b' = bb_unread b /\ bb_offset b' = 0 /\ bb_used b' = bb_rest b /\
  bb_size b' = bb_size b /\ length (bb_mem b') = length (bb_mem b) /\
  skipn (N.to_nat (bb_size b)) (bb_mem b') = skipn (N.to_nat (bb_size b)) (bb_mem b) /\ bb_inv b'.
Proof.
  intros Hi. pose proof Hi as (Ho & Hu & Hs). unfold bb_rewind.
  destruct (N.eqb_spec (bb_offset b) 0) as [E|E]; cbn zeta.
  - unfold bb_rest. rewrite E. repeat split; auto; lia.
  - rewrite unread_slice_spec by (auto; lia).
    rewrite <- (unread_length b Hi), firstn_all.
    pose proof (unread_length b Hi) as Hl. unfold bb_rest in Hl.
    unfold bb_unread at 1, bb_filled, bb_inv, bb_rest; cbn [bb_mem bb_used bb_offset bb_size].
    repeat split; try lia.
    + cbn [skipn]. rewrite blit_spec by (cbn; lia). cbn [firstn app].
      rewrite firstn_app, Hl. replace (_ - _)%nat with 0%nat by lia.
      cbn [firstn]. rewrite app_nil_r. rewrite <- Hl. apply firstn_all.
    + apply blit_length.
    + apply blit_skipn. lia.
    + rewrite blit_length. exact Hs.
Qed.

Lemma reset_spec b : bb_inv b ->
  let b' := bb_reset b in
  bb_filled b' = [] /\ bb_unread b' = [] /\ bb_mem b' = bb_mem b /\ bb_size b' = bb_size b /\ bb_inv b'.
Proof.
  intros (Ho & Hu & Hs). unfold bb_reset, bb_unread, bb_filled, bb_inv; cbn.
  repeat split; auto; lia.
Qed.

Lemma clear_spec b : bb_inv b ->
  let b' := bb_clear b in
  bb_filled b' = [] /\ bb_unread b' = [] /\ bb_size b' = bb_size b /\
  firstn (N.to_nat (bb_size b)) (bb_mem b') = repeat 0 (N.to_nat (bb_size b)) /\
  length (bb_mem b') = length (bb_mem b) /\
  skipn (N.to_nat (bb_size b)) (bb_mem b') = skipn (N.to_nat (bb_size b)) (bb_mem b) /\ bb_inv b'.
Proof.
  intros (Ho & Hu & Hs). unfold bb_clear, bb_unread, bb_filled, bb_inv; cbn [bb_mem bb_used bb_offset bb_size].
  repeat split; auto; try lia.
  - rewrite blit_spec by (rewrite repeat_length; lia). cbn [firstn app].
    apply firstn_app_exact. rewrite repeat_length. reflexivity.
  - apply blit_length.
  - apply blit_skipn. rewrite repeat_length. lia.
  - rewrite blit_length. exact Hs.
Qed.

Lemma repeat_spec b : bb_inv b ->
  let b' := bb_repeat b in
  bb_unread b' = bb_filled b /\ bb_filled b' = bb_filled b /\ bb_mem b' = bb_mem b /\
  bb_size b' = bb_size b /\ bb_inv b'.
Proof.
  intros (Ho & Hu & Hs). unfold bb_repeat, bb_unread, bb_filled, bb_inv; cbn.
  repeat split; auto; lia.
Qed.

(* ---------- invariant and frame over histories ---------- *)
Definition op_in_arena (arena : nat) (o : bbop) : Prop :=
  match o with
  | OpSet _ size _ _ => size <= N.of_nat arena
  | OpAdd xs n => n <= N.of_nat (length xs) \/ True
  | _ => True
  end.

(* [OpAdd] reads the caller's block only when it accepts: then it must be long enough *)
Definition op_wf (b : bbuf) (o : bbop) : Prop :=
  match o with
  | OpSet _ size _ _ => size <= N.of_nat (length (bb_mem b))
  | OpAdd xs n => n <= bb_avail b -> n <= N.of_nat (length xs)
  | _ => True
  end.

Lemma step_inv b o : bb_inv b -> op_wf b o ->
  let b' := fst (bb_step b o) in
  bb_inv b' /\ length (bb_mem b') = length (bb_mem b).
Proof.
  intros Hi Hw. destruct o as [nn size used offset|xs n|n|n| | | |]; cbn [bb_step op_wf] in *.
  - destruct (bb_set nn (bb_mem b) size used offset) as [b'|] eqn:E; cbn [fst]; [|auto].
    split; [eapply set_inv; eauto|]. apply set_accepts in E. destruct E as (-> & _). reflexivity.
  - destruct (N.le_gt_cases n (bb_avail b)) as [Hn|Hn].
    + destruct (add_accepted b xs n Hi Hn (Hw Hn)) as (b' & -> & _ & _ & _ & _ & Hl & _ & Hi').
      cbn. auto.
    + rewrite add_refused by exact Hn. cbn. auto.
  - destruct (N.le_gt_cases n (bb_rest b)) as [Hn|Hn].
    + destruct (consume_accepted b n Hi Hn) as (b' & -> & _ & Hm & _ & _ & Hi'). cbn. rewrite Hm. auto.
    + rewrite consume_refused by exact Hn. cbn. auto.
  - destruct (N.eq_dec (bb_rest b) 0) as [E|E].
    + rewrite consume_at_most_empty by exact E. cbn. auto.
    + destruct (consume_at_most_some b n Hi E) as (b' & -> & _ & Hm & _ & _ & Hi'). cbn. rewrite Hm. auto.
  - cbn [fst]. destruct (rewind_spec b Hi) as (_ & _ & _ & _ & Hl & _ & Hi'). auto.
  - cbn [fst]. destruct (clear_spec b Hi) as (_ & _ & _ & _ & Hl & _ & Hi'). auto.
  - cbn [fst]. destruct (reset_spec b Hi) as (_ & _ & Hm & _ & Hi'). rewrite Hm. auto.
  - cbn [fst]. destruct (repeat_spec b Hi) as (_ & _ & Hm & _ & Hi'). rewrite Hm. auto.
Qed.

Fixpoint run (b : bbuf) (ops : list bbop) : bbuf :=
  match ops with [] => b | o :: r => run (fst (bb_step b o)) r end.

Fixpoint hist_wf (b : bbuf) (ops : list bbop) : Prop :=
  match ops with [] => True | o :: r => op_wf b o /\ hist_wf (fst (bb_step b o)) r end.

Theorem inv_reachable ops : forall b, bb_inv b -> hist_wf b ops ->
  bb_inv (run b ops) /\ length (bb_mem (run b ops)) = length (bb_mem b).
Proof.
  induction ops as [|o r IH]; intros b Hi Hw; cbn [run]; [auto|].
  destruct Hw as [Hw Hr]. destruct (step_inv b o Hi Hw) as [Hi' Hl].
  destruct (IH _ Hi' Hr) as [H1 H2]. split; [exact H1|]. rewrite H2. exact Hl.
Qed.

(* a refused operation leaves the buffer unchanged *)
Lemma refused_unchanged b o e :
  (snd (bb_step b o) = OutRc (Some e) \/ (exists d, snd (bb_step b o) = OutData (Some e) d)
   \/ (exists d, snd (bb_step b o) = OutCount (Some e) d)) -> fst (bb_step b o) = b.
Proof.
  destruct o as [nn size used offset|xs n|n|n| | | |]; cbn [bb_step].
  - destruct (bb_set _ _ _ _ _); cbn; [|reflexivity].
    intros [H|[[d H]|[d H]]]; discriminate.
  - unfold bb_add. destruct (_ <? _); cbn; [reflexivity|].
    intros [H|[[d H]|[d H]]]; discriminate.
  - unfold bb_consume. destruct (_ <? _); cbn; [reflexivity|].
    intros [H|[[d H]|[d H]]]; discriminate.
  - unfold bb_consume_at_most. destruct (_ =? _); cbn; [reflexivity|].
    intros [H|[[d H]|[d H]]]; discriminate.
  - cbn. intros [H|[[d H]|[d H]]]; discriminate.
  - cbn. intros [H|[[d H]|[d H]]]; discriminate.
  - cbn. intros [H|[[d H]|[d H]]]; discriminate.
  - cbn. intros [H|[[d H]|[d H]]]; discriminate.
Qed.

(* ---------- FIFO over histories of add / consume / consume_at_most / rewind ---------- *)
Definition fifo_op (o : bbop) : bool :=
  match o with OpAdd _ _ | OpConsume _ | OpConsumeAtMost _ | OpRewind => true | _ => false end.

(* octets accepted by / delivered by one step *)
Definition step_in (b : bbuf) (o : bbop) : list N :=
  match o with
  | OpAdd xs n => if bb_avail b <? n then [] else firstn (N.to_nat n) xs
  | _ => []
  end.
Definition step_out (b : bbuf) (o : bbop) : list N :=
  match snd (bb_step b o) with OutData _ d | OutCount _ d => d | _ => [] end.

Fixpoint hist_in (b : bbuf) (ops : list bbop) : list N :=
  match ops with [] => [] | o :: r => step_in b o ++ hist_in (fst (bb_step b o)) r end.
Fixpoint hist_out (b : bbuf) (ops : list bbop) : list N :=
  match ops with [] => [] | o :: r => step_out b o ++ hist_out (fst (bb_step b o)) r end.

Lemma fifo_step b o : bb_inv b -> op_wf b o -> fifo_op o = true ->
  step_out b o ++ bb_unread (fst (bb_step b o)) = bb_unread b ++ step_in b o.
Proof.
  intros Hi Hw Hf. destruct o as [nn size used offset|xs n|n|n| | | |]; try discriminate;
    unfold step_out, step_in; cbn [bb_step op_wf] in *.
  - destruct (N.le_gt_cases n (bb_avail b)) as [Hn|Hn].
    + destruct (add_accepted b xs n Hi Hn (Hw Hn)) as (b' & E & Hfill & Ho & _).
      rewrite E. cbn [fst snd app]. destruct (N.ltb_spec (bb_avail b) n); [lia|].
      unfold bb_unread. rewrite Hfill, Ho.
      destruct Hi as (Hoff & Hu & Hs).
      rewrite skipn_app. f_equal.
      replace (_ - _)%nat with 0%nat; [reflexivity|].
      unfold bb_filled. rewrite firstn_length. lia.
    + rewrite add_refused by exact Hn. cbn [fst snd app].
      destruct (N.ltb_spec (bb_avail b) n); [|lia]. rewrite app_nil_r. reflexivity.
  - destruct (N.le_gt_cases n (bb_rest b)) as [Hn|Hn].
    + destruct (consume_accepted b n Hi Hn) as (b' & -> & Hun & _). cbn [fst snd].
      rewrite Hun, app_nil_r. apply firstn_skipn.
    + rewrite consume_refused by exact Hn. cbn. rewrite app_nil_r. reflexivity.
  - destruct (N.eq_dec (bb_rest b) 0) as [E|E].
    + rewrite consume_at_most_empty by exact E. cbn. rewrite app_nil_r. reflexivity.
    + destruct (consume_at_most_some b n Hi E) as (b' & -> & Hun & _). cbn [fst snd].
      rewrite Hun, app_nil_r. apply firstn_skipn.
  - cbn [fst snd app]. rewrite app_nil_r. apply (rewind_spec b Hi).
Qed.

Theorem fifo_history ops : forall b, bb_inv b -> hist_wf b ops -> forallb fifo_op ops = true ->
  hist_out b ops ++ bb_unread (run b ops) = bb_unread b ++ hist_in b ops.
Proof.
  induction ops as [|o r IH]; intros b Hi Hw Hf; cbn [hist_out hist_in run].
  - rewrite app_nil_r. reflexivity.
  - destruct Hw as [Hw Hr]. cbn [forallb] in Hf. apply andb_prop in Hf as [Hf1 Hf2].
    destruct (step_inv b o Hi Hw) as [Hi' _].
    rewrite <- app_assoc, (IH _ Hi' Hr Hf2), !app_assoc. f_equal.
    apply fifo_step; assumption.
Qed.
