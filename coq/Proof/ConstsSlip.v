(* The SLIP model uses the control octets of src/rfc1055.c (Gen/Consts.v, re-read from the source on every run). *)
From Ufw Require Import Gen.Consts Model.Slip.
Lemma slip_constants : (RAW_EOF, RAW_ESC, ESC_EOF, ESC_ESC) = (c_RAW_EOF, c_RAW_ESC, c_ESC_EOF, c_ESC_ESC).
Proof. reflexivity. Qed.
