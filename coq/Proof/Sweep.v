(* finite sweeps: a boolean predicate checked on 0..n-1 by computation, lifted to a quantified statement *)
From Coq Require Import List NArith Lia Bool.
Local Open Scope N_scope.

Fixpoint all_below (n : nat) (p : N -> bool) : bool :=
  match n with O => true | S n => p (N.of_nat n) && all_below n p end.

Lemma all_below_spec n p : all_below n p = true -> forall x, x < N.of_nat n -> p x = true.
Proof.
  induction n as [|n IH]; intros H x Hx; [lia|].
  cbn [all_below] in H. apply andb_prop in H as [H1 H2].
  destruct (N.eq_dec x (N.of_nat n)) as [->|Hne]; [exact H1|].
  apply IH; [exact H2|lia].
Qed.

Lemma sweep256 (p : N -> bool) : all_below 256 p = true -> forall x, x < 256 -> p x = true.
Proof. intros H x Hx. apply (all_below_spec 256 p H). exact Hx. Qed.

Lemma sweep128 (p : N -> bool) : all_below 128 p = true -> forall x, x < 128 -> p x = true.
Proof. intros H x Hx. apply (all_below_spec 128 p H). exact Hx. Qed.

(* the same with a binary counter (no conversion from unary numbers at every step): p on x, x+1, ..., x+n-1 *)
Fixpoint all_from (n : nat) (x : N) (p : N -> bool) : bool :=
  match n with O => true | S k => p x && all_from k (x + 1) p end.

Lemma all_from_spec n : forall x p, all_from n x p = true -> forall y, x <= y < x + N.of_nat n -> p y = true.
Proof.
  induction n as [|n IH]; intros x p H y Hy; [lia|].
  cbn [all_from] in H. apply andb_prop in H as [H1 H2].
  destruct (N.eq_dec y x) as [->|Hne]; [exact H1|].
  apply (IH (x + 1) p H2). lia.
Qed.
