(* C14: reading a varint from ANY source (octet- or chunk-style driver, any script of EINTR / EAGAIN / hard errors between
   the octets): a reported success consumed exactly the octets of the encoding and delivered the encoded value; an error
   is the driver's. *)
From Ufw Require Import Base.Bits Base.Errno Model.ByteBuffer Model.Endpoints Model.Varint Model.Lenp
  Proof.EndpointsLemmas Proof.EndpointsTotal Proof.LenpLemmas Proof.VarintLemmas Proof.LenpTotal.
From Coq Require Import Lia ZifyN ZifyBool.
Local Open Scope N_scope.

Theorem from_source_any_roundtrip k s n r u c s' :
  n < 2 ^ (match k with KU32 | KS32 => 32 | _ => 64 end) -> s_stream s = vi_encode n ++ r ->
  vi_from_source k s = (SOk u c, s') -> u = n /\ c = vi_length n /\ s_stream s' = r.
Proof.
  intros Hn Hs H. unfold vi_from_source in H.
  destruct (from_source_any _ _ _ _ _ _ _ H) as (cons & P & L & _ & D).
  assert (R : dec_list (N.to_nat (vk_max k)) (vi_encode n ++ r) 0 0 = VOk n (vi_length n)).
  { destruct k; cbn [vk_max]; [apply decode_list_roundtrip32; exact Hn|apply decode_list_roundtrip32; exact Hn|
      apply decode_list_roundtrip; [exact Hn|cbn; lia]|apply decode_list_roundtrip; [exact Hn|cbn; lia]]. }
  rewrite Hs in P. pose proof (D (s_stream s')) as D1. rewrite <- P, R in D1. injection D1 as <- <-.
  rewrite N.sub_0_r, <- encode_length in L. apply Nat2N.inj in L.
  destruct (app_inv_len _ _ _ _ P (eq_sym L)) as [_ E2]. auto.
Qed.

(* the octets consumed by a successful read are a prefix of the stream, one per continuation step *)
Theorem from_source_any_consumed k s u c s' : vi_from_source k s = (SOk u c, s') ->
  exists consumed, s_stream s = consumed ++ s_stream s' /\ N.of_nat (length consumed) = c /\ 1 <= c <= vk_max k.
Proof.
  intros H. unfold vi_from_source in H.
  destruct (from_source_any _ _ _ _ _ _ _ H) as (cons & P & L & Hc & D).
  exists cons. split; [exact P|]. split; [lia|]. split; [lia|].
  pose proof (D []) as D1. rewrite app_nil_r in D1.
  assert (G : forall fuel l i acc u0 c0, dec_list fuel l i acc = VOk u0 c0 -> c0 <= i + N.of_nat fuel).
  { induction fuel as [|f IH]; intros l i acc u0 c0 Hd; [discriminate|]. destruct l as [|d t]; [discriminate|]. cbn [dec_list] in Hd.
    destruct (N.land d 128 =? 0); [injection Hd as _ <-; lia|]. specialize (IH _ _ _ _ _ Hd). lia. }
  specialize (G _ _ _ _ _ _ D1). lia.
Qed.
