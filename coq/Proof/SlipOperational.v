(* C12: the operational SLIP decoder (one call of rfc1055_decode over endpoints) on a plain source and an accepting
   sink is the structural decoder on the octet list - in every decoder state, with and without start-of-frame mode. *)
From Ufw Require Import Base.Bits Base.Errno Model.Endpoints Model.Slip Proof.VarintLemmas Proof.LenpLemmas Proof.SlipLemmas Proof.RegpFraming.
From Coq Require Import Lia Bool.
Local Open Scope N_scope.
Local Open Scope bool_scope.

Definition drc_of (p : pres) : drc := match p with PFrame => DFrame | PIlseq => DFail EILSEQ | PNoData => DFail ENODATA end.

Lemma transition_plain oct inp calls :
  transition (plain_src oct inp calls) =
  match inp with
  | [] => (inl ENODATA, plain_src oct [] (calls + 1))
  | x :: r => (inr (x =? RAW_EOF), plain_src oct r (calls + 1))
  end.
Proof. unfold transition, plain_src. rewrite plain_get_octet. destruct inp; reflexivity. Qed.

Lemma decode_octet_plain_nil oct calls : decode_octet (plain_src oct [] calls) = (OErr ENODATA, plain_src oct [] (calls + 1)).
Proof. unfold decode_octet, plain_src. rewrite plain_get_octet. reflexivity. Qed.
Lemma decode_octet_plain_esc_end oct calls :
  decode_octet (plain_src oct [RAW_ESC] calls) = (OErr ENODATA, plain_src oct [] (calls + 1 + 1)).
Proof. unfold decode_octet, plain_src. rewrite plain_get_octet. change (RAW_ESC =? RAW_ESC) with true. cbv iota. rewrite plain_get_octet. reflexivity. Qed.

Theorem decode_loop_plain : forall fuel sof st oct inp calls got kc, (length inp < fuel)%nat ->
  exists calls' kc',
    decode_loop fuel sof st (plain_src oct inp calls) (plain_snk false got kc) =
    let '(pr, out, rest, st') := pdecode sof st inp got in
    Some (drc_of pr, st', plain_src oct rest calls', plain_snk false out kc').
Proof.
  induction fuel as [|f IH]; intros sof st oct inp calls got kc Hl; [lia|].
  cbn [decode_loop]. destruct st.
  - (* SearchStart *)
    rewrite transition_plain. destruct inp as [|x r]; [cbn [pdecode drc_of]; eauto|].
    cbn [pdecode]. destruct (x =? RAW_EOF).
    + apply IH. cbn in Hl. lia.
    + cbn [drc_of]. eauto.
  - (* SearchEnd *)
    rewrite transition_plain. destruct inp as [|x r]; [cbn [pdecode drc_of]; eauto|].
    cbn [pdecode]. destruct (x =? RAW_EOF).
    + unfold after_frame. apply IH. cbn in Hl. lia.
    + apply IH. cbn in Hl. lia.
  - (* Normal *)
    destruct inp as [|x r].
    { rewrite decode_octet_plain_nil. cbn [pdecode drc_of]. eauto. }
    cbn [pdecode]. destruct (N.eqb_spec x RAW_ESC) as [->|Hesc].
    + destruct r as [|e r'].
      * rewrite decode_octet_plain_esc_end. cbn [drc_of]. eauto.
      * rewrite decode_octet_plain_esc.
        destruct (e =? ESC_EOF); [rewrite put_octet_rc_plain; apply IH; cbn in Hl; lia|].
        destruct (e =? ESC_ESC); [rewrite put_octet_rc_plain; apply IH; cbn in Hl; lia|].
        cbn [drc_of]. unfold after_frame. eauto.
    + destruct (N.eqb_spec x RAW_EOF) as [->|Heof].
      * rewrite decode_octet_plain_end. cbn [drc_of]. unfold after_frame. eauto.
      * rewrite decode_octet_plain_data by assumption. rewrite put_octet_rc_plain. apply IH. cbn in Hl. lia.
Qed.

(* one call of the decoder, as the library runs it *)
Theorem slip_decode_op_plain sof st oct inp calls got kc :
  exists calls' kc',
    slip_decode_op sof st (plain_src oct inp calls) (plain_snk false got kc) =
    let '(pr, out, rest, st') := pdecode sof st inp got in
    Some (drc_of pr, st', plain_src oct rest calls', plain_snk false out kc').
Proof. unfold slip_decode_op. apply decode_loop_plain. cbn [plain_src s_stream s_script length]. lia. Qed.

(* ---------- the operational encoder on plain endpoints is the specification ---------- *)
Lemma encode_octet_op_plain got kc d :
  exists kc', encode_octet_op (plain_snk false got kc) d = Some (None, plain_snk false (got ++ esc_octet d) kc').
Proof.
  unfold encode_octet_op.
  destruct (esc_octet_cases d) as [[-> E]|[[-> E]|(H1 & H2 & E)]].
  - change ((RAW_ESC =? RAW_ESC) || (RAW_ESC =? RAW_EOF)) with true. cbv iota.
    destruct (put_plain false (esc_octet RAW_ESC) 2 got kc) as (kc' & P); [lia|unfold SSIZE_MAX; lia|rewrite E; cbn; lia|].
    rewrite P. rewrite E. cbn [firstn N.to_nat Pos.to_nat Pos.iter_op Nat.add]. eauto.
  - change ((RAW_EOF =? RAW_ESC) || (RAW_EOF =? RAW_EOF)) with true. cbv iota.
    destruct (put_plain false (esc_octet RAW_EOF) 2 got kc) as (kc' & P); [lia|unfold SSIZE_MAX; lia|rewrite E; cbn; lia|].
    rewrite P. rewrite E. cbn [firstn N.to_nat Pos.to_nat Pos.iter_op Nat.add]. eauto.
  - destruct (N.eqb_spec d RAW_ESC); [contradiction|]. destruct (N.eqb_spec d RAW_EOF); [contradiction|]. cbn [orb].
    rewrite put_octet_rc_plain, E. eauto.
Qed.

Lemma encode_loop_plain oct : forall inp fuel calls got kc, (length inp < fuel)%nat ->
  exists calls' kc',
    encode_loop fuel (plain_src oct inp calls) (plain_snk false got kc)
    = Some (None, plain_src oct [] calls', plain_snk false (got ++ flat_map esc_octet inp ++ [RAW_EOF]) kc').
Proof.
  induction inp as [|d r IH]; intros fuel calls got kc Hl; (destruct fuel as [|f]; [cbn in Hl; lia|]); cbn [encode_loop].
  - unfold plain_src at 1. rewrite plain_get_octet. rewrite put_octet_rc_plain. cbn [flat_map app]. exists (calls + 1), (kc + 1). reflexivity.
  - unfold plain_src at 1. rewrite plain_get_octet.
    destruct (encode_octet_op_plain got kc d) as (kc1 & E). rewrite E.
    destruct (IH f (calls + 1) (got ++ esc_octet d) kc1) as (c' & k' & R); [cbn in Hl; lia|].
    unfold plain_src in R at 1. rewrite R. cbn [flat_map]. rewrite <- !app_assoc. eauto.
Qed.

Theorem slip_encode_op_plain sof oct inp calls got kc :
  exists calls' kc',
    slip_encode_op sof (plain_src oct inp calls) (plain_snk false got kc)
    = Some (None, plain_src oct [] calls', plain_snk false (got ++ slip_encode sof inp) kc').
Proof.
  unfold slip_encode_op, slip_encode. destruct sof.
  - rewrite put_octet_rc_plain.
    destruct (encode_loop_plain oct inp (S (length inp + 0 + 1)) calls (got ++ [RAW_EOF]) (kc + 1)) as (c' & k' & R); [lia|].
    cbn [plain_src s_stream s_script length] in *. rewrite R. rewrite <- !app_assoc. eauto.
  - destruct (encode_loop_plain oct inp (S (length inp + 0 + 1)) calls got kc) as (c' & k' & R); [lia|].
    cbn [plain_src s_stream s_script length app] in *. rewrite R. eauto.
Qed.
