(* Deframing on plain endpoints: what the receiver's accept-everything sink collects from a framed octet stream. *)
From Ufw Require Import Base.Bits Base.Errno Model.Crc Model.ByteBuffer Model.Endpoints Model.Varint Model.Slip Model.Lenp Model.Regp
  Proof.ListLemmas Proof.VarintLemmas Proof.SlipLemmas Proof.LenpLemmas.
From Coq Require Import Lia Bool.
Local Open Scope N_scope.

Lemma put_octet_plain got calls x :
  sink_put_octet (plain_snk false got calls) x = (DOk 1, plain_snk false (got ++ [x]) (calls + 1)).
Proof. reflexivity. Qed.

Lemma put_octet_rc_plain got calls x :
  put_octet_rc (plain_snk false got calls) x = (None, plain_snk false (got ++ [x]) (calls + 1)).
Proof. reflexivity. Qed.

Lemma sts_cbc_plain oct x r calls got kc :
  sts_cbc (plain_src oct (x :: r) calls) (plain_snk false got kc)
  = (DOk 1, plain_src oct r (calls + 1), plain_snk false (got ++ [x]) (kc + 1)).
Proof. unfold sts_cbc, plain_src. cbn [s_script get_octet_nz]. rewrite plain_get_octet. reflexivity. Qed.

Lemma sts_cbc_plain_empty oct calls k :
  sts_cbc (plain_src oct [] calls) k = (DErr ENODATA, plain_src oct [] (calls + 1), k).
Proof. unfold sts_cbc, plain_src. cbn [s_script get_octet_nz]. rewrite plain_get_octet. reflexivity. Qed.

(* sts_n moves exactly the first n octets when they are there *)
Lemma sts_n_loop_plain oct : forall payload fuel total r calls got kc,
  (length payload <= fuel)%nat ->
  exists calls' kc',
    sts_n_loop fuel total (N.of_nat (length payload)) (plain_src oct (payload ++ r) calls) (plain_snk false got kc)
    = Some (DOk total, plain_src oct r calls', plain_snk false (got ++ payload) kc').
Proof.
  induction payload as [|x t IH]; intros fuel total r calls got kc Hf.
  - destruct fuel; cbn; rewrite app_nil_r; eauto.
  - destruct fuel as [|f]; [cbn in Hf; lia|].
    cbn [sts_n_loop length]. 
    destruct (N.eqb_spec (N.of_nat (S (length t))) 0) as [E|_]; [lia|].
    cbn [app]. rewrite sts_cbc_plain.
    replace (N.of_nat (S (length t)) - 1) with (N.of_nat (length t)) by lia.
    destruct (IH f total r (calls + 1) (got ++ [x]) (kc + 1)) as (c' & k' & E); [cbn in Hf; lia|].
    rewrite E, <- app_assoc. eauto.
Qed.

Lemma sts_n_plain oct payload r calls got kc :
  exists calls' kc',
    sts_n (plain_src oct (payload ++ r) calls) (plain_snk false got kc) (N.of_nat (length payload))
    = Some (DOk (N.of_nat (length payload)), plain_src oct r calls', plain_snk false (got ++ payload) kc').
Proof.
  unfold sts_n. apply sts_n_loop_plain.
  unfold sts_fuel. cbn [s_stream s_script k_script plain_src plain_snk length].
  rewrite app_length. lia.
Qed.

(* the stream ends inside the announced frame: the channel error, with what arrived *)
Lemma sts_n_loop_short oct : forall payload fuel total n calls got kc,
  (length payload < fuel)%nat -> N.of_nat (length payload) < n ->
  exists calls' kc',
    sts_n_loop fuel total n (plain_src oct payload calls) (plain_snk false got kc)
    = Some (DErr ENODATA, plain_src oct [] calls', plain_snk false (got ++ payload) kc').
Proof.
  induction payload as [|x t IH]; intros fuel total n calls got kc Hf Hn.
  - destruct fuel as [|f]; [cbn in Hf; lia|]. cbn [sts_n_loop].
    destruct (N.eqb_spec n 0) as [E|_]; [cbn in Hn; lia|].
    rewrite sts_cbc_plain_empty, app_nil_r. eauto.
  - destruct fuel as [|f]; [cbn in Hf; lia|]. cbn [sts_n_loop].
    destruct (N.eqb_spec n 0) as [E|_]; [lia|].
    rewrite sts_cbc_plain.
    destruct (IH f total (n - 1) (calls + 1) (got ++ [x]) (kc + 1)) as (c' & k' & E); [cbn in Hf; lia|cbn [length] in Hn; lia|].
    rewrite E, <- app_assoc. eauto.
Qed.

(* ---- TCP: varint length prefix ---- *)
Theorem deframe_tcp p oct raw r calls :
  g_serial p = false -> N.of_nat (length raw) < 2 ^ 64 ->
  exists calls',
    deframe p (plain_src oct (vi_encode (N.of_nat (length raw)) ++ raw ++ r) calls)
    = Some (None, raw, plain_src oct r calls').
Proof.
  intros Hs Hn. unfold deframe. rewrite Hs. unfold lenp_decode_source_to_sink, decode_prefix, vi_from_source.
  set (n := N.of_nat (length raw)) in *.
  pose proof (decode_list_roundtrip n (raw ++ r) 10 Hn ltac:(lia)) as D.
  pose proof (from_source_list 10 oct (vi_encode n ++ raw ++ r) calls 0 0) as F.
  change (N.to_nat (vk_max KU64)) with 10%nat.
  destruct (from_source_state 10 oct _ calls 0 0 _ _ D) as [c' S].
  unfold plain_src in F, S |- *.
  destruct (vi_from_source_loop 10 _ 0 0) as [res s1] eqn:E. cbn [fst snd] in F, S.
  rewrite D in F. cbn [sres_of] in F. subst res s1.
  rewrite N.sub_0_r, <- encode_length, Nat2N.id, skipn_app_len by reflexivity.
  destruct (sts_n_plain oct raw r c' [] 0) as (c2 & k2 & E2).
  unfold plain_src, plain_snk, snk_plain in *. subst n. rewrite E2. cbn. eauto.
Qed.

(* ---- serial: classic SLIP ---- *)
Lemma decode_octet_plain_data oct d r calls : d <> RAW_ESC -> d <> RAW_EOF ->
  decode_octet (plain_src oct (d :: r) calls) = (OData d, plain_src oct r (calls + 1)).
Proof.
  intros H1 H2. unfold decode_octet, plain_src. rewrite plain_get_octet.
  destruct (N.eqb_spec d RAW_ESC); [contradiction|]. destruct (N.eqb_spec d RAW_EOF); [contradiction|]. reflexivity.
Qed.
Lemma decode_octet_plain_end oct r calls :
  decode_octet (plain_src oct (RAW_EOF :: r) calls) = (OEnd, plain_src oct r (calls + 1)).
Proof. unfold decode_octet, plain_src. rewrite plain_get_octet. reflexivity. Qed.
Lemma decode_octet_plain_esc oct x r calls :
  decode_octet (plain_src oct (RAW_ESC :: x :: r) calls)
  = (if x =? ESC_EOF then OData RAW_EOF else if x =? ESC_ESC then OData RAW_ESC else OIlseq x, plain_src oct r (calls + 1 + 1)).
Proof.
  unfold decode_octet, plain_src. rewrite plain_get_octet. cbn [N.eqb RAW_ESC Pos.eqb].
  change (219 =? RAW_ESC) with true. cbv iota. rewrite plain_get_octet.
  destruct (x =? ESC_EOF); [reflexivity|]. destruct (x =? ESC_ESC); reflexivity.
Qed.

Lemma decode_loop_body oct : forall p fuel rest calls got kc,
  (length p < fuel)%nat ->
  exists calls' kc',
    decode_loop fuel false Normal (plain_src oct (flat_map esc_octet p ++ RAW_EOF :: rest) calls) (plain_snk false got kc)
    = Some (DFrame, Normal, plain_src oct rest calls', plain_snk false (got ++ p) kc').
Proof.
  induction p as [|d t IH]; intros fuel rest calls got kc Hf.
  - destruct fuel as [|f]; [cbn in Hf; lia|]. cbn [flat_map app decode_loop].
    rewrite decode_octet_plain_end, app_nil_r. eauto.
  - destruct fuel as [|f]; [cbn in Hf; lia|]. cbn [flat_map decode_loop]. rewrite <- app_assoc.
    destruct (IH f rest) with (got := (got ++ [d])%list) (kc := kc + 1) (calls := calls + 1) as (c1 & k1 & E1); [cbn in Hf; lia|].
    destruct (IH f rest) with (got := (got ++ [d])%list) (kc := kc + 1) (calls := calls + 1 + 1) as (c2 & k2 & E2); [cbn in Hf; lia|].
    destruct (esc_octet_cases d) as [[-> ->]|[[-> ->]|(H1 & H2 & ->)]]; cbn [app].
    + rewrite decode_octet_plain_esc. change (ESC_ESC =? ESC_EOF) with false. change (ESC_ESC =? ESC_ESC) with true. cbv iota.
      rewrite put_octet_rc_plain, E2, <- app_assoc. eauto.
    + rewrite decode_octet_plain_esc. change (ESC_EOF =? ESC_EOF) with true. cbv iota.
      rewrite put_octet_rc_plain, E2, <- app_assoc. eauto.
    + rewrite decode_octet_plain_data by assumption.
      rewrite put_octet_rc_plain, E1, <- app_assoc. eauto.
Qed.

Theorem deframe_serial p oct raw r calls :
  g_serial p = true ->
  exists calls',
    deframe p (plain_src oct (slip_encode false raw ++ r) calls) = Some (None, raw, plain_src oct r calls').
Proof.
  intros Hs. unfold deframe. rewrite Hs. unfold slip_decode_op, slip_encode. cbn [app].
  rewrite <- app_assoc. cbn [app].
  destruct (decode_loop_body oct raw (S (length (flat_map esc_octet raw ++ RAW_EOF :: r) + 0 + 1)) r calls [] 0) as (c' & k' & E).
  { rewrite app_length. pose proof (body_length raw). lia. }
  unfold plain_src, plain_snk, snk_plain in *. cbn [s_stream s_script length].
  rewrite E. cbn. eauto.
Qed.

(* the two transports at once *)
Theorem deframe_frame_wire p oct hdr pl r calls : N.of_nat (length (hdr ++ pl)) < 2 ^ 64 ->
  exists calls', deframe p (plain_src oct (frame_wire p hdr pl ++ r) calls) = Some (None, (hdr ++ pl)%list, plain_src oct r calls').
Proof.
  intros Hn. unfold frame_wire. destruct (g_serial p) eqn:Hs.
  - apply deframe_serial; exact Hs.
  - rewrite <- app_assoc. apply deframe_tcp; assumption.
Qed.

(* the length-prefix decoder that forwards to a sink (C13): the framed octets, exactly, reach the sink *)
Theorem lenp_d2s_var oct payload r calls got kc : N.of_nat (length payload) < 2 ^ 64 ->
  exists calls' kc',
    lenp_decode_source_to_sink LVar (plain_src oct (vi_encode (N.of_nat (length payload)) ++ payload ++ r) calls) (plain_snk false got kc)
    = Some (DOk (N.of_nat (length payload)), plain_src oct r calls', plain_snk false (got ++ payload) kc').
Proof.
  intros Hn. unfold lenp_decode_source_to_sink, decode_prefix, vi_from_source.
  set (n := N.of_nat (length payload)) in *.
  pose proof (decode_list_roundtrip n (payload ++ r) 10 Hn ltac:(lia)) as D.
  pose proof (from_source_list 10 oct (vi_encode n ++ payload ++ r) calls 0 0) as F.
  change (N.to_nat (vk_max KU64)) with 10%nat.
  destruct (from_source_state 10 oct _ calls 0 0 _ _ D) as [c' S].
  unfold plain_src in F, S |- *.
  destruct (vi_from_source_loop 10 _ 0 0) as [res s1] eqn:E. cbn [fst snd] in F, S.
  rewrite D in F. cbn [sres_of] in F. subst res s1.
  rewrite N.sub_0_r, <- encode_length, Nat2N.id, skipn_app_len by reflexivity.
  destruct (sts_n_plain oct payload r c' got kc) as (c2 & k2 & E2).
  unfold plain_src, plain_snk in *. subst n. rewrite E2. eauto.
Qed.
