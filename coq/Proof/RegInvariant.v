(* C05: the constraints of all registers are an invariant of every history of checked typed operations. *)
From Ufw Require Import Base.Bits Model.RegTable Proof.ListLemmas Proof.CexprLemmas Proof.PersistLemmas Proof.RegLemmas Proof.RegInitLemmas Proof.RegpLemmas.
From Coq Require Import Lia Bool ZifyN ZifyBool ZifyNat.
Local Open Scope N_scope.
Local Open Scope bool_scope.

(* ---- lists ---- *)
Lemma slice_blit_before {A} (l xs : list A) i off n : (off + n <= i)%nat -> slice (blit l i xs) off n = slice l off n.
Proof.
  intros H. unfold slice.
  assert (E : forall m : list A, firstn n (skipn off m) = skipn off (firstn (off + n) m)).
  { clear. induction off as [|o IH]; intros m; [reflexivity|]. destruct m as [|x m].
    - cbn [skipn]. rewrite !firstn_nil. reflexivity.
    - cbn [Nat.add firstn skipn]. apply IH. }
  rewrite !E. rewrite blit_firstn by lia. reflexivity.
Qed.
Lemma slice_blit_after {A} (l xs : list A) i off n : (i + length xs <= off)%nat -> slice (blit l i xs) off n = slice l off n.
Proof. intros H. unfold slice. rewrite blit_skipn by lia. reflexivity. Qed.

(* ---- chains keep everything behind an element behind its end ---- *)
Lemma chain_all {A} (start len : A -> N) : forall r prev, chain start len prev r ->
  Forall (fun x => start prev + len prev <= start x) r.
Proof.
  induction r as [|a r IH]; intros prev H; [constructor|]. destruct H as [H1 H2].
  constructor; [exact H1|]. specialize (IH a H2). rewrite Forall_forall in *. intros x Hx. specialize (IH x Hx). lia.
Qed.

Definition ranges_meet (e e' : entry) : Prop :=
  e_addr e < e_addr e' + tsize (e_type e') /\ e_addr e' < e_addr e + tsize (e_type e).

Lemma chain_distinct : forall es e0, chain e_addr (fun e => tsize (e_type e)) e0 es ->
  forall e e', In e (e0 :: es) -> In e' (e0 :: es) -> ranges_meet e e' -> e = e'.
Proof.
  induction es as [|a es IH]; intros e0 Hc e e' He He' Hm.
  - destruct He as [<-|[]], He' as [<-|[]]. reflexivity.
  - pose proof (chain_all _ _ _ _ Hc) as Hall. rewrite Forall_forall in Hall.
    destruct Hc as [Hc1 Hc2]. destruct Hm as [M1 M2].
    destruct He as [<-|He], He' as [<-|He']; [reflexivity| | |apply (IH a Hc2 e e' He He'); split; assumption].
    + specialize (Hall _ He'). lia.
    + specialize (Hall _ He). lia.
Qed.

(* ---- placement ---- *)
Definition placed (t : table) (e : entry) : Prop :=
  exists i a, entry_area t e = Some (i, a) /\ e_addr e + tsize (e_type e) <= a_base a + a_size a /\
              N.of_nat (length (a_words a)) = a_size a.

Lemma tsize_pos ty : 0 < tsize ty.
Proof. destruct ty; reflexivity. Qed.

Lemma entry_words_placed t e i a : entry_area t e = Some (i, a) -> e_addr e + tsize (e_type e) <= a_base a + a_size a ->
  entry_words t e = Some (area_read a (e_addr e - a_base a) (tsize (e_type e))).
Proof.
  intros Ha Hf. unfold entry_words. rewrite (read_words_in_area t _ _ i a); [reflexivity|exact Ha|apply tsize_pos|exact Hf|unfold area_fuel; lia].
Qed.

Lemma find_area_upd_other areas : forall addr k j aj i' a' a0,
  find_area areas addr k = Some (j, aj) -> nth_error areas i' = Some a0 -> (j - k)%nat <> i' ->
  a_base a' = a_base a0 -> a_size a' = a_size a0 ->
  find_area (upd areas i' a') addr k = Some (j, aj).
Proof.
  induction areas as [|x r IH]; intros addr k j aj i' a' a0 H Hn Hne Hb Hs; cbn [find_area] in H; [discriminate|].
  destruct i' as [|i'].
  - cbn in Hn. injection Hn as ->. cbn [upd find_area].
    destruct (addr_in_area a0 addr) eqn:E.
    + injection H as <- <-. rewrite Nat.sub_diag in Hne. contradiction.
    + unfold addr_in_area in *. rewrite Hb, Hs, E. exact H.
  - cbn in Hn. cbn [upd find_area]. destruct (addr_in_area x addr) eqn:E; [exact H|].
    pose proof (find_area_props _ _ _ _ _ H) as (_ & Hk & _).
    apply IH with (a0 := a0); try assumption. lia.
Qed.

(* ---- a successful (checked) set, spelled out ---- *)
Lemma setx_success_form t idx v c r t' : reg_setx t idx v c = (r, t') -> fst r = ASuccess ->
  exists e i a, t_init t = true /\ entry_at t idx = Some e /\ entry_area t e = Some (i, a) /\
    (c = true -> validate (t_during t) e v = true) /\ ser_ok v = true /\
    t' = set_area t i (area_write a (e_addr e - a_base a) (ser_words (t_be t) (e_type e) (v_bits v))).
Proof.
  unfold reg_setx. intros H Hs.
  destruct (t_init t) eqn:Ei; cbn [negb] in H; [|injection H as <- _; discriminate].
  destruct (entry_at t idx) as [e|] eqn:Ee; [|injection H as <- _; discriminate].
  destruct (c && negb (validate (t_during t) e v)) eqn:Ev; [injection H as <- _; discriminate|].
  destruct (entry_area t e) as [[i a]|] eqn:Ea; [|injection H as <- _; discriminate].
  destruct (negb (area_can_write a)); [injection H as <- _; discriminate|].
  destruct (ser_ok v) eqn:Eo; cbn [negb] in H; [|injection H as <- _; discriminate].
  injection H as _ <-. exists e, i, a.
  split; [reflexivity|]. split; [reflexivity|]. split; [exact Ea|]. split; [|split; reflexivity].
  intros ->. cbn [andb] in Ev. apply negb_false_iff in Ev. exact Ev.
Qed.

Lemma acode_eq_dec (a b : acode) : {a = b} + {a <> b}.
Proof. decide equality. Qed.
Lemma classic_meet e e' : ranges_meet e e' \/ ~ ranges_meet e e'.
Proof.
  unfold ranges_meet.
  destruct (N.lt_ge_cases (e_addr e) (e_addr e' + tsize (e_type e'))), (N.lt_ge_cases (e_addr e') (e_addr e + tsize (e_type e)));
    [left; auto|right; lia|right; lia|right; lia].
Qed.

(* the words of a register that does not meet the written one are untouched *)
Lemma entry_words_frame t e i a ws e' :
  entry_area t e = Some (i, a) -> e_addr e + N.of_nat (length ws) <= a_base a + a_size a ->
  N.of_nat (length (a_words a)) = a_size a -> N.of_nat (length ws) = tsize (e_type e) ->
  placed t e' -> ~ ranges_meet e e' ->
  let t' := set_area t i (area_write a (e_addr e - a_base a) ws) in
  placed t' e' /\ entry_words t' e' = entry_words t e'.
Proof.
  intros Ha Hfit Hlen Hws (j & aj & Hj & Hfj & Hlj) Hnm t'.
  unfold entry_area in *.
  destruct (find_area_props _ _ _ _ _ Ha) as (Hin & _ & Hn). rewrite Nat.sub_0_r in Hn.
  destruct (find_area_props _ _ _ _ _ Hj) as (Hinj & _ & Hnj). rewrite Nat.sub_0_r in Hnj.
  unfold addr_in_area in Hin, Hinj. apply andb_prop in Hin as [I1 I2]. apply andb_prop in Hinj as [J1 J2].
  apply N.leb_le in I1, J1. apply N.ltb_lt in I2, J2.
  set (a' := area_write a (e_addr e - a_base a) ws) in *.
  destruct (Nat.eq_dec j i) as [->|Hne].
  - (* same area *)
    assert (aj = a) by congruence. subst aj.
    assert (Hf' : find_area (t_areas t') (e_addr e') 0 = Some (i, a')).
    { unfold t', set_area; cbn [t_areas]. rewrite <- (Nat.sub_0_r i) at 1. apply find_area_upd with (a := a); [exact Hj|reflexivity|reflexivity]. }
    split.
    + exists i, a'. split; [exact Hf'|]. split; [exact Hfj|]. unfold a', area_write, area_with_words; cbn [a_words a_size]. rewrite blit_length. exact Hlen.
    + rewrite (entry_words_placed t' e' i a' Hf' Hfj), (entry_words_placed t e' i a Hj Hfj).
      f_equal. unfold area_read, a', area_write, area_with_words; cbn [a_words a_base].
      unfold ranges_meet in Hnm.
      destruct (N.le_gt_cases (e_addr e' + tsize (e_type e')) (e_addr e)) as [Hb|Hb].
      * apply slice_blit_before. lia.
      * apply slice_blit_after. lia.
  - (* another area *)
    assert (Hf' : find_area (t_areas t') (e_addr e') 0 = Some (j, aj)).
    { unfold t', set_area; cbn [t_areas]. apply find_area_upd_other with (a0 := a); try assumption; try reflexivity. lia. }
    split.
    + exists j, aj. auto.
    + rewrite (entry_words_placed t' e' j aj Hf' Hfj), (entry_words_placed t e' j aj Hj Hfj). reflexivity.
Qed.

Lemma Forall_upd {A} (P : A -> Prop) (l : list A) i x : Forall P l -> P x -> Forall P (upd l i x).
Proof.
  revert i. induction l as [|y r IH]; intros i Hl Hx; destruct i; cbn; try assumption; inversion Hl; subst; constructor; auto.
Qed.
Lemma Forall_blit {A} (P : A -> Prop) (xs : list A) : forall l i, Forall P l -> Forall P xs -> Forall P (blit l i xs).
Proof.
  induction xs as [|x xs IH]; intros l i Hl Hx; cbn [blit]; [exact Hl|].
  inversion Hx; subst. apply IH; [apply Forall_upd; assumption|assumption].
Qed.
Lemma words_of_bytes_16 l : Forall (fun b => b < 256) l -> Forall (fun w => w < 65536) (words_of_bytes l).
Proof.
  revert l. fix IH 1. intros [|a [|b r]] H; cbn [words_of_bytes]; try constructor.
  - inversion H as [|? ? Ha H1]; subst. inversion H1 as [|? ? Hb H2]; subst. lia.
  - inversion H as [|? ? Ha H1]; subst. inversion H1 as [|? ? Hb H2]; subst. apply IH. exact H2.
Qed.
Lemma ser_words_16 be ty bits : Forall (fun w => w < 65536) (ser_words be ty bits).
Proof. unfold ser_words. apply words_of_bytes_16. destruct be; [apply be_bytes_octets|apply le_bytes_octets]. Qed.

(* ---- the invariant ---- *)
Definition satisfied (t : table) (e : entry) : Prop :=
  forall ws, entry_words t e = Some ws ->
    ser_ok {| v_type := e_type e; v_bits := des_bits (t_be t) (e_type e) ws |} = true ->
    validate false e {| v_type := e_type e; v_bits := des_bits (t_be t) (e_type e) ws |} = true.

Record Inv (t : table) : Prop := {
  inv_init : t_init t = true;
  inv_during : t_during t = false;
  inv_chain : entries_ordered t;
  inv_placed : Forall (placed t) (t_entries t);
  inv_words : Forall (fun a => Forall (fun w => w < 65536) (a_words a)) (t_areas t);
  inv_sat : Forall (satisfied t) (t_entries t) }.

Lemma entry_at_in t idx e : entry_at t idx = Some e -> In e (t_entries t).
Proof. unfold entry_at. destruct (_ <? _); [|discriminate]. apply nth_error_In. Qed.

Lemma validate_type d e v : validate d e v = true -> v_type v = e_type e.
Proof.
  unfold validate. destruct (rtype_eqb (e_type e) (v_type v)) eqn:E; [|discriminate]. intros _.
  destruct (e_type e), (v_type v); try discriminate; reflexivity.
Qed.

Theorem checked_set_preserves t idx v r t' : Inv t -> v_bits v < 2 ^ tbits (v_type v) ->
  reg_setx t idx v true = (r, t') -> Inv t'.
Proof.
  intros [Hi Hd Hc Hp Hw16 Hs] Hbits H.
  destruct (acode_eq_dec (fst r) ASuccess) as [Hr|Hr].
  2:{ rewrite (setx_refused_unchanged _ _ _ _ _ _ H Hr). constructor; assumption. }
  destruct (setx_success_form _ _ _ _ _ _ H Hr) as (e & i & a & _ & He & Ha & Hv & Hok & ->).
  specialize (Hv eq_refl). rewrite Hd in Hv.
  pose proof (validate_type _ _ _ Hv) as Hty.
  pose proof (entry_at_in _ _ _ He) as Hin.
  rewrite Forall_forall in Hp, Hs.
  destruct (Hp e Hin) as (i0 & a0 & Ha0 & Hfit & Hlen). rewrite Ha in Ha0. injection Ha0 as <- <-.
  set (ws := ser_words (t_be t) (e_type e) (v_bits v)).
  assert (Hws : N.of_nat (length ws) = tsize (e_type e)) by apply ser_words_length.
  set (t' := set_area t i (area_write a (e_addr e - a_base a) ws)).
  assert (Hent : t_entries t' = t_entries t) by reflexivity.
  (* the written register *)
  assert (Hself : placed t' e /\ entry_words t' e = Some ws).
  { unfold entry_area in Ha. destruct (find_area_props _ _ _ _ _ Ha) as (Hina & _ & Hn). rewrite Nat.sub_0_r in Hn.
    unfold addr_in_area in Hina. apply andb_prop in Hina as [I1 I2]. apply N.leb_le in I1. apply N.ltb_lt in I2.
    assert (Hf' : find_area (t_areas t') (e_addr e) 0 = Some (i, area_write a (e_addr e - a_base a) ws)).
    { unfold t', set_area; cbn [t_areas]. rewrite <- (Nat.sub_0_r i) at 1. apply find_area_upd with (a := a); [exact Ha|reflexivity|reflexivity]. }
    split.
    - exists i, (area_write a (e_addr e - a_base a) ws). split; [exact Hf'|]. split; [exact Hfit|].
      unfold area_write, area_with_words; cbn [a_words a_size]. rewrite blit_length. exact Hlen.
    - rewrite (entry_words_placed t' e i _ Hf' Hfit). f_equal.
      unfold area_read, area_write, area_with_words; cbn [a_words a_base].
      replace (N.to_nat (tsize (e_type e))) with (length ws) by lia. apply slice_blit_same. lia. }
  constructor; try assumption.
  - rewrite Hent. apply Forall_forall. intros e' Hin'.
    destruct (classic_meet e e') as [Hm|Hm].
    + assert (e = e').
      { unfold entries_ordered in Hc. destruct (t_entries t) as [|e0 er]; [destruct Hin|]. apply (chain_distinct er e0 Hc); assumption. }
      subst e'. apply Hself.
    + apply (entry_words_frame t e i a ws e'); try assumption; [lia|apply Hp; exact Hin'].
  - (* words stay 16-bit *)
    unfold t', set_area; cbn [t_areas]. apply Forall_upd; [exact Hw16|].
    unfold area_write, area_with_words; cbn [a_words]. apply Forall_blit.
    + unfold entry_area in Ha. destruct (find_area_props _ _ _ _ _ Ha) as (_ & _ & Hn). rewrite Nat.sub_0_r in Hn.
      rewrite Forall_forall in Hw16. apply Hw16. apply (nth_error_In _ _ Hn).
    + apply ser_words_16.
  - rewrite Hent. apply Forall_forall. intros e' Hin'.
    destruct (classic_meet e e') as [Hm|Hm].
    + assert (e = e').
      { unfold entries_ordered in Hc. destruct (t_entries t) as [|e0 er]; [destruct Hin|]. apply (chain_distinct er e0 Hc); assumption. }
      subst e'. intros ws' Hw' Hok'. destruct Hself as [_ Hw]. rewrite Hw in Hw'. injection Hw' as <-.
      change (t_be t') with (t_be t) in *. unfold ws in *. rewrite ser_des_roundtrip in * by (rewrite <- Hty; exact Hbits).
      replace {| v_type := e_type e; v_bits := v_bits v |} with v by (destruct v; cbn in *; subst; reflexivity). exact Hv.
    + destruct (entry_words_frame t e i a ws e') as [_ Hw]; try assumption; [lia|apply Hp; exact Hin'|].
      intros ws' Hw' Hok'. fold t' in Hw. rewrite Hw in Hw'. change (t_be t') with (t_be t) in *. apply (Hs e' Hin' ws' Hw' Hok').
Qed.

(* ---- bit operations ---- *)
Lemma In_skipn_firstn {A} (l : list A) i n x : In x (firstn n (skipn i l)) -> In x l.
Proof.
  intros H. rewrite <- (firstn_skipn i l). apply in_or_app. right.
  rewrite <- (firstn_skipn n (skipn i l)). apply in_or_app. left. exact H.
Qed.
Lemma ldiff_fits n a b : fitsN n a -> fitsN n (N.ldiff a b).
Proof.
  intros H. replace (N.ldiff a b) with (N.land a (N.ldiff a b)); [apply fitsN_land_l; exact H|].
  apply N.bits_inj. intros k. rewrite N.land_spec, N.ldiff_spec. destruct (N.testbit a k), (N.testbit b k); reflexivity.
Qed.
Lemma bytes_of_words_octets ws : Forall (fun w => w < 65536) ws -> octets (bytes_of_words ws) /\ length (bytes_of_words ws) = (2 * length ws)%nat.
Proof.
  induction ws as [|w r IH]; intros H; [split; [constructor|reflexivity]|].
  inversion H as [|? ? Hw Hr]; subst. destruct (IH Hr) as [I1 I2]. cbn [bytes_of_words length]. split.
  - constructor; [apply N.mod_lt; discriminate|]. constructor; [apply N.div_lt_upper_bound; [discriminate|exact Hw]|exact I1].
  - rewrite I2. lia.
Qed.

Lemma des_bits_lt be ty ws : Forall (fun w => w < 65536) ws -> N.of_nat (length ws) = tsize ty -> des_bits be ty ws < 2 ^ tbits ty.
Proof.
  intros Hw Hl. destruct (bytes_of_words_octets ws Hw) as [Ho Hlen]. unfold des_bits, tbits.
  assert (E : 2 ^ (16 * tsize ty) = 256 ^ N.of_nat (length (bytes_of_words ws))).
  { rewrite Hlen. replace (N.of_nat (2 * length ws)) with (2 * tsize ty) by lia.
    change 256 with (2 ^ 8). rewrite <- N.pow_mul_r. f_equal. lia. }
  rewrite E. destruct be; [apply of_be_lt|apply of_le_lt]; exact Ho.
Qed.

Lemma entry_words_16 t e : Inv t -> In e (t_entries t) -> forall ws, entry_words t e = Some ws ->
  Forall (fun w => w < 65536) ws /\ N.of_nat (length ws) = tsize (e_type e).
Proof.
  intros [_ _ _ Hp Hw16 _] Hin ws Hw. rewrite Forall_forall in Hp. destruct (Hp e Hin) as (i & a & Ha & Hfit & Hlen).
  rewrite (entry_words_placed t e i a Ha Hfit) in Hw. injection Hw as <-.
  unfold entry_area in Ha. destruct (find_area_props _ _ _ _ _ Ha) as (Hina & _ & Hn). rewrite Nat.sub_0_r in Hn.
  unfold addr_in_area in Hina. apply andb_prop in Hina as [I1 I2]. apply N.leb_le in I1. apply N.ltb_lt in I2.
  rewrite Forall_forall in Hw16. pose proof (Hw16 a (nth_error_In _ _ Hn)) as Ha16.
  unfold area_read, slice. split.
  - apply Forall_forall. intros w Hin'. rewrite Forall_forall in Ha16. apply Ha16.
    apply (In_skipn_firstn _ _ _ _ Hin').
  - rewrite firstn_length, skipn_length. lia.
Qed.

Theorem bitop_preserves clear t idx v r t' : Inv t -> v_bits v < 2 ^ tbits (v_type v) ->
  reg_bitop clear t idx v = (r, t') -> Inv t'.
Proof.
  intros HI Hbits H. unfold reg_bitop in H.
  destruct (reg_get t idx) as [[c x] o] eqn:G.
  destruct c; try (injection H as _ <-; exact HI).
  destruct o as [cur|]; [|injection H as _ <-; exact HI].
  destruct (negb (rtype_eqb (v_type cur) (v_type v)) || negb (is_unsigned (v_type cur))) eqn:Ety; [injection H as _ <-; exact HI|].
  apply orb_false_iff in Ety as [Ety _]. apply negb_false_iff in Ety.
  assert (Hty : v_type cur = v_type v) by (destruct (v_type cur), (v_type v); try discriminate; reflexivity).
  (* the current value is a 16*size-bit pattern *)
  assert (Hcur : v_bits cur < 2 ^ tbits (v_type cur)).
  { unfold reg_get in G. destruct (negb (t_init t)); [discriminate|].
    destruct (entry_at t idx) as [e|] eqn:Ee; [|discriminate].
    destruct (entry_words t e) as [ws|] eqn:Ew; [|discriminate].
    destruct (ser_ok _); [|discriminate]. injection G as _ <-. cbn [v_type v_bits].
    destruct (entry_words_16 t e HI (entry_at_in _ _ _ Ee) ws Ew) as [W1 W2]. apply des_bits_lt; assumption. }
  refine (checked_set_preserves t idx _ r t' HI _ H). cbn [v_type v_bits].
  destruct clear.
  - apply (ldiff_fits (tbits (v_type cur))). exact Hcur.
  - apply (fitsN_lor (tbits (v_type cur))); [exact Hcur|rewrite Hty; exact Hbits].
Qed.

(* ---- histories of checked typed operations ---- *)
Inductive cop := OpSet (idx : N) (v : rvalue) | OpBitSet (idx : N) (v : rvalue) | OpBitClear (idx : N) (v : rvalue).
Definition cop_value (op : cop) : rvalue := match op with OpSet _ v | OpBitSet _ v | OpBitClear _ v => v end.
Definition run_cop (t : table) (op : cop) : table :=
  match op with
  | OpSet i v => snd (reg_setx t i v true)
  | OpBitSet i v => snd (reg_bitop false t i v)
  | OpBitClear i v => snd (reg_bitop true t i v)
  end.
Definition typed (v : rvalue) : Prop := v_bits v < 2 ^ tbits (v_type v).

Theorem history_invariant ops : forall t, Inv t -> Forall (fun op => typed (cop_value op)) ops -> Inv (fold_left run_cop ops t).
Proof.
  induction ops as [|op ops IH]; intros t HI Hall; [exact HI|].
  inversion Hall as [|? ? Hop Hrest]; subst. cbn [fold_left]. apply IH; [|exact Hrest].
  destruct op as [i v|i v|i v]; cbn [run_cop cop_value] in *.
  - destruct (reg_setx t i v true) as [r t'] eqn:E. exact (checked_set_preserves t i v r t' HI Hop E).
  - destruct (reg_bitop false t i v) as [r t'] eqn:E. exact (bitop_preserves false t i v r t' HI Hop E).
  - destruct (reg_bitop true t i v) as [r t'] eqn:E. exact (bitop_preserves true t i v r t' HI Hop E).
Qed.

(* what the invariant means to a reader of the table: every value a get delivers satisfies its register's constraint *)
Theorem inv_get t idx e v : Inv t -> entry_at t idx = Some e -> reg_get t idx = ((ASuccess, 0), Some v) ->
  validate false e v = true.
Proof.
  intros [Hi _ _ _ _ Hs] He G. unfold reg_get in G. rewrite Hi, He in G. cbn [negb] in G.
  destruct (entry_words t e) as [ws|] eqn:Ew; [|discriminate].
  destruct (ser_ok _) eqn:Eo; [|discriminate]. injection G as <-.
  rewrite Forall_forall in Hs. apply (Hs e (entry_at_in _ _ _ He) ws Ew Eo).
Qed.

Corollary history_get ops t idx e v : Inv t -> Forall (fun op => typed (cop_value op)) ops ->
  entry_at (fold_left run_cop ops t) idx = Some e ->
  reg_get (fold_left run_cop ops t) idx = ((ASuccess, 0), Some v) -> validate false e v = true.
Proof. intros HI Hall. apply inv_get. apply history_invariant; assumption. Qed.
