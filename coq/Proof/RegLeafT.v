(* Translator tie for the address predicates of src/registers/core.c (Gen/RegLeafGen.v is regenerated from the source on every
   check): what the C code decides in 32-bit arithmetic is what the model decides over unbounded numbers, for EVERY area and
   register that lies inside the 32-bit address space - including those that reach its last address (base + size = 2^32), where the
   end address is not representable.  The pre-repair forms (end addresses computed in 32 bits) are refuted at the end. *)
From Coq Require Import ZArith NArith Lia String List Bool ZifyBool ZifyN.
From Ufw Require Import Base.Bits Base.Cexpr Model.RegTable Gen.RegLeafGen.
Local Open Scope Z_scope.

Definition two32 : Z := 4294967296.

Lemma sub_mod32 a b : 0 <= a < two32 -> 0 <= b < two32 ->
  (a - b) mod 2 ^ 32 = if b <=? a then a - b else a - b + two32.
Proof.
  unfold two32. intros Ha Hb. change (2 ^ 32) with 4294967296.
  destruct (Z.leb_spec b a).
  - apply Z.mod_small. lia.
  - symmetry. apply (Z.mod_unique _ _ (-1)); lia.
Qed.

Lemma small32 a : 0 <= a < two32 -> a mod 2 ^ 32 = a.
Proof. unfold two32. intros. change (2 ^ 32) with 4294967296. apply Z.mod_small. lia. Qed.

Lemma s32_small a : -2147483648 <= a < 2147483648 -> (a + 2 ^ (32 - 1)) mod 2 ^ 32 - 2 ^ (32 - 1) = a.
Proof. intros. change (2 ^ (32 - 1)) with 2147483648. change (2 ^ 32) with 4294967296. rewrite Z.mod_small; lia. Qed.

Lemma s32_b2z (c : bool) : ((if c then 1 else 0) + 2 ^ (32 - 1)) mod 2 ^ 32 - 2 ^ (32 - 1) = if c then 1 else 0.
Proof. destruct c; reflexivity. Qed.
Lemma b2z_eq0 (c : bool) : ((if c then 1 else 0) =? 0) = negb c.
Proof. destruct c; reflexivity. Qed.
Lemma b2z_and (c d : bool) : (negb ((if c then 1 else 0) =? 0) && negb ((if d then 1 else 0) =? 0))%bool = (c && d)%bool.
Proof. destruct c, d; reflexivity. Qed.

Lemma neg1_s32 : (- (1) + 2 ^ (32 - 1)) mod 2 ^ 32 - 2 ^ (32 - 1) = -1.
Proof. reflexivity. Qed.

Ltac cases := repeat (match goal with
  | |- context [Z.leb ?a ?b] => destruct (Z.leb_spec a b)
  | |- context [Z.ltb ?a ?b] => destruct (Z.ltb_spec a b)
  end; cbn [negb andb orb]).

Section Leaf.
  Variable env : string -> Z.
  Variable tabs : string -> list Z.
  Variables (base size addr n eaddr ety tsz : Z).
  Hypothesis Ebase : env "a.base"%string = base.
  Hypothesis Esize : env "a.size"%string = size.
  Hypothesis Eaddr : env "addr"%string = addr.
  Hypothesis En : env "n"%string = n.
  Hypothesis Eeaddr : env "e.address"%string = eaddr.
  Hypothesis Eety : env "e.type"%string = ety.
  Hypothesis Etab : nth (Z.to_nat ety) (tabs "rds_size"%string) 0 = tsz.

  Ltac start := cbn [eval]; rewrite ?Ebase, ?Esize, ?Eaddr, ?En, ?Eeaddr, ?Eety, ?Etab;
                unfold norm, eval_bin, eval_un, b2z;
                repeat (rewrite s32_b2z || rewrite b2z_and || rewrite b2z_eq0);
                rewrite ?Z.gtb_ltb, ?Z.geb_leb, ?neg1_s32.
  (* 32-bit differences and conversions of in-range values, whatever operands the source uses *)
  Ltac mods := repeat (rewrite sub_mod32 by (unfold two32 in *; lia) || rewrite small32 by (unfold two32 in *; lia)).

  (* ra_addr_is_part_of: membership of an address in an area *)
  Theorem ra_addr_is_part_of_ok :
    0 <= base < two32 -> 0 <= size -> base + size <= two32 -> 0 <= addr < two32 ->
    eval env tabs c_ra_addr_is_part_of = b2z ((base <=? addr) && (addr <? base + size)).
  Proof.
    intros Hb Hs Hbs Ha. unfold c_ra_addr_is_part_of. start.
    mods. unfold two32 in *. unfold b2z. cases; try reflexivity; try lia.
  Qed.

  (* ra_range_touches: where an area lies relative to a request window (-1 below, 0 touching, 1 above) *)
  Theorem ra_range_touches_ok :
    0 <= base < two32 -> 0 <= size -> base + size <= two32 -> 0 <= addr < two32 -> 0 <= n -> addr + n <= two32 ->
    eval env tabs c_ra_range_touches =
      if base + size <=? addr then -1 else if addr + n <=? base then 1 else 0.
  Proof.
    intros Hb Hs Hbs Ha Hn Han. unfold c_ra_range_touches. start.
    mods. unfold two32 in *. cases; try reflexivity; try lia.
  Qed.

  (* reg_range_touches: the same for a register of tsz words *)
  Theorem reg_range_touches_ok :
    0 <= eaddr < two32 -> 0 <= tsz < two32 -> eaddr + tsz <= two32 -> 0 <= addr < two32 -> 0 <= n -> addr + n <= two32 ->
    eval env tabs c_reg_range_touches =
      if eaddr + tsz <=? addr then -1 else if addr + n <=? eaddr then 1 else 0.
  Proof.
    intros Hb Hs Hbs Ha Hn Han. unfold c_reg_range_touches. start.
    mods. unfold two32 in *. cases; try reflexivity; try lia.
  Qed.

  (* ra_reg_fits_into, called for a register whose address lies in the area: the whole register lies in the area *)
  Theorem ra_reg_fits_into_ok :
    0 <= base < two32 -> 0 <= size < two32 -> base + size <= two32 -> base <= eaddr < base + size -> 0 <= tsz < two32 ->
    eval env tabs c_ra_reg_fits_into = b2z (eaddr + tsz <=? base + size).
  Proof.
    intros Hb Hs Hbs He Ht. unfold c_ra_reg_fits_into. start.
    rewrite (sub_mod32 eaddr base) by (unfold two32 in *; lia).
    destruct (Z.leb_spec base eaddr) as [_|]; [|lia].
    rewrite (sub_mod32 size (eaddr - base)) by (unfold two32 in *; lia).
    destruct (Z.leb_spec (eaddr - base) size) as [_|]; [|lia].
    rewrite (small32 (size - (eaddr - base))) by (unfold two32 in *; lia).
    replace ((size - (eaddr - base)) mod 2 ^ 64) with (size - (eaddr - base))
      by (symmetry; apply Z.mod_small; unfold two32 in *; change (2 ^ 64) with 18446744073709551616; lia).
    unfold two32 in *. unfold b2z. cases; try reflexivity; try lia.
  Qed.
End Leaf.

(* ---- the same statements about the model's own predicates (unbounded N), with the type numbering and the size table that
   tools/consts2coq.py reads from the source ---- *)
From Ufw Require Import Gen.Consts Proof.ConstsReg.

Definition tabsC : string -> list Z := fun _ => map Z.of_N c_rds_size.
Definition envC (a : area) (e : entry) (addr n : N) : string -> Z := fun x =>
  if String.eqb x "a.base" then Z.of_N (a_base a) else if String.eqb x "a.size" then Z.of_N (a_size a) else
  if String.eqb x "addr" then Z.of_N addr else if String.eqb x "n" then Z.of_N n else
  if String.eqb x "e.address" then Z.of_N (e_addr e) else if String.eqb x "e.type" then Z.of_N (type_number (e_type e)) else 0.

Lemma tabC_size e : nth (Z.to_nat (Z.of_N (type_number (e_type e)))) (tabsC "rds_size"%string) 0 = Z.of_N (tsize (e_type e)).
Proof. destruct (e_type e); reflexivity. Qed.

Lemma tsize_bounds t : (1 <= tsize t <= 4)%N.
Proof. destruct t; cbn; lia. Qed.

Local Open Scope N_scope.
Definition SPACE : N := 4294967296.
(* an area / a register / a request window inside the 32-bit address space; each may reach its last address *)
Definition area_in_space (a : area) : Prop := a_base a < SPACE /\ a_size a < SPACE /\ a_base a + a_size a <= SPACE.
Definition entry_in_space (e : entry) : Prop := e_addr e < SPACE /\ e_addr e + tsize (e_type e) <= SPACE.
Definition window_in_space (addr n : N) : Prop := addr < SPACE /\ addr + n <= SPACE.

Theorem C_ra_addr_is_part_of a e addr n : area_in_space a -> addr < SPACE ->
  eval (envC a e addr n) tabsC c_ra_addr_is_part_of = b2z (addr_in_area a addr).
Proof.
  unfold area_in_space, SPACE. intros (Hb & Hs & Hbs) Ha.
  rewrite (ra_addr_is_part_of_ok (envC a e addr n) tabsC (Z.of_N (a_base a)) (Z.of_N (a_size a)) (Z.of_N addr))
    by (try reflexivity; unfold two32; lia).
  f_equal. unfold addr_in_area. lia.
Qed.

Theorem C_ra_range_touches a e addr n : area_in_space a -> window_in_space addr n ->
  eval (envC a e addr n) tabsC c_ra_range_touches =
    if a_base a + a_size a <=? addr then (-1)%Z else if addr + n <=? a_base a then 1%Z else 0%Z.
Proof.
  unfold area_in_space, window_in_space, SPACE. intros (Hb & Hs & Hbs) (Ha & Han).
  rewrite (ra_range_touches_ok (envC a e addr n) tabsC (Z.of_N (a_base a)) (Z.of_N (a_size a)) (Z.of_N addr) (Z.of_N n))
    by (try reflexivity; unfold two32; lia).
  destruct (N.leb_spec (a_base a + a_size a) addr); destruct (N.leb_spec (addr + n) (a_base a));
    repeat match goal with |- context [Z.leb ?x ?y] => destruct (Z.leb_spec x y); try lia end; reflexivity.
Qed.

(* the area is touched by the window exactly when the model's read-only scan looks at it *)
Corollary C_ra_range_touches_zero a e addr n : area_in_space a -> window_in_space addr n ->
  (eval (envC a e addr n) tabsC c_ra_range_touches =? 0)%Z = (addr <? a_base a + a_size a) && (a_base a <? addr + n).
Proof.
  intros Ha Hw. rewrite C_ra_range_touches by assumption.
  destruct (N.leb_spec (a_base a + a_size a) addr); destruct (N.leb_spec (addr + n) (a_base a));
    destruct (N.ltb_spec addr (a_base a + a_size a)); destruct (N.ltb_spec (a_base a) (addr + n)); try lia; reflexivity.
Qed.

Theorem C_reg_range_touches a e addr n : entry_in_space e -> window_in_space addr n ->
  eval (envC a e addr n) tabsC c_reg_range_touches =
    if e_addr e + tsize (e_type e) <=? addr then (-1)%Z else if addr + n <=? e_addr e then 1%Z else 0%Z.
Proof.
  unfold entry_in_space, window_in_space, SPACE. intros (Hb & Hbs) (Ha & Han). pose proof (tsize_bounds (e_type e)) as Ht.
  rewrite (reg_range_touches_ok (envC a e addr n) tabsC (Z.of_N addr) (Z.of_N n) (Z.of_N (e_addr e))
             (Z.of_N (type_number (e_type e))) (Z.of_N (tsize (e_type e))))
    by (try reflexivity; try apply tabC_size; unfold two32; lia).
  destruct (N.leb_spec (e_addr e + tsize (e_type e)) addr); destruct (N.leb_spec (addr + n) (e_addr e));
    repeat match goal with |- context [Z.leb ?x ?y] => destruct (Z.leb_spec x y); try lia end; reflexivity.
Qed.

Corollary C_reg_range_touches_zero a e addr n : entry_in_space e -> window_in_space addr n ->
  (eval (envC a e addr n) tabsC c_reg_range_touches =? 0)%Z = overlaps e addr n.
Proof.
  intros He Hw. rewrite C_reg_range_touches by assumption. unfold overlaps.
  destruct (N.leb_spec (e_addr e + tsize (e_type e)) addr); destruct (N.leb_spec (addr + n) (e_addr e));
    destruct (N.ltb_spec addr (e_addr e + tsize (e_type e))); destruct (N.ltb_spec (e_addr e) (addr + n)); try lia; reflexivity.
Qed.

Theorem C_ra_reg_fits_into a e addr n : area_in_space a -> addr_in_area a (e_addr e) = true ->
  eval (envC a e addr n) tabsC c_ra_reg_fits_into = b2z (e_addr e + tsize (e_type e) <=? a_base a + a_size a).
Proof.
  unfold area_in_space, SPACE, addr_in_area. intros (Hb & Hs & Hbs) Hin. pose proof (tsize_bounds (e_type e)) as Ht.
  rewrite (ra_reg_fits_into_ok (envC a e addr n) tabsC (Z.of_N (a_base a)) (Z.of_N (a_size a)) (Z.of_N (e_addr e))
             (Z.of_N (type_number (e_type e))) (Z.of_N (tsize (e_type e))))
    by (try reflexivity; try apply tabC_size; unfold two32; lia).
  f_equal. lia.
Qed.

(* ---- the pre-repair form (end address computed in 32 bits, as the source read before fix e98e69c; written out by hand) does
   NOT agree with the model on an area that reaches the last address: this is defect 36 ---- *)
Local Open Scope Z_scope.
Definition old_ra_addr_is_part_of : expr :=
  Cond (Bin Ogt S32 (Var "a.base") (Var "addr")) (Lit 0)
    (Cond (Bin Ole S32 (Bin Oadd U32 (Var "a.base") (Var "a.size")) (Var "addr")) (Lit 0) (Lit 1)).
Definition env_top (x : string) : Z :=
  if String.eqb x "a.base" then 4294967280 else if String.eqb x "a.size" then 16 else if String.eqb x "addr" then 4294967280 else 0.

Theorem old_end_address_form_refuted :
  exists base size addr, 0 <= base < two32 /\ 0 <= size /\ base + size <= two32 /\ 0 <= addr < two32 /\
    env_top "a.base"%string = base /\ env_top "a.size"%string = size /\ env_top "addr"%string = addr /\
    eval env_top (fun _ => nil) old_ra_addr_is_part_of <> b2z ((base <=? addr) && (addr <? base + size)) /\
    eval env_top (fun _ => nil) c_ra_addr_is_part_of = b2z ((base <=? addr) && (addr <? base + size)).
Proof.
  exists 4294967280, 16, 4294967280. unfold two32. repeat split; try lia; try reflexivity.
  vm_compute. discriminate.
Qed.

(* non-vacuity: an area and a register that reach the last address satisfy the hypotheses *)
Example top_area_in_space :
  (4294967280 < SPACE /\ 16 < SPACE /\ 4294967280 + 16 <= SPACE)%N /\ (4294967292 < SPACE /\ 4294967292 + 4 <= SPACE)%N.
Proof. unfold SPACE. lia. Qed.
