(* C10: every medium access of store / store_part / validate / fetch / fetch_part / reset lies inside the instance's
   checksum-plus-data region - for EVERY medium (any image, any read / write fault scripts, any chunk size) and every
   argument, whether the call succeeds or not; part accesses beyond the data size touch nothing. *)
From Ufw Require Import Base.Bits Model.Persist Proof.LenpLemmas Proof.PersistLemmas.
From Coq Require Import Lia Bool ZifyN ZifyBool.
Local Open Scope N_scope.

Definition placed (st : pstore) : Prop := p_caddr st + p_csize st + p_dsize st < 2 ^ 32.
Definition inreg (st : pstore) (l : list (bool * N * N * N)) : Prop := Forall (fun e => in_region st e = true) l.

Lemma inreg_app st a b : inreg st a -> inreg st b -> inreg st (a ++ b).
Proof. unfold inreg. intros. apply Forall_app. auto. Qed.

Lemma wrap32_id x : x < 2 ^ 32 -> wrap 32 x = x.
Proof. apply wrap32_small. Qed.

Lemma daddr_placed st : placed st -> p_daddr st = p_caddr st + p_csize st.
Proof. unfold placed, p_daddr. intros H. apply wrap32_id. lia. Qed.

Lemma entry_in st w a n g : p_caddr st <= a -> a + n <= p_caddr st + p_csize st + p_dsize st -> in_region st (w, a, n, g) = true.
Proof. intros H1 H2. unfold in_region. destruct (N.leb_spec (p_caddr st) a); [|lia]. destruct (N.leb_spec (a + n) (p_caddr st + p_csize st + p_dsize st)); [reflexivity|lia]. Qed.

Section Region.
  Variable step : N -> N -> N.

  Lemma calc_loop_region fuel : forall st m rest addr sum r m', placed st ->
    p_caddr st <= addr -> addr + rest <= p_caddr st + p_csize st + p_dsize st ->
    calc_loop step fuel st m rest addr sum = (r, m') -> exists l, m_log m' = m_log m ++ l /\ inreg st l.
  Proof.
    induction fuel as [|f IH]; intros st m rest addr sum r m' Hp H1 H2 H; cbn [calc_loop] in H.
    - destruct (rest =? 0); injection H as _ <-; exists []; rewrite app_nil_r; split; [reflexivity|constructor|reflexivity|constructor].
    - destruct (N.eqb_spec rest 0) as [|Hr]; [injection H as _ <-; exists []; rewrite app_nil_r; split; [reflexivity|constructor]|].
      set (toget := if p_bsize st <? rest then p_bsize st else rest) in *.
      assert (Ht : toget <= rest) by (unfold toget; destruct (N.ltb_spec (p_bsize st) rest); lia).
      destruct (med_read m addr toget) as [d m1] eqn:E1.
      pose proof (med_read_log _ _ _ _ _ E1) as L1.
      assert (In1 : inreg st [(false, addr, toget, N.of_nat (length d))]) by (constructor; [apply entry_in; lia|constructor]).
      destruct (negb (N.of_nat (length d) =? toget)).
      + injection H as _ <-. eexists. split; [exact L1|exact In1].
      + rewrite wrap32_id in H by (unfold placed in Hp; lia).
        destruct (IH st m1 (rest - toget) (addr + toget) (cks step sum d) r m' Hp) as (l & L & F); [lia|lia|exact H|].
        eexists. rewrite L, L1, <- app_assoc. split; [reflexivity|apply inreg_app; assumption].
  Qed.

  Lemma calc_checksum_region st m r m' : placed st -> calc_checksum step st m = (r, m') ->
    exists l, m_log m' = m_log m ++ l /\ inreg st l.
  Proof.
    intros Hp H. unfold calc_checksum in H. rewrite (daddr_placed st Hp) in H.
    eapply calc_loop_region; eauto; lia.
  Qed.

  Lemma store_checksum_region st m sum r m' : (p_csize st = 2 \/ p_csize st = 4) -> store_checksum st m sum = (r, m') ->
    exists l, m_log m' = m_log m ++ l /\ inreg st l.
  Proof.
    intros Hc. unfold store_checksum. destruct (med_write m (p_caddr st) _) as [g m1] eqn:E. intros [= _ <-].
    eexists. split; [exact (med_write_log _ _ _ _ _ E)|]. constructor; [|constructor].
    apply entry_in; [lia|]. rewrite le_bytes_length. lia.
  Qed.

  Theorem store_part_region st m src offset n r m' : placed st -> (p_csize st = 2 \/ p_csize st = 4) ->
    store_part step st m src offset n = (r, m') -> exists l, m_log m' = m_log m ++ l /\ inreg st l.
  Proof.
    intros Hp Hc. unfold store_part. destruct (N.ltb_spec (p_dsize st) (offset + n)) as [|Hr].
    { intros [= _ <-]. exists []. rewrite app_nil_r. split; [reflexivity|constructor]. }
    rewrite (daddr_placed st Hp). rewrite wrap32_id by (unfold placed in Hp; lia).
    destruct (med_write m _ _) as [stored m1] eqn:E1. pose proof (med_write_log _ _ _ _ _ E1) as L1.
    assert (In1 : inreg st [(true, p_caddr st + p_csize st + offset, N.of_nat (length (firstn (N.to_nat n) src)), stored)]).
    { constructor; [|constructor]. apply entry_in; [lia|]. rewrite firstn_length. lia. }
    destruct (negb (stored =? n)).
    { intros [= _ <-]. eexists. split; [exact L1|exact In1]. }
    destruct ((offset =? 0) && (n =? p_dsize st)).
    - intros H. destruct (store_checksum_region _ _ _ _ _ Hc H) as (l & L & F).
      eexists. rewrite L, L1, <- app_assoc. split; [reflexivity|apply inreg_app; assumption].
    - destruct (calc_checksum step st m1) as [[sum|] m2] eqn:E2;
        destruct (calc_checksum_region _ _ _ _ Hp E2) as (l2 & L2 & F2).
      + intros H. destruct (store_checksum_region _ _ _ _ _ Hc H) as (l & L & F).
        eexists. rewrite L, L2, L1, <- !app_assoc. split; [reflexivity|repeat apply inreg_app; assumption].
      + intros [= _ <-]. eexists. rewrite L2, L1, <- app_assoc. split; [reflexivity|apply inreg_app; assumption].
  Qed.

  Theorem validate_region st m r m' : placed st -> validate step st m = (r, m') -> exists l, m_log m' = m_log m ++ l /\ inreg st l.
  Proof.
    intros Hp. unfold validate. destruct (med_read m (p_caddr st) (p_csize st)) as [d m1] eqn:E1.
    pose proof (med_read_log _ _ _ _ _ E1) as L1.
    assert (In1 : inreg st [(false, p_caddr st, p_csize st, N.of_nat (length d))]) by (constructor; [apply entry_in; lia|constructor]).
    destruct (negb (N.of_nat (length d) =? p_csize st)).
    { intros [= _ <-]. eexists. split; [exact L1|exact In1]. }
    destruct (calc_checksum step st m1) as [[sum|] m2] eqn:E2; destruct (calc_checksum_region _ _ _ _ Hp E2) as (l2 & L2 & F2);
      intros [= _ <-]; eexists; rewrite L2, L1, <- app_assoc; (split; [reflexivity|apply inreg_app; assumption]).
  Qed.
End Region.

Theorem fetch_part_region st m offset n r d m' : placed st -> fetch_part st m offset n = (r, d, m') ->
  exists l, m_log m' = m_log m ++ l /\ inreg st l.
Proof.
  intros Hp. unfold fetch_part. destruct (N.ltb_spec (p_dsize st) (offset + n)) as [|Hr].
  { intros [= _ _ <-]. exists []. rewrite app_nil_r. split; [reflexivity|constructor]. }
  rewrite (daddr_placed st Hp). rewrite wrap32_id by (unfold placed in Hp; lia).
  destruct (med_read m _ n) as [d1 m1] eqn:E1. intros [= _ _ <-].
  eexists. split; [exact (med_read_log _ _ _ _ _ E1)|]. constructor; [apply entry_in; lia|constructor].
Qed.

Lemma writen_loop_region fuel : forall st m addr item rest r m', placed st ->
  p_caddr st <= addr -> addr + rest <= p_caddr st + p_csize st + p_dsize st ->
  writen_loop fuel st m addr item rest = (r, m') -> exists l, m_log m' = m_log m ++ l /\ inreg st l.
Proof.
  induction fuel as [|f IH]; intros st m addr item rest r m' Hp H1 H2 H; cbn [writen_loop] in H.
  - destruct (rest =? 0); injection H as _ <-; exists []; rewrite app_nil_r; split; [reflexivity|constructor|reflexivity|constructor].
  - destruct (N.eqb_spec rest 0) as [|Hr]; [injection H as _ <-; exists []; rewrite app_nil_r; split; [reflexivity|constructor]|].
    set (toput := if p_bsize st <? rest then p_bsize st else rest) in *.
    assert (Ht : toput <= rest) by (unfold toput; destruct (N.ltb_spec (p_bsize st) rest); lia).
    destruct (med_write m addr _) as [g m1] eqn:E1.
    pose proof (med_write_log _ _ _ _ _ E1) as L1. rewrite repeat_length, N2Nat.id in L1.
    assert (In1 : inreg st [(true, addr, toput, g)]) by (constructor; [apply entry_in; lia|constructor]).
    destruct (negb (g =? toput)).
    + injection H as _ <-. eexists. split; [exact L1|exact In1].
    + rewrite wrap32_id in H by (unfold placed in Hp; lia).
      destruct (IH st m1 (addr + toput) item (rest - toput) r m' Hp) as (l & L & F); [lia|lia|exact H|].
      eexists. rewrite L, L1, <- app_assoc. split; [reflexivity|apply inreg_app; assumption].
Qed.

Theorem reset_region st m item r m' : placed st -> reset st m item = (r, m') -> exists l, m_log m' = m_log m ++ l /\ inreg st l.
Proof.
  intros Hp. unfold reset.
  destruct (writen_loop _ st m (p_caddr st) item (p_csize st)) as [r1 m1] eqn:E1.
  destruct (writen_loop_region (S (N.to_nat (p_csize st))) st m (p_caddr st) item (p_csize st) r1 m1 Hp) as (l1 & L1 & F1); [lia|lia|exact E1|].
  assert (Hfail : r1 <> PSuccess -> (r1, m1) = (r, m') -> exists l, m_log m' = m_log m ++ l /\ inreg st l).
  { intros _ [= _ <-]. eauto. }
  destruct r1; try (apply Hfail; discriminate).
  rewrite (daddr_placed st Hp). intros E2.
  destruct (writen_loop_region (S (N.to_nat (p_dsize st))) st m1 (p_caddr st + p_csize st) item (p_dsize st) r m' Hp) as (l2 & L2 & F2); [lia|lia|exact E2|].
  eexists. rewrite L2, L1, <- app_assoc. split; [reflexivity|apply inreg_app; assumption].
Qed.
