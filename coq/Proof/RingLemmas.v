From Ufw Require Import Base.Bits Model.Ring Proof.ListLemmas.
From Coq Require Import Arith Lia Bool.
Local Open Scope nat_scope.

Definition ring_inv (r : ring) : Prop :=
  1 <= r_ds r /\ length (r_data r) = r_ds r /\ r_head r < r_ds r /\ (r_tail r = r_ds r \/ r_tail r < r_ds r).

Lemma mod_wrap a d : 0 < d -> a < 2 * d -> a mod d = if a <? d then a else a - d.
Proof.
  intros Hd Ha. destruct (Nat.ltb_spec a d) as [H|H].
  - apply Nat.mod_small; exact H.
  - replace a with ((a - d) + 1 * d) at 1 by lia. rewrite Nat.mod_add by lia. apply Nat.mod_small. lia.
Qed.

Lemma nth_upd_eq {A} (l : list A) i x d : i < length l -> nth i (upd l i x) d = x.
Proof. revert i; induction l as [|a l IH]; intros [|i] H; cbn in *; try lia; auto. apply IH; lia. Qed.
Lemma nth_upd_neq {A} (l : list A) i j x d : i <> j -> nth j (upd l i x) d = nth j l d.
Proof. revert i j; induction l as [|a l IH]; intros [|i] [|j] H; cbn in *; try lia; auto. Qed.

Lemma init_inv ds : 1 <= ds -> ring_inv (ring_init ds).
Proof. intros H. unfold ring_inv, ring_init; cbn. rewrite repeat_length. lia. Qed.

(* size characterises head *)
Lemma size_spec r : ring_inv r -> ring_empty r = false ->
  1 <= ring_size r <= r_ds r /\ r_head r = (r_tail r + ring_size r) mod r_ds r /\ r_tail r < r_ds r.
Proof.
  intros (Hd & Hl & Hh & Ht) He. unfold ring_size, ring_empty in *. rewrite He.
  apply Nat.eqb_neq in He. destruct Ht as [Ht|Ht]; [contradiction|].
  destruct (Nat.ltb_spec (r_tail r) (r_head r)) as [H|H].
  - repeat split; try lia. replace (r_tail r + (r_head r - r_tail r)) with (r_head r) by lia.
    symmetry. apply Nat.mod_small. exact Hh.
  - repeat split; try lia. rewrite mod_wrap by lia.
    destruct (Nat.ltb_spec (r_tail r + (r_ds r - r_tail r + r_head r)) (r_ds r)); lia.
Qed.

Lemma abs_length r : length (ring_abs_items r) = ring_size r.
Proof. unfold ring_abs_items. rewrite map_length, seq_length. reflexivity. Qed.

Lemma empty_size r : ring_empty r = true -> ring_size r = 0.
Proof. intros H. unfold ring_size. rewrite H. reflexivity. Qed.

Lemma full_size r : ring_inv r -> (ring_full r = true <-> ring_size r = r_ds r).
Proof.
  intros Hi. pose proof Hi as (Hd & Hl & Hh & Ht). unfold ring_full. rewrite Nat.eqb_eq.
  destruct (ring_empty r) eqn:He.
  - rewrite (empty_size r He). unfold ring_empty in He. apply Nat.eqb_eq in He. lia.
  - destruct (size_spec r Hi He) as (Hs & _ & Htl). unfold ring_size in *. rewrite He in *.
    destruct (Nat.ltb_spec (r_tail r) (r_head r)) as [H|H]; lia.
Qed.

(* ---------- get ---------- *)
Lemma advance_tail_spec r : ring_inv r -> ring_empty r = false ->
  let r' := advance_tail r in
  ring_inv r' /\ ring_abs_items r' = tl (ring_abs_items r) /\
  hd 0%N (ring_abs_items r) = nth (r_tail r) (r_data r) 0%N /\
  r_ds r' = r_ds r /\ r_ovr r' = r_ovr r /\ r_head r' = r_head r /\ r_data r' = r_data r /\
  ring_size r' = ring_size r - 1.
Proof.
  intros Hi He. destruct (size_spec r Hi He) as (Hs & Hhd & Htl).
  pose proof Hi as (Hd & Hl & Hh & Ht).
  unfold advance_tail. cbv zeta.
  set (t := (r_tail r + 1) mod r_ds r).
  assert (Et : t = if r_tail r + 1 <? r_ds r then r_tail r + 1 else r_tail r + 1 - r_ds r)
    by (unfold t; apply mod_wrap; lia).
  assert (Hsz : ring_size r = if r_tail r <? r_head r then r_head r - r_tail r else r_ds r - r_tail r + r_head r).
  { unfold ring_size. rewrite He. reflexivity. }
  assert (Habs : ring_abs_items r = nth (r_tail r) (r_data r) 0%N ::
            map (fun i => nth ((r_tail r + i) mod r_ds r) (r_data r) 0%N) (seq 1 (ring_size r - 1))).
  { unfold ring_abs_items. destruct (ring_size r) as [|n] eqn:En; [lia|].
    cbn [seq map]. rewrite Nat.add_0_r, Nat.mod_small by lia. replace (S n - 1) with n by lia. reflexivity. }
  destruct (Nat.eqb_spec t (r_head r)) as [Eh|Eh].
  - (* becomes empty: size was 1 *)
    assert (Hone : ring_size r = 1).
    { rewrite Hsz. destruct (Nat.ltb_spec (r_tail r) (r_head r)), (Nat.ltb_spec (r_tail r + 1) (r_ds r)); lia. }
    unfold ring_inv, set_tail; cbn [r_data r_head r_tail r_ds r_ovr].
    repeat split; try lia.
    + rewrite Habs, Hone. cbn [tl seq map Nat.sub].
      unfold ring_abs_items, ring_size, ring_empty; cbn [r_tail r_ds]. rewrite Nat.eqb_refl. reflexivity.
    + rewrite Habs. reflexivity.
    + rewrite Hone. unfold ring_size, ring_empty; cbn [r_tail r_ds r_head]. rewrite Nat.eqb_refl. reflexivity.
  - assert (Htl' : t < r_ds r) by (rewrite Et; destruct (Nat.ltb_spec (r_tail r + 1) (r_ds r)); lia).
    assert (Hne : (t =? r_ds r) = false) by (apply Nat.eqb_neq; lia).
    assert (Hsz' : ring_size (set_tail r t) = ring_size r - 1).
    { unfold ring_size at 1, ring_empty, set_tail; cbn [r_tail r_ds r_head]. rewrite Hne, Hsz.
      rewrite Et in *. destruct (Nat.ltb_spec (r_tail r + 1) (r_ds r));
      destruct (Nat.ltb_spec (r_tail r) (r_head r)); repeat match goal with |- context [?a <? ?b] => destruct (Nat.ltb_spec a b) end; lia. }
    unfold ring_inv; cbn [set_tail r_data r_head r_tail r_ds r_ovr].
    repeat split; try lia; try exact Hsz'.
    + rewrite Habs. cbn [tl]. unfold ring_abs_items at 1. rewrite Hsz'. cbn [set_tail r_tail r_ds r_data].
      rewrite <- seq_shift, map_map. apply map_ext. intros i. f_equal.
      unfold t. rewrite Nat.add_mod_idemp_l by lia. f_equal. lia.
    + rewrite Habs. reflexivity.
Qed.

Lemma get_spec r : ring_inv r ->
  let '(v, r') := ring_get r in
  ring_inv r' /\ v = hd 0%N (ring_abs_items r) /\ ring_abs_items r' = tl (ring_abs_items r) /\
  r_ds r' = r_ds r /\ r_ovr r' = r_ovr r.
Proof.
  intros Hi. unfold ring_get. destruct (ring_empty r) eqn:He.
  - assert (E : ring_abs_items r = []).
    { unfold ring_abs_items. rewrite (empty_size r He). reflexivity. }
    rewrite E. auto.
  - destruct (advance_tail_spec r Hi He) as (H1 & H2 & H3 & H4 & H5 & _). rewrite H3. auto.
Qed.

(* ---------- put ---------- *)
Lemma store_spec r x : ring_inv r -> ring_full r = false ->
  let r' := store r x in
  ring_inv r' /\ ring_abs_items r' = ring_abs_items r ++ [x] /\ r_ds r' = r_ds r /\ r_ovr r' = r_ovr r.
Proof.
  intros Hi Hf. pose proof Hi as (Hd & Hl & Hh & Ht).
  unfold store. destruct (ring_empty r) eqn:He; cbv zeta.
  - (* empty: tail := head *)
    assert (Ea : ring_abs_items r = []) by (unfold ring_abs_items; rewrite (empty_size r He); reflexivity).
    rewrite Ea. cbn [set_tail r_data r_head r_tail r_ds r_ovr app].
    set (h' := (r_head r + 1) mod r_ds r).
    assert (Eh : h' = if r_head r + 1 <? r_ds r then r_head r + 1 else r_head r + 1 - r_ds r)
      by (unfold h'; apply mod_wrap; lia).
    assert (Hh' : h' < r_ds r) by (rewrite Eh; destruct (Nat.ltb_spec (r_head r + 1) (r_ds r)); lia).
    unfold ring_inv; cbn [r_data r_head r_tail r_ds r_ovr]. rewrite upd_length.
    repeat split; try lia.
    unfold ring_abs_items, ring_size, ring_empty; cbn [r_data r_head r_tail r_ds].
    assert (Hne : (r_head r =? r_ds r) = false) by (apply Nat.eqb_neq; lia). rewrite Hne.
    assert (Hone : (if r_head r <? h' then h' - r_head r else r_ds r - r_head r + h') = 1).
    { rewrite Eh. destruct (Nat.ltb_spec (r_head r + 1) (r_ds r));
        repeat match goal with |- context [?a <? ?b] => destruct (Nat.ltb_spec a b) end; lia. }
    rewrite Hone. cbn [seq map]. rewrite Nat.add_0_r, Nat.mod_small by lia.
    rewrite nth_upd_eq by lia. reflexivity.
  - destruct (size_spec r Hi He) as (Hs & Hhd & Htl).
    assert (Hnf : ring_size r < r_ds r).
    { destruct (Nat.eq_dec (ring_size r) (r_ds r)) as [E|E]; [|lia].
      apply (full_size r Hi) in E. congruence. }
    unfold ring_full in Hf. apply Nat.eqb_neq in Hf.
    set (h' := (r_head r + 1) mod r_ds r).
    assert (Eh : h' = if r_head r + 1 <? r_ds r then r_head r + 1 else r_head r + 1 - r_ds r)
      by (unfold h'; apply mod_wrap; lia).
    assert (Hh' : h' < r_ds r) by (rewrite Eh; destruct (Nat.ltb_spec (r_head r + 1) (r_ds r)); lia).
    assert (Hsz : ring_size r = if r_tail r <? r_head r then r_head r - r_tail r else r_ds r - r_tail r + r_head r).
    { unfold ring_size. rewrite He. reflexivity. }
    unfold ring_inv; cbn [r_data r_head r_tail r_ds r_ovr]. rewrite upd_length.
    repeat split; try lia.
    assert (Hsz' : ring_size {| r_data := upd (r_data r) (r_head r) x; r_head := h'; r_tail := r_tail r;
                               r_ds := r_ds r; r_ovr := r_ovr r |} = S (ring_size r)).
    { unfold ring_size at 1, ring_empty; cbn [r_data r_head r_tail r_ds].
      unfold ring_empty in He. rewrite He. rewrite Hsz, Eh.
      repeat match goal with |- context [?a <? ?b] => destruct (Nat.ltb_spec a b) end; lia. }
    unfold ring_abs_items at 1. rewrite Hsz'. cbn [r_data r_head r_tail r_ds].
    rewrite seq_S, map_app. cbn [map Nat.add]. f_equal.
    + apply map_ext_in. intros i Hin. apply in_seq in Hin.
      apply nth_upd_neq. rewrite Hhd.
      rewrite (mod_wrap (r_tail r + ring_size r)) by lia. rewrite (mod_wrap (r_tail r + i)) by lia.
      repeat match goal with |- context [?a <? ?b] => destruct (Nat.ltb_spec a b) end; lia.
    + rewrite <- Hhd. rewrite nth_upd_eq by lia. reflexivity.
Qed.

Lemma put_spec r x : ring_inv r ->
  let r' := ring_put r x in
  ring_inv r' /\ r_ds r' = r_ds r /\ r_ovr r' = r_ovr r /\
  ring_abs_items r' =
    (if length (ring_abs_items r) <? r_ds r then ring_abs_items r ++ [x]
     else if r_ovr r then tl (ring_abs_items r) ++ [x] else ring_abs_items r).
Proof.
  intros Hi. pose proof Hi as (Hd & Hl & Hh & Ht). unfold ring_put. rewrite abs_length.
  destruct (ring_full r) eqn:Hf.
  - assert (Hsz : ring_size r = r_ds r) by (apply full_size; assumption).
    rewrite Hsz, Nat.ltb_irrefl.
    destruct (r_ovr r) eqn:Ho; [|auto].
    assert (He : ring_empty r = false).
    { destruct (ring_empty r) eqn:E; [|reflexivity]. rewrite (empty_size r E) in Hsz. lia. }
    destruct (advance_tail_spec r Hi He) as (Hi' & Ha & _ & Hds & Hov & Hhd & _ & Hsz').
    assert (Hf' : ring_full (advance_tail r) = false).
    { destruct (ring_full (advance_tail r)) eqn:E; [|reflexivity].
      apply (full_size _ Hi') in E. rewrite Hsz', Hds in E. lia. }
    destruct (store_spec (advance_tail r) x Hi' Hf') as (Hi'' & Ha'' & Hds'' & Hov'').
    rewrite Ha'', Ha. split; [exact Hi''|]. split; [rewrite Hds''; exact Hds|]. split; [rewrite Hov'', Hov; exact Ho|reflexivity].
  - assert (Hlt : ring_size r < r_ds r).
    { destruct (ring_empty r) eqn:He.
      - rewrite (empty_size r He). lia.
      - destruct (size_spec r Hi He) as (Hs & _). destruct (Nat.eq_dec (ring_size r) (r_ds r)) as [E|E]; [|lia].
        apply (full_size r Hi) in E. congruence. }
    destruct (Nat.ltb_spec (ring_size r) (r_ds r)); [|lia].
    destruct (store_spec r x Hi Hf) as (H1 & H2 & H3 & H4). auto.
Qed.

(* ---------- refinement ---------- *)
Theorem step_refines r o : ring_inv r ->
  let '(r', v) := ring_step r o in
  let '(q', w) := queue_step (ring_abs r) o in
  ring_inv r' /\ v = w /\ ring_abs r' = q'.
Proof.
  intros Hi. destruct o as [x| | |b]; cbn [ring_step queue_step ring_abs q_items q_cap q_ovr].
  - destruct (put_spec r x Hi) as (H1 & H2 & H3 & H4).
    unfold ring_abs. rewrite H2, H3, H4.
    destruct (length (ring_abs_items r) <? r_ds r); [auto|]. destruct (r_ovr r); auto.
  - pose proof (get_spec r Hi) as G. destruct (ring_get r) as [v r'].
    destruct G as (H1 & H2 & H3 & H4 & H5). unfold ring_abs. rewrite H3, H4, H5.
    destruct (ring_abs_items r) as [|y t]; cbn [hd tl] in *; subst; auto.
  - pose proof Hi as (Hd & Hl & Hh & Ht). unfold ring_clear, ring_abs, ring_inv; cbn [set_tail r_data r_head r_tail r_ds r_ovr].
    repeat split; try lia. f_equal.
    unfold ring_abs_items, ring_size, ring_empty; cbn [r_tail r_ds]. rewrite Nat.eqb_refl. reflexivity.
  - pose proof Hi as (Hd & Hl & Hh & Ht). unfold ring_override, ring_abs, ring_inv; cbn [r_data r_head r_tail r_ds r_ovr].
    repeat split; auto.
Qed.

Fixpoint ring_run (r : ring) (ops : list rop) : ring * list N :=
  match ops with [] => (r, []) | o :: t => let '(r', v) := ring_step r o in let '(r'', vs) := ring_run r' t in (r'', v :: vs) end.
Fixpoint queue_run (q : queue) (ops : list rop) : queue * list N :=
  match ops with [] => (q, []) | o :: t => let '(q', v) := queue_step q o in let '(q'', vs) := queue_run q' t in (q'', v :: vs) end.

Theorem run_refines ops : forall r, ring_inv r ->
  ring_inv (fst (ring_run r ops)) /\ snd (ring_run r ops) = snd (queue_run (ring_abs r) ops) /\
  ring_abs (fst (ring_run r ops)) = fst (queue_run (ring_abs r) ops).
Proof.
  induction ops as [|o t IH]; intros r Hi; cbn [ring_run queue_run]; [auto|].
  pose proof (step_refines r o Hi) as S.
  destruct (ring_step r o) as [r' v]. destruct (queue_step (ring_abs r) o) as [q' w].
  destruct S as (Hi' & -> & <-). specialize (IH r' Hi').
  destruct (ring_run r' t) as [r'' vs]. destruct (queue_run (ring_abs r') t) as [q'' ws].
  cbn [fst snd] in *. destruct IH as (H1 & H2 & H3). split; [exact H1|]. split; [f_equal; exact H2|exact H3].
Qed.

(* size / empty / full report the queue's state *)
Theorem observers r : ring_inv r ->
  ring_size r = length (ring_abs_items r) /\
  (ring_empty r = true <-> ring_abs_items r = []) /\
  (ring_full r = true <-> length (ring_abs_items r) = r_ds r) /\
  length (ring_abs_items r) <= r_ds r.
Proof.
  intros Hi. rewrite abs_length. split; [reflexivity|]. split; [|split].
  - split; intros H.
    + unfold ring_abs_items. rewrite (empty_size r H). reflexivity.
    + destruct (ring_empty r) eqn:He; [reflexivity|].
      destruct (size_spec r Hi He) as (Hs & _). apply (f_equal (@length N)) in H. rewrite abs_length in H. cbn in H. lia.
  - apply full_size. exact Hi.
  - destruct (ring_empty r) eqn:He; [rewrite (empty_size r He); lia|].
    destruct (size_spec r Hi He) as (Hs & _). lia.
Qed.

(* ---------- iterators ---------- *)
Lemma walk_forward r n : forall s, 0 < r_ds r -> s < r_ds r ->
  iter_walk r false n s = map (fun i => nth ((s + i) mod r_ds r) (r_data r) 0%N) (seq 0 n).
Proof.
  induction n as [|n IH]; intros s Hd Hs; [reflexivity|].
  cbn [iter_walk seq map]. rewrite Nat.add_0_r, Nat.mod_small by exact Hs. f_equal.
  rewrite IH by (auto; apply Nat.mod_upper_bound; lia).
  rewrite <- seq_shift, map_map. apply map_ext. intros i.
  unfold iter_next. rewrite Nat.add_mod_idemp_l by lia. do 2 f_equal. lia.
Qed.

Theorem iter_old_to_new r : ring_inv r -> ring_iter r false = ring_abs_items r.
Proof.
  intros Hi. pose proof Hi as (Hd & Hl & Hh & Ht). unfold ring_iter, iter_start.
  destruct (ring_empty r) eqn:He.
  - unfold ring_abs_items. rewrite (empty_size r He). reflexivity.
  - destruct (size_spec r Hi He) as (_ & _ & Htl). apply walk_forward; lia.
Qed.

Lemma pred_mod a d : 0 < d -> a < d -> (if a =? 0 then d - 1 else a - 1) = (a + (d - 1)) mod d.
Proof.
  intros Hd Ha. rewrite mod_wrap by lia.
  destruct (Nat.eqb_spec a 0), (Nat.ltb_spec (a + (d - 1)) d); lia.
Qed.

Lemma walk_backward r t n : 0 < r_ds r -> t < r_ds r ->
  iter_walk r true n ((t + n + (r_ds r - 1)) mod r_ds r) =
  rev (map (fun i => nth ((t + i) mod r_ds r) (r_data r) 0%N) (seq 0 n)).
Proof.
  intros Hd Ht. induction n as [|n IH]; [reflexivity|].
  rewrite seq_S, map_app, rev_app_distr. cbn [map rev app Nat.add iter_walk].
  assert (E : (t + S n + (r_ds r - 1)) mod r_ds r = (t + n) mod r_ds r).
  { replace (t + S n + (r_ds r - 1)) with (t + n + 1 * r_ds r) by lia. apply Nat.mod_add. lia. }
  rewrite E. f_equal. rewrite <- IH. f_equal.
  unfold iter_next. rewrite pred_mod by (try apply Nat.mod_upper_bound; lia).
  apply Nat.add_mod_idemp_l. lia.
Qed.

Theorem iter_new_to_old r : ring_inv r -> ring_iter r true = rev (ring_abs_items r).
Proof.
  intros Hi. pose proof Hi as (Hd & Hl & Hh & Ht). unfold ring_iter.
  destruct (ring_empty r) eqn:He.
  - unfold ring_abs_items. rewrite (empty_size r He). reflexivity.
  - destruct (size_spec r Hi He) as (Hs & Hhd & Htl).
    unfold ring_abs_items. rewrite <- (walk_backward r (r_tail r) (ring_size r)) by lia. f_equal.
    unfold iter_start. rewrite pred_mod by lia.
    rewrite Hhd at 1. apply Nat.add_mod_idemp_l. lia.
Qed.

Theorem iter_steps r b : length (ring_iter r b) = ring_size r.
Proof.
  unfold ring_iter. generalize (iter_start r b). generalize (ring_size r).
  induction n as [|n IH]; intros s; cbn [iter_walk length]; auto.
Qed.

Lemma abs_init ds : ring_abs (ring_init ds) = {| q_items := []; q_cap := ds; q_ovr := false |}.
Proof.
  unfold ring_abs, ring_abs_items, ring_size, ring_empty, ring_init; cbn [r_tail r_ds r_ovr r_data r_head].
  rewrite Nat.eqb_refl. reflexivity.
Qed.

Theorem from_init ds ops : 1 <= ds ->
  let r := fst (ring_run (ring_init ds) ops) in
  let q0 := {| q_items := []; q_cap := ds; q_ovr := false |} in
  ring_inv r /\ snd (ring_run (ring_init ds) ops) = snd (queue_run q0 ops) /\ ring_abs r = fst (queue_run q0 ops).
Proof.
  intros H r q0. pose proof (run_refines ops (ring_init ds) (init_inv ds H)) as R.
  rewrite abs_init in R. exact R.
Qed.
