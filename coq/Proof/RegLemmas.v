From Ufw Require Import Base.Bits Model.RegTable Proof.ListLemmas Proof.LenpLemmas Proof.PersistLemmas.
From Coq Require Import Lia Bool.
Local Open Scope N_scope.

(* ================= serialisation round trip (C01) ================= *)
Lemma bytes_words_roundtrip l : Nat.even (length l) = true -> Forall (fun b => b < 256) l ->
  bytes_of_words (words_of_bytes l) = l.
Proof.
  revert l. fix IH 1. intros [|a [|b r]] He Ho; [reflexivity|discriminate|].
  cbn [words_of_bytes bytes_of_words].
  inversion Ho as [|? ? Ha Ho1]; subst. inversion Ho1 as [|? ? Hb Ho2]; subst.
  rewrite (N.mul_comm 256 b), N.mod_add by discriminate. rewrite N.mod_small by exact Ha.
  rewrite N.div_add by discriminate. rewrite N.div_small by exact Ha. cbn [N.add].
  f_equal. f_equal. apply IH; [exact He|exact Ho2].
Qed.

Lemma le_bytes_octets k : forall v, Forall (fun b => b < 256) (le_bytes k v).
Proof. induction k as [|k IH]; intros v; cbn; constructor; [apply N.mod_lt; discriminate|apply IH]. Qed.
Lemma be_bytes_octets k v : Forall (fun b => b < 256) (be_bytes k v).
Proof. unfold be_bytes. apply Forall_rev, le_bytes_octets. Qed.

Lemma tsize_even t : Nat.even (N.to_nat (2 * tsize t)) = true.
Proof. destruct t; reflexivity. Qed.

(* des (ser v) = v for every type, both byte orders, every bit pattern of the type's width *)
Theorem ser_des_roundtrip be t bits : bits < 2 ^ tbits t -> des_bits be t (ser_words be t bits) = bits.
Proof.
  intros Hb. unfold des_bits, ser_words.
  set (k := N.to_nat (2 * tsize t)).
  assert (Hk : 256 ^ N.of_nat k = 2 ^ tbits t) by (unfold k; destruct t; reflexivity).
  destruct be.
  - rewrite bytes_words_roundtrip; [|rewrite be_bytes_length; apply tsize_even|apply be_bytes_octets].
    apply of_be_be_bytes. rewrite Hk. exact Hb.
  - rewrite bytes_words_roundtrip; [|rewrite le_bytes_length; apply tsize_even|apply le_bytes_octets].
    apply of_le_le_bytes. rewrite Hk. exact Hb.
Qed.

Lemma words_of_bytes_length l : length (words_of_bytes l) = Nat.div2 (length l).
Proof.
  revert l. fix IH 1. intros [|a [|b r]]; [reflexivity|reflexivity|].
  cbn [words_of_bytes length Nat.div2]. f_equal. apply IH.
Qed.

Lemma ser_words_length be t bits : N.of_nat (length (ser_words be t bits)) = tsize t.
Proof.
  unfold ser_words. rewrite words_of_bytes_length.
  destruct be; rewrite ?be_bytes_length, ?le_bytes_length; destruct t; reflexivity.
Qed.

(* ================= typed set (C01) ================= *)
(* a refused set leaves the whole table - every word, every flag - unchanged *)
Theorem setx_refused_unchanged t idx v c r t' : reg_setx t idx v c = (r, t') -> fst r <> ASuccess -> t' = t.
Proof.
  unfold reg_setx. intros H Hr.
  destruct (t_init t); cbn [negb] in H; [|injection H as _ <-; reflexivity].
  destruct (entry_at t idx) as [e|]; [|injection H as _ <-; reflexivity].
  destruct (c && negb (validate (t_during t) e v)); [injection H as _ <-; reflexivity|].
  destruct (entry_area t e) as [[i a]|]; [|injection H as _ <-; reflexivity].
  destruct (negb (area_can_write a)); [injection H as _ <-; reflexivity|].
  destruct (negb (ser_ok v)); [injection H as _ <-; reflexivity|].
  injection H as <- _. cbn in Hr. contradiction.
Qed.

(* 'no such entry' exactly for a handle that is not a register of the table - checked or not *)
Theorem setx_noentry_iff t idx v c : t_init t = true ->
  (fst (fst (reg_setx t idx v c)) = ANoEntry <-> N.of_nat (length (t_entries t)) <= idx).
Proof.
  intros Hi. unfold reg_setx, entry_at. rewrite Hi. cbn [negb].
  destruct (N.ltb_spec idx (N.of_nat (length (t_entries t)))) as [Hlt|Hge].
  - destruct (nth_error (t_entries t) (N.to_nat idx)) as [e|] eqn:En.
    + split; [|lia]. destruct (c && negb (validate (t_during t) e v)); [discriminate|].
      destruct (entry_area t e) as [[i a]|]; [|discriminate].
      destruct (negb (area_can_write a)); [discriminate|]. destruct (negb (ser_ok v)); discriminate.
    + apply nth_error_None in En. lia.
  - split; [intros _; exact Hge|reflexivity].
Qed.

(* the checked set succeeds exactly when: handle valid, type and constraint satisfied, write callback present, float acceptable *)
Theorem set_success_iff t idx v e i a : t_init t = true -> entry_at t idx = Some e -> entry_area t e = Some (i, a) ->
  (fst (fst (reg_setx t idx v true)) = ASuccess <->
   validate (t_during t) e v = true /\ area_can_write a = true /\ ser_ok v = true).
Proof.
  intros Hi He Ha. unfold reg_setx. rewrite Hi, He, Ha. cbn [negb andb].
  destruct (validate (t_during t) e v); cbn [negb]; [|split; [discriminate|intros (H & _); discriminate]].
  destruct (area_can_write a); cbn [negb]; [|split; [discriminate|intros (_ & H & _); discriminate]].
  destruct (ser_ok v); cbn [negb]; [split; auto|split; [discriminate|intros (_ & _ & H); discriminate]].
Qed.

(* the unchecked variant skips only the type and constraint checks *)
Theorem set_unsafe_success_iff t idx v e i a : t_init t = true -> entry_at t idx = Some e -> entry_area t e = Some (i, a) ->
  (fst (fst (reg_setx t idx v false)) = ASuccess <-> area_can_write a = true /\ ser_ok v = true).
Proof.
  intros Hi He Ha. unfold reg_setx. rewrite Hi, He, Ha. cbn [negb andb].
  destruct (area_can_write a); cbn [negb]; [|split; [discriminate|intros (H & _); discriminate]].
  destruct (ser_ok v); cbn [negb]; [split; auto|split; [discriminate|intros (_ & H); discriminate]].
Qed.

(* ... and with a value the checked variant accepts it stores exactly the same *)
Theorem set_unsafe_same_as_checked t idx v : fst (fst (reg_setx t idx v true)) = ASuccess ->
  reg_setx t idx v false = reg_setx t idx v true.
Proof.
  unfold reg_setx. destruct (t_init t); cbn [negb]; [|discriminate].
  destruct (entry_at t idx) as [e|]; [|discriminate]. cbn [andb].
  destruct (validate (t_during t) e v); cbn [negb]; [reflexivity|discriminate].
Qed.

(* ---- successful set: the register's words are the value in the table's byte order, get returns it ---- *)
Lemma find_area_props areas : forall addr k i a, find_area areas addr k = Some (i, a) ->
  addr_in_area a addr = true /\ (k <= i)%nat /\ nth_error areas (i - k) = Some a.
Proof.
  induction areas as [|x r IH]; intros addr k i a H; cbn [find_area] in H; [discriminate|].
  destruct (addr_in_area x addr) eqn:E.
  - injection H as <- <-. rewrite Nat.sub_diag. auto.
  - destruct (IH _ _ _ _ H) as (H1 & H2 & H3). split; [exact H1|]. split; [lia|].
    replace (i - k)%nat with (S (i - S k)) by lia. exact H3.
Qed.

Lemma find_area_upd areas : forall addr k i a a', find_area areas addr k = Some (i, a) ->
  a_base a' = a_base a -> a_size a' = a_size a ->
  find_area (upd areas (i - k) a') addr k = Some (i, a').
Proof.
  induction areas as [|x r IH]; intros addr k i a a' H Hb Hs; cbn [find_area] in H; [discriminate|].
  destruct (addr_in_area x addr) eqn:E.
  - injection H as <- <-. rewrite Nat.sub_diag. cbn [upd find_area].
    unfold addr_in_area in *. rewrite Hb, Hs, E. reflexivity.
  - pose proof (find_area_props _ _ _ _ _ H) as (_ & Hk & _).
    replace (i - k)%nat with (S (i - S k)) by lia. cbn [upd find_area]. rewrite E.
    apply IH with (a := a); assumption.
Qed.

(* a range lying inside one area is read from that area alone *)
Lemma read_words_in_area t addr n i a fuel rr :
  find_area (t_areas t) addr 0 = Some (i, a) -> 0 < n -> addr + n <= a_base a + a_size a -> (0 < fuel)%nat ->
  read_words fuel t addr n rr =
  Some (if rr && negb (area_is_readable a) then repeat 0 (N.to_nat n) else area_read a (addr - a_base a) n).
Proof.
  intros Hf Hn Hfit Hfu. destruct fuel as [|f]; [lia|]. cbn [read_words].
  destruct (N.eqb_spec n 0); [lia|]. rewrite Hf.
  replace (N.min (a_base a + a_size a - addr) n) with n by lia.
  rewrite N.sub_diag.
  assert (E : read_words f t (addr + n) 0 rr = Some []) by (destruct f; reflexivity).
  rewrite E, app_nil_r. reflexivity.
Qed.

Theorem set_then_get t idx v c e i a :
  t_init t = true -> entry_at t idx = Some e -> entry_area t e = Some (i, a) ->
  e_addr e + tsize (e_type e) <= a_base a + a_size a ->                 (* the register lies wholly inside its area *)
  N.of_nat (length (a_words a)) = a_size a ->
  v_type v = e_type e -> v_bits v < 2 ^ tbits (e_type e) ->
  fst (fst (reg_setx t idx v c)) = ASuccess ->
  let t' := snd (reg_setx t idx v c) in
  reg_get t' idx = ((ASuccess, 0), Some v) /\
  entry_words t' e = Some (ser_words (t_be t) (e_type e) (v_bits v)) /\
  t_entries t' = t_entries t /\ t_init t' = true.
Proof.
  intros Hi He Ha Hfit Hlen Hty Hbits Hs t'.
  assert (Hset : reg_setx t idx v c =
    ((ASuccess, 0), set_area t i (area_write a (e_addr e - a_base a) (ser_words (t_be t) (e_type e) (v_bits v))))).
  { revert Hs. unfold reg_setx. rewrite Hi, He, Ha. cbn [negb].
    destruct (c && negb (validate (t_during t) e v)); [discriminate|].
    destruct (negb (area_can_write a)); [discriminate|]. destruct (negb (ser_ok v)) eqn:Eo; [discriminate|]. reflexivity. }
  assert (Hok : ser_ok v = true).
  { revert Hs. unfold reg_setx. rewrite Hi, He, Ha. cbn [negb].
    destruct (c && negb (validate (t_during t) e v)); [discriminate|].
    destruct (negb (area_can_write a)); [discriminate|]. destruct (ser_ok v); [reflexivity|discriminate]. }
  unfold t'. rewrite Hset. cbn [snd].
  set (ws := ser_words (t_be t) (e_type e) (v_bits v)).
  set (a' := area_write a (e_addr e - a_base a) ws).
  set (t1 := set_area t i a').
  unfold entry_area in Ha.
  destruct (find_area_props _ _ _ _ _ Ha) as (Hin & _ & Hnth).
  unfold addr_in_area in Hin. apply andb_prop in Hin as [H1 H2]. apply N.leb_le in H1. apply N.ltb_lt in H2.
  assert (Hws : N.of_nat (length ws) = tsize (e_type e)) by apply ser_words_length.
  assert (Hts : 0 < tsize (e_type e)) by (destruct (e_type e); reflexivity).
  assert (Hfa : find_area (t_areas t1) (e_addr e) 0 = Some (i, a')).
  { unfold t1, set_area; cbn [t_areas]. rewrite <- (Nat.sub_0_r i) at 1.
    apply find_area_upd with (a := a); [exact Ha|reflexivity|reflexivity]. }
  assert (Hew : entry_words t1 e = Some ws).
  { unfold entry_words. rewrite (read_words_in_area t1 _ _ i a'); [|exact Hfa|exact Hts|exact Hfit|unfold area_fuel; lia].
    cbn [andb]. f_equal. unfold area_read, a', area_write, area_with_words; cbn [a_words a_base].
    replace (N.to_nat (tsize (e_type e))) with (length ws) by lia.
    apply slice_blit_same. lia. }
  assert (Hent : entry_at t1 idx = Some e) by exact He.
  assert (Hi1 : t_init t1 = true) by exact Hi.
  assert (Hbe : t_be t1 = t_be t) by reflexivity.
  split; [|split; [exact Hew|split; [reflexivity|exact Hi1]]].
  unfold reg_get. rewrite Hi1. cbn [negb]. rewrite Hent, Hew, Hbe.
  unfold ws. rewrite ser_des_roundtrip by exact Hbits.
  assert (Ev : {| v_type := e_type e; v_bits := v_bits v |} = v) by (destruct v; cbn in *; subst; reflexivity).
  rewrite Ev, Hok. reflexivity.
Qed.

(* frame of a successful set: every other area is untouched and, inside the register's area, every word outside
   the register's own words keeps its value *)
Theorem set_frame t idx v c e i a :
  t_init t = true -> entry_at t idx = Some e -> entry_area t e = Some (i, a) ->
  e_addr e + tsize (e_type e) <= a_base a + a_size a -> N.of_nat (length (a_words a)) = a_size a ->
  fst (fst (reg_setx t idx v c)) = ASuccess ->
  let t' := snd (reg_setx t idx v c) in
  (forall j, j <> i -> nth_error (t_areas t') j = nth_error (t_areas t) j) /\
  (exists a', nth_error (t_areas t') i = Some a' /\
     firstn (N.to_nat (e_addr e - a_base a)) (a_words a') = firstn (N.to_nat (e_addr e - a_base a)) (a_words a) /\
     skipn (N.to_nat (e_addr e - a_base a + tsize (e_type e))) (a_words a')
       = skipn (N.to_nat (e_addr e - a_base a + tsize (e_type e))) (a_words a) /\
     length (a_words a') = length (a_words a)).
Proof.
  intros Hi He Ha Hfit Hlen Hs t'.
  assert (Hset : reg_setx t idx v c =
    ((ASuccess, 0), set_area t i (area_write a (e_addr e - a_base a) (ser_words (t_be t) (e_type e) (v_bits v))))).
  { revert Hs. unfold reg_setx. rewrite Hi, He, Ha. cbn [negb].
    destruct (c && negb (validate (t_during t) e v)); [discriminate|].
    destruct (negb (area_can_write a)); [discriminate|]. destruct (negb (ser_ok v)) eqn:Eo; [discriminate|]. reflexivity. }
  unfold t'. rewrite Hset. cbn [snd set_area t_areas].
  set (ws := ser_words (t_be t) (e_type e) (v_bits v)).
  assert (Hws : N.of_nat (length ws) = tsize (e_type e)) by apply ser_words_length.
  unfold entry_area in Ha. destruct (find_area_props _ _ _ _ _ Ha) as (_ & _ & Hnth). rewrite Nat.sub_0_r in Hnth.
  assert (Hil : (i < length (t_areas t))%nat) by (apply nth_error_Some; congruence).
  split.
  - intros j Hj. apply nth_error_upd_neq. auto.
  - eexists. split.
    + apply nth_error_upd_eq. exact Hil.
    + unfold area_write, area_with_words; cbn [a_words]. split; [|split].
      * apply blit_firstn. lia.
      * apply blit_skipn. lia.
      * apply blit_length.
Qed.

(* ================= uninitialised tables (C04) ================= *)
Theorem uninit_everything t : t_init t = false ->
  (forall idx v c, reg_setx t idx v c = ((AUninit, idx), t)) /\
  (forall idx, reg_get t idx = ((AUninit, idx), None)) /\
  (forall cl idx v, reg_bitop cl t idx v = ((AUninit, idx), t)) /\
  (forall addr n buf, block_write t addr n buf = ((AUninit, addr), t)) /\
  (forall addr n, block_read t addr n = ((AUninit, addr), [])) /\
  (forall addr off s, foreach_in t addr off s = ((AUninit, 0), [])) /\
  sanitise t = ((AUninit, 0), t).
Proof.
  intros H. repeat split; intros; unfold reg_setx, reg_get, reg_bitop, block_write, block_read, foreach_in, sanitise, reg_get; rewrite H; reflexivity.
Qed.

Theorem init_failure_uninit t r t' : reg_init t = (r, t') -> fst r <> ISuccess -> t_init t' = false.
Proof.
  unfold reg_init. intros H Hr.
  destruct (t_areas (with_flags t false true)) as [|a0 ar]; [injection H as _ <-; reflexivity|].
  destruct (check_areas a0 ar 1); [injection H as _ <-; reflexivity|].
  destruct (match t_entries (with_flags t false true) with [] => None | e0 :: er => check_entries e0 er 1 end);
    [injection H as _ <-; reflexivity|].
  destruct (load_defaults _ _ _) as [[r1|] t2]; [injection H as _ <-; reflexivity|].
  injection H as <- _. cbn in Hr. contradiction.
Qed.

(* the initialised flag is set exactly by a successful initialisation *)
Theorem init_flag_iff_success t :
  t_init (snd (reg_init t)) = true -> fst (reg_init t) = (ISuccess, 0) /\ t_during (snd (reg_init t)) = false.
Proof.
  unfold reg_init.
  destruct (t_areas (with_flags t false true)) as [|a0 ar]; [cbn; discriminate|].
  destruct (check_areas a0 ar 1) as [p|]; [cbn; discriminate|].
  destruct (match t_entries (with_flags t false true) with [] => None | e0 :: er => check_entries e0 er 1 end) as [p|];
    [cbn; discriminate|].
  destruct (load_defaults _ _ _) as [[r1|] t2]; [cbn; discriminate|]. cbn. auto.
Qed.

(* ================= block writes (C02) ================= *)
Theorem block_write_failure_atomic t addr n buf r t' :
  block_write t addr n buf = (r, t') -> fst r <> ASuccess -> t' = t.
Proof.
  unfold block_write. intros H Hr.
  destruct (negb (t_init t)); [injection H as _ <-; reflexivity|].
  destruct (n =? 0); [injection H as <- _; cbn in Hr; contradiction|].
  destruct (first_readonly (t_areas t) addr n); [injection H as _ <-; reflexivity|].
  destruct (first_hole (area_fuel t) t addr n); [injection H as _ <-; reflexivity|].
  destruct (malformed t (t_entries t) addr n buf); [injection H as _ <-; reflexivity|].
  injection H as <- _. cbn in Hr. contradiction.
Qed.

Theorem block_write_zero t addr buf : t_init t = true -> block_write t addr 0 buf = ((ASuccess, 0), t).
Proof. intros H. unfold block_write. rewrite H. reflexivity. Qed.

(* the failure classes in their order of precedence, each with the address at which it arises *)
Theorem block_write_report t addr n buf : t_init t = true -> n <> 0 ->
  fst (block_write t addr n buf) =
  match first_readonly (t_areas t) addr n with
  | Some a => (AReadOnly, a)
  | None => match first_hole (area_fuel t) t addr n with
            | Some a => (ANoEntry, a)
            | None => match malformed t (t_entries t) addr n buf with
                      | Some r => r
                      | None => (ASuccess, 0)
                      end
            end
  end.
Proof.
  intros Hi Hn. unfold block_write. rewrite Hi. cbn [negb]. destruct (N.eqb_spec n 0); [contradiction|].
  destruct (first_readonly _ _ _); [reflexivity|]. destruct (first_hole _ _ _ _); [reflexivity|].
  destruct (malformed _ _ _ _ _); reflexivity.
Qed.

(* READONLY: the reported address lies inside the request and inside an area that is not writeable *)
Lemma first_readonly_sound areas addr n x : n <> 0 -> Forall (fun a => 0 < a_size a) areas -> first_readonly areas addr n = Some x ->
  addr <= x < addr + n /\ exists a, In a areas /\ area_is_writeable a = false /\ addr_in_area a x = true.
Proof.
  intros Hn Hpos. induction areas as [|a r IH]; cbn [first_readonly]; [discriminate|].
  inversion Hpos as [|? ? Hsz Hpos']; subst.
  destruct ((addr <? a_base a + a_size a) && (a_base a <? addr + n) && negb (area_is_writeable a)) eqn:E.
  - intros [= <-]. apply andb_prop in E as [E E3]. apply andb_prop in E as [E1 E2].
    apply N.ltb_lt in E1, E2. apply negb_true_iff in E3.
    destruct (N.max_spec addr (a_base a)) as [[Hm ->]|[Hm ->]].
    all: (split; [lia|]); exists a; (split; [left; reflexivity|]); (split; [exact E3|]);
      unfold addr_in_area; apply andb_true_intro; (split; [apply N.leb_le; lia|apply N.ltb_lt; lia]).
  - intros H. destruct (IH Hpos' H) as (H1 & a' & Hin & H2 & H3). split; [exact H1|]. exists a'. split; [right; exact Hin|auto].
Qed.

(* NOENTRY: when no hole is reported every address of the request is mapped *)
Lemma first_hole_none fuel : forall t addr n, first_hole fuel t addr n = None ->
  forall x, addr <= x < addr + n -> exists i a, find_area (t_areas t) x 0 = Some (i, a).
Proof.
  induction fuel as [|f IH]; intros t addr n H x Hx; cbn [first_hole] in H.
  - destruct (N.eqb_spec n 0); [lia|discriminate].
  - destruct (N.eqb_spec n 0); [lia|].
    destruct (find_area (t_areas t) addr 0) as [[i a]|] eqn:Ef; [|discriminate].
    set (k := N.min (a_base a + a_size a - addr) n) in *.
    destruct (N.lt_ge_cases x (addr + k)) as [Hlt|Hge].
    + (* x lies in the same area as addr *)
      destruct (find_area_props _ _ _ _ _ Ef) as (Hin & _ & _).
      unfold addr_in_area in Hin. apply andb_prop in Hin as [H1 H2]. apply N.leb_le in H1. apply N.ltb_lt in H2.
      assert (Hinx : addr_in_area a x = true).
      { unfold addr_in_area. apply andb_true_intro. split; [apply N.leb_le; lia|apply N.ltb_lt; unfold k in Hlt; lia]. }
      (* some area contains x, hence find_area finds one *)
      clear -Hinx Ef. revert Ef. generalize 0%nat as j. induction (t_areas t) as [|y r IHr]; intros j Ef; cbn [find_area] in *; [discriminate|].
      destruct (addr_in_area y x) eqn:Eyx; [eauto|].
      destruct (addr_in_area y addr) eqn:Eya; [injection Ef as _ <-; rewrite Hinx in Eyx; discriminate|]. eapply IHr. exact Ef.
    + apply (IH t (addr + k) (n - k) H). unfold k in *. lia.
Qed.

(* success implies: every register the block overlaps decodes and validates after the overlay *)
Lemma malformed_none t es addr n buf : malformed t es addr n buf = None ->
  forall e, In e es -> overlaps e addr n = true ->
  exists cur, entry_words t e = Some cur /\
    let lo := N.max addr (e_addr e) in let hi := N.min (addr + n) (e_addr e + tsize (e_type e)) in
    let new := blit cur (N.to_nat (lo - e_addr e)) (slice buf (N.to_nat (lo - addr)) (N.to_nat (hi - lo))) in
    let v := {| v_type := e_type e; v_bits := des_bits (t_be t) (e_type e) new |} in
    ser_ok v = true /\ validate (t_during t) e v = true.
Proof.
  induction es as [|e0 r IH]; intros H e Hin Ho; [contradiction|]. cbn [malformed] in H.
  destruct Hin as [<-|Hin].
  - rewrite Ho in H. destruct (entry_words t e0) as [cur|]; [|discriminate]. exists cur. split; [reflexivity|].
    cbv zeta in *. destruct (ser_ok _); cbn [negb] in H; [|discriminate].
    destruct (validate _ _ _); cbn [negb] in H; [auto|discriminate].
  - destruct (overlaps e0 addr n).
    + destruct (entry_words t e0) as [cur|]; [|discriminate]. cbv zeta in H.
      destruct (negb (ser_ok _)); [discriminate|]. destruct (negb (validate _ _ _)); [discriminate|]. apply IH; assumption.
    + apply IH; assumption.
Qed.

Lemma malformed_not_success t es addr n buf r : malformed t es addr n buf = Some r -> fst r <> ASuccess.
Proof.
  induction es as [|e0 rest IH]; cbn [malformed]; [discriminate|].
  destruct (overlaps e0 addr n); [|exact IH].
  destruct (entry_words t e0) as [cur|]; [|intros [= <-]; discriminate]. cbv zeta.
  destruct (negb (ser_ok _)); [intros [= <-]; discriminate|].
  destruct (negb (validate _ _ _)); [intros [= <-]; discriminate|exact IH].
Qed.

Lemma block_write_success_form t addr n buf t' : block_write t addr n buf = ((ASuccess, 0), t') -> n <> 0 ->
  first_readonly (t_areas t) addr n = None /\ first_hole (area_fuel t) t addr n = None /\
  malformed t (t_entries t) addr n buf = None /\
  t' = set_entries (write_words (area_fuel t) t addr (firstn (N.to_nat n) buf))
                   (taint (t_entries (write_words (area_fuel t) t addr (firstn (N.to_nat n) buf))) addr n).
Proof.
  unfold block_write. intros H Hn.
  destruct (negb (t_init t)); [discriminate|]. destruct (N.eqb_spec n 0); [contradiction|].
  destruct (first_readonly (t_areas t) addr n) eqn:Er; [discriminate|].
  destruct (first_hole (area_fuel t) t addr n) eqn:Eh; [discriminate|].
  destruct (malformed t (t_entries t) addr n buf) as [r0|] eqn:Em;
    [injection H as -> _; exfalso; exact (malformed_not_success _ _ _ _ _ _ Em eq_refl)|].
  injection H as <-. auto.
Qed.

Lemma write_words_entries fuel : forall tt a ws, t_entries (write_words fuel tt a ws) = t_entries tt.
Proof.
  induction fuel as [|f IH]; intros tt a ws; destruct ws as [|w ws']; cbn [write_words]; try reflexivity.
  destruct (find_area (t_areas tt) a 0) as [[i ar]|]; [|reflexivity]. rewrite IH. reflexivity.
Qed.

Theorem block_write_success_validated t addr n buf t' : block_write t addr n buf = ((ASuccess, 0), t') -> n <> 0 ->
  (forall x, addr <= x < addr + n -> exists i a, find_area (t_areas t) x 0 = Some (i, a)) /\
  first_readonly (t_areas t) addr n = None /\
  (forall e, In e (t_entries t) -> overlaps e addr n = true ->
     exists cur, entry_words t e = Some cur /\
       let lo := N.max addr (e_addr e) in let hi := N.min (addr + n) (e_addr e + tsize (e_type e)) in
       let new := blit cur (N.to_nat (lo - e_addr e)) (slice buf (N.to_nat (lo - addr)) (N.to_nat (hi - lo))) in
       let v := {| v_type := e_type e; v_bits := des_bits (t_be t) (e_type e) new |} in
       ser_ok v = true /\ validate (t_during t) e v = true) /\
  (* exactly the overlapped registers become touched, the others keep their mark *)
  map e_touched (t_entries t') = map (fun e => e_touched e || overlaps e addr n) (t_entries t).
Proof.
  intros H Hn. destruct (block_write_success_form _ _ _ _ _ H Hn) as (Er & Eh & Em & ->).
  split; [apply (first_hole_none _ _ _ _ Eh)|]. split; [exact Er|]. split; [apply (malformed_none _ _ _ _ _ Em)|].
  unfold set_entries at 1. cbn [t_entries]. rewrite write_words_entries. unfold taint. rewrite map_map. apply map_ext. intros e.
  destruct (overlaps e addr n); cbn; [rewrite orb_true_r|rewrite orb_false_r]; reflexivity.
Qed.

(* ================= block reads and iteration (C03) ================= *)
Theorem block_read_zero t addr : t_init t = true -> block_read t addr 0 = ((ASuccess, 0), []).
Proof. intros H. unfold block_read. rewrite H. reflexivity. Qed.

Theorem block_read_iff t addr n : t_init t = true -> n <> 0 ->
  (fst (fst (block_read t addr n)) = ANoEntry <-> first_hole (area_fuel t) t addr n <> None) /\
  (forall x, first_hole (area_fuel t) t addr n = Some x -> block_read t addr n = ((ANoEntry, x), [])).
Proof.
  intros Hi Hn. unfold block_read. rewrite Hi. cbn [negb]. destruct (N.eqb_spec n 0); [contradiction|].
  destruct (first_hole (area_fuel t) t addr n) as [x|].
  - split; [split; [discriminate|reflexivity]|intros y [= <-]; reflexivity].
  - split; [|discriminate]. split; [|intros H; contradiction H; reflexivity].
    destruct (read_words _ _ _ _ _); discriminate.
Qed.

(* inside one area: exactly the stored words, or zeros when the area is not readable *)
Theorem block_read_one_area t addr n i a : t_init t = true -> n <> 0 ->
  find_area (t_areas t) addr 0 = Some (i, a) -> addr + n <= a_base a + a_size a ->
  block_read t addr n = ((ASuccess, 0), if area_is_readable a then area_read a (addr - a_base a) n else repeat 0 (N.to_nat n)).
Proof.
  intros Hi Hn Hf Hfit. unfold block_read. rewrite Hi. cbn [negb]. destruct (N.eqb_spec n 0); [contradiction|].
  assert (Hh : first_hole (area_fuel t) t addr n = None).
  { unfold area_fuel. cbn [first_hole]. destruct (N.eqb_spec n 0); [contradiction|]. rewrite Hf.
    replace (N.min (a_base a + a_size a - addr) n) with n by lia. rewrite N.sub_diag.
    destruct (length (t_areas t)); reflexivity. }
  rewrite Hh. rewrite (read_words_in_area t addr n i a) by (auto; try lia; unfold area_fuel; lia).
  cbn [andb]. destruct (area_is_readable a); reflexivity.
Qed.

(* iteration with a callback that always returns 0: the handles of exactly the registers overlapping the range,
   ascending - for a table whose registers are sorted by address *)
Fixpoint sorted_entries (es : list entry) : Prop :=
  match es with
  | [] => True
  | e :: r => (forall e', In e' r -> e_addr e + tsize (e_type e) <= e_addr e') /\ sorted_entries r
  end.

Lemma filter_none {A} (f : A -> bool) l : (forall x, In x l -> f x = false) -> filter f l = [].
Proof. induction l as [|x r IH]; intros H; cbn; [reflexivity|]. rewrite (H x (or_introl eq_refl)). apply IH. intros y Hy. apply H. right. exact Hy. Qed.

Lemma foreach_all es : forall s addr off, sorted_entries es -> off <> 0 ->
  foreach_loop es (N.of_nat s) addr off [] =
  ((ASuccess, 0), map (fun p => N.of_nat (fst p)) (filter (fun p => overlaps (snd p) addr off) (combine (seq s (length es)) es))).
Proof.
  induction es as [|e r IH]; intros s addr off Hs Ho; [reflexivity|].
  destruct Hs as [Hfirst Hrest]. cbn [foreach_loop length seq combine filter snd].
  unfold overlaps at 1.
  replace (N.of_nat s + 1) with (N.of_nat (S s)) by lia.
  destruct (N.leb_spec (e_addr e + tsize (e_type e)) addr) as [Hb|Hb].
  - destruct (N.ltb_spec addr (e_addr e + tsize (e_type e))); [lia|]. cbn [andb].
    apply IH; assumption.
  - destruct (N.ltb_spec addr (e_addr e + tsize (e_type e))); [|lia]. cbn [andb].
    destruct (N.leb_spec (addr + off) (e_addr e)) as [Hbeyond|Hin].
    + destruct (N.ltb_spec (e_addr e) (addr + off)); [lia|].
      rewrite filter_none; [reflexivity|].
      intros [j e'] Hin'. apply in_combine_r in Hin'. cbn [snd].
      specialize (Hfirst e' Hin'). unfold overlaps. destruct (N.ltb_spec (e_addr e') (addr + off)); [lia|]. apply andb_false_r.
    + destruct (N.ltb_spec (e_addr e) (addr + off)); [|lia].
      rewrite IH by assumption. reflexivity.
Qed.

Theorem foreach_overlapping t addr off : t_init t = true -> off <> 0 -> sorted_entries (t_entries t) ->
  foreach_in t addr off [] =
  ((ASuccess, 0), map (fun p => N.of_nat (fst p))
     (filter (fun p => overlaps (snd p) addr off) (combine (seq 0 (length (t_entries t))) (t_entries t)))).
Proof.
  intros Hi Ho Hs. unfold foreach_in. rewrite Hi. cbn [negb]. destruct (N.eqb_spec off 0); [contradiction|].
  apply (foreach_all (t_entries t) 0%nat); assumption.
Qed.

(* the first non-zero callback result ends the iteration: negative = FAILURE at that register's address *)
Theorem foreach_stops es i addr off z zs e r : es = e :: r -> overlaps e addr off = true -> z <> 0%Z ->
  foreach_loop es i addr off (z :: zs) =
  if (z <? 0)%Z then ((AFailure, e_addr e), [i]) else ((ASuccess, 0), [i]).
Proof.
  intros -> Ho Hz. cbn [foreach_loop]. unfold overlaps in Ho. apply andb_prop in Ho as [H1 H2].
  apply N.ltb_lt in H1, H2.
  destruct (N.leb_spec (e_addr e + tsize (e_type e)) addr); [lia|].
  destruct (N.leb_spec (addr + off) (e_addr e)); [lia|].
  destruct (Z.eqb_spec z 0); [contradiction|]. reflexivity.
Qed.

(* ================= bit operations and refusals (C05) ================= *)
Theorem bitop_spec clear t idx v cur : reg_get t idx = ((ASuccess, 0), Some cur) ->
  reg_bitop clear t idx v =
  if negb (rtype_eqb (v_type cur) (v_type v)) || negb (is_unsigned (v_type cur)) then ((AInvalid, idx), t)
  else reg_setx t idx {| v_type := v_type cur;
                         v_bits := if clear then N.ldiff (v_bits cur) (v_bits v) else N.lor (v_bits cur) (v_bits v) |} true.
Proof. intros H. unfold reg_bitop. rewrite H. reflexivity. Qed.

Theorem bitop_refused_unchanged clear t idx v r t' : reg_bitop clear t idx v = (r, t') -> fst r <> ASuccess -> t' = t.
Proof.
  unfold reg_bitop. destruct (reg_get t idx) as [[c a] o].
  destruct c; try (intros [= _ <-]; reflexivity).
  destruct o as [cur|]; [|intros [= _ <-]; reflexivity].
  destruct (negb (rtype_eqb (v_type cur) (v_type v)) || negb (is_unsigned (v_type cur))); [intros [= _ <-]; reflexivity|].
  apply setx_refused_unchanged.
Qed.

(* a register written by a successful checked operation satisfies its constraint afterwards *)
Theorem checked_set_establishes_constraint t idx v e i a :
  t_init t = true -> entry_at t idx = Some e -> entry_area t e = Some (i, a) ->
  e_addr e + tsize (e_type e) <= a_base a + a_size a -> N.of_nat (length (a_words a)) = a_size a ->
  v_bits v < 2 ^ tbits (e_type e) ->
  fst (fst (reg_setx t idx v true)) = ASuccess ->
  let t' := snd (reg_setx t idx v true) in
  exists cur, reg_get t' idx = ((ASuccess, 0), Some cur) /\ validate (t_during t) e cur = true.
Proof.
  intros Hi He Ha Hfit Hlen Hbits Hs t'.
  pose proof (proj1 (set_success_iff t idx v e i a Hi He Ha) Hs) as (Hv & _ & _).
  assert (Hty : v_type v = e_type e).
  { unfold validate in Hv. destruct (rtype_eqb (e_type e) (v_type v)) eqn:E; [|discriminate].
    destruct (e_type e), (v_type v); try discriminate; reflexivity. }
  destruct (set_then_get t idx v true e i a Hi He Ha Hfit Hlen Hty Hbits Hs) as (Hg & _).
  exists v. split; [exact Hg|exact Hv].
Qed.
