(* C11, octet-granular crash points: a store whose data write or checksum write is torn after k octets reports IO_ERROR and
   leaves exactly the image "old overlaid with the first k octets written"; reset never reports a short write as success.
   Together with crash_before_data (k = 0 on the data write), crash_after_data (k = 0 on the checksum write) and
   store_part_spec (no cut) these are all the cut points of a store: it issues exactly two write calls. *)
From Ufw Require Import Base.Bits Model.Persist Proof.ListLemmas Proof.LenpLemmas Proof.PersistLemmas Proof.PersistRegion.
From Coq Require Import Lia Bool ZifyN ZifyBool.
Local Open Scope N_scope.

(* a write that transfers only its first k octets *)
Lemma med_write_short m addr xs k r : m_wr m = Fshort k :: r -> inwin m addr (N.of_nat (length xs)) ->
  exists m', med_write m addr xs = (N.min k (N.of_nat (length xs)), m') /\
             m_img m' = blit (m_img m) (N.to_nat (addr - m_base m)) (firstn (N.to_nat (N.min k (N.of_nat (length xs)))) xs) /\
             m_base m' = m_base m /\ m_rd m' = m_rd m /\ m_wr m' = r.
Proof.
  intros Hw (H1 & H2 & H3). unfold med_write. rewrite Hw. cbn [pop_fault granted].
  eexists. split; [reflexivity|]. cbn [m_img m_base m_rd m_wr]. repeat split; auto.
  apply img_write_in; rewrite ?firstn_length; lia.
Qed.

Section Torn.
  Variable step : N -> N -> N.

  (* the data write is torn after k < n octets *)
  Theorem crash_torn_data st m src offset n k r :
    wfr st m -> m_wr m = Fshort k :: r -> offset + n <= p_dsize st -> n <= N.of_nat (length src) -> k < n ->
    exists m', store_part step st m src offset n = (PIoError, m') /\
      at_ m' (p_daddr st) (p_dsize st) = overlay (at_ m (p_daddr st) (p_dsize st)) offset (firstn (N.to_nat k) src) /\
      at_ m' (p_caddr st) (p_csize st) = at_ m (p_caddr st) (p_csize st).
  Proof.
    intros (Hr & Hcs & Hb & H1 & H2 & H3) Hw Hrange Hsrc Hk.
    assert (Hd : p_daddr st = p_caddr st + p_csize st) by (unfold p_daddr; apply wrap32_small; lia).
    unfold store_part. destruct (N.ltb_spec (p_dsize st) (offset + n)); [lia|].
    rewrite wrap32_small by (rewrite Hd; lia).
    set (part := firstn (N.to_nat n) src).
    assert (Hpl : length part = N.to_nat n) by (unfold part; rewrite firstn_length; lia).
    destruct (med_write_short m (p_daddr st + offset) part k r Hw) as (m1 & E1 & I1 & B1 & _);
      [unfold inwin; rewrite Hpl, Hd; lia|].
    rewrite E1, Hpl, N2Nat.id. replace (N.min k n) with k in * by lia.
    destruct (N.eqb_spec k n); [lia|]. cbn [negb]. exists m1. split; [reflexivity|].
    assert (Hw1 : firstn (N.to_nat k) part = firstn (N.to_nat k) src).
    { unfold part. rewrite firstn_firstn. f_equal. lia. }
    rewrite Hpl, N2Nat.id in I1. replace (N.min k n) with k in I1 by lia. rewrite Hw1 in I1.
    set (db := N.to_nat (p_daddr st - m_base m)).
    split.
    - unfold at_, overlay. rewrite I1, B1. fold db.
      replace (N.to_nat (p_daddr st + offset - m_base m)) with (db + N.to_nat offset)%nat by (unfold db; rewrite Hd; lia).
      apply slice_blit_inside; [rewrite firstn_length; lia|unfold db; rewrite Hd; lia].
    - unfold at_. rewrite I1, B1. apply slice_blit_before. rewrite Hd. lia.
  Qed.

  (* the checksum write is torn after k < checksum size octets: the data is the new image, the stored checksum a mixture *)
  Theorem crash_torn_checksum st m src offset n k r :
    wfr st m -> sum_range step st -> m_wr m = Fok :: Fshort k :: r -> offset + n <= p_dsize st -> n <= N.of_nat (length src) -> k < p_csize st ->
    let new := overlay (at_ m (p_daddr st) (p_dsize st)) offset (firstn (N.to_nat n) src) in
    exists m', store_part step st m src offset n = (PIoError, m') /\
      at_ m' (p_daddr st) (p_dsize st) = new /\
      at_ m' (p_caddr st) (p_csize st) =
        blit (at_ m (p_caddr st) (p_csize st)) 0 (firstn (N.to_nat k) (le_bytes (N.to_nat (p_csize st)) (cks step (p_init st) new))).
  Proof.
    intros (Hr & Hcs & Hb & H1 & H2 & H3) Hsr Hw Hrange Hsrc Hk new.
    assert (Hd : p_daddr st = p_caddr st + p_csize st) by (unfold p_daddr; apply wrap32_small; lia).
    unfold store_part. destruct (N.ltb_spec (p_dsize st) (offset + n)); [lia|].
    rewrite wrap32_small by (rewrite Hd; lia).
    set (part := firstn (N.to_nat n) src).
    assert (Hpl : length part = N.to_nat n) by (unfold part; rewrite firstn_length; lia).
    destruct (med_write_fok m (p_daddr st + offset) part _ Hw) as (m1 & E1 & I1 & B1 & R1 & W1);
      [unfold inwin; rewrite Hpl, Hd; lia|].
    rewrite E1. rewrite Hpl, N2Nat.id, N.eqb_refl. cbn [negb].
    set (db := N.to_nat (p_daddr st - m_base m)).
    assert (Hdata1 : at_ m1 (p_daddr st) (p_dsize st) = new).
    { unfold at_, new, overlay. fold part. rewrite I1, B1. fold db.
      replace (N.to_nat (p_daddr st + offset - m_base m)) with (db + N.to_nat offset)%nat by (unfold db; rewrite Hd; lia).
      apply slice_blit_inside; [lia|unfold db; rewrite Hd; lia]. }
    assert (Hck1 : at_ m1 (p_caddr st) (p_csize st) = at_ m (p_caddr st) (p_csize st)).
    { unfold at_. rewrite I1, B1. apply slice_blit_before. rewrite Hd. lia. }
    assert (Hlen1 : length (m_img m1) = length (m_img m)) by (rewrite I1; apply blit_length).
    assert (Hfin : forall m1' sum, m_img m1' = m_img m1 -> m_base m1' = m_base m1 -> m_wr m1' = Fshort k :: r ->
              exists m2, store_checksum st m1' sum = (PIoError, m2) /\ m_base m2 = m_base m1 /\
                m_img m2 = blit (m_img m1) (N.to_nat (p_caddr st - m_base m1)) (firstn (N.to_nat k) (le_bytes (N.to_nat (p_csize st)) sum))).
    { intros m1' sum I B W. unfold store_checksum.
      destruct (med_write_short m1' (p_caddr st) (le_bytes (N.to_nat (p_csize st)) sum) k r W) as (m2 & E2 & I2 & B2 & _).
      { unfold inwin. rewrite le_bytes_length, I, B, Hlen1, B1. lia. }
      rewrite E2. rewrite le_bytes_length, N2Nat.id in *. replace (N.min k (p_csize st)) with k in * by lia.
      destruct (N.eqb_spec k (p_csize st)); [lia|]. exists m2. split; [reflexivity|]. split; [congruence|]. rewrite I2, I, B. reflexivity. }
    assert (Hpost : forall m2 sum, m_base m2 = m_base m1 ->
              m_img m2 = blit (m_img m1) (N.to_nat (p_caddr st - m_base m1)) (firstn (N.to_nat k) (le_bytes (N.to_nat (p_csize st)) sum)) ->
              at_ m2 (p_daddr st) (p_dsize st) = new /\
              at_ m2 (p_caddr st) (p_csize st) = blit (at_ m (p_caddr st) (p_csize st)) 0 (firstn (N.to_nat k) (le_bytes (N.to_nat (p_csize st)) sum))).
    { intros m2 sum B2 I2.
      assert (Hfl : length (firstn (N.to_nat k) (le_bytes (N.to_nat (p_csize st)) sum)) = N.to_nat k) by (rewrite firstn_length, le_bytes_length; lia).
      split.
      - rewrite <- Hdata1. unfold at_. rewrite I2, B2. apply slice_blit_after. rewrite Hfl, Hd, B1. lia.
      - rewrite <- Hck1. unfold at_. rewrite I2, B2.
        replace (N.to_nat (p_caddr st - m_base m1)) with (N.to_nat (p_caddr st - m_base m1) + 0)%nat at 1 by lia.
        apply slice_blit_inside; [rewrite Hfl; lia|rewrite Hlen1, B1; lia]. }
    destruct ((offset =? 0) && (n =? p_dsize st)) eqn:Efull.
    - destruct (Hfin m1 (cks step (p_init st) part) eq_refl eq_refl W1) as (m2 & E2 & B2 & I2).
      exists m2. split; [exact E2|].
      assert (Hnew : new = part).
      { apply andb_true_iff in Efull as [Eo En]. apply N.eqb_eq in Eo. apply N.eqb_eq in En. subst offset n.
        unfold new, overlay. fold part. change (N.to_nat 0) with 0%nat. apply blit_whole. unfold at_. rewrite slice_length by (rewrite Hd; lia). lia. }
      rewrite <- Hnew in I2. apply (Hpost m2 _ B2 I2).
    - destruct (calc_loop_ok step (S (N.to_nat (p_dsize st))) st m1 (p_dsize st) (p_daddr st) (p_init st))
        as (m1' & Ec & Ic & Bc & Rc & Wc & _); auto; try lia; try congruence.
      { unfold inwin. rewrite I1, B1, blit_length, Hd. lia. }
      unfold calc_checksum. rewrite Ec.
      destruct (Hfin m1' (cks step (p_init st) (at_ m1 (p_daddr st) (p_dsize st))) Ic Bc ltac:(congruence)) as (m2 & E2 & B2 & I2).
      exists m2. split; [exact E2|]. rewrite Hdata1 in I2. apply (Hpost m2 _ B2 I2).
  Qed.
End Torn.

(* reset: a short or failed write is never reported as success *)
Lemma writen_loop_full fuel : forall st m addr item rest m', writen_loop fuel st m addr item rest = (PSuccess, m') ->
  exists l, m_log m' = m_log m ++ l /\ all_full l.
Proof.
  induction fuel as [|f IH]; intros st m addr item rest m' H; cbn [writen_loop] in H.
  - destruct (rest =? 0); [|discriminate]. injection H as <-. exists []. rewrite app_nil_r. split; reflexivity.
  - destruct (rest =? 0); [injection H as <-; exists []; rewrite app_nil_r; split; reflexivity|].
    set (toput := if p_bsize st <? rest then p_bsize st else rest) in *.
    destruct (med_write m addr _) as [g m1] eqn:E1.
    destruct (N.eqb_spec g toput) as [Eg|Eg]; cbn [negb] in H; [|discriminate].
    destruct (IH _ _ _ _ _ _ H) as (l & L & F).
    pose proof (med_write_log _ _ _ _ _ E1) as L1. rewrite repeat_length, N2Nat.id in L1.
    exists ((true, addr, toput, g) :: l). rewrite L, L1, <- app_assoc. split; [reflexivity|].
    unfold all_full. cbn [forallb full_transfer]. rewrite Eg, N.eqb_refl. exact F.
Qed.

Theorem reset_no_silent_fault st m item m' : reset st m item = (PSuccess, m') -> exists l, m_log m' = m_log m ++ l /\ all_full l.
Proof.
  unfold reset. destruct (writen_loop _ st m (p_caddr st) item (p_csize st)) as [r1 m1] eqn:E1.
  destruct r1; try discriminate. intros E2.
  destruct (writen_loop_full _ _ _ _ _ _ _ E1) as (l1 & L1 & F1). destruct (writen_loop_full _ _ _ _ _ _ _ E2) as (l2 & L2 & F2).
  exists (l1 ++ l2). rewrite L2, L1, <- app_assoc. split; [reflexivity|]. unfold all_full in *. rewrite forallb_app, F1, F2. reflexivity.
Qed.
