(* The varint model uses the masks, the digit width and the length limits of include/ufw/variable-length-integer.h. *)
From Ufw Require Import Base.Bits Gen.Consts Model.Varint.
From Coq Require Import NArith.
Local Open Scope N_scope.
Lemma varint_constants :
  (c_VARINT_CONTINUATION_MASK, c_VARINT_DATA_MASK, c_VARINT_DATA_BITS) = (128, 127, 7) /\
  vk_max KU32 = c_VARINT_32BIT_MAX_OCTETS /\ vk_max KS32 = c_VARINT_32BIT_MAX_OCTETS /\
  vk_max KU64 = c_VARINT_64BIT_MAX_OCTETS /\ vk_max KS64 = c_VARINT_64BIT_MAX_OCTETS.
Proof. repeat split; reflexivity. Qed.
