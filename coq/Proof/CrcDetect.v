(* Error detection of CRC-16/ARC (bit-serial specification, Model/Crc.v): linearity, bursts of up to 16 bits,
   double-bit errors.  Octets are processed least-significant bit first (reflected algorithm), which is also the order
   in which an asynchronous serial line transmits them: a burst is a set of damaged bits inside a window of 16
   consecutive bits in that order. *)
From Ufw Require Import Base.Bits Model.Crc Proof.Sweep Proof.CexprLemmas Proof.CrcLemmas.
From Coq Require Import Lia Bool ZifyN ZifyBool ZifyNat.
Local Open Scope N_scope.
Local Open Scope bool_scope.

Fixpoint lxor_list (a b : list N) : list N :=
  match a, b with x :: a', y :: b' => N.lxor x y :: lxor_list a' b' | _, _ => [] end.

Lemma lxor_list_length a : forall b, length a = length b -> length (lxor_list a b) = length a.
Proof. induction a as [|x a IH]; intros [|y b] H; cbn in *; try lia. rewrite IH by lia. reflexivity. Qed.

Lemma lxor_4 a b c d : N.lxor (N.lxor a b) (N.lxor c d) = N.lxor (N.lxor a c) (N.lxor b d).
Proof. rewrite !N.lxor_assoc. f_equal. rewrite <- !N.lxor_assoc. f_equal. apply N.lxor_comm. Qed.

Lemma spec_octet_lxor c1 c2 x y : spec_octet (N.lxor c1 c2) (N.lxor x y) = N.lxor (spec_octet c1 x) (spec_octet c2 y).
Proof. unfold spec_octet. rewrite lxor_4, step8_lxor. reflexivity. Qed.

(* the checksum of the sum is the sum of the checksums *)
Theorem spec_crc_lxor a : forall b c1 c2, length a = length b ->
  spec_crc (N.lxor c1 c2) (lxor_list a b) = N.lxor (spec_crc c1 a) (spec_crc c2 b).
Proof.
  unfold spec_crc. induction a as [|x a IH]; intros [|y b] c1 c2 H; cbn in H; try lia; [reflexivity|].
  cbn [lxor_list fold_left].
  rewrite spec_octet_lxor. apply IH. lia.
Qed.

Corollary crc_error a e : length a = length e ->
  spec_crc 0 (lxor_list a e) = N.lxor (spec_crc 0 a) (spec_crc 0 e).
Proof. intros H. change 0 with (N.lxor 0 0) at 1. apply spec_crc_lxor. exact H. Qed.

(* the register never collapses: a non-zero state stays non-zero *)
Lemma bitstep_nonzero x : x < 65536 -> x <> 0 -> bitstep x <> 0.
Proof.
  intros Hx Hn H. unfold bitstep in H. apply N.lxor_eq in H. rewrite N.shiftr_div_pow2 in H. change (2 ^ 1) with 2 in H.
  destruct (N.odd x) eqn:Eo.
  - unfold poly_reflected in H. lia.
  - assert (x mod 2 = 0). { rewrite <- N.bit0_mod, N.bit0_odd, Eo. reflexivity. } lia.
Qed.

Lemma step8_nonzero x : x < 65536 -> x <> 0 -> step8 x <> 0 /\ step8 x < 65536.
Proof.
  intros Hx Hn. unfold step8.
  assert (F : forall y, y < 65536 -> y <> 0 -> bitstep y < 65536 /\ bitstep y <> 0).
  { intros y Hy Hny. split; [apply (bitstep_fits y); exact Hy|apply bitstep_nonzero; assumption]. }
  destruct (F x Hx Hn) as [A1 B1]. destruct (F _ A1 B1) as [A2 B2]. destruct (F _ A2 B2) as [A3 B3].
  destruct (F _ A3 B3) as [A4 B4]. destruct (F _ A4 B4) as [A5 B5]. destruct (F _ A5 B5) as [A6 B6].
  destruct (F _ A6 B6) as [A7 B7]. destruct (F _ A7 B7) as [A8 B8]. auto.
Qed.

Lemma step8_0 : step8 0 = 0.
Proof. reflexivity. Qed.

Lemma crc_zeros_0 n : spec_crc 0 (repeat 0 n) = 0.
Proof. unfold spec_crc. induction n as [|n IH]; [reflexivity|]. cbn [repeat fold_left]. exact IH. Qed.

Lemma crc_zeros_nonzero n : forall s, s < 65536 -> s <> 0 -> spec_crc s (repeat 0 n) <> 0 /\ spec_crc s (repeat 0 n) < 65536.
Proof.
  unfold spec_crc. induction n as [|n IH]; intros s Hs Hn; [auto|].
  cbn [repeat fold_left]. unfold spec_octet at 2 4. rewrite N.lxor_0_r.
  destruct (step8_nonzero s Hs Hn). apply IH; assumption.
Qed.

Lemma spec_crc_fits_16 l : forall c, c < 65536 -> octets l -> spec_crc c l < 65536.
Proof.
  unfold spec_crc. induction l as [|d l IH]; intros c Hc Hl; [exact Hc|].
  inversion Hl as [|? ? Hd Hl']; subst. cbn [fold_left]. apply IH; [|exact Hl'].
  apply (spec_octet_fits c d); [exact Hc|exact Hd].
Qed.

(* an error confined to [mid], anywhere in the message, is seen as soon as [mid] alone would be *)
Theorem crc_embedded a mid b : octets mid -> spec_crc 0 mid <> 0 ->
  spec_crc 0 (repeat 0 a ++ mid ++ repeat 0 b) <> 0.
Proof.
  intros Ho Hm. rewrite !spec_app, crc_zeros_0.
  apply crc_zeros_nonzero; [|exact Hm].
  apply (spec_crc_fits_16 mid 0); [reflexivity|exact Ho].
Qed.

(* ---------- bursts of up to 16 bits ---------- *)
Lemma step8_zero_iff x : x < 65536 -> step8 x = 0 -> x = 0.
Proof. intros Hx H. destruct (N.eq_dec x 0) as [E|E]; [exact E|]. destruct (step8_nonzero x Hx E) as [C _]. contradiction. Qed.

Lemma step8_octet_big : forall x, x < 256 -> x <> 0 -> 256 <= step8 x.
Proof.
  assert (S : all_below 256 (fun x => (x =? 0) || (256 <=? step8 x)) = true) by (vm_compute; reflexivity).
  intros x Hx Hn. pose proof (sweep256 _ S x Hx) as H. cbv beta in H.
  destruct (N.eqb_spec x 0); [contradiction|]. cbn [orb] in H. apply N.leb_le. exact H.
Qed.

Lemma lxor_lt_65536 a b : a < 65536 -> b < 65536 -> N.lxor a b < 65536.
Proof. intros. apply (fitsN_lxor 16); assumption. Qed.

Lemma crc1_eq x : spec_crc 0 [x] = step8 x.
Proof. unfold spec_crc, spec_octet; cbn [fold_left]. rewrite N.lxor_0_l. reflexivity. Qed.
Lemma crc2_eq x y : spec_crc 0 [x; y] = step8 (N.lxor (step8 x) y).
Proof. unfold spec_crc, spec_octet; cbn [fold_left]. rewrite N.lxor_0_l. reflexivity. Qed.
Lemma crc3_eq x y z : spec_crc 0 [x; y; z] = step8 (N.lxor (step8 (N.lxor (step8 x) y)) z).
Proof. unfold spec_crc, spec_octet; cbn [fold_left]. rewrite N.lxor_0_l. reflexivity. Qed.
Lemma step8_fits_16 x : x < 65536 -> step8 x < 65536.
Proof.
  intros Hx. destruct (N.eq_dec x 0) as [E|E]; [rewrite E, step8_0; reflexivity|]. apply step8_nonzero; assumption.
Qed.
Opaque step8.

Lemma crc_one x : x < 256 -> x <> 0 -> spec_crc 0 [x] <> 0.
Proof. intros Hx Hn. rewrite crc1_eq. apply step8_nonzero; [lia|exact Hn]. Qed.

Lemma crc_two x y : x < 256 -> y < 256 -> (x <> 0 \/ y <> 0) -> spec_crc 0 [x; y] <> 0.
Proof.
  intros Hx Hy Hn H. rewrite crc2_eq in H.
  assert (Fx : step8 x < 65536) by (apply step8_fits_16; lia).
  apply step8_zero_iff in H; [|apply lxor_lt_65536; lia].
  apply N.lxor_eq in H.
  destruct (N.eq_dec x 0) as [->|E].
  - rewrite step8_0 in H. lia.
  - pose proof (step8_octet_big x Hx E). lia.
Qed.

Definition burst3_ok (t : N) : bool :=
  let x := t / 256 in let y := t mod 256 in
  let v := step8 (N.lxor (step8 x) y) in
  forallb (fun s => negb (x mod 2 ^ s =? 0) || negb (v <? 2 ^ s) || ((x =? 0) && (y =? 0))) [1; 2; 3; 4; 5; 6; 7].

Lemma burst3_sweep : all_from 65536 0 burst3_ok = true.
Proof. vm_cast_no_check (eq_refl true). Qed.

Lemma crc_three x y z s : x < 256 -> y < 256 -> z < 256 -> 1 <= s <= 7 -> x mod 2 ^ s = 0 -> z < 2 ^ s ->
  (x <> 0 \/ y <> 0 \/ z <> 0) -> spec_crc 0 [x; y; z] <> 0.
Proof.
  intros Hx Hy Hz Hs Hxs Hzs Hn H. rewrite crc3_eq in H.
  set (v := step8 (N.lxor (step8 x) y)) in *.
  assert (Fx : step8 x < 65536) by (apply step8_fits_16; lia).
  assert (Fv : v < 65536) by (subst v; apply step8_fits_16; apply lxor_lt_65536; lia).
  apply step8_zero_iff in H; [|apply lxor_lt_65536; lia]. apply N.lxor_eq in H.
  pose proof (all_from_spec 65536 0 burst3_ok burst3_sweep (256 * x + y)) as B.
  assert (Hr : 0 <= 256 * x + y < 0 + N.of_nat 65536).
  { replace (N.of_nat 65536) with 65536 by (vm_compute; reflexivity). lia. }
  specialize (B Hr). clear Hr. unfold burst3_ok in B.
  replace ((256 * x + y) / 256) with x in B by lia. replace ((256 * x + y) mod 256) with y in B by lia.
  fold v in B. rewrite forallb_forall in B.
  assert (Hin : In s [1; 2; 3; 4; 5; 6; 7]) by (cbn; lia).
  specialize (B s Hin). rewrite Hxs, N.eqb_refl in B. cbn [negb orb] in B.
  destruct (N.ltb_spec v (2 ^ s)) as [_|Hge]; [|lia]. cbn [negb orb] in B.
  apply andb_prop in B as [B1 B2]. apply N.eqb_eq in B1, B2. subst x y.
  assert (v = 0) by (subst v; rewrite step8_0, N.lxor_0_l, step8_0; reflexivity). lia.
Qed.

(* the damaged bits lie inside a window of 16 consecutive bits (least significant bit of each octet first) *)
Definition burst16 (e : list N) : Prop :=
  exists a mid b, e = (repeat 0 a ++ mid ++ repeat 0 b)%list /\ octets mid /\ (exists x, In x mid /\ x <> 0) /\
    ((length mid <= 2)%nat \/
     exists x y z s, mid = [x; y; z] /\ 1 <= s <= 7 /\ x mod 2 ^ s = 0 /\ z < 2 ^ s).

Theorem burst_detected e : burst16 e -> spec_crc 0 e <> 0.
Proof.
  intros (a & mid & b & -> & Ho & (w & Hw & Hwn) & Hshape).
  apply crc_embedded; [exact Ho|].
  destruct Hshape as [Hl|(x & y & z & s & -> & Hs & Hx & Hz)].
  - destruct mid as [|x [|y [|z t]]]; cbn in Hl; try lia.
    + destruct Hw.
    + inversion Ho; subst. destruct Hw as [<-|[]]. apply crc_one; assumption.
    + inversion Ho as [|? ? Hx Ho']; subst. inversion Ho' as [|? ? Hy _]; subst.
      apply crc_two; try assumption. destruct Hw as [<-|[<-|[]]]; auto.
  - inversion Ho as [|? ? Hx' Ho']; subst. inversion Ho' as [|? ? Hy' Ho'']; subst. inversion Ho'' as [|? ? Hz' _]; subst.
    apply (crc_three x y z s); try assumption.
    destruct Hw as [<-|[<-|[<-|[]]]]; auto.
Qed.

(* ---------- double-bit errors ---------- *)
Definition pow2_octet (v : N) : bool := existsb (N.eqb v) [1; 2; 4; 8; 16; 32; 64; 128].
Fixpoint orbit_clear (n : nat) (s : N) : bool :=
  match n with O => true | S k => negb (pow2_octet (step8 s)) && orbit_clear k (step8 s) end.

Lemma iter_shift n : forall s, Nat.iter n step8 (step8 s) = step8 (Nat.iter n step8 s).
Proof.
  induction n as [|n IH]; intros s; [reflexivity|].
  change (step8 (Nat.iter n step8 (step8 s)) = step8 (step8 (Nat.iter n step8 s))). rewrite IH. reflexivity.
Qed.

Lemma orbit_clear_spec n : forall s, orbit_clear n s = true ->
  forall d, (d < n)%nat -> pow2_octet (Nat.iter (S d) step8 s) = false.
Proof.
  induction n as [|n IH]; intros s H d Hd; [lia|].
  cbn [orbit_clear] in H. apply andb_prop in H as [H1 H2].
  destruct d as [|d].
  - cbn [Nat.iter]. apply negb_true_iff. exact H1.
  - specialize (IH _ H2 d ltac:(lia)). rewrite <- IH.
    f_equal. change (Nat.iter (S (S d)) step8 s) with (step8 (Nat.iter (S d) step8 s)). rewrite iter_shift. reflexivity.
Qed.

Lemma orbits_clear : forallb (fun i => orbit_clear 4094 (2 ^ i)) [0; 1; 2; 3; 4; 5; 6; 7] = true.
Proof. vm_cast_no_check (eq_refl true). Qed.

Lemma crc_zeros_iter n : forall s, spec_crc s (repeat 0 n) = Nat.iter n step8 s.
Proof.
  unfold spec_crc. induction n as [|n IH]; intros s; [reflexivity|].
  cbn [repeat fold_left]. unfold spec_octet at 2. rewrite N.lxor_0_r, IH, iter_shift. reflexivity.
Qed.

Lemma iter_step8_fits n : forall s, s < 65536 -> Nat.iter n step8 s < 65536.
Proof.
  induction n as [|n IH]; intros s Hs; [exact Hs|]. cbn [Nat.iter].
  apply step8_fits_16, IH. exact Hs.
Qed.

(* two damaged bits in different octets, at most 4094 octets apart (bit distance below 32767, the order of x modulo the polynomial) *)
Theorem two_bits_detected a i d j b : i < 8 -> j < 8 -> (d < 4094)%nat ->
  spec_crc 0 (repeat 0 a ++ [2 ^ i] ++ repeat 0 d ++ [2 ^ j] ++ repeat 0 b) <> 0.
Proof.
  intros Hi Hj Hd.
  rewrite spec_app, crc_zeros_0, spec_app.
  rewrite crc1_eq, spec_app, crc_zeros_iter, spec_app.
  set (st := Nat.iter d step8 (step8 (2 ^ i))).
  assert (Hst : st = Nat.iter (S d) step8 (2 ^ i)).
  { subst st. rewrite iter_shift. reflexivity. }
  assert (Hclr : pow2_octet st = false).
  { rewrite Hst. pose proof orbits_clear as O. rewrite forallb_forall in O.
    apply (orbit_clear_spec 4094 (2 ^ i)); [apply O; cbn; lia|lia]. }
  assert (Hp : 2 ^ i < 65536).
  { assert (C : i = 0 \/ i = 1 \/ i = 2 \/ i = 3 \/ i = 4 \/ i = 5 \/ i = 6 \/ i = 7) by lia.
    repeat (destruct C as [->|C]); try subst i; cbv; reflexivity. }
  assert (Fst : st < 65536) by (rewrite Hst; apply iter_step8_fits; exact Hp).
  assert (Hne : N.lxor st (2 ^ j) <> 0).
  { intros H. apply N.lxor_eq in H. rewrite H in Hclr.
    assert (C : j = 0 \/ j = 1 \/ j = 2 \/ j = 3 \/ j = 4 \/ j = 5 \/ j = 6 \/ j = 7) by lia.
    repeat (destruct C as [->|C]); try subst j; cbv in Hclr; discriminate. }
  assert (E2 : spec_crc st [2 ^ j] = step8 (N.lxor st (2 ^ j))) by reflexivity.
  rewrite E2.
  assert (Hpj : 2 ^ j < 65536).
  { assert (C : j = 0 \/ j = 1 \/ j = 2 \/ j = 3 \/ j = 4 \/ j = 5 \/ j = 6 \/ j = 7) by lia.
    repeat (destruct C as [->|C]); try subst j; cbv; reflexivity. }
  destruct (step8_nonzero _ (lxor_lt_65536 _ _ Fst Hpj) Hne) as [N1 N2].
  apply crc_zeros_nonzero; assumption.
Qed.
