From Ufw Require Import Base.Bits Base.Errno Model.Endpoints Model.Slip.
From Coq Require Import Lia Bool.
Local Open Scope N_scope.

(* ---------- the encoding ---------- *)
Lemma esc_octet_cases d :
  (d = RAW_ESC /\ esc_octet d = [RAW_ESC; ESC_ESC]) \/
  (d = RAW_EOF /\ esc_octet d = [RAW_ESC; ESC_EOF]) \/
  (d <> RAW_ESC /\ d <> RAW_EOF /\ esc_octet d = [d]).
Proof.
  unfold esc_octet. destruct (N.eqb_spec d RAW_ESC) as [E|E]; [left; auto|].
  destruct (N.eqb_spec d RAW_EOF) as [E2|E2]; [right; left; auto|right; right; auto].
Qed.

Lemma esc_octet_no_eof d : ~ In RAW_EOF (esc_octet d).
Proof.
  destruct (esc_octet_cases d) as [[_ ->]|[[_ ->]|(_ & H & ->)]]; cbn [In]; intros HH.
  - destruct HH as [E|[E|[]]]; cbv in E; discriminate.
  - destruct HH as [E|[E|[]]]; cbv in E; discriminate.
  - destruct HH as [E|[]]. apply H. exact E.
Qed.

Lemma body_no_eof p : ~ In RAW_EOF (flat_map esc_octet p).
Proof.
  induction p as [|d p IH]; cbn; [auto|]. rewrite in_app_iff. intros [H|H]; [exact (esc_octet_no_eof d H)|auto].
Qed.

Lemma esc_octet_length d : (1 <= length (esc_octet d) <= 2)%nat /\
  ((d = RAW_ESC \/ d = RAW_EOF) -> length (esc_octet d) = 2%nat).
Proof.
  destruct (esc_octet_cases d) as [[E ->]|[[E ->]|(E1 & E2 & ->)]]; cbn; split; try lia; intros [H|H]; congruence.
Qed.

Lemma body_length p : (length p <= length (flat_map esc_octet p) <= 2 * length p)%nat.
Proof.
  induction p as [|d p IH]; cbn [flat_map length]; [lia|].
  rewrite app_length. destruct (esc_octet_length d) as [H _]. lia.
Qed.

Lemma body_length_worst p : Forall (fun d => d = RAW_ESC \/ d = RAW_EOF) p ->
  length (flat_map esc_octet p) = (2 * length p)%nat.
Proof.
  induction 1 as [|d p Hd Hp IH]; cbn [flat_map length]; [reflexivity|].
  rewrite app_length, IH. destruct (esc_octet_length d) as [_ H]. rewrite (H Hd). lia.
Qed.

Theorem encode_bound sof p :
  (length (slip_encode sof p) <= 2 * length p + (if sof then 2 else 1))%nat.
Proof.
  unfold slip_encode. rewrite !app_length. pose proof (body_length p). destruct sof; cbn [length]; lia.
Qed.

Theorem encode_bound_tight sof p : Forall (fun d => d = RAW_ESC \/ d = RAW_EOF) p ->
  length (slip_encode sof p) = (2 * length p + (if sof then 2 else 1))%nat.
Proof.
  intros H. unfold slip_encode. rewrite !app_length, (body_length_worst p H). destruct sof; cbn [length]; lia.
Qed.

(* END occurs only as the last (and, with start-of-frame, first) octet *)
Theorem encode_delimiter sof p :
  slip_encode sof p = (if sof then [RAW_EOF] else []) ++ flat_map esc_octet p ++ [RAW_EOF] /\
  ~ In RAW_EOF (flat_map esc_octet p).
Proof. split; [reflexivity|apply body_no_eof]. Qed.

(* ---------- decoding an encoded body ---------- *)
Lemma eqb_consts :
  (RAW_ESC =? RAW_ESC) = true /\ (RAW_EOF =? RAW_ESC) = false /\ (RAW_EOF =? RAW_EOF) = true /\
  (ESC_ESC =? ESC_EOF) = false /\ (ESC_ESC =? ESC_ESC) = true /\ (ESC_EOF =? ESC_EOF) = true.
Proof. repeat split; reflexivity. Qed.

Lemma trace_body sof p : forall out rest,
  trace sof Normal (flat_map esc_octet p ++ rest) out = trace sof Normal rest (out ++ p).
Proof.
  induction p as [|d p IH]; intros out rest; cbn [flat_map app]; [rewrite app_nil_r; reflexivity|].
  rewrite <- app_assoc.
  destruct (esc_octet_cases d) as [[E ->]|[[E ->]|(E1 & E2 & ->)]]; subst; cbn [app trace].
  - change (RAW_ESC =? RAW_ESC) with true. change (ESC_ESC =? ESC_EOF) with false. change (ESC_ESC =? ESC_ESC) with true.
    cbv iota. rewrite IH, <- app_assoc. reflexivity.
  - change (RAW_ESC =? RAW_ESC) with true. change (ESC_EOF =? ESC_EOF) with true.
    cbv iota. rewrite IH, <- app_assoc. reflexivity.
  - apply N.eqb_neq in E1, E2. rewrite E1, E2. rewrite IH, <- app_assoc. reflexivity.
Qed.

Lemma pdecode_body sof p : forall out rest,
  pdecode sof Normal (flat_map esc_octet p ++ rest) out = pdecode sof Normal rest (out ++ p).
Proof.
  induction p as [|d p IH]; intros out rest; cbn [flat_map app]; [rewrite app_nil_r; reflexivity|].
  rewrite <- app_assoc.
  destruct (esc_octet_cases d) as [[E ->]|[[E ->]|(E1 & E2 & ->)]]; subst; cbn [app pdecode].
  - change (RAW_ESC =? RAW_ESC) with true. change (ESC_ESC =? ESC_EOF) with false. change (ESC_ESC =? ESC_ESC) with true.
    cbv iota. rewrite IH, <- app_assoc. reflexivity.
  - change (RAW_ESC =? RAW_ESC) with true. change (ESC_EOF =? ESC_EOF) with true.
    cbv iota. rewrite IH, <- app_assoc. reflexivity.
  - apply N.eqb_neq in E1, E2. rewrite E1, E2. rewrite IH, <- app_assoc. reflexivity.
Qed.

(* ---------- round trip ---------- *)
Theorem roundtrip sof p r :
  pdecode sof (slip_init sof) (slip_encode sof p ++ r) [] = (PFrame, p, r, after_frame sof).
Proof.
  unfold slip_encode, slip_init. destruct sof; cbn [app pdecode].
  - change (RAW_EOF =? RAW_EOF) with true. cbv iota.
    rewrite <- app_assoc, pdecode_body. cbn [app pdecode].
    change (RAW_EOF =? RAW_ESC) with false. change (RAW_EOF =? RAW_EOF) with true. reflexivity.
  - rewrite <- app_assoc, pdecode_body. cbn [app pdecode].
    change (RAW_EOF =? RAW_ESC) with false. change (RAW_EOF =? RAW_EOF) with true. reflexivity.
Qed.

Lemma trace_frame sof p rest out :
  trace sof (slip_init sof) (slip_encode sof p ++ rest) out
  = (PFrame, out ++ p) :: trace sof (slip_init sof) rest [].
Proof.
  unfold slip_encode, slip_init. destruct sof; cbn [app trace].
  - change (RAW_EOF =? RAW_EOF) with true. cbv iota.
    rewrite <- app_assoc, trace_body. cbn [app trace].
    change (RAW_EOF =? RAW_ESC) with false. change (RAW_EOF =? RAW_EOF) with true. reflexivity.
  - rewrite <- app_assoc, trace_body. cbn [app trace].
    change (RAW_EOF =? RAW_ESC) with false. change (RAW_EOF =? RAW_EOF) with true. reflexivity.
Qed.

(* concatenated encodings decode to the same payload sequence, in order *)
Theorem trace_frames sof ps :
  trace sof (slip_init sof) (concat (map (slip_encode sof) ps)) []
  = map (fun p => (PFrame, p)) ps ++ [(PNoData, [])].
Proof.
  induction ps as [|p ps IH]; cbn [map concat app]; [reflexivity|].
  rewrite trace_frame, IH. reflexivity.
Qed.

(* ---------- trace = calling the one-call decoder again and again ---------- *)
Lemma trace_unfold sof : forall n inp st out, (length inp <= n)%nat ->
  trace sof st inp out =
  let '(res, out', rest, st') := pdecode sof st inp out in
  match res with PNoData => [(PNoData, out')] | _ => (res, out') :: trace sof st' rest [] end.
Proof.
  induction n as [|n IH]; intros inp st out Hl.
  - destruct inp; [reflexivity|cbn in Hl; lia].
  - destruct inp as [|d r]; [reflexivity|]. cbn [length] in Hl.
    destruct st; cbn [trace pdecode].
    + destruct (d =? RAW_EOF); [apply IH; lia|reflexivity].
    + destruct (d =? RAW_EOF); apply IH; lia.
    + destruct (d =? RAW_ESC).
      * destruct r as [|e r']; [reflexivity|]. cbn [length] in Hl.
        destruct (e =? ESC_EOF); [apply IH; lia|].
        destruct (e =? ESC_ESC); [apply IH; lia|reflexivity].
      * destruct (d =? RAW_EOF); [reflexivity|apply IH; lia].
Qed.

Theorem trace_is_repeated_decode sof inp st out :
  trace sof st inp out =
  let '(res, out', rest, st') := pdecode sof st inp out in
  match res with PNoData => [(PNoData, out')] | _ => (res, out') :: trace sof st' rest [] end.
Proof. apply (trace_unfold sof (length inp)). lia. Qed.

(* ---------- invalid escape, no amplification ---------- *)
Theorem invalid_escape sof x r out : x <> ESC_EOF -> x <> ESC_ESC ->
  pdecode sof Normal (RAW_ESC :: x :: r) out =
  (PIlseq, out, r, if x =? RAW_EOF then after_frame sof else SearchEnd).
Proof.
  intros H1 H2. cbn [pdecode]. change (RAW_ESC =? RAW_ESC) with true. cbv iota.
  apply N.eqb_neq in H1, H2. rewrite H1, H2. reflexivity.
Qed.

Lemma no_amplification_n sof : forall n inp st out, (length inp <= n)%nat ->
  let '(res, out', rest, st') := pdecode sof st inp out in
  (length out' + length rest <= length out + length inp)%nat.
Proof.
  induction n as [|n IH]; intros inp st out Hl.
  - destruct inp; [cbn; lia|cbn in Hl; lia].
  - destruct inp as [|d r]; [cbn; lia|]. cbn [length] in Hl.
    destruct st; cbn [pdecode].
    + destruct (d =? RAW_EOF).
      * specialize (IH r Normal out ltac:(lia)). destruct (pdecode sof Normal r out) as [[[? ?] ?] ?]. cbn [length]. lia.
      * cbn [length]. lia.
    + destruct (d =? RAW_EOF).
      * specialize (IH r (after_frame sof) out ltac:(lia)). destruct (pdecode sof (after_frame sof) r out) as [[[? ?] ?] ?]. cbn [length]. lia.
      * specialize (IH r SearchEnd out ltac:(lia)). destruct (pdecode sof SearchEnd r out) as [[[? ?] ?] ?]. cbn [length]. lia.
    + destruct (d =? RAW_ESC).
      * destruct r as [|e r']; [cbn; lia|]. cbn [length] in Hl.
        destruct (e =? ESC_EOF).
        { specialize (IH r' Normal (out ++ [RAW_EOF]) ltac:(lia)).
          destruct (pdecode sof Normal r' (out ++ [RAW_EOF])) as [[[? ?] ?] ?]. rewrite app_length in IH. cbn [length] in *. lia. }
        destruct (e =? ESC_ESC).
        { specialize (IH r' Normal (out ++ [RAW_ESC]) ltac:(lia)).
          destruct (pdecode sof Normal r' (out ++ [RAW_ESC])) as [[[? ?] ?] ?]. rewrite app_length in IH. cbn [length] in *. lia. }
        cbn [length]. lia.
      * destruct (d =? RAW_EOF); [cbn [length]; lia|].
        specialize (IH r Normal (out ++ [d]) ltac:(lia)).
        destruct (pdecode sof Normal r (out ++ [d])) as [[[? ?] ?] ?]. rewrite app_length in IH. cbn [length] in *. lia.
Qed.

(* the decoder never emits more octets than it consumed *)
Theorem no_amplification sof inp st :
  let '(res, out', rest, st') := pdecode sof st inp [] in
  (length out' + length rest <= length inp)%nat.
Proof. exact (no_amplification_n sof (length inp) inp st [] (le_n _)). Qed.

(* ---------- resynchronisation ---------- *)
Lemma skip_to_end sof l : forall rest out, ~ In RAW_EOF l ->
  trace sof SearchEnd (l ++ RAW_EOF :: rest) out = trace sof (after_frame sof) rest out.
Proof.
  induction l as [|d l IH]; intros rest out Hn; cbn [app trace].
  - change (RAW_EOF =? RAW_EOF) with true. reflexivity.
  - assert (Hd : d <> RAW_EOF) by (intro E; apply Hn; left; auto).
    apply N.eqb_neq in Hd. rewrite Hd. apply IH. intro H. apply Hn. right. exact H.
Qed.

Lemma resync_classic_n : forall n g st out, (length g <= n)%nat -> (st <> Normal -> out = []) ->
  exists pre, forall rest, trace false st (g ++ RAW_EOF :: rest) out = pre ++ trace false Normal rest [].
Proof.
  induction n as [|n IH]; intros g st out Hl Ho.
  - destruct g; [|cbn in Hl; lia]. cbn [app trace].
    change (RAW_EOF =? RAW_EOF) with true. change (RAW_EOF =? RAW_ESC) with false. cbv iota.
    destruct st.
    + rewrite Ho by discriminate. exists []. reflexivity.
    + rewrite Ho by discriminate. exists []. reflexivity.
    + exists [(PFrame, out)]. reflexivity.
  - destruct g as [|d g'].
    { apply (IH [] st out); [cbn; lia|exact Ho]. }
    cbn [length] in Hl. cbn [app trace]. destruct st.
    + rewrite Ho by discriminate. destruct (d =? RAW_EOF).
      * apply IH; [lia|intros; reflexivity].
      * destruct (IH g' SearchEnd [] ltac:(lia) ltac:(reflexivity)) as [pre H].
        exists ((PIlseq, []) :: pre). intros rest. rewrite H. reflexivity.
    + rewrite Ho by discriminate. destruct (d =? RAW_EOF); apply IH; try lia; intros; reflexivity.
    + destruct (d =? RAW_ESC).
      * destruct g' as [|e g'']; cbn [app].
        { change (RAW_EOF =? ESC_EOF) with false. change (RAW_EOF =? ESC_ESC) with false.
          change (RAW_EOF =? RAW_EOF) with true. cbv iota. exists [(PIlseq, out)]. reflexivity. }
        cbn [length] in Hl.
        destruct (e =? ESC_EOF); [apply IH; [lia|congruence]|].
        destruct (e =? ESC_ESC); [apply IH; [lia|congruence]|].
        destruct (IH g'' (if e =? RAW_EOF then after_frame false else SearchEnd) [] ltac:(lia) ltac:(reflexivity)) as [pre H].
        exists ((PIlseq, out) :: pre). intros rest. rewrite H. reflexivity.
      * destruct (d =? RAW_EOF).
        { destruct (IH g' Normal [] ltac:(lia) ltac:(reflexivity)) as [pre H].
          exists ((PFrame, out) :: pre). intros rest. cbn [after_frame]. rewrite H. reflexivity. }
        apply IH; [lia|congruence].
Qed.

(* classic mode: whatever garbage precedes the next delimiter, and whatever state the decoder is in,
   every well-formed frame after that delimiter is delivered intact and in order *)
Theorem resync_classic g st ps : st <> SearchStart ->
  exists pre, trace false st (g ++ RAW_EOF :: concat (map (slip_encode false) ps)) []
              = pre ++ map (fun p => (PFrame, p)) ps ++ [(PNoData, [])].
Proof.
  intros _. destruct (resync_classic_n (length g) g st [] (le_n _) ltac:(reflexivity)) as [pre H].
  exists pre. rewrite H. f_equal. exact (trace_frames false ps).
Qed.

Lemma sof_lost_frame p rest : p <> [] ->
  trace true SearchStart (flat_map esc_octet p ++ RAW_EOF :: rest) [] = (PIlseq, []) :: trace true SearchStart rest [].
Proof.
  intros Hp. pose proof (body_no_eof p) as Hn.
  destruct (flat_map esc_octet p) as [|b0 body'] eqn:Eb.
  - destruct p as [|d p']; [contradiction|]. cbn [flat_map] in Eb.
    destruct (esc_octet_cases d) as [[_ E]|[[_ E]|(_ & _ & E)]]; rewrite E in Eb; discriminate.
  - cbn [app trace].
    assert (Hb : b0 <> RAW_EOF) by (intro E; apply Hn; left; auto).
    apply N.eqb_neq in Hb. rewrite Hb. f_equal.
    apply (skip_to_end true body' rest []). intro H. apply Hn. right. exact H.
Qed.

Lemma resync_sof_n p : p <> [] -> forall n g st out, (length g <= n)%nat -> (st <> Normal -> out = []) ->
  exists pre, forall rest, trace true st (g ++ slip_encode true p ++ rest) out = pre ++ trace true SearchStart rest [].
Proof.
  intros Hp. induction n as [|n IH]; intros g st out Hl Ho.
  - destruct g; [|cbn in Hl; lia]. unfold slip_encode. cbn [app trace].
    change (RAW_EOF =? RAW_EOF) with true. change (RAW_EOF =? RAW_ESC) with false. cbv iota.
    destruct st.
    + rewrite Ho by discriminate. exists [(PFrame, p)]. intros rest.
      rewrite <- app_assoc, trace_body. cbn [app trace].
      change (RAW_EOF =? RAW_EOF) with true. change (RAW_EOF =? RAW_ESC) with false. reflexivity.
    + rewrite Ho by discriminate. exists [(PIlseq, [])]. intros rest. cbn [after_frame].
      rewrite <- app_assoc. cbn [app]. rewrite sof_lost_frame by exact Hp. reflexivity.
    + exists [(PFrame, out); (PIlseq, [])]. intros rest. cbn [after_frame].
      rewrite <- app_assoc. cbn [app]. rewrite sof_lost_frame by exact Hp. reflexivity.
  - destruct g as [|d g'].
    { apply (IH [] st out); [cbn; lia|exact Ho]. }
    cbn [length] in Hl. cbn [app trace]. destruct st.
    + rewrite Ho by discriminate. destruct (d =? RAW_EOF).
      * apply IH; [lia|intros; reflexivity].
      * destruct (IH g' SearchEnd [] ltac:(lia) ltac:(reflexivity)) as [pre H].
        exists ((PIlseq, []) :: pre). intros rest. rewrite H. reflexivity.
    + rewrite Ho by discriminate. destruct (d =? RAW_EOF); apply IH; try lia; intros; reflexivity.
    + destruct (d =? RAW_ESC).
      * destruct g' as [|e g'']; cbn [app].
        { unfold slip_encode. cbn [app].
          change (RAW_EOF =? ESC_EOF) with false. change (RAW_EOF =? ESC_ESC) with false.
          change (RAW_EOF =? RAW_EOF) with true. cbv iota. cbn [after_frame].
          exists [(PIlseq, out); (PIlseq, [])]. intros rest.
          rewrite <- app_assoc. cbn [app]. rewrite sof_lost_frame by exact Hp. reflexivity. }
        cbn [length] in Hl.
        destruct (e =? ESC_EOF); [apply IH; [lia|congruence]|].
        destruct (e =? ESC_ESC); [apply IH; [lia|congruence]|].
        destruct (IH g'' (if e =? RAW_EOF then after_frame true else SearchEnd) [] ltac:(lia) ltac:(reflexivity)) as [pre H].
        exists ((PIlseq, out) :: pre). intros rest. rewrite H. reflexivity.
      * destruct (d =? RAW_EOF).
        { destruct (IH g' (after_frame true) [] ltac:(lia) ltac:(reflexivity)) as [pre H].
          exists ((PFrame, out) :: pre). intros rest. rewrite H. reflexivity. }
        apply IH; [lia|congruence].
Qed.

(* start-of-frame mode: after any garbage (which may contain any number of empty frames) at most the
   first following non-empty frame p is lost; everything after it is delivered intact and in order *)
Theorem resync_sof g st p ps : p <> [] ->
  exists pre, trace true st (g ++ slip_encode true p ++ concat (map (slip_encode true) ps)) []
              = pre ++ map (fun q => (PFrame, q)) ps ++ [(PNoData, [])].
Proof.
  intros Hp. destruct (resync_sof_n p Hp (length g) g st [] (le_n _) ltac:(reflexivity)) as [pre H].
  exists pre. rewrite H. f_equal. exact (trace_frames true ps).
Qed.
