(* C12, operational encoder (one call of rfc1055_encode) under EVERY behaviour script of the source and every sink that takes
   what it is given or fails: what reached the sink is a prefix of the specified encoding of the octets taken from the
   source; success means the whole frame - body, escapes, delimiter(s) - reached the sink and the source ended. *)
From Ufw Require Import Base.Bits Base.Errno Model.Endpoints Model.Slip Proof.EndpointsLemmas Proof.EndpointsTotal Proof.SlipFaults.
From Coq Require Import Lia Bool ZifyN ZifyBool.
Local Open Scope N_scope.

(* ---------- driver calls only consume the script ---------- *)
Definition script_suffix (k k' : snk) : Prop := exists pre, k_script k = pre ++ k_script k'.

Lemma suffix_refl k : script_suffix k k.
Proof. exists []. reflexivity. Qed.
Lemma suffix_trans a b c : script_suffix a b -> script_suffix b c -> script_suffix a c.
Proof. intros [p1 E1] [p2 E2]. exists (p1 ++ p2). rewrite E1, E2, app_assoc. reflexivity. Qed.
Lemma suffix_answers k k' : script_suffix k k' -> sink_answers k -> sink_answers k'.
Proof. intros [pre E]. unfold sink_answers. rewrite E. intros H. apply Forall_app in H. apply H. Qed.

Lemma pop_suffix (sc : list ev) e sc' : pop_ev sc = (e, sc') -> exists pre, sc = pre ++ sc'.
Proof. destruct sc as [|a r]; cbn; intros [= <- <-]; [exists []|exists [a]]; reflexivity. Qed.

Lemma octet_call_suffix k x r k' : snk_octet_call k x = (r, k') -> script_suffix k k'.
Proof.
  unfold snk_octet_call. destruct (pop_ev (k_script k)) as [e sc] eqn:Ep. destruct (pop_suffix _ _ _ Ep) as [pre E].
  destruct e; intros [= <- <-]; exists pre; exact E.
Qed.
Lemma chunk_call_suffix k xs r k' : snk_chunk_call k xs = (r, k') -> script_suffix k k'.
Proof.
  unfold snk_chunk_call. destruct (pop_ev (k_script k)) as [e sc] eqn:Ep. destruct (pop_suffix _ _ _ Ep) as [pre E].
  destruct e; intros [= <- <-]; exists pre; exact E.
Qed.
Lemma sink_adapt_suffix fuel : forall k n xs r k', sink_adapt fuel k n xs = Some (r, k') -> script_suffix k k'.
Proof.
  induction fuel as [|f IH]; intros k n xs r k' H; destruct xs as [|x t]; cbn [sink_adapt] in H; try discriminate;
    try (injection H as _ <-; apply suffix_refl).
  destruct (snk_octet_call k x) as [r1 k1] eqn:C. pose proof (octet_call_suffix _ _ _ _ C) as S1.
  destruct r1 as [c|e].
  - destruct (c =? 0); apply (suffix_trans _ _ _ S1), (IH _ _ _ _ _ H).
  - destruct (is_retry e); [apply (suffix_trans _ _ _ S1), (IH _ _ _ _ _ H)|injection H as _ <-; exact S1].
Qed.
Lemma once_put_suffix k xs r k' : once_sink_put_chunk k xs = Some (r, k') -> script_suffix k k'.
Proof.
  unfold once_sink_put_chunk. destruct (k_octet k); [apply sink_adapt_suffix|]. intros [= H]. apply (chunk_call_suffix _ _ _ _ H).
Qed.
Lemma put_chunk_loop_suffix fuel : forall k n xs r k', sink_put_chunk_loop fuel k n xs = Some (r, k') -> script_suffix k k'.
Proof.
  induction fuel as [|f IH]; intros k n xs r k' H; destruct xs as [|x t]; cbn [sink_put_chunk_loop] in H; try discriminate;
    try (injection H as _ <-; apply suffix_refl).
  destruct (once_sink_put_chunk k (x :: t)) as [[r1 k1]|] eqn:O; [|discriminate]. pose proof (once_put_suffix _ _ _ _ O) as S1.
  destruct r1 as [c|e].
  - apply (suffix_trans _ _ _ S1), (IH _ _ _ _ _ H).
  - destruct (is_retry e); [apply (suffix_trans _ _ _ S1), (IH _ _ _ _ _ H)|injection H as _ <-; exact S1].
Qed.
Lemma put_chunk_suffix k xs n r k' : sink_put_chunk k xs n = Some (r, k') -> script_suffix k k'.
Proof.
  unfold sink_put_chunk. destruct ((n =? 0) || (SSIZE_MAX <? n)); [intros [= _ <-]; apply suffix_refl|apply put_chunk_loop_suffix].
Qed.

Lemma get_octet_count s c d s' : answers s -> source_get_octet s = (DOk c, d, s') -> c = 1.
Proof.
  unfold answers, source_get_octet, src_octet_call, src_chunk_call. intros Ha.
  destruct (s_script s) as [|ev0 sc] eqn:Es; cbn [pop_ev].
  - destruct (s_octet s); destruct (s_stream s) as [|x t] eqn:Et; intros [= <- <- <-]; try reflexivity.
    cbn [length]. unfold SSIZE_MAX. lia.
  - inversion Ha as [|? ? He Hr]; subst.
    destruct (s_octet s); destruct ev0 as [g| | | |e0]; cbn in He; try contradiction;
      try (destruct (s_stream s) as [|x t] eqn:Et); intros [= <- <- <-]; try reflexivity.
    cbn [length]. lia.
Qed.

(* ---------- one payload octet ---------- *)
Lemma esc_octet_length d : (length (esc_octet d) <= 2)%nat /\ (1 <= length (esc_octet d))%nat.
Proof. unfold esc_octet. destruct (d =? RAW_ESC); [cbn; lia|]. destruct (d =? RAW_EOF); cbn; lia. Qed.

Lemma encode_octet_op_spec k d e k' : sink_answers k -> encode_octet_op k d = Some (e, k') ->
  sink_answers k' /\ exists sent, k_got k' = k_got k ++ sent /\
    (e = None -> sent = esc_octet d) /\ (forall err, e = Some err -> exists rest, esc_octet d = sent ++ rest).
Proof.
  intros Hk. unfold encode_octet_op. destruct ((d =? RAW_ESC) || (d =? RAW_EOF)) eqn:Ec.
  - assert (Hl : length (esc_octet d) = 2%nat).
    { unfold esc_octet. apply orb_true_iff in Ec as [E|E]; [rewrite E; reflexivity|]. destruct (d =? RAW_ESC); [reflexivity|]. rewrite E. reflexivity. }
    destruct (sink_put_chunk k (esc_octet d) 2) as [[r k1]|] eqn:P; [|discriminate].
    pose proof (suffix_answers _ _ (put_chunk_suffix _ _ _ _ _ P) Hk) as Hk1.
    destruct (put_chunk_exact _ _ _ _ _ P) as (sent & G & (rest & X) & L & _).
    replace (firstn (N.to_nat 2) (esc_octet d)) with (esc_octet d) in * by (symmetry; apply firstn_all2; lia).
    destruct r as [c|err]; intros [= <- <-]; (split; [exact Hk1|]); exists sent; (split; [exact G|]).
    + split; [intros _; apply (L c eq_refl)|discriminate].
    + split; [discriminate|]. intros err' _. exists rest. exact X.
  - assert (He : esc_octet d = [d]).
    { unfold esc_octet. apply orb_false_iff in Ec as [E1 E2]. rewrite E1, E2. reflexivity. }
    intros [= H]. destruct (put_octet_rc_answers _ _ _ _ Hk H) as (Hk1 & G1 & G2). split; [exact Hk1|].
    destruct e as [err|].
    + exists []. rewrite app_nil_r. split; [apply (G2 err eq_refl)|]. split; [discriminate|]. intros err' _. exists (esc_octet d). reflexivity.
    + exists [d]. split; [apply (G1 eq_refl)|]. split; [intros _; symmetry; exact He|discriminate].
Qed.

(* the closing delimiter *)
Lemma close_spec k e k' : sink_answers k -> put_octet_rc k RAW_EOF = (e, k') ->
  exists sent, k_got k' = k_got k ++ sent /\ (e = None -> sent = [RAW_EOF]) /\ (forall err, e = Some err -> sent = []).
Proof.
  intros Hk H. destruct (put_octet_rc_answers _ _ _ _ Hk H) as (_ & G1 & G2). destruct e as [err|].
  - exists []. rewrite app_nil_r. split; [apply (G2 err eq_refl)|]. split; [discriminate|reflexivity].
  - exists [RAW_EOF]. split; [apply (G1 eq_refl)|]. split; [reflexivity|discriminate].
Qed.

(* ---------- the body loop ---------- *)
Theorem encode_loop_spec : forall fuel s k e s' k', answers s -> sink_answers k ->
  encode_loop fuel s k = Some (e, s', k') ->
  exists consumed sent, s_stream s = consumed ++ s_stream s' /\ k_got k' = k_got k ++ sent /\
    (e = None -> sent = flat_map esc_octet consumed ++ [RAW_EOF]) /\
    (forall err, e = Some err -> exists rest, flat_map esc_octet consumed ++ [RAW_EOF] = sent ++ rest).
Proof.
  induction fuel as [|f IH]; intros s k e s' k' Ha Hk H; [discriminate|]. cbn [encode_loop] in H.
  destruct (source_get_octet s) as [[r d] s1] eqn:G.
  destruct (get_octet_answers _ _ _ _ Ha G) as [Ha1 L1]. destruct (get_octet_step _ _ _ _ G) as (P & _).
  assert (Close : forall e0 k0, d = [] -> put_octet_rc k RAW_EOF = (e0, k0) -> Some (e0, s1, k0) = Some (e, s', k') ->
            exists consumed sent, s_stream s = consumed ++ s_stream s' /\ k_got k' = k_got k ++ sent /\
              (e = None -> sent = flat_map esc_octet consumed ++ [RAW_EOF]) /\
              (forall err, e = Some err -> exists rest, flat_map esc_octet consumed ++ [RAW_EOF] = sent ++ rest)).
  { intros e0 k0 -> C [= <- <- <-]. destruct (close_spec _ _ _ Hk C) as (sent & Gk & S1 & S2).
    exists [], sent. cbn [app flat_map] in *. split; [symmetry; exact P|]. split; [exact Gk|]. split; [exact S1|].
    intros err He. rewrite (S2 err He). exists [RAW_EOF]. reflexivity. }
  assert (Dnil : forall err, r = DErr err -> d = []).
  { intros err ->. destruct (get_octet_measure _ _ _ _ G) as (_ & _ & Z). apply (Z err eq_refl). }
  destruct r as [c|err].
  - specialize (L1 c eq_refl). destruct d as [|x t]; [discriminate|]. destruct t; [|discriminate].
    assert (Hc : c <> 0) by (rewrite (get_octet_count _ _ _ _ Ha G); discriminate).
    assert (H' : match encode_octet_op k x with
                 | None => None
                 | Some (Some e0, k0) => Some (Some e0, s1, k0)
                 | Some (None, k0) => encode_loop f s1 k0
                 end = Some (e, s', k')).
    { destruct c as [|p]; [contradiction Hc; reflexivity|exact H]. }
    clear H. destruct (encode_octet_op k x) as [[e1 k1]|] eqn:E; [|discriminate].
    destruct (encode_octet_op_spec _ _ _ _ Hk E) as (Hk1 & sent1 & G1 & S1 & S2).
    destruct e1 as [err1|].
    + injection H' as <- <- <-. exists [x], sent1. cbn [app flat_map]. rewrite app_nil_r.
      split; [symmetry; exact P|]. split; [exact G1|]. split; [discriminate|].
      intros err' _. destruct (S2 err1 eq_refl) as [rest X]. exists (rest ++ [RAW_EOF]). rewrite X, <- app_assoc. reflexivity.
    + destruct (IH _ _ _ _ _ Ha1 Hk1 H') as (c2 & sent2 & P2 & G2 & T1 & T2).
      exists (x :: c2), (sent1 ++ sent2). cbn [app flat_map]. rewrite (S1 eq_refl) in *.
      split; [rewrite <- P, P2; reflexivity|]. split; [rewrite G2, G1, app_assoc; reflexivity|]. split.
      * intros He. rewrite (T1 He), <- app_assoc. reflexivity.
      * intros err' He. destruct (T2 err' He) as [rest X]. exists rest. rewrite <- !app_assoc, X. reflexivity.
  - specialize (Dnil err eq_refl).
    destruct err; try (injection H as <- <- <-; subst d; exists [], []; cbn [app flat_map]; rewrite app_nil_r;
      (split; [symmetry; exact P|]); (split; [reflexivity|]); (split; [discriminate|]); intros err' _; exists [RAW_EOF]; reflexivity).
    (* ENODATA: the frame is closed *)
    destruct (put_octet_rc k RAW_EOF) as [e0 k0] eqn:C. apply (Close e0 k0 Dnil eq_refl). exact H.
Qed.

(* one call of the encoder as the library runs it *)
Theorem slip_encode_op_spec sof s k e s' k' : answers s -> sink_answers k ->
  slip_encode_op sof s k = Some (e, s', k') ->
  exists consumed sent, s_stream s = consumed ++ s_stream s' /\ k_got k' = k_got k ++ sent /\
    (e = None -> sent = slip_encode sof consumed) /\
    (forall err, e = Some err -> exists rest, slip_encode sof consumed = sent ++ rest).
Proof.
  intros Ha Hk. unfold slip_encode_op, slip_encode. destruct sof.
  - destruct (put_octet_rc k RAW_EOF) as [e0 k0] eqn:O. destruct (put_octet_rc_answers _ _ _ _ Hk O) as (Hk0 & G1 & G2).
    destruct e0 as [err0|].
    + intros [= <- <- <-]. exists [], []. cbn [app flat_map]. rewrite app_nil_r. split; [reflexivity|]. split; [apply (G2 err0 eq_refl)|].
      split; [discriminate|]. intros err' _. eexists. reflexivity.
    + intros H. destruct (encode_loop_spec _ _ _ _ _ _ Ha Hk0 H) as (c2 & sent2 & P2 & G & T1 & T2).
      exists c2, ([RAW_EOF] ++ sent2). split; [exact P2|]. split; [rewrite G, (G1 eq_refl), <- app_assoc; reflexivity|]. split.
      * intros He. rewrite (T1 He). reflexivity.
      * intros err' He. destruct (T2 err' He) as [rest X]. exists rest. cbn [app]. rewrite X. reflexivity.
  - intros H. destruct (encode_loop_spec _ _ _ _ _ _ Ha Hk H) as (c2 & sent2 & P2 & G & T1 & T2).
    exists c2, sent2. cbn [app]. auto.
Qed.
