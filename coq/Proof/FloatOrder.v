(* The register table's IEEE-754 ordering on bit patterns (Model/RegTable.v: f_le, f_is_nan, f_key) is the ordering of
   Flocq's formalisation of IEEE-754 binary32 / binary64: for every pair of bit patterns, [f_le] says "less or equal"
   exactly when Flocq's comparison of the two decoded numbers says Lt or Eq (NaN: unordered; -0 = +0; infinities at the
   ends; subnormals below the normals).  The main statements are about Flocq's [binary_float_of_bits_aux] (the decoded
   sign / mantissa / exponent triple, no proof terms) and the standard library's [SFcompare]; the corollaries restate
   them for [b32_of_bits] / [b64_of_bits] and [Bcompare], whose validity proofs bring in the axioms of the standard
   library's real numbers (named in the trusted base; nothing else depends on them). *)
From Coq Require Import ZArith NArith Lia Bool ZifyN ZifyBool Floats.SpecFloat.
From Flocq Require Import IEEE754.Binary IEEE754.Bits.
From Ufw Require Import Base.Bits Model.RegTable.
Ltac Zify.zify_post_hook ::= Z.div_mod_to_equations.

Definition ff2sf (f : full_float) : spec_float :=
  match f with
  | F754_zero s => S754_zero s | F754_infinity s => S754_infinity s | F754_nan _ _ => S754_nan
  | F754_finite s m e => S754_finite s m e
  end.

Definition cmp_le (c : option comparison) : bool := match c with Some Lt | Some Eq => true | _ => false end.

Lemma bcompare_ff prec emax f1 f2 H1 H2 :
  Bcompare prec emax (FF2B prec emax f1 H1) (FF2B prec emax f2 H2) = SFcompare (ff2sf f1) (ff2sf f2).
Proof. destruct f1, f2; reflexivity. Qed.

(* ---------- the decoded level: sign, biased exponent, mantissa field ---------- *)
Section Decoded.
Variables (P emin eall : Z).   (* 2^mw, minimal exponent, all-ones exponent field *)
Definition dec (s : bool) (e m : Z) : spec_float :=
  if Zeq_bool e 0 then
    match m with Z0 => S754_zero s | Zpos p => S754_finite s p emin | Zneg _ => S754_nan end
  else if Zeq_bool e eall then
    match m with Z0 => S754_infinity s | _ => S754_nan end
  else match (m + P)%Z with Zpos p => S754_finite s p (e + emin - 1) | _ => S754_nan end.
Definition dnan (e m : Z) : bool := (e =? eall)%Z && negb (m =? 0)%Z.
Definition dkey (s : bool) (e m : Z) : Z := if s then (- (e * P + m))%Z else (e * P + m)%Z.
End Decoded.

Ltac dec_cases :=
  intros;
  unfold dec, dnan, dkey, cmp_le;
  repeat match goal with
  | |- context [Zeq_bool ?a ?b] => let E := fresh "E" in destruct (Zeq_bool a b) eqn:E;
        [apply Zeq_bool_eq in E|apply Zeq_bool_neq in E]
  end;
  repeat match goal with
  | |- context [match ?m with Z0 => _ | Zpos _ => _ | Zneg _ => _ end] =>
        let E := fresh "M" in destruct m eqn:E; try lia
  end;
  repeat match goal with s : bool |- _ => destruct s end;
  cbn [SFcompare];
  repeat match goal with
  | |- context [Z.compare ?a ?b] => destruct (Z.compare_spec a b)
  | |- context [Pos.compare_cont Eq ?a ?b] => change (Pos.compare_cont Eq a b) with (Pos.compare a b); destruct (Pos.compare_spec a b)
  end; cbn [CompOpp]; lia.

Lemma dec_compare32 s1 e1 m1 s2 e2 m2 :
  (0 <= e1 <= 255 -> 0 <= m1 < 8388608 -> 0 <= e2 <= 255 -> 0 <= m2 < 8388608 ->
   cmp_le (SFcompare (dec 8388608 (-149) 255 s1 e1 m1) (dec 8388608 (-149) 255 s2 e2 m2)) =
   negb (dnan 255 e1 m1) && negb (dnan 255 e2 m2) && (dkey 8388608 s1 e1 m1 <=? dkey 8388608 s2 e2 m2))%Z.
Proof. dec_cases. Qed.

Lemma dec_compare64 s1 e1 m1 s2 e2 m2 :
  (0 <= e1 <= 2047 -> 0 <= m1 < 4503599627370496 -> 0 <= e2 <= 2047 -> 0 <= m2 < 4503599627370496 ->
   cmp_le (SFcompare (dec 4503599627370496 (-1074) 2047 s1 e1 m1) (dec 4503599627370496 (-1074) 2047 s2 e2 m2)) =
   negb (dnan 2047 e1 m1) && negb (dnan 2047 e2 m2) && (dkey 4503599627370496 s1 e1 m1 <=? dkey 4503599627370496 s2 e2 m2))%Z.
Proof. dec_cases. Qed.

(* ---------- Flocq's decoding of a bit pattern is [dec] of its three fields ---------- *)
Lemma aux32 x : ff2sf (binary_float_of_bits_aux 23 8 x) =
  dec 8388608 (-149) 255 (Zle_bool 2147483648 x) ((x / 8388608) mod 256)%Z (x mod 8388608)%Z.
Proof.
  unfold binary_float_of_bits_aux, split_bits, dec.
  change (2 ^ 23)%Z with 8388608%Z. change (2 ^ 8)%Z with 256%Z. change (8388608 * 256)%Z with 2147483648%Z.
  change (emin (23 + 1) (2 ^ (8 - 1))) with (-149)%Z. change (256 - 1)%Z with 255%Z.
  destruct (Zeq_bool _ 0); [destruct (x mod 8388608)%Z; reflexivity|].
  destruct (Zeq_bool _ 255); [destruct (x mod 8388608)%Z; reflexivity|].
  destruct (x mod 8388608 + 8388608)%Z; reflexivity.
Qed.

Lemma aux64 x : ff2sf (binary_float_of_bits_aux 52 11 x) =
  dec 4503599627370496 (-1074) 2047 (Zle_bool 9223372036854775808 x) ((x / 4503599627370496) mod 2048)%Z (x mod 4503599627370496)%Z.
Proof.
  unfold binary_float_of_bits_aux, split_bits, dec.
  change (2 ^ 52)%Z with 4503599627370496%Z. change (2 ^ 11)%Z with 2048%Z. change (4503599627370496 * 2048)%Z with 9223372036854775808%Z.
  change (emin (52 + 1) (2 ^ (11 - 1))) with (-1074)%Z. change (2048 - 1)%Z with 2047%Z.
  destruct (Zeq_bool _ 0); [destruct (x mod 4503599627370496)%Z; reflexivity|].
  destruct (Zeq_bool _ 2047); [destruct (x mod 4503599627370496)%Z; reflexivity|].
  destruct (x mod 4503599627370496 + 4503599627370496)%Z; reflexivity.
Qed.

(* ---------- the model's predicates in terms of the three fields ---------- *)
Local Open Scope N_scope.

Lemma testbit_top a k : a < 2 ^ (k + 1) -> N.testbit a k = (2 ^ k <=? a).
Proof.
  intros H. rewrite N.testbit_eqb. rewrite N.pow_add_r in H. change (2 ^ 1) with 2 in H.
  assert (0 < 2 ^ k) by (apply N.neq_0_lt_0, N.pow_nonzero; discriminate).
  destruct (N.leb_spec (2 ^ k) a).
  - assert (a / 2 ^ k = 1); [|replace (a / 2 ^ k) with 1; reflexivity].
    symmetry. apply (N.div_unique a (2 ^ k) 1 (a - 2 ^ k)); lia.
  - rewrite N.div_small by lia. reflexivity.
Qed.

Lemma model32 a : a < 2 ^ 32 ->
  let x := Z.of_N a in
  f_is_nan TF32 a = dnan 255 ((x / 8388608) mod 256)%Z (x mod 8388608)%Z /\
  f_key TF32 a = dkey 8388608 (Zle_bool 2147483648 x) ((x / 8388608) mod 256)%Z (x mod 8388608)%Z.
Proof.
  intros Ha x. unfold f_is_nan, f_key, f_exp, f_man, f_sign, dnan, dkey, f_exp_bits, f_man_bits, tbits, tsize.
  change (16 * 2 - 1) with 31. rewrite (testbit_top a 31) by exact Ha.
  change (2 ^ 23) with 8388608. change (2 ^ 8 - 1) with 255. change (2 ^ 8) with 256. change (2 ^ 31) with 2147483648.
  change (2 ^ 32) with 4294967296 in Ha. subst x. split.
  - destruct (N.eqb_spec ((a / 8388608) mod 256) 255), (Z.eqb_spec ((Z.of_N a / 8388608) mod 256) 255);
      destruct (N.eqb_spec (a mod 8388608) 0), (Z.eqb_spec (Z.of_N a mod 8388608) 0); cbn; lia.
  - destruct (N.leb_spec 2147483648 a), (Z.leb_spec 2147483648 (Z.of_N a)); lia.
Qed.

Lemma model64 a : a < 2 ^ 64 ->
  let x := Z.of_N a in
  f_is_nan TF64 a = dnan 2047 ((x / 4503599627370496) mod 2048)%Z (x mod 4503599627370496)%Z /\
  f_key TF64 a = dkey 4503599627370496 (Zle_bool 9223372036854775808 x) ((x / 4503599627370496) mod 2048)%Z (x mod 4503599627370496)%Z.
Proof.
  intros Ha x. unfold f_is_nan, f_key, f_exp, f_man, f_sign, dnan, dkey, f_exp_bits, f_man_bits, tbits, tsize.
  change (16 * 4 - 1) with 63. rewrite (testbit_top a 63) by exact Ha.
  change (2 ^ 52) with 4503599627370496. change (2 ^ 11 - 1) with 2047. change (2 ^ 11) with 2048. change (2 ^ 63) with 9223372036854775808.
  change (2 ^ 64) with 18446744073709551616 in Ha. subst x. split.
  - destruct (N.eqb_spec ((a / 4503599627370496) mod 2048) 2047), (Z.eqb_spec ((Z.of_N a / 4503599627370496) mod 2048) 2047);
      destruct (N.eqb_spec (a mod 4503599627370496) 0), (Z.eqb_spec (Z.of_N a mod 4503599627370496) 0); cbn; lia.
  - destruct (N.leb_spec 9223372036854775808 a), (Z.leb_spec 9223372036854775808 (Z.of_N a)); lia.
Qed.

(* ---------- the ordering theorems ---------- *)
Theorem f_le32_is_ieee a b : a < 2 ^ 32 -> b < 2 ^ 32 ->
  f_le TF32 a b = cmp_le (SFcompare (ff2sf (binary_float_of_bits_aux 23 8 (Z.of_N a))) (ff2sf (binary_float_of_bits_aux 23 8 (Z.of_N b)))).
Proof.
  intros Ha Hb. rewrite !aux32. destruct (model32 a Ha) as [Na Ka]. destruct (model32 b Hb) as [Nb Kb].
  unfold f_le. rewrite Na, Nb, Ka, Kb. symmetry.
  change (2 ^ 32) with 4294967296 in *. apply dec_compare32; lia.
Qed.

Theorem f_le64_is_ieee a b : a < 2 ^ 64 -> b < 2 ^ 64 ->
  f_le TF64 a b = cmp_le (SFcompare (ff2sf (binary_float_of_bits_aux 52 11 (Z.of_N a))) (ff2sf (binary_float_of_bits_aux 52 11 (Z.of_N b)))).
Proof.
  intros Ha Hb. rewrite !aux64. destruct (model64 a Ha) as [Na Ka]. destruct (model64 b Hb) as [Nb Kb].
  unfold f_le. rewrite Na, Nb, Ka, Kb. symmetry.
  change (2 ^ 64) with 18446744073709551616 in *. apply dec_compare64; lia.
Qed.

(* the same, for Flocq's validated binary32 / binary64 numbers and its IEEE comparison *)
Corollary f_le32_is_Bcompare a b : a < 2 ^ 32 -> b < 2 ^ 32 ->
  f_le TF32 a b = cmp_le (Bcompare 24 128 (b32_of_bits (Z.of_N a)) (b32_of_bits (Z.of_N b))).
Proof. intros Ha Hb. unfold b32_of_bits, binary_float_of_bits. rewrite bcompare_ff. apply f_le32_is_ieee; assumption. Qed.

Corollary f_le64_is_Bcompare a b : a < 2 ^ 64 -> b < 2 ^ 64 ->
  f_le TF64 a b = cmp_le (Bcompare 53 1024 (b64_of_bits (Z.of_N a)) (b64_of_bits (Z.of_N b))).
Proof. intros Ha Hb. unfold b64_of_bits, binary_float_of_bits. rewrite bcompare_ff. apply f_le64_is_ieee; assumption. Qed.

(* the classes the serialiser accepts (zero and normal numbers) are Flocq's finite numbers that are zero or have the hidden bit *)
Theorem acceptable32_is_ieee a : a < 2 ^ 32 ->
  f_acceptable TF32 a = match ff2sf (binary_float_of_bits_aux 23 8 (Z.of_N a)) with
                        | S754_zero _ => true | S754_finite _ m _ => (8388608 <=? Zpos m)%Z | _ => false end.
Proof.
  intros Ha. rewrite aux32. unfold f_acceptable, f_is_zero, f_is_normal, f_exp, f_man, f_exp_bits, f_man_bits, dec.
  change (2 ^ 23) with 8388608. change (2 ^ 8 - 1) with 255. change (2 ^ 8) with 256. change (2 ^ 32) with 4294967296 in Ha.
  set (x := Z.of_N a).
  assert (E : Z.of_N ((a / 8388608) mod 256) = ((x / 8388608) mod 256)%Z) by (subst x; lia).
  assert (M : Z.of_N (a mod 8388608) = (x mod 8388608)%Z) by (subst x; lia).
  assert (Mr : (0 <= x mod 8388608 < 8388608)%Z) by (subst x; lia).
  destruct (Zeq_bool _ 0) eqn:E0; [apply Zeq_bool_eq in E0|apply Zeq_bool_neq in E0].
  - destruct (N.eqb_spec ((a / 8388608) mod 256) 0); [|lia]. cbn [negb andb orb].
    destruct (x mod 8388608)%Z eqn:Em; destruct (N.eqb_spec (a mod 8388608) 0); try lia; cbn; try reflexivity; try lia.
  - destruct (N.eqb_spec ((a / 8388608) mod 256) 0); [lia|]. cbn [negb andb orb].
    destruct (Zeq_bool _ 255) eqn:E1; [apply Zeq_bool_eq in E1|apply Zeq_bool_neq in E1].
    + destruct (N.eqb_spec ((a / 8388608) mod 256) 255); [|lia]. destruct (x mod 8388608)%Z; reflexivity.
    + destruct (N.eqb_spec ((a / 8388608) mod 256) 255); [lia|]. cbn [negb].
      destruct (x mod 8388608 + 8388608)%Z eqn:Em; try lia; symmetry; apply Z.leb_le; lia.
Qed.

Theorem acceptable64_is_ieee a : a < 2 ^ 64 ->
  f_acceptable TF64 a = match ff2sf (binary_float_of_bits_aux 52 11 (Z.of_N a)) with
                        | S754_zero _ => true | S754_finite _ m _ => (4503599627370496 <=? Zpos m)%Z | _ => false end.
Proof.
  intros Ha. rewrite aux64. unfold f_acceptable, f_is_zero, f_is_normal, f_exp, f_man, f_exp_bits, f_man_bits, dec.
  change (2 ^ 52) with 4503599627370496. change (2 ^ 11 - 1) with 2047. change (2 ^ 11) with 2048. change (2 ^ 64) with 18446744073709551616 in Ha.
  set (x := Z.of_N a).
  assert (E : Z.of_N ((a / 4503599627370496) mod 2048) = ((x / 4503599627370496) mod 2048)%Z) by (subst x; lia).
  assert (M : Z.of_N (a mod 4503599627370496) = (x mod 4503599627370496)%Z) by (subst x; lia).
  assert (Mr : (0 <= x mod 4503599627370496 < 4503599627370496)%Z) by (subst x; lia).
  destruct (Zeq_bool _ 0) eqn:E0; [apply Zeq_bool_eq in E0|apply Zeq_bool_neq in E0].
  - destruct (N.eqb_spec ((a / 4503599627370496) mod 2048) 0); [|lia]. cbn [negb andb orb].
    destruct (x mod 4503599627370496)%Z eqn:Em; destruct (N.eqb_spec (a mod 4503599627370496) 0); try lia; cbn; try reflexivity; try lia.
  - destruct (N.eqb_spec ((a / 4503599627370496) mod 2048) 0); [lia|]. cbn [negb andb orb].
    destruct (Zeq_bool _ 2047) eqn:E1; [apply Zeq_bool_eq in E1|apply Zeq_bool_neq in E1].
    + destruct (N.eqb_spec ((a / 4503599627370496) mod 2048) 2047); [|lia]. destruct (x mod 4503599627370496)%Z; reflexivity.
    + destruct (N.eqb_spec ((a / 4503599627370496) mod 2048) 2047); [lia|]. cbn [negb].
      destruct (x mod 4503599627370496 + 4503599627370496)%Z eqn:Em; try lia; symmetry; apply Z.leb_le; lia.
Qed.
