From Ufw Require Import Base.Bits.
From Coq Require Import Lia.

Lemma upd_length {A} (l : list A) i x : length (upd l i x) = length l.
Proof. revert i; induction l as [|a l IH]; intros [|i]; cbn; auto. Qed.

Lemma upd_spec {A} (l : list A) i x : i < length l ->
  upd l i x = firstn i l ++ x :: skipn (S i) l.
Proof.
  revert i; induction l as [|a l IH]; intros [|i] H; cbn in *; try lia; auto.
  f_equal. apply IH. lia.
Qed.

Lemma upd_oob {A} (l : list A) i x : length l <= i -> upd l i x = l.
Proof.
  revert i; induction l as [|a l IH]; intros [|i] H; cbn in *; try lia; auto.
  f_equal. apply IH. lia.
Qed.

Lemma blit_length {A} (xs l : list A) i : length (blit l i xs) = length l.
Proof. revert l i; induction xs as [|x xs IH]; intros l i; cbn; auto. rewrite IH. apply upd_length. Qed.

Lemma firstn_app_exact {A} (a b : list A) n : n = length a -> firstn n (a ++ b) = a.
Proof. intros ->. rewrite firstn_app, Nat.sub_diag, firstn_all. cbn. apply app_nil_r. Qed.

Lemma skipn_app_exact {A} (a b : list A) n : n = length a -> skipn n (a ++ b) = b.
Proof. intros ->. rewrite skipn_app, Nat.sub_diag, skipn_all. reflexivity. Qed.

Lemma firstn_upd_S {A} (l : list A) i x : i < length l ->
  firstn (S i) (upd l i x) = firstn i l ++ [x].
Proof.
  revert i; induction l as [|a l IH]; intros [|i] H; cbn in *; try lia; auto.
  f_equal. apply IH. lia.
Qed.

Lemma skipn_upd_gt {A} (l : list A) i j x : i < j -> skipn j (upd l i x) = skipn j l.
Proof.
  revert i j; induction l as [|a l IH]; intros [|i] [|j] H; cbn in *; try lia; auto.
  apply IH. lia.
Qed.

Lemma firstn_upd_le {A} (l : list A) i j x : j <= i -> firstn j (upd l i x) = firstn j l.
Proof.
  revert i j; induction l as [|a l IH]; intros [|i] [|j] H; cbn in *; try lia; auto.
  f_equal. apply IH. lia.
Qed.

Lemma blit_spec {A} (xs l : list A) i : i + length xs <= length l ->
  blit l i xs = firstn i l ++ xs ++ skipn (i + length xs) l.
Proof.
  revert l i; induction xs as [|x xs IH]; intros l i H; cbn [blit length] in *.
  - rewrite Nat.add_0_r. cbn. symmetry. apply firstn_skipn.
  - rewrite IH by (rewrite upd_length; lia).
    rewrite firstn_upd_S by lia. rewrite skipn_upd_gt by lia.
    replace (i + S (length xs)) with (S i + length xs) by lia.
    rewrite <- app_assoc. reflexivity.
Qed.

Lemma blit_firstn {A} (xs l : list A) i j : j <= i -> firstn j (blit l i xs) = firstn j l.
Proof.
  revert l i; induction xs as [|x xs IH]; intros l i H; cbn [blit]; auto.
  rewrite IH by lia. apply firstn_upd_le. exact H.
Qed.

Lemma blit_skipn {A} (xs l : list A) i j : i + length xs <= j -> skipn j (blit l i xs) = skipn j l.
Proof.
  revert l i; induction xs as [|x xs IH]; intros l i H; cbn [blit length] in *; auto.
  rewrite IH by lia. apply skipn_upd_gt. lia.
Qed.

Lemma slice_length {A} (l : list A) i n : i + n <= length l -> length (slice l i n) = n.
Proof. intros H. unfold slice. rewrite firstn_length, skipn_length. lia. Qed.

Lemma skipn_add {A} (f : list A) m o : skipn (m + o) f = skipn m (skipn o f).
Proof.
  revert m f. induction o as [|o IH]; intros m f.
  - rewrite Nat.add_0_r. reflexivity.
  - destruct f as [|x f]; [rewrite !skipn_nil; reflexivity|].
    replace (m + S o)%nat with (S (m + o)) by lia. cbn [skipn]. apply IH.
Qed.

Lemma nth_error_upd_neq {A} (l : list A) i j x : i <> j -> nth_error (upd l i x) j = nth_error l j.
Proof. revert i j; induction l as [|a l IH]; intros [|i] [|j] H; cbn; auto; try lia. Qed.
Lemma nth_error_upd_eq {A} (l : list A) i x : i < length l -> nth_error (upd l i x) i = Some x.
Proof. revert i; induction l as [|a l IH]; intros [|i] H; cbn in *; try lia; auto. apply IH. lia. Qed.
