(* The register table as a flat word memory (C02, C03, C05): what a block read returns and what a block write leaves,
   word by word, across area borders. *)
From Ufw Require Import Base.Bits Model.RegTable Proof.ListLemmas Proof.PersistLemmas Proof.RegLemmas Proof.RegInitLemmas Proof.RegInvariant.
From Coq Require Import Lia Bool ZifyN ZifyBool ZifyNat.
Local Open Scope N_scope.
Local Open Scope bool_scope.

(* the word stored at address x: the word of the area that maps x *)
Definition word_at (t : table) (x : N) : option N :=
  match find_area (t_areas t) x 0 with
  | Some (_, a) => nth_error (a_words a) (N.to_nat (x - a_base a))
  | None => None
  end.

(* areas ordered and disjoint, each with exactly its size in words *)
Definition areas_wf (l : list area) : Prop :=
  match l with [] => True | a0 :: r => chain a_base a_size a0 r end /\
  Forall (fun a => N.of_nat (length (a_words a)) = a_size a) l.

(* in an ordered table an address is mapped by at most one area *)
Lemma find_area_in l : forall x k i a, find_area l x k = Some (i, a) -> In a l /\ addr_in_area a x = true.
Proof. intros x k i a H. destruct (find_area_props _ _ _ _ _ H) as (H1 & _ & H3). split; [apply (nth_error_In _ _ H3)|exact H1]. Qed.

Lemma chain_disjoint : forall r a0, chain a_base a_size a0 r -> forall a b x, In a (a0 :: r) -> In b (a0 :: r) ->
  addr_in_area a x = true -> addr_in_area b x = true -> a_base a = a_base b /\ a_size a = a_size b \/ a = b.
Proof.
  induction r as [|y r IH]; intros a0 Hc a b x Ha Hb Hxa Hxb.
  - destruct Ha as [<-|[]], Hb as [<-|[]]. right. reflexivity.
  - pose proof (chain_all _ _ _ _ Hc) as Hall. rewrite Forall_forall in Hall. destruct Hc as [Hc1 Hc2].
    unfold addr_in_area in *. apply andb_prop in Hxa as [A1 A2]. apply andb_prop in Hxb as [B1 B2].
    apply N.leb_le in A1, B1. apply N.ltb_lt in A2, B2.
    destruct Ha as [<-|Ha], Hb as [<-|Hb]; [right; reflexivity| | |].
    + specialize (Hall _ Hb). lia.
    + specialize (Hall _ Ha). lia.
    + apply (IH y Hc2 a b x Ha Hb); unfold addr_in_area; apply andb_true_intro; split; try (apply N.leb_le; lia); apply N.ltb_lt; lia.
Qed.

Lemma find_area_same_gen : forall l x y k i a, match l with [] => True | a0 :: r => chain a_base a_size a0 r end ->
  find_area l x k = Some (i, a) -> addr_in_area a y = true -> find_area l y k = Some (i, a).
Proof.
  induction l as [|b r IH]; intros x y k i a Hc Hf Hy; [discriminate|].
  cbn [find_area] in *. destruct (addr_in_area b x) eqn:Ebx.
  - injection Hf as <- <-. rewrite Hy. reflexivity.
  - destruct (addr_in_area b y) eqn:Eby.
    + exfalso. destruct (find_area_in _ _ _ _ _ Hf) as [Hina Hx].
      destruct (chain_disjoint r b Hc a b y (or_intror Hina) (or_introl eq_refl) Hy Eby) as [[E1 E2]|E].
      * unfold addr_in_area in *. rewrite <- E1, <- E2 in Ebx. rewrite Hx in Ebx. discriminate.
      * subst b. rewrite Hx in Ebx. discriminate.
    + apply (IH x y (S k) i a); [destruct r as [|c r']; [exact I|apply Hc]|exact Hf|exact Hy].
Qed.

Lemma find_area_same l x y i a : areas_wf l -> find_area l x 0 = Some (i, a) -> addr_in_area a y = true ->
  find_area l y 0 = Some (i, a).
Proof. intros [Hc _]. apply find_area_same_gen. exact Hc. Qed.

(* ---- list facts ---- *)
Lemma nth_error_firstn {A} (l : list A) : forall n i, (i < n)%nat -> nth_error (firstn n l) i = nth_error l i.
Proof. induction l as [|x l IH]; intros [|n] [|i] H; cbn; try lia; auto. apply IH. lia. Qed.
Lemma nth_error_skipn_add {A} (l : list A) : forall off i, nth_error (skipn off l) i = nth_error l (off + i).
Proof. induction l as [|x l IH]; intros [|off] i; cbn; auto. destruct i; reflexivity. Qed.
Lemma nth_error_slice {A} (l : list A) off n i : (i < n)%nat -> (off + n <= length l)%nat ->
  nth_error (slice l off n) i = nth_error l (off + i).
Proof.
  intros Hi Hl. unfold slice. rewrite nth_error_firstn by exact Hi. apply nth_error_skipn_add.
Qed.

Lemma nth_error_blit {A} (l xs : list A) off i : (off + length xs <= length l)%nat ->
  nth_error (blit l off xs) i =
  if (off <=? i)%nat && (i <? off + length xs)%nat then nth_error xs (i - off) else nth_error l i.
Proof.
  intros H. rewrite blit_spec by exact H.
  destruct (Nat.leb_spec off i) as [H1|H1]; cbn [andb].
  - rewrite nth_error_app2 by (rewrite firstn_length; lia). rewrite firstn_length.
    replace (Nat.min off (length l)) with off by lia.
    destruct (Nat.ltb_spec i (off + length xs)) as [H2|H2].
    + rewrite nth_error_app1 by lia. reflexivity.
    + rewrite nth_error_app2 by lia. rewrite nth_error_skipn_add. f_equal. lia.
  - rewrite nth_error_app1 by (rewrite firstn_length; lia). apply nth_error_firstn. exact H1.
Qed.

(* ---- a block read is the words at the addresses, one by one ---- *)
Lemma area_full_in l a : areas_wf l -> In a l -> N.of_nat (length (a_words a)) = a_size a.
Proof. intros [_ H] Hin. rewrite Forall_forall in H. apply H. exact Hin. Qed.

Theorem read_words_at : forall fuel t addr n ws, areas_wf (t_areas t) ->
  read_words fuel t addr n false = Some ws ->
  N.of_nat (length ws) = n /\ forall i, i < n -> word_at t (addr + i) = nth_error ws (N.to_nat i).
Proof.
  induction fuel as [|f IH]; intros t addr n ws Hwf H; cbn [read_words] in H.
  - destruct (N.eqb_spec n 0) as [->|]; [|discriminate]. injection H as <-. split; [reflexivity|lia].
  - destruct (N.eqb_spec n 0) as [->|Hn]; [injection H as <-; split; [reflexivity|lia]|].
    destruct (find_area (t_areas t) addr 0) as [[j a]|] eqn:Ef; [|discriminate].
    cbn [andb] in H. set (k := N.min (a_base a + a_size a - addr) n) in *.
    destruct (read_words f t (addr + k) (n - k) false) as [r|] eqn:Er; [|discriminate]. injection H as <-.
    destruct (IH _ _ _ _ Hwf Er) as [Lr Wr].
    destruct (find_area_in _ _ _ _ _ Ef) as [Hin Hx]. pose proof (area_full_in _ _ Hwf Hin) as Hfull.
    unfold addr_in_area in Hx. apply andb_prop in Hx as [X1 X2]. apply N.leb_le in X1. apply N.ltb_lt in X2.
    assert (Hk : 1 <= k /\ k <= n /\ addr + k <= a_base a + a_size a) by (unfold k; lia). destruct Hk as (K1 & K2 & K3).
    assert (Hsl : length (area_read a (addr - a_base a) k) = N.to_nat k).
    { unfold area_read. apply slice_length. lia. }
    split; [rewrite app_length, Hsl; lia|].
    intros i Hi. destruct (N.lt_ge_cases i k) as [Hik|Hik].
    + rewrite nth_error_app1 by lia.
      unfold word_at. rewrite (find_area_same _ addr (addr + i) j a Hwf Ef)
        by (unfold addr_in_area; apply andb_true_intro; split; [apply N.leb_le|apply N.ltb_lt]; lia).
      unfold area_read. rewrite nth_error_slice by lia. f_equal. lia.
    + rewrite nth_error_app2 by lia. rewrite Hsl.
      replace (addr + i) with (addr + k + (i - k)) by lia. rewrite (Wr (i - k)) by lia. f_equal. lia.
Qed.

(* ---- later addresses are mapped by later areas ---- *)
Lemma find_area_index_mono : forall l x y k i a j b, match l with [] => True | a0 :: r => chain a_base a_size a0 r end ->
  find_area l x k = Some (i, a) -> find_area l y k = Some (j, b) -> a_base a + a_size a <= y -> (i < j)%nat.
Proof.
  induction l as [|c r IH]; intros x y k i a j b Hc Hx Hy Hle; [discriminate|].
  cbn [find_area] in *. destruct (addr_in_area c x) eqn:Ecx.
  - injection Hx as <- <-. destruct (addr_in_area c y) eqn:Ecy.
    + unfold addr_in_area in Ecy. apply andb_prop in Ecy as [_ E]. apply N.ltb_lt in E. lia.
    + destruct (find_area_props _ _ _ _ _ Hy) as (_ & Hk & _). lia.
  - destruct (addr_in_area c y) eqn:Ecy.
    + exfalso. destruct (find_area_in _ _ _ _ _ Hx) as [Hina Hxa].
      pose proof (chain_all _ _ _ _ Hc) as Hall. rewrite Forall_forall in Hall. specialize (Hall a Hina).
      unfold addr_in_area in *. apply andb_prop in Ecy as [_ E]. apply N.ltb_lt in E.
      apply andb_prop in Hxa as [A1 A2]. apply N.leb_le in A1. apply N.ltb_lt in A2. lia.
    + apply (IH x y (S k) i a j b); [destruct r as [|d r']; [exact I|apply Hc]|assumption..].
Qed.

(* ---- replacing an area by one of the same geometry ---- *)
Lemma find_area_upd_gen : forall l x k j a a', nth_error l j = Some a -> a_base a' = a_base a -> a_size a' = a_size a ->
  find_area (upd l j a') x k =
  match find_area l x k with
  | Some (i, b) => if (i =? k + j)%nat then Some (i, a') else Some (i, b)
  | None => None
  end.
Proof.
  induction l as [|c r IH]; intros x k j a a' Hn Hb Hs; [destruct j; discriminate|].
  destruct j as [|j']; cbn in Hn.
  - injection Hn as ->. cbn [upd find_area]. unfold addr_in_area. rewrite Hb, Hs.
    destruct ((a_base a <=? x) && (x <? a_base a + a_size a)).
    + rewrite Nat.add_0_r, Nat.eqb_refl. reflexivity.
    + destruct (find_area r x (S k)) as [[i b]|] eqn:E; [|reflexivity].
      destruct (find_area_props _ _ _ _ _ E) as (_ & Hk & _).
      destruct (Nat.eqb_spec i (k + 0)); [lia|reflexivity].
  - cbn [upd find_area]. destruct (addr_in_area c x).
    + destruct (Nat.eqb_spec k (k + S j')); [lia|reflexivity].
    + rewrite (IH x (S k) j' a a' Hn Hb Hs). destruct (find_area r x (S k)) as [[i b]|]; [|reflexivity].
      replace (S k + j')%nat with (k + S j')%nat by lia. reflexivity.
Qed.

Lemma word_at_set_area t j a a' x : nth_error (t_areas t) j = Some a -> a_base a' = a_base a -> a_size a' = a_size a ->
  word_at (set_area t j a') x =
  match find_area (t_areas t) x 0 with
  | Some (i, b) => if (i =? j)%nat then nth_error (a_words a') (N.to_nat (x - a_base a)) else nth_error (a_words b) (N.to_nat (x - a_base b))
  | None => None
  end.
Proof.
  intros Hn Hb Hs. unfold word_at, set_area; cbn [t_areas]. rewrite (find_area_upd_gen _ x 0 j a a' Hn Hb Hs).
  destruct (find_area (t_areas t) x 0) as [[i b]|]; [|reflexivity]. cbn [Nat.add].
  destruct (i =? j)%nat; [rewrite Hb|]; reflexivity.
Qed.

(* ---- geometry is all that find_area sees ---- *)
Lemma chain_geom : forall l1 l2, same_geom l1 l2 ->
  match l1 with [] => True | a0 :: r => chain a_base a_size a0 r end ->
  match l2 with [] => True | a0 :: r => chain a_base a_size a0 r end.
Proof.
  intros l1 l2 G. induction G as [|a b r1 r2 [Hb Hs] Gr IH]; [auto|].
  intros Hc. destruct Gr as [|a' b' r1' r2' [Hb' Hs'] Gr']; [exact I|].
  destruct Hc as [H1 H2]. split; [lia|]. apply IH. exact H2.
Qed.

Lemma mapped_geom l1 l2 x : same_geom l1 l2 -> (exists j a, find_area l1 x 0 = Some (j, a)) -> exists j a, find_area l2 x 0 = Some (j, a).
Proof.
  intros G (j & a & E). pose proof (find_area_geom _ _ G x 0) as F. rewrite E in F.
  destruct (find_area l2 x 0) as [[j' b]|]; [eauto|contradiction].
Qed.

Definition flags_same (t t' : table) : Prop :=
  t_init t' = t_init t /\ t_during t' = t_during t /\ t_be t' = t_be t /\ t_entries t' = t_entries t.

Theorem write_words_at : forall fuel t addr ws,
  areas_wf (t_areas t) ->
  (forall i, i < N.of_nat (length ws) -> exists j a, find_area (t_areas t) (addr + i) 0 = Some (j, a)) ->
  (ws = [] \/ forall j a, find_area (t_areas t) addr 0 = Some (j, a) -> (length (t_areas t) - j <= fuel)%nat) ->
  let t' := write_words fuel t addr ws in
  same_geom (t_areas t) (t_areas t') /\ areas_wf (t_areas t') /\ flags_same t t' /\
  forall x, word_at t' x =
            if (addr <=? x) && (x <? addr + N.of_nat (length ws)) then nth_error ws (N.to_nat (x - addr)) else word_at t x.
Proof.
  induction fuel as [|f IH]; intros t addr ws Hwf Hmap Hfuel.
  - destruct ws as [|w ws'].
    + cbn [write_words]. split; [apply same_geom_refl|]. split; [exact Hwf|]. split; [repeat split|].
      intros x. cbn [length N.of_nat]. rewrite N.add_0_r.
      destruct (N.leb_spec addr x), (N.ltb_spec x addr); cbn [andb]; try reflexivity. exfalso; lia.
    + exfalso. destruct Hfuel as [E|Hf]; [discriminate|].
      destruct (Hmap 0 ltac:(cbn; lia)) as (j & a & E). rewrite N.add_0_r in E. specialize (Hf j a E).
      destruct (find_area_props _ _ _ _ _ E) as (_ & _ & Hn). rewrite Nat.sub_0_r in Hn.
      assert (j < length (t_areas t))%nat by (apply nth_error_Some; congruence). lia.
  - destruct ws as [|w ws'] eqn:Ews.
    + cbn [write_words]. split; [apply same_geom_refl|]. split; [exact Hwf|]. split; [repeat split|].
      intros x. cbn [length N.of_nat]. rewrite N.add_0_r.
      destruct (N.leb_spec addr x), (N.ltb_spec x addr); cbn [andb]; try reflexivity. exfalso; lia.
    + rewrite <- Ews in *. assert (Hlen : (1 <= length ws)%nat) by (rewrite Ews; cbn; lia).
      destruct (Hmap 0 ltac:(lia)) as (j & a & Ef). rewrite N.add_0_r in Ef.
      replace (write_words (S f) t addr ws) with
        (let k := N.min (a_base a + a_size a - addr) (N.of_nat (length ws)) in
         write_words f (set_area t j (area_write a (addr - a_base a) (firstn (N.to_nat k) ws))) (addr + k) (skipn (N.to_nat k) ws))
        by (rewrite Ews; cbn [write_words]; rewrite <- Ews, Ef; reflexivity).
      cbv zeta. set (k := N.min (a_base a + a_size a - addr) (N.of_nat (length ws))).
      destruct (find_area_in _ _ _ _ _ Ef) as [Hin Hx]. pose proof (area_full_in _ _ Hwf Hin) as Hfull.
      destruct (find_area_props _ _ _ _ _ Ef) as (_ & _ & Hnth). rewrite Nat.sub_0_r in Hnth.
      unfold addr_in_area in Hx. apply andb_prop in Hx as [X1 X2]. apply N.leb_le in X1. apply N.ltb_lt in X2.
      assert (Hk : 1 <= k /\ k <= N.of_nat (length ws) /\ addr + k <= a_base a + a_size a) by (unfold k; lia).
      destruct Hk as (K1 & K2 & K3).
      set (wk := firstn (N.to_nat k) ws). assert (Hwk : length wk = N.to_nat k) by (unfold wk; rewrite firstn_length; lia).
      set (a' := area_write a (addr - a_base a) wk).
      set (t1 := set_area t j a').
      assert (G1 : same_geom (t_areas t) (t_areas t1)) by (apply (same_geom_upd _ j a a' Hnth); reflexivity).
      assert (Hwf1 : areas_wf (t_areas t1)).
      { split; [apply (chain_geom _ _ G1), Hwf|]. unfold t1, set_area; cbn [t_areas]. apply Forall_upd; [apply Hwf|].
        unfold a', area_write, area_with_words; cbn [a_words a_size]. rewrite blit_length. exact Hfull. }
      assert (Hmap1 : forall i, i < N.of_nat (length (skipn (N.to_nat k) ws)) ->
                                exists j0 a0, find_area (t_areas t1) (addr + k + i) 0 = Some (j0, a0)).
      { intros i Hi. rewrite skipn_length in Hi. apply (mapped_geom _ _ _ G1).
        replace (addr + k + i) with (addr + (k + i)) by lia. apply Hmap. lia. }
      assert (Hfuel1 : skipn (N.to_nat k) ws = [] \/
                       forall j0 a0, find_area (t_areas t1) (addr + k) 0 = Some (j0, a0) -> (length (t_areas t1) - j0 <= f)%nat).
      { destruct (skipn (N.to_nat k) ws) as [|y ys] eqn:Esk; [left; reflexivity|right].
        assert (Hklt : k < N.of_nat (length ws)).
        { assert (length (skipn (N.to_nat k) ws) = S (length ys)) by (rewrite Esk; reflexivity). rewrite skipn_length in H. lia. }
        intros j0 a0 E0. destruct Hfuel as [E|Hf]; [subst ws; discriminate|]. specialize (Hf j a Ef).
        pose proof (find_area_geom _ _ G1 (addr + k) 0) as FG. rewrite E0 in FG.
        destruct (find_area (t_areas t) (addr + k) 0) as [[j1 b1]|] eqn:E1; [|contradiction]. destruct FG as (-> & _ & _).
        assert (Hlt : (j < j0)%nat).
        { apply (find_area_index_mono (t_areas t) addr (addr + k) 0 j a j0 b1 (proj1 Hwf) Ef E1). unfold k. lia. }
        unfold t1, set_area; cbn [t_areas]. rewrite upd_length. lia. }
      destruct (IH t1 (addr + k) (skipn (N.to_nat k) ws) Hwf1 Hmap1 Hfuel1) as (G2 & Hwf2 & F2 & W2).
      split; [apply (same_geom_trans _ _ _ G1 G2)|]. split; [exact Hwf2|].
      split; [destruct F2 as (F21 & F22 & F23 & F24); repeat split; assumption|].
      intros x. rewrite (W2 x). rewrite skipn_length.
      destruct (N.leb_spec (addr + k) x) as [L1|L1]; cbn [andb].
      * destruct (N.ltb_spec x (addr + k + N.of_nat (length ws - N.to_nat k))) as [L2|L2].
        -- (* behind the first area's part, inside the request *)
           destruct (N.leb_spec addr x); [|lia]. destruct (N.ltb_spec x (addr + N.of_nat (length ws))); [|lia]. cbn [andb].
           rewrite nth_error_skipn_add. f_equal. lia.
        -- (* behind the request *)
           destruct (N.leb_spec addr x); [|lia]. destruct (N.ltb_spec x (addr + N.of_nat (length ws))); [lia|]. cbn [andb].
           unfold t1. rewrite (word_at_set_area t j a a' x Hnth) by reflexivity. unfold word_at.
           destruct (find_area (t_areas t) x 0) as [[i b]|] eqn:Ex; [|reflexivity].
           destruct (Nat.eqb_spec i j) as [->|]; [|reflexivity].
           destruct (find_area_props _ _ _ _ _ Ex) as (_ & _ & Hnb). rewrite Nat.sub_0_r in Hnb. assert (b = a) by congruence. subst b.
           unfold a', area_write, area_with_words; cbn [a_words]. rewrite nth_error_blit by lia.
           destruct (Nat.leb_spec (N.to_nat (addr - a_base a)) (N.to_nat (x - a_base a))); cbn [andb]; [|reflexivity].
           destruct (Nat.ltb_spec (N.to_nat (x - a_base a)) (N.to_nat (addr - a_base a) + length wk)); [lia|reflexivity].
      * unfold t1. rewrite (word_at_set_area t j a a' x Hnth) by reflexivity.
        destruct (N.leb_spec addr x) as [L0|L0]; cbn [andb].
        -- (* inside the first area's part *)
           destruct (N.ltb_spec x (addr + N.of_nat (length ws))); [|lia].
           rewrite (find_area_same _ addr x j a Hwf Ef)
             by (unfold addr_in_area; apply andb_true_intro; split; [apply N.leb_le|apply N.ltb_lt]; lia).
           rewrite Nat.eqb_refl. unfold a', area_write, area_with_words; cbn [a_words]. rewrite nth_error_blit by lia.
           destruct (Nat.leb_spec (N.to_nat (addr - a_base a)) (N.to_nat (x - a_base a))); [|lia]. cbn [andb].
           destruct (Nat.ltb_spec (N.to_nat (x - a_base a)) (N.to_nat (addr - a_base a) + length wk)); [|lia].
           unfold wk. rewrite nth_error_firstn by lia. f_equal. lia.
        -- (* in front of the request *)
           unfold word_at. destruct (find_area (t_areas t) x 0) as [[i b]|] eqn:Ex; [|reflexivity].
           destruct (Nat.eqb_spec i j) as [->|]; [|reflexivity].
           destruct (find_area_props _ _ _ _ _ Ex) as (Hxb & _ & Hnb). rewrite Nat.sub_0_r in Hnb. assert (b = a) by congruence. subst b.
           unfold addr_in_area in Hxb. apply andb_prop in Hxb as [B1 B2]. apply N.leb_le in B1.
           unfold a', area_write, area_with_words; cbn [a_words]. rewrite nth_error_blit by lia.
           destruct (Nat.leb_spec (N.to_nat (addr - a_base a)) (N.to_nat (x - a_base a))); cbn [andb]; [lia|reflexivity].
Qed.

(* ================= consequences ================= *)
(* ---- C02: the word image after a successful block write ---- *)
Theorem block_write_image t addr n buf t' : areas_wf (t_areas t) -> n <> 0 -> n <= N.of_nat (length buf) ->
  block_write t addr n buf = ((ASuccess, 0), t') ->
  areas_wf (t_areas t') /\ same_geom (t_areas t) (t_areas t') /\
  forall x, word_at t' x = if (addr <=? x) && (x <? addr + n) then nth_error buf (N.to_nat (x - addr)) else word_at t x.
Proof.
  intros Hwf Hn Hlen H. destruct (block_write_success_form _ _ _ _ _ H Hn) as (_ & Eh & _ & ->).
  set (ws := firstn (N.to_nat n) buf). assert (Hws : N.of_nat (length ws) = n) by (unfold ws; rewrite firstn_length; lia).
  destruct (write_words_at (area_fuel t) t addr ws Hwf) as (G & Hwf' & _ & W).
  - intros i Hi. apply (first_hole_none _ _ _ _ Eh). lia.
  - right. intros j a _. unfold area_fuel. lia.
  - unfold set_entries. cbn [t_areas]. split; [exact Hwf'|]. split; [exact G|].
    intros x. change (word_at {| t_init := _; t_during := _; t_be := _; t_areas := t_areas (write_words (area_fuel t) t addr ws); t_entries := _ |} x)
      with (word_at (write_words (area_fuel t) t addr ws) x).
    rewrite (W x), Hws. destruct ((addr <=? x) && (x <? addr + n)) eqn:E; [|reflexivity].
    apply andb_prop in E as [E1 E2]. apply N.leb_le in E1. apply N.ltb_lt in E2.
    unfold ws. apply nth_error_firstn. lia.
Qed.

(* ---- the words of a register are the words at its addresses ---- *)
Lemma entry_words_at t e ws : areas_wf (t_areas t) -> entry_words t e = Some ws ->
  N.of_nat (length ws) = tsize (e_type e) /\ forall i, i < tsize (e_type e) -> word_at t (e_addr e + i) = nth_error ws (N.to_nat i).
Proof. intros Hwf H. apply (read_words_at _ _ _ _ _ Hwf H). Qed.

Lemma list_eq_nth {A} (l1 l2 : list A) : length l1 = length l2 -> (forall i, (i < length l1)%nat -> nth_error l1 i = nth_error l2 i) -> l1 = l2.
Proof.
  revert l2. induction l1 as [|x l1 IH]; intros [|y l2] Hl Hn; cbn in Hl; try lia; [reflexivity|].
  pose proof (Hn 0%nat ltac:(cbn; lia)) as H0. cbn in H0. injection H0 as ->. f_equal.
  apply IH; [lia|]. intros i Hi. apply (Hn (S i)). cbn. lia.
Qed.

(* ---- C03: a block read, word by word, with the zero fill for areas that are not readable ---- *)
Definition word_seen (t : table) (x : N) : option N :=
  match find_area (t_areas t) x 0 with
  | Some (_, a) => if area_is_readable a then nth_error (a_words a) (N.to_nat (x - a_base a)) else Some 0
  | None => None
  end.

Theorem read_words_seen : forall fuel t addr n ws, areas_wf (t_areas t) ->
  read_words fuel t addr n true = Some ws ->
  N.of_nat (length ws) = n /\ forall i, i < n -> word_seen t (addr + i) = nth_error ws (N.to_nat i).
Proof.
  induction fuel as [|f IH]; intros t addr n ws Hwf H; cbn [read_words] in H.
  - destruct (N.eqb_spec n 0) as [->|]; [|discriminate]. injection H as <-. split; [reflexivity|lia].
  - destruct (N.eqb_spec n 0) as [->|Hn]; [injection H as <-; split; [reflexivity|lia]|].
    destruct (find_area (t_areas t) addr 0) as [[j a]|] eqn:Ef; [|discriminate].
    cbn [andb] in H. set (k := N.min (a_base a + a_size a - addr) n) in *.
    destruct (read_words f t (addr + k) (n - k) true) as [r|] eqn:Er; [|discriminate]. injection H as <-.
    destruct (IH _ _ _ _ Hwf Er) as [Lr Wr].
    destruct (find_area_in _ _ _ _ _ Ef) as [Hin Hx]. pose proof (area_full_in _ _ Hwf Hin) as Hfull.
    unfold addr_in_area in Hx. apply andb_prop in Hx as [X1 X2]. apply N.leb_le in X1. apply N.ltb_lt in X2.
    assert (Hk : 1 <= k /\ k <= n /\ addr + k <= a_base a + a_size a) by (unfold k; lia). destruct Hk as (K1 & K2 & K3).
    set (part := if negb (area_is_readable a) then repeat 0 (N.to_nat k) else area_read a (addr - a_base a) k).
    assert (Hsl : length part = N.to_nat k).
    { unfold part. destruct (area_is_readable a); cbn [negb]; [unfold area_read; apply slice_length; lia|apply repeat_length]. }
    fold part. split; [rewrite app_length, Hsl; lia|].
    intros i Hi. destruct (N.lt_ge_cases i k) as [Hik|Hik].
    + rewrite nth_error_app1 by lia.
      unfold word_seen. rewrite (find_area_same _ addr (addr + i) j a Hwf Ef)
        by (unfold addr_in_area; apply andb_true_intro; split; [apply N.leb_le|apply N.ltb_lt]; lia).
      unfold part. destruct (area_is_readable a); cbn [negb].
      * unfold area_read. rewrite nth_error_slice by lia. f_equal. lia.
      * symmetry. apply nth_error_repeat. lia.
    + rewrite nth_error_app2 by lia. rewrite Hsl.
      replace (addr + i) with (addr + k + (i - k)) by lia. rewrite (Wr (i - k)) by lia. f_equal. lia.
Qed.

Theorem block_read_words t addr n ws : areas_wf (t_areas t) -> n <> 0 ->
  block_read t addr n = ((ASuccess, 0), ws) ->
  N.of_nat (length ws) = n /\ forall i, i < n -> word_seen t (addr + i) = nth_error ws (N.to_nat i).
Proof.
  intros Hwf Hn H. unfold block_read in H. destruct (negb (t_init t)); [discriminate|]. destruct (N.eqb_spec n 0); [contradiction|].
  destruct (first_hole _ _ _ _); [discriminate|].
  destruct (read_words (area_fuel t) t addr n true) as [r|] eqn:E; [|discriminate]. injection H as <-.
  apply (read_words_seen _ _ _ _ _ Hwf E).
Qed.

(* every attribute of an area except its words survives a write *)
Definition same_attr (a b : area) : Prop :=
  a_base a = a_base b /\ a_size a = a_size b /\ a_readable a = a_readable b /\ a_writeable a = a_writeable b /\
  a_has_read a = a_has_read b /\ a_has_write a = a_has_write b.
Lemma same_attr_refl l : Forall2 same_attr l l.
Proof. induction l; constructor; auto. unfold same_attr. auto 10. Qed.
Lemma same_attr_trans l1 l2 l3 : Forall2 same_attr l1 l2 -> Forall2 same_attr l2 l3 -> Forall2 same_attr l1 l3.
Proof.
  intros H. revert l3. induction H as [|a b r1 r2 Hab Hr IH]; intros l3 H3; inversion H3; subst; constructor; [|apply IH; assumption].
  unfold same_attr in *. intuition congruence.
Qed.
Lemma same_attr_upd l : forall i a ws, nth_error l i = Some a -> Forall2 same_attr l (upd l i (area_with_words a ws)).
Proof.
  induction l as [|x r IH]; intros i a ws H; destruct i; cbn in *; try discriminate.
  - injection H as ->. constructor; [unfold same_attr; cbn; auto 10|apply same_attr_refl].
  - constructor; [unfold same_attr; auto 10|]. apply IH. exact H.
Qed.
Lemma write_words_attr : forall fuel t addr ws, Forall2 same_attr (t_areas t) (t_areas (write_words fuel t addr ws)).
Proof.
  induction fuel as [|f IH]; intros t addr ws; destruct ws as [|w ws'] eqn:E; cbn [write_words]; try apply same_attr_refl.
  rewrite <- E. destruct (find_area (t_areas t) addr 0) as [[i a]|] eqn:Ef; [|apply same_attr_refl].
  eapply same_attr_trans; [|apply IH]. unfold set_area; cbn [t_areas]. unfold area_write.
  destruct (find_area_props _ _ _ _ _ Ef) as (_ & _ & Hn). rewrite Nat.sub_0_r in Hn. apply same_attr_upd. exact Hn.
Qed.
Lemma find_area_attr l1 l2 : Forall2 same_attr l1 l2 -> forall x k,
  match find_area l1 x k, find_area l2 x k with
  | Some (i, a), Some (j, b) => i = j /\ same_attr a b
  | None, None => True
  | _, _ => False
  end.
Proof.
  intros H. induction H as [|a b r1 r2 Hab Hr IH]; intros x k; cbn [find_area]; [exact I|].
  unfold addr_in_area. destruct Hab as (Hb & Hs & Rest). rewrite Hb, Hs.
  destruct ((a_base b <=? x) && (x <? a_base b + a_size b)); [split; [reflexivity|unfold same_attr; auto]|apply IH].
Qed.

(* write then read: what a successful block write stored is what a block read of a readable range returns *)
Theorem block_write_then_read t addr n buf t' ws : areas_wf (t_areas t) -> n <> 0 -> n <= N.of_nat (length buf) ->
  block_write t addr n buf = ((ASuccess, 0), t') ->
  block_read t' addr n = ((ASuccess, 0), ws) ->
  (forall x, addr <= x < addr + n -> forall j a, find_area (t_areas t) x 0 = Some (j, a) -> area_is_readable a = true) ->
  ws = firstn (N.to_nat n) buf.
Proof.
  intros Hwf Hn Hlen Hw Hr Hreadable.
  destruct (block_write_image t addr n buf t' Hwf Hn Hlen Hw) as (Hwf' & G & W).
  destruct (block_read_words t' addr n ws Hwf' Hn Hr) as [Lw Sw].
  apply list_eq_nth; [rewrite firstn_length; lia|].
  intros k Hk. rewrite nth_error_firstn by lia.
  replace (nth_error ws k) with (nth_error ws (N.to_nat (N.of_nat k))) by (rewrite Nat2N.id; reflexivity).
  rewrite <- (Sw (N.of_nat k)) by lia.
  unfold word_seen. pose proof (W (addr + N.of_nat k)) as Wk. unfold word_at in Wk.
  pose proof (find_area_geom _ _ G (addr + N.of_nat k) 0) as FG.
  destruct (find_area (t_areas t') (addr + N.of_nat k) 0) as [[j b]|] eqn:E'.
  - destruct (find_area (t_areas t) (addr + N.of_nat k) 0) as [[j0 a0]|] eqn:E0; [|contradiction].
    destruct FG as (<- & Hb & Hs).
    assert (Hrd : area_is_readable b = true).
    { pose proof (Hreadable (addr + N.of_nat k) ltac:(lia) j0 a0 E0) as R0.
      (* readability is not geometry: it is unchanged because write_words only replaces words *)
      destruct (block_write_success_form _ _ _ _ _ Hw Hn) as (_ & _ & _ & Et). subst t'. unfold set_entries in E'; cbn [t_areas] in E'.
      pose proof (find_area_attr _ _ (write_words_attr (area_fuel t) t addr (firstn (N.to_nat n) buf)) (addr + N.of_nat k) 0) as FA.
      rewrite E0, E' in FA. destruct FA as (_ & _ & _ & R1 & _ & R2 & _). unfold area_is_readable in *. rewrite <- R1, <- R2. exact R0. }
    rewrite Hrd, Wk.
    destruct (N.leb_spec addr (addr + N.of_nat k)); [|lia]. destruct (N.ltb_spec (addr + N.of_nat k) (addr + n)); [|lia]. cbn [andb].
    f_equal. lia.
  - exfalso. destruct (find_area (t_areas t) (addr + N.of_nat k) 0) as [[j0 a0]|] eqn:E0; [contradiction|].
    destruct (block_write_success_form _ _ _ _ _ Hw Hn) as (_ & Eh & _ & _).
    destruct (first_hole_none _ _ _ _ Eh (addr + N.of_nat k) ltac:(lia)) as (jj & aa & Ex). congruence.
Qed.
