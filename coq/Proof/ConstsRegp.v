(* The register-protocol model uses the frame types, option bits, response and meta codes, header sizes and the size of the frame
   structure of src/register-protocol.c / include/ufw/register-protocol.h. *)
From Ufw Require Import Base.Bits Gen.Consts Model.Regp.
From Coq Require Import NArith.
Local Open Scope N_scope.
Lemma regp_constants :
  RP_VERSION = c_RP_IMPLEMENTATION_VERSION /\
  (OPT_W16, OPT_HDCRC, OPT_PLCRC) = (c_RP_OPT_WORD_SIZE_16, c_RP_OPT_WITH_HEADER_CRC, c_RP_OPT_WITH_PAYLOAD_CRC) /\
  (T_READ_REQ, T_READ_RESP, T_WRITE_REQ, T_WRITE_RESP, T_META)
  = (c_RP_FRAME_READ_REQUEST, c_RP_FRAME_READ_RESPONSE, c_RP_FRAME_WRITE_REQUEST, c_RP_FRAME_WRITE_RESPONSE, c_RP_FRAME_META) /\
  (R_ACK, R_EWORDSIZE, R_EPAYLOADCRC, R_EPAYLOADSIZE, R_ERXOVERFLOW, R_ETXOVERFLOW, R_EBUSY, R_EUNMAPPED, R_EACCESS, R_ERANGE, R_EINVALID, R_EIO)
  = (c_RP_RESP_ACK, c_RP_RESP_EWORDSIZE, c_RP_RESP_EPAYLOADCRC, c_RP_RESP_EPAYLOADSIZE, c_RP_RESP_ERXOVERFLOW, c_RP_RESP_ETXOVERFLOW,
     c_RP_RESP_EBUSY, c_RP_RESP_EUNMAPPED, c_RP_RESP_EACCESS, c_RP_RESP_ERANGE, c_RP_RESP_EINVALID, c_RP_RESP_EIO) /\
  (META_EHEADERENC, META_EHEADERCRC) = (c_RP_META_EHEADERENC, c_RP_META_EHEADERCRC) /\
  SIZEOF_RPFRAME = c_sizeof_RPFrame /\
  (* the model's header lengths: 12 octets, 14 or 16 with the checksum words *)
  (c_RP_HEADER_MIN_SIZE, c_RP_HEADER_SIZE) = (12, 16).
Proof. repeat split; reflexivity. Qed.
