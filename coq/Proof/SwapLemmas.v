(* lor-homomorphisms: the mask-and-shift swap code is proved for all values from its values on single bits *)
From Ufw Require Import Base.Bits Base.Cexpr Model.BinFmt Proof.BinFmtLemmas Proof.CexprLemmas.
From Coq Require Import Lia ZArith Bool.
Local Open Scope Z_scope.

Definition lor_hom (f : Z -> Z) : Prop := f 0 = 0 /\ forall a b, f (Z.lor a b) = Z.lor (f a) (f b).

Lemma hom_const0 : lor_hom (fun _ => 0).
Proof. split; auto. Qed.
Lemma hom_id : lor_hom (fun v => v).
Proof. split; auto. Qed.
Lemma hom_land f c : lor_hom f -> lor_hom (fun v => Z.land (f v) c).
Proof. intros [H0 H]. split; [rewrite H0; apply Z.land_0_l|]. intros a b. rewrite H. apply Z.land_lor_distr_l. Qed.
Lemma hom_shiftl f c : lor_hom f -> lor_hom (fun v => Z.shiftl (f v) c).
Proof. intros [H0 H]. split; [rewrite H0; apply Z.shiftl_0_l|]. intros a b. rewrite H. apply Z.shiftl_lor. Qed.
Lemma hom_shiftr f c : lor_hom f -> lor_hom (fun v => Z.shiftr (f v) c).
Proof. intros [H0 H]. split; [rewrite H0; apply Z.shiftr_0_l|]. intros a b. rewrite H. apply Z.shiftr_lor. Qed.
Lemma hom_lor f g : lor_hom f -> lor_hom g -> lor_hom (fun v => Z.lor (f v) (g v)).
Proof.
  intros [F0 F] [G0 G]. split; [rewrite F0, G0; reflexivity|]. intros a b. rewrite F, G.
  rewrite !Z.lor_assoc. f_equal. rewrite <- !Z.lor_assoc. f_equal. apply Z.lor_comm.
Qed.
Lemma hom_mod f w : 0 <= w -> lor_hom f -> lor_hom (fun v => f v mod 2 ^ w).
Proof.
  intros Hw Hf. destruct (hom_land f (Z.ones w) Hf) as [H0 H].
  split; [rewrite <- Z.land_ones by exact Hw; exact H0|].
  intros a b. rewrite <- !Z.land_ones by exact Hw. apply H.
Qed.
Lemma hom_ext_eq f g : (forall v, f v = g v) -> lor_hom f -> lor_hom g.
Proof. intros E [H0 H]. split; [rewrite <- E; exact H0|]. intros a b. rewrite <- !E. apply H. Qed.

(* the fragment the swap expressions live in *)
Fixpoint hom_expr (x : string) (e : expr) : bool :=
  match e with
  | Var y => true
  | Cast (Ity false w) a => (0 <=? w) && hom_expr x a
  | Bin Oand (Ity false w) a (Lit c) => (0 <=? w) && hom_expr x a
  | Bin Oshl (Ity false w) a (Lit c) => (0 <=? w) && hom_expr x a
  | Bin Oshr (Ity false w) a (Lit c) => (0 <=? w) && hom_expr x a
  | Bin Oor (Ity false w) a b => (0 <=? w) && hom_expr x a && hom_expr x b
  | _ => false
  end.

Lemma hom_expr_sound x e : hom_expr x e = true ->
  lor_hom (fun v => eval (bind x v env0) notabs e).
Proof.
  induction e as [y|z|o t a IHa b IHb|o t a IHa|t a IHa|tab i IHi|c IHc a IHa b IHb]; cbn [hom_expr]; try discriminate.
  - intros _. cbn [eval]. unfold bind, env0. destruct (String.eqb x y); [apply hom_id|apply hom_const0].
  - destruct o; try discriminate; destruct t as [[|] w]; try discriminate.
    + (* Oand *) destruct b; try discriminate. intros H. apply andb_prop in H as [Hw Ha]. apply Z.leb_le in Hw.
      cbn [eval eval_bin norm]. apply hom_mod; [exact Hw|]. apply hom_land. apply IHa. exact Ha.
    + (* Oor *) intros H. apply andb_prop in H as [H Hb]. apply andb_prop in H as [Hw Ha]. apply Z.leb_le in Hw.
      cbn [eval eval_bin norm]. apply hom_mod; [exact Hw|]. apply hom_lor; [apply IHa|apply IHb]; assumption.
    + (* Oshl *) destruct b; try discriminate. intros H. apply andb_prop in H as [Hw Ha]. apply Z.leb_le in Hw.
      cbn [eval eval_bin norm]. apply hom_mod; [exact Hw|]. apply hom_shiftl. apply IHa. exact Ha.
    + (* Oshr *) destruct b; try discriminate. intros H. apply andb_prop in H as [Hw Ha]. apply Z.leb_le in Hw.
      cbn [eval eval_bin norm]. apply hom_mod; [exact Hw|]. apply hom_shiftr. apply IHa. exact Ha.
  - destruct t as [[|] w]; try discriminate. intros H. apply andb_prop in H as [Hw Ha]. apply Z.leb_le in Hw.
    cbn [eval norm]. apply hom_mod; [exact Hw|]. apply IHa. exact Ha.
Qed.

(* two homomorphisms that agree on the n single-bit values agree on [0, 2^n) *)
Lemma hom_ext f g : lor_hom f -> lor_hom g -> forall n : nat,
  (forall i : nat, (i < n)%nat -> f (2 ^ Z.of_nat i) = g (2 ^ Z.of_nat i)) ->
  forall v, 0 <= v < 2 ^ Z.of_nat n -> f v = g v.
Proof.
  intros [F0 F] [G0 G] n. induction n as [|n IH]; intros Hb v Hv.
  - cbn in Hv. assert (v = 0) by lia. subst. congruence.
  - rewrite Nat2Z.inj_succ, Z.pow_succ_r in Hv by lia.
    set (m := Z.of_nat n) in *. assert (Hm : 0 <= m) by (unfold m; lia).
    rewrite <- (Z.lor_ldiff_and v (Z.ones m)). rewrite F, G. f_equal.
    + rewrite Z.ldiff_ones_r by exact Hm.
      assert (Hq : Z.shiftr v m = 0 \/ Z.shiftr v m = 1).
      { rewrite Z.shiftr_div_pow2 by exact Hm.
        assert (0 <= v / 2 ^ m < 2).
        { split; [apply Z.div_pos; lia|apply Z.div_lt_upper_bound; lia]. }
        lia. }
      destruct Hq as [-> | ->].
      * rewrite Z.shiftl_0_l. congruence.
      * rewrite Z.shiftl_1_l. apply Hb. lia.
    + rewrite Z.land_ones by exact Hm. apply IH.
      * intros i Hi. apply Hb. lia.
      * apply Z.mod_pos_bound. lia.
Qed.

(* the specification of swapping the k low octets, written so that it is visibly a homomorphism *)
Fixpoint swapspec (k : nat) (v : Z) : Z :=
  match k with
  | O => 0
  | S k' => Z.lor (Z.shiftl (Z.land v 255) (8 * Z.of_nat k')) (swapspec k' (Z.shiftr v 8))
  end.

Lemma swapspec_hom k : lor_hom (swapspec k).
Proof.
  induction k as [|k IH]; [apply hom_const0|].
  cbn [swapspec]. apply hom_lor.
  - apply hom_shiftl. apply hom_land. apply hom_id.
  - destruct IH as [H0 H]. split; [rewrite Z.shiftr_0_l; exact H0|].
    intros a b. rewrite Z.shiftr_lor. apply H.
Qed.

Lemma oflZ_app l1 l2 : oflZ (l1 ++ l2) = oflZ l1 + 256 ^ Z.of_nat (List.length l1) * oflZ l2.
Proof.
  induction l1 as [|b l IH]; [cbn [app oflZ List.length]; change (Z.of_nat 0) with 0; rewrite Z.pow_0_r; lia|].
  cbn [app oflZ List.length]. rewrite IH, Nat2Z.inj_succ, Z.pow_succ_r by lia. lia.
Qed.

Lemma lor_shiftl_addZ x y k : 0 <= k -> 0 <= x < 2 ^ k -> 0 <= y -> Z.lor x (Z.shiftl y k) = x + y * 2 ^ k.
Proof.
  intros Hk Hx Hy. rewrite <- Z.lxor_lor, <- Z.add_nocarry_lxor, Z.shiftl_mul_pow2; try reflexivity; try exact Hk.
  all: apply Z.bits_inj'; intros m Hm; rewrite Z.land_spec, Z.bits_0;
    destruct (Z.lt_ge_cases m k) as [Hlt|Hge];
    [rewrite Z.shiftl_spec_low by exact Hlt; apply andb_false_r
    |destruct (Z.eq_dec x 0) as [->|Hz]; [rewrite Z.bits_0; reflexivity|];
     rewrite (Z.bits_above_log2 x m); [reflexivity|lia|];
     assert (Z.log2 x < k) by (apply Z.log2_lt_pow2; lia); lia].
Qed.

Lemma swapspec_bswap k : forall v, 0 <= v -> swapspec k v = bswap k v.
Proof.
  unfold bswap. induction k as [|k IH]; intros v Hv; [reflexivity|].
  cbn [swapspec lebZ rev]. rewrite oflZ_app. cbn [oflZ]. rewrite rev_length, lebZ_length.
  rewrite Z.shiftr_div_pow2 by lia. change (2 ^ 8) with 256.
  rewrite IH by (apply Z.div_pos; lia).
  change 255 with (Z.ones 8). rewrite Z.land_ones by lia. change (2 ^ 8) with 256.
  rewrite Z.lor_comm.
  assert (Hr : 0 <= oflZ (rev (lebZ k (v / 256))) < 256 ^ Z.of_nat k).
  { pose proof (oflZ_range (rev (lebZ k (v / 256))) (rev_octets _ (lebZ_octets k _))) as R.
    rewrite rev_length, lebZ_length in R. exact R. }
  rewrite lor_shiftl_addZ; [rewrite pow256; lia|lia|rewrite <- pow256; exact Hr|apply Z.mod_pos_bound; lia].
Qed.

(* a swap given by a mask-and-shift expression is correct on [0, 2^T) as soon as it is on the T single-bit values *)
Lemma swap_ok_gen (f : Z -> Z) (e : expr) (k T : nat) :
  (forall v, f v = eval (bind "value" v env0) notabs e) ->
  hom_expr "value" e = true ->
  forallb (fun i => f (2 ^ Z.of_nat i) =? swapspec k (2 ^ Z.of_nat i)) (seq 0 T) = true ->
  forall v, 0 <= v < 2 ^ Z.of_nat T -> f v = bswap k v.
Proof.
  intros Hf He Hb v Hv. rewrite <- swapspec_bswap by lia.
  apply (hom_ext f (swapspec k)) with (n := T); [|apply swapspec_hom| |exact Hv].
  - apply (hom_ext_eq (fun v => eval (bind "value" v env0) notabs e)); [intros; symmetry; apply Hf|].
    apply hom_expr_sound. exact He.
  - intros i Hi. rewrite forallb_forall in Hb. apply Z.eqb_eq. apply Hb. apply in_seq. lia.
Qed.

(* bit tests as comparisons *)
Lemma land_pow2 u n : 0 <= n -> Z.land u (2 ^ n) = if Z.testbit u n then 2 ^ n else 0.
Proof.
  intros Hn. apply Z.bits_inj'. intros m Hm. rewrite Z.land_spec, Z.pow2_bits_eqb by exact Hn.
  destruct (Z.eqb_spec n m) as [->|Hne].
  - destruct (Z.testbit u m); [rewrite Z.pow2_bits_true by lia; reflexivity|rewrite Z.bits_0; reflexivity].
  - rewrite andb_false_r. destruct (Z.testbit u n); [rewrite Z.pow2_bits_false by lia; reflexivity|rewrite Z.bits_0; reflexivity].
Qed.

Lemma testbit_top u n : 0 <= n -> 0 <= u < 2 ^ (n + 1) -> Z.testbit u n = (2 ^ n <=? u).
Proof.
  intros Hn Hu. rewrite Z.pow_add_r, Z.pow_1_r in Hu by lia.
  destruct (Z.leb_spec (2 ^ n) u) as [H|H].
  - apply Z.testbit_true; [exact Hn|].
    assert (u / 2 ^ n = 1).
    { symmetry. apply Z.div_unique with (r := u - 2 ^ n); lia. }
    rewrite H0. reflexivity.
  - destruct (Z.eq_dec u 0) as [->|Hz]; [apply Z.bits_0|].
    apply Z.bits_above_log2; [lia|apply Z.log2_lt_pow2; lia].
Qed.

(* the sign-extension idiom of bf_ref_s24/40/48/56: if bit W-1 is set, or in the ones above it *)
Lemma sign_extend_generic W T u bitv mask :
  0 < W -> W < T -> T <= 64 -> 0 <= u < 2 ^ W -> bitv = 2 ^ (W - 1) -> mask = 2 ^ T - 2 ^ W ->
  as_signed T (if norm (Ity true 32) (b2z (norm (Ity false 64) (Z.land (norm (Ity false 64) u) bitv) =? bitv)) =? 0
               then u
               else norm (Ity false T) (norm (Ity false 64) (Z.lor (norm (Ity false 64) u) mask)))
  = sextZ W u.
Proof.
  intros HW HT H64 Hu -> ->.
  assert (P1 : 2 ^ W = 2 * 2 ^ (W - 1)) by (rewrite <- Z.pow_succ_r by lia; f_equal; lia).
  assert (P2 : 2 ^ T = 2 ^ (T - W) * 2 ^ W) by (rewrite <- Z.pow_add_r by lia; f_equal; lia).
  assert (P3 : 2 ^ 64 = 2 ^ (64 - T) * 2 ^ T) by (rewrite <- Z.pow_add_r by lia; f_equal; lia).
  assert (Q1 : 0 < 2 ^ (W - 1)) by (apply Z.pow_pos_nonneg; lia).
  assert (Q2 : 1 < 2 ^ (T - W)) by (apply Z.pow_gt_1; lia).
  assert (Q3 : 0 < 2 ^ (64 - T)) by (apply Z.pow_pos_nonneg; lia).
  assert (Hu64 : 0 <= u < 2 ^ 64) by nia.
  rewrite (norm_u_small 64 u) by exact Hu64.
  rewrite land_pow2 by lia. rewrite (testbit_top u (W - 1)) by (replace (W - 1 + 1) with W by lia; lia).
  change (sextZ W u) with (as_signed W u). rewrite (as_signed_spec W u) by lia.
  destruct (Z.leb_spec (2 ^ (W - 1)) u) as [Hge|Hlt].
  - rewrite norm_u_small by lia. rewrite Z.eqb_refl. cbn [b2z].
    change (norm (Ity true 32) 1 =? 0) with false. cbv iota.
    destruct (Z.ltb_spec u (2 ^ (W - 1))); [lia|].
    replace (2 ^ T - 2 ^ W) with (Z.shiftl (2 ^ (T - W) - 1) W) by (rewrite Z.shiftl_mul_pow2 by lia; nia).
    rewrite lor_shiftl_addZ by lia.
    assert (E1 : (2 ^ (T - W) - 1) * 2 ^ W = 2 ^ T - 2 ^ W) by (rewrite P2; ring).
    assert (E2 : 2 ^ T <= 2 ^ 64) by (apply Z.pow_le_mono_r; lia).
    assert (E3 : 2 ^ T = 2 * 2 ^ (T - 1)) by (rewrite <- Z.pow_succ_r by lia; f_equal; lia).
    assert (E4 : 2 ^ W <= 2 ^ (T - 1)) by (apply Z.pow_le_mono_r; lia).
    rewrite E1.
    rewrite (norm_u_small 64) by lia. rewrite (norm_u_small T) by lia.
    rewrite as_signed_spec by lia.
    destruct (Z.ltb_spec (u + (2 ^ T - 2 ^ W)) (2 ^ (T - 1))) as [Hc|Hc]; lia.
  - rewrite norm_u_small by lia.
    destruct (Z.eqb_spec 0 (2 ^ (W - 1))); [lia|]. cbn [b2z].
    change (norm (Ity true 32) 0 =? 0) with true. cbv iota.
    destruct (Z.ltb_spec u (2 ^ (W - 1))); [|lia].
    assert (E3 : 2 ^ T = 2 * 2 ^ (T - 1)) by (rewrite <- Z.pow_succ_r by lia; f_equal; lia).
    assert (E4 : 2 ^ W <= 2 ^ (T - 1)) by (apply Z.pow_le_mono_r; lia).
    rewrite as_signed_spec by lia.
    destruct (Z.ltb_spec u (2 ^ (T - 1))); [reflexivity|lia].
Qed.
