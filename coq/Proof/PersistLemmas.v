From Ufw Require Import Base.Bits Model.Persist Proof.ListLemmas Proof.LenpLemmas.
From Coq Require Import Lia Bool.
Local Open Scope N_scope.

(* ---------- the window as a plain list ---------- *)
Lemma wrap32_small x : x < 2 ^ 32 -> wrap 32 x = x.
Proof. intros H. unfold wrap. apply N.mod_small. exact H. Qed.

Lemma skipn_nth_cons {A} (l : list A) o d : (o < length l)%nat -> skipn o l = nth o l d :: skipn (S o) l.
Proof.
  revert o; induction l as [|x l IH]; intros [|o] H; cbn in *; try lia; auto. apply IH. lia.
Qed.

Lemma map_nth_slice {A} (l : list A) d n : forall o, (o + n <= length l)%nat ->
  map (fun i => nth (o + i) l d) (seq 0 n) = slice l o n.
Proof.
  unfold slice. induction n as [|n IH]; intros o H; [reflexivity|].
  cbn [seq map]. rewrite (skipn_nth_cons l o d) by lia. cbn [firstn]. rewrite Nat.add_0_r. f_equal.
  rewrite <- seq_shift, map_map. rewrite <- IH by lia. apply map_ext. intros i. f_equal. lia.
Qed.

(* an access [addr, addr+n) inside the window *)
Definition inwin (m : medium) (addr n : N) : Prop :=
  m_base m <= addr /\ addr + n <= m_base m + N.of_nat (length (m_img m)) /\ addr + n < 2 ^ 32.

Lemma img_read_in m addr n : inwin m addr (N.of_nat n) ->
  img_read m addr n = slice (m_img m) (N.to_nat (addr - m_base m)) n.
Proof.
  intros (H1 & H2 & H3). unfold img_read.
  rewrite <- (map_nth_slice (m_img m) 238) by lia.
  apply map_ext_in. intros i Hi. apply in_seq in Hi.
  rewrite wrap32_small by lia.
  destruct (N.leb_spec (m_base m) (addr + N.of_nat i)); [|lia].
  destruct (N.ltb_spec (addr + N.of_nat i) (m_base m + N.of_nat (length (m_img m)))); [|lia].
  cbn [andb]. f_equal. lia.
Qed.

Lemma img_write_in xs : forall base img addr,
  base <= addr -> addr + N.of_nat (length xs) <= base + N.of_nat (length img) -> addr + N.of_nat (length xs) < 2 ^ 32 ->
  img_write base img addr xs = blit img (N.to_nat (addr - base)) xs.
Proof.
  induction xs as [|x r IH]; intros base img addr H1 H2 H3; [reflexivity|].
  cbn [img_write blit length] in *. rewrite wrap32_small by lia.
  destruct (N.leb_spec base addr); [|lia].
  destruct (N.ltb_spec addr (base + N.of_nat (length img))); [|lia]. cbn [andb].
  rewrite IH by (rewrite ?upd_length; lia). f_equal. lia.
Qed.

(* ---------- fault-free medium calls ---------- *)
Definition nofault (m : medium) : Prop := m_rd m = [] /\ m_wr m = [].

Lemma med_read_ok_gen m addr n : m_rd m = [] -> inwin m addr n ->
  exists m', med_read m addr n = (slice (m_img m) (N.to_nat (addr - m_base m)) (N.to_nat n), m') /\
             m_img m' = m_img m /\ m_base m' = m_base m /\ m_rd m' = [] /\ m_wr m' = m_wr m /\
             m_log m' = m_log m ++ [(false, addr, n, n)].
Proof.
  intros Hr Hin. unfold med_read. rewrite Hr. cbn [pop_fault granted].
  rewrite img_read_in by (rewrite N2Nat.id; exact Hin).
  eexists. split; [reflexivity|]. cbn. repeat split; auto.
Qed.

Lemma med_read_ok m addr n : nofault m -> inwin m addr n ->
  exists m', med_read m addr n = (slice (m_img m) (N.to_nat (addr - m_base m)) (N.to_nat n), m') /\
             m_img m' = m_img m /\ m_base m' = m_base m /\ nofault m' /\
             m_log m' = m_log m ++ [(false, addr, n, n)].
Proof.
  intros [Hr Hw] Hin. unfold med_read. rewrite Hr. cbn [pop_fault granted].
  rewrite img_read_in by (rewrite N2Nat.id; exact Hin).
  eexists. split; [reflexivity|]. cbn. repeat split; auto.
Qed.

Lemma med_write_ok m addr xs : nofault m -> inwin m addr (N.of_nat (length xs)) ->
  exists m', med_write m addr xs = (N.of_nat (length xs), m') /\
             m_img m' = blit (m_img m) (N.to_nat (addr - m_base m)) xs /\ m_base m' = m_base m /\ nofault m' /\
             m_log m' = m_log m ++ [(true, addr, N.of_nat (length xs), N.of_nat (length xs))].
Proof.
  intros [Hr Hw] (H1 & H2 & H3). unfold med_write. rewrite Hw. cbn [pop_fault granted].
  eexists. split; [reflexivity|]. cbn [m_img m_base m_log]. rewrite Nat2N.id, firstn_all.
  repeat split; auto. apply img_write_in; assumption.
Qed.

Lemma med_write_fok m addr xs r : m_wr m = Fok :: r -> inwin m addr (N.of_nat (length xs)) ->
  exists m', med_write m addr xs = (N.of_nat (length xs), m') /\
             m_img m' = blit (m_img m) (N.to_nat (addr - m_base m)) xs /\ m_base m' = m_base m /\
             m_rd m' = m_rd m /\ m_wr m' = r.
Proof.
  intros Hw (H1 & H2 & H3). unfold med_write. rewrite Hw. cbn [pop_fault granted].
  eexists. split; [reflexivity|]. cbn [m_img m_base m_rd m_wr]. rewrite Nat2N.id, firstn_all.
  repeat split; auto. apply img_write_in; assumption.
Qed.

(* a write that transfers nothing leaves the medium as it is *)
Lemma med_write_fail m addr xs r : m_wr m = Fshort 0 :: r ->
  exists m', med_write m addr xs = (0, m') /\ m_img m' = m_img m /\ m_base m' = m_base m /\ m_rd m' = m_rd m /\ m_wr m' = r.
Proof.
  intros Hw. unfold med_write. rewrite Hw. cbn [pop_fault granted].
  rewrite N.min_0_l. eexists. split; [reflexivity|]. cbn. repeat split; auto.
Qed.

Section Proofs.
  Variable step : N -> N -> N.

  (* the octets of the medium at [addr, addr+n) as seen through the window *)
  Definition at_ (m : medium) (addr n : N) : list N :=
    slice (m_img m) (N.to_nat (addr - m_base m)) (N.to_nat n).

  Lemma firstn_add_skip {A} n1 n2 : forall (L : list A), firstn (n1 + n2) L = firstn n1 L ++ firstn n2 (skipn n1 L).
  Proof. induction n1 as [|n1 IH]; intros [|x L]; cbn; auto; [rewrite firstn_nil; reflexivity|]. f_equal. apply IH. Qed.

  Lemma slice_app {A} (l : list A) o n1 n2 : slice l o (n1 + n2) = slice l o n1 ++ slice l (o + n1) n2.
  Proof.
    unfold slice. rewrite firstn_add_skip. f_equal. f_equal.
    rewrite (Nat.add_comm o n1). symmetry. apply skipn_add.
  Qed.

  (* chunk independence: however the reads are chunked (any chunk size >= 1), the checksum computed from
     the medium is the fold of the step function over the data image *)
  Lemma calc_loop_ok fuel : forall st m rest addr sum,
    m_rd m = [] -> inwin m addr rest -> 1 <= p_bsize st -> (N.to_nat rest < fuel)%nat ->
    exists m', calc_loop step fuel st m rest addr sum = (Some (cks step sum (at_ m addr rest)), m') /\
               m_img m' = m_img m /\ m_base m' = m_base m /\ m_rd m' = [] /\ m_wr m' = m_wr m /\
               (exists l, m_log m' = m_log m ++ l /\
                          Forall (fun e => let '(w, a, n, g) := e in w = false /\ addr <= a /\ a + n <= addr + rest /\ g = n) l).
  Proof.
    induction fuel as [|f IH]; intros st m rest addr sum Hnf Hin Hb Hf; [lia|].
    cbn [calc_loop]. destruct (N.eqb_spec rest 0) as [->|Hz].
    - exists m. unfold at_, slice. cbn [N.to_nat firstn cks fold_left].
      repeat split; auto. exists []. rewrite app_nil_r. auto.
    - set (toget := if p_bsize st <? rest then p_bsize st else rest).
      assert (Ht : 1 <= toget <= rest) by (unfold toget; destruct (N.ltb_spec (p_bsize st) rest); lia).
      destruct Hin as (H1 & H2 & H3).
      destruct (med_read_ok_gen m addr toget Hnf) as (m1 & E1 & I1 & B1 & N1 & W1 & L1); [unfold inwin; lia|].
      rewrite E1.
      assert (Hlen : N.of_nat (length (slice (m_img m) (N.to_nat (addr - m_base m)) (N.to_nat toget))) = toget).
      { rewrite slice_length; lia. }
      rewrite Hlen, N.eqb_refl. cbn [negb].
      rewrite wrap32_small by lia.
      destruct (IH st m1 (rest - toget) (addr + toget) (cks step sum (slice (m_img m) (N.to_nat (addr - m_base m)) (N.to_nat toget))))
        as (m2 & E2 & I2 & B2 & N2 & W2 & (l2 & L2 & F2)); auto; try lia.
      { unfold inwin. rewrite I1, B1. lia. }
      exists m2. rewrite E2. split.
      + f_equal. f_equal. unfold at_. rewrite I1, B1.
        replace (N.to_nat rest) with (N.to_nat toget + N.to_nat (rest - toget))%nat by lia.
        rewrite slice_app. unfold cks. rewrite fold_left_app. f_equal. f_equal. lia.
      + rewrite I2, B2, I1, B1. repeat split; auto.
        * congruence.
        * exists ((false, addr, toget, toget) :: l2). rewrite L2, L1, <- app_assoc. split; [reflexivity|].
          constructor; [repeat split; lia|].
          eapply Forall_impl; [|exact F2]. intros [[[w a] n] g] (A1 & A2 & A3 & A4). repeat split; auto; lia.
  Qed.

  (* ---------- read-over-write on lists ---------- *)
  Lemma slice_blit_same {A} (l xs : list A) i : (i + length xs <= length l)%nat -> slice (blit l i xs) i (length xs) = xs.
  Proof.
    intros H. unfold slice. rewrite blit_spec by exact H.
    rewrite skipn_app_len by (rewrite firstn_length; lia). apply firstn_app_len. reflexivity.
  Qed.
  Lemma slice_prefix_only {A} (l : list A) i j n : (j + n <= i)%nat -> slice (firstn i l) j n = slice l j n.
  Proof.
    intros H. unfold slice. rewrite skipn_firstn_comm, firstn_firstn. f_equal. lia.
  Qed.
  Lemma slice_blit_before {A} (l xs : list A) i j n : (j + n <= i)%nat -> slice (blit l i xs) j n = slice l j n.
  Proof.
    intros H. rewrite <- (slice_prefix_only (blit l i xs) i j n H), <- (slice_prefix_only l i j n H).
    rewrite blit_firstn by lia. reflexivity.
  Qed.
  Lemma slice_blit_after {A} (l xs : list A) i j n : (i + length xs <= j)%nat -> slice (blit l i xs) j n = slice l j n.
  Proof. intros H. unfold slice. rewrite blit_skipn by lia. reflexivity. Qed.

  Lemma slice_blit_inside {A} (l xs : list A) o k n :
    (k + length xs <= n)%nat -> (o + n <= length l)%nat ->
    slice (blit l (o + k) xs) o n = blit (slice l o n) k xs.
  Proof.
    intros H1 H2.
    assert (Hs : length (slice l o n) = n) by (apply slice_length; exact H2).
    rewrite (blit_spec xs (slice l o n) k) by lia.
    unfold slice at 1. rewrite (blit_spec xs l (o + k)) by lia.
    (* skipn o (firstn (o+k) l ++ xs ++ tail) *)
    rewrite skipn_app. rewrite firstn_length_le by lia.
    replace (o - (o + k))%nat with 0%nat by lia. cbn [skipn].
    rewrite skipn_firstn_comm. replace (o + k - o)%nat with k by lia.
    rewrite firstn_app. rewrite firstn_length, skipn_length.
    replace (Nat.min k (length l - o)) with k by lia.
    rewrite firstn_firstn. replace (Nat.min n k) with k by lia.
    f_equal.
    - unfold slice. rewrite firstn_firstn. f_equal. lia.
    - rewrite firstn_app. f_equal.
      + apply firstn_all2. lia.
      + unfold slice. rewrite skipn_firstn_comm. rewrite <- skipn_add.
        f_equal; [lia|]. f_equal. lia.
  Qed.

  Lemma blit_whole {A} (l xs : list A) : length xs = length l -> blit l 0 xs = xs.
  Proof.
    intros H. rewrite blit_spec by lia. cbn [firstn app Nat.add]. rewrite H, skipn_all. apply app_nil_r.
  Qed.

  (* ---------- a well-placed instance on a fault-free medium ---------- *)
  Definition wf (st : pstore) (m : medium) : Prop :=
    nofault m /\ (p_csize st = 2 \/ p_csize st = 4) /\ 1 <= p_bsize st /\
    m_base m <= p_caddr st /\
    p_caddr st + p_csize st + p_dsize st <= m_base m + N.of_nat (length (m_img m)) /\
    p_caddr st + p_csize st + p_dsize st < 2 ^ 32.
  Definition sum_range (st : pstore) : Prop :=
    p_init st < 256 ^ p_csize st /\ (forall s d, s < 256 ^ p_csize st -> step s d < 256 ^ p_csize st).

  Lemma daddr_eq st m : wf st m -> p_daddr st = p_caddr st + p_csize st.
  Proof. intros (_ & _ & _ & _ & _ & H). unfold p_daddr. apply wrap32_small. lia. Qed.

  Lemma cks_range st l : sum_range st -> forall s, s < 256 ^ p_csize st -> cks step s l < 256 ^ p_csize st.
  Proof. intros [_ H]. unfold cks. induction l as [|d l IH]; intros s Hs; cbn; auto. Qed.

  (* validate = "checksum on the medium equals the algorithm applied to the data on the medium" *)
  Theorem validate_spec st m : wf st m ->
    exists m', validate step st m =
      ((if of_le (at_ m (p_caddr st) (p_csize st)) =? cks step (p_init st) (at_ m (p_daddr st) (p_dsize st))
        then PSuccess else PInvalidData), m') /\ m_img m' = m_img m /\ m_base m' = m_base m /\ nofault m' /\
      (exists l, m_log m' = m_log m ++ l /\ Forall (fun e => in_region st e = true /\ full_transfer e = true) l).
  Proof.
    intros Hwf. pose proof (daddr_eq st m Hwf) as Hd. destruct Hwf as (Hnf & Hcs & Hb & H1 & H2 & H3).
    unfold validate.
    destruct (med_read_ok m (p_caddr st) (p_csize st) Hnf) as (m1 & E1 & I1 & B1 & N1 & L1); [unfold inwin; lia|].
    rewrite E1.
    assert (Hlen : N.of_nat (length (slice (m_img m) (N.to_nat (p_caddr st - m_base m)) (N.to_nat (p_csize st)))) = p_csize st)
      by (rewrite slice_length; lia).
    rewrite Hlen, N.eqb_refl. cbn [negb].
    destruct (calc_loop_ok (S (N.to_nat (p_dsize st))) st m1 (p_dsize st) (p_daddr st) (p_init st))
      as (m2 & E2 & I2 & B2 & N2 & W2 & (l2 & L2 & F2)); auto; try lia; try apply N1.
    { unfold inwin. rewrite I1, B1, Hd. lia. }
    unfold calc_checksum. rewrite E2. exists m2. split.
    - unfold at_. rewrite I1, B1. reflexivity.
    - rewrite I2, B2, I1, B1. repeat split; auto; try (rewrite W2; apply N1).
      exists ((false, p_caddr st, p_csize st, p_csize st) :: l2). rewrite L2, L1, <- app_assoc. split; [reflexivity|].
      constructor.
      + unfold in_region, full_transfer. rewrite N.eqb_refl.
        destruct (N.leb_spec (p_caddr st) (p_caddr st)); [|lia].
        destruct (N.leb_spec (p_caddr st + p_csize st) (p_caddr st + p_csize st + p_dsize st)); [auto|lia].
      + eapply Forall_impl; [|exact F2]. intros [[[w a] n] g] (A1 & A2 & A3 & A4). subst g.
        unfold in_region, full_transfer. rewrite N.eqb_refl. rewrite Hd in *.
        destruct (N.leb_spec (p_caddr st) a); [|lia].
        destruct (N.leb_spec (a + n) (p_caddr st + p_csize st + p_dsize st)); [auto|lia].
  Qed.

  (* part accesses reaching beyond the data size - as mathematical integers - touch nothing *)
  Theorem store_part_refused st m src offset n : p_dsize st < offset + n ->
    store_part step st m src offset n = (PAddrRange, m).
  Proof. intros H. unfold store_part. destruct (N.ltb_spec (p_dsize st) (offset + n)); [reflexivity|lia]. Qed.
  Theorem fetch_part_refused st m offset n : p_dsize st < offset + n ->
    fetch_part st m offset n = (PAddrRange, [], m).
  Proof. intros H. unfold fetch_part. destruct (N.ltb_spec (p_dsize st) (offset + n)); [reflexivity|lia]. Qed.

  Theorem fetch_part_spec st m offset n : wf st m -> offset + n <= p_dsize st ->
    exists m', fetch_part st m offset n = (PSuccess, at_ m (p_daddr st + offset) n, m') /\ m_img m' = m_img m.
  Proof.
    intros Hwf Hr. pose proof (daddr_eq st m Hwf) as Hd. destruct Hwf as (Hnf & Hcs & Hb & H1 & H2 & H3).
    unfold fetch_part. destruct (N.ltb_spec (p_dsize st) (offset + n)); [lia|].
    rewrite wrap32_small by (rewrite Hd; lia).
    destruct (med_read_ok m (p_daddr st + offset) n Hnf) as (m1 & E1 & I1 & _); [unfold inwin; rewrite Hd; lia|].
    rewrite E1. exists m1. split; [|exact I1].
    rewrite slice_length by (rewrite Hd; lia). rewrite N2Nat.id, N.eqb_refl. reflexivity.
  Qed.

  (* the data image after overlaying [part] at [offset] *)
  Definition overlay (old : list N) (offset : N) (part : list N) : list N := blit old (N.to_nat offset) part.

  Theorem store_part_spec st m src offset n :
    wf st m -> sum_range st -> offset + n <= p_dsize st -> n <= N.of_nat (length src) ->
    let new := overlay (at_ m (p_daddr st) (p_dsize st)) offset (firstn (N.to_nat n) src) in
    exists m', store_part step st m src offset n = (PSuccess, m') /\ wf st m' /\
      at_ m' (p_daddr st) (p_dsize st) = new /\
      at_ m' (p_caddr st) (p_csize st) = le_bytes (N.to_nat (p_csize st)) (cks step (p_init st) new) /\
      (* nothing outside the region changes *)
      firstn (N.to_nat (p_caddr st - m_base m)) (m_img m') = firstn (N.to_nat (p_caddr st - m_base m)) (m_img m) /\
      skipn (N.to_nat (p_caddr st + p_csize st + p_dsize st - m_base m)) (m_img m')
        = skipn (N.to_nat (p_caddr st + p_csize st + p_dsize st - m_base m)) (m_img m) /\
      m_base m' = m_base m /\ length (m_img m') = length (m_img m).
  Proof.
    intros Hwf Hsr Hr Hsrc new. pose proof (daddr_eq st m Hwf) as Hd.
    pose proof Hwf as (Hnf & Hcs & Hb & H1 & H2 & H3).
    unfold store_part. destruct (N.ltb_spec (p_dsize st) (offset + n)); [lia|].
    rewrite wrap32_small by (rewrite Hd; lia).
    set (part := firstn (N.to_nat n) src).
    assert (Hpl : length part = N.to_nat n) by (unfold part; rewrite firstn_length; lia).
    destruct (med_write_ok m (p_daddr st + offset) part Hnf) as (m1 & E1 & I1 & B1 & N1 & L1);
      [unfold inwin; rewrite Hpl, Hd; lia|].
    rewrite E1. rewrite Hpl, N2Nat.id, N.eqb_refl. cbn [negb].
    (* data image of m1 *)
    set (db := N.to_nat (p_daddr st - m_base m)).
    assert (Hdata1 : at_ m1 (p_daddr st) (p_dsize st) = new).
    { unfold at_, new, overlay. fold part. rewrite I1, B1. fold db.
      replace (N.to_nat (p_daddr st + offset - m_base m)) with (db + N.to_nat offset)%nat by (unfold db; rewrite Hd; lia).
      apply slice_blit_inside; [lia|unfold db; rewrite Hd; lia]. }
    assert (Hwf1 : wf st m1).
    { unfold wf. rewrite I1, B1, blit_length. repeat split; auto; apply N1. }
    (* the checksum that is stored *)
    assert (Hsum : exists m1', m_img m1' = m_img m1 /\ m_base m1' = m_base m1 /\ nofault m1' /\
               (if (offset =? 0) && (n =? p_dsize st)
                then store_checksum st m1 (cks step (p_init st) part)
                else match calc_checksum step st m1 with
                     | (None, m2) => (PIoError, m2)
                     | (Some sum, m2) => store_checksum st m2 sum
                     end) = store_checksum st m1' (cks step (p_init st) new)).
    { destruct ((offset =? 0) && (n =? p_dsize st)) eqn:Efull.
      - apply andb_prop in Efull as [Eo En]. apply N.eqb_eq in Eo, En. subst offset.
        exists m1. repeat split; auto; try apply N1. f_equal. f_equal.
        unfold new, overlay. cbn [N.to_nat]. symmetry. apply blit_whole.
        unfold at_. rewrite slice_length by (rewrite Hd; lia). lia.
      - destruct (calc_loop_ok (S (N.to_nat (p_dsize st))) st m1 (p_dsize st) (p_daddr st) (p_init st))
          as (m2 & E2 & I2 & B2 & N2 & W2 & _); auto; try lia; try apply N1.
        { unfold inwin. rewrite I1, B1, blit_length, Hd. lia. }
        unfold calc_checksum. rewrite E2. exists m2. rewrite Hdata1. repeat split; auto. rewrite W2. apply N1. }
    destruct Hsum as (m1' & I1' & B1' & N1' & ->).
    unfold store_checksum.
    set (cb := le_bytes (N.to_nat (p_csize st)) (cks step (p_init st) new)).
    assert (Hcl : length cb = N.to_nat (p_csize st)) by (unfold cb; apply le_bytes_length).
    destruct (med_write_ok m1' (p_caddr st) cb N1') as (m2 & E2 & I2 & B2 & N2 & L2);
      [unfold inwin; rewrite Hcl, I1', B1', I1, B1, blit_length; lia|].
    rewrite E2. rewrite Hcl, N2Nat.id, N.eqb_refl.
    exists m2. split; [reflexivity|].
    assert (Hlen : length (m_img m2) = length (m_img m)) by (rewrite I2, I1', I1, !blit_length; reflexivity).
    split; [|split; [|split; [|split; [|split; [|split]]]]]; auto.
    - unfold wf. rewrite I2, B2, I1', B1', I1, B1, !blit_length. repeat split; auto; apply N2.
    - unfold at_. rewrite I2, B2, I1', B1', I1, B1.
      rewrite slice_blit_after by (rewrite Hcl, Hd; lia).
      unfold at_ in Hdata1. rewrite I1, B1 in Hdata1. exact Hdata1.
    - unfold at_. rewrite I2, B2, I1', B1', I1, B1. rewrite <- Hcl. apply slice_blit_same.
      rewrite blit_length, Hcl. lia.
    - rewrite I2, I1', I1. rewrite blit_firstn by lia. rewrite blit_firstn by (rewrite Hd; lia). reflexivity.
    - rewrite I2, I1', I1. rewrite blit_skipn by (rewrite Hcl; lia). rewrite blit_skipn by (rewrite Hpl, Hd; lia). reflexivity.
    - congruence.
  Qed.

  (* round trip: after a successful store (full or part) validation succeeds and fetch returns the image *)
  Theorem store_validate_fetch st m src offset n :
    wf st m -> sum_range st -> offset + n <= p_dsize st -> n <= N.of_nat (length src) ->
    let new := overlay (at_ m (p_daddr st) (p_dsize st)) offset (firstn (N.to_nat n) src) in
    exists m', store_part step st m src offset n = (PSuccess, m') /\
      fst (validate step st m') = PSuccess /\
      fst (fetch st m') = (PSuccess, new).
  Proof.
    intros Hwf Hsr Hr Hsrc new.
    destruct (store_part_spec st m src offset n Hwf Hsr Hr Hsrc) as (m' & E & Hwf' & Hdat & Hck & _).
    exists m'. split; [exact E|].
    destruct (validate_spec st m' Hwf') as (m2 & Ev & _).
    rewrite Ev. cbn [fst]. rewrite Hck, Hdat. fold new.
    rewrite of_le_le_bytes.
    2:{ rewrite N2Nat.id. apply cks_range; [exact Hsr|apply Hsr]. }
    rewrite N.eqb_refl. split; [reflexivity|].
    unfold fetch. destruct (fetch_part_spec st m' 0 (p_dsize st) Hwf' ltac:(lia)) as (m3 & Ef & _).
    rewrite Ef. cbn [fst]. rewrite N.add_0_r, Hdat. reflexivity.
  Qed.

  (* any alteration of the stored octets is reported whenever the algorithm separates the two images *)
  Theorem alteration_detected st m : wf st m ->
    of_le (at_ m (p_caddr st) (p_csize st)) <> cks step (p_init st) (at_ m (p_daddr st) (p_dsize st)) ->
    fst (validate step st m) = PInvalidData.
  Proof.
    intros Hwf Hne. destruct (validate_spec st m Hwf) as (m' & E & _). rewrite E. cbn [fst].
    destruct (N.eqb_spec (of_le (at_ m (p_caddr st) (p_csize st))) (cks step (p_init st) (at_ m (p_daddr st) (p_dsize st)))); [contradiction|reflexivity].
  Qed.

  (* ================= C11 ================= *)
  (* a validation that succeeds means: the checksum on the medium is the algorithm applied to the data on the medium *)
  Theorem validate_success_consistent st m : wf st m -> fst (validate step st m) = PSuccess ->
    of_le (at_ m (p_caddr st) (p_csize st)) = cks step (p_init st) (at_ m (p_daddr st) (p_dsize st)).
  Proof.
    intros Hwf H. destruct (validate_spec st m Hwf) as (m' & E & _). rewrite E in H. cbn [fst] in H.
    destruct (N.eqb_spec (of_le (at_ m (p_caddr st) (p_csize st))) (cks step (p_init st) (at_ m (p_daddr st) (p_dsize st)))); [assumption|discriminate].
  Qed.

  (* geometry + fault-free reads; the write script is left open *)
  Definition wfr (st : pstore) (m : medium) : Prop :=
    m_rd m = [] /\ (p_csize st = 2 \/ p_csize st = 4) /\ 1 <= p_bsize st /\
    m_base m <= p_caddr st /\
    p_caddr st + p_csize st + p_dsize st <= m_base m + N.of_nat (length (m_img m)) /\
    p_caddr st + p_csize st + p_dsize st < 2 ^ 32.

  (* store cut off before its first write took effect: nothing changed, IO_ERROR *)
  Theorem crash_before_data st m src offset n r :
    wfr st m -> m_wr m = Fshort 0 :: r -> offset + n <= p_dsize st -> 1 <= n ->
    exists m', store_part step st m src offset n = (PIoError, m') /\ m_img m' = m_img m.
  Proof.
    intros (Hr & Hcs & Hb & H1 & H2 & H3) Hw Hrange Hn. unfold store_part.
    destruct (N.ltb_spec (p_dsize st) (offset + n)); [lia|].
    destruct (med_write_fail m (wrap 32 (p_daddr st + offset)) (firstn (N.to_nat n) src) r Hw) as (m1 & E1 & I1 & _).
    rewrite E1. destruct (N.eqb_spec 0 n); [lia|]. cbn [negb]. eauto.
  Qed.

  (* store cut off after the data write, before the checksum write: the data image is exactly the new one,
     the stored checksum is still the old one, IO_ERROR *)
  Theorem crash_after_data st m src offset n r :
    wfr st m -> m_wr m = Fok :: Fshort 0 :: r -> offset + n <= p_dsize st -> n <= N.of_nat (length src) ->
    let new := overlay (at_ m (p_daddr st) (p_dsize st)) offset (firstn (N.to_nat n) src) in
    exists m', store_part step st m src offset n = (PIoError, m') /\
      at_ m' (p_daddr st) (p_dsize st) = new /\
      at_ m' (p_caddr st) (p_csize st) = at_ m (p_caddr st) (p_csize st).
  Proof.
    intros (Hr & Hcs & Hb & H1 & H2 & H3) Hw Hrange Hsrc new.
    assert (Hd : p_daddr st = p_caddr st + p_csize st) by (unfold p_daddr; apply wrap32_small; lia).
    unfold store_part. destruct (N.ltb_spec (p_dsize st) (offset + n)); [lia|].
    rewrite wrap32_small by (rewrite Hd; lia).
    set (part := firstn (N.to_nat n) src).
    assert (Hpl : length part = N.to_nat n) by (unfold part; rewrite firstn_length; lia).
    destruct (med_write_fok m (p_daddr st + offset) part _ Hw) as (m1 & E1 & I1 & B1 & R1 & W1);
      [unfold inwin; rewrite Hpl, Hd; lia|].
    rewrite E1. rewrite Hpl, N2Nat.id, N.eqb_refl. cbn [negb].
    set (db := N.to_nat (p_daddr st - m_base m)).
    assert (Hdata1 : at_ m1 (p_daddr st) (p_dsize st) = new).
    { unfold at_, new, overlay. fold part. rewrite I1, B1. fold db.
      replace (N.to_nat (p_daddr st + offset - m_base m)) with (db + N.to_nat offset)%nat by (unfold db; rewrite Hd; lia).
      apply slice_blit_inside; [lia|unfold db; rewrite Hd; lia]. }
    assert (Hck1 : at_ m1 (p_caddr st) (p_csize st) = at_ m (p_caddr st) (p_csize st)).
    { unfold at_. rewrite I1, B1. apply slice_blit_before. rewrite Hd. lia. }
    assert (Hfin : forall m1' sum, m_img m1' = m_img m1 -> m_base m1' = m_base m1 -> m_wr m1' = Fshort 0 :: r ->
              exists m2, store_checksum st m1' sum = (PIoError, m2) /\ m_img m2 = m_img m1 /\ m_base m2 = m_base m1).
    { intros m1' sum I B W. unfold store_checksum.
      destruct (med_write_fail m1' (p_caddr st) (le_bytes (N.to_nat (p_csize st)) sum) r W) as (m2 & E2 & I2 & B2 & _).
      rewrite E2. destruct (N.eqb_spec 0 (p_csize st)); [lia|]. exists m2. repeat split; congruence. }
    destruct ((offset =? 0) && (n =? p_dsize st)).
    - destruct (Hfin m1 (cks step (p_init st) part) eq_refl eq_refl W1) as (m2 & E2 & I2 & B2).
      exists m2. split; [exact E2|]. unfold at_ in *. rewrite I2, B2. auto.
    - destruct (calc_loop_ok (S (N.to_nat (p_dsize st))) st m1 (p_dsize st) (p_daddr st) (p_init st))
        as (m1' & Ec & Ic & Bc & Rc & Wc & _); auto; try lia; try congruence.
      { unfold inwin. rewrite I1, B1, blit_length, Hd. lia. }
      unfold calc_checksum. rewrite Ec.
      destruct (Hfin m1' (cks step (p_init st) (at_ m1 (p_daddr st) (p_dsize st))) Ic Bc ltac:(congruence)) as (m2 & E2 & I2 & B2).
      exists m2. split; [exact E2|]. unfold at_ in *. rewrite I2, B2. auto.
  Qed.

  (* ---------- a short or failed transfer is never reported as success (any medium, any fault scripts) ---------- *)
  Lemma med_read_log m a n d m' : med_read m a n = (d, m') ->
    m_log m' = m_log m ++ [(false, a, n, N.of_nat (length d))].
  Proof.
    unfold med_read. destruct (pop_fault (m_rd m)) as [f rd]. intros [= <- <-]. cbn [m_log].
    unfold img_read. rewrite map_length, seq_length, N2Nat.id. reflexivity.
  Qed.
  Lemma med_write_log m a xs g m' : med_write m a xs = (g, m') ->
    m_log m' = m_log m ++ [(true, a, N.of_nat (length xs), g)].
  Proof. unfold med_write. destruct (pop_fault (m_wr m)) as [f wr]. intros [= <- <-]. reflexivity. Qed.

  Definition all_full (l : list (bool * N * N * N)) : Prop := forallb full_transfer l = true.

  Lemma calc_loop_full fuel : forall st m rest addr sum s m',
    calc_loop step fuel st m rest addr sum = (Some s, m') ->
    exists l, m_log m' = m_log m ++ l /\ all_full l.
  Proof.
    induction fuel as [|f IH]; intros st m rest addr sum s m' H; cbn [calc_loop] in H.
    - destruct (rest =? 0); [|discriminate]. injection H as _ <-. exists []. rewrite app_nil_r. split; reflexivity.
    - destruct (rest =? 0); [injection H as _ <-; exists []; rewrite app_nil_r; split; reflexivity|].
      set (toget := if p_bsize st <? rest then p_bsize st else rest) in *.
      destruct (med_read m addr toget) as [d m1] eqn:E1.
      destruct (N.eqb_spec (N.of_nat (length d)) toget) as [El|El]; cbn [negb] in H; [|discriminate].
      destruct (IH _ _ _ _ _ _ _ H) as (l & L & F).
      exists ((false, addr, toget, N.of_nat (length d)) :: l).
      rewrite L, (med_read_log _ _ _ _ _ E1), <- app_assoc. split; [reflexivity|].
      unfold all_full. cbn [forallb full_transfer]. rewrite El, N.eqb_refl. exact F.
  Qed.

  Theorem validate_no_silent_fault st m m' : fst (validate step st m) <> PIoError -> snd (validate step st m) = m' ->
    exists l, m_log m' = m_log m ++ l /\ all_full l.
  Proof.
    unfold validate. destruct (med_read m (p_caddr st) (p_csize st)) as [d m1] eqn:E1.
    destruct (N.eqb_spec (N.of_nat (length d)) (p_csize st)) as [El|El]; cbn [negb fst snd]; [|intros H; contradiction H; reflexivity].
    destruct (calc_checksum step st m1) as [[s|] m2] eqn:E2; cbn [fst snd]; [|intros H; contradiction H; reflexivity].
    intros _ <-. unfold calc_checksum in E2. destruct (calc_loop_full _ _ _ _ _ _ _ _ E2) as (l & L & F).
    exists ((false, p_caddr st, p_csize st, N.of_nat (length d)) :: l).
    rewrite L, (med_read_log _ _ _ _ _ E1), <- app_assoc. split; [reflexivity|].
    unfold all_full. cbn [forallb full_transfer]. rewrite El, N.eqb_refl. exact F.
  Qed.

  Theorem fetch_no_silent_fault st m offset n d m' : fetch_part st m offset n = (PSuccess, d, m') ->
    exists l, m_log m' = m_log m ++ l /\ all_full l.
  Proof.
    unfold fetch_part. destruct (p_dsize st <? offset + n); [discriminate|].
    destruct (med_read m _ n) as [d1 m1] eqn:E1.
    destruct (N.eqb_spec (N.of_nat (length d1)) n) as [El|El]; [|discriminate]. intros [= <- <-].
    exists [(false, wrap 32 (p_daddr st + offset), n, N.of_nat (length d1))].
    rewrite (med_read_log _ _ _ _ _ E1). split; [reflexivity|].
    unfold all_full. cbn [forallb full_transfer]. rewrite El, N.eqb_refl. reflexivity.
  Qed.

  Lemma store_checksum_full st m sum m' : store_checksum st m sum = (PSuccess, m') ->
    exists l, m_log m' = m_log m ++ l /\ all_full l.
  Proof.
    unfold store_checksum. destruct (med_write m _ _) as [g m1] eqn:E.
    destruct (N.eqb_spec g (p_csize st)) as [Eg|Eg]; [|discriminate]. intros [= <-].
    rewrite (med_write_log _ _ _ _ _ E). eexists; split; [reflexivity|].
    unfold all_full. cbn [forallb full_transfer]. rewrite le_bytes_length, N2Nat.id, Eg, N.eqb_refl. reflexivity.
  Qed.

  Theorem store_no_silent_fault st m src offset n m' : n <= N.of_nat (length src) ->
    store_part step st m src offset n = (PSuccess, m') ->
    exists l, m_log m' = m_log m ++ l /\ all_full l.
  Proof.
    intros Hs. unfold store_part. destruct (p_dsize st <? offset + n); [discriminate|].
    destruct (med_write m _ _) as [g m1] eqn:E1.
    destruct (N.eqb_spec g n) as [Eg|Eg]; cbn [negb]; [|discriminate].
    assert (F1 : m_log m1 = m_log m ++ [(true, wrap 32 (p_daddr st + offset), n, n)]).
    { rewrite (med_write_log _ _ _ _ _ E1). rewrite firstn_length. subst g.
      replace (N.of_nat (Nat.min (N.to_nat n) (length src))) with n by lia. reflexivity. }
    destruct ((offset =? 0) && (n =? p_dsize st)).
    - intros H. destruct (store_checksum_full _ _ _ _ H) as (l & L & F).
      exists ((true, wrap 32 (p_daddr st + offset), n, n) :: l). rewrite L, F1, <- app_assoc. split; [reflexivity|].
      unfold all_full. cbn [forallb full_transfer]. rewrite N.eqb_refl. exact F.
    - destruct (calc_checksum step st m1) as [[s|] m2] eqn:E2; [|discriminate].
      intros H. destruct (store_checksum_full _ _ _ _ H) as (l & L & F).
      unfold calc_checksum in E2. destruct (calc_loop_full _ _ _ _ _ _ _ _ E2) as (l2 & L2 & F2).
      exists ((true, wrap 32 (p_daddr st + offset), n, n) :: l2 ++ l).
      rewrite L, L2, F1, <- !app_assoc. split; [reflexivity|].
      unfold all_full in *. cbn [forallb full_transfer]. rewrite N.eqb_refl, forallb_app, F2, F. reflexivity.
  Qed.
End Proofs.

(* ---------- reset: the whole region is filled with the item, nothing else is touched ---------- *)
Lemma blit_app {A} (xs ys : list A) : forall l i, blit l i (xs ++ ys) = blit (blit l i xs) (i + length xs) ys.
Proof.
  induction xs as [|x xs IH]; intros l i; cbn [app blit length]; [rewrite Nat.add_0_r; reflexivity|].
  rewrite IH. f_equal. lia.
Qed.

Lemma writen_loop_ok : forall fuel st m addr item rest, nofault m -> 1 <= p_bsize st -> inwin m addr rest -> (N.to_nat rest <= fuel)%nat ->
  exists m', writen_loop fuel st m addr item rest = (PSuccess, m') /\
             m_img m' = blit (m_img m) (N.to_nat (addr - m_base m)) (repeat item (N.to_nat rest)) /\
             m_base m' = m_base m /\ nofault m' /\
             (forall e, In e (m_log m') -> In e (m_log m) \/ (let '(w, a, n, g) := e in w = true /\ addr <= a /\ a + n <= addr + rest /\ g = n)).
Proof.
  induction fuel as [|f IH]; intros st m addr item rest Hnf Hb Hin Hf.
  - assert (rest = 0) by lia. subst rest. cbn [writen_loop N.eqb N.to_nat repeat blit]. exists m. split; [reflexivity|]. split; [reflexivity|]. split; [reflexivity|]. split; [exact Hnf|]. intros e He. left. exact He.
  - cbn [writen_loop]. destruct (N.eqb_spec rest 0) as [->|Hr].
    { cbn [N.to_nat repeat blit]. exists m. split; [reflexivity|]. split; [reflexivity|]. split; [reflexivity|]. split; [exact Hnf|]. intros e He. left. exact He. }
    set (toput := if p_bsize st <? rest then p_bsize st else rest).
    assert (Ht : 1 <= toput /\ toput <= rest) by (unfold toput; destruct (N.ltb_spec (p_bsize st) rest); lia). destruct Ht as [T1 T2].
    destruct Hin as (I1 & I2 & I3).
    destruct (med_write_ok m addr (repeat item (N.to_nat toput)) Hnf) as (m1 & Ew & Img1 & B1 & Nf1 & Log1).
    { rewrite repeat_length, N2Nat.id. unfold inwin. lia. }
    rewrite repeat_length, N2Nat.id in Ew, Log1. rewrite Ew, N.eqb_refl. cbn [negb].
    rewrite wrap32_small by lia.
    destruct (IH st m1 (addr + toput) item (rest - toput) Nf1 Hb) as (m' & E & Img & B & Nf & Log).
    { unfold inwin. rewrite B1, Img1, blit_length. lia. }
    { lia. }
    exists m'. split; [exact E|]. split.
    + rewrite Img, Img1, B1.
      replace (N.to_nat rest) with (N.to_nat toput + N.to_nat (rest - toput))%nat by lia.
      rewrite repeat_app, blit_app, repeat_length. f_equal. lia.
    + split; [congruence|]. split; [exact Nf|].
      intros e He. destruct (Log e He) as [H1|H1].
      * rewrite Log1 in H1. apply in_app_or in H1 as [H1|[<-|[]]]; [left; exact H1|right]. repeat split; lia.
      * right. destruct e as [[[w a] n] g]. destruct H1 as (-> & A1 & A2 & ->). repeat split; lia.
Qed.

Theorem reset_spec st m item : nofault m -> (p_csize st = 2 \/ p_csize st = 4) -> 1 <= p_bsize st ->
  m_base m <= p_caddr st -> p_caddr st + p_csize st + p_dsize st <= m_base m + N.of_nat (length (m_img m)) ->
  p_caddr st + p_csize st + p_dsize st < 2 ^ 32 ->
  exists m', reset st m item = (PSuccess, m') /\
             m_img m' = blit (m_img m) (N.to_nat (p_caddr st - m_base m)) (repeat item (N.to_nat (p_csize st + p_dsize st))) /\
             m_base m' = m_base m /\ nofault m' /\
             (* every access of the reset is a complete write inside the region *)
             (forall e, In e (m_log m') -> In e (m_log m) \/
                        (let '(w, a, n, g) := e in w = true /\ p_caddr st <= a /\ a + n <= p_caddr st + p_csize st + p_dsize st /\ g = n)).
Proof.
  intros Hnf Hc Hb H1 H2 H3. unfold reset.
  destruct (writen_loop_ok (S (N.to_nat (p_csize st))) st m (p_caddr st) item (p_csize st) Hnf Hb) as (m1 & E1 & Img1 & B1 & Nf1 & Log1).
  { unfold inwin. lia. } { lia. }
  rewrite E1.
  assert (Hd : p_daddr st = p_caddr st + p_csize st) by (unfold p_daddr; apply wrap32_small; lia).
  destruct (writen_loop_ok (S (N.to_nat (p_dsize st))) st m1 (p_daddr st) item (p_dsize st) Nf1 Hb) as (m2 & E2 & Img2 & B2 & Nf2 & Log2).
  { unfold inwin. rewrite B1, Img1, blit_length, Hd. lia. } { lia. }
  exists m2. split; [exact E2|]. split.
  - rewrite Img2, Img1, B1, Hd.
    replace (N.to_nat (p_csize st + p_dsize st)) with (N.to_nat (p_csize st) + N.to_nat (p_dsize st))%nat by lia.
    rewrite repeat_app, blit_app, repeat_length. f_equal. lia.
  - split; [congruence|]. split; [exact Nf2|].
    intros e He. destruct (Log2 e He) as [Hl|Hl].
    + destruct (Log1 e Hl) as [Hl1|Hl1]; [left; exact Hl1|right]. destruct e as [[[w a] n] g]. destruct Hl1 as (-> & A1 & A2 & ->). repeat split; lia.
    + right. destruct e as [[[w a] n] g]. destruct Hl as (-> & A1 & A2 & ->). rewrite Hd in *. repeat split; lia.
Qed.
