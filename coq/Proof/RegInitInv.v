(* C04/C05: a successful initialisation of a plain table (memory-backed, default-loading areas; no always-failing
   constraint) leaves every register holding its default and establishes the constraint invariant. *)
From Ufw Require Import Base.Bits Model.RegTable Proof.ListLemmas Proof.PersistLemmas Proof.RegLemmas Proof.RegInitLemmas
  Proof.RegInvariant Proof.RegMemory Proof.RegBlockInv.
From Coq Require Import Lia Bool ZifyN ZifyBool ZifyNat.
Local Open Scope N_scope.
Local Open Scope bool_scope.

(* ---- later elements of a chain start behind the end of earlier ones ---- *)
Lemma chain_nth_le {A} (start len : A -> N) : forall r e0 j i a b, chain start len e0 r -> (j < i)%nat ->
  nth_error (e0 :: r) j = Some a -> nth_error (e0 :: r) i = Some b -> start a + len a <= start b.
Proof.
  induction r as [|x r IH]; intros e0 j i a b Hc Hji Ha Hb.
  - destruct i as [|i]; [lia|]. cbn in Hb. destruct i; discriminate.
  - pose proof (chain_all _ _ _ _ Hc) as Hall. rewrite Forall_forall in Hall. destruct Hc as [H1 H2].
    destruct j as [|j].
    + cbn in Ha. injection Ha as <-. destruct i as [|i]; [lia|]. cbn in Hb. apply Hall. apply (nth_error_In _ _ Hb).
    + destruct i as [|i]; [lia|]. cbn in Ha, Hb. apply (IH x j i a b H2); [lia|exact Ha|exact Hb].
Qed.

Definition plain_area (a : area) : Prop := a_is_mem a = true /\ a_has_write a = true /\ a_skip a = false.
Definition plain_table (t : table) : Prop :=
  Forall plain_area (t_areas t) /\
  Forall (fun e => e_check e <> CFail /\ e_default e < 2 ^ tbits (e_type e)) (t_entries t).

Lemma validate_during d e v : e_check e <> CFail -> validate d e v = validate false e v.
Proof. intros H. unfold validate. destruct (negb (rtype_eqb (e_type e) (v_type v))); [reflexivity|]. destruct (e_check e); try reflexivity. contradiction. Qed.

(* the register just written *)
Lemma set_self t e i a ws : entry_area t e = Some (i, a) -> e_addr e + tsize (e_type e) <= a_base a + a_size a ->
  N.of_nat (length (a_words a)) = a_size a -> N.of_nat (length ws) = tsize (e_type e) ->
  let t' := set_area t i (area_write a (e_addr e - a_base a) ws) in
  placed t' e /\ entry_words t' e = Some ws.
Proof.
  intros Ha Hfit Hlen Hws t'. unfold entry_area in Ha.
  destruct (find_area_props _ _ _ _ _ Ha) as (Hina & _ & Hn). rewrite Nat.sub_0_r in Hn.
  unfold addr_in_area in Hina. apply andb_prop in Hina as [I1 I2]. apply N.leb_le in I1. apply N.ltb_lt in I2.
  assert (Hf' : find_area (t_areas t') (e_addr e) 0 = Some (i, area_write a (e_addr e - a_base a) ws)).
  { unfold t', set_area; cbn [t_areas]. rewrite <- (Nat.sub_0_r i) at 1. apply find_area_upd with (a := a); [exact Ha|reflexivity|reflexivity]. }
  split.
  - exists i, (area_write a (e_addr e - a_base a) ws). split; [exact Hf'|]. split; [exact Hfit|].
    unfold area_write, area_with_words; cbn [a_words a_size]. rewrite blit_length. exact Hlen.
  - rewrite (entry_words_placed t' e i _ Hf' Hfit). f_equal.
    unfold area_read, area_write, area_with_words; cbn [a_words a_base].
    replace (N.to_nat (tsize (e_type e))) with (length ws) by lia. apply slice_blit_same. lia.
Qed.

Record LoadInv (t : table) (i : nat) : Prop := {
  li_init : t_init t = true; li_during : t_during t = true;
  li_chain : entries_ordered t; li_wf : areas_wf (t_areas t);
  li_16 : Forall (fun a => Forall (fun w => w < 65536) (a_words a)) (t_areas t);
  li_plain : Forall plain_area (t_areas t);
  li_done : forall j e, (j < i)%nat -> nth_error (t_entries t) j = Some e ->
              placed t e /\ entry_words t e = Some (ser_words (t_be t) (e_type e) (e_default e)) /\
              validate true e {| v_type := e_type e; v_bits := e_default e |} = true /\
              ser_ok {| v_type := e_type e; v_bits := e_default e |} = true }.

Lemma plain_upd l : forall i a ws, Forall plain_area l -> nth_error l i = Some a -> Forall plain_area (upd l i (area_with_words a ws)).
Proof.
  intros i a ws H Hn. apply Forall_upd; [exact H|]. rewrite Forall_forall in H. specialize (H a (nth_error_In _ _ Hn)).
  unfold plain_area in *. cbn. exact H.
Qed.

Lemma load_step t i e x t1 : LoadInv t i -> nth_error (t_entries t) i = Some e -> entry_fits t e = true ->
  reg_setx t (N.of_nat i) {| v_type := e_type e; v_bits := e_default e |} true = ((ASuccess, x), t1) ->
  LoadInv t1 (S i) /\ t_entries t1 = t_entries t /\ t_be t1 = t_be t.
Proof.
  intros [Hi Hd Hc Hwf H16 Hpl Hdone] Hn Hfit H.
  destruct (setx_success_form _ _ _ _ _ _ H eq_refl) as (e' & k & a & _ & He & Ha & Hv & Hok & ->).
  assert (e' = e).
  { unfold entry_at in He. destruct (N.of_nat i <? N.of_nat (length (t_entries t))); [|discriminate]. rewrite Nat2N.id in He. congruence. }
  subst e'. specialize (Hv eq_refl). rewrite Hd in Hv. cbn [v_type v_bits] in *.
  unfold entry_fits in Hfit. unfold entry_area in Ha. rewrite Ha in Hfit. apply N.leb_le in Hfit.
  destruct (find_area_in _ _ _ _ _ Ha) as [Hina _]. pose proof (area_full_in _ _ Hwf Hina) as Hfull.
  set (ws := ser_words (t_be t) (e_type e) (e_default e)) in *.
  assert (Hws : N.of_nat (length ws) = tsize (e_type e)) by apply ser_words_length.
  set (t1 := set_area t k (area_write a (e_addr e - a_base a) ws)).
  destruct (set_self t e k a ws Ha Hfit Hfull Hws) as [Hp1 Hw1]. fold t1 in Hp1, Hw1.
  destruct (find_area_props _ _ _ _ _ Ha) as (_ & _ & Hnth). rewrite Nat.sub_0_r in Hnth.
  split; [|split; reflexivity].
  constructor; try assumption.
  - pose proof (setx_areas_wf t (N.of_nat i) {| v_type := e_type e; v_bits := e_default e |} true Hwf) as W. rewrite H in W. exact W.
  - unfold t1, set_area; cbn [t_areas]. apply Forall_upd; [exact H16|].
    unfold area_write, area_with_words; cbn [a_words]. apply Forall_blit; [|apply ser_words_16].
    rewrite Forall_forall in H16. apply H16. exact Hina.
  - unfold t1, set_area; cbn [t_areas]. unfold area_write. apply plain_upd; assumption.
  - intros j ej Hj Hnj. change (t_entries t1) with (t_entries t) in Hnj. change (t_be t1) with (t_be t).
    destruct (Nat.eq_dec j i) as [->|Hne].
    + assert (ej = e) by congruence. subst ej. split; [exact Hp1|]. split; [exact Hw1|split; [exact Hv|exact Hok]].
    + destruct (Hdone j ej ltac:(lia) Hnj) as (Pj & Wj & Vj & Oj).
      assert (Hnm : ~ ranges_meet e ej).
      { unfold ranges_meet. unfold entries_ordered in Hc. destruct (t_entries t) as [|e0 er] eqn:El; [destruct j; discriminate|].
        pose proof (chain_nth_le e_addr (fun x => tsize (e_type x)) er e0 j i ej e Hc ltac:(lia) Hnj Hn). cbn beta in H0. lia. }
      destruct (entry_words_frame t e k a ws ej Ha ltac:(lia) Hfull Hws Pj Hnm) as [Pj' Wj']. fold t1 in Pj', Wj'.
      split; [exact Pj'|]. split; [rewrite Wj'; exact Wj|split; [exact Vj|exact Oj]].
Qed.

Lemma load_loop : forall fuel t i t', LoadInv t (N.to_nat i) -> (length (t_entries t) <= N.to_nat i + fuel)%nat ->
  load_defaults fuel t i = (None, t') ->
  LoadInv t' (length (t_entries t)) /\ t_entries t' = t_entries t /\ t_be t' = t_be t.
Proof.
  induction fuel as [|f IH]; intros t i t' HL Hlen H; cbn [load_defaults] in H.
  - injection H as <-. split; [|split; reflexivity].
    destruct HL as [Hi Hd Hc Hwf H16 Hpl Hdone]. constructor; try assumption.
    intros j e Hj Hn. apply (Hdone j e); [lia|exact Hn].
  - destruct (nth_error (t_entries t) (N.to_nat i)) as [e|] eqn:En.
    2:{ injection H as <-. split; [|split; reflexivity]. apply nth_error_None in En.
        destruct HL as [Hi Hd Hc Hwf H16 Hpl Hdone]. constructor; try assumption.
        intros j e Hj Hn. apply (Hdone j e); [|exact Hn]. apply nth_error_Some_lt in Hn. lia. }
    destruct (entry_fits t e) eqn:Ef; cbn [negb] in H; [|discriminate].
    destruct (entry_area t e) as [[k a]|] eqn:Ea; [|discriminate].
    assert (Hplain : a_has_write a && negb (a_skip a) = true).
    { destruct HL as [_ _ _ _ _ Hpl _]. rewrite Forall_forall in Hpl. unfold entry_area in Ea. destruct (find_area_in _ _ _ _ _ Ea) as [Hin _].
      destruct (Hpl a Hin) as (_ & -> & ->). reflexivity. }
    rewrite Hplain in H.
    destruct (reg_setx t i _ true) as [[c x] t1] eqn:Es.
    destruct c; try discriminate.
    rewrite <- (N2Nat.id i) in Es.
    destruct (load_step t (N.to_nat i) e x t1 HL En Ef Es) as (HL1 & E1 & B1).
    replace (S (N.to_nat i)) with (N.to_nat (i + 1)) in HL1 by lia.
    destruct (IH t1 (i + 1) t' HL1 ltac:(rewrite E1; lia) H) as (HL' & E' & B').
    rewrite E1 in HL', E'. split; [exact HL'|]. split; congruence.
Qed.

(* link_area only fills in the first/last/count fields *)
Lemma link_area_same es a : a_base (link_area es a) = a_base a /\ a_size (link_area es a) = a_size a /\ a_words (link_area es a) = a_words a /\
  a_is_mem (link_area es a) = a_is_mem a /\ a_has_write (link_area es a) = a_has_write a /\ a_skip (link_area es a) = a_skip a /\
  area_is_readable (link_area es a) = area_is_readable a.
Proof. unfold link_area, area_is_readable. destruct (filter _ _) as [|[f e] r]; cbn; auto 10. Qed.

Lemma find_area_map_link es l : forall x k, find_area (map (link_area es) l) x k =
  match find_area l x k with Some (i, a) => Some (i, link_area es a) | None => None end.
Proof.
  induction l as [|a r IH]; intros x k; cbn [map find_area]; [reflexivity|].
  destruct (link_area_same es a) as (Hb & Hs & _). unfold addr_in_area. rewrite Hb, Hs.
  destruct ((a_base a <=? x) && (x <? a_base a + a_size a)); [reflexivity|apply IH].
Qed.

Lemma read_words_link es : forall fuel t t2 addr n rr, t_areas t2 = map (link_area es) (t_areas t) ->
  (forall a, area_is_readable (link_area es a) = area_is_readable a) ->
  read_words fuel t2 addr n rr = read_words fuel t addr n rr.
Proof.
  induction fuel as [|f IH]; intros t t2 addr n rr E Hr; cbn [read_words]; [reflexivity|]. rewrite E, find_area_map_link.
  destruct (n =? 0); [reflexivity|]. destruct (find_area (t_areas t) addr 0) as [[i a]|]; [|reflexivity].
  cbv iota beta.
  destruct (link_area_same es a) as (Hb & Hs & Hw & _). rewrite Hb, Hs, Hr. unfold area_read. rewrite Hw.
  rewrite (IH t t2 _ _ rr E Hr). reflexivity.
Qed.

(* ---- the theorem ---- *)
Lemma zero_geom l : same_geom l (map (fun a => if a_is_mem a then area_with_words a (repeat 0 (N.to_nat (a_size a))) else a) l).
Proof. induction l as [|a r IH]; constructor; [destruct (a_is_mem a); cbn; auto|exact IH]. Qed.
Lemma link_geom es l : same_geom l (map (link_area es) l).
Proof. induction l as [|a r IH]; constructor; [destruct (link_area_same es a) as (-> & -> & _); auto|exact IH]. Qed.

Theorem init_establishes_invariant t t' : plain_table t -> reg_init t = ((ISuccess, 0), t') ->
  InvB t' /\ t_entries t' = t_entries t /\
  forall idx e, entry_at t' idx = Some e -> reg_get t' idx = ((ASuccess, 0), Some {| v_type := e_type e; v_bits := e_default e |}).
Proof.
  intros [Hplain Hent] H.
  destruct (proj1 (init_success_iff t) ltac:(rewrite H; reflexivity)) as (Hao & Heo & _).
  unfold reg_init in H. set (t0 := with_flags t false true) in *.
  change (t_areas t0) with (t_areas t) in H. change (t_entries t0) with (t_entries t) in H.
  destruct (t_areas t) as [|a0 ar] eqn:Ear; [discriminate|].
  unfold areas_ordered in Hao. rewrite Ear in Hao.
  rewrite check_areas_spec, (proj2 (first_break_none a_base a_size ar a0) Hao) in H.
  assert (Ece : (match t_entries t with [] => None | e0 :: er => check_entries e0 er 1 end) = None).
  { unfold entries_ordered in Heo. destruct (t_entries t) as [|e0 er]; [reflexivity|].
    rewrite check_entries_spec, (proj2 (first_break_none e_addr (fun e => tsize (e_type e)) er e0) Heo). reflexivity. }
  rewrite Ece in H.
  set (t1 := with_flags (zero_mem_areas t0) true true) in *.
  destruct (load_defaults (S (length (t_entries t1))) t1 0) as [[r|] t2] eqn:LD.
  { exfalso. injection H as Hr _. destruct (load_defaults_code _ _ _ r ltac:(rewrite LD; reflexivity)) as [E|E]; rewrite Hr in E; discriminate. }
  injection H as <-.
  (* the table the defaults are loaded into *)
  assert (G1 : same_geom (t_areas t) (t_areas t1)) by (unfold t1, zero_mem_areas, t0; cbn [t_areas with_flags]; apply zero_geom).
  assert (HL1 : LoadInv t1 0).
  { constructor; try reflexivity.
    - exact Heo.
    - split.
      + apply (chain_geom _ _ G1). rewrite Ear. exact Hao.
      + unfold t1, zero_mem_areas, t0; cbn [t_areas with_flags]. apply Forall_forall. intros a Hin. apply in_map_iff in Hin as (b & <- & Hb).
        rewrite Forall_forall in Hplain. rewrite ?Ear in Hb. destruct (Hplain b Hb) as (-> & _). cbn. rewrite repeat_length. lia.
    - unfold t1, zero_mem_areas, t0; cbn [t_areas with_flags]. apply Forall_forall. intros a Hin. apply in_map_iff in Hin as (b & <- & Hb).
      rewrite Forall_forall in Hplain. rewrite ?Ear in Hb. destruct (Hplain b Hb) as (-> & _). cbn. apply Forall_forall. intros w Hw. apply repeat_spec in Hw. subst w. reflexivity.
    - unfold t1, zero_mem_areas, t0; cbn [t_areas with_flags]. apply Forall_forall. intros a Hin. apply in_map_iff in Hin as (b & <- & Hb).
      rewrite Forall_forall in Hplain. rewrite ?Ear in Hb. pose proof (Hplain b Hb) as Hp. destruct Hp as (Hm & Hw & Hs). rewrite Hm. unfold plain_area. cbn. auto.
    - intros j e Hj. lia. }
  assert (Hfu : (length (t_entries t1) <= N.to_nat 0 + S (length (t_entries t1)))%nat) by (change (N.to_nat 0) with 0%nat; lia).
  destruct (load_loop _ t1 0 t2 HL1 Hfu LD) as (HL2 & E2 & B2).
  change (t_entries t1) with (t_entries t) in *.
  destruct HL2 as [Hi2 Hd2 Hc2 Hwf2 H162 Hpl2 Hdone2].
  set (tf := {| t_init := true; t_during := false; t_be := t_be t2; t_areas := map (link_area (t_entries t2)) (t_areas t2); t_entries := t_entries t2 |}).
  assert (Gf : same_geom (t_areas t2) (t_areas tf)) by (apply link_geom).
  assert (Hwff : areas_wf (t_areas tf)).
  { split; [apply (chain_geom _ _ Gf), Hwf2|]. unfold tf; cbn [t_areas]. apply Forall_forall. intros a Hin. apply in_map_iff in Hin as (b & <- & Hb).
    destruct (link_area_same (t_entries t2) b) as (_ & -> & -> & _). apply (area_full_in _ _ Hwf2 Hb). }
  assert (Hwords : forall e, entry_words tf e = entry_words t2 e).
  { intros e. unfold entry_words, area_fuel. unfold tf at 1; cbn [t_areas]. rewrite map_length.
    apply (read_words_link (t_entries t2)); [reflexivity|]. intros a. apply (link_area_same (t_entries t2) a). }
  assert (Hall : forall e, In e (t_entries t2) ->
             placed tf e /\ entry_words tf e = Some (ser_words (t_be t2) (e_type e) (e_default e)) /\
             validate false e {| v_type := e_type e; v_bits := e_default e |} = true /\ ser_ok {| v_type := e_type e; v_bits := e_default e |} = true /\
             e_default e < 2 ^ tbits (e_type e)).
  { intros e Hin. apply In_nth_error in Hin as [j Hj]. pose proof (nth_error_Some_lt _ _ _ Hj) as Hjl. rewrite E2 in Hjl.
    destruct (Hdone2 j e Hjl Hj) as (Pj & Wj & Vj & Oj).
    rewrite Forall_forall in Hent. destruct (Hent e ltac:(rewrite <- E2; apply (nth_error_In _ _ Hj))) as [Hnf Hty].
    split; [apply (placed_geom t2 tf e e Gf Hwff eq_refl eq_refl Pj)|]. split; [rewrite Hwords; exact Wj|].
    split; [rewrite <- (validate_during true) by exact Hnf; exact Vj|]. split; [exact Oj|exact Hty]. }
  split; [|split; [exact E2|]].
  - split; [|exact Hwff]. constructor; try reflexivity.
    + exact Hc2.
    + apply Forall_forall. intros e Hin. apply (Hall e Hin).
    + unfold tf; cbn [t_areas]. apply Forall_forall. intros a Hin. apply in_map_iff in Hin as (b & <- & Hb).
      destruct (link_area_same (t_entries t2) b) as (_ & _ & -> & _). rewrite Forall_forall in H162. apply H162. exact Hb.
    + apply Forall_forall. intros e Hin. destruct (Hall e Hin) as (_ & We & Ve & _ & Ty). intros ws Hw _.
      change (t_be tf) with (t_be t2). rewrite We in Hw. injection Hw as <-. rewrite ser_des_roundtrip by exact Ty. exact Ve.
  - intros idx e He. unfold reg_get. change (t_init tf) with true. cbn [negb]. rewrite He.
    destruct (Hall e (entry_at_in _ _ _ He)) as (_ & We & _ & Oe & Ty). rewrite We. change (t_be tf) with (t_be t2).
    rewrite ser_des_roundtrip by exact Ty. rewrite Oe. reflexivity.
Qed.
