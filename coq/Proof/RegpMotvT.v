(* Lifting the finite sweep of Proof/RegpMotvSweep.v to every block size. *)
From Coq Require Import ZArith NArith Lia String List Bool.
From Ufw Require Import Base.Bits Base.Cexpr Model.Regp Gen.RegpMotvGen Proof.RegpMotvSweep.
Import ListNotations.
Local Open Scope Z_scope.

Lemma Nrange_in k x : (x < k)%N -> In x (Nrange k).
Proof.
  intros H. unfold Nrange. apply in_map_iff. exists (N.to_nat x). split; [apply N2Nat.id|].
  apply in_seq. lia.
Qed.

Opaque motv_case.
Lemma motv_case_01 mem16 serial ms meta type n : (meta < 256)%N -> (type < 16)%N -> (n <= 1)%N ->
  motv_case mem16 serial ms meta type n = true.
Proof.
  intros Hm Ht Hn.
  assert (Hb : forall b : bool, In b [false; true]) by (intros []; cbn; auto).
  assert (Hms : forall m, In m [MAuto; M8; M16]) by (intros []; cbn; auto).
  pose proof (proj1 (forallb_forall _ _) motv_sweep_true mem16 (Hb _)) as S1. cbv beta in S1.
  pose proof (proj1 (forallb_forall _ _) S1 serial (Hb _)) as S2. cbv beta in S2.
  pose proof (proj1 (forallb_forall _ _) S2 ms (Hms _)) as S3. cbv beta in S3.
  pose proof (proj1 (forallb_forall _ _) S3 meta (Nrange_in _ _ Hm)) as S4. cbv beta in S4.
  pose proof (proj1 (forallb_forall _ _) S4 type (Nrange_in _ _ Ht)) as S5. cbv beta in S5.
  apply (proj1 (forallb_forall _ _) S5 n).
  assert (n = 0 \/ n = 1)%N as [->| ->] by lia; [left|right; left]; reflexivity.
Qed.
Transparent motv_case.

(* ---- the block size enters only through the test n > 0 ---- *)
Definition is_n (x : string) : bool := String.eqb x "n".

Definition is_zero64 (e : expr) : bool :=
  match e with Cast (Ity false 64) (Lit Z0) => true | _ => false end.
Definition is_var (e : expr) : bool := match e with Var _ => true | _ => false end.

Fixpoint n_only_positive (e : expr) : bool :=
  match e with
  | Var x => negb (is_n x)
  | Lit _ => true
  | Bin o _ a b => (match o with Ogt => is_var a && is_zero64 b | _ => false end) || (n_only_positive a && n_only_positive b)
  | Un _ _ a => n_only_positive a
  | Cast _ a => n_only_positive a
  | Idx _ i => n_only_positive i
  | Cond c a b => n_only_positive c && n_only_positive a && n_only_positive b
  end.

Lemma is_zero64_eval env tabs e : is_zero64 e = true -> eval env tabs e = 0.
Proof.
  unfold is_zero64.
  repeat match goal with |- context [match ?x with _ => _ end] => destruct x; try discriminate end.
  intros _. reflexivity.
Qed.

Lemma eval_n_only_positive env env' tabs e :
  (forall x, is_n x = false -> env x = env' x) ->
  (env "n"%string >? 0) = (env' "n"%string >? 0) ->
  n_only_positive e = true -> eval env tabs e = eval env' tabs e.
Proof.
  intros Hag Hn. induction e as [x|z|o t a IHa b IHb|o t a IHa|t a IHa|tab i IHi|c IHc a IHa b IHb]; cbn [n_only_positive eval]; intros H.
  - apply Hag. destruct (is_n x); [discriminate|reflexivity].
  - reflexivity.
  - apply orb_true_iff in H. destruct H as [H|H].
    + destruct o; try discriminate. apply andb_true_iff in H. destruct H as [Hv Hz].
      rewrite (is_zero64_eval env tabs b Hz), (is_zero64_eval env' tabs b Hz).
      destruct a as [x| | | | | |]; try discriminate. cbn [eval eval_bin].
      destruct (is_n x) eqn:E.
      * unfold is_n in E. apply String.eqb_eq in E. subst x. rewrite Hn. reflexivity.
      * rewrite (Hag x E). reflexivity.
    + apply andb_true_iff in H. destruct H as [H1 H2]. rewrite (IHa H1), (IHb H2). reflexivity.
  - rewrite (IHa H). reflexivity.
  - rewrite (IHa H). reflexivity.
  - rewrite (IHi H). reflexivity.
  - apply andb_true_iff in H. destruct H as [H H3]. apply andb_true_iff in H. destruct H as [H1 H2].
    rewrite (IHc H1), (IHa H2), (IHb H3). reflexivity.
Qed.

Lemma make_motv_n_only_positive : n_only_positive c_make_motv = true.
Proof. vm_compute. reflexivity. Qed.

Lemma make_motv_n p ms meta type n :
  make_motv p ms meta type n = make_motv p ms meta type (if (n =? 0)%N then 0%N else 1%N).
Proof. unfold make_motv. destruct (N.eqb_spec n 0) as [->|H]; [reflexivity|]. destruct n; [contradiction|reflexivity]. Qed.

Lemma make_motv_regp p ms meta type n :
  make_motv p ms meta type n = make_motv (the_regp (g_mem16 p) (g_serial p)) ms meta type n.
Proof. reflexivity. Qed.

(* The tie: for every instance, memory semantics, meta code, frame type and block size the word assembled by the C code is the
   model's.  The enumeration constants are the ones of this source (0/1 numbering, MSEM_AUTO/8BIT/16BIT = 0/1/2); Proof/ConstsRegp.v
   proves that these are the values tools/consts2coq.py reads from the source. *)
(* keep the kernel from evaluating the translated term symbolically when it compares statements *)
Strategy opaque [c_make_motv].
Theorem make_motv_tie p ms meta type n : (meta < 256)%N -> (type < 16)%N ->
  eval (envM 0 1 0 1 0 0 1 2 (g_mem16 p) (g_serial p) ms (Z.of_N meta) (Z.of_N type) (Z.of_N n)) (fun _ => []) c_make_motv
  = Z.of_N (make_motv p ms meta type n).
Proof.
  intros Hm Ht. set (n' := if (n =? 0)%N then 0%N else 1%N).
  assert (Hn' : (n' <= 1)%N) by (unfold n'; destruct (n =? 0)%N; lia).
  pose proof (motv_case_01 (g_mem16 p) (g_serial p) ms meta type n' Hm Ht Hn') as C.
  unfold motv_case in C. apply Z.eqb_eq in C.
  rewrite make_motv_regp, (make_motv_n _ ms meta type n). fold n'. rewrite <- C.
  apply eval_n_only_positive.
  - intros x Hx. unfold envM. unfold is_n in Hx.
    repeat match goal with |- context [String.eqb x ?s] => destruct (String.eqb x s) eqn:?; [reflexivity|] end.
    rewrite Hx. reflexivity.
  - unfold envM. change (String.eqb "n" "msem") with false. cbv beta iota.
    change (String.eqb "n" "p.memory.type") with false. change (String.eqb "n" "RP_MEMTYPE_16") with false.
    change (String.eqb "n" "p.ep.type") with false. change (String.eqb "n" "RP_EP_SERIAL") with false.
    change (String.eqb "n" "RP_FRAME_READ_REQUEST") with false. change (String.eqb "n" "meta") with false.
    change (String.eqb "n" "type") with false. change (String.eqb "n" "n") with true. cbv beta iota.
    unfold n'. destruct (N.eqb_spec n 0) as [->|H]; [reflexivity|]. destruct n; [contradiction|reflexivity].
  - exact make_motv_n_only_positive.
Qed.

(* the same with the enumeration constants and MSEM_* macros as tools/consts2coq.py reads them from the source on every check
   (a renumbering there stops this corollary from type-checking) *)
From Ufw Require Import Gen.Consts.
Corollary make_motv_tie_source p ms meta type n : (meta < 256)%N -> (type < 16)%N ->
  eval (envM (Z.of_N c_RP_MEMTYPE_8) (Z.of_N c_RP_MEMTYPE_16) (Z.of_N c_RP_EP_SERIAL) (Z.of_N c_RP_EP_TCP)
             (Z.of_N c_RP_FRAME_READ_REQUEST) (Z.of_N c_MSEM_AUTO) (Z.of_N c_MSEM_8BIT) (Z.of_N c_MSEM_16BIT)
             (g_mem16 p) (g_serial p) ms (Z.of_N meta) (Z.of_N type) (Z.of_N n)) (fun _ => []) c_make_motv
  = Z.of_N (make_motv p ms meta type n).
Proof. exact (make_motv_tie p ms meta type n). Qed.

(* non-vacuity: a write request of 3 words on the serial transport from an instance with 16-bit memory *)
Example make_motv_example :
  eval (envM 0 1 0 1 0 0 1 2 true true MAuto 0 2 3) (fun _ => []) c_make_motv = 1824 /\
  make_motv (the_regp true true) MAuto 0 2 3 = 1824%N.
Proof. split; vm_compute; reflexivity. Qed.
