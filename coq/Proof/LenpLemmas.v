From Ufw Require Import Base.Bits Base.Errno Model.ByteBuffer Model.Endpoints Model.Varint Model.Lenp
  Proof.ListLemmas Proof.EndpointsLemmas Proof.VarintLemmas.
From Coq Require Import Lia Bool.
Local Open Scope N_scope.

(* ---------- fixed-width codecs ---------- *)
Lemma of_le_le_bytes k : forall v, v < 256 ^ N.of_nat k -> of_le (le_bytes k v) = v.
Proof.
  induction k as [|k IH]; intros v Hv.
  - cbn in *. lia.
  - cbn [le_bytes of_le]. rewrite IH.
    + rewrite N.add_comm. symmetry. apply N.div_mod. discriminate.
    + apply N.div_lt_upper_bound; [discriminate|].
      rewrite <- N.pow_succ_r'. replace (N.succ (N.of_nat k)) with (N.of_nat (S k)) by lia. exact Hv.
Qed.

Lemma of_be_be_bytes k v : v < 256 ^ N.of_nat k -> of_be (be_bytes k v) = v.
Proof. intros H. unfold of_be, be_bytes. rewrite rev_involutive. apply of_le_le_bytes. exact H. Qed.

Lemma le_bytes_length k v : length (le_bytes k v) = k.
Proof. revert v; induction k; intros; cbn; auto. Qed.
Lemma be_bytes_length k v : length (be_bytes k v) = k.
Proof. unfold be_bytes. rewrite rev_length. apply le_bytes_length. Qed.

(* ---------- plain endpoints ---------- *)
Definition plain_snk (oct : bool) (got : list N) (calls : N) : snk :=
  {| k_octet := oct; k_got := got; k_script := []; k_calls := calls |}.
Definition plain_src (oct : bool) (st : list N) (calls : N) : src :=
  {| s_octet := oct; s_stream := st; s_script := []; s_calls := calls |}.

Lemma octet_call_plain got calls x :
  snk_octet_call (plain_snk true got calls) x = (DOk 1, plain_snk true (got ++ [x]) (calls + 1)).
Proof. reflexivity. Qed.
Lemma chunk_call_plain got calls xs :
  snk_chunk_call (plain_snk false got calls) xs
  = (DOk (N.min SSIZE_MAX (N.of_nat (length xs))),
     plain_snk false (got ++ firstn (N.to_nat (N.min SSIZE_MAX (N.of_nat (length xs)))) xs) (calls + 1)).
Proof. reflexivity. Qed.

Lemma sink_adapt_plain xs : forall fuel n got calls, (length xs <= fuel)%nat ->
  exists calls', sink_adapt fuel (plain_snk true got calls) n xs = Some (DOk n, plain_snk true (got ++ xs) calls').
Proof.
  induction xs as [|x t IH]; intros fuel n got calls Hf.
  - destruct fuel; cbn; rewrite app_nil_r; eauto.
  - destruct fuel as [|f]; [cbn in Hf; lia|]. cbn [sink_adapt].
    rewrite octet_call_plain. cbn [N.eqb].
    destruct (IH f n (got ++ [x]) (calls + 1)) as [c' E]; [cbn in Hf; lia|].
    rewrite E. rewrite <- app_assoc. eauto.
Qed.

Lemma put_loop_step f k n xs : xs <> [] ->
  sink_put_chunk_loop (S f) k n xs =
  match once_sink_put_chunk k xs with
  | None => None
  | Some (DErr e, k') => if is_retry e then sink_put_chunk_loop f k' n xs else Some (DErr e, k')
  | Some (DOk c, k') => sink_put_chunk_loop f k' n (skipn (N.to_nat c) xs)
  end.
Proof. destruct xs; [contradiction|reflexivity]. Qed.

Lemma put_plain oct xs n got calls : 1 <= n -> n <= SSIZE_MAX -> n <= N.of_nat (length xs) ->
  exists calls', sink_put_chunk (plain_snk oct got calls) xs n
                 = Some (DOk n, plain_snk oct (got ++ firstn (N.to_nat n) xs) calls').
Proof.
  intros H1 H2 H3. unfold sink_put_chunk.
  destruct (N.eqb_spec n 0); [lia|]. destruct (N.ltb_spec SSIZE_MAX n); [lia|]. cbn [orb].
  set (ys := firstn (N.to_nat n) xs).
  assert (Hy : length ys = N.to_nat n) by (unfold ys; rewrite firstn_length; lia).
  set (fuel := snk_fuel (plain_snk oct got calls) (length xs)).
  assert (Hfuel : (2 <= fuel)%nat) by (unfold fuel, snk_fuel; cbn; lia).
  destruct fuel as [|[|f]]; try lia.
  assert (Hne : ys <> []) by (intro E; rewrite E in Hy; cbn in Hy; lia).
  assert (Hone : exists c', once_sink_put_chunk (plain_snk oct got calls) ys
                            = Some (DOk (N.of_nat (length ys)), plain_snk oct (got ++ ys) c')).
  { unfold once_sink_put_chunk. cbn [k_octet plain_snk]. destruct oct.
    - apply sink_adapt_plain. unfold snk_fuel. lia.
    - rewrite chunk_call_plain.
      replace (N.min SSIZE_MAX (N.of_nat (length ys))) with (N.of_nat (length ys)) by lia.
      rewrite Nat2N.id, firstn_all. eauto. }
  destruct Hone as [c' E].
  rewrite put_loop_step by exact Hne. rewrite E.
  rewrite Nat2N.id, skipn_all. cbn [sink_put_chunk_loop]. eauto.
Qed.

(* ---------- the prefix ---------- *)
Lemma prefix_length k n : n <= lk_max k -> n <= SSIZE_MAX ->
  1 <= N.of_nat (length (lenp_prefix k n)) <= 10.
Proof.
  intros Hm Hs. destruct k; cbn [lenp_prefix length]; rewrite ?le_bytes_length, ?be_bytes_length; try (cbn; lia).
  rewrite encode_length. apply length_bound64. unfold SSIZE_MAX in Hs. lia.
Qed.

(* ---------- encoding onto an accepting sink: wire = prefix ++ payload, total reported ---------- *)
Theorem memory_to_sink_ok k oct got calls xs n :
  1 <= n -> n <= lk_max k -> n <= SSIZE_MAX - 10 -> n <= N.of_nat (length xs) ->
  exists calls', lenp_memory_to_sink k (plain_snk oct got calls) xs n =
    Some (DOk (N.of_nat (length (lenp_prefix k n)) + n),
          plain_snk oct (got ++ lenp_prefix k n ++ firstn (N.to_nat n) xs) calls').
Proof.
  intros H1 Hm Hs Hx. unfold lenp_memory_to_sink, encode_prefix.
  assert (Hs' : n <= SSIZE_MAX) by (unfold SSIZE_MAX in *; lia).
  destruct (N.ltb_spec SSIZE_MAX n); [lia|]. destruct (N.ltb_spec (lk_max k) n); [lia|]. cbn [orb].
  pose proof (prefix_length k n Hm Hs') as Hp.
  set (p := lenp_prefix k n) in *.
  destruct (N.ltb_spec (SSIZE_MAX - N.of_nat (length p)) n); [unfold SSIZE_MAX in *; lia|].
  destruct (put_plain oct p (N.of_nat (length p)) got calls) as [c1 E1]; [unfold SSIZE_MAX in *; lia..|].
  rewrite E1. rewrite Nat2N.id, firstn_all.
  destruct (put_plain oct xs n (got ++ p) c1) as [c2 E2]; [lia..|].
  rewrite E2. rewrite <- app_assoc. eauto.
Qed.

Theorem memory_to_sink_refused k snk0 xs n : lk_max k < n \/ SSIZE_MAX < n ->
  lenp_memory_to_sink k snk0 xs n = Some (DErr EINVAL, snk0).   (* nothing emitted *)
Proof.
  intros H. unfold lenp_memory_to_sink, encode_prefix.
  destruct (N.ltb_spec SSIZE_MAX n); [reflexivity|]. destruct (N.ltb_spec (lk_max k) n); [reflexivity|lia].
Qed.

(* buffer entry points: the designated octets are the unread ones / the first n unread ones *)
Theorem buffer_to_sink_ok k oct got calls b :
  bb_inv b -> 1 <= bb_rest b -> bb_rest b <= lk_max k -> bb_rest b <= SSIZE_MAX - 10 ->
  exists calls', lenp_buffer_to_sink k (plain_snk oct got calls) b =
    Some (DOk (N.of_nat (length (lenp_prefix k (bb_rest b))) + bb_rest b),
          plain_snk oct (got ++ lenp_prefix k (bb_rest b) ++ bb_unread b) calls').
Proof.
  intros Hi H1 Hm Hs. unfold lenp_buffer_to_sink.
  pose proof (ByteBufferLemmas.unread_length b Hi) as Hl.
  destruct (memory_to_sink_ok k oct got calls (bb_unread b) (bb_rest b) H1 Hm Hs ltac:(lia)) as [c E].
  rewrite E. rewrite <- Hl, firstn_all. eauto.
Qed.

Theorem buffer_to_sink_n_ok k oct got calls b n :
  bb_inv b -> 1 <= n -> n <= bb_rest b -> n <= lk_max k -> n <= SSIZE_MAX - 10 ->
  exists calls' b', lenp_buffer_to_sink_n k (plain_snk oct got calls) b n =
    Some (DOk (N.of_nat (length (lenp_prefix k n)) + n),
          plain_snk oct (got ++ lenp_prefix k n ++ firstn (N.to_nat n) (bb_unread b)) calls', b') /\
    bb_offset b' = bb_offset b + n /\ bb_unread b' = skipn (N.to_nat n) (bb_unread b) /\ bb_mem b' = bb_mem b.
Proof.
  intros Hi H1 Hr Hm Hs. unfold lenp_buffer_to_sink_n.
  destruct (N.ltb_spec (bb_rest b) n); [lia|].
  pose proof (ByteBufferLemmas.unread_length b Hi) as Hl.
  destruct (memory_to_sink_ok k oct got calls (bb_unread b) n H1 Hm Hs ltac:(lia)) as [c E].
  rewrite E. do 2 eexists. split; [reflexivity|]. cbn [bb_offset bb_mem]. split; [reflexivity|]. split; [|reflexivity].
  apply (ByteBufferLemmas.unread_advance b n); auto.
Qed.

Theorem buffer_to_sink_n_refused k snk0 b n : bb_rest b < n ->
  lenp_buffer_to_sink_n k snk0 b n = Some (DErr EINVAL, snk0, b).
Proof. intros H. unfold lenp_buffer_to_sink_n. destruct (N.ltb_spec (bb_rest b) n); [reflexivity|lia]. Qed.

(* chunk lists: the chunks' unread octets from [active] on, in order, empty chunks allowed *)
Lemma put_chunks_cons_ne snk0 p r : p <> [] ->
  put_chunks snk0 (p :: r) =
  match sink_put_chunk snk0 p (N.of_nat (length p)) with
  | None => None
  | Some (DErr e, k1) => Some (DErr e, k1)
  | Some (DOk _, k1) => put_chunks k1 r
  end.
Proof. destruct p; [contradiction|reflexivity]. Qed.

Lemma put_chunks_plain oct ps : forall got calls,
  Forall (fun p => N.of_nat (length p) <= SSIZE_MAX) ps ->
  exists calls' c, put_chunks (plain_snk oct got calls) ps = Some (DOk c, plain_snk oct (got ++ List.concat ps) calls').
Proof.
  induction ps as [|p r IH]; intros got calls Hf; cbn [List.concat].
  - cbn. rewrite app_nil_r. eauto.
  - inversion Hf as [|? ? Hp Hr]; subst.
    destruct (list_eq_dec N.eq_dec p []) as [->|Hne].
    + cbn [put_chunks app]. apply IH. exact Hr.
    + rewrite put_chunks_cons_ne by exact Hne.
      assert (Hl : 1 <= N.of_nat (length p)) by (destruct p; [contradiction|cbn [length]; lia]).
      destruct (put_plain oct p (N.of_nat (length p)) got calls) as [c1 E1]; [lia..|].
      rewrite E1. rewrite Nat2N.id, firstn_all.
      destruct (IH (got ++ p) c1 Hr) as (c2 & c & E2). rewrite E2, <- app_assoc. eauto.
Qed.

Theorem chunks_to_sink_ok k oct got calls active cs :
  let payload := List.concat (chunks_payload active cs) in
  let n := N.of_nat (length payload) in
  1 <= n -> n <= lk_max k -> n <= SSIZE_MAX - 10 ->
  exists calls', lenp_chunks_to_sink k (plain_snk oct got calls) active cs =
    Some (DOk (N.of_nat (length (lenp_prefix k n)) + n),
          plain_snk oct (got ++ lenp_prefix k n ++ payload) calls').
Proof.
  intros payload n H1 Hm Hs. unfold lenp_chunks_to_sink, encode_prefix. fold payload. fold n.
  assert (Hs' : n <= SSIZE_MAX) by (unfold SSIZE_MAX in *; lia).
  destruct (N.ltb_spec SSIZE_MAX n); [lia|]. destruct (N.ltb_spec (lk_max k) n); [lia|]. cbn [orb].
  pose proof (prefix_length k n Hm Hs') as Hp.
  set (p := lenp_prefix k n) in *.
  destruct (N.ltb_spec (SSIZE_MAX - N.of_nat (length p)) n); [unfold SSIZE_MAX in *; lia|].
  destruct (put_plain oct p (N.of_nat (length p)) got calls) as [c1 E1]; [unfold SSIZE_MAX in *; lia..|].
  rewrite E1. rewrite Nat2N.id, firstn_all.
  destruct (put_chunks_plain oct (chunks_payload active cs) (got ++ p) c1) as (c2 & c & E2).
  { apply Forall_forall. intros q Hq.
    assert (length q <= length payload)%nat.
    { unfold payload. clear -Hq. induction (chunks_payload active cs) as [|a l IH]; [contradiction|].
      cbn [List.concat]. rewrite app_length. destruct Hq as [->|Hq]; [lia|specialize (IH Hq); lia]. }
    unfold n in Hs'. lia. }
  rewrite E2. rewrite <- app_assoc. eauto.
Qed.

(* prefix objects *)
Theorem memory_encode_ok k xs n : 1 <= n -> n <= lk_max k -> n <= SSIZE_MAX ->
  lenp_memory_encode k xs n = (None, lenp_prefix k n, firstn (N.to_nat n) xs).
Proof.
  intros H1 Hm Hs. unfold lenp_memory_encode, encode_prefix.
  destruct (N.ltb_spec SSIZE_MAX n); [lia|]. destruct (N.ltb_spec (lk_max k) n); [lia|]. cbn [orb].
  destruct (N.eqb_spec n 0); [lia|reflexivity].
Qed.

(* ---------- decoding ---------- *)
Lemma firstn_app_len {A} (a b : list A) n : n = length a -> firstn n (a ++ b) = a.
Proof. intros ->. rewrite firstn_app, Nat.sub_diag, firstn_all. cbn. apply app_nil_r. Qed.
Lemma skipn_app_len {A} (a b : list A) n : n = length a -> skipn n (a ++ b) = b.
Proof. intros ->. rewrite skipn_app, Nat.sub_diag, skipn_all. reflexivity. Qed.

Lemma app_inv_len {A} (a b c d : list A) : a ++ b = c ++ d -> length a = length c -> a = c /\ b = d.
Proof.
  revert c; induction a as [|x a IH]; intros [|y c] H Hl; cbn in *; try lia; auto.
  injection H as -> H. destruct (IH c H ltac:(lia)) as [-> ->]. auto.
Qed.

(* fixed-width kinds, EVERY source behaviour script: if the call reports success, the destination holds
   exactly the payload, the count is its length, and the stream continues right behind the frame *)
Theorem memory_from_source_fixed k s size n payload r c d s' :
  k <> LVar -> n <= lk_max k -> N.of_nat (length payload) = n ->
  s_stream s = lenp_prefix k n ++ payload ++ r ->
  lenp_memory_from_source k s size = Some (DOk c, d, s') ->
  c = n /\ d = payload /\ s_stream s' = r /\ n <= size.
Proof.
  intros Hk Hm Hl Hs H. unfold lenp_memory_from_source, decode_prefix in H.
  assert (Hsz : N.of_nat (length (lenp_prefix k n)) = lk_size k /\
                (match k with LBe16 | LBe32 => of_be (lenp_prefix k n) | _ => of_le (lenp_prefix k n) end) = n).
  { destruct k; try contradiction; cbn [lenp_prefix lk_size lk_max length] in *;
      rewrite ?le_bytes_length, ?be_bytes_length; (split; [reflexivity|]).
    - cbn. lia.
    - apply (of_le_le_bytes 2); cbn; lia.
    - apply (of_le_le_bytes 4); cbn; lia.
    - apply (of_be_be_bytes 2); cbn; lia.
    - apply (of_be_be_bytes 4); cbn; lia. }
  destruct Hsz as [Hpl Hval].
  assert (E1 : exists r1 d1 s1, source_get_chunk s (lk_size k) = Some (r1, d1, s1)).
  { destruct k; try contradiction; destruct (source_get_chunk s _) as [[[? ?] ?]|]; try discriminate; eauto. }
  destruct E1 as (r1 & d1 & s1 & E1).
  assert (H' : match r1 with
               | DErr e => Some (DErr e, @nil N, s1)
               | DOk _ => let len := match k with LBe16 | LBe32 => of_be d1 | _ => of_le d1 end in
                          if size <? len then Some (DErr ENOMEM, [], s1) else source_get_chunk s1 len
               end = Some (DOk c, d, s')).
  { destruct k; try contradiction; rewrite E1 in H; destruct r1; exact H. }
  clear H. destruct (get_chunk_exact _ _ _ _ _ E1) as (P1 & L1 & _).
  destruct r1 as [c1|e1]; [|discriminate].
  destruct (L1 c1 eq_refl) as (_ & Ld & Hd1).
  rewrite Hs in Hd1. rewrite firstn_app_len in Hd1 by lia.
  rewrite Hs in P1. rewrite Hd1 in P1. apply app_inv_head in P1.
  cbv zeta in H'. rewrite Hd1, Hval in H'.
  destruct (N.ltb_spec size n); [discriminate|].
  destruct (get_chunk_exact _ _ _ _ _ H') as (P2 & L2 & _).
  destruct (L2 c eq_refl) as (-> & Ld2 & Hd2).
  rewrite P1 in Hd2. rewrite firstn_app_len in Hd2 by lia.
  rewrite P1, Hd2 in P2. apply app_inv_head in P2. auto.
Qed.

(* destination too small: ENOMEM, nothing written *)
Theorem memory_from_source_enomem k s size n payload r rc d s' :
  k <> LVar -> n <= lk_max k -> s_stream s = lenp_prefix k n ++ payload ++ r -> size < n ->
  lenp_memory_from_source k s size = Some (rc, d, s') ->
  (forall c, rc <> DOk c) /\ d = [].
Proof.
  intros Hk Hm Hs Hlt H. unfold lenp_memory_from_source, decode_prefix in H.
  assert (Hsz : N.of_nat (length (lenp_prefix k n)) = lk_size k /\
                (match k with LBe16 | LBe32 => of_be (lenp_prefix k n) | _ => of_le (lenp_prefix k n) end) = n).
  { destruct k; try contradiction; cbn [lenp_prefix lk_size lk_max length] in *;
      rewrite ?le_bytes_length, ?be_bytes_length; (split; [reflexivity|]).
    - cbn. lia.
    - apply (of_le_le_bytes 2); cbn; lia.
    - apply (of_le_le_bytes 4); cbn; lia.
    - apply (of_be_be_bytes 2); cbn; lia.
    - apply (of_be_be_bytes 4); cbn; lia. }
  destruct Hsz as [Hpl Hval].
  assert (E1 : exists r1 d1 s1, source_get_chunk s (lk_size k) = Some (r1, d1, s1)).
  { destruct k; try contradiction; destruct (source_get_chunk s _) as [[[? ?] ?]|]; try discriminate; eauto. }
  destruct E1 as (r1 & d1 & s1 & E1).
  assert (H' : match r1 with
               | DErr e => Some (DErr e, @nil N, s1)
               | DOk _ => let len := match k with LBe16 | LBe32 => of_be d1 | _ => of_le d1 end in
                          if size <? len then Some (DErr ENOMEM, [], s1) else source_get_chunk s1 len
               end = Some (rc, d, s')).
  { destruct k; try contradiction; rewrite E1 in H; destruct r1; exact H. }
  clear H. destruct (get_chunk_exact _ _ _ _ _ E1) as (P1 & L1 & _).
  destruct r1 as [c1|e1].
  - destruct (L1 c1 eq_refl) as (_ & Ld & Hd1).
    rewrite Hs in Hd1. rewrite firstn_app_len in Hd1 by lia.
    cbv zeta in H'. rewrite Hd1, Hval in H'.
    destruct (N.ltb_spec size n); [|lia]. injection H' as <- <- <-. split; [discriminate|reflexivity].
  - injection H' as <- <- <-. split; [discriminate|reflexivity].
Qed.

(* varint prefix on a plain source *)
Lemma dec_list_count fuel : forall l i acc u c, dec_list fuel l i acc = VOk u c -> i < c.
Proof.
  induction fuel as [|f IH]; intros l i acc u c H; [discriminate|].
  destruct l as [|d r]; [discriminate|]. cbn [dec_list] in H.
  destruct (N.land d 128 =? 0).
  - injection H as <- <-. lia.
  - specialize (IH _ _ _ _ _ H). lia.
Qed.

Lemma from_source_state fuel : forall oct st calls i acc u c, dec_list fuel st i acc = VOk u c ->
  exists calls', snd (vi_from_source_loop fuel (plain_src oct st calls) i acc)
                 = plain_src oct (skipn (N.to_nat (c - i)) st) calls'.
Proof.
  induction fuel as [|f IH]; intros oct st calls i acc u c H; [discriminate|].
  destruct st as [|d r]; [discriminate|]. cbn [dec_list] in H.
  cbn [vi_from_source_loop]. unfold plain_src at 1. rewrite plain_get_octet.
  destruct (N.land d 128 =? 0) eqn:Ed.
  - injection H as <- <-. replace (i + 1 - i) with 1 by lia. exists (calls + 1). reflexivity.
  - pose proof (dec_list_count _ _ _ _ _ _ H) as Hc.
    destruct (IH oct r (calls + 1) (i + 1) _ u c H) as [c' E]. unfold plain_src in E at 1. rewrite E.
    replace (N.to_nat (c - i)) with (S (N.to_nat (c - (i + 1)))) by lia. cbn [skipn]. eauto.
Qed.

Theorem memory_from_source_var oct calls size n payload r c d s' :
  n < 2 ^ 64 -> N.of_nat (length payload) = n ->
  lenp_memory_from_source LVar (plain_src oct (vi_encode n ++ payload ++ r) calls) size = Some (DOk c, d, s') ->
  c = n /\ d = payload /\ s_stream s' = r /\ n <= size.
Proof.
  intros Hn Hl H. unfold lenp_memory_from_source, decode_prefix, vi_from_source in H.
  pose proof (decode_list_roundtrip n (payload ++ r) 10 Hn ltac:(lia)) as D.
  pose proof (from_source_list 10 oct (vi_encode n ++ payload ++ r) calls 0 0) as F.
  change (N.to_nat (vk_max KU64)) with 10%nat in H.
  destruct (from_source_state 10 oct _ calls 0 0 _ _ D) as [c' S].
  unfold plain_src in F, S.
  destruct (vi_from_source_loop 10 _ 0 0) as [res s1] eqn:E. cbn [fst snd] in F, S.
  rewrite D in F. cbn [sres_of] in F. subst res s1.
  rewrite N.sub_0_r, <- encode_length, Nat2N.id, skipn_app_len in H by reflexivity.
  destruct (N.ltb_spec size n); [discriminate|].
  destruct (get_chunk_exact _ _ _ _ _ H) as (P2 & L2 & _).
  destruct (L2 c eq_refl) as (-> & Ld2 & Hd2). cbn [s_stream plain_src] in *.
  rewrite firstn_app_len in Hd2 by lia.
  rewrite Hd2 in P2. apply app_inv_head in P2. auto.
Qed.
