(* C05, the sanitise clause: after ARBITRARY out-of-band corruption of the storage (any words in the areas; the table's
   structure intact) a successful sanitise re-establishes the invariant: every register whose content decodes and
   satisfies its constraint keeps its words, every other register holds its default, all touched marks are cleared. *)
From Ufw Require Import Base.Bits Model.RegTable Proof.ListLemmas Proof.PersistLemmas Proof.RegLemmas Proof.RegInitLemmas
  Proof.RegInvariant Proof.RegMemory Proof.RegBlockInv Proof.RegInitInv.
From Coq Require Import Lia Bool ZifyN ZifyBool ZifyNat.
Local Open Scope N_scope.
Local Open Scope bool_scope.

(* the structure of an initialised table, without any claim about the stored values *)
Record SInv (t : table) : Prop := {
  s_init : t_init t = true; s_during : t_during t = false; s_chain : entries_ordered t;
  s_placed : Forall (placed t) (t_entries t);
  s_words : Forall (fun a => Forall (fun w => w < 65536) (a_words a)) (t_areas t);
  s_wf : areas_wf (t_areas t) }.

Lemma invb_of_sinv t : SInv t -> Forall (satisfied t) (t_entries t) -> InvB t.
Proof. intros [A B C D E F] S. split; [constructor; assumption|exact F]. Qed.
Lemma sinv_of_invb t : InvB t -> SInv t.
Proof. intros [[A B C D E _] F]. constructor; assumption. Qed.

(* the content of a register decodes and satisfies its constraint *)
Definition sane (t : table) (e : entry) : bool :=
  match entry_words t e with
  | Some ws => let v := {| v_type := e_type e; v_bits := des_bits (t_be t) (e_type e) ws |} in ser_ok v && validate false e v
  | None => false
  end.
Definition default_words (t : table) (e : entry) : list N := ser_words (t_be t) (e_type e) (e_default e).

Definition same_entry (e e' : entry) : Prop :=
  e_addr e' = e_addr e /\ e_type e' = e_type e /\ e_check e' = e_check e /\ e_default e' = e_default e.

Lemma satisfied_same t e e' : same_entry e e' -> satisfied t e -> satisfied t e'.
Proof.
  intros (A & T & C & _) S ws Hw Hok. rewrite (entry_words_same t e e' A T) in Hw. rewrite (validate_same false e e' _ T C). rewrite T in *. apply (S ws Hw Hok).
Qed.

(* two different positions of an ordered register list do not meet *)
Lemma positions_apart t i j e e' : entries_ordered t -> nth_error (t_entries t) i = Some e -> nth_error (t_entries t) j = Some e' -> i <> j ->
  ~ ranges_meet e e'.
Proof.
  intros Hc Hi Hj Hne. unfold entries_ordered in Hc. destruct (t_entries t) as [|e0 er]; [destruct i; discriminate|].
  unfold ranges_meet. destruct (Nat.lt_ge_cases i j) as [L|L].
  - pose proof (chain_nth_le e_addr (fun x => tsize (e_type x)) er e0 i j e e' Hc L Hi Hj). cbn beta in H. lia.
  - pose proof (chain_nth_le e_addr (fun x => tsize (e_type x)) er e0 j i e' e Hc ltac:(lia) Hj Hi). cbn beta in H. lia.
Qed.

(* a successful checked store: structure kept, the register holds the value, every other register its old words *)
Lemma setx_effect t i e v x t' : SInv t -> nth_error (t_entries t) (N.to_nat i) = Some e ->
  reg_setx t i v true = ((ASuccess, x), t') ->
  SInv t' /\ t_entries t' = t_entries t /\ t_be t' = t_be t /\
  validate false e v = true /\ ser_ok v = true /\
  entry_words t' e = Some (ser_words (t_be t) (e_type e) (v_bits v)) /\
  forall j e', nth_error (t_entries t) j = Some e' -> j <> N.to_nat i -> entry_words t' e' = entry_words t e'.
Proof.
  intros [Hi Hd Hc Hp Hw16 Hwf] En H.
  destruct (setx_success_form _ _ _ _ _ _ H eq_refl) as (e1 & k & a & _ & He & Ha & Hv & Hok & ->).
  assert (e1 = e).
  { unfold entry_at in He. destruct (i <? N.of_nat (length (t_entries t))); [|discriminate]. congruence. }
  subst e1. specialize (Hv eq_refl). rewrite Hd in Hv.
  rewrite Forall_forall in Hp. pose proof (nth_error_In _ _ En) as Hin.
  destruct (Hp e Hin) as (k0 & a0 & Ha0 & Hfit & Hlen). rewrite Ha in Ha0. injection Ha0 as <- <-.
  set (ws := ser_words (t_be t) (e_type e) (v_bits v)).
  assert (Hws : N.of_nat (length ws) = tsize (e_type e)) by apply ser_words_length.
  destruct (set_self t e k a ws Ha Hfit Hlen Hws) as [Hp1 Hw1].
  set (t1 := set_area t k (area_write a (e_addr e - a_base a) ws)) in *.
  assert (Hothers : forall j e', nth_error (t_entries t) j = Some e' -> j <> N.to_nat i -> placed t1 e' /\ entry_words t1 e' = entry_words t e').
  { intros j e' Hj Hne. apply (entry_words_frame t e k a ws e'); try assumption; [lia|apply Hp, (nth_error_In _ _ Hj)|].
    apply (positions_apart t (N.to_nat i) j e e' Hc En Hj). lia. }
  split; [|split; [reflexivity|split; [reflexivity|split; [exact Hv|split; [exact Hok|split; [exact Hw1|intros j e' Hj Hne; apply (Hothers j e' Hj Hne)]]]]]].
  constructor; try assumption.
  - apply Forall_forall. intros e' Hin'. change (t_entries t1) with (t_entries t) in Hin'. apply In_nth_error in Hin' as [j Hj].
    destruct (Nat.eq_dec j (N.to_nat i)) as [->|Hne]; [assert (e' = e) by congruence; subst e'; exact Hp1|apply (Hothers j e' Hj Hne)].
  - unfold t1, set_area; cbn [t_areas]. apply Forall_upd; [exact Hw16|].
    unfold area_write, area_with_words; cbn [a_words]. apply Forall_blit; [|apply ser_words_16].
    unfold entry_area in Ha. destruct (find_area_in _ _ _ _ _ Ha) as [Hina _]. rewrite Forall_forall in Hw16. apply Hw16. exact Hina.
  - pose proof (setx_areas_wf t i v true Hwf) as W. rewrite H in W. exact W.
Qed.

(* clearing the touched mark of register i changes nothing else *)
Lemma untouch_sinv t i e : SInv t -> nth_error (t_entries t) i = Some e -> SInv (set_entries t (upd (t_entries t) i (untouch e))).
Proof.
  intros S En.
  assert (HB : forall (Hs : Forall (fun _ : entry => True) (t_entries t)), True) by auto. clear HB.
  destruct S as [Hi Hd Hc Hp Hw16 Hwf].
  assert (F2 : Forall2 same_entry (t_entries t) (upd (t_entries t) i (untouch e))).
  { clear - En. revert i En. induction (t_entries t) as [|y r IH]; intros [|i] En; cbn in *; try discriminate.
    - injection En as ->. constructor; [repeat split|]. clear. induction r; constructor; [repeat split|assumption].
    - constructor; [repeat split|apply IH; exact En]. }
  constructor; try assumption.
  - unfold entries_ordered in *. cbn [set_entries t_entries]. revert F2 Hc. generalize (upd (t_entries t) i (untouch e)) as l2. generalize (t_entries t) as l1.
    intros l1 l2 F2. destruct F2 as [|a b r1 r2 (A & T & _) F2]; [auto|].
    revert a b A T. induction F2 as [|a' b' r1 r2 (A' & T' & _) F2 IH]; intros a b A T Hc; [exact I|].
    destruct Hc as [H1 H2]. split; [rewrite A, T, A'; exact H1|apply (IH a' b' A' T' H2)].
  - cbn [set_entries t_entries]. apply Forall_forall. intros e' Hin'. apply In_nth_error in Hin' as [j Hj].
    rewrite Forall_forall in Hp. destruct (Nat.eq_dec j i) as [->|Hne].
    + rewrite nth_error_upd_eq in Hj by (apply nth_error_Some; congruence). injection Hj as <-.
      apply (placed_geom t _ e (untouch e) (same_geom_refl _) Hwf eq_refl eq_refl (Hp e (nth_error_In _ _ En))).
    + rewrite nth_error_upd_neq in Hj by auto. apply (placed_geom t _ e' e' (same_geom_refl _) Hwf eq_refl eq_refl (Hp e' (nth_error_In _ _ Hj))).
Qed.

(* ---- facts that depend on the table only through the words of the register and the byte order ---- *)
Lemma satisfied_transfer t t2 e : entry_words t2 e = entry_words t e -> t_be t2 = t_be t -> satisfied t e -> satisfied t2 e.
Proof. intros W B S ws Hw Hok. rewrite W in Hw. rewrite B in *. apply (S ws Hw Hok). Qed.
Lemma sane_transfer t t2 e : entry_words t2 e = entry_words t e -> t_be t2 = t_be t -> sane t2 e = sane t e.
Proof. intros W B. unfold sane. rewrite W, B. reflexivity. Qed.
Lemma sane_same t e e' : same_entry e e' -> sane t e' = sane t e.
Proof.
  intros (A & T & C & _). unfold sane. rewrite (entry_words_same t e e' A T). destruct (entry_words t e) as [ws|]; [|reflexivity].
  cbv zeta. rewrite (validate_same false e e' _ T C), T. reflexivity.
Qed.

Lemma same_entry_refl e : same_entry e e. Proof. repeat split. Qed.
Lemma same_entry_untouch e : same_entry e (untouch e). Proof. repeat split. Qed.
Lemma same_entry_trans a b c : same_entry a b -> same_entry b c -> same_entry a c.
Proof. intros (A1 & T1 & C1 & D1) (A2 & T2 & C2 & D2). repeat split; congruence. Qed.
Lemma forall2_refl (l : list entry) : Forall2 same_entry l l.
Proof. induction l; constructor; [apply same_entry_refl|assumption]. Qed.
Lemma forall2_trans (l1 l2 l3 : list entry) : Forall2 same_entry l1 l2 -> Forall2 same_entry l2 l3 -> Forall2 same_entry l1 l3.
Proof.
  intros H. revert l3. induction H as [|a b r1 r2 Hab _ IH]; intros l3 H23; inversion H23; subst; constructor; [eapply same_entry_trans; eauto|auto].
Qed.
Lemma forall2_upd (l : list entry) i e : nth_error l i = Some e -> Forall2 same_entry l (upd l i (untouch e)).
Proof.
  revert i. induction l as [|y r IH]; intros [|i] En; cbn in *; try discriminate.
  - injection En as ->. constructor; [apply same_entry_untouch|apply forall2_refl].
  - constructor; [apply same_entry_refl|apply IH; exact En].
Qed.
Lemma forall2_nth (l1 l2 : list entry) : Forall2 same_entry l1 l2 -> forall j e, nth_error l1 j = Some e ->
  exists e', nth_error l2 j = Some e' /\ same_entry e e'.
Proof.
  induction 1 as [|a b r1 r2 Hab _ IH]; intros [|j] e Hj; cbn in *; try discriminate; [injection Hj as <-; eauto|apply IH; exact Hj].
Qed.

Definition defaults_typed (t : table) : Prop := Forall (fun e => e_default e < 2 ^ tbits (e_type e)) (t_entries t).

(* what the loop guarantees from position i on *)
Definition restored (t : table) (i : nat) (t' : table) : Prop :=
  SInv t' /\ Forall2 same_entry (t_entries t) (t_entries t') /\ t_be t' = t_be t /\
  (forall j e', nth_error (t_entries t') j = Some e' -> satisfied t' e' /\ e_touched e' = false) /\
  (forall j e, nth_error (t_entries t) j = Some e ->
     entry_words t' e = if (j <? i)%nat then entry_words t e
                        else if sane t e then entry_words t e else Some (default_words t e)).

Lemma sanitise_loop_restores : forall fuel t i x t', SInv t -> defaults_typed t ->
  (length (t_entries t) < N.to_nat i + fuel)%nat ->
  (forall j e, (j < N.to_nat i)%nat -> nth_error (t_entries t) j = Some e -> satisfied t e /\ e_touched e = false) ->
  sanitise_loop fuel t i = ((ASuccess, x), t') -> restored t (N.to_nat i) t'.
Proof.
  induction fuel as [|f IH]; intros t i x t' HS Hdef Hlen Hdone H; cbn [sanitise_loop] in H.
  { (* fuel exhausted: every register has been visited *)
    injection H as _ <-. split; [exact HS|]. split; [apply forall2_refl|]. split; [reflexivity|]. split.
    - intros j e' Hj. apply (Hdone j e'); [apply nth_error_Some_lt in Hj; lia|exact Hj].
    - intros j e Hj. apply nth_error_Some_lt in Hj. destruct (Nat.ltb_spec j (N.to_nat i)); [reflexivity|lia]. }
  destruct (nth_error (t_entries t) (N.to_nat i)) as [e|] eqn:En.
  2:{ injection H as _ <-. apply nth_error_None in En. split; [exact HS|]. split; [apply forall2_refl|]. split; [reflexivity|]. split.
      - intros j e' Hj. apply (Hdone j e'); [apply nth_error_Some_lt in Hj; lia|exact Hj].
      - intros j e Hj. apply nth_error_Some_lt in Hj. destruct (Nat.ltb_spec j (N.to_nat i)); [reflexivity|lia]. }
  (* one register handled: t1 is the table after the (possible) store of the default, W the words the register then holds *)
  assert (Step : forall t1 W, SInv t1 -> t_entries t1 = t_entries t -> t_be t1 = t_be t -> entry_words t1 e = W ->
             (forall j e', nth_error (t_entries t) j = Some e' -> j <> N.to_nat i -> entry_words t1 e' = entry_words t e') ->
             satisfied t1 e -> W = (if sane t e then entry_words t e else Some (default_words t e)) ->
             sanitise_loop f (set_entries t1 (upd (t_entries t1) (N.to_nat i) (untouch e))) (i + 1) = ((ASuccess, x), t') ->
             restored t (N.to_nat i) t').
  { intros t1 W HS1 E1 B1 Wi Wo Sati HW H1.
    assert (En1 : nth_error (t_entries t1) (N.to_nat i) = Some e) by (rewrite E1; exact En).
    set (t2 := set_entries t1 (upd (t_entries t1) (N.to_nat i) (untouch e))) in *.
    assert (HS2 : SInv t2) by (apply untouch_sinv; assumption).
    assert (W21 : forall e', entry_words t2 e' = entry_words t1 e') by (intros e'; apply entry_words_areas; reflexivity).
    assert (F12 : Forall2 same_entry (t_entries t) (t_entries t2)) by (unfold t2; cbn [set_entries t_entries]; rewrite E1; apply forall2_upd; exact En).
    assert (Hdef2 : defaults_typed t2).
    { unfold defaults_typed in *. rewrite Forall_forall in *. intros e2 Hin2. apply In_nth_error in Hin2 as [j Hj].
      unfold t2 in Hj; cbn [set_entries t_entries] in Hj. rewrite E1 in Hj. destruct (Nat.eq_dec j (N.to_nat i)) as [->|Hne].
      - rewrite nth_error_upd_eq in Hj by (apply nth_error_Some; congruence). injection Hj as <-. cbn. apply Hdef, (nth_error_In _ _ En).
      - rewrite nth_error_upd_neq in Hj by auto. apply Hdef, (nth_error_In _ _ Hj). }
    assert (Hdone2 : forall j e2, (j < N.to_nat (i + 1))%nat -> nth_error (t_entries t2) j = Some e2 -> satisfied t2 e2 /\ e_touched e2 = false).
    { intros j e2 Hj Hn2. unfold t2 in Hn2; cbn [set_entries t_entries] in Hn2. rewrite E1 in Hn2.
      destruct (Nat.eq_dec j (N.to_nat i)) as [->|Hne].
      - rewrite nth_error_upd_eq in Hn2 by (apply nth_error_Some; congruence). injection Hn2 as <-. split; [|reflexivity].
        apply (satisfied_same t2 e (untouch e) (same_entry_untouch e)). apply (satisfied_transfer t1 t2 e (W21 e) eq_refl Sati).
      - rewrite nth_error_upd_neq in Hn2 by auto. destruct (Hdone j e2 ltac:(lia) Hn2) as [S0 T0]. split; [|exact T0].
        apply (satisfied_transfer t t2 e2); [rewrite W21; apply (Wo j e2 Hn2 Hne)|exact B1|exact S0]. }
    assert (Hlen2 : (length (t_entries t2) < N.to_nat (i + 1) + f)%nat).
    { unfold t2; cbn [set_entries t_entries]. rewrite upd_length, E1. lia. }
    destruct (IH t2 (i + 1) x t' HS2 Hdef2 Hlen2 Hdone2 H1) as (HS' & F2' & B' & Sat' & Wd').
    split; [exact HS'|]. split; [apply (forall2_trans _ _ _ F12 F2')|]. split; [rewrite B'; exact B1|]. split; [exact Sat'|].
    intros j e0 Hj0. destruct (forall2_nth _ _ F12 j e0 Hj0) as (e2 & Hj2 & Se).
    pose proof (Wd' j e2 Hj2) as Wj. destruct Se as (A & T & C & D).
    rewrite <- (entry_words_same t' e0 e2 A T). rewrite Wj.
    assert (W2 : entry_words t2 e2 = entry_words t1 e0) by (rewrite W21; apply entry_words_same; assumption).
    replace (N.to_nat (i + 1)) with (S (N.to_nat i)) by lia.
    destruct (Nat.eq_dec j (N.to_nat i)) as [->|Hne].
    - assert (e0 = e) by congruence. subst e0.
      destruct (Nat.ltb_spec (N.to_nat i) (S (N.to_nat i))); [|lia]. destruct (Nat.ltb_spec (N.to_nat i) (N.to_nat i)); [lia|].
      rewrite W2, Wi. exact HW.
    - rewrite W2, (Wo j e0 Hj0 Hne).
      destruct (Nat.ltb_spec j (S (N.to_nat i))), (Nat.ltb_spec j (N.to_nat i)); try lia; try reflexivity.
      assert (Hs2 : sane t2 e2 = sane t e0).
      { rewrite (sane_same t2 e0 e2 (conj A (conj T (conj C D)))). apply sane_transfer; [rewrite W21; apply (Wo j e0 Hj0 Hne)|exact B1]. }
      rewrite Hs2. unfold default_words. rewrite T, D. change (t_be t2) with (t_be t1). rewrite B1. reflexivity. }
  (* storing the default *)
  assert (Fix : forall x1 t1, reg_setx t i {| v_type := e_type e; v_bits := e_default e |} true = ((ASuccess, x1), t1) ->
            sane t e = false ->
            sanitise_loop f (set_entries t1 (upd (t_entries t1) (N.to_nat i) (untouch e))) (i + 1) = ((ASuccess, x), t') -> restored t (N.to_nat i) t').
  { intros x1 t1 Es Hns H1. destruct (setx_effect t i e _ x1 t1 HS En Es) as (HS1 & E1 & B1 & Hv & Hok & Wi & Wo). cbn [v_bits v_type] in *.
    apply (Step t1 (Some (default_words t e)) HS1 E1 B1 Wi Wo); [|rewrite Hns; reflexivity|exact H1].
    intros ws Hw _. rewrite Wi in Hw. injection Hw as <-. rewrite B1, ser_des_roundtrip.
    - exact Hv.
    - unfold defaults_typed in Hdef. rewrite Forall_forall in Hdef. apply Hdef, (nth_error_In _ _ En). }
  pose proof (s_init t HS) as Hi. pose proof (s_during t HS) as Hd.
  unfold reg_get in H. rewrite Hi in H. cbn [negb] in H.
  assert (He : entry_at t i = Some e).
  { unfold entry_at. pose proof (nth_error_Some_lt _ _ _ En). destruct (N.ltb_spec i (N.of_nat (length (t_entries t)))); [exact En|lia]. }
  rewrite He in H.
  destruct (entry_words t e) as [ws|] eqn:Ew; [|discriminate].
  set (cur := {| v_type := e_type e; v_bits := des_bits (t_be t) (e_type e) ws |}) in *.
  destruct (ser_ok cur) eqn:Eok.
  - rewrite Hd in H. destruct (validate false e cur) eqn:Ev.
    + (* the content is sane: kept *)
      apply (Step t (Some ws) HS eq_refl eq_refl Ew); [auto| |unfold sane; rewrite Ew; fold cur; rewrite Eok, Ev; reflexivity|exact H].
      intros ws' Hw' _. rewrite Ew in Hw'. injection Hw' as <-. exact Ev.
    + destruct (reg_setx t i _ true) as [[c1 x1] t1] eqn:Es. destruct c1; try discriminate.
      apply (Fix x1 t1 eq_refl); [unfold sane; rewrite Ew; fold cur; rewrite Eok, Ev; reflexivity|exact H].
  - destruct (reg_setx t i _ true) as [[c1 x1] t1] eqn:Es. destruct c1; try discriminate.
    apply (Fix x1 t1 eq_refl); [unfold sane; rewrite Ew; fold cur; rewrite Eok; reflexivity|exact H].
Qed.

Theorem sanitise_restores t x t' : SInv t -> defaults_typed t -> sanitise t = ((ASuccess, x), t') ->
  InvB t' /\ Forall (fun e' => e_touched e' = false) (t_entries t') /\ Forall2 same_entry (t_entries t) (t_entries t') /\
  forall j e, nth_error (t_entries t) j = Some e ->
    entry_words t' e = if sane t e then entry_words t e else Some (default_words t e).
Proof.
  intros HS Hdef H. unfold sanitise in H. rewrite (s_init t HS) in H. cbn [negb] in H.
  assert (L0 : (length (t_entries t) < N.to_nat 0 + S (length (t_entries t)))%nat) by (change (N.to_nat 0) with 0%nat; lia).
  assert (D0 : forall j e, (j < N.to_nat 0)%nat -> nth_error (t_entries t) j = Some e -> satisfied t e /\ e_touched e = false)
    by (intros j e Hj; change (N.to_nat 0) with 0%nat in Hj; lia).
  destruct (sanitise_loop_restores (S (length (t_entries t))) t 0 x t' HS Hdef L0 D0 H)
    as (HS' & F2 & B' & Sat' & Wd).
  split; [apply invb_of_sinv; [exact HS'|]|].
  { apply Forall_forall. intros e' Hin. apply In_nth_error in Hin as [j Hj]. apply (Sat' j e' Hj). }
  split; [apply Forall_forall; intros e' Hin; apply In_nth_error in Hin as [j Hj]; apply (Sat' j e' Hj)|].
  split; [exact F2|]. intros j e Hj. apply (Wd j e Hj).
Qed.

(* ---- out-of-band corruption: any words in the areas, everything else as it was ---- *)
Definition corrupted (t t2 : table) : Prop :=
  t_init t2 = t_init t /\ t_during t2 = t_during t /\ t_be t2 = t_be t /\ t_entries t2 = t_entries t /\
  same_geom (t_areas t) (t_areas t2) /\
  Forall (fun a => N.of_nat (length (a_words a)) = a_size a /\ Forall (fun w => w < 65536) (a_words a)) (t_areas t2).

Lemma corrupted_sinv t t2 : SInv t -> corrupted t t2 -> SInv t2.
Proof.
  intros [Hi Hd Hc Hp Hw16 Hwf] (Ci & Cd & Cb & Ce & G & Fa).
  assert (Hwf2 : areas_wf (t_areas t2)).
  { split; [apply (chain_geom _ _ G), Hwf|]. apply Forall_forall. intros a Hin. rewrite Forall_forall in Fa. apply (Fa a Hin). }
  constructor.
  - congruence.
  - congruence.
  - unfold entries_ordered in *. rewrite Ce. exact Hc.
  - rewrite Ce. apply Forall_forall. intros e Hin. rewrite Forall_forall in Hp.
    apply (placed_geom t t2 e e G Hwf2 eq_refl eq_refl (Hp e Hin)).
  - apply Forall_forall. intros a Hin. rewrite Forall_forall in Fa. apply (Fa a Hin).
  - exact Hwf2.
Qed.

(* the clause of C05: from a table satisfying the invariant, through arbitrary corruption of the storage, sanitise leads
   back to the invariant; sane registers keep their (corrupted-but-acceptable) content, the others get their default *)
Theorem sanitise_after_corruption t t2 x t' : InvB t -> defaults_typed t -> corrupted t t2 ->
  sanitise t2 = ((ASuccess, x), t') ->
  InvB t' /\ Forall (fun e' => e_touched e' = false) (t_entries t') /\ Forall2 same_entry (t_entries t) (t_entries t') /\
  forall j e, nth_error (t_entries t) j = Some e ->
    entry_words t' e = if sane t2 e then entry_words t2 e else Some (default_words t e).
Proof.
  intros HB Hdef Hcor H. pose proof (corrupted_sinv t t2 (sinv_of_invb t HB) Hcor) as HS2.
  destruct Hcor as (_ & _ & Cb & Ce & _).
  assert (Hdef2 : defaults_typed t2) by (unfold defaults_typed in *; rewrite Ce; exact Hdef).
  destruct (sanitise_restores t2 x t' HS2 Hdef2 H) as (HB' & Ht & F2 & W).
  split; [exact HB'|]. split; [exact Ht|]. split; [rewrite <- Ce; exact F2|].
  intros j e Hj. rewrite <- Ce in Hj. rewrite (W j e Hj). unfold default_words. rewrite Cb. reflexivity.
Qed.
