(* Damaged serial frames (C07): what the independent reading of the document (Model/RegpSpec.v, proved equal to the
   receiver model in RegpSpecLemmas.classify_agrees) makes of a frame whose octets were altered in transit. *)
From Ufw Require Import Base.Bits Model.Crc Model.Varint Model.Slip Model.RegpSpec
  Proof.Sweep Proof.CexprLemmas Proof.CrcLemmas Proof.CrcDetect Proof.VarintLemmas.
From Coq Require Import Lia Bool ZifyN ZifyBool ZifyNat.
Local Open Scope N_scope.
Local Open Scope bool_scope.
Ltac Zify.zify_post_hook ::= Z.div_mod_to_equations.

(* ---------- xor on two-octet big-endian numbers ---------- *)
Lemma be_lor a b : b < 256 -> 256 * a + b = N.lor (N.shiftl a 8) b.
Proof.
  intros Hb. rewrite N.lor_comm, (VarintLemmas.lor_shiftl_add b a 8) by exact Hb.
  change (2 ^ 8) with 256. lia.
Qed.

Lemma lxor_be16 a b c d : b < 256 -> d < 256 ->
  N.lxor (256 * a + b) (256 * c + d) = 256 * N.lxor a c + N.lxor b d.
Proof.
  intros Hb Hd.
  assert (Hbd : N.lxor b d < 256) by (apply (fitsN_lxor 8); assumption).
  rewrite !be_lor by assumption.
  apply N.bits_inj. intros n. rewrite N.lxor_spec, !N.lor_spec.
  destruct (N.ltb_spec n 8) as [Hn|Hn].
  - rewrite !N.shiftl_spec_low by exact Hn. cbn [orb]. rewrite N.lxor_spec. reflexivity.
  - rewrite !N.shiftl_spec_high' by exact Hn. rewrite N.lxor_spec.
    assert (Z : forall v, v < 256 -> N.testbit v n = false).
    { intros v Hv. destruct (N.eq_dec v 0) as [->|E]; [apply N.bits_0|].
      apply N.bits_above_log2. apply N.lt_le_trans with 8; [|exact Hn].
      apply N.log2_lt_pow2; [lia|exact Hv]. }
    rewrite (Z b Hb), (Z d Hd), (Z _ Hbd), !orb_false_r. reflexivity.
Qed.

(* ---------- the header of a serial frame, octet by octet ---------- *)
Definition fields_of (w0 s1 s0 a3 a2 a1 a0 n3 n2 n1 n0 : N) : hfields :=
  {| h_version := w0 mod 16; h_type := (w0 / 16) mod 16; h_opts := (w0 / 256) mod 16; h_meta := (w0 / 4096) mod 16;
     h_seq := 256 * s1 + s0; h_addr := 16777216 * a3 + 65536 * a2 + 256 * a1 + a0;
     h_bsize := 16777216 * n3 + 65536 * n2 + 256 * n1 + n0 |}.

(* version 0, no reserved option bit, an existing type/code pair *)
Definition word_ok (w0 : N) : bool :=
  (w0 mod 16 =? 0) && negb (opt_reserved ((w0 / 256) mod 16)) && spec_type_meta ((w0 / 16) mod 16) ((w0 / 4096) mod 16).

Lemma classify_bad_word m1 m0 s1 s0 a3 a2 a1 a0 n3 n2 n1 n0 rest :
  word_ok (256 * m1 + m0) = false ->
  spec_classify (m1 :: m0 :: s1 :: s0 :: a3 :: a2 :: a1 :: a0 :: n3 :: n2 :: n1 :: n0 :: rest) = SBadHeader.
Proof.
  intros H. unfold spec_classify. cbv zeta. cbn [h_version h_type h_opts h_meta].
  unfold word_ok in H.
  destruct (_ mod 16 =? 0); cbn [negb orb andb] in *; [|reflexivity].
  destruct (opt_reserved _); cbn [negb orb andb] in *; [reflexivity|].
  rewrite H. reflexivity.
Qed.

Lemma classify_hd m1 m0 s1 s0 a3 a2 a1 a0 n3 n2 n1 n0 c1 c0 payload :
  let w0 := 256 * m1 + m0 in
  word_ok w0 = true -> opt_hdcrc ((w0 / 256) mod 16) = true -> opt_plcrc ((w0 / 256) mod 16) = false ->
  spec_classify (m1 :: m0 :: s1 :: s0 :: a3 :: a2 :: a1 :: a0 :: n3 :: n2 :: n1 :: n0 :: c1 :: c0 :: payload)
  = if crc16arc [m1; m0; s1; s0; a3; a2; a1; a0; n3; n2; n1; n0] =? 256 * c1 + c0
    then judge (fields_of w0 s1 s0 a3 a2 a1 a0 n3 n2 n1 n0) (256 * c1 + c0) 0 payload else SBadHeaderCrc.
Proof.
  intros w0 Hw Hh Hp. unfold spec_classify. cbv zeta. cbn [h_version h_type h_opts h_meta]. fold w0.
  unfold word_ok in Hw. apply andb_prop in Hw as [Hw Hw3]. apply andb_prop in Hw as [Hw1 Hw2].
  rewrite Hw1, Hw3, Hh, Hp. apply negb_true_iff in Hw2. rewrite Hw2. cbn [negb orb]. reflexivity.
Qed.

Lemma classify_hd_pl m1 m0 s1 s0 a3 a2 a1 a0 n3 n2 n1 n0 c1 c0 p1 p0 payload :
  let w0 := 256 * m1 + m0 in
  word_ok w0 = true -> opt_hdcrc ((w0 / 256) mod 16) = true -> opt_plcrc ((w0 / 256) mod 16) = true ->
  spec_classify (m1 :: m0 :: s1 :: s0 :: a3 :: a2 :: a1 :: a0 :: n3 :: n2 :: n1 :: n0 :: c1 :: c0 :: p1 :: p0 :: payload)
  = if crc16arc [m1; m0; s1; s0; a3; a2; a1; a0; n3; n2; n1; n0; p1; p0] =? 256 * c1 + c0
    then judge (fields_of w0 s1 s0 a3 a2 a1 a0 n3 n2 n1 n0) (256 * c1 + c0) (256 * p1 + p0) payload else SBadHeaderCrc.
Proof.
  intros w0 Hw Hh Hp. unfold spec_classify. cbv zeta. cbn [h_version h_type h_opts h_meta]. fold w0.
  unfold word_ok in Hw. apply andb_prop in Hw as [Hw Hw3]. apply andb_prop in Hw as [Hw1 Hw2].
  rewrite Hw1, Hw3, Hh, Hp. apply negb_true_iff in Hw2. rewrite Hw2. cbn [negb orb app]. reflexivity.
Qed.

(* ---------- errors in the fields behind the first word and in the header checksum ---------- *)
Lemma xor_cancel_neq a e x : N.lxor a e = N.lxor a x -> e = x.
Proof.
  intros H. assert (N.lxor a (N.lxor a e) = N.lxor a (N.lxor a x)) by (rewrite H; reflexivity).
  rewrite <- !N.lxor_assoc, N.lxor_nilpotent, !N.lxor_0_l in H0. exact H0.
Qed.

Lemma crc_error12 a1 a2 a3 a4 a5 a6 a7 a8 a9 a10 a11 a12 e1 e2 e3 e4 e5 e6 e7 e8 e9 e10 e11 e12 :
  crc16arc [N.lxor a1 e1; N.lxor a2 e2; N.lxor a3 e3; N.lxor a4 e4; N.lxor a5 e5; N.lxor a6 e6; N.lxor a7 e7; N.lxor a8 e8;
            N.lxor a9 e9; N.lxor a10 e10; N.lxor a11 e11; N.lxor a12 e12]
  = N.lxor (crc16arc [a1; a2; a3; a4; a5; a6; a7; a8; a9; a10; a11; a12]) (crc16arc [e1; e2; e3; e4; e5; e6; e7; e8; e9; e10; e11; e12]).
Proof. exact (crc_error [a1; a2; a3; a4; a5; a6; a7; a8; a9; a10; a11; a12] [e1; e2; e3; e4; e5; e6; e7; e8; e9; e10; e11; e12] eq_refl). Qed.
Lemma crc_error12_w a1 a2 a3 a4 a5 a6 a7 a8 a9 a10 a11 a12 e3 e4 e5 e6 e7 e8 e9 e10 e11 e12 :
  crc16arc [a1; a2; N.lxor a3 e3; N.lxor a4 e4; N.lxor a5 e5; N.lxor a6 e6; N.lxor a7 e7; N.lxor a8 e8;
            N.lxor a9 e9; N.lxor a10 e10; N.lxor a11 e11; N.lxor a12 e12]
  = N.lxor (crc16arc [a1; a2; a3; a4; a5; a6; a7; a8; a9; a10; a11; a12]) (crc16arc [0; 0; e3; e4; e5; e6; e7; e8; e9; e10; e11; e12]).
Proof. rewrite <- crc_error12. rewrite !N.lxor_0_r. reflexivity. Qed.
Lemma crc_error14 a1 a2 a3 a4 a5 a6 a7 a8 a9 a10 a11 a12 a13 a14 e1 e2 e3 e4 e5 e6 e7 e8 e9 e10 e11 e12 e13 e14 :
  crc16arc [N.lxor a1 e1; N.lxor a2 e2; N.lxor a3 e3; N.lxor a4 e4; N.lxor a5 e5; N.lxor a6 e6; N.lxor a7 e7; N.lxor a8 e8;
            N.lxor a9 e9; N.lxor a10 e10; N.lxor a11 e11; N.lxor a12 e12; N.lxor a13 e13; N.lxor a14 e14]
  = N.lxor (crc16arc [a1; a2; a3; a4; a5; a6; a7; a8; a9; a10; a11; a12; a13; a14])
           (crc16arc [e1; e2; e3; e4; e5; e6; e7; e8; e9; e10; e11; e12; e13; e14]).
Proof.
  exact (crc_error [a1; a2; a3; a4; a5; a6; a7; a8; a9; a10; a11; a12; a13; a14]
                   [e1; e2; e3; e4; e5; e6; e7; e8; e9; e10; e11; e12; e13; e14] eq_refl).
Qed.
Lemma crc_error14_w a1 a2 a3 a4 a5 a6 a7 a8 a9 a10 a11 a12 a13 a14 e3 e4 e5 e6 e7 e8 e9 e10 e11 e12 e13 e14 :
  crc16arc [a1; a2; N.lxor a3 e3; N.lxor a4 e4; N.lxor a5 e5; N.lxor a6 e6; N.lxor a7 e7; N.lxor a8 e8;
            N.lxor a9 e9; N.lxor a10 e10; N.lxor a11 e11; N.lxor a12 e12; N.lxor a13 e13; N.lxor a14 e14]
  = N.lxor (crc16arc [a1; a2; a3; a4; a5; a6; a7; a8; a9; a10; a11; a12; a13; a14])
           (crc16arc [0; 0; e3; e4; e5; e6; e7; e8; e9; e10; e11; e12; e13; e14]).
Proof. rewrite <- crc_error14. rewrite !N.lxor_0_r. reflexivity. Qed.

(* frames without payload-checksum field: first word intact, error e2..e11 on sequence number, address and block size,
   error (x1, x0) on the stored checksum *)
Theorem hd_corruption m1 m0 s1 s0 a3 a2 a1 a0 n3 n2 n1 n0 c1 c0
        e2 e3 e4 e5 e6 e7 e8 e9 e10 e11 x1 x0 payload' :
  let w0 := 256 * m1 + m0 in
  word_ok w0 = true -> opt_hdcrc ((w0 / 256) mod 16) = true -> opt_plcrc ((w0 / 256) mod 16) = false ->
  c0 < 256 -> x0 < 256 ->
  crc16arc [m1; m0; s1; s0; a3; a2; a1; a0; n3; n2; n1; n0] = 256 * c1 + c0 ->
  crc16arc [0; 0; e2; e3; e4; e5; e6; e7; e8; e9; e10; e11] <> 256 * x1 + x0 ->
  spec_classify (m1 :: m0 :: N.lxor s1 e2 :: N.lxor s0 e3 :: N.lxor a3 e4 :: N.lxor a2 e5 :: N.lxor a1 e6 :: N.lxor a0 e7
                 :: N.lxor n3 e8 :: N.lxor n2 e9 :: N.lxor n1 e10 :: N.lxor n0 e11 :: N.lxor c1 x1 :: N.lxor c0 x0 :: payload')
  = SBadHeaderCrc.
Proof.
  intros w0 Hw Hh Hp Hc0 Hx0 Hvalid Herr.
  rewrite classify_hd by assumption.
  rewrite crc_error12_w, Hvalid, <- lxor_be16 by assumption.
  match goal with |- (if ?a =? ?b then _ else _) = _ => destruct (N.eqb_spec a b) as [E|_]; [|reflexivity] end.
  apply xor_cancel_neq in E. contradiction.
Qed.

(* frames with payload-checksum field: the same, plus error (y1, y0) on the stored payload checksum *)
Theorem hd_pl_corruption m1 m0 s1 s0 a3 a2 a1 a0 n3 n2 n1 n0 c1 c0 p1 p0
        e2 e3 e4 e5 e6 e7 e8 e9 e10 e11 x1 x0 y1 y0 payload' :
  let w0 := 256 * m1 + m0 in
  word_ok w0 = true -> opt_hdcrc ((w0 / 256) mod 16) = true -> opt_plcrc ((w0 / 256) mod 16) = true ->
  c0 < 256 -> x0 < 256 ->
  crc16arc [m1; m0; s1; s0; a3; a2; a1; a0; n3; n2; n1; n0; p1; p0] = 256 * c1 + c0 ->
  crc16arc [0; 0; e2; e3; e4; e5; e6; e7; e8; e9; e10; e11; y1; y0] <> 256 * x1 + x0 ->
  spec_classify (m1 :: m0 :: N.lxor s1 e2 :: N.lxor s0 e3 :: N.lxor a3 e4 :: N.lxor a2 e5 :: N.lxor a1 e6 :: N.lxor a0 e7
                 :: N.lxor n3 e8 :: N.lxor n2 e9 :: N.lxor n1 e10 :: N.lxor n0 e11 :: N.lxor c1 x1 :: N.lxor c0 x0
                 :: N.lxor p1 y1 :: N.lxor p0 y0 :: payload')
  = SBadHeaderCrc.
Proof.
  intros w0 Hw Hh Hp Hc0 Hx0 Hvalid Herr.
  rewrite classify_hd_pl by assumption.
  rewrite crc_error14_w, Hvalid, <- lxor_be16 by assumption.
  match goal with |- (if ?a =? ?b then _ else _) = _ => destruct (N.eqb_spec a b) as [E|_]; [|reflexivity] end.
  apply xor_cancel_neq in E. contradiction.
Qed.

(* conversely: an error pattern whose checksum equals the error on the stored checksum is invisible to the header check *)
Theorem hd_corruption_unseen m1 m0 s1 s0 a3 a2 a1 a0 n3 n2 n1 n0 c1 c0
        e2 e3 e4 e5 e6 e7 e8 e9 e10 e11 x1 x0 payload' :
  let w0 := 256 * m1 + m0 in
  word_ok w0 = true -> opt_hdcrc ((w0 / 256) mod 16) = true -> opt_plcrc ((w0 / 256) mod 16) = false ->
  c0 < 256 -> x0 < 256 ->
  crc16arc [m1; m0; s1; s0; a3; a2; a1; a0; n3; n2; n1; n0] = 256 * c1 + c0 ->
  crc16arc [0; 0; e2; e3; e4; e5; e6; e7; e8; e9; e10; e11] = 256 * x1 + x0 ->
  spec_classify (m1 :: m0 :: N.lxor s1 e2 :: N.lxor s0 e3 :: N.lxor a3 e4 :: N.lxor a2 e5 :: N.lxor a1 e6 :: N.lxor a0 e7
                 :: N.lxor n3 e8 :: N.lxor n2 e9 :: N.lxor n1 e10 :: N.lxor n0 e11 :: N.lxor c1 x1 :: N.lxor c0 x0 :: payload')
  = judge (fields_of w0 (N.lxor s1 e2) (N.lxor s0 e3) (N.lxor a3 e4) (N.lxor a2 e5) (N.lxor a1 e6) (N.lxor a0 e7)
                     (N.lxor n3 e8) (N.lxor n2 e9) (N.lxor n1 e10) (N.lxor n0 e11))
          (256 * N.lxor c1 x1 + N.lxor c0 x0) 0 payload'.
Proof.
  intros w0 Hw Hh Hp Hc0 Hx0 Hvalid Herr.
  rewrite classify_hd by assumption.
  rewrite crc_error12_w, Hvalid, Herr, <- lxor_be16 by assumption. rewrite N.eqb_refl. reflexivity.
Qed.

(* ---------- consequences ---------- *)
Lemma crc16arc_zeros n : crc16arc (repeat 0 n) = 0.
Proof. apply crc_zeros_0. Qed.

(* (1) any burst of up to 16 bits, and any two damaged bits, inside sequence number, address and block size *)
Theorem hd_fields_error m1 m0 s1 s0 a3 a2 a1 a0 n3 n2 n1 n0 c1 c0 e2 e3 e4 e5 e6 e7 e8 e9 e10 e11 payload' :
  let w0 := 256 * m1 + m0 in
  word_ok w0 = true -> opt_hdcrc ((w0 / 256) mod 16) = true -> opt_plcrc ((w0 / 256) mod 16) = false -> c0 < 256 ->
  crc16arc [m1; m0; s1; s0; a3; a2; a1; a0; n3; n2; n1; n0] = 256 * c1 + c0 ->
  crc16arc [0; 0; e2; e3; e4; e5; e6; e7; e8; e9; e10; e11] <> 0 ->
  spec_classify (m1 :: m0 :: N.lxor s1 e2 :: N.lxor s0 e3 :: N.lxor a3 e4 :: N.lxor a2 e5 :: N.lxor a1 e6 :: N.lxor a0 e7
                 :: N.lxor n3 e8 :: N.lxor n2 e9 :: N.lxor n1 e10 :: N.lxor n0 e11 :: c1 :: c0 :: payload')
  = SBadHeaderCrc.
Proof.
  intros w0 Hw Hh Hp Hc0 Hv He.
  pose proof (hd_corruption m1 m0 s1 s0 a3 a2 a1 a0 n3 n2 n1 n0 c1 c0 e2 e3 e4 e5 e6 e7 e8 e9 e10 e11 0 0 payload'
                            Hw Hh Hp Hc0 ltac:(lia) Hv He) as R.
  rewrite !N.lxor_0_r in R. exact R.
Qed.

Theorem hd_pl_fields_error m1 m0 s1 s0 a3 a2 a1 a0 n3 n2 n1 n0 c1 c0 p1 p0 e2 e3 e4 e5 e6 e7 e8 e9 e10 e11 y1 y0 payload' :
  let w0 := 256 * m1 + m0 in
  word_ok w0 = true -> opt_hdcrc ((w0 / 256) mod 16) = true -> opt_plcrc ((w0 / 256) mod 16) = true -> c0 < 256 ->
  crc16arc [m1; m0; s1; s0; a3; a2; a1; a0; n3; n2; n1; n0; p1; p0] = 256 * c1 + c0 ->
  crc16arc [0; 0; e2; e3; e4; e5; e6; e7; e8; e9; e10; e11; y1; y0] <> 0 ->
  spec_classify (m1 :: m0 :: N.lxor s1 e2 :: N.lxor s0 e3 :: N.lxor a3 e4 :: N.lxor a2 e5 :: N.lxor a1 e6 :: N.lxor a0 e7
                 :: N.lxor n3 e8 :: N.lxor n2 e9 :: N.lxor n1 e10 :: N.lxor n0 e11 :: c1 :: c0
                 :: N.lxor p1 y1 :: N.lxor p0 y0 :: payload')
  = SBadHeaderCrc.
Proof.
  intros w0 Hw Hh Hp Hc0 Hv He.
  pose proof (hd_pl_corruption m1 m0 s1 s0 a3 a2 a1 a0 n3 n2 n1 n0 c1 c0 p1 p0 e2 e3 e4 e5 e6 e7 e8 e9 e10 e11 0 0 y1 y0 payload'
                               Hw Hh Hp Hc0 ltac:(lia) Hv He) as R.
  rewrite !N.lxor_0_r in R. exact R.
Qed.

(* (2) any error confined to the stored header checksum *)
Theorem hd_checksum_error m1 m0 s1 s0 a3 a2 a1 a0 n3 n2 n1 n0 c1 c0 x1 x0 payload' :
  let w0 := 256 * m1 + m0 in
  word_ok w0 = true -> opt_hdcrc ((w0 / 256) mod 16) = true -> opt_plcrc ((w0 / 256) mod 16) = false -> c0 < 256 -> x0 < 256 ->
  crc16arc [m1; m0; s1; s0; a3; a2; a1; a0; n3; n2; n1; n0] = 256 * c1 + c0 ->
  x1 <> 0 \/ x0 <> 0 ->
  spec_classify (m1 :: m0 :: s1 :: s0 :: a3 :: a2 :: a1 :: a0 :: n3 :: n2 :: n1 :: n0 :: N.lxor c1 x1 :: N.lxor c0 x0 :: payload')
  = SBadHeaderCrc.
Proof.
  intros w0 Hw Hh Hp Hc0 Hx0 Hv Hx.
  pose proof (hd_corruption m1 m0 s1 s0 a3 a2 a1 a0 n3 n2 n1 n0 c1 c0 0 0 0 0 0 0 0 0 0 0 x1 x0 payload' Hw Hh Hp Hc0 Hx0 Hv) as R.
  rewrite !N.lxor_0_r in R. apply R.
  change [0; 0; 0; 0; 0; 0; 0; 0; 0; 0; 0; 0] with (repeat 0 12). rewrite crc16arc_zeros. lia.
Qed.

Theorem hd_pl_checksum_error m1 m0 s1 s0 a3 a2 a1 a0 n3 n2 n1 n0 c1 c0 p1 p0 x1 x0 payload' :
  let w0 := 256 * m1 + m0 in
  word_ok w0 = true -> opt_hdcrc ((w0 / 256) mod 16) = true -> opt_plcrc ((w0 / 256) mod 16) = true -> c0 < 256 -> x0 < 256 ->
  crc16arc [m1; m0; s1; s0; a3; a2; a1; a0; n3; n2; n1; n0; p1; p0] = 256 * c1 + c0 ->
  x1 <> 0 \/ x0 <> 0 ->
  spec_classify (m1 :: m0 :: s1 :: s0 :: a3 :: a2 :: a1 :: a0 :: n3 :: n2 :: n1 :: n0 :: N.lxor c1 x1 :: N.lxor c0 x0 :: p1 :: p0 :: payload')
  = SBadHeaderCrc.
Proof.
  intros w0 Hw Hh Hp Hc0 Hx0 Hv Hx.
  pose proof (hd_pl_corruption m1 m0 s1 s0 a3 a2 a1 a0 n3 n2 n1 n0 c1 c0 p1 p0 0 0 0 0 0 0 0 0 0 0 x1 x0 0 0 payload' Hw Hh Hp Hc0 Hx0 Hv) as R.
  rewrite !N.lxor_0_r in R. apply R.
  change [0; 0; 0; 0; 0; 0; 0; 0; 0; 0; 0; 0; 0; 0] with (repeat 0 14). rewrite crc16arc_zeros. lia.
Qed.

(* ---------- (3) bursts across the boundary between the protected fields and the stored checksum ---------- *)
(* three consecutive octets a b c hold a burst of at most 16 bits (least significant bit first): the damage fits two of
   them, or the first is damaged only above some bit s and the third only below it *)
Definition shape3b (a b c : N) : bool :=
  (c =? 0) || (a =? 0) || existsb (fun s => (a mod 2 ^ s =? 0) && (c <? 2 ^ s)) [1; 2; 3; 4; 5; 6; 7].
Definition shape3 (a b c : N) : Prop :=
  c = 0 \/ a = 0 \/ exists s, 1 <= s <= 7 /\ a mod 2 ^ s = 0 /\ c < 2 ^ s.

Lemma shape3_b a b c : shape3 a b c -> shape3b a b c = true.
Proof.
  unfold shape3, shape3b. intros [->|[->|(s & Hs & Ha & Hc)]].
  - reflexivity.
  - rewrite orb_true_r. reflexivity.
  - apply orb_true_iff. right. apply existsb_exists. exists s. split; [cbn; lia|].
    apply andb_true_iff. split; [apply N.eqb_eq; exact Ha|apply N.ltb_lt; exact Hc].
Qed.

Lemma crc_tail11 x : crc16arc [0; 0; 0; 0; 0; 0; 0; 0; 0; 0; 0; x] = step8 x.
Proof.
  change [0; 0; 0; 0; 0; 0; 0; 0; 0; 0; 0; x] with (repeat 0 11 ++ [x])%list.
  unfold crc16arc. rewrite spec_app, crc_zeros_0. apply crc1_eq.
Qed.
Lemma crc_tail11_3 x u v : crc16arc [0; 0; 0; 0; 0; 0; 0; 0; 0; 0; 0; x; u; v] = step8 (N.lxor (step8 (N.lxor (step8 x) u)) v).
Proof.
  change [0; 0; 0; 0; 0; 0; 0; 0; 0; 0; 0; x; u; v] with (repeat 0 11 ++ [x; u; v])%list.
  unfold crc16arc. rewrite spec_app, crc_zeros_0. apply crc3_eq.
Qed.

(* frames without payload-checksum field: the damaged octets are the last block-size octet x and the checksum y z.
   Exactly these damage patterns escape: *)
Definition unseen_bursts : list (N * N * N) :=
  Eval vm_compute in
    filter (fun t => let '(x, y, z) := t in shape3b x y z)
           (map (fun x => (x, step8 x / 256, step8 x mod 256)) (map N.of_nat (seq 1 255))).

Lemma unseen_count : length unseen_bursts = 63%nat.
Proof. reflexivity. Qed.

Definition nopl_boundary_ok (x : N) : bool :=
  let c := step8 x in
  (x =? 0) || Bool.eqb (shape3b x (c / 256) (c mod 256)) (existsb (fun t => let '(a, _, _) := t in a =? x) unseen_bursts)
              && (c <? 65536)
              && forallb (fun t => let '(a, b, d) := t in negb (a =? x) || ((b =? c / 256) && (d =? c mod 256))) unseen_bursts.
Lemma nopl_boundary_sweep : all_from 256 0 nopl_boundary_ok = true.
Proof. vm_cast_no_check (eq_refl true). Qed.

Theorem nopl_boundary_burst x y z : x < 256 -> y < 256 -> z < 256 -> x <> 0 -> shape3 x y z ->
  (crc16arc [0; 0; 0; 0; 0; 0; 0; 0; 0; 0; 0; x] = 256 * y + z <-> In (x, y, z) unseen_bursts).
Proof.
  intros Hx Hy Hz Hn Hs. rewrite crc_tail11.
  pose proof (all_from_spec 256 0 nopl_boundary_ok nopl_boundary_sweep x ltac:(cbn; lia)) as B.
  unfold nopl_boundary_ok in B. cbv zeta in B.
  destruct (N.eqb_spec x 0) as [|_]; [contradiction|]. cbn [orb] in B.
  apply andb_prop in B as [B B3]. apply andb_prop in B as [B1 B2].
  apply N.ltb_lt in B2. apply eqb_prop in B1. rewrite forallb_forall in B3.
  split.
  - intros E. assert (Ey : step8 x / 256 = y) by lia. assert (Ez : step8 x mod 256 = z) by lia.
    rewrite Ey, Ez, (shape3_b _ _ _ Hs) in B1. symmetry in B1. apply existsb_exists in B1 as ([[a b] d] & Hin & Ha).
    apply N.eqb_eq in Ha. subst a. specialize (B3 _ Hin). cbv beta iota in B3. rewrite N.eqb_refl in B3. cbn [negb orb] in B3.
    apply andb_prop in B3 as [Hb Hd]. apply N.eqb_eq in Hb, Hd. rewrite Ey in Hb. rewrite Ez in Hd. subst b d. exact Hin.
  - intros Hin. specialize (B3 _ Hin). cbv beta iota in B3. rewrite N.eqb_refl in B3. cbn [negb orb] in B3.
    apply andb_prop in B3 as [Hb Hd]. apply N.eqb_eq in Hb, Hd. lia.
Qed.

(* frames with payload-checksum field: the header checksum alone does not see every burst across its boundaries either,
   but the block size is cross-checked against the payload and the payload checksum against the payload:
   whatever the header check misses is reported as a payload fault.  First the general shape of the verdict: *)
Theorem hd_pl_corruption_unseen m1 m0 s1 s0 a3 a2 a1 a0 n3 n2 n1 n0 c1 c0 p1 p0
        e2 e3 e4 e5 e6 e7 e8 e9 e10 e11 x1 x0 y1 y0 payload' :
  let w0 := 256 * m1 + m0 in
  word_ok w0 = true -> opt_hdcrc ((w0 / 256) mod 16) = true -> opt_plcrc ((w0 / 256) mod 16) = true ->
  c0 < 256 -> x0 < 256 ->
  crc16arc [m1; m0; s1; s0; a3; a2; a1; a0; n3; n2; n1; n0; p1; p0] = 256 * c1 + c0 ->
  crc16arc [0; 0; e2; e3; e4; e5; e6; e7; e8; e9; e10; e11; y1; y0] = 256 * x1 + x0 ->
  spec_classify (m1 :: m0 :: N.lxor s1 e2 :: N.lxor s0 e3 :: N.lxor a3 e4 :: N.lxor a2 e5 :: N.lxor a1 e6 :: N.lxor a0 e7
                 :: N.lxor n3 e8 :: N.lxor n2 e9 :: N.lxor n1 e10 :: N.lxor n0 e11 :: N.lxor c1 x1 :: N.lxor c0 x0
                 :: N.lxor p1 y1 :: N.lxor p0 y0 :: payload')
  = judge (fields_of w0 (N.lxor s1 e2) (N.lxor s0 e3) (N.lxor a3 e4) (N.lxor a2 e5) (N.lxor a1 e6) (N.lxor a0 e7)
                     (N.lxor n3 e8) (N.lxor n2 e9) (N.lxor n1 e10) (N.lxor n0 e11))
          (256 * N.lxor c1 x1 + N.lxor c0 x0) (256 * N.lxor p1 y1 + N.lxor p0 y0) payload'.
Proof.
  intros w0 Hw Hh Hp Hc0 Hx0 Hvalid Herr.
  rewrite classify_hd_pl by assumption.
  rewrite crc_error14_w, Hvalid, Herr, <- lxor_be16 by assumption. rewrite N.eqb_refl. reflexivity.
Qed.

Definition is_fault (v : sverdict) : Prop :=
  match v with SAccept _ _ _ _ => False | _ => True end.

Lemma lxor_octet a e : a < 256 -> e < 256 -> N.lxor a e < 256.
Proof. intros. apply (fitsN_lxor 8); assumption. Qed.

Lemma lxor_changes a e : e <> 0 -> N.lxor a e <> a.
Proof.
  intros He H. apply He. apply (xor_cancel_neq a). rewrite N.lxor_0_r. exact H.
Qed.

(* a changed block size or a changed payload checksum on an otherwise intact frame that carries payload *)
Lemma judge_fault h h' hd plc plc' payload :
  h_type h' = h_type h -> h_opts h' = h_opts h ->
  h_type h <> 0 -> h_type h <> 15 -> opt_plcrc (h_opts h) = true -> payload <> [] ->
  payload_rule h payload = true -> crc16arc payload = plc ->
  h_bsize h' <> h_bsize h \/ (h_bsize h' = h_bsize h /\ plc' <> plc) ->
  is_fault (judge h' hd plc' payload).
Proof.
  intros Ht Ho Ht0 Ht15 Hpl Hne Hrule Hcrc Hch. unfold judge.
  assert (R : forall b, payload_rule {| h_version := h_version h'; h_type := h_type h; h_opts := h_opts h; h_meta := h_meta h';
                                       h_seq := h_seq h'; h_addr := h_addr h'; h_bsize := b |} payload
                       = payload_rule {| h_version := h_version h; h_type := h_type h; h_opts := h_opts h; h_meta := h_meta h;
                                         h_seq := h_seq h; h_addr := h_addr h; h_bsize := b |} payload) by reflexivity.
  assert (E' : payload_rule h' payload = payload_rule {| h_version := h_version h'; h_type := h_type h; h_opts := h_opts h;
                 h_meta := h_meta h'; h_seq := h_seq h'; h_addr := h_addr h'; h_bsize := h_bsize h' |} payload).
  { destruct h'; cbn in *. subst. reflexivity. }
  assert (E : payload_rule h payload = payload_rule {| h_version := h_version h; h_type := h_type h; h_opts := h_opts h;
                 h_meta := h_meta h; h_seq := h_seq h; h_addr := h_addr h; h_bsize := h_bsize h |} payload).
  { destruct h; reflexivity. }
  destruct Hch as [Hb|[Hb Hc]].
  - (* the size no longer matches *)
    replace (payload_rule h' payload) with false; [exact I|].
    symmetry. rewrite E', R. rewrite E in Hrule. unfold payload_rule in *. cbn [h_opts h_type h_bsize] in *.
    destruct (if opt_w16 (h_opts h) then _ else _) as [u|]; [|reflexivity].
    destruct (h_type h) as [|pt] eqn:Et; [contradiction|].
    assert (Hu : (u =? h_bsize h) = true).
    { revert Hrule. clear - Ht15. destruct pt as [[[[|[]|]|[]|]|[]|]|[]|]; intros; try assumption; try discriminate; contradiction. }
    apply N.eqb_eq in Hu. subst u.
    assert (Hn : (h_bsize h =? h_bsize h') = false) by (apply N.eqb_neq; congruence).
    clear - Ht15 Hn. destruct pt as [[[[|[]|]|[]|]|[]|]|[]|]; try assumption; contradiction.
  - replace (payload_rule h' payload) with true.
    + cbn [negb]. rewrite Ho, Hpl. destruct payload as [|x t]; [contradiction|]. cbn [negb andb].
      rewrite Hcrc. destruct (N.eqb_spec plc plc') as [Eq|_]; [congruence|]. exact I.
    + symmetry. rewrite E', Hb, R, <- E. exact Hrule.
Qed.

(* ---------- (4) two damaged bits: one in the protected fields, one in the stored checksum ---------- *)
Definition single_bit_crcs (len : nat) : list N :=
  flat_map (fun q => map (fun i => crc16arc (repeat 0 q ++ [2 ^ i] ++ repeat 0 (len - 1 - q))%list) [0; 1; 2; 3; 4; 5; 6; 7]) (seq 0 len).
Definition pow2_16 (v : N) : bool := existsb (fun k => v =? 2 ^ k) [0; 1; 2; 3; 4; 5; 6; 7; 8; 9; 10; 11; 12; 13; 14; 15].
Lemma single_bit_never_pow2 : forallb (fun c => negb (pow2_16 c) && negb (c =? 0)) (single_bit_crcs 12 ++ single_bit_crcs 14) = true.
Proof. vm_cast_no_check (eq_refl true). Qed.

Theorem mixed_two_bits len q i k : (len = 12 \/ len = 14)%nat -> (q < len)%nat -> i < 8 -> k < 16 ->
  crc16arc (repeat 0 q ++ [2 ^ i] ++ repeat 0 (len - 1 - q)) <> 2 ^ k.
Proof.
  intros Hl Hq Hi Hk E.
  pose proof single_bit_never_pow2 as S. rewrite forallb_forall in S.
  assert (Hin : In (crc16arc (repeat 0 q ++ [2 ^ i] ++ repeat 0 (len - 1 - q))) (single_bit_crcs 12 ++ single_bit_crcs 14)).
  { apply in_or_app. destruct Hl as [-> | ->]; [left|right]; unfold single_bit_crcs; apply in_flat_map; exists q;
      (split; [apply in_seq; lia|]); apply in_map_iff; exists i; (split; [reflexivity|]);
      assert (C : i = 0 \/ i = 1 \/ i = 2 \/ i = 3 \/ i = 4 \/ i = 5 \/ i = 6 \/ i = 7) by lia;
      repeat (destruct C as [->|C]); try subst i; cbn; auto 10. }
  specialize (S _ Hin). rewrite E in S. apply andb_prop in S as [S _]. apply negb_true_iff in S.
  assert (P : pow2_16 (2 ^ k) = true).
  { unfold pow2_16. apply existsb_exists. exists k. split; [|apply N.eqb_refl].
    assert (C : k = 0 \/ k = 1 \/ k = 2 \/ k = 3 \/ k = 4 \/ k = 5 \/ k = 6 \/ k = 7 \/ k = 8 \/ k = 9 \/ k = 10 \/ k = 11 \/ k = 12
                \/ k = 13 \/ k = 14 \/ k = 15) by lia.
    repeat (destruct C as [->|C]); try subst k; cbn; auto 20. }
  rewrite P in S. discriminate.
Qed.

(* ---------- (5) frames that carry payload: every error behind the first word is reported ---------- *)
Lemma be32_changes n3 n2 n1 n0 e8 e9 e10 e11 :
  n3 < 256 -> n2 < 256 -> n1 < 256 -> n0 < 256 -> e8 < 256 -> e9 < 256 -> e10 < 256 -> e11 < 256 ->
  e8 <> 0 \/ e9 <> 0 \/ e10 <> 0 \/ e11 <> 0 ->
  16777216 * N.lxor n3 e8 + 65536 * N.lxor n2 e9 + 256 * N.lxor n1 e10 + N.lxor n0 e11 <> 16777216 * n3 + 65536 * n2 + 256 * n1 + n0.
Proof.
  intros H3 H2 H1 H0 E8 E9 E10 E11 Hne.
  pose proof (lxor_octet n3 e8 H3 E8). pose proof (lxor_octet n2 e9 H2 E9).
  pose proof (lxor_octet n1 e10 H1 E10). pose proof (lxor_octet n0 e11 H0 E11).
  destruct Hne as [Hn|[Hn|[Hn|Hn]]].
  - pose proof (lxor_changes n3 e8 Hn). lia.
  - pose proof (lxor_changes n2 e9 Hn). lia.
  - pose proof (lxor_changes n1 e10 Hn). lia.
  - pose proof (lxor_changes n0 e11 Hn). lia.
Qed.

Theorem pl_frame_fault m1 m0 s1 s0 a3 a2 a1 a0 n3 n2 n1 n0 c1 c0 p1 p0 payload
        e2 e3 e4 e5 e6 e7 e8 e9 e10 e11 x1 x0 y1 y0 :
  let w0 := 256 * m1 + m0 in
  let h := fields_of w0 s1 s0 a3 a2 a1 a0 n3 n2 n1 n0 in
  word_ok w0 = true -> opt_hdcrc ((w0 / 256) mod 16) = true -> opt_plcrc ((w0 / 256) mod 16) = true ->
  h_type h <> 0 -> h_type h <> 15 ->
  n3 < 256 -> n2 < 256 -> n1 < 256 -> n0 < 256 -> c0 < 256 -> p0 < 256 ->
  e8 < 256 -> e9 < 256 -> e10 < 256 -> e11 < 256 -> x0 < 256 -> y0 < 256 ->
  crc16arc [m1; m0; s1; s0; a3; a2; a1; a0; n3; n2; n1; n0; p1; p0] = 256 * c1 + c0 ->
  payload <> [] -> payload_rule h payload = true -> crc16arc payload = 256 * p1 + p0 ->
  (e8 <> 0 \/ e9 <> 0 \/ e10 <> 0 \/ e11 <> 0) \/ (y1 <> 0 \/ y0 <> 0) \/
  crc16arc [0; 0; e2; e3; e4; e5; e6; e7; e8; e9; e10; e11; y1; y0] <> 256 * x1 + x0 ->
  is_fault (spec_classify (m1 :: m0 :: N.lxor s1 e2 :: N.lxor s0 e3 :: N.lxor a3 e4 :: N.lxor a2 e5 :: N.lxor a1 e6 :: N.lxor a0 e7
                           :: N.lxor n3 e8 :: N.lxor n2 e9 :: N.lxor n1 e10 :: N.lxor n0 e11 :: N.lxor c1 x1 :: N.lxor c0 x0
                           :: N.lxor p1 y1 :: N.lxor p0 y0 :: payload)).
Proof.
  intros w0 h Hw Hh Hp Ht0 Ht15 N3 N2 N1 N0 Hc0 Hp0 E8 E9 E10 E11 Hx0 Hy0 Hvalid Hne Hrule Hcrc Hch.
  destruct (N.eq_dec (crc16arc [0; 0; e2; e3; e4; e5; e6; e7; e8; e9; e10; e11; y1; y0]) (256 * x1 + x0)) as [Eq|Nq].
  - rewrite hd_pl_corruption_unseen by assumption. fold w0.
    apply (judge_fault h _ _ (256 * p1 + p0)); try assumption; try reflexivity.
    destruct (N.eq_dec e8 0) as [Z8|]; [|left; apply be32_changes; auto].
    destruct (N.eq_dec e9 0) as [Z9|]; [|left; apply be32_changes; auto].
    destruct (N.eq_dec e10 0) as [Z10|]; [|left; apply be32_changes; auto].
    destruct (N.eq_dec e11 0) as [Z11|]; [|left; apply be32_changes; auto].
    right. subst e8 e9 e10 e11. split; [cbn [fields_of h_bsize]; rewrite !N.lxor_0_r; reflexivity|].
    destruct Hch as [Hc|[Hc|Hc]]; [lia| |contradiction].
    rewrite <- lxor_be16 by assumption. apply lxor_changes. lia.
  - rewrite hd_pl_corruption by assumption. exact I.
Qed.

(* (6) damaged payload octets *)
Lemma payload_rule_length h a b : length a = length b -> payload_rule h a = payload_rule h b.
Proof. intros H. unfold payload_rule. rewrite H. reflexivity. Qed.

Theorem payload_error m1 m0 s1 s0 a3 a2 a1 a0 n3 n2 n1 n0 c1 c0 p1 p0 payload ep :
  let w0 := 256 * m1 + m0 in
  let h := fields_of w0 s1 s0 a3 a2 a1 a0 n3 n2 n1 n0 in
  word_ok w0 = true -> opt_hdcrc ((w0 / 256) mod 16) = true -> opt_plcrc ((w0 / 256) mod 16) = true ->
  crc16arc [m1; m0; s1; s0; a3; a2; a1; a0; n3; n2; n1; n0; p1; p0] = 256 * c1 + c0 ->
  payload <> [] -> payload_rule h payload = true -> crc16arc payload = 256 * p1 + p0 ->
  length ep = length payload -> crc16arc ep <> 0 ->
  spec_classify (m1 :: m0 :: s1 :: s0 :: a3 :: a2 :: a1 :: a0 :: n3 :: n2 :: n1 :: n0 :: c1 :: c0 :: p1 :: p0 :: lxor_list payload ep)
  = SBadPayloadCrc h (lxor_list payload ep).
Proof.
  intros w0 h Hw Hh Hp Hvalid Hne Hrule Hcrc Hlen Hep.
  rewrite classify_hd_pl by assumption. rewrite Hvalid, N.eqb_refl. fold w0. fold h.
  unfold judge.
  assert (Hl : length (lxor_list payload ep) = length payload) by (apply lxor_list_length; symmetry; exact Hlen).
  rewrite (payload_rule_length h _ payload Hl), Hrule. cbn [negb].
  change (h_opts h) with ((w0 / 256) mod 16). rewrite Hp.
  destruct (lxor_list payload ep) as [|x t] eqn:El; [destruct payload; [contradiction|discriminate]|].
  rewrite <- El. cbn [negb andb].
  unfold crc16arc in *. rewrite crc_error by (symmetry; exact Hlen). rewrite Hcrc.
  destruct (N.eqb_spec (N.lxor (256 * p1 + p0) (spec_crc 0 ep)) (256 * p1 + p0)) as [E|_]; [|reflexivity].
  exfalso. apply Hep. apply (xor_cancel_neq (256 * p1 + p0)). rewrite N.lxor_0_r. exact E.
Qed.

(* ---------- the finding: a burst the receiver cannot see ---------- *)
(* read request, 8-bit semantics, sequence 0x1234, address 0x40, block size 5; the burst covers bits 2..3 of octet 11 and
   bits 0 and 2 of octet 12 (9 bits in transmission order): block size 9 instead of 5, accepted *)
Definition witness_frame : list N := [2; 0; 18; 52; 0; 0; 0; 64; 0; 0; 0; 5; 149; 254].
Definition witness_error : list N := [0; 0; 0; 0; 0; 0; 0; 0; 0; 0; 0; 12; 5; 0].

Theorem burst_unseen_witness :
  (exists h c, spec_classify witness_frame = SAccept h c 0 [] /\ h_type h = 0 /\ h_bsize h = 5) /\
  burst16 witness_error /\
  (exists h c, spec_classify (lxor_list witness_frame witness_error) = SAccept h c 0 [] /\ h_type h = 0 /\ h_bsize h = 9).
Proof.
  split; [|split].
  - eexists. eexists. split; [vm_compute; reflexivity|split; reflexivity].
  - exists 11%nat, [12; 5], 1%nat. repeat split.
    + repeat constructor.
    + exists 12. split; [left; reflexivity|discriminate].
    + left. cbn. lia.
  - eexists. eexists. split; [vm_compute; reflexivity|split; reflexivity].
Qed.

(* ---------- (7) frames without payload whose block size is cross-checked ---------- *)
Lemma judge_size_fault h h' hd plc payload :
  h_type h' = h_type h -> h_opts h' = h_opts h -> h_type h <> 0 -> h_type h <> 15 ->
  payload_rule h payload = true -> h_bsize h' <> h_bsize h ->
  is_fault (judge h' hd plc payload).
Proof.
  intros Ht Ho Ht0 Ht15 Hrule Hb. unfold judge.
  replace (payload_rule h' payload) with false; [exact I|].
  symmetry. unfold payload_rule in *. rewrite Ht, Ho.
  destruct (if opt_w16 (h_opts h) then _ else _) as [u|]; [|reflexivity].
  destruct (h_type h) as [|pt] eqn:Et; [contradiction|].
  assert (Hu : (u =? h_bsize h) = true).
  { revert Hrule. clear - Ht15. destruct pt as [[[[|[]|]|[]|]|[]|]|[]|]; intros; try assumption; try discriminate; contradiction. }
  apply N.eqb_eq in Hu. subst u.
  assert (Hn : (h_bsize h =? h_bsize h') = false) by (apply N.eqb_neq; congruence).
  clear - Ht15 Hn. destruct pt as [[[[|[]|]|[]|]|[]|]|[]|]; try assumption; contradiction.
Qed.

Theorem nopl_frame_fault m1 m0 s1 s0 a3 a2 a1 a0 n3 n2 n1 n0 c1 c0 payload
        e2 e3 e4 e5 e6 e7 e8 e9 e10 e11 x1 x0 :
  let w0 := 256 * m1 + m0 in
  let h := fields_of w0 s1 s0 a3 a2 a1 a0 n3 n2 n1 n0 in
  word_ok w0 = true -> opt_hdcrc ((w0 / 256) mod 16) = true -> opt_plcrc ((w0 / 256) mod 16) = false ->
  h_type h <> 0 -> h_type h <> 15 ->
  n3 < 256 -> n2 < 256 -> n1 < 256 -> n0 < 256 -> c0 < 256 ->
  e8 < 256 -> e9 < 256 -> e10 < 256 -> e11 < 256 -> x0 < 256 ->
  crc16arc [m1; m0; s1; s0; a3; a2; a1; a0; n3; n2; n1; n0] = 256 * c1 + c0 ->
  payload_rule h payload = true ->
  (e8 <> 0 \/ e9 <> 0 \/ e10 <> 0 \/ e11 <> 0) \/ crc16arc [0; 0; e2; e3; e4; e5; e6; e7; e8; e9; e10; e11] <> 256 * x1 + x0 ->
  is_fault (spec_classify (m1 :: m0 :: N.lxor s1 e2 :: N.lxor s0 e3 :: N.lxor a3 e4 :: N.lxor a2 e5 :: N.lxor a1 e6 :: N.lxor a0 e7
                           :: N.lxor n3 e8 :: N.lxor n2 e9 :: N.lxor n1 e10 :: N.lxor n0 e11 :: N.lxor c1 x1 :: N.lxor c0 x0 :: payload)).
Proof.
  intros w0 h Hw Hh Hp Ht0 Ht15 N3 N2 N1 N0 Hc0 E8 E9 E10 E11 Hx0 Hvalid Hrule Hch.
  destruct (N.eq_dec (crc16arc [0; 0; e2; e3; e4; e5; e6; e7; e8; e9; e10; e11]) (256 * x1 + x0)) as [Eq|Nq].
  - rewrite hd_corruption_unseen by assumption. fold w0.
    apply (judge_size_fault h); try assumption; try reflexivity.
    destruct Hch as [Hc|Hc]; [|contradiction]. apply be32_changes; assumption.
  - rewrite hd_corruption by assumption. exact I.
Qed.

(* ---------- (8) a single damaged bit in the first header word ---------- *)
Lemma word_nibbles m1 m0 : m1 < 256 -> m0 < 256 ->
  let w0 := 256 * m1 + m0 in
  w0 mod 16 = m0 mod 16 /\ (w0 / 16) mod 16 = m0 / 16 /\ (w0 / 256) mod 16 = m1 mod 16 /\ (w0 / 4096) mod 16 = m1 / 16.
Proof. intros H1 H0 w0. subst w0. repeat split; lia. Qed.

Lemma rule_two_more h h' a b payload :
  h_type h' = h_type h -> h_bsize h' = h_bsize h -> opt_w16 (h_opts h') = opt_w16 (h_opts h) ->
  payload_rule h payload = true -> payload_rule h' (a :: b :: payload) = false.
Proof.
  intros Ht Hb Hw Hrule. unfold payload_rule in *. rewrite Ht, Hb, Hw. cbn [length].
  set (len := N.of_nat (length payload)) in *.
  replace (N.of_nat (S (S (length payload)))) with (len + 2) by lia.
  assert (Hev : N.even (len + 2) = N.even len) by (rewrite N.even_add; destruct (N.even len); reflexivity).
  destruct (opt_w16 (h_opts h)).
  - rewrite Hev. destruct (N.even len) eqn:Ee; [|discriminate].
    assert (Hd : (len + 2) / 2 = len / 2 + 1).
    { apply N.even_spec in Ee as [k Hk]. rewrite Hk. replace (2 * k + 2) with (2 * (k + 1)) by lia.
      rewrite !(N.mul_comm 2), !N.div_mul by discriminate. reflexivity. }
    rewrite Hd. set (u := len / 2) in *.
    destruct (h_type h) as [|pt]; [apply N.eqb_eq in Hrule; apply N.eqb_neq; lia|].
    destruct pt as [[[[|[]|]|[]|]|[]|]|[]|]; apply N.eqb_eq in Hrule; apply N.eqb_neq; lia.
  - destruct (h_type h) as [|pt]; [apply N.eqb_eq in Hrule; apply N.eqb_neq; lia|].
    destruct pt as [[[[|[]|]|[]|]|[]|]|[]|]; apply N.eqb_eq in Hrule; apply N.eqb_neq; lia.
Qed.

Definition flip_facts (m1 : N) : bool :=
  forallb (fun d => let m' := N.lxor m1 d in
             (m' <? 256) && Bool.eqb (opt_hdcrc (m' mod 16)) (opt_hdcrc (m1 mod 16)) && Bool.eqb (opt_plcrc (m' mod 16)) (opt_plcrc (m1 mod 16)))
          [1; 8; 16; 32; 64; 128]
  && (let m' := N.lxor m1 2 in
      (m' <? 256) && Bool.eqb (opt_hdcrc (m' mod 16)) (negb (opt_hdcrc (m1 mod 16))) && Bool.eqb (opt_plcrc (m' mod 16)) (opt_plcrc (m1 mod 16))
      && Bool.eqb (opt_w16 (m' mod 16)) (opt_w16 (m1 mod 16)) && Bool.eqb (opt_reserved (m' mod 16)) (opt_reserved (m1 mod 16))
      && (m' / 16 =? m1 / 16))
  && (let m' := N.lxor m1 4 in
      (m' <? 256) && Bool.eqb (opt_hdcrc (m' mod 16)) (opt_hdcrc (m1 mod 16)) && Bool.eqb (opt_plcrc (m' mod 16)) (negb (opt_plcrc (m1 mod 16)))
      && Bool.eqb (opt_w16 (m' mod 16)) (opt_w16 (m1 mod 16)) && Bool.eqb (opt_reserved (m' mod 16)) (opt_reserved (m1 mod 16))
      && (m' / 16 =? m1 / 16)).
Lemma flip_facts_sweep : all_from 256 0 flip_facts = true.
Proof. vm_cast_no_check (eq_refl true). Qed.

Lemma classify_pl_only m1 m0 s1 s0 a3 a2 a1 a0 n3 n2 n1 n0 p1 p0 payload :
  let w0 := 256 * m1 + m0 in
  word_ok w0 = true -> opt_hdcrc ((w0 / 256) mod 16) = false -> opt_plcrc ((w0 / 256) mod 16) = true ->
  spec_classify (m1 :: m0 :: s1 :: s0 :: a3 :: a2 :: a1 :: a0 :: n3 :: n2 :: n1 :: n0 :: p1 :: p0 :: payload)
  = judge (fields_of w0 s1 s0 a3 a2 a1 a0 n3 n2 n1 n0) 0 (256 * p1 + p0) payload.
Proof.
  intros w0 Hw Hh Hp. unfold spec_classify. cbv zeta. cbn [h_version h_type h_opts h_meta]. fold w0.
  unfold word_ok in Hw. apply andb_prop in Hw as [Hw Hw3]. apply andb_prop in Hw as [Hw1 Hw2].
  rewrite Hw1, Hw3, Hh, Hp. apply negb_true_iff in Hw2. rewrite Hw2. cbn [negb orb]. reflexivity.
Qed.
Lemma classify_none m1 m0 s1 s0 a3 a2 a1 a0 n3 n2 n1 n0 payload :
  let w0 := 256 * m1 + m0 in
  word_ok w0 = true -> opt_hdcrc ((w0 / 256) mod 16) = false -> opt_plcrc ((w0 / 256) mod 16) = false ->
  spec_classify (m1 :: m0 :: s1 :: s0 :: a3 :: a2 :: a1 :: a0 :: n3 :: n2 :: n1 :: n0 :: payload)
  = judge (fields_of w0 s1 s0 a3 a2 a1 a0 n3 n2 n1 n0) 0 0 payload.
Proof.
  intros w0 Hw Hh Hp. unfold spec_classify. cbv zeta. cbn [h_version h_type h_opts h_meta]. fold w0.
  unfold word_ok in Hw. apply andb_prop in Hw as [Hw Hw3]. apply andb_prop in Hw as [Hw1 Hw2].
  rewrite Hw1, Hw3, Hh, Hp. apply negb_true_iff in Hw2. rewrite Hw2. cbn [negb orb]. reflexivity.
Qed.
Lemma classify_short m1 m0 s1 s0 a3 a2 a1 a0 n3 n2 n1 n0 c1 c0 :
  let w0 := 256 * m1 + m0 in
  opt_hdcrc ((w0 / 256) mod 16) = true -> opt_plcrc ((w0 / 256) mod 16) = true ->
  spec_classify [m1; m0; s1; s0; a3; a2; a1; a0; n3; n2; n1; n0; c1; c0] = SBadHeader.
Proof.
  intros w0 Hh Hp. unfold spec_classify. cbv zeta. cbn [h_version h_type h_opts h_meta]. fold w0.
  rewrite Hh, Hp. destruct (_ || _ || _); reflexivity.
Qed.

(* the damaged first word: octet 0 altered by d1, octet 1 by d0 *)
Definition single_bit (d1 d0 : N) : Prop :=
  (d0 = 0 /\ In d1 [1; 2; 4; 8; 16; 32; 64; 128]) \/ (d1 = 0 /\ In d0 [1; 2; 4; 8; 16; 32; 64; 128]).

Lemma first_word_error_crc d1 d0 n : single_bit d1 d0 -> crc16arc (d1 :: d0 :: repeat 0 n) <> 0.
Proof.
  intros H. apply (burst_detected (d1 :: d0 :: repeat 0 n)).
  exists 0%nat, [d1; d0], n. split; [reflexivity|].
  assert (O : d1 < 256 /\ d0 < 256 /\ (d1 <> 0 \/ d0 <> 0)).
  { destruct H as [[-> H]|[-> H]]; cbn in H; repeat (destruct H as [<-|H]; [lia|]); destruct H. }
  destruct O as (O1 & O0 & On). split; [repeat constructor; assumption|]. split.
  - destruct On; [exists d1|exists d0]; cbn; auto.
  - left. cbn. lia.
Qed.

(* (8a) the damaged bit is neither of the two checksum option bits: the header is malformed or its checksum fails *)
Theorem first_word_other_bits m1 m0 s1 s0 a3 a2 a1 a0 n3 n2 n1 n0 c1 c0 rest d1 d0 :
  m1 < 256 -> m0 < 256 -> c0 < 256 -> single_bit d1 d0 -> d1 <> 2 -> d1 <> 4 ->
  let w0 := 256 * m1 + m0 in
  opt_hdcrc ((w0 / 256) mod 16) = true ->
  (if opt_plcrc ((w0 / 256) mod 16)
   then exists p1 p0 payload, rest = p1 :: p0 :: payload /\
          crc16arc [m1; m0; s1; s0; a3; a2; a1; a0; n3; n2; n1; n0; p1; p0] = 256 * c1 + c0
   else crc16arc [m1; m0; s1; s0; a3; a2; a1; a0; n3; n2; n1; n0] = 256 * c1 + c0) ->
  is_fault (spec_classify (N.lxor m1 d1 :: N.lxor m0 d0 :: s1 :: s0 :: a3 :: a2 :: a1 :: a0 :: n3 :: n2 :: n1 :: n0 :: c1 :: c0 :: rest)).
Proof.
  intros H1 H0 Hc0 Hs Hd2 Hd4 w0 Hh Hv.
  pose proof (all_from_spec 256 0 flip_facts flip_facts_sweep m1 ltac:(cbn; lia)) as F. unfold flip_facts in F.
  apply andb_prop in F as [F _]. apply andb_prop in F as [F _]. rewrite forallb_forall in F.
  assert (Hm' : N.lxor m1 d1 < 256 /\ N.lxor m0 d0 < 256 /\
                opt_hdcrc (N.lxor m1 d1 mod 16) = opt_hdcrc (m1 mod 16) /\ opt_plcrc (N.lxor m1 d1 mod 16) = opt_plcrc (m1 mod 16)).
  { destruct Hs as [[-> Hin]|[-> Hin]].
    - assert (Hin' : In d1 [1; 8; 16; 32; 64; 128]) by (cbn in *; intuition congruence).
      specialize (F _ Hin'). cbv zeta in F. apply andb_prop in F as [F F3]. apply andb_prop in F as [F1 F2].
      apply N.ltb_lt in F1. apply eqb_prop in F2, F3. rewrite N.lxor_0_r. auto.
    - rewrite N.lxor_0_r. repeat split; auto. apply lxor_octet; [exact H0|]. cbn in Hin; repeat (destruct Hin as [<-|Hin]; [lia|]); destruct Hin. }
  destruct Hm' as (M1 & M0 & Eh & Ep).
  destruct (word_nibbles m1 m0 H1 H0) as (_ & _ & Wo & _). fold w0 in Wo.
  destruct (word_nibbles _ _ M1 M0) as (_ & _ & Wo' & _).
  set (w0' := 256 * N.lxor m1 d1 + N.lxor m0 d0) in *.
  assert (Hh' : opt_hdcrc ((w0' / 256) mod 16) = true) by (rewrite Wo', Eh, <- Wo; exact Hh).
  assert (Hp' : opt_plcrc ((w0' / 256) mod 16) = opt_plcrc ((w0 / 256) mod 16)) by (rewrite Wo', Ep, <- Wo; reflexivity).
  destruct (word_ok w0') eqn:Hok; [|rewrite classify_bad_word by exact Hok; exact I].
  destruct (opt_plcrc ((w0 / 256) mod 16)) eqn:Hp.
  - destruct Hv as (p1 & p0 & payload & -> & Hv).
    rewrite classify_hd_pl by assumption.
    pose proof (crc_error14 m1 m0 s1 s0 a3 a2 a1 a0 n3 n2 n1 n0 p1 p0 d1 d0 0 0 0 0 0 0 0 0 0 0 0 0) as L.
    rewrite !N.lxor_0_r in L. rewrite L, Hv.
    pose proof (first_word_error_crc d1 d0 12 Hs) as Hne. cbn [repeat] in Hne.
    match goal with |- is_fault (if ?a =? ?b then _ else _) => destruct (N.eqb_spec a b) as [E|_]; [|exact I] end.
    exfalso. apply Hne. apply (xor_cancel_neq (256 * c1 + c0)). rewrite N.lxor_0_r. exact E.
  - rewrite classify_hd by assumption.
    pose proof (crc_error12 m1 m0 s1 s0 a3 a2 a1 a0 n3 n2 n1 n0 d1 d0 0 0 0 0 0 0 0 0 0 0) as L.
    rewrite !N.lxor_0_r in L. rewrite L, Hv.
    pose proof (first_word_error_crc d1 d0 10 Hs) as Hne. cbn [repeat] in Hne.
    match goal with |- is_fault (if ?a =? ?b then _ else _) => destruct (N.eqb_spec a b) as [E|_]; [|exact I] end.
    exfalso. apply Hne. apply (xor_cancel_neq (256 * c1 + c0)). rewrite N.lxor_0_r. exact E.
Qed.

Lemma flip_2_facts m1 : m1 < 256 ->
  let m' := N.lxor m1 2 in
  m' < 256 /\ opt_hdcrc (m' mod 16) = negb (opt_hdcrc (m1 mod 16)) /\ opt_plcrc (m' mod 16) = opt_plcrc (m1 mod 16) /\
  opt_w16 (m' mod 16) = opt_w16 (m1 mod 16) /\ opt_reserved (m' mod 16) = opt_reserved (m1 mod 16) /\ m' / 16 = m1 / 16.
Proof.
  intros H1 m'. pose proof (all_from_spec 256 0 flip_facts flip_facts_sweep m1 ltac:(cbn; lia)) as F. unfold flip_facts in F.
  apply andb_prop in F as [F _]. apply andb_prop in F as [_ F]. cbv zeta in F. fold m' in F.
  repeat (apply andb_prop in F as [F ?]).
  repeat match goal with H : Bool.eqb _ _ = true |- _ => apply eqb_prop in H end.
  apply N.ltb_lt in F. repeat split; try assumption. apply N.eqb_eq. assumption.
Qed.
Lemma flip_4_facts m1 : m1 < 256 ->
  let m' := N.lxor m1 4 in
  m' < 256 /\ opt_hdcrc (m' mod 16) = opt_hdcrc (m1 mod 16) /\ opt_plcrc (m' mod 16) = negb (opt_plcrc (m1 mod 16)) /\
  opt_w16 (m' mod 16) = opt_w16 (m1 mod 16) /\ opt_reserved (m' mod 16) = opt_reserved (m1 mod 16) /\ m' / 16 = m1 / 16.
Proof.
  intros H1 m'. pose proof (all_from_spec 256 0 flip_facts flip_facts_sweep m1 ltac:(cbn; lia)) as F. unfold flip_facts in F.
  apply andb_prop in F as [_ F]. cbv zeta in F. fold m' in F.
  repeat (apply andb_prop in F as [F ?]).
  repeat match goal with H : Bool.eqb _ _ = true |- _ => apply eqb_prop in H end.
  apply N.ltb_lt in F. repeat split; try assumption. apply N.eqb_eq. assumption.
Qed.

Lemma word_ok_same m1 m1' m0 : m1 < 256 -> m1' < 256 -> m0 < 256 ->
  opt_reserved (m1' mod 16) = opt_reserved (m1 mod 16) -> m1' / 16 = m1 / 16 ->
  word_ok (256 * m1' + m0) = word_ok (256 * m1 + m0).
Proof.
  intros H1 H1' H0 Hr Hm.
  destruct (word_nibbles m1 m0 H1 H0) as (A1 & A2 & A3 & A4). destruct (word_nibbles m1' m0 H1' H0) as (B1 & B2 & B3 & B4).
  unfold word_ok. rewrite A1, A2, A3, A4, B1, B2, B3, B4, Hr, Hm. reflexivity.
Qed.

Lemma judge_two_more h h' hd plc a b payload :
  h_type h' = h_type h -> h_bsize h' = h_bsize h -> opt_w16 (h_opts h') = opt_w16 (h_opts h) ->
  payload_rule h payload = true -> is_fault (judge h' hd plc (a :: b :: payload)).
Proof. intros Ht Hb Hw Hr. unfold judge. rewrite (rule_two_more h h' a b payload Ht Hb Hw Hr). exact I. Qed.

(* (8b) the header-checksum option bit is damaged: the two checksum octets are taken for payload *)
Theorem first_word_hdcrc_bit m1 m0 s1 s0 a3 a2 a1 a0 n3 n2 n1 n0 c1 c0 rest :
  m1 < 256 -> m0 < 256 ->
  let w0 := 256 * m1 + m0 in
  let h := fields_of w0 s1 s0 a3 a2 a1 a0 n3 n2 n1 n0 in
  word_ok w0 = true -> opt_hdcrc ((w0 / 256) mod 16) = true ->
  (if opt_plcrc ((w0 / 256) mod 16)
   then exists p1 p0 payload, rest = p1 :: p0 :: payload /\ payload_rule h payload = true
   else payload_rule h rest = true) ->
  is_fault (spec_classify (N.lxor m1 2 :: m0 :: s1 :: s0 :: a3 :: a2 :: a1 :: a0 :: n3 :: n2 :: n1 :: n0 :: c1 :: c0 :: rest)).
Proof.
  intros H1 H0 w0 h Hw Hh Hv.
  destruct (flip_2_facts m1 H1) as (M1 & Eh & Ep & Ew & Er & Em).
  destruct (word_nibbles m1 m0 H1 H0) as (A1 & A2 & A3 & A4). fold w0 in A1, A2, A3, A4.
  destruct (word_nibbles _ m0 M1 H0) as (B1 & B2 & B3 & B4).
  set (w0' := 256 * N.lxor m1 2 + m0) in *.
  assert (Hw' : word_ok w0' = true) by (unfold w0'; rewrite (word_ok_same m1 _ m0 H1 M1 H0 Er Em); exact Hw).
  assert (Hh' : opt_hdcrc ((w0' / 256) mod 16) = false) by (rewrite B3, Eh, <- A3, Hh; reflexivity).
  assert (Hp' : opt_plcrc ((w0' / 256) mod 16) = opt_plcrc ((w0 / 256) mod 16)) by (rewrite B3, Ep, <- A3; reflexivity).
  set (h' := fields_of w0' s1 s0 a3 a2 a1 a0 n3 n2 n1 n0).
  assert (T : h_type h' = h_type h) by (cbn [h' h fields_of h_type]; rewrite A2, B2; reflexivity).
  assert (W : opt_w16 (h_opts h') = opt_w16 (h_opts h)) by (cbn [h' h fields_of h_opts]; rewrite A3, B3; exact Ew).
  destruct (opt_plcrc ((w0 / 256) mod 16)) eqn:Hp.
  - destruct Hv as (p1 & p0 & payload & -> & Hr).
    rewrite classify_pl_only by assumption. fold w0'. fold h'.
    apply (judge_two_more h); try assumption. reflexivity.
  - rewrite classify_none by assumption. fold w0'. fold h'.
    apply (judge_two_more h); try assumption. reflexivity.
Qed.

(* (8c) the payload-checksum option bit is damaged *)
Theorem first_word_plcrc_bit m1 m0 s1 s0 a3 a2 a1 a0 n3 n2 n1 n0 c1 c0 rest :
  m1 < 256 -> m0 < 256 ->
  let w0 := 256 * m1 + m0 in
  let h := fields_of w0 s1 s0 a3 a2 a1 a0 n3 n2 n1 n0 in
  word_ok w0 = true -> opt_hdcrc ((w0 / 256) mod 16) = true ->
  (if opt_plcrc ((w0 / 256) mod 16)
   then exists p1 p0 payload, rest = p1 :: p0 :: payload /\ payload_rule h payload = true
   else rest = []) ->
  is_fault (spec_classify (N.lxor m1 4 :: m0 :: s1 :: s0 :: a3 :: a2 :: a1 :: a0 :: n3 :: n2 :: n1 :: n0 :: c1 :: c0 :: rest)).
Proof.
  intros H1 H0 w0 h Hw Hh Hv.
  destruct (flip_4_facts m1 H1) as (M1 & Eh & Ep & Ew & Er & Em).
  destruct (word_nibbles m1 m0 H1 H0) as (A1 & A2 & A3 & A4). fold w0 in A1, A2, A3, A4.
  destruct (word_nibbles _ m0 M1 H0) as (B1 & B2 & B3 & B4).
  set (w0' := 256 * N.lxor m1 4 + m0) in *.
  assert (Hw' : word_ok w0' = true) by (unfold w0'; rewrite (word_ok_same m1 _ m0 H1 M1 H0 Er Em); exact Hw).
  assert (Hh' : opt_hdcrc ((w0' / 256) mod 16) = true) by (rewrite B3, Eh, <- A3; exact Hh).
  assert (Hp' : opt_plcrc ((w0' / 256) mod 16) = negb (opt_plcrc ((w0 / 256) mod 16))) by (rewrite B3, Ep, <- A3; reflexivity).
  set (h' := fields_of w0' s1 s0 a3 a2 a1 a0 n3 n2 n1 n0).
  assert (T : h_type h' = h_type h) by (cbn [h' h fields_of h_type]; rewrite A2, B2; reflexivity).
  assert (W : opt_w16 (h_opts h') = opt_w16 (h_opts h)) by (cbn [h' h fields_of h_opts]; rewrite A3, B3; exact Ew).
  destruct (opt_plcrc ((w0 / 256) mod 16)) eqn:Hp; cbn [negb] in Hp'.
  - destruct Hv as (p1 & p0 & payload & -> & Hr).
    rewrite classify_hd by assumption. fold w0'. fold h'.
    destruct (_ =? _); [|exact I].
    apply (judge_two_more h); try assumption. reflexivity.
  - subst rest. rewrite classify_short by assumption. exact I.
Qed.

(* ---------- (9) truncated and extended frames ---------- *)
Lemma rule_other_length h a b : payload_rule h a = true -> length a <> length b -> payload_rule h b = false.
Proof.
  intros Hr Hl. unfold payload_rule in *.
  set (la := N.of_nat (length a)) in *. set (lb := N.of_nat (length b)).
  assert (Hne : la <> lb) by (subst la lb; lia).
  destruct (opt_w16 (h_opts h)).
  - destruct (N.even la) eqn:Ea; [|discriminate]. destruct (N.even lb) eqn:Eb; [|reflexivity].
    apply N.even_spec in Ea as [ka Ha]. apply N.even_spec in Eb as [kb Hb].
    assert (Da : la / 2 = ka) by (rewrite Ha, N.mul_comm, N.div_mul by discriminate; reflexivity).
    assert (Db : lb / 2 = kb) by (rewrite Hb, N.mul_comm, N.div_mul by discriminate; reflexivity).
    rewrite Da in Hr. rewrite Db.
    destruct (h_type h) as [|pt]; [apply N.eqb_eq in Hr; apply N.eqb_neq; lia|].
    destruct pt as [[[[|[]|]|[]|]|[]|]|[]|]; apply N.eqb_eq in Hr; apply N.eqb_neq; lia.
  - destruct (h_type h) as [|pt]; [apply N.eqb_eq in Hr; apply N.eqb_neq; lia|].
    destruct pt as [[[[|[]|]|[]|]|[]|]|[]|]; apply N.eqb_eq in Hr; apply N.eqb_neq; lia.
Qed.

(* the header is intact and checks; the payload has another length *)
Theorem resized_payload_hd m1 m0 s1 s0 a3 a2 a1 a0 n3 n2 n1 n0 c1 c0 payload payload' :
  let w0 := 256 * m1 + m0 in
  let h := fields_of w0 s1 s0 a3 a2 a1 a0 n3 n2 n1 n0 in
  word_ok w0 = true -> opt_hdcrc ((w0 / 256) mod 16) = true -> opt_plcrc ((w0 / 256) mod 16) = false ->
  crc16arc [m1; m0; s1; s0; a3; a2; a1; a0; n3; n2; n1; n0] = 256 * c1 + c0 ->
  payload_rule h payload = true -> length payload <> length payload' ->
  spec_classify (m1 :: m0 :: s1 :: s0 :: a3 :: a2 :: a1 :: a0 :: n3 :: n2 :: n1 :: n0 :: c1 :: c0 :: payload') = SBadSize h payload'.
Proof.
  intros w0 h Hw Hh Hp Hv Hr Hl. rewrite classify_hd by assumption. rewrite Hv, N.eqb_refl. fold w0. fold h.
  unfold judge. rewrite (rule_other_length h payload payload' Hr Hl). reflexivity.
Qed.
Theorem resized_payload_hd_pl m1 m0 s1 s0 a3 a2 a1 a0 n3 n2 n1 n0 c1 c0 p1 p0 payload payload' :
  let w0 := 256 * m1 + m0 in
  let h := fields_of w0 s1 s0 a3 a2 a1 a0 n3 n2 n1 n0 in
  word_ok w0 = true -> opt_hdcrc ((w0 / 256) mod 16) = true -> opt_plcrc ((w0 / 256) mod 16) = true ->
  crc16arc [m1; m0; s1; s0; a3; a2; a1; a0; n3; n2; n1; n0; p1; p0] = 256 * c1 + c0 ->
  payload_rule h payload = true -> length payload <> length payload' ->
  spec_classify (m1 :: m0 :: s1 :: s0 :: a3 :: a2 :: a1 :: a0 :: n3 :: n2 :: n1 :: n0 :: c1 :: c0 :: p1 :: p0 :: payload') = SBadSize h payload'.
Proof.
  intros w0 h Hw Hh Hp Hv Hr Hl. rewrite classify_hd_pl by assumption. rewrite Hv, N.eqb_refl. fold w0. fold h.
  unfold judge. rewrite (rule_other_length h payload payload' Hr Hl). reflexivity.
Qed.

(* cut inside the header it announces *)
Theorem truncated_header raw :
  (length raw < 12)%nat \/
  (exists m1 m0 t, raw = m1 :: m0 :: t /\ opt_hdcrc (((256 * m1 + m0) / 256) mod 16) = true /\
     ((length raw < 14)%nat \/ (opt_plcrc (((256 * m1 + m0) / 256) mod 16) = true /\ (length raw < 16)%nat))) ->
  spec_classify raw = SBadHeader.
Proof.
  intros H.
  destruct raw as [|m1 [|m0 [|s1 [|s0 [|a3 [|a2 [|a1 [|a0 [|n3 [|n2 [|n1 [|n0 rest]]]]]]]]]]]]; try reflexivity.
  destruct H as [H|(x1 & x0 & t & E & Hh & Hl)]; [cbn in H; lia|].
  injection E as <- <- _. unfold spec_classify. cbv zeta. cbn [h_version h_type h_opts h_meta]. rewrite Hh.
  destruct (_ || _ || _); [reflexivity|].
  destruct Hl as [Hl|[Hp Hl]].
  - destruct rest as [|c1 [|c0 r]]; cbn in Hl; try lia; destruct (opt_plcrc _); reflexivity.
  - rewrite Hp. destruct rest as [|c1 [|c0 [|p1 [|p0 r]]]]; cbn in Hl; try lia; reflexivity.
Qed.
