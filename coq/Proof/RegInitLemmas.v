(* register_init (C04): the checks of the area and entry lists against their declarative reading, the first-error
   precedence, and what a successful initialisation means. *)
From Ufw Require Import Base.Bits Model.RegTable Proof.ListLemmas Proof.RegLemmas.
From Coq Require Import Lia Bool ZifyN ZifyBool ZifyNat.
Local Open Scope N_scope.
Local Open Scope bool_scope.

(* ---- a list is well ordered when every element starts at or behind the end of its predecessor ---- *)
Fixpoint chain {A} (start len : A -> N) (prev : A) (r : list A) : Prop :=
  match r with
  | [] => True
  | a :: r' => start prev + len prev <= start a /\ chain start len a r'
  end.

(* position (from 0) of the first element that violates the chain, with its predecessor *)
Fixpoint first_break {A} (start len : A -> N) (prev : A) (r : list A) : option (nat * A * A) :=
  match r with
  | [] => None
  | a :: r' => if start a <? start prev + len prev then Some (O, prev, a)
               else match first_break start len a r' with Some (k, p, x) => Some (S k, p, x) | None => None end
  end.

Lemma first_break_none {A} (start len : A -> N) : forall r prev, first_break start len prev r = None <-> chain start len prev r.
Proof.
  induction r as [|a r IH]; intros prev; cbn [first_break chain]; [tauto|].
  destruct (N.ltb_spec (start a) (start prev + len prev)).
  - split; [discriminate|]. intros [H1 _]. lia.
  - specialize (IH a). destruct (first_break start len a r) as [[[k p] x]|].
    + split; [discriminate|]. intros [_ H2]. apply IH in H2. discriminate.
    + split; [intros _; split; [lia|apply IH; reflexivity]|reflexivity].
Qed.

(* the element at the reported position is the FIRST one that starts before the end of its predecessor *)
Lemma first_break_some {A} (start len : A -> N) : forall r prev k p x, first_break start len prev r = Some (k, p, x) ->
  nth_error r k = Some x /\ nth_error (prev :: r) k = Some p /\ start x < start p + len p /\
  chain start len prev (firstn k r).
Proof.
  induction r as [|a r IH]; intros prev k p x H; cbn [first_break] in H; [discriminate|].
  destruct (N.ltb_spec (start a) (start prev + len prev)).
  - injection H as <- <- <-. cbn. auto.
  - destruct (first_break start len a r) as [[[k' p'] x']|] eqn:E; [|discriminate]. injection H as <- <- <-.
    destruct (IH a k' p' x' E) as (H1 & H2 & H3 & H4). cbn [nth_error firstn chain]. repeat split; auto.
Qed.

(* ---- register_init's area check is that reading, with the rule that was violated ---- *)
Theorem check_areas_spec : forall r prev i,
  check_areas prev r i =
  match first_break a_base a_size prev r with
  | None => None
  | Some (k, p, a) => Some (if a_base a <? a_base p then IAreaOrder else IAreaOverlap, i + N.of_nat k)
  end.
Proof.
  induction r as [|a r IH]; intros prev i; cbn [check_areas first_break]; [reflexivity|].
  destruct (N.ltb_spec (a_base a) (a_base prev)) as [H1|H1].
  - destruct (N.ltb_spec (a_base a) (a_base prev + a_size prev)); [|lia].
    destruct (N.ltb_spec (a_base a) (a_base prev)); [|lia]. f_equal. f_equal. lia.
  - destruct (N.ltb_spec (a_base a) (a_base prev + a_size prev)) as [H2|H2].
    + destruct (N.ltb_spec (a_base a) (a_base prev)); [lia|]. f_equal. f_equal. lia.
    + rewrite IH. destruct (first_break a_base a_size a r) as [[[k p] x]|]; [|reflexivity].
      f_equal. f_equal. lia.
Qed.

Theorem check_entries_spec : forall r prev i,
  check_entries prev r i =
  match first_break e_addr (fun e => tsize (e_type e)) prev r with
  | None => None
  | Some (k, p, e) => Some (if e_addr e <? e_addr p then IEntryOrder else IEntryOverlap, i + N.of_nat k)
  end.
Proof.
  induction r as [|e r IH]; intros prev i; cbn [check_entries first_break]; [reflexivity|].
  destruct (N.ltb_spec (e_addr e) (e_addr prev)) as [H1|H1].
  - destruct (N.ltb_spec (e_addr e) (e_addr prev + tsize (e_type prev))); [|lia].
    destruct (N.ltb_spec (e_addr e) (e_addr prev)); [|lia]. f_equal. f_equal. lia.
  - destruct (N.ltb_spec (e_addr e) (e_addr prev + tsize (e_type prev))) as [H2|H2].
    + destruct (N.ltb_spec (e_addr e) (e_addr prev)); [lia|]. f_equal. f_equal. lia.
    + rewrite IH. destruct (first_break e_addr (fun e0 => tsize (e_type e0)) e r) as [[[k p] x]|]; [|reflexivity].
      f_equal. f_equal. lia.
Qed.

(* ---- what the table looks like to the checks ---- *)
Definition areas_ordered (t : table) : Prop :=
  match t_areas t with [] => False | a0 :: ar => chain a_base a_size a0 ar end.
Definition entries_ordered (t : table) : Prop :=
  match t_entries t with [] => True | e0 :: er => chain e_addr (fun e => tsize (e_type e)) e0 er end.

Lemma load_defaults_code : forall fuel t i r, fst (load_defaults fuel t i) = Some r -> fst r = IEntryHole \/ fst r = IEntryDefault.
Proof.
  induction fuel as [|f IH]; intros t i r H; cbn [load_defaults] in H; [discriminate|].
  destruct (nth_error (t_entries t) (N.to_nat i)) as [e|]; [|discriminate].
  destruct (negb (entry_fits t e)); [injection H as <-; auto|].
  destruct (entry_area t e) as [[k a]|]; [|injection H as <-; auto].
  destruct (a_has_write a && negb (a_skip a)).
  - destruct (reg_setx t i _ true) as [[c x] t1]. destruct c; try (injection H as <-; auto). apply (IH _ _ _ H).
  - apply (IH _ _ _ H).
Qed.

(* initialisation succeeds exactly when: there is an area, areas and entries are ordered and disjoint, and loading the
   defaults (which refuses a register not wholly inside one area, or a default its own constraint rejects) succeeds;
   otherwise the rules are tried in this order *)
Theorem init_success_iff t :
  let t0 := with_flags t false true in
  fst (reg_init t) = (ISuccess, 0) <->
  areas_ordered t /\ entries_ordered t /\
  fst (load_defaults (S (length (t_entries t))) (with_flags (zero_mem_areas t0) true true) 0) = None.
Proof.
  intros t0. unfold reg_init, areas_ordered, entries_ordered. fold t0.
  change (t_areas t0) with (t_areas t). change (t_entries t0) with (t_entries t).
  destruct (t_areas t) as [|a0 ar]; [cbn; split; [discriminate|tauto]|].
  rewrite check_areas_spec. pose proof (first_break_none a_base a_size ar a0) as FA.
  destruct (first_break a_base a_size a0 ar) as [[[k p] x]|].
  - cbn [fst]. split; [destruct (a_base x <? a_base p); discriminate|]. intros (H & _). apply FA in H. discriminate.
  - assert (EO : (match t_entries t with [] => None | e0 :: er => check_entries e0 er 1 end) = None <->
                 match t_entries t with [] => True | e0 :: er => chain e_addr (fun e => tsize (e_type e)) e0 er end).
    { destruct (t_entries t) as [|e0 er]; [tauto|]. rewrite check_entries_spec.
      pose proof (first_break_none e_addr (fun e => tsize (e_type e)) er e0) as FE.
      destruct (first_break _ _ e0 er) as [[[k p] x]|]; [split; [discriminate|intros H; apply FE in H; discriminate]|].
      split; [intros _; apply FE; reflexivity|reflexivity]. }
    destruct (match t_entries t with [] => None | e0 :: er => check_entries e0 er 1 end) as [r|] eqn:CE.
    + cbn [fst]. split.
      * intros H. destruct r as [c j]. exfalso. revert CE H. clear.
        destruct (t_entries t) as [|e0 er]; [discriminate|]. rewrite check_entries_spec.
        destruct (first_break _ _ e0 er) as [[[k p] x]|]; [|discriminate]. intros E H. injection E as <- _.
        destruct (e_addr x <? e_addr p); discriminate.
      * intros (_ & H & _). apply EO in H. discriminate.
    + change (length (t_entries (with_flags (zero_mem_areas t0) true true))) with (length (t_entries t)).
      destruct (load_defaults _ _ 0) as [[r|] t2] eqn:LD; cbn [fst].
      * split; [|intros (_ & _ & H); discriminate]. intros ->.
        destruct (load_defaults_code _ _ _ (ISuccess, 0) ltac:(rewrite LD; reflexivity)); discriminate.
      * split; [intros _; split; [apply FA; reflexivity|split; [apply EO; reflexivity|reflexivity]]|reflexivity].
Qed.

(* which rule is reported: the first in the order areas present < area order/overlap < entry order/overlap < entry fits /
   default accepted *)
Theorem init_first_error t :
  let t0 := with_flags t false true in
  match t_areas t with
  | [] => fst (reg_init t) = (INoAreas, 0)
  | a0 :: ar =>
      match first_break a_base a_size a0 ar with
      | Some (k, p, a) => fst (reg_init t) = (if a_base a <? a_base p then IAreaOrder else IAreaOverlap, 1 + N.of_nat k)
      | None =>
          match (match t_entries t with [] => None | e0 :: er => first_break e_addr (fun e => tsize (e_type e)) e0 er end) with
          | Some (k, p, e) => fst (reg_init t) = (if e_addr e <? e_addr p then IEntryOrder else IEntryOverlap, 1 + N.of_nat k)
          | None =>
              fst (reg_init t)
              = match fst (load_defaults (S (length (t_entries t))) (with_flags (zero_mem_areas t0) true true) 0) with
                | Some r => r | None => (ISuccess, 0) end
          end
      end
  end.
Proof.
  intros t0. unfold reg_init. fold t0. change (t_areas t0) with (t_areas t). change (t_entries t0) with (t_entries t).
  destruct (t_areas t) as [|a0 ar]; [reflexivity|].
  rewrite check_areas_spec. destruct (first_break a_base a_size a0 ar) as [[[k p] x]|]; [reflexivity|].
  destruct (t_entries t) as [|e0 er] eqn:Ee.
  - change (length (t_entries (with_flags (zero_mem_areas t0) true true))) with (length (t_entries t)). rewrite Ee.
    destruct (load_defaults _ _ 0) as [[r|] t2]; reflexivity.
  - rewrite check_entries_spec. destruct (first_break _ _ e0 er) as [[[k p] x]|]; [reflexivity|].
    change (length (t_entries (with_flags (zero_mem_areas t0) true true))) with (length (t_entries t)). rewrite Ee.
    destruct (load_defaults _ _ 0) as [[r|] t2]; reflexivity.
Qed.

(* ---- loading the defaults succeeded: every register lies wholly inside one area ---- *)
Definition same_geom (l1 l2 : list area) : Prop :=
  Forall2 (fun a b => a_base a = a_base b /\ a_size a = a_size b) l1 l2.

Lemma same_geom_refl l : same_geom l l.
Proof. induction l; constructor; auto. Qed.
Lemma same_geom_trans l1 l2 l3 : same_geom l1 l2 -> same_geom l2 l3 -> same_geom l1 l3.
Proof.
  unfold same_geom. intros H. revert l3. induction H as [|a b r1 r2 [H1 H2] Hr IH]; intros l3 H3; inversion H3; subst; constructor.
  - destruct H4. split; congruence.
  - apply IH. assumption.
Qed.

Lemma same_geom_upd l : forall i a a', nth_error l i = Some a -> a_base a' = a_base a -> a_size a' = a_size a ->
  same_geom l (upd l i a').
Proof.
  induction l as [|x r IH]; intros i a a' H Hb Hs; destruct i; cbn in *; try discriminate.
  - injection H as ->. constructor; [auto|apply same_geom_refl].
  - constructor; [auto|]. eapply IH; eassumption.
Qed.

Lemma find_area_geom l1 l2 : same_geom l1 l2 -> forall addr k,
  match find_area l1 addr k, find_area l2 addr k with
  | Some (i, a), Some (j, b) => i = j /\ a_base a = a_base b /\ a_size a = a_size b
  | None, None => True
  | _, _ => False
  end.
Proof.
  intros H. induction H as [|a b r1 r2 [Hb Hs] Hr IH]; intros addr k; cbn [find_area]; [exact I|].
  unfold addr_in_area. rewrite Hb, Hs. destruct ((a_base b <=? addr) && (addr <? a_base b + a_size b)); [auto|apply IH].
Qed.

Lemma entry_fits_geom t1 t2 e : same_geom (t_areas t1) (t_areas t2) -> entry_fits t1 e = entry_fits t2 e.
Proof.
  intros H. unfold entry_fits. pose proof (find_area_geom _ _ H (e_addr e) 0) as G.
  destruct (find_area (t_areas t1) (e_addr e) 0) as [[i a]|], (find_area (t_areas t2) (e_addr e) 0) as [[j b]|]; try contradiction; [|reflexivity].
  destruct G as (_ & -> & ->). reflexivity.
Qed.

Lemma setx_geom t idx v c : same_geom (t_areas t) (t_areas (snd (reg_setx t idx v c))) /\
                            t_entries (snd (reg_setx t idx v c)) = t_entries t.
Proof.
  unfold reg_setx. destruct (negb (t_init t)); [split; [apply same_geom_refl|reflexivity]|].
  destruct (entry_at t idx) as [e|]; [|split; [apply same_geom_refl|reflexivity]].
  destruct (c && negb (validate (t_during t) e v)); [split; [apply same_geom_refl|reflexivity]|].
  destruct (entry_area t e) as [[i a]|] eqn:Ea; [|split; [apply same_geom_refl|reflexivity]].
  destruct (negb (area_can_write a)); [split; [apply same_geom_refl|reflexivity]|].
  destruct (negb (ser_ok v)); [split; [apply same_geom_refl|reflexivity]|].
  cbn [snd set_area t_areas t_entries]. split; [|reflexivity].
  destruct (find_area_props _ _ _ _ _ Ea) as (_ & _ & Hn). rewrite Nat.sub_0_r in Hn.
  apply (same_geom_upd _ i a); [exact Hn|reflexivity|reflexivity].
Qed.

Lemma nth_error_Some_lt {A} (l : list A) n x : nth_error l n = Some x -> (n < length l)%nat.
Proof. intros H. apply nth_error_Some. rewrite H. discriminate. Qed.

Theorem load_defaults_all_fit : forall fuel t i,
  fst (load_defaults fuel t i) = None -> (length (t_entries t) <= N.to_nat i + fuel)%nat ->
  forall j e, (N.to_nat i <= j)%nat -> nth_error (t_entries t) j = Some e -> entry_fits t e = true.
Proof.
  induction fuel as [|f IH]; intros t i H Hl j e Hj He.
  - exfalso. apply nth_error_Some_lt in He. lia.
  - cbn [load_defaults] in H.
    destruct (nth_error (t_entries t) (N.to_nat i)) as [ei|] eqn:Ei.
    2:{ exfalso. apply nth_error_None in Ei. apply nth_error_Some_lt in He. lia. }
    destruct (entry_fits t ei) eqn:Ef; cbn [negb] in H; [|discriminate].
    destruct (Nat.eq_dec j (N.to_nat i)) as [->|Hne]; [rewrite Ei in He; injection He as <-; exact Ef|].
    destruct (entry_area t ei) as [[k a]|]; [|discriminate].
    destruct (a_has_write a && negb (a_skip a)).
    + pose proof (setx_geom t i {| v_type := e_type ei; v_bits := e_default ei |} true) as [G E].
      destruct (reg_setx t i _ true) as [[c x] t1]. cbn [snd] in G, E.
      destruct c; try discriminate.
      rewrite (entry_fits_geom t t1 e G).
      apply (IH t1 (i + 1) H) with (j := j); [rewrite E; lia|lia|rewrite E; exact He].
    + apply (IH t (i + 1) H) with (j := j); [lia|lia|exact He].
Qed.
