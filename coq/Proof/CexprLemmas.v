From Ufw Require Import Base.Cexpr.
From Coq Require Import Lia ZArith NArith.
Local Open Scope Z_scope.

Lemma norm_u_small w z : 0 <= z < 2 ^ w -> norm (Ity false w) z = z.
Proof. intros H; cbn [norm]; apply Z.mod_small; exact H. Qed.

Lemma norm_s_small w z : 0 < w -> - 2 ^ (w - 1) <= z < 2 ^ (w - 1) -> norm (Ity true w) z = z.
Proof.
  intros Hw H; cbn [norm].
  replace (2 ^ w) with (2 * 2 ^ (w - 1)).
  - rewrite Z.mod_small; lia.
  - rewrite <- Z.pow_succ_r by lia. f_equal; lia.
Qed.

(* "fits in n bits" for N, closed under the bitwise operators *)
Definition fitsN (n x : N) : Prop := (x < 2 ^ n)%N.

Lemma fitsN_log2 n x : (0 < x)%N -> (fitsN n x <-> (N.log2 x < n)%N).
Proof. intros H; unfold fitsN; apply N.log2_lt_pow2; exact H. Qed.

Lemma fitsN_0 n : fitsN n 0.
Proof. unfold fitsN. apply N.neq_0_lt_0, N.pow_nonzero; discriminate. Qed.

Lemma fitsN_lxor n a b : fitsN n a -> fitsN n b -> fitsN n (N.lxor a b).
Proof.
  intros Ha Hb.
  destruct (N.eq_dec (N.lxor a b) 0) as [->|Hx]; [apply fitsN_0|].
  destruct (N.eq_dec a 0) as [->|Ha0]; [rewrite N.lxor_0_l; exact Hb|].
  destruct (N.eq_dec b 0) as [->|Hb0]; [rewrite N.lxor_0_r; exact Ha|].
  apply fitsN_log2; [lia|].
  apply fitsN_log2 in Ha; [|lia]. apply fitsN_log2 in Hb; [|lia].
  pose proof (N.log2_lxor a b). lia.
Qed.

Lemma fitsN_lor n a b : fitsN n a -> fitsN n b -> fitsN n (N.lor a b).
Proof.
  intros Ha Hb.
  destruct (N.eq_dec a 0) as [->|Ha0]; [rewrite N.lor_0_l; exact Hb|].
  destruct (N.eq_dec b 0) as [->|Hb0]; [rewrite N.lor_0_r; exact Ha|].
  assert (N.lor a b <> 0)%N by (intro E; apply N.lor_eq_0_iff in E; lia).
  apply fitsN_log2; [lia|].
  apply fitsN_log2 in Ha; [|lia]. apply fitsN_log2 in Hb; [|lia].
  rewrite N.log2_lor. lia.
Qed.

Lemma fitsN_land_r n a b : fitsN n b -> fitsN n (N.land a b).
Proof.
  intros Hb.
  destruct (N.eq_dec (N.land a b) 0) as [->|Hx]; [apply fitsN_0|].
  destruct (N.eq_dec b 0) as [->|Hb0]; [rewrite N.land_0_r; apply fitsN_0|].
  apply fitsN_log2; [lia|]. apply fitsN_log2 in Hb; [|lia].
  pose proof (N.log2_land a b). lia.
Qed.

Lemma fitsN_land_l n a b : fitsN n a -> fitsN n (N.land a b).
Proof. intros; rewrite N.land_comm; apply fitsN_land_r; assumption. Qed.

Lemma fitsN_shiftr n k a : fitsN (n + k) a -> fitsN n (N.shiftr a k).
Proof.
  unfold fitsN; intros H. rewrite N.shiftr_div_pow2.
  apply N.div_lt_upper_bound; [apply N.pow_nonzero; discriminate|].
  rewrite <- N.pow_add_r, N.add_comm. exact H.
Qed.

Lemma fitsN_shiftl n k a : fitsN n a -> fitsN (n + k) (N.shiftl a k).
Proof.
  unfold fitsN; intros H. rewrite N.shiftl_mul_pow2, N.pow_add_r.
  apply N.mul_lt_mono_pos_r; [apply N.neq_0_lt_0, N.pow_nonzero; discriminate|exact H].
Qed.

Lemma fitsN_mono n m x : (n <= m)%N -> fitsN n x -> fitsN m x.
Proof.
  unfold fitsN; intros Hle H. eapply N.lt_le_trans; [exact H|].
  apply N.pow_le_mono_r; [discriminate|exact Hle].
Qed.

Lemma fitsN_Z n x : fitsN n x -> 0 <= Z.of_N x < 2 ^ Z.of_N n.
Proof.
  unfold fitsN; intros H; split; [apply N2Z.is_nonneg|].
  change 2 with (Z.of_N 2). rewrite <- N2Z.inj_pow. apply N2Z.inj_lt. exact H.
Qed.

Lemma norm_u_N w x : fitsN w x -> norm (Ity false (Z.of_N w)) (Z.of_N x) = Z.of_N x.
Proof. intros H; apply norm_u_small, fitsN_Z, H. Qed.

Lemma norm_s_N w x : (0 < w)%N -> fitsN (w - 1) x -> norm (Ity true (Z.of_N w)) (Z.of_N x) = Z.of_N x.
Proof.
  intros Hw H; apply norm_s_small; [lia|].
  pose proof (fitsN_Z _ _ H) as [H0 H1].
  replace (Z.of_N w - 1) with (Z.of_N (w - 1)) by lia.
  pose proof (Z.pow_pos_nonneg 2 (Z.of_N (w - 1))). lia.
Qed.

Lemma fitsN_const n c : (c <? 2 ^ n)%N = true -> fitsN n c.
Proof. apply N.ltb_lt. Qed.

(* goal-directed bound prover; [extra] proves leaves (variables, table entries) *)
Ltac fits_with extra :=
  lazymatch goal with
  | |- fitsN _ (N.lxor _ _) => apply fitsN_lxor; fits_with extra
  | |- fitsN _ (N.lor _ _) => apply fitsN_lor; fits_with extra
  | |- fitsN _ (N.land _ _) =>
      first [ apply fitsN_land_r; solve [fits_with extra] | apply fitsN_land_l; solve [fits_with extra] ]
  | |- fitsN _ (N.shiftr _ _) => apply fitsN_shiftr; fits_with extra
  | |- fitsN _ _ =>
      first [ solve [extra]
            | solve [apply fitsN_const; vm_compute; reflexivity] ]
  end.

Ltac fits_hyp :=
  match goal with
  | H : fitsN ?m ?x |- fitsN ?n ?x => apply (fitsN_mono m n x); [vm_compute; discriminate | exact H]
  end.

Lemma N2Z_land a b : Z.of_N (N.land a b) = Z.land (Z.of_N a) (Z.of_N b).
Proof. destruct a, b; reflexivity. Qed.
Lemma N2Z_lor a b : Z.of_N (N.lor a b) = Z.lor (Z.of_N a) (Z.of_N b).
Proof. destruct a, b; reflexivity. Qed.
Lemma N2Z_lxor a b : Z.of_N (N.lxor a b) = Z.lxor (Z.of_N a) (Z.of_N b).
Proof. destruct a, b; reflexivity. Qed.
Lemma N2Z_shiftr a n : Z.of_N (N.shiftr a n) = Z.shiftr (Z.of_N a) (Z.of_N n).
Proof.
  rewrite Z.shiftr_div_pow2 by apply N2Z.is_nonneg.
  rewrite N.shiftr_div_pow2, N2Z.inj_div, N2Z.inj_pow. reflexivity.
Qed.
Lemma N2Z_shiftl a n : Z.of_N (N.shiftl a n) = Z.shiftl (Z.of_N a) (Z.of_N n).
Proof.
  rewrite Z.shiftl_mul_pow2 by apply N2Z.is_nonneg.
  rewrite N.shiftl_mul_pow2, N2Z.inj_mul, N2Z.inj_pow. reflexivity.
Qed.

Lemma Z2nat_ofN n : Z.to_nat (Z.of_N n) = N.to_nat n.
Proof. destruct n; reflexivity. Qed.
