(* The receiver model against the independent reading of doc/regp.txt (Model/RegpSpec.v). *)
From Ufw Require Import Base.Bits Base.Errno Model.Crc Model.Varint Model.Slip Model.Regp Model.RegpSpec
  Proof.ListLemmas Proof.RegpLemmas.
From Coq Require Import Lia Bool ZifyN ZifyBool ZifyNat.
Local Open Scope N_scope.
Local Open Scope bool_scope.
Ltac Zify.zify_post_hook ::= Z.div_mod_to_equations.

Definition hf (f : rframe) : hfields :=
  {| h_version := 0; h_type := f_type f; h_opts := f_opts f; h_meta := f_meta f; h_seq := f_seq f; h_addr := f_addr f; h_bsize := f_bsize f |}.

(* the receiver's verdict, in the specification's vocabulary *)
Definition to_sverdict (raw : list N) : sverdict :=
  match parse_header raw with
  | inl PE_ILSEQ => SBadHeaderCrc
  | inl _ => SBadHeader
  | inr f => if negb (payload_plausible f) then SBadSize (hf f) (f_payload f)
             else if negb (check_payload f) then SBadPayloadCrc (hf f) (f_payload f)
             else SAccept (hf f) (f_hdcrc f) (f_plcrc f) (f_payload f)
  end.

Lemma to_sverdict_parse_frame raw :
  match parse_frame raw, to_sverdict raw with
  | inl PE_BADMSG, SBadHeader => True
  | inl PE_ILSEQ, SBadHeaderCrc => True
  | inl PE_FAULT, SBadSize _ _ => True
  | inl PE_PROTO, SBadPayloadCrc _ _ => True
  | inr f, SAccept h c1 c2 pl => h = hf f /\ c1 = f_hdcrc f /\ c2 = f_plcrc f /\ pl = f_payload f
  | _, _ => False
  end.
Proof.
  unfold parse_frame, to_sverdict.
  assert (H : forall e, parse_header raw = inl e -> e = PE_BADMSG \/ e = PE_ILSEQ).
  { unfold parse_header. intros e.
    repeat match goal with |- context [if ?b then _ else _] => destruct b end; intros E; inversion E; auto. }
  destruct (parse_header raw) as [e|f].
  - destruct (H e eq_refl) as [-> | ->]; exact I.
  - destruct (payload_plausible f); cbn [negb]; [|exact I].
    destruct (check_payload f); cbn [negb]; [|exact I]. auto.
Qed.

Lemma testbit_odd_div o : N.testbit o 0 = N.odd o /\ N.testbit o 1 = N.odd (o / 2) /\ N.testbit o 2 = N.odd (o / 4) /\ N.testbit o 3 = N.odd (o / 8).
Proof.
  repeat split.
  - apply N.bit0_odd.
  - rewrite <- N.bit0_odd. change 2 with (2 ^ 1). rewrite N.div_pow2_bits. reflexivity.
  - rewrite <- N.bit0_odd. change 4 with (2 ^ 2). rewrite N.div_pow2_bits. reflexivity.
  - rewrite <- N.bit0_odd. change 8 with (2 ^ 3). rewrite N.div_pow2_bits. reflexivity.
Qed.

Lemma type_meta_agree t m : t < 16 ->
  (if (t =? T_READ_REQ) || (t =? T_WRITE_REQ) then m =? 0
   else if (t =? T_READ_RESP) || (t =? T_WRITE_RESP) then m <=? R_EIO
   else if t =? T_META then (1 <=? m) && (m <=? 2) else false) = spec_type_meta t m.
Proof.
  intros Ht.
  assert (C : t = 0 \/ t = 1 \/ t = 2 \/ t = 3 \/ t = 4 \/ t = 5 \/ t = 6 \/ t = 7 \/ t = 8 \/ t = 9 \/ t = 10 \/ t = 11
              \/ t = 12 \/ t = 13 \/ t = 14 \/ t = 15) by lia.
  repeat (destruct C as [->|C]); try subst t; try reflexivity.
  cbn. destruct (N.leb_spec 1 m), (N.leb_spec m 2), (N.eqb_spec m 1), (N.eqb_spec m 2); cbn; try reflexivity; lia.
Qed.

Lemma match_type_0_15 {A} t (a b : A) : t < 16 ->
  match t with 0 | 15 => a | _ => b end = if (t =? T_READ_REQ) || (t =? T_META) then a else b.
Proof.
  intros Ht.
  assert (C : t = 0 \/ t = 1 \/ t = 2 \/ t = 3 \/ t = 4 \/ t = 5 \/ t = 6 \/ t = 7 \/ t = 8 \/ t = 9 \/ t = 10 \/ t = 11
              \/ t = 12 \/ t = 13 \/ t = 14 \/ t = 15) by lia.
  repeat (destruct C as [->|C]); try subst t; reflexivity.
Qed.

Lemma judge_agrees f : f_type f < 16 ->
  (if negb (payload_plausible f) then SBadSize (hf f) (f_payload f)
   else if negb (check_payload f) then SBadPayloadCrc (hf f) (f_payload f)
   else SAccept (hf f) (f_hdcrc f) (f_plcrc f) (f_payload f))
  = judge (hf f) (f_hdcrc f) (f_plcrc f) (f_payload f).
Proof.
  intros Ht. unfold judge.
  assert (P : payload_plausible f = payload_rule (hf f) (f_payload f)).
  { unfold payload_plausible, payload_rule, has_w16, opt_w16. cbn [hf h_opts h_type h_bsize].
    destruct (testbit_odd_div (f_opts f)) as (-> & _).
    set (len := N.of_nat (length (f_payload f))).
    rewrite <- N.negb_odd.
    destruct (N.odd (f_opts f)); cbn [andb].
    - destruct (N.odd len); cbn [negb]; [reflexivity|].
      rewrite (match_type_0_15 (f_type f)) by exact Ht.
      destruct ((f_type f =? T_READ_REQ) || (f_type f =? T_META)); [reflexivity|apply N.eqb_sym].
    - rewrite (match_type_0_15 (f_type f)) by exact Ht.
      destruct ((f_type f =? T_READ_REQ) || (f_type f =? T_META)); [reflexivity|apply N.eqb_sym]. }
  assert (C : check_payload f = negb (opt_plcrc (h_opts (hf f)) && negb (match f_payload f with [] => true | _ => false end)
                                      && negb (crc16arc (f_payload f) =? f_plcrc f))).
  { unfold check_payload, has_plcrc, opt_plcrc. cbn [hf h_opts].
    destruct (testbit_odd_div (f_opts f)) as (_ & _ & -> & _).
    destruct (N.odd (f_opts f / 4)); cbn [negb orb andb]; [|reflexivity].
    destruct (f_payload f) as [|x t]; cbn [length Nat.eqb negb andb]; [reflexivity|].
    unfold crc, crc16arc. destruct (spec_crc 0 (x :: t) =? f_plcrc f); reflexivity. }
  rewrite <- P, C.
  destruct (payload_plausible f); cbn [negb]; [|reflexivity].
  rewrite negb_involutive. reflexivity.
Qed.

Lemma of_be2' a b : of_be [a; b] = 256 * a + b.
Proof. rewrite of_be2. lia. Qed.
Lemma of_be4' a b c d : of_be [a; b; c; d] = 16777216 * a + 65536 * b + 256 * c + d.
Proof. rewrite of_be4. lia. Qed.

Theorem classify_agrees raw : to_sverdict raw = spec_classify raw.
Proof.
  destruct raw as [|m1 [|m0 [|s1 [|s0 [|a3 [|a2 [|a1 [|a0 [|n3 [|n2 [|n1 [|n0 rest]]]]]]]]]]]]; try reflexivity.
  unfold to_sverdict, spec_classify, parse_header. rewrite length_ge12.
  destruct (N.ltb_spec (12 + N.of_nat (length rest)) 12) as [H|_]; [lia|].
  cbn [firstn skipn slice app].
  rewrite !of_be2', !of_be4'.
  set (w0 := 256 * m1 + m0).
  cbn [h_version h_type h_opts h_meta].
  set (t := (w0 / 16) mod 16). set (o := (w0 / 256) mod 16). set (m := (w0 / 4096) mod 16).
  assert (Ht : t < 16) by (subst t; apply N.mod_lt; discriminate).
  destruct (testbit_odd_div o) as (_ & B1 & B2 & B3). rewrite B1, B2, B3.
  unfold opt_hdcrc, opt_plcrc, opt_reserved, RP_VERSION.
  rewrite type_meta_agree by exact Ht.
  destruct (N.eqb_spec (w0 mod 16) 0) as [Ev|_]; cbn [negb orb]; [rewrite Ev|reflexivity].
  destruct (N.odd (o / 8)); cbn [orb]; [reflexivity|].
  destruct (spec_type_meta t m); cbn [negb]; [|reflexivity].
  unfold crc, crc16arc.
  destruct (N.odd (o / 2)), (N.odd (o / 4)); cbn [andb orb].
  - (* both checksums *)
    destruct rest as [|c1 [|c0 [|p1 [|p0 payload]]]]; try reflexivity.
    cbn [length].
    destruct (N.ltb_spec (12 + N.of_nat (S (S (S (S (length payload)))))) 16) as [H|_]; [lia|].
    destruct (N.ltb_spec (12 + N.of_nat (S (S (S (S (length payload)))))) 14) as [H|_]; [lia|].
    cbn [firstn skipn app]. rewrite !of_be2'.
    destruct (spec_crc 0 _ =? 256 * c1 + c0); cbn [negb]; [|reflexivity].
    match goal with |- context [payload_plausible ?f] => rewrite (judge_agrees f) by exact Ht end.
    reflexivity.
  - (* header checksum only *)
    destruct rest as [|c1 [|c0 payload]]; try reflexivity.
    cbn [length].
    destruct (N.ltb_spec (12 + N.of_nat (S (S (length payload)))) 14) as [H|_]; [lia|].
    cbn [firstn skipn app]. rewrite !of_be2'.
    destruct (spec_crc 0 _ =? 256 * c1 + c0); cbn [negb]; [|reflexivity].
    match goal with |- context [payload_plausible ?f] => rewrite (judge_agrees f) by exact Ht end.
    reflexivity.
  - (* payload checksum only *)
    destruct rest as [|p1 [|p0 payload]]; try reflexivity.
    cbn [length].
    destruct (N.ltb_spec (12 + N.of_nat (S (S (length payload)))) 14) as [H|_]; [lia|].
    cbn [firstn skipn app]. rewrite !of_be2'. cbn [N.eqb negb].
    match goal with |- context [payload_plausible ?f] => rewrite (judge_agrees f) by exact Ht end.
    reflexivity.
  - (* no checksums *)
    cbn [N.eqb negb].
    match goal with |- context [payload_plausible ?f] => rewrite (judge_agrees f) by exact Ht end.
    reflexivity.
Qed.

(* ---------- what the library emits is what the document prescribes ---------- *)
Lemma be16_eq x : be_bytes 2 x = be16 x.
Proof. reflexivity. Qed.
Lemma be32_eq x : be_bytes 4 x = be32 x.
Proof.
  rewrite be4. unfold be32.
  replace (x / 256 / 256 / 256) with (x / 16777216) by (rewrite !N.div_div by discriminate; reflexivity).
  replace (x / 256 / 256) with (x / 65536) by (rewrite !N.div_div by discriminate; reflexivity).
  reflexivity.
Qed.

Definition emitted_fields (p : regp) (ms : msem) (type meta seq addr n : N) (pl : list N) : hfields :=
  {| h_version := 0; h_type := type; h_opts := spec_opts (g_serial p) (w16_of p ms) pl; h_meta := meta;
     h_seq := seq; h_addr := addr; h_bsize := n |}.

Theorem emitted_is_spec p ms type meta seq addr n pl :
  conforming p ms type meta seq addr n pl -> (type = T_META -> n = 0) ->
  (encode_header p ms type meta seq addr n (crc pl) ++ pl)%list
  = spec_raw (emitted_fields p ms type meta seq addr n pl) pl.
Proof.
  intros (Hok & Hseq & Haddr & Hn & Hoct & Hsz) Hmeta.
  destruct (type_ok_bounds _ _ Hok) as [Ht Hm].
  assert (Hwp : (g_serial p && negb (n =? 0) && negb (type =? T_READ_REQ))
                = (g_serial p && negb (match pl with [] => true | _ => false end))).
  { destruct (g_serial p); cbn [andb]; [|reflexivity].
    destruct (N.eqb_spec type T_READ_REQ) as [E|E].
    - cbn [orb] in Hsz. subst pl. rewrite andb_false_r. reflexivity.
    - rewrite andb_true_r. cbn [orb] in Hsz. destruct (N.eqb_spec type T_META) as [E2|E2].
      + subst pl. rewrite (Hmeta E2). reflexivity.
      + destruct pl as [|x t]; cbn [length] in Hsz.
        * replace n with 0 by (destruct (w16_of p ms); lia). reflexivity.
        * destruct (N.eqb_spec n 0) as [E0|_]; [subst n; destruct (w16_of p ms); lia|reflexivity]. }
  assert (Ho : opts_of p ms type n = spec_opts (g_serial p) (w16_of p ms) pl).
  { unfold opts_of, spec_opts, w16_of, OPT_W16, OPT_HDCRC, OPT_PLCRC. rewrite Hwp. reflexivity. }
  unfold encode_header, spec_raw, emitted_fields. cbv zeta. cbn [h_seq h_addr h_bsize h_opts].
  rewrite (N.mod_small seq), (N.mod_small addr), (N.mod_small n) by (try change (2 ^ 32) with 4294967296; assumption).
  assert (M : make_motv p ms meta type n
              = word0 {| h_version := 0; h_type := type; h_opts := spec_opts (g_serial p) (w16_of p ms) pl; h_meta := meta;
                         h_seq := seq; h_addr := addr; h_bsize := n |}).
  { rewrite make_motv_eq, !N.mod_small, Ho by assumption. unfold word0; cbn. lia. }
  destruct (opts_bits p ms type n) as (_ & B1 & B2 & _).
  pose proof (opts_of_lt p ms type n) as Hlt.
  assert (T9 : N.testbit (make_motv p ms meta type n) 9 = opt_hdcrc (spec_opts (g_serial p) (w16_of p ms) pl)).
  { rewrite make_motv_eq, !N.mod_small by assumption. change 9 with (8 + 1). rewrite testbit_field by lia.
    rewrite Ho. destruct (testbit_odd_div (spec_opts (g_serial p) (w16_of p ms) pl)) as (_ & E & _). exact E. }
  assert (T10 : N.testbit (make_motv p ms meta type n) 10 = opt_plcrc (spec_opts (g_serial p) (w16_of p ms) pl)).
  { rewrite make_motv_eq, !N.mod_small by assumption. change 10 with (8 + 2). rewrite testbit_field by lia.
    rewrite Ho. destruct (testbit_odd_div (spec_opts (g_serial p) (w16_of p ms) pl)) as (_ & _ & E & _). exact E. }
  rewrite T9, T10, M, !be16_eq, !be32_eq. unfold crc, crc16arc.
  destruct (opt_hdcrc _) eqn:Eh, (opt_plcrc _) eqn:Ep; rewrite <- ?app_assoc; cbn [app]; try reflexivity.
  (* a payload checksum without a header checksum never occurs *)
  exfalso. clear - Eh Ep. unfold spec_opts, opt_hdcrc, opt_plcrc in *.
  destruct (g_serial p), (w16_of p ms), pl; cbn in *; discriminate.
Qed.
