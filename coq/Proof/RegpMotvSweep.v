(* Translator tie for make_motv of src/register-protocol.c (Gen/RegpMotvGen.v is regenerated from the source on every check):
   the first header word that the C code assembles with shifts and ors in 16/32-bit arithmetic is the number the model computes,
   for every frame type, meta code, memory semantics, memory type, transport and block size. *)
From Coq Require Import ZArith NArith Lia String List Bool.
From Ufw Require Import Base.Bits Base.Cexpr Model.Regp Gen.RegpMotvGen.
Import ListNotations.
Local Open Scope Z_scope.

Section Tie.
  (* the values of the enumeration constants and of the MSEM_* macros, read from the source by tools/consts2coq.py *)
  Variables (cMEM8 cMEM16 cSERIAL cTCP cREADREQ cAUTO c8BIT c16BIT : Z).

  Definition msem_num (ms : msem) : Z := match ms with MAuto => cAUTO | M8 => c8BIT | M16 => c16BIT end.
  Definition envM (mem16 serial : bool) (ms : msem) (meta type n : Z) : string -> Z := fun x =>
    if String.eqb x "msem" then msem_num ms else
    if String.eqb x "p.memory.type" then (if mem16 then cMEM16 else cMEM8) else
    if String.eqb x "RP_MEMTYPE_16" then cMEM16 else
    if String.eqb x "p.ep.type" then (if serial then cSERIAL else cTCP) else
    if String.eqb x "RP_EP_SERIAL" then cSERIAL else
    if String.eqb x "RP_FRAME_READ_REQUEST" then cREADREQ else
    if String.eqb x "meta" then meta else if String.eqb x "type" then type else if String.eqb x "n" then n else 0.
End Tie.

Definition the_regp (mem16 serial : bool) : regp := {| g_mem16 := mem16; g_serial := serial; g_seq := 0; g_blocksize := 0 |}.

(* the finite part: every frame type 0..15, meta code 0..255, three semantics, two memory types, two transports, empty / non-empty *)
Definition motv_case (mem16 serial : bool) (ms : msem) (meta type n : N) : bool :=
  eval (envM 0 1 0 1 0 0 1 2 mem16 serial ms (Z.of_N meta) (Z.of_N type) (Z.of_N n)) (fun _ => []) c_make_motv
  =? Z.of_N (make_motv (the_regp mem16 serial) ms meta type n).

Definition Nrange (k : N) : list N := map N.of_nat (seq 0 (N.to_nat k)).

Definition motv_sweep : bool :=
  forallb (fun mem16 => forallb (fun serial => forallb (fun ms => forallb (fun meta => forallb (fun type => forallb (fun n =>
    motv_case mem16 serial ms meta type n) [0%N; 1%N]) (Nrange 16)) (Nrange 256)) [MAuto; M8; M16]) [false; true]) [false; true].

Lemma motv_sweep_true : motv_sweep = true.
Proof. vm_compute. reflexivity. Qed.

