(* Length-prefix framing: every entry point returns (the model's fuel never runs out), and the encode / decode
   contracts against EVERY behaviour script of the sink / source (fragmentation, zero-length returns, EINTR/EAGAIN,
   hard errors), not only the accepting ones of Proof/LenpLemmas.v. *)
From Coq Require Import Lia ZifyN ZifyBool.
From Ufw Require Import Base.Bits Base.Errno Model.ByteBuffer Model.Endpoints Model.Varint Model.Lenp
  Proof.EndpointsLemmas Proof.EndpointsTotal Proof.LenpLemmas.
Local Open Scope N_scope.

Ltac splits := repeat match goal with |- _ /\ _ => split end.

(* ---------- totality ---------- *)
Theorem decode_prefix_total k s : decode_prefix k s <> None.
Proof.
  destruct k; cbn [decode_prefix lk_size].
  - destruct (vi_from_source KU64 s) as [[] ?]; discriminate.
  - pose proof (get_chunk_total s 1). destruct (source_get_chunk s 1) as [[[[] ?] ?]|]; congruence.
  - pose proof (get_chunk_total s 2). destruct (source_get_chunk s 2) as [[[[] ?] ?]|]; congruence.
  - pose proof (get_chunk_total s 4). destruct (source_get_chunk s 4) as [[[[] ?] ?]|]; congruence.
  - pose proof (get_chunk_total s 2). destruct (source_get_chunk s 2) as [[[[] ?] ?]|]; congruence.
  - pose proof (get_chunk_total s 4). destruct (source_get_chunk s 4) as [[[[] ?] ?]|]; congruence.
Qed.

Theorem memory_from_source_total k s size : lenp_memory_from_source k s size <> None.
Proof.
  unfold lenp_memory_from_source. pose proof (decode_prefix_total k s).
  destruct (decode_prefix k s) as [[[len|e] s']|]; try congruence.
  destruct (size <? len); [discriminate|apply get_chunk_total].
Qed.

Theorem buffer_from_source_total k s b : lenp_buffer_from_source k s b <> None.
Proof.
  unfold lenp_buffer_from_source. pose proof (memory_from_source_total k s (bb_avail b)).
  destruct (lenp_memory_from_source k s (bb_avail b)) as [[[[] ?] ?]|]; congruence.
Qed.

Theorem decode_source_to_sink_total k s snk0 : lenp_decode_source_to_sink k s snk0 <> None.
Proof.
  unfold lenp_decode_source_to_sink. pose proof (decode_prefix_total k s).
  destruct (decode_prefix k s) as [[[len|e] s']|]; try congruence. apply sts_n_total.
Qed.

Theorem memory_to_sink_total k snk0 xs n : lenp_memory_to_sink k snk0 xs n <> None.
Proof.
  unfold lenp_memory_to_sink. destruct (encode_prefix k n) as [p|]; [|discriminate].
  destruct (_ <? n); [discriminate|].
  pose proof (put_chunk_total snk0 p (N.of_nat (length p))).
  destruct (sink_put_chunk snk0 p _) as [[[] k1]|]; try congruence.
  pose proof (put_chunk_total k1 xs n).
  destruct (sink_put_chunk k1 xs n) as [[[] k2]|]; congruence.
Qed.

Theorem buffer_to_sink_total k snk0 b : lenp_buffer_to_sink k snk0 b <> None.
Proof. apply memory_to_sink_total. Qed.

Theorem buffer_to_sink_n_total k snk0 b n : lenp_buffer_to_sink_n k snk0 b n <> None.
Proof.
  unfold lenp_buffer_to_sink_n. destruct (_ <? n); [discriminate|].
  pose proof (memory_to_sink_total k snk0 (bb_unread b) n).
  destruct (lenp_memory_to_sink k snk0 (bb_unread b) n) as [[? ?]|]; congruence.
Qed.

Lemma put_chunks_total ps : forall snk0, put_chunks snk0 ps <> None.
Proof.
  induction ps as [|p r IH]; intros snk0; cbn [put_chunks]; [discriminate|].
  destruct p as [|x p']; [apply IH|].
  pose proof (put_chunk_total snk0 (x :: p') (N.of_nat (length (x :: p')))).
  destruct (sink_put_chunk snk0 (x :: p') _) as [[[] k1]|]; first [congruence|apply IH].
Qed.

Theorem chunks_to_sink_total k snk0 active cs : lenp_chunks_to_sink k snk0 active cs <> None.
Proof.
  unfold lenp_chunks_to_sink. cbv zeta. destruct (encode_prefix k _) as [p|]; [|discriminate].
  destruct (_ <? _); [discriminate|].
  pose proof (put_chunk_total snk0 p (N.of_nat (length p))).
  destruct (sink_put_chunk snk0 p _) as [[[] k1]|]; try congruence.
  pose proof (put_chunks_total (chunks_payload active cs) k1).
  destruct (put_chunks k1 _) as [[[] k2]|]; congruence.
Qed.

(* ---------- encoding onto ANY sink ---------- *)
Lemma encode_prefix_some k n p : encode_prefix k n = Some p -> p = lenp_prefix k n /\ n <= SSIZE_MAX /\ n <= lk_max k.
Proof.
  unfold encode_prefix. destruct (N.ltb_spec SSIZE_MAX n); [discriminate|].
  destruct (N.ltb_spec (lk_max k) n); [discriminate|]. cbn [orb]. intros [= <-]. auto.
Qed.

Lemma prefix_app_r {A} (a s r b : list A) : a = s ++ r -> a ++ b = s ++ (r ++ b).
Proof. intros ->. symmetry. apply app_assoc. Qed.

(* whatever the sink does: what reached it is a prefix of [length prefix ++ the n designated octets]; a success means all
   of it reached the sink and the count is its length; EINTR/EAGAIN never come back *)
Theorem memory_to_sink_any k snk0 xs n r k' : lenp_memory_to_sink k snk0 xs n = Some (r, k') ->
  exists sent, k_got k' = k_got snk0 ++ sent /\
    (exists rest, lenp_prefix k n ++ firstn (N.to_nat n) xs = sent ++ rest) /\
    (forall c, r = DOk c -> c = N.of_nat (length (lenp_prefix k n)) + n /\ sent = lenp_prefix k n ++ firstn (N.to_nat n) xs) /\
    (forall e, r = DErr e -> is_retry e = false).
Proof.
  unfold lenp_memory_to_sink. destruct (encode_prefix k n) as [p|] eqn:Ep.
  2:{ intros [= <- <-]. exists []. rewrite app_nil_r. splits; [reflexivity|eexists; reflexivity|discriminate|intros e [= <-]; reflexivity]. }
  destruct (encode_prefix_some _ _ _ Ep) as (-> & Hs & Hm). set (p := lenp_prefix k n).
  destruct (_ <? n).
  { intros [= <- <-]. exists []. rewrite app_nil_r. splits; [reflexivity|eexists; reflexivity|discriminate|intros e [= <-]; reflexivity]. }
  destruct (sink_put_chunk snk0 p _) as [[r1 k1]|] eqn:E1; [|discriminate].
  destruct (put_chunk_exact _ _ _ _ _ E1) as (s1 & G1 & (rest1 & X1) & L1 & R1).
  rewrite Nat2N.id, firstn_all in X1, L1.
  destruct r1 as [c1|e1].
  2:{ intros [= <- <-]. exists s1. splits; [exact G1|exists (rest1 ++ firstn (N.to_nat n) xs); apply prefix_app_r; exact X1|discriminate|].
      intros e [= <-]. apply R1. reflexivity. }
  destruct (L1 c1 eq_refl) as [_ ->].
  destruct (sink_put_chunk k1 xs n) as [[r2 k2]|] eqn:E2; [|discriminate].
  destruct (put_chunk_exact _ _ _ _ _ E2) as (s2 & G2 & (rest2 & X2) & L2 & R2).
  destruct r2 as [c2|e2]; intros [= <- <-].
  - destruct (L2 c2 eq_refl) as [_ ->]. exists (p ++ firstn (N.to_nat n) xs). rewrite G2, G1, app_assoc.
    splits; [reflexivity|exists []; rewrite app_nil_r; reflexivity|intros c [= <-]; auto|discriminate].
  - exists (p ++ s2). rewrite G2, G1, app_assoc.
    splits; [reflexivity|exists rest2; rewrite X2; apply app_assoc|discriminate|intros e [= <-]; apply R2; reflexivity].
Qed.

(* ---------- decoding from ANY source into ANY sink (fixed-width kinds) ---------- *)
Lemma fixed_prefix_facts k n : k <> LVar -> n <= lk_max k ->
  N.of_nat (length (lenp_prefix k n)) = lk_size k /\
  (match k with LBe16 | LBe32 => of_be (lenp_prefix k n) | _ => of_le (lenp_prefix k n) end) = n.
Proof.
  intros Hk Hm. destruct k; try contradiction; cbn [lenp_prefix lk_size lk_max length] in *;
    rewrite ?le_bytes_length, ?be_bytes_length; (split; [reflexivity|]).
  - cbn. lia.
  - apply (of_le_le_bytes 2); cbn; lia.
  - apply (of_le_le_bytes 4); cbn; lia.
  - apply (of_be_be_bytes 2); cbn; lia.
  - apply (of_be_be_bytes 4); cbn; lia.
Qed.

Lemma decode_prefix_fixed k s n tail len s1 : k <> LVar -> n <= lk_max k ->
  s_stream s = lenp_prefix k n ++ tail -> decode_prefix k s = Some (DOk len, s1) ->
  len = n /\ s_stream s1 = tail.
Proof.
  intros Hk Hm Hs H. destruct (fixed_prefix_facts k n Hk Hm) as [Hpl Hval].
  assert (E1 : exists r1 d1 s1', source_get_chunk s (lk_size k) = Some (r1, d1, s1')).
  { pose proof (get_chunk_total s (lk_size k)). destruct (source_get_chunk s _) as [[[? ?] ?]|]; [eauto|congruence]. }
  destruct E1 as (r1 & d1 & s1' & E1).
  assert (H' : match r1 with
               | DErr e => Some (DErr e, s1')
               | DOk _ => Some (DOk (match k with LBe16 | LBe32 => of_be d1 | _ => of_le d1 end), s1')
               end = Some (DOk len, s1)).
  { unfold decode_prefix in H. destruct k; try contradiction; rewrite E1 in H; destruct r1; exact H. }
  clear H. destruct (get_chunk_exact _ _ _ _ _ E1) as (P1 & L1 & _).
  destruct r1 as [c1|e1]; [|discriminate].
  destruct (L1 c1 eq_refl) as (_ & Ld & Hd1).
  rewrite Hs in Hd1. rewrite firstn_app_len in Hd1 by lia.
  rewrite Hs in P1. rewrite Hd1 in P1. apply app_inv_head in P1.
  injection H' as <- <-. rewrite Hd1. auto.
Qed.

(* a reported success means: exactly the framed octets were handed to the sink, in order, and the source stands right
   behind the frame; otherwise what reached the sink is a prefix of the payload *)
Theorem decode_to_sink_fixed k s snk0 n payload r res s' k' :
  k <> LVar -> n <= lk_max k -> N.of_nat (length payload) = n ->
  s_stream s = lenp_prefix k n ++ payload ++ r ->
  lenp_decode_source_to_sink k s snk0 = Some (res, s', k') ->
  exists moved, k_got k' = k_got snk0 ++ moved /\ (exists rest, payload ++ r = moved ++ rest) /\
    (forall c, res = DOk c -> c = n /\ moved = payload /\ s_stream s' = r).
Proof.
  intros Hk Hm Hl Hs H. unfold lenp_decode_source_to_sink in H.
  destruct (decode_prefix k s) as [[[len|e] s1]|] eqn:D; [| |discriminate].
  - destruct (decode_prefix_fixed _ _ _ _ _ _ Hk Hm Hs D) as [-> Hs1].
    destruct (sts_n_spec _ _ _ _ _ _ H) as (moved & lost & P & G & _ & L).
    exists moved. splits; auto.
    + exists (lost ++ s_stream s'). rewrite <- Hs1. exact P.
    + intros c Hc. destruct (L c Hc) as (-> & Hmv & Hlen & ->). splits; auto.
      * rewrite Hmv, Hs1. apply firstn_app_len. lia.
      * cbn [app] in P. rewrite Hs1 in P. rewrite Hmv, Hs1 in P. rewrite firstn_app_len in P by lia.
        apply app_inv_head in P. auto.
  - injection H as <- <- <-. exists []. rewrite app_nil_r. splits; auto; [eexists; reflexivity|discriminate].
Qed.

(* ---------- varint prefix from ANY source ---------- *)
From Ufw Require Import Proof.VarintLemmas.

(* whatever the driver does, a successful varint read consumed exactly the octets the list decoder reads *)
Lemma from_source_any fuel : forall s i acc u c s', vi_from_source_loop fuel s i acc = (SOk u c, s') ->
  exists consumed, s_stream s = consumed ++ s_stream s' /\ N.of_nat (length consumed) = c - i /\ i < c /\
    forall tail, dec_list fuel (consumed ++ tail) i acc = VOk u c.
Proof.
  induction fuel as [|f IH]; intros s i acc u c s' H; [discriminate|]. cbn [vi_from_source_loop] in H.
  destruct (source_get_octet s) as [[r d] s1] eqn:G.
  destruct (get_octet_measure _ _ _ _ G) as (P & M & _).
  destruct r as [k|e]; [|discriminate]. destruct d as [|x t]; [discriminate|].
  destruct (M k eq_refl) as [_ Hl]. destruct t; [|cbn in Hl; lia]. cbn [app] in P.
  destruct (N.land x 128 =? 0) eqn:Ex.
  - injection H as <- <- <-. exists [x]. rewrite <- P. splits; [reflexivity|cbn; lia|lia|].
    intros tail. cbn [app dec_list]. rewrite Ex. reflexivity.
  - destruct (IH _ _ _ _ _ _ H) as (cons & P2 & L2 & Hic & D2).
    exists (x :: cons). rewrite <- P, P2. splits; [reflexivity|cbn [length]; lia|lia|].
    intros tail. cbn [app dec_list]. rewrite Ex. apply D2.
Qed.

Theorem memory_from_source_var_any s size n payload r c d s' :
  n < 2 ^ 64 -> N.of_nat (length payload) = n -> s_stream s = vi_encode n ++ payload ++ r ->
  lenp_memory_from_source LVar s size = Some (DOk c, d, s') ->
  c = n /\ d = payload /\ s_stream s' = r /\ n <= size.
Proof.
  intros Hn Hl Hs H. unfold lenp_memory_from_source, decode_prefix, vi_from_source in H.
  change (N.to_nat (vk_max KU64)) with 10%nat in H.
  destruct (vi_from_source_loop 10 s 0 0) as [res s1] eqn:E.
  destruct res as [u cnt| |e]; try discriminate.
  destruct (from_source_any _ _ _ _ _ _ _ E) as (cons & P & L & _ & D).
  pose proof (decode_list_roundtrip n (payload ++ r) 10 Hn ltac:(lia)) as R.
  (* the consumed octets and the encoding are both prefixes of the stream and decode alike *)
  assert (Hc : cons = vi_encode n /\ u = n).
  { rewrite Hs in P.
    pose proof (D (s_stream s1)) as D1. rewrite <- P in D1. rewrite R in D1. injection D1 as <- <-.
    split; [|reflexivity].
    rewrite N.sub_0_r, <- encode_length in L. apply Nat2N.inj in L.
    destruct (app_inv_len _ _ _ _ P (eq_sym L)) as [E1 _]. symmetry. exact E1. }
  destruct Hc as [-> ->]. rewrite Hs in P. apply app_inv_head in P.
  destruct (N.ltb_spec size n); [discriminate|].
  destruct (get_chunk_exact _ _ _ _ _ H) as (P2 & L2 & _).
  destruct (L2 c eq_refl) as (-> & Ld2 & Hd2).
  rewrite <- P in Hd2. rewrite firstn_app_len in Hd2 by lia.
  rewrite <- P, Hd2 in P2. apply app_inv_head in P2. auto.
Qed.

(* ---------- decoding into a buffer: the payload is appended to the filled region ---------- *)
From Ufw Require Import Proof.ByteBufferLemmas Proof.ListLemmas.

Lemma filled_after_append b d : bb_inv b -> N.of_nat (length d) <= bb_avail b ->
  let b' := {| bb_mem := blit (bb_mem b) (N.to_nat (bb_used b)) d; bb_size := bb_size b; bb_used := bb_used b + N.of_nat (length d); bb_offset := bb_offset b |} in
  bb_filled b' = bb_filled b ++ d /\ bb_inv b'.
Proof.
  intros Hi Ha. destruct (add_accepted b d (N.of_nat (length d)) Hi Ha ltac:(lia)) as (b1 & A & F & O & U & S & _ & _ & I).
  unfold bb_add in A. destruct (N.ltb_spec (bb_avail b) (N.of_nat (length d))); [lia|]. injection A as <-.
  rewrite Nat2N.id, firstn_all in *. cbv zeta. split; [exact F|exact I].
Qed.

Theorem buffer_from_source_fixed k s b n payload r c s' b' :
  k <> LVar -> n <= lk_max k -> N.of_nat (length payload) = n -> bb_inv b ->
  s_stream s = lenp_prefix k n ++ payload ++ r ->
  lenp_buffer_from_source k s b = Some (DOk c, s', b') ->
  c = n /\ bb_filled b' = bb_filled b ++ payload /\ bb_offset b' = bb_offset b /\ bb_size b' = bb_size b /\ s_stream s' = r /\ bb_inv b'.
Proof.
  intros Hk Hm Hl Hi Hs H. unfold lenp_buffer_from_source in H.
  destruct (lenp_memory_from_source k s (bb_avail b)) as [[[rc d] s1]|] eqn:M; [|discriminate].
  destruct rc as [c1|e]; [|discriminate]. injection H as <- <- <-.
  destruct (memory_from_source_fixed _ _ _ _ _ _ _ _ _ Hk Hm Hl Hs M) as (-> & -> & Hr & Hn).
  rewrite <- Hl in Hn. destruct (filled_after_append b payload Hi Hn) as [F I]. cbv zeta in F, I. rewrite Hl in *.
  split; [reflexivity|]. split; [exact F|]. split; [reflexivity|]. split; [reflexivity|]. split; [exact Hr|exact I].
Qed.

(* destination buffer too small: an error, and the buffer is as it was *)
Theorem buffer_from_source_enomem k s b n payload r rc s' b' :
  k <> LVar -> n <= lk_max k -> s_stream s = lenp_prefix k n ++ payload ++ r -> bb_avail b < n ->
  lenp_buffer_from_source k s b = Some (rc, s', b') ->
  (forall c, rc <> DOk c) /\ b' = b.
Proof.
  intros Hk Hm Hs Hlt H. unfold lenp_buffer_from_source in H.
  destruct (lenp_memory_from_source k s (bb_avail b)) as [[[rc1 d] s1]|] eqn:M; [|discriminate].
  destruct (memory_from_source_enomem _ _ _ _ _ _ _ _ _ Hk Hm Hs Hlt M) as [Hne ->].
  destruct rc1 as [c1|e]; [exfalso; apply (Hne c1); reflexivity|]. injection H as <- <- <-.
  split; [discriminate|]. unfold bb_with_mem. cbn [blit]. destruct b; reflexivity.
Qed.
