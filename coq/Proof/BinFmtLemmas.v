From Ufw Require Import Base.Bits Base.Cexpr Model.BinFmt Proof.ListLemmas.
From Coq Require Import Lia ZArith.
Local Open Scope Z_scope.

Lemma lebZ_length k v : List.length (lebZ k v) = k.
Proof. revert v; induction k; intros; cbn; auto. Qed.

Lemma lebZ_octets k : forall v, octetsZ (lebZ k v).
Proof.
  induction k as [|k IH]; intros v; cbn; constructor; [apply Z.mod_pos_bound; lia|apply IH].
Qed.

Lemma oflZ_range l : octetsZ l -> 0 <= oflZ l < 256 ^ Z.of_nat (List.length l).
Proof.
  induction 1 as [|b l Hb Hl IH]; [cbn; lia|].
  cbn [oflZ List.length]. rewrite Nat2Z.inj_succ, Z.pow_succ_r by lia. lia.
Qed.

Lemma oflZ_lebZ k : forall v, oflZ (lebZ k v) = v mod 256 ^ Z.of_nat k.
Proof.
  induction k as [|k IH]; intros v; [cbn; rewrite Z.mod_1_r; reflexivity|].
  cbn [lebZ oflZ]. rewrite IH, Nat2Z.inj_succ, Z.pow_succ_r by lia.
  rewrite Z.rem_mul_r by lia. reflexivity.
Qed.

Lemma lebZ_oflZ l : octetsZ l -> lebZ (List.length l) (oflZ l) = l.
Proof.
  induction 1 as [|b l Hb Hl IH]; [reflexivity|].
  cbn [List.length lebZ oflZ]. f_equal.
  - rewrite (Z.mul_comm 256), Z.mod_add by lia. apply Z.mod_small. exact Hb.
  - rewrite (Z.mul_comm 256), Z.div_add by lia. rewrite Z.div_small by exact Hb. rewrite Z.add_0_l. exact IH.
Qed.

(* the k low octets depend on v modulo 256^k' only (k <= k') *)
Lemma lebZ_mod k : forall k' v, (k <= k')%nat -> lebZ k (v mod 256 ^ Z.of_nat k') = lebZ k v.
Proof.
  induction k as [|k IH]; intros k' v H; [reflexivity|].
  destruct k' as [|k']; [lia|]. cbn [lebZ].
  rewrite Nat2Z.inj_succ, Z.pow_succ_r by lia. f_equal.
  - rewrite Z.rem_mul_r by lia. rewrite (Z.mul_comm 256), Z.mod_add by lia. apply Z.mod_mod. lia.
  - rewrite Z.rem_mul_r by lia. rewrite (Z.mul_comm 256), Z.div_add by lia.
    rewrite (Z.div_small (v mod 256)) by (apply Z.mod_pos_bound; lia). rewrite Z.add_0_l.
    apply IH. lia.
Qed.

Lemma pow256 k : 256 ^ Z.of_nat k = 2 ^ (8 * Z.of_nat k).
Proof. rewrite Z.pow_mul_r by lia. reflexivity. Qed.

Lemma norm_u_mod w v : norm (Ity false w) v = v mod 2 ^ w.
Proof. reflexivity. Qed.

(* reading: rd is a list of octets when the memory is *)
Lemma rd_octets mem pos k : octetsZ mem -> octetsZ (rd mem pos k).
Proof.
  intros H. unfold rd, octetsZ. apply Forall_forall. intros x Hx. apply in_map_iff in Hx as (j & <- & _).
  destruct (Nat.lt_ge_cases (pos + j) (List.length mem)) as [Hl|Hl].
  - unfold octetsZ in H. rewrite Forall_forall in H. apply H. apply nth_In. exact Hl.
  - rewrite nth_overflow by exact Hl. lia.
Qed.
Lemma rd_length mem pos k : List.length (rd mem pos k) = k.
Proof. unfold rd. rewrite map_length, seq_length. reflexivity. Qed.

(* octet reversal *)
Lemma bswap_of_le l : octetsZ l -> bswap (List.length l) (oflZ l) = ofbZ l.
Proof. intros H. unfold bswap, ofbZ. rewrite lebZ_oflZ by exact H. reflexivity. Qed.

Lemma rev_octets l : octetsZ l -> octetsZ (rev l).
Proof. unfold octetsZ. intros H. apply Forall_rev. exact H. Qed.

Lemma bswap_of_be l : octetsZ l -> bswap (List.length l) (ofbZ l) = oflZ l.
Proof.
  intros H. unfold ofbZ. rewrite <- (rev_length l). rewrite bswap_of_le by (apply rev_octets; exact H).
  unfold ofbZ. rewrite rev_involutive. reflexivity.
Qed.

Lemma lebZ_bswap k v : lebZ k (bswap k v) = rev (lebZ k v).
Proof.
  unfold bswap. set (l := rev (lebZ k v)).
  assert (Hl : List.length l = k) by (unfold l; rewrite rev_length, lebZ_length; reflexivity).
  rewrite <- Hl at 1. apply lebZ_oflZ. unfold l. apply rev_octets, lebZ_octets.
Qed.

(* two's complement *)
Lemma as_signed_spec w u : 0 < w -> 0 <= u < 2 ^ w ->
  as_signed w u = if u <? 2 ^ (w - 1) then u else u - 2 ^ w.
Proof.
  intros Hw Hu. unfold as_signed, norm.
  assert (E : 2 ^ w = 2 * 2 ^ (w - 1)) by (rewrite <- Z.pow_succ_r by lia; f_equal; lia).
  destruct (Z.ltb_spec u (2 ^ (w - 1))).
  - rewrite Z.mod_small by lia. lia.
  - replace (u + 2 ^ (w - 1)) with ((u - 2 ^ (w - 1)) + 1 * 2 ^ w) by lia.
    rewrite Z.mod_add by lia. rewrite Z.mod_small by lia. lia.
Qed.

(* ---------- frame and round trip of the specification vocabulary ---------- *)
Lemma wr_length mem pos xs : List.length (wr mem pos xs) = List.length mem.
Proof. apply blit_length. Qed.

Lemma nth_upd_other {A} (l : list A) i j x d : i <> j -> nth j (upd l i x) d = nth j l d.
Proof. revert i j; induction l as [|a l IH]; intros [|i] [|j] H; cbn in *; try lia; auto. Qed.

(* octets before pos and from pos + |xs| on are untouched *)
Lemma wr_frame xs : forall mem pos i, (i < pos \/ pos + List.length xs <= i)%nat -> nth i (wr mem pos xs) 0 = nth i mem 0.
Proof.
  unfold wr. induction xs as [|x r IH]; intros mem pos i H; cbn [blit List.length] in *; [reflexivity|].
  rewrite IH by lia. apply nth_upd_other. lia.
Qed.

Lemma map_nth_seq {A} (xs : list A) d : map (fun j => nth j xs d) (seq 0 (List.length xs)) = xs.
Proof.
  induction xs as [|x r IH]; [reflexivity|]. cbn [List.length seq map nth]. f_equal.
  rewrite <- seq_shift, map_map. exact IH.
Qed.

Lemma rd_wr mem pos xs : (pos + List.length xs <= List.length mem)%nat -> rd (wr mem pos xs) pos (List.length xs) = xs.
Proof.
  intros H. unfold rd, wr. rewrite blit_spec by exact H.
  etransitivity; [|apply (map_nth_seq xs 0)]. apply map_ext_in. intros j Hj. apply in_seq in Hj.
  assert (Hp : List.length (firstn pos mem) = pos) by (apply firstn_length_le; lia).
  rewrite <- Hp at 1. rewrite app_nth2_plus. apply app_nth1. lia.
Qed.

Lemma ofbZ_bebZ k v : ofbZ (bebZ k v) = v mod 256 ^ Z.of_nat k.
Proof. unfold ofbZ, bebZ. rewrite rev_involutive. apply oflZ_lebZ. Qed.

Lemma bswap_involutive k v : 0 <= v < 256 ^ Z.of_nat k -> bswap k (bswap k v) = v.
Proof.
  intros H. unfold bswap at 1. rewrite lebZ_bswap, rev_involutive, oflZ_lebZ. apply Z.mod_small. exact H.
Qed.

Lemma bswap_range k v : 0 <= bswap k v < 256 ^ Z.of_nat k.
Proof.
  unfold bswap. pose proof (oflZ_range (rev (lebZ k v)) (rev_octets _ (lebZ_octets k v))) as R.
  rewrite rev_length, lebZ_length in R. exact R.
Qed.

(* storing a signed value and loading it with sign extension returns it *)
Lemma sext_mod w v : 0 < w -> - 2 ^ (w - 1) <= v < 2 ^ (w - 1) -> sextZ w (v mod 2 ^ w) = v.
Proof.
  intros Hw Hv. unfold sextZ, norm.
  assert (E : 2 ^ w = 2 * 2 ^ (w - 1)) by (rewrite <- Z.pow_succ_r by lia; f_equal; lia).
  rewrite Zplus_mod_idemp_l. rewrite Z.mod_small by lia. lia.
Qed.
