(* Endpoints (C17): the retry loops terminate for every driver script, and the source-to-sink plumbing moves a prefix. *)
From Ufw Require Import Base.Bits Base.Errno Model.Endpoints Proof.EndpointsLemmas.
From Coq Require Import Lia Bool ZifyN ZifyBool ZifyNat.
Local Open Scope N_scope.
Local Open Scope bool_scope.

(* ---------- every driver call either uses up a script event or, on an exhausted script, makes progress or ends ---------- *)
Definition src_measure (s : src) (rest : N) : nat :=
  (length (s_script s) + N.to_nat (N.min rest (N.of_nat (length (s_stream s)))))%nat.

Lemma octet_call_measure s r d s' rest : src_octet_call s = (r, d, s') -> rest <> 0 ->
  (r = DErr ENODATA /\ s_script s = []) \/
  (forall k, r = DOk k -> (src_measure s' (rest - k) < src_measure s rest)%nat) /\
  (forall e, r = DErr e -> (src_measure s' rest < src_measure s rest)%nat \/ (e = ENODATA)).
Proof.
  unfold src_octet_call, src_measure. intros H Hr.
  destruct (s_script s) as [|ev sc] eqn:Es; cbn [pop_ev] in H.
  - destruct (s_stream s) as [|x t] eqn:Et; injection H as <- <- <-; [left; auto|right].
    cbn [src_with s_script s_stream length]. split; [intros k [= <-]; lia|discriminate].
  - right. destruct ev as [g| | | |e0].
    + destruct (s_stream s) as [|x t] eqn:Et; injection H as <- <- <-; cbn [src_with s_script s_stream length]; split.
      * discriminate.
      * intros e _. left. lia.
      * intros k [= <-]. lia.
      * discriminate.
    + injection H as <- <- <-. cbn [src_with s_script s_stream length]. split; [intros k [= <-]; lia|discriminate].
    + injection H as <- <- <-. cbn [src_with s_script s_stream length]. split; [discriminate|intros e _; left; lia].
    + injection H as <- <- <-. cbn [src_with s_script s_stream length]. split; [discriminate|intros e _; left; lia].
    + injection H as <- <- <-. cbn [src_with s_script s_stream length]. split; [discriminate|intros e _; left; lia].
Qed.

Lemma adapt_total : forall fuel s rest acc, (src_measure s rest < fuel)%nat -> source_adapt fuel s rest acc <> None.
Proof.
  induction fuel as [|f IH]; intros s rest acc Hm; [lia|]. cbn [source_adapt].
  destruct (N.eqb_spec rest 0); [discriminate|].
  destruct (src_octet_call s) as [[r d] s'] eqn:C.
  destruct (octet_call_measure s r d s' rest C n) as [[-> Hs]|[M1 M2]]; [cbn [is_retry]; discriminate|].
  destruct r as [k|e].
  - apply IH. specialize (M1 k eq_refl). lia.
  - destruct (is_retry e) eqn:Er; [|discriminate]. apply IH.
    destruct (M2 e eq_refl) as [M|E]; [lia|subst e; discriminate].
Qed.

Theorem once_get_total s n : once_source_get_chunk s n <> None.
Proof.
  unfold once_source_get_chunk. destruct (s_octet s); [|discriminate].
  apply adapt_total. unfold src_fuel, src_measure. lia.
Qed.

Lemma octet_call_script s r d s' : src_octet_call s = (r, d, s') -> (length (s_script s') <= length (s_script s))%nat.
Proof.
  unfold src_octet_call. destruct (s_script s) as [|ev sc]; cbn [pop_ev].
  - destruct (s_stream s); intros [= <- <- <-]; cbn; lia.
  - destruct ev as [g| | | |e0]; [destruct (s_stream s)|..]; intros [= <- <- <-]; cbn; lia.
Qed.
Lemma adapt_script_le fuel : forall s rest acc r d s', source_adapt fuel s rest acc = Some (r, d, s') ->
  (length (s_script s') <= length (s_script s))%nat.
Proof.
  induction fuel as [|f IH]; intros s rest acc r d s' H; cbn [source_adapt] in H.
  - destruct (rest =? 0); [injection H as _ _ <-; lia|discriminate].
  - destruct (rest =? 0); [injection H as _ _ <-; lia|].
    destruct (src_octet_call s) as [[r1 d1] s1] eqn:C. pose proof (octet_call_script _ _ _ _ C).
    destruct r1 as [k|e].
    + specialize (IH _ _ _ _ _ _ H). lia.
    + destruct (is_retry e); [specialize (IH _ _ _ _ _ _ H); lia|injection H as _ _ <-; lia].
Qed.

(* the measure after a (multi-octet) read never grows, and shrinks unless the driver ended the stream *)
Lemma once_get_measure s n r d s' : once_source_get_chunk s n = Some (r, d, s') -> n <> 0 ->
  (forall k, r = DOk k -> (src_measure s' (n - k) < src_measure s n)%nat) /\
  (forall e, r = DErr e -> is_retry e = true -> (src_measure s' n < src_measure s n)%nat).
Proof.
  unfold once_source_get_chunk. destruct (s_octet s) eqn:Eo.
  - (* octet driver: the adapter ends with everything or a hard error *)
    intros H Hn. destruct (adapt_spec _ _ _ _ _ _ _ H) as (d' & -> & P & _ & L & R). split.
    + intros k Hk. destruct (L k Hk) as [L1 L2]. cbn [app] in *. unfold src_measure.
      assert (length (s_script s') <= length (s_script s))%nat by (apply (adapt_script_le _ _ _ _ _ _ _ H)).
      assert (Hst : length (s_stream s) = (length d' + length (s_stream s'))%nat) by (rewrite <- P, app_length; reflexivity).
      lia.
    + intros e He Hr. rewrite (R e He) in Hr. discriminate.
  - intros H Hn. injection H as H. unfold src_chunk_call in H. unfold src_measure.
    destruct (s_script s) as [|ev sc] eqn:Es; cbn [pop_ev] in H.
    + destruct (s_stream s) as [|x t] eqn:Et; injection H as <- <- <-; cbn [src_with s_script s_stream].
      * split; [discriminate|intros e [= <-]; discriminate].
      * split; [|discriminate]. intros k [= <-]. rewrite skipn_length. cbn [length] in *. unfold SSIZE_MAX. lia.
    + destruct ev as [g| | | |e0].
      * destruct (s_stream s) as [|x t] eqn:Et; injection H as <- <- <-; cbn [src_with s_script s_stream]; split.
        -- discriminate.
        -- intros e _ _. cbn [length]. lia.
        -- intros k [= <-]. rewrite skipn_length. cbn [length] in *. lia.
        -- discriminate.
      * injection H as <- <- <-. cbn [src_with s_script s_stream]. split; [intros k [= <-]; cbn [length]; lia|discriminate].
      * injection H as <- <- <-. cbn [src_with s_script s_stream]. split; [discriminate|intros e _ _; cbn [length]; lia].
      * injection H as <- <- <-. cbn [src_with s_script s_stream]. split; [discriminate|intros e _ _; cbn [length]; lia].
      * injection H as <- <- <-. cbn [src_with s_script s_stream]. split; [discriminate|intros e _ _; cbn [length]; lia].
Qed.

Lemma get_chunk_loop_total : forall fuel s n rest acc, (src_measure s rest < fuel)%nat -> source_get_chunk_loop fuel s n rest acc <> None.
Proof.
  induction fuel as [|f IH]; intros s n rest acc Hm; [lia|]. cbn [source_get_chunk_loop].
  destruct (N.eqb_spec rest 0) as [|Hr]; [discriminate|].
  pose proof (once_get_total s rest) as T.
  destruct (once_source_get_chunk s rest) as [[[r d] s']|] eqn:O; [|contradiction].
  destruct (once_get_measure _ _ _ _ _ O Hr) as [M1 M2].
  destruct r as [k|e].
  - apply IH. specialize (M1 k eq_refl). lia.
  - destruct (is_retry e) eqn:Er; [|discriminate]. apply IH. specialize (M2 e eq_refl Er). lia.
Qed.

(* reading N octets terminates whatever the driver does *)
Theorem get_chunk_total s n : source_get_chunk s n <> None.
Proof.
  unfold source_get_chunk. destruct ((n =? 0) || (SSIZE_MAX <? n)); [discriminate|].
  apply get_chunk_loop_total. unfold src_fuel, src_measure. lia.
Qed.

(* ---------- sinks ---------- *)
Definition snk_measure (k : snk) (xs : list N) : nat := (length (k_script k) + length xs)%nat.

Lemma snk_octet_call_measure k x r k' : snk_octet_call k x = (r, k') ->
  (length (k_script k') <= length (k_script k))%nat /\
  (forall c, r = DOk c -> c = 0 -> (length (k_script k') < length (k_script k))%nat) /\
  (forall e, r = DErr e -> (length (k_script k') < length (k_script k))%nat).
Proof.
  unfold snk_octet_call. destruct (k_script k) as [|ev sc]; cbn [pop_ev].
  - intros [= <- <-]. cbn. repeat split; [lia|intros c [= <-]; discriminate|discriminate].
  - destruct ev as [g| | | |e0]; intros [= <- <-]; cbn; repeat split; try lia; try discriminate; intros; lia.
Qed.

Lemma sink_adapt_total : forall fuel k n xs, (snk_measure k xs < fuel)%nat -> sink_adapt fuel k n xs <> None.
Proof.
  induction fuel as [|f IH]; intros k n xs Hm; [lia|]. destruct xs as [|x r]; [discriminate|]. cbn [sink_adapt].
  destruct (snk_octet_call k x) as [res k'] eqn:C. destruct (snk_octet_call_measure _ _ _ _ C) as (M0 & M1 & M2).
  unfold snk_measure in *. cbn [length] in *.
  destruct res as [c|e].
  - destruct (N.eqb_spec c 0) as [E|E]; apply IH; unfold snk_measure; cbn [length]; [specialize (M1 c eq_refl E)|]; lia.
  - destruct (is_retry e); [|discriminate]. apply IH. unfold snk_measure. cbn [length]. specialize (M2 e eq_refl). lia.
Qed.

Theorem once_put_total k xs : once_sink_put_chunk k xs <> None.
Proof.
  unfold once_sink_put_chunk. destruct (k_octet k); [|discriminate].
  apply sink_adapt_total. unfold snk_fuel, snk_measure. lia.
Qed.

Lemma sink_adapt_script_le fuel : forall k n xs r k', sink_adapt fuel k n xs = Some (r, k') ->
  (length (k_script k') <= length (k_script k))%nat.
Proof.
  induction fuel as [|f IH]; intros k n xs r k' H; destruct xs as [|x t]; cbn [sink_adapt] in H; try discriminate;
    try (injection H as _ <-; lia).
  destruct (snk_octet_call k x) as [res k1] eqn:C. destruct (snk_octet_call_measure _ _ _ _ C) as (M0 & _ & _).
  destruct res as [c|e].
  - destruct (c =? 0); specialize (IH _ _ _ _ _ H); lia.
  - destruct (is_retry e); [specialize (IH _ _ _ _ _ H); lia|injection H as _ <-; lia].
Qed.

Lemma once_put_measure k xs r k' : once_sink_put_chunk k xs = Some (r, k') -> xs <> [] ->
  (forall c, r = DOk c -> (snk_measure k' (skipn (N.to_nat c) xs) < snk_measure k xs)%nat) /\
  (forall e, r = DErr e -> is_retry e = true -> (snk_measure k' xs < snk_measure k xs)%nat).
Proof.
  unfold once_sink_put_chunk. destruct (k_octet k) eqn:Eo.
  - intros H Hne. pose proof (sink_adapt_script_le _ _ _ _ _ _ H) as Hs.
    destruct (sink_adapt_spec _ _ _ _ _ _ H) as (sent & _ & _ & _ & L & R). unfold snk_measure. split.
    + intros c Hc. destruct (L c Hc) as [L1 L2]. subst c. rewrite skipn_length.
      destruct xs as [|x t]; [contradiction|]. cbn [length]. lia.
    + intros e He Hr. rewrite (R e He) in Hr. discriminate.
  - intros H Hne. injection H as H. unfold snk_chunk_call in H. unfold snk_measure.
    destruct xs as [|x t]; [contradiction|].
    destruct (k_script k) as [|ev sc]; cbn [pop_ev] in H.
    + injection H as <- <-. cbn [snk_with k_script]. split; [|discriminate]. intros c [= <-].
      rewrite skipn_length. cbn [length]. unfold SSIZE_MAX. lia.
    + destruct ev as [g| | | |e0]; injection H as <- <-; cbn [snk_with k_script length]; split;
        try discriminate; try (intros c [= <-]; rewrite ?skipn_length; cbn [length skipn]; lia); intros e _ _; lia.
Qed.

Lemma put_chunk_loop_total : forall fuel k n xs, (snk_measure k xs < fuel)%nat -> sink_put_chunk_loop fuel k n xs <> None.
Proof.
  induction fuel as [|f IH]; intros k n xs Hm; [lia|]. destruct xs as [|x t] eqn:Ex; [discriminate|]. rewrite <- Ex in *.
  assert (Hne : xs <> []) by (rewrite Ex; discriminate).
  replace (sink_put_chunk_loop (S f) k n xs) with
    (match once_sink_put_chunk k xs with
     | None => None
     | Some (DErr e, k') => if is_retry e then sink_put_chunk_loop f k' n xs else Some (DErr e, k')
     | Some (DOk c, k') => sink_put_chunk_loop f k' n (skipn (N.to_nat c) xs)
     end) by (rewrite Ex; reflexivity).
  pose proof (once_put_total k xs) as T.
  destruct (once_sink_put_chunk k xs) as [[r k']|] eqn:O; [|contradiction].
  destruct (once_put_measure _ _ _ _ O Hne) as [M1 M2].
  destruct r as [c|e].
  - apply IH. specialize (M1 c eq_refl). lia.
  - destruct (is_retry e) eqn:Er; [|discriminate]. apply IH. specialize (M2 e eq_refl Er). lia.
Qed.

(* writing N octets terminates whatever the driver does *)
Theorem put_chunk_total k xs n : sink_put_chunk k xs n <> None.
Proof.
  unfold sink_put_chunk. destruct ((n =? 0) || (SSIZE_MAX <? n)); [discriminate|].
  apply put_chunk_loop_total. unfold snk_fuel, snk_measure. rewrite firstn_length. lia.
Qed.

(* ---------- source-to-sink plumbing without auxiliary buffer ---------- *)
Lemma get_octet_measure s r d s' : source_get_octet s = (r, d, s') ->
  d ++ s_stream s' = s_stream s /\
  (forall c, r = DOk c ->
     (length (s_script s') + length (s_stream s') < length (s_script s) + length (s_stream s))%nat /\ (length d <= 1)%nat) /\
  (forall e, r = DErr e -> d = []).
Proof.
  unfold source_get_octet. destruct (s_octet s).
  - intros H. destruct (octet_call_prefix _ _ _ _ H) as (P & _ & L & Z). split; [exact P|]. split; [|exact Z].
    intros c Hc. destruct (L c Hc) as [L1 L2]. split; [|lia].
    pose proof (octet_call_script _ _ _ _ H) as Hs. subst r.
    unfold src_octet_call in H. destruct (s_script s) as [|ev sc]; cbn [pop_ev] in H.
    + destruct (s_stream s) as [|x t]; [discriminate|]. injection H as _ <- <-. cbn. lia.
    + destruct ev as [g| | | |e0]; [destruct (s_stream s) as [|x t]|..]; try discriminate; injection H as _ <- <-; cbn; lia.
  - intros H. destruct (chunk_call_prefix _ _ _ _ _ H) as (P & _ & L & Z). split; [exact P|]. split; [|exact Z].
    intros c Hc. destruct (L c Hc) as [L1 L2]. split; [|lia]. subst r.
    unfold src_chunk_call in H. destruct (s_script s) as [|ev sc]; cbn [pop_ev] in H.
    + destruct (s_stream s) as [|x t] eqn:Et; [discriminate|]. injection H as _ <- <-. cbn [src_with s_script s_stream].
      rewrite skipn_length. cbn [length]. unfold SSIZE_MAX. lia.
    + destruct ev as [g| | | |e0]; [destruct (s_stream s) as [|x t]|..]; try discriminate; injection H as _ <- <-;
        cbn [src_with s_script s_stream]; rewrite ?skipn_length; cbn [length]; lia.
Qed.

Lemma put_octet_script k x r k' : sink_put_octet k x = (r, k') -> (length (k_script k') <= length (k_script k))%nat.
Proof.
  unfold sink_put_octet, snk_octet_call, snk_chunk_call. destruct (k_octet k); destruct (k_script k) as [|ev sc]; cbn [pop_ev];
    try (intros [= <- <-]; cbn; lia); destruct ev; intros [= <- <-]; cbn; lia.
Qed.

Definition sts_measure (s : src) (k : snk) : nat := (length (s_script s) + length (s_stream s))%nat.

Ltac splits := repeat match goal with |- _ /\ _ => split end.

Lemma get_octet_script s r d s' : source_get_octet s = (r, d, s') -> (length (s_script s') <= length (s_script s))%nat.
Proof.
  unfold source_get_octet, src_octet_call, src_chunk_call.
  destruct (s_octet s); destruct (s_script s) as [|ev sc]; cbn [pop_ev];
    try (destruct (s_stream s); intros [= <- <- <-]; cbn; lia);
    destruct ev; try (intros [= <- <- <-]; cbn; lia); destruct (s_stream s); intros [= <- <- <-]; cbn; lia.
Qed.

(* the repeated single-octet read: an octet, or an error with nothing consumed from the stream; never "nothing" *)
Lemma get_octet_nz_spec : forall sc s r d s', (length (s_script s) <= length sc)%nat -> get_octet_nz sc s = (r, d, s') ->
  d ++ s_stream s' = s_stream s /\ (length (s_script s') <= length (s_script s))%nat /\
  (forall c, r = DOk c -> length d = 1%nat) /\
  (forall e, r = DErr e -> d = []).
Proof.
  induction sc as [|ev0 sc IH]; intros s r d s' Hl H; cbn [get_octet_nz] in H;
    destruct (source_get_octet s) as [[r1 d1] s1] eqn:G;
    pose proof (get_octet_script _ _ _ _ G) as Hsc;
    destruct (get_octet_measure _ _ _ _ G) as (P & M & Z).
  - destruct r1 as [c|e].
    + destruct (M c eq_refl) as [M1 M2]. destruct d1 as [|x t].
      * cbn [app] in P. rewrite P in M1. cbn [length] in Hl. lia.
      * injection H as <- <- <-. splits; [exact P|exact Hsc|intros c' _; cbn [length] in *; lia|discriminate].
    + injection H as <- <- <-. splits; [exact P|exact Hsc|discriminate|exact Z].
  - destruct r1 as [c|e].
    + destruct (M c eq_refl) as [M1 M2]. destruct d1 as [|x t].
      * cbn [app] in P. rewrite P in M1.
        destruct (IH s1 r d s') as (P2 & S2 & L2 & Z2); [cbn [length] in Hl; lia|exact H|].
        rewrite <- P. splits; [exact P2|lia|exact L2|exact Z2].
      * injection H as <- <- <-. splits; [exact P|exact Hsc|intros c' _; cbn [length] in *; lia|discriminate].
    + injection H as <- <- <-. splits; [exact P|exact Hsc|discriminate|exact Z].
Qed.

Lemma put_octet_cases k x r k' : sink_put_octet k x = (r, k') ->
  (r = DOk 1 /\ k_got k' = k_got k ++ [x]) \/ (r = DOk 0 /\ k_got k' = k_got k /\ (length (k_script k') < length (k_script k))%nat) \/
  (exists e, r = DErr e /\ k_got k' = k_got k).
Proof.
  unfold sink_put_octet, snk_octet_call, snk_chunk_call.
  destruct (k_octet k); destruct (k_script k) as [|ev sc] eqn:Es; cbn [pop_ev].
  - intros [= <- <-]. left. auto.
  - destruct ev as [g| | | |e0]; intros [= <- <-]; cbn [snk_with k_script k_got length];
      [left; auto|right; left; splits; auto; lia|right; right; eauto..].
  - intros [= <- <-]. left. cbn. auto.
  - destruct ev as [g| | | |e0]; intros [= <- <-]; cbn [snk_with k_script k_got length];
      [|right; left; splits; auto; lia|right; right; eauto..].
    cbn [length N.of_nat Pos.of_succ_nat]. destruct (N.eq_dec g 0) as [->|Hg].
    + right; left. cbn. rewrite app_nil_r. splits; auto.
    + left. replace (N.min g 1) with 1 by lia. auto.
Qed.

(* the repeated single-octet write: the octet is in the sink, or an error and the sink is unchanged *)
Lemma put_octet_nz_spec : forall sc k x r k', (length (k_script k) <= length sc)%nat -> put_octet_nz sc k x = (r, k') ->
  (length (k_script k') <= length (k_script k))%nat /\
  ((r = DOk 1 /\ k_got k' = k_got k ++ [x]) \/ (exists e, r = DErr e /\ k_got k' = k_got k)).
Proof.
  induction sc as [|ev0 sc IH]; intros k x r k' Hl H; cbn [put_octet_nz] in H;
    destruct (sink_put_octet k x) as [r1 k1] eqn:E;
    pose proof (put_octet_script _ _ _ _ E) as Hsc;
    destruct (put_octet_cases _ _ _ _ E) as [[-> G]|[(-> & G & Hlt)|(e & -> & G)]].
  - cbn in H. injection H as <- <-. split; [exact Hsc|left; auto].
  - cbn [length] in Hl. lia.
  - injection H as <- <-. split; [exact Hsc|right; eauto].
  - cbn in H. injection H as <- <-. split; [exact Hsc|left; auto].
  - cbn [N.eqb] in H. destruct (IH k1 x r k') as (S2 & C2); [cbn [length] in Hl; lia|exact H|].
    split; [lia|]. rewrite G in C2. exact C2.
  - injection H as <- <-. split; [exact Hsc|right; eauto].
Qed.

(* one octet through, for EVERY source and EVERY sink script: what reached the sink plus at most one lost octet plus what
   the source still holds is the stream; a success moved exactly one octet *)
Lemma sts_cbc_spec s k r s' k' : sts_cbc s k = (r, s', k') ->
  (length (s_script s') <= length (s_script s))%nat /\ (length (k_script k') <= length (k_script k))%nat /\
  exists moved lost, s_stream s = moved ++ lost ++ s_stream s' /\ k_got k' = k_got k ++ moved /\
    (forall c, r = DOk c -> c = 1 /\ length moved = 1%nat /\ lost = []) /\
    (forall e, r = DErr e -> moved = [] /\ (length lost <= 1)%nat).
Proof.
  unfold sts_cbc. destruct (get_octet_nz (s_script s) s) as [[r1 d] s1] eqn:G.
  destruct (get_octet_nz_spec _ _ _ _ _ (le_n _) G) as (P & Sc & L & Z).
  destruct r1 as [c1|e].
  - specialize (L c1 eq_refl). destruct d as [|x d']; [discriminate|]. destruct d'; [|discriminate].
    destruct (put_octet_nz (k_script k) k x) as [r2 k2] eqn:E. intros [= <- <- <-].
    destruct (put_octet_nz_spec _ _ _ _ _ (le_n _) E) as (Sk & [[-> Hg]|(e & -> & Hg)]); (split; [exact Sc|]); (split; [exact Sk|]).
    + exists [x], []. cbn [app] in *. rewrite Hg. splits; [symmetry; exact P|reflexivity|intros c [= <-]; auto|discriminate].
    + exists [], [x]. cbn [app] in *. rewrite Hg, app_nil_r. splits; [symmetry; exact P|reflexivity|discriminate|intros e' _; auto].
  - intros [= <- <- <-]. rewrite (Z e eq_refl) in P. cbn [app] in P. split; [exact Sc|]. split; [lia|].
    exists [], []. cbn [app]. rewrite app_nil_r. splits; [symmetry; exact P|reflexivity|discriminate|intros e' _; auto].
Qed.

Lemma sts_cbc_measure s k r s' k' : sts_cbc s k = (r, s', k') ->
  forall c, r = DOk c -> (sts_measure s' k' < sts_measure s k)%nat.
Proof.
  intros H c ->. destruct (sts_cbc_spec _ _ _ _ _ H) as (Sc & Sk & moved & lost & P & _ & L & _).
  destruct (L c eq_refl) as (_ & Lm & ->). unfold sts_measure. rewrite P, app_length. cbn [app]. lia.
Qed.

Definition stsn_measure (s : src) (k : snk) (rest : N) : nat :=
  (length (s_script s) + length (k_script k) + N.to_nat (N.min rest (N.of_nat (length (s_stream s)))))%nat.

Lemma sts_cbc_measure_n s k r s' k' rest : sts_cbc s k = (r, s', k') -> rest <> 0 ->
  forall c, r = DOk c -> (stsn_measure s' k' (rest - c) < stsn_measure s k rest)%nat.
Proof.
  intros H Hr c ->. destruct (sts_cbc_spec _ _ _ _ _ H) as (Sc & Sk & moved & lost & P & _ & L & _).
  destruct (L c eq_refl) as (-> & Lm & ->). unfold stsn_measure. rewrite P, app_length. cbn [app]. lia.
Qed.

Lemma sts_n_loop_total : forall fuel total rest s k, (stsn_measure s k rest < fuel)%nat -> sts_n_loop fuel total rest s k <> None.
Proof.
  induction fuel as [|f IH]; intros total rest s k Hm; [lia|]. cbn [sts_n_loop].
  destruct (N.eqb_spec rest 0) as [|Hr]; [discriminate|].
  destruct (sts_cbc s k) as [[r s'] k'] eqn:C. destruct r as [c|e]; [|discriminate].
  apply IH. pose proof (sts_cbc_measure_n _ _ _ _ _ rest C Hr c eq_refl). lia.
Qed.

Lemma sts_drain_cbc_total : forall fuel s k, (sts_measure s k < fuel)%nat -> sts_drain_cbc fuel s k <> None.
Proof.
  induction fuel as [|f IH]; intros s k Hm; [lia|]. cbn [sts_drain_cbc].
  destruct (sts_cbc s k) as [[r s'] k'] eqn:C. destruct r as [c|e]; [|discriminate].
  apply IH. pose proof (sts_cbc_measure _ _ _ _ _ C c eq_refl). lia.
Qed.

(* the fixed-count per-octet loop *)
Theorem sts_n_cbc_spec : forall n total s k r s' k', sts_n_cbc n total s k = (r, s', k') ->
  exists moved lost, s_stream s = moved ++ lost ++ s_stream s' /\ k_got k' = k_got k ++ moved /\ (length lost <= 1)%nat /\
    (forall t, r = DOk t -> t = total /\ length moved = n /\ lost = []).
Proof.
  induction n as [|n IH]; intros total s k r s' k' H; cbn [sts_n_cbc] in H.
  - injection H as <- <- <-. exists [], []. cbn [app]. rewrite app_nil_r. splits; auto. intros t [= <-]. auto.
  - destruct (sts_cbc s k) as [[r1 s1] k1] eqn:C.
    destruct (sts_cbc_spec _ _ _ _ _ C) as (_ & _ & moved & lost & P & G & L1 & L2).
    destruct r1 as [c|e].
    + destruct (L1 c eq_refl) as (-> & Hm & ->). cbn [app] in P.
      destruct (IH _ _ _ _ _ _ H) as (moved2 & lost2 & P2 & G2 & Hl2 & L3).
      exists (moved ++ moved2), lost2. rewrite P, P2, G2, G, <- !app_assoc. splits; auto.
      intros t0 Ht. destruct (L3 t0 Ht) as (-> & Hn & ->). splits; auto. rewrite app_length. lia.
    + injection H as <- <- <-. destruct (L2 e eq_refl) as [-> Hl]. exists [], lost. cbn [app] in *.
      splits; auto. discriminate.
Qed.

Theorem sts_n_loop_spec : forall fuel total rest s k r s' k',
  sts_n_loop fuel total rest s k = Some (r, s', k') ->
  exists moved lost, s_stream s = moved ++ lost ++ s_stream s' /\ k_got k' = k_got k ++ moved /\ (length lost <= 1)%nat /\
    (forall t, r = DOk t -> t = total /\ N.of_nat (length moved) = rest /\ lost = []).
Proof.
  induction fuel as [|f IH]; intros total rest s k r s' k' H; cbn [sts_n_loop] in H.
  - destruct (N.eqb_spec rest 0) as [->|]; [|discriminate]. injection H as <- <- <-.
    exists [], []. cbn [app]. rewrite app_nil_r. splits; auto. intros t [= <-]. auto.
  - destruct (N.eqb_spec rest 0) as [->|Hr].
    { injection H as <- <- <-. exists [], []. cbn [app]. rewrite app_nil_r. splits; auto. intros t [= <-]. auto. }
    destruct (sts_cbc s k) as [[r1 s1] k1] eqn:C.
    destruct (sts_cbc_spec _ _ _ _ _ C) as (_ & _ & moved & lost & P & G & L1 & L2).
    destruct r1 as [c|e].
    + destruct (L1 c eq_refl) as (-> & Hm & ->). cbn [app] in P.
      destruct (IH _ _ _ _ _ _ _ H) as (moved2 & lost2 & P2 & G2 & Hl2 & L3).
      exists (moved ++ moved2), lost2. rewrite P, P2, G2, G, <- !app_assoc. splits; auto.
      intros t0 Ht. destruct (L3 t0 Ht) as (-> & Hn & ->). splits; auto. rewrite app_length. lia.
    + injection H as <- <- <-. destruct (L2 e eq_refl) as [-> Hl]. exists [], lost. cbn [app] in *.
      splits; auto. discriminate.
Qed.

(* moving n octets: exactly the next n reach the sink, in order, or an error is returned and what reached the sink is a prefix *)
Theorem sts_n_spec s k n r s' k' : sts_n s k n = Some (r, s', k') ->
  exists moved lost, s_stream s = moved ++ lost ++ s_stream s' /\ k_got k' = k_got k ++ moved /\ (length lost <= 1)%nat /\
    (forall t, r = DOk t -> t = n /\ moved = firstn (N.to_nat n) (s_stream s) /\ N.of_nat (length moved) = n /\ lost = []).
Proof.
  intros H. destruct (sts_n_loop_spec _ _ _ _ _ _ _ _ H) as (moved & lost & P & G & Hl & L).
  exists moved, lost. split; [exact P|]. split; [exact G|]. split; [exact Hl|].
  intros t0 Ht. destruct (L t0 Ht) as (-> & Hn & ->). splits; auto.
  rewrite P. cbn [app]. rewrite firstn_app. replace (N.to_nat n - length moved)%nat with 0%nat by lia.
  cbn [firstn]. rewrite app_nil_r. symmetry. apply firstn_all2. lia.
Qed.

Theorem sts_n_total s k n : sts_n s k n <> None.
Proof. unfold sts_n. apply sts_n_loop_total. unfold sts_fuel, stsn_measure. lia. Qed.

(* draining: everything up to the point where the source or the sink ended it reached the sink, in order *)
Theorem sts_drain_spec : forall fuel s k r s' k', sts_drain_cbc fuel s k = Some (r, s', k') ->
  exists moved lost e, r = DErr e /\ s_stream s = moved ++ lost ++ s_stream s' /\ k_got k' = k_got k ++ moved /\ (length lost <= 1)%nat.
Proof.
  induction fuel as [|f IH]; intros s k r s' k' H; cbn [sts_drain_cbc] in H; [discriminate|].
  destruct (sts_cbc s k) as [[r1 s1] k1] eqn:C.
  destruct (sts_cbc_spec _ _ _ _ _ C) as (_ & _ & moved & lost & P & G & L1 & L2).
  destruct r1 as [c|e].
  - destruct (L1 c eq_refl) as (-> & Hm & ->). cbn [app] in P.
    destruct (IH _ _ _ _ _ H) as (moved2 & lost2 & e & -> & P2 & G2 & Hl2).
    exists (moved ++ moved2), lost2, e. rewrite P, P2, G2, G, <- !app_assoc. splits; auto.
  - injection H as <- <- <-. destruct (L2 e eq_refl) as [-> Hl]. exists [], lost, e. cbn [app]. rewrite app_nil_r in *. splits; auto.
Qed.

Theorem sts_drain_total s k : sts_drain s k <> None.
Proof. unfold sts_drain. apply sts_drain_cbc_total. unfold sts_fuel, sts_measure. lia. Qed.
