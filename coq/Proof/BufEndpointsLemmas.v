(* C17 for the library's own chunk-style drivers (src/endpoints/buffer.c): reading N octets from a byte buffer or from a chunk
   list delivers exactly the next N unread octets in order and advances the read position by N - or, when fewer are there,
   delivers them all and reports end of data; writing N octets into a byte buffer appends exactly these or refuses without
   change.  The abstraction is that of C18: [bb_unread], [bb_filled]. *)
From Ufw Require Import Base.Bits Base.Errno Model.ByteBuffer Model.Endpoints Model.BufEndpoints Proof.ListLemmas Proof.ByteBufferLemmas.
From Coq Require Import Lia Bool ZifyN ZifyBool ZifyNat.
Local Open Scope N_scope.
Local Open Scope bool_scope.

(* ---------- one driver call ---------- *)
Lemma read_from_buffer_spec b n : bb_inv b -> n <> 0 ->
  (bb_rest b = 0 /\ read_from_buffer b n = (DErr ENODATA, [], b)) \/
  (bb_rest b <> 0 /\ exists b', read_from_buffer b n = (DOk (N.min n (bb_rest b)), firstn (N.to_nat (N.min n (bb_rest b))) (bb_unread b), b') /\
     bb_unread b' = skipn (N.to_nat (N.min n (bb_rest b))) (bb_unread b) /\ bb_rest b' = bb_rest b - N.min n (bb_rest b) /\
     bb_mem b' = bb_mem b /\ bb_used b' = bb_used b /\ bb_size b' = bb_size b /\ bb_inv b').
Proof.
  intros Hi Hn. unfold read_from_buffer. destruct (N.eq_dec (bb_rest b) 0) as [E|E].
  - left. rewrite (consume_at_most_empty b n E). auto.
  - right. split; [exact E|]. destruct (consume_at_most_some b n Hi E) as (b' & C & U & M & Us & S & I). cbv zeta in C, U.
    rewrite C. exists b'.
    assert (Hl : length (firstn (N.to_nat (N.min n (bb_rest b))) (bb_unread b)) = N.to_nat (N.min n (bb_rest b))).
    { rewrite firstn_length, (unread_length b Hi). lia. }
    rewrite Hl, N2Nat.id. split; [reflexivity|]. split; [exact U|]. split; [|auto].
    pose proof (unread_length b' I) as L'. rewrite U, skipn_length, (unread_length b Hi) in L'. lia.
Qed.

(* ---------- reading N octets from a buffer ---------- *)
Lemma buffer_loop : forall fuel b n rest acc, bb_inv b -> rest <> 0 -> (N.to_nat (bb_rest b) + 1 < fuel + (if (rest <=? bb_rest b)%N then 1 else 0))%nat ->
  exists b', get_chunk_loop_d read_from_buffer fuel b n rest acc =
    (if rest <=? bb_rest b
     then Some (DOk n, acc ++ firstn (N.to_nat rest) (bb_unread b), b')
     else Some (DErr ENODATA, acc ++ bb_unread b, b')) /\
    bb_unread b' = skipn (N.to_nat (N.min rest (bb_rest b))) (bb_unread b) /\ bb_mem b' = bb_mem b /\ bb_used b' = bb_used b /\
    bb_size b' = bb_size b /\ bb_inv b'.
Proof.
  induction fuel as [|f IH]; intros b n rest acc Hi Hr Hf.
  { destruct (N.leb_spec rest (bb_rest b)); lia. }
  cbn [get_chunk_loop_d]. destruct (N.eqb_spec rest 0) as [|_]; [contradiction|].
  destruct (read_from_buffer_spec b rest Hi Hr) as [[E R]|(E & b1 & R & U1 & R1 & M1 & Us1 & S1 & I1)]; rewrite R.
  - (* nothing left: end of data *)
    cbn [is_retry]. destruct (N.leb_spec rest (bb_rest b)); [lia|]. exists b.
    assert (bb_unread b = []) by (apply length_zero_iff_nil; rewrite (unread_length b Hi); lia).
    rewrite H0, app_nil_r, skipn_nil. split; [reflexivity|]. split; [reflexivity|]. split; [reflexivity|]. split; [reflexivity|]. split; [reflexivity|exact Hi].
  - destruct (N.leb_spec rest (bb_rest b)) as [Hle|Hgt].
    + (* the request is served by this call *)
      replace (N.min rest (bb_rest b)) with rest in * by lia. replace (rest - rest) with 0 by lia.
      destruct f as [|f']; cbn [get_chunk_loop_d N.eqb]; exists b1; (split; [reflexivity|]); (split; [exact U1|]); (split; [exact M1|]); (split; [exact Us1|]); (split; [exact S1|exact I1]).
    + (* the buffer is drained, the next call reports the end *)
      replace (N.min rest (bb_rest b)) with (bb_rest b) in * by lia.
      assert (Hall : firstn (N.to_nat (bb_rest b)) (bb_unread b) = bb_unread b) by (apply firstn_all2; rewrite (unread_length b Hi); lia).
      rewrite Hall.
      destruct (IH b1 n (rest - bb_rest b) (acc ++ bb_unread b) I1 ltac:(lia)) as (b2 & L & U2 & M2 & Us2 & S2 & I2).
      { destruct (N.leb_spec (rest - bb_rest b) (bb_rest b1)); lia. }
      rewrite L. destruct (N.leb_spec (rest - bb_rest b) (bb_rest b1)); [lia|].
      assert (Hn1 : bb_unread b1 = []) by (apply length_zero_iff_nil; rewrite (unread_length b1 I1); lia).
      rewrite Hn1, app_nil_r. exists b2. split; [reflexivity|]. split.
      { rewrite U2, Hn1, skipn_nil. symmetry. apply skipn_all2. rewrite (unread_length b Hi). lia. }
      split; [congruence|]. split; [congruence|]. split; [congruence|exact I2].
Qed.

Theorem buffer_get_chunk_spec b n : bb_inv b -> 1 <= n <= SSIZE_MAX ->
  exists b', buffer_get_chunk b n =
    (if n <=? bb_rest b then Some (DOk n, firstn (N.to_nat n) (bb_unread b), b')
     else Some (DErr ENODATA, bb_unread b, b')) /\
    bb_unread b' = skipn (N.to_nat (N.min n (bb_rest b))) (bb_unread b) /\ bb_mem b' = bb_mem b /\ bb_used b' = bb_used b /\
    bb_size b' = bb_size b /\ bb_inv b'.
Proof.
  intros Hi Hn. unfold buffer_get_chunk, get_chunk_d.
  destruct (N.eqb_spec n 0); [lia|]. destruct (N.ltb_spec SSIZE_MAX n); [lia|]. cbn [orb].
  destruct (buffer_loop (S (S (N.to_nat (bb_rest b)))) b n n [] Hi ltac:(lia)) as (b' & L & R); [destruct (n <=? bb_rest b); lia|].
  exists b'. rewrite L. cbn [app]. split; [reflexivity|exact R].
Qed.

Theorem buffer_get_chunk_invalid b n : n = 0 \/ SSIZE_MAX < n -> buffer_get_chunk b n = Some (DErr EINVAL, [], b).
Proof.
  intros H. unfold buffer_get_chunk, get_chunk_d. destruct H as [->|H]; [reflexivity|].
  destruct (N.eqb_spec n 0); [reflexivity|]. destruct (N.ltb_spec SSIZE_MAX n); [reflexivity|lia].
Qed.


(* ---------- writing N octets into a buffer ---------- *)
Theorem buffer_put_chunk_spec b xs n : bb_inv b -> 1 <= n <= SSIZE_MAX -> n <= N.of_nat (length xs) ->
  (n <= bb_avail b /\ exists b', buffer_put_chunk b xs n = Some (DOk n, b') /\
     bb_filled b' = bb_filled b ++ firstn (N.to_nat n) xs /\ bb_offset b' = bb_offset b /\ bb_size b' = bb_size b /\ bb_inv b') \/
  (bb_avail b < n /\ buffer_put_chunk b xs n = Some (DErr ENOMEM, b)).
Proof.
  intros Hi Hn Hx. unfold buffer_put_chunk, put_chunk_k.
  destruct (N.eqb_spec n 0); [lia|]. destruct (N.ltb_spec SSIZE_MAX n); [lia|]. cbn [orb].
  remember (firstn (N.to_nat n) xs) as ys eqn:Ey.
  assert (Hy : N.of_nat (length ys) = n) by (subst ys; rewrite firstn_length; lia).
  assert (Hne : ys <> []) by (intros ->; cbn in Hy; lia).
  assert (Hstep : put_chunk_loop_k write_to_buffer 2 b n ys =
                  match write_to_buffer b ys with
                  | (DErr e, k') => if is_retry e then put_chunk_loop_k write_to_buffer 1 k' n ys else Some (DErr e, k')
                  | (DOk c, k') => put_chunk_loop_k write_to_buffer 1 k' n (skipn (N.to_nat c) ys)
                  end) by (destruct ys; [contradiction|reflexivity]).
  rewrite Hstep. unfold write_to_buffer. rewrite Hy.
  destruct (N.le_gt_cases n (bb_avail b)) as [Hle|Hgt].
  - left. split; [exact Hle|]. destruct (add_accepted b ys n Hi Hle ltac:(lia)) as (b' & A & F & O & U & S & _ & _ & I).
    rewrite A. replace (N.to_nat n) with (length ys) by lia. rewrite skipn_all. cbn [put_chunk_loop_k].
    exists b'. split; [reflexivity|]. split; [|auto]. rewrite F. f_equal. apply firstn_all2. lia.
  - right. split; [exact Hgt|]. rewrite (add_refused b ys n Hgt). reflexivity.
Qed.


(* ---------- reading from a chunk list: the unread octets of the chunks from the active one on, in order ---------- *)
Definition chunks_unread (c : chunks) : list N := List.concat (map bb_unread (skipn (c_active c) (c_list c))).
Definition chunks_inv (c : chunks) : Prop := Forall bb_inv (c_list c) /\ (c_active c <= length (c_list c))%nat.

Lemma skipn_app_exact {A} (a b : list A) : skipn (length a) (a ++ b) = b.
Proof. induction a; cbn; auto. Qed.

(* one driver call *)
Lemma rfc_from_spec : forall cs before n, Forall bb_inv cs -> Forall bb_inv before -> n <> 0 ->
  let total := List.concat (map bb_unread cs) in
  exists r d c', read_from_chunks_from cs before (length before) n = (r, d, c') /\ chunks_inv c' /\
    chunks_unread c' = skipn (length d) total /\ (exists tl, total = d ++ tl) /\
    ((total = [] /\ r = DErr ENODATA /\ d = []) \/
     (total <> [] /\ r = DOk (N.of_nat (length d)) /\ (1 <= length d)%nat /\ N.of_nat (length d) <= n)).
Proof.
  induction cs as [|b r IH]; intros before n Hcs Hbefore Hn; cbn [read_from_chunks_from map List.concat].
  - exists (DErr ENODATA), [], {| c_list := before; c_active := length before |}. split; [reflexivity|].
    split; [split; [exact Hbefore|cbn; lia]|]. split.
    + unfold chunks_unread; cbn [c_list c_active]. rewrite skipn_all. reflexivity.
    + split; [exists []; reflexivity|left; auto].
  - inversion Hcs as [|? ? Hb Hr]; subst.
    destruct (N.eq_dec (bb_rest b) 0) as [E|E].
    + rewrite (consume_at_most_empty b n E).
      assert (Hu : bb_unread b = []) by (apply length_zero_iff_nil; rewrite (unread_length b Hb); lia).
      destruct (IH (before ++ [b]) n Hr ltac:(apply Forall_app; split; [exact Hbefore|constructor; [exact Hb|constructor]]) Hn) as (r0 & d & c' & R & I & U & T & C).
      rewrite app_length in R. cbn [length] in R. replace (length before + 1)%nat with (S (length before)) in R by lia.
      exists r0, d, c'. rewrite Hu. cbn [app]. auto.
    + destruct (consume_at_most_some b n Hb E) as (b' & C & U & M & Us & S & I). cbv zeta in C, U. rewrite C.
      set (k := N.to_nat (N.min n (bb_rest b))) in *.
      assert (Hk : (1 <= k <= length (bb_unread b))%nat) by (rewrite (unread_length b Hb); unfold k; lia).
      assert (Hl : length (firstn k (bb_unread b)) = k) by (rewrite firstn_length; lia).
      exists (DOk (N.of_nat (length (firstn k (bb_unread b))))), (firstn k (bb_unread b)), {| c_list := before ++ b' :: r; c_active := length before |}.
      split; [reflexivity|]. split.
      { split; [cbn [c_list]; apply Forall_app; split; [exact Hbefore|constructor; assumption]|cbn [c_list c_active]; rewrite app_length; lia]. }
      split.
      { unfold chunks_unread; cbn [c_list c_active]. rewrite skipn_app_exact. cbn [map List.concat]. rewrite U, Hl.
        rewrite skipn_app. replace (k - length (bb_unread b))%nat with 0%nat by lia. reflexivity. }
      split.
      { exists (skipn k (bb_unread b) ++ List.concat (map bb_unread r)). rewrite app_assoc, firstn_skipn. reflexivity. }
      right. split.
      { destruct (bb_unread b) eqn:Eu; [cbn in Hk; lia|discriminate]. }
      rewrite Hl. split; [reflexivity|]. split; [lia|]. unfold k. lia.
Qed.

Lemma read_from_chunks_spec c n : chunks_inv c -> n <> 0 ->
  exists r d c', read_from_chunks c n = (r, d, c') /\ chunks_inv c' /\
    chunks_unread c' = skipn (length d) (chunks_unread c) /\ (exists tl, chunks_unread c = d ++ tl) /\
    ((chunks_unread c = [] /\ r = DErr ENODATA /\ d = []) \/
     (chunks_unread c <> [] /\ r = DOk (N.of_nat (length d)) /\ (1 <= length d)%nat /\ N.of_nat (length d) <= n)).
Proof.
  intros [Hf Ha] Hn. unfold read_from_chunks.
  pose proof (rfc_from_spec (skipn (c_active c) (c_list c)) (firstn (c_active c) (c_list c)) n) as S.
  rewrite firstn_length in S. replace (Nat.min (c_active c) (length (c_list c))) with (c_active c) in S by lia.
  apply S; [| |exact Hn]; rewrite Forall_forall in *; intros x Hx; apply Hf.
  - rewrite <- (firstn_skipn (c_active c) (c_list c)). apply in_or_app. right. exact Hx.
  - rewrite <- (firstn_skipn (c_active c) (c_list c)). apply in_or_app. left. exact Hx.
Qed.

Lemma skipn_skipn' {A} (l : list A) : forall a b, skipn a (skipn b l) = skipn (b + a) l.
Proof. induction l as [|x l IH]; intros a [|b]; cbn [skipn Nat.add]; try reflexivity; [destruct a; reflexivity|apply IH]. Qed.
Lemma firstn_add_skip' {A} n1 n2 : forall (L : list A), firstn (n1 + n2) L = firstn n1 L ++ firstn n2 (skipn n1 L).
Proof. induction n1 as [|n1 IH]; intros [|x L]; cbn; auto; [rewrite firstn_nil; reflexivity|]. f_equal. apply IH. Qed.

Lemma chunks_loop : forall fuel c n rest acc, chunks_inv c -> rest <> 0 ->
  (length (chunks_unread c) + 1 < fuel + (if (rest <=? N.of_nat (length (chunks_unread c)))%N then 1 else 0))%nat ->
  exists c', get_chunk_loop_d read_from_chunks fuel c n rest acc =
    (if rest <=? N.of_nat (length (chunks_unread c))
     then Some (DOk n, acc ++ firstn (N.to_nat rest) (chunks_unread c), c')
     else Some (DErr ENODATA, acc ++ chunks_unread c, c')) /\
    chunks_unread c' = skipn (N.to_nat rest) (chunks_unread c) /\ chunks_inv c'.
Proof.
  induction fuel as [|f IH]; intros c n rest acc Hi Hr Hf.
  { destruct (N.leb_spec rest (N.of_nat (length (chunks_unread c)))); lia. }
  cbn [get_chunk_loop_d]. destruct (N.eqb_spec rest 0) as [|_]; [contradiction|].
  destruct (read_from_chunks_spec c rest Hi Hr) as (r & d & c1 & R & I1 & U1 & (tl & T) & [(E & -> & ->)|(E & -> & Hd1 & Hd2)]); rewrite R.
  - cbn [is_retry]. rewrite E in *. cbn [length] in *. destruct (N.leb_spec rest (N.of_nat 0)); [lia|].
    exists c1. rewrite app_nil_r. split; [reflexivity|]. rewrite U1, skipn_nil. cbn [length skipn]. rewrite skipn_nil. split; [reflexivity|exact I1].
  - set (u := chunks_unread c) in *. set (k := length d) in *.
    assert (Hku : (k <= length u)%nat) by (rewrite T, app_length; lia).
    assert (Hd : d = firstn k u) by (rewrite T; unfold k; rewrite firstn_app, Nat.sub_diag, firstn_all; cbn [firstn]; rewrite app_nil_r; reflexivity).
    destruct (N.eq_dec (rest - N.of_nat k) 0) as [Z|NZ].
    + (* served *)
      rewrite Z. assert (N.of_nat k = rest) by lia.
      destruct (N.leb_spec rest (N.of_nat (length u))); [|lia].
      destruct f as [|f']; cbn [get_chunk_loop_d N.eqb]; exists c1; (split; [rewrite Hd; replace (N.to_nat rest) with k by lia; reflexivity|]);
        (split; [rewrite U1; replace (N.to_nat rest) with k by lia; reflexivity|exact I1]).
    + destruct (IH c1 n (rest - N.of_nat k) (acc ++ d) I1 NZ) as (c2 & L & U2 & I2).
      { rewrite U1, skipn_length. fold u. destruct (N.leb_spec (rest - N.of_nat k) (N.of_nat (length u - k))), (N.leb_spec rest (N.of_nat (length u))); lia. }
      rewrite L, U1, skipn_length. fold u.
      destruct (N.leb_spec (rest - N.of_nat k) (N.of_nat (length u - k))), (N.leb_spec rest (N.of_nat (length u))); try lia; exists c2.
      * split; [|split; [|exact I2]].
        -- rewrite <- app_assoc. rewrite Hd at 1. replace (N.to_nat rest) with (k + N.to_nat (rest - N.of_nat k))%nat by lia.
           rewrite firstn_add_skip'. reflexivity.
        -- rewrite U2, U1, skipn_skipn'. f_equal. lia.
      * split; [|split; [|exact I2]].
        -- rewrite <- app_assoc. rewrite Hd at 1. rewrite firstn_skipn. reflexivity.
        -- rewrite U2, U1, skipn_skipn'. f_equal. lia.
Qed.

Lemma chunks_rest_length c : chunks_inv c -> N.to_nat (chunks_rest c) = length (chunks_unread c).
Proof.
  intros [Hf _]. unfold chunks_rest, chunks_unread.
  assert (H : Forall bb_inv (skipn (c_active c) (c_list c))).
  { rewrite Forall_forall in *. intros x Hx. apply Hf. rewrite <- (firstn_skipn (c_active c) (c_list c)). apply in_or_app. right. exact Hx. }
  induction H as [|b l Hb _ IH]; cbn [fold_right map List.concat]; [reflexivity|].
  rewrite app_length, (unread_length b Hb). lia.
Qed.

Theorem chunks_get_chunk_spec c n : chunks_inv c -> 1 <= n <= SSIZE_MAX ->
  exists c', chunks_get_chunk c n =
    (if n <=? N.of_nat (length (chunks_unread c)) then Some (DOk n, firstn (N.to_nat n) (chunks_unread c), c')
     else Some (DErr ENODATA, chunks_unread c, c')) /\
    chunks_unread c' = skipn (N.to_nat n) (chunks_unread c) /\ chunks_inv c'.
Proof.
  intros Hi Hn. unfold chunks_get_chunk, get_chunk_d.
  destruct (N.eqb_spec n 0); [lia|]. destruct (N.ltb_spec SSIZE_MAX n); [lia|]. cbn [orb].
  rewrite (chunks_rest_length c Hi).
  destruct (chunks_loop (S (S (length (chunks_unread c)))) c n n [] Hi ltac:(lia)) as (c' & L & R); [destruct (n <=? _); lia|].
  exists c'. rewrite L. cbn [app]. split; [reflexivity|exact R].
Qed.

(* ---------- counted move from a buffer source into a buffer sink (per octet, no extension) ---------- *)
Lemma write_one b x : bb_inv b -> 1 <= bb_avail b ->
  exists b', write_to_buffer b [x] = (DOk 1, b') /\ bb_filled b' = bb_filled b ++ [x] /\ bb_offset b' = bb_offset b /\
             bb_avail b' = bb_avail b - 1 /\ bb_size b' = bb_size b /\ bb_inv b'.
Proof.
  intros Hi Ha. unfold write_to_buffer. cbn [length N.of_nat Pos.of_succ_nat].
  destruct (add_accepted b [x] 1 Hi Ha ltac:(cbn; lia)) as (b' & A & F & O & U & S & _ & _ & I).
  rewrite A. exists b'. split; [reflexivity|]. split; [exact F|]. split; [exact O|]. split; [unfold bb_avail; lia|]. auto.
Qed.

Theorem buf_sts_n_spec : forall fuel total rest s k, bb_inv s -> bb_inv k -> rest <= bb_rest s -> rest <= bb_avail k -> (N.to_nat rest < fuel)%nat ->
  exists s' k', buf_sts_n fuel total rest s k = Some (DOk total, s', k') /\
    bb_unread s' = skipn (N.to_nat rest) (bb_unread s) /\ bb_filled k' = bb_filled k ++ firstn (N.to_nat rest) (bb_unread s) /\
    bb_offset k' = bb_offset k /\ bb_inv s' /\ bb_inv k'.
Proof.
  induction fuel as [|f IH]; intros total rest s k His Hik Hr Ha Hf; [lia|]. cbn [buf_sts_n].
  destruct (N.eqb_spec rest 0) as [->|Hne].
  { exists s, k. cbn [N.to_nat skipn firstn]. rewrite app_nil_r. auto 10. }
  destruct (read_from_buffer_spec s 1 His ltac:(lia)) as [[E _]|(E & s1 & R & U1 & R1 & _ & _ & _ & I1)]; [lia|].
  replace (N.min 1 (bb_rest s)) with 1 in * by lia. rewrite R.
  destruct (bb_unread s) as [|x u] eqn:Eu; [pose proof (unread_length s His); rewrite Eu in *; cbn in *; lia|].
  cbn [N.to_nat Pos.to_nat Pos.iter_op Nat.add firstn skipn] in *. change (Pos.to_nat 1) with 1%nat in *. cbn [firstn skipn] in *.
  destruct (write_one k x Hik ltac:(lia)) as (k1 & W & F1 & O1 & A1 & S1 & Ik1). rewrite W.
  destruct (IH total (rest - 1) s1 k1 I1 Ik1 ltac:(lia) ltac:(lia) ltac:(lia)) as (s' & k' & B & Us & Fk & Ok & Is' & Ik').
  exists s', k'. split; [exact B|]. rewrite Us, Fk, F1, U1, Ok, O1.
  replace (N.to_nat rest) with (S (N.to_nat (rest - 1))) by lia. cbn [skipn firstn]. rewrite <- app_assoc. auto 10.
Qed.
