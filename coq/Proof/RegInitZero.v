(* C04, post-state of a successful initialisation, second half: every word of the table's memory that is not covered by a
   register is zero (the areas are cleared before the defaults are loaded, and loading a default writes the words of its
   register only). *)
From Ufw Require Import Base.Bits Model.RegTable Proof.ListLemmas Proof.RegLemmas Proof.RegInitLemmas Proof.RegInvariant Proof.RegMemory
  Proof.RegBlockInv Proof.RegInitInv.
From Coq Require Import Lia Bool ZifyN ZifyBool.
Local Open Scope N_scope.
Local Open Scope bool_scope.

Definition covers (e : entry) (x : N) : Prop := e_addr e <= x < e_addr e + tsize (e_type e).

(* a successful set writes the words of its register only *)
Lemma setx_word_frame t idx v c x0 t' e : areas_wf (t_areas t) -> reg_setx t idx v c = ((ASuccess, x0), t') ->
  entry_at t idx = Some e -> entry_fits t e = true -> v_type v = e_type e ->
  forall x, ~ covers e x -> word_at t' x = word_at t x.
Proof.
  intros Hwf H He Hfit Hty x Hx.
  destruct (setx_success_form _ _ _ _ _ _ H eq_refl) as (e' & k & a & _ & He' & Ha & _ & _ & ->).
  assert (e' = e) by congruence. subst e'.
  unfold entry_fits in Hfit. unfold entry_area in Ha. rewrite Ha in Hfit. apply N.leb_le in Hfit.
  destruct (find_area_in _ _ _ _ _ Ha) as [Hina Hin]. pose proof (area_full_in _ _ Hwf Hina) as Hfull.
  destruct (find_area_props _ _ _ _ _ Ha) as (_ & _ & Hnth). rewrite Nat.sub_0_r in Hnth.
  unfold addr_in_area in Hin. apply andb_true_iff in Hin as [Hb1 Hb2]. apply N.leb_le in Hb1. apply N.ltb_lt in Hb2.
  rewrite (word_at_set_area t k a _ x Hnth) by reflexivity. unfold word_at.
  destruct (find_area (t_areas t) x 0) as [[i b]|] eqn:Fx; [|reflexivity].
  destruct (Nat.eqb_spec i k) as [->|]; [|reflexivity].
  destruct (find_area_props _ _ _ _ _ Fx) as (_ & _ & Hnb). rewrite Nat.sub_0_r in Hnb.
  assert (b = a) by congruence. subst b.
  destruct (find_area_in _ _ _ _ _ Fx) as [_ Hinx]. unfold addr_in_area in Hinx. apply andb_true_iff in Hinx as [Hx1 Hx2].
  apply N.leb_le in Hx1. apply N.ltb_lt in Hx2.
  unfold area_write, area_with_words; cbn [a_words].
  pose proof (ser_words_length (t_be t) (e_type e) (v_bits v)) as Hl.
  rewrite nth_error_blit by lia.
  unfold covers in Hx.
  destruct (Nat.leb_spec (N.to_nat (e_addr e - a_base a)) (N.to_nat (x - a_base a))) as [H1|H1]; cbn [andb]; [|reflexivity].
  destruct (Nat.ltb_spec (N.to_nat (x - a_base a)) (N.to_nat (e_addr e - a_base a) + length (ser_words (t_be t) (e_type e) (v_bits v)))) as [H2|H2]; [|reflexivity].
  exfalso. apply Hx. lia.
Qed.

Lemma load_loop_frame : forall fuel t i t', areas_wf (t_areas t) -> load_defaults fuel t i = (None, t') ->
  forall x, (forall e, In e (t_entries t) -> ~ covers e x) -> word_at t' x = word_at t x.
Proof.
  induction fuel as [|f IH]; intros t i t' Hwf H x Hx; cbn [load_defaults] in H.
  - injection H as <-. reflexivity.
  - destruct (nth_error (t_entries t) (N.to_nat i)) as [e|] eqn:En; [|injection H as <-; reflexivity].
    destruct (entry_fits t e) eqn:Ef; cbn [negb] in H; [|discriminate].
    destruct (entry_area t e) as [[k a]|] eqn:Ea; [|discriminate].
    destruct (a_has_write a && negb (a_skip a)).
    + destruct (reg_setx t i _ true) as [[c x0] t1] eqn:Es. destruct c; try discriminate.
      assert (He : entry_at t i = Some e).
      { unfold entry_at. pose proof (nth_error_Some_lt _ _ _ En) as Hl.
        destruct (N.ltb_spec i (N.of_nat (length (t_entries t)))); [exact En|lia]. }
      pose proof (setx_areas_wf t i {| v_type := e_type e; v_bits := e_default e |} true Hwf) as W. rewrite Es in W. cbn [snd] in W.
      assert (E1 : t_entries t1 = t_entries t).
      { destruct (setx_success_form _ _ _ _ _ _ Es eq_refl) as (e1 & k1 & a1 & _ & _ & _ & _ & _ & Et1). rewrite Et1. reflexivity. }
      rewrite (IH t1 (i + 1) t' W H x) by (rewrite E1; exact Hx).
      apply (setx_word_frame t i _ true x0 t1 e Hwf Es He Ef eq_refl). apply Hx. apply (nth_error_In _ _ En).
    + apply (IH t (i + 1) t' Hwf H x Hx).
Qed.

Lemma word_at_geom_words l1 l2 x : Forall2 (fun a b => a_base b = a_base a /\ a_size b = a_size a /\ a_words b = a_words a) l1 l2 ->
  forall k, match find_area l1 x k, find_area l2 x k with
            | Some (i, a), Some (j, b) => i = j /\ a_base b = a_base a /\ a_words b = a_words a
            | None, None => True
            | _, _ => False
            end.
Proof.
  induction 1 as [|a b l1 l2 (Hb & Hs & Hw) _ IH]; intros k; cbn [find_area]; [exact I|].
  unfold addr_in_area. rewrite Hb, Hs. destruct ((a_base a <=? x) && (x <? a_base a + a_size a)); [auto|apply IH].
Qed.

Theorem init_other_words_zero t t' : plain_table t -> reg_init t = ((ISuccess, 0), t') ->
  forall x w, word_at t' x = Some w -> (forall e, In e (t_entries t) -> ~ covers e x) -> w = 0.
Proof.
  intros [Hplain Hent] H x w Hw Hx.
  destruct (proj1 (init_success_iff t) ltac:(rewrite H; reflexivity)) as (Hao & Heo & _).
  unfold reg_init in H. set (t0 := with_flags t false true) in *.
  change (t_areas t0) with (t_areas t) in H. change (t_entries t0) with (t_entries t) in H.
  destruct (t_areas t) as [|a0 ar] eqn:Ear; [discriminate|].
  unfold areas_ordered in Hao. rewrite Ear in Hao.
  rewrite check_areas_spec, (proj2 (first_break_none a_base a_size ar a0) Hao) in H.
  assert (Ece : (match t_entries t with [] => None | e0 :: er => check_entries e0 er 1 end) = None).
  { unfold entries_ordered in Heo. destruct (t_entries t) as [|e0 er]; [reflexivity|].
    rewrite check_entries_spec, (proj2 (first_break_none e_addr (fun e => tsize (e_type e)) er e0) Heo). reflexivity. }
  rewrite Ece in H.
  set (t1 := with_flags (zero_mem_areas t0) true true) in *.
  destruct (load_defaults (S (length (t_entries t1))) t1 0) as [[r|] t2] eqn:LD.
  { exfalso. injection H as Hr _. destruct (load_defaults_code _ _ _ r ltac:(rewrite LD; reflexivity)) as [E|E]; rewrite Hr in E; discriminate. }
  injection H as <-.
  assert (G1 : same_geom (t_areas t) (t_areas t1)) by (unfold t1, zero_mem_areas, t0; cbn [t_areas with_flags]; apply zero_geom).
  assert (Hwf1 : areas_wf (t_areas t1)).
  { split.
    - apply (chain_geom _ _ G1). rewrite Ear. exact Hao.
    - unfold t1, zero_mem_areas, t0; cbn [t_areas with_flags]. apply Forall_forall. intros a Hin. apply in_map_iff in Hin as (b & <- & Hb).
      rewrite Forall_forall in Hplain. rewrite ?Ear in Hb. destruct (Hplain b Hb) as (-> & _). cbn. rewrite repeat_length. lia. }
  (* all words are zero before the defaults are loaded *)
  assert (Hz : forall y v, word_at t1 y = Some v -> v = 0).
  { intros y v. unfold word_at. destruct (find_area (t_areas t1) y 0) as [[i a]|] eqn:F; [|discriminate].
    destruct (find_area_in _ _ _ _ _ F) as [Hin _].
    unfold t1, zero_mem_areas, t0 in Hin; cbn [t_areas with_flags] in Hin. apply in_map_iff in Hin as (b & <- & Hb).
    rewrite Forall_forall in Hplain. rewrite ?Ear in Hb. destruct (Hplain b Hb) as (-> & _). cbn [a_words area_with_words].
    intros Hn. apply nth_error_In in Hn. apply repeat_spec in Hn. exact Hn. }
  (* loading writes register words only; linking changes no word *)
  pose proof (load_loop_frame _ t1 0 t2 Hwf1 LD x Hx) as Hfr.
  assert (Hlink : word_at {| t_init := true; t_during := false; t_be := t_be t2; t_areas := map (link_area (t_entries t2)) (t_areas t2); t_entries := t_entries t2 |} x
                  = word_at t2 x).
  { unfold word_at; cbn [t_areas].
    assert (F2 : Forall2 (fun a b => a_base b = a_base a /\ a_size b = a_size a /\ a_words b = a_words a) (t_areas t2) (map (link_area (t_entries t2)) (t_areas t2))).
    { generalize (t_areas t2). intros l. induction l as [|a l IHl]; cbn [map]; [constructor|constructor; [|exact IHl]].
      destruct (link_area_same (t_entries t2) a) as (B & S & W & _). auto. }
    pose proof (word_at_geom_words _ _ x F2 0) as G.
    destruct (find_area (t_areas t2) x 0) as [[i a]|]; destruct (find_area (map (link_area (t_entries t2)) (t_areas t2)) x 0) as [[j b]|]; try contradiction; [|reflexivity].
    destruct G as (_ & -> & ->). reflexivity. }
  rewrite Hlink, Hfr in Hw. exact (Hz x w Hw).
Qed.
