(* C12, operational decoder (one call of rfc1055_decode) under EVERY behaviour script of the source and of the sink
   (short answers, EINTR/EAGAIN, hard errors at any position): the call returns; what it consumed is a prefix of the
   source's stream, what it emitted was appended to the sink, and it never emits more octets than it consumed; an
   error code other than EILSEQ is one a driver produced (the script's failure events, EINTR, EAGAIN, end of data). *)
From Ufw Require Import Base.Bits Base.Errno Model.Endpoints Model.Slip Proof.EndpointsLemmas Proof.EndpointsTotal.
From Coq Require Import Lia Bool ZifyN ZifyBool.
Local Open Scope N_scope.

Definition smeasure (s : src) : nat := (length (s_script s) + length (s_stream s))%nat.

Lemma get_octet_step s r d s' : source_get_octet s = (r, d, s') ->
  d ++ s_stream s' = s_stream s /\ (length d <= 1)%nat /\ (smeasure s' <= smeasure s)%nat /\
  (forall c, r = DOk c -> (smeasure s' < smeasure s)%nat).
Proof.
  intros H. destruct (get_octet_measure _ _ _ _ H) as (P & M & Z). pose proof (get_octet_script _ _ _ _ H) as Sc.
  unfold smeasure. destruct r as [c|e].
  - destruct (M c eq_refl) as [M1 M2]. splits; [exact P|exact M2|lia|intros; lia].
  - rewrite (Z e eq_refl) in *. cbn [app] in P. rewrite P. splits; [reflexivity|cbn; lia|lia|discriminate].
Qed.

(* the error codes a source / sink driver can produce *)
Definition src_error (s : src) (e : errno) : Prop := In (Fail e) (s_script s) \/ e = EINTR \/ e = EAGAIN \/ e = ENODATA.
Definition snk_error (k : snk) (e : errno) : Prop := In (Fail e) (k_script k) \/ e = EINTR \/ e = EAGAIN.

Lemma pop_in (sc : list ev) ev0 sc' x : pop_ev sc = (ev0, sc') -> In x sc' -> In x sc.
Proof. destruct sc as [|a r]; cbn; intros [= <- <-]; auto. Qed.
Lemma pop_fail (sc : list ev) e sc' : pop_ev sc = (Fail e, sc') -> In (Fail e) sc.
Proof. destruct sc as [|a r]; cbn; [discriminate|]. intros [= -> <-]. left. reflexivity. Qed.

Lemma get_octet_error s r d s' : source_get_octet s = (r, d, s') ->
  (forall e, r = DErr e -> src_error s e) /\ (forall e, src_error s' e -> src_error s e).
Proof.
  unfold source_get_octet, src_octet_call, src_chunk_call, src_error.
  destruct (pop_ev (s_script s)) as [ev0 sc] eqn:Ep.
  assert (Hin : forall x, In x sc -> In x (s_script s)) by (intros x; apply (pop_in _ _ _ _ Ep)).
  destruct (s_octet s); destruct ev0 as [g| | | |e0]; try (destruct (s_stream s));
    intros [= <- <- <-]; cbn [src_with s_script]; (split; [intros e [= <-]; auto|intros e [Hi|Hr]; auto]);
    try (left; apply (pop_fail _ _ _ Ep)).
Qed.

Lemma put_octet_error k x r k' : sink_put_octet k x = (r, k') ->
  (forall e, r = DErr e -> snk_error k e) /\ (forall e, snk_error k' e -> snk_error k e).
Proof.
  unfold sink_put_octet, snk_octet_call, snk_chunk_call, snk_error.
  destruct (pop_ev (k_script k)) as [ev0 sc] eqn:Ep.
  assert (Hin : forall y, In y sc -> In y (k_script k)) by (intros y; apply (pop_in _ _ _ _ Ep)).
  destruct (k_octet k); destruct ev0 as [g| | | |e0];
    intros [= <- <-]; cbn [snk_with k_script]; (split; [intros e [= <-]; auto|intros e [Hi|Hr]; auto]);
    try (left; apply (pop_fail _ _ _ Ep)).
Qed.

(* drivers that answer every call with at least one octet or with an error (no zero-length answers): the domain in which
   the decoder's error codes are specified *)
Definition ev_answers (e : ev) : Prop := match e with Zero => False | Give g => 1 <= g | _ => True end.
Definition answers (s : src) : Prop := Forall ev_answers (s_script s).

Lemma get_octet_answers s r d s' : answers s -> source_get_octet s = (r, d, s') ->
  answers s' /\ (forall c, r = DOk c -> length d = 1%nat).
Proof.
  unfold answers, source_get_octet, src_octet_call, src_chunk_call. intros Ha.
  destruct (s_script s) as [|ev0 sc] eqn:Es; cbn [pop_ev].
  - destruct (s_octet s); destruct (s_stream s) as [|x t] eqn:Et; intros [= <- <- <-]; cbn [src_with s_script];
      (split; [constructor|]); try discriminate; intros c _; try reflexivity.
    cbn [length]. rewrite firstn_length. cbn [length]. unfold SSIZE_MAX. lia.
  - inversion Ha as [|? ? He Hr]; subst.
    destruct (s_octet s); destruct ev0 as [g| | | |e0]; cbn in He; try contradiction;
      try (destruct (s_stream s) as [|x t] eqn:Et); intros [= <- <- <-]; cbn [src_with s_script];
      (split; [exact Hr|]); try discriminate; intros c _; try reflexivity.
    rewrite firstn_length. cbn [length]. lia.
Qed.

Lemma transition_step s r s' : transition s = (r, s') ->
  (exists d, d ++ s_stream s' = s_stream s) /\ (smeasure s' <= smeasure s)%nat /\
  (forall b, r = inr b -> (smeasure s' < smeasure s)%nat) /\
  (forall e, src_error s' e -> src_error s e) /\
  (answers s -> answers s' /\ forall e, r = inl e -> src_error s e).
Proof.
  unfold transition. destruct (source_get_octet s) as [[r1 d] s1] eqn:G.
  destruct (get_octet_step _ _ _ _ G) as (P & L & M & D). destruct (get_octet_error _ _ _ _ G) as [E1 E2].
  destruct r1 as [c|e]; [destruct d as [|x t]|]; intros [= <- <-].
  - split; [eauto|]. split; [exact M|]. split; [discriminate|]. split; [exact E2|].
    intros Ha. destruct (get_octet_answers _ _ _ _ Ha G) as [Ha' Hl]. specialize (Hl c eq_refl). discriminate.
  - split; [eauto|]. split; [exact M|]. split; [intros b _; exact (D c eq_refl)|]. split; [exact E2|].
    intros Ha. destruct (get_octet_answers _ _ _ _ Ha G) as [Ha' _]. split; [exact Ha'|discriminate].
  - split; [eauto|]. split; [exact M|]. split; [discriminate|]. split; [exact E2|].
    intros Ha. destruct (get_octet_answers _ _ _ _ Ha G) as [Ha' _]. split; [exact Ha'|].
    intros e' [= <-]. apply E1. reflexivity.
Qed.

Lemma decode_octet_step s o s' : decode_octet s = (o, s') ->
  (exists d, d ++ s_stream s' = s_stream s /\
     match o with OData _ => (1 <= length d)%nat | _ => True end) /\
  (smeasure s' <= smeasure s)%nat /\
  (match o with OErr _ => True | _ => (smeasure s' < smeasure s)%nat end) /\
  (forall e, src_error s' e -> src_error s e) /\
  (answers s -> answers s' /\ forall e, o = OErr e -> src_error s e).
Proof.
  unfold decode_octet. destruct (source_get_octet s) as [[r1 d1] s1] eqn:G1.
  destruct (get_octet_step _ _ _ _ G1) as (P1 & L1 & M1 & D1). destruct (get_octet_error _ _ _ _ G1) as [E1 F1].
  destruct r1 as [c1|e1].
  2:{ intros [= <- <-]. splits; eauto. intros Ha. destruct (get_octet_answers _ _ _ _ Ha G1) as [Ha' _]. split; [exact Ha'|].
      intros e [= <-]. apply E1. reflexivity. }
  destruct d1 as [|first t1].
  { intros [= <- <-]. splits; eauto. intros Ha. destruct (get_octet_answers _ _ _ _ Ha G1) as [Ha' Hl]. specialize (Hl c1 eq_refl). discriminate. }
  specialize (D1 c1 eq_refl).
  destruct (first =? RAW_ESC).
  - destruct (source_get_octet s1) as [[r2 d2] s2] eqn:G2.
    destruct (get_octet_step _ _ _ _ G2) as (P2 & L2 & M2 & D2). destruct (get_octet_error _ _ _ _ G2) as [E2 F2].
    assert (Hd : (first :: t1) ++ d2 ++ s_stream s2 = s_stream s) by (rewrite P2; exact P1).
    rewrite app_assoc in Hd.
    assert (Ha2 : answers s -> answers s2 /\ (forall c, r2 = DOk c -> length d2 = 1%nat)).
    { intros Ha. destruct (get_octet_answers _ _ _ _ Ha G1) as [Ha' _]. exact (get_octet_answers _ _ _ _ Ha' G2). }
    destruct r2 as [c2|e2].
    2:{ intros [= <- <-]. splits; eauto; [lia|]. intros Ha. destruct (Ha2 Ha) as [Ha' _]. split; [exact Ha'|].
        intros e [= <-]. apply F1, E2. reflexivity. }
    destruct d2 as [|second t2].
    { intros [= <- <-]. splits; eauto; [lia|]. intros Ha. destruct (Ha2 Ha) as [Ha' Hl]. specialize (Hl c2 eq_refl). discriminate. }
    specialize (D2 c2 eq_refl).
    destruct (second =? ESC_EOF); [|destruct (second =? ESC_ESC)]; intros [= <- <-];
      (splits; [eexists; split; [exact Hd|try exact I; rewrite app_length; cbn [length]; lia]|lia|lia|auto|]);
      intros Ha; destruct (Ha2 Ha) as [Ha' _]; (split; [exact Ha'|discriminate]).
  - assert (Ha1 : answers s -> answers s1) by (intros Ha; exact (proj1 (get_octet_answers _ _ _ _ Ha G1))).
    destruct (first =? RAW_EOF); intros [= <- <-];
      (splits; [eexists; split; [exact P1|try exact I; cbn [length]; lia]|lia|lia|auto|]);
      intros Ha; (split; [exact (Ha1 Ha)|discriminate]).
Qed.

Lemma put_octet_rc_step k x e k' : put_octet_rc k x = (e, k') ->
  (exists sent, k_got k' = k_got k ++ sent /\ (length sent <= 1)%nat) /\
  (forall err, e = Some err -> snk_error k err) /\ (forall err, snk_error k' err -> snk_error k err).
Proof.
  unfold put_octet_rc. destruct (sink_put_octet k x) as [r k1] eqn:E.
  destruct (put_octet_error _ _ _ _ E) as [E1 E2].
  destruct (put_octet_cases _ _ _ _ E) as [[-> G]|[(-> & G & _)|(err & -> & G)]]; intros [= <- <-]; rewrite G.
  - splits; [exists [x]; split; [reflexivity|cbn; lia]|discriminate|exact E2].
  - splits; [exists []; split; [symmetry; apply app_nil_r|cbn; lia]|discriminate|exact E2].
  - splits; [exists []; split; [symmetry; apply app_nil_r|cbn; lia]|intros e' [= <-]; apply E1; reflexivity|exact E2].
Qed.

(* ---------- one call of the decoder ---------- *)
Theorem decode_loop_bounded : forall fuel sof st s k rc st' s' k',
  decode_loop fuel sof st s k = Some (rc, st', s', k') ->
  exists consumed emitted, s_stream s = consumed ++ s_stream s' /\ k_got k' = k_got k ++ emitted /\
    (length emitted <= length consumed)%nat.
Proof.
  induction fuel as [|f IH]; intros sof st s k rc st' s' k' H; [discriminate|]. cbn [decode_loop] in H.
  assert (Base : forall s1, (exists d, d ++ s_stream s1 = s_stream s) ->
            exists consumed emitted, s_stream s = consumed ++ s_stream s1 /\ k_got k = k_got k ++ emitted /\ (length emitted <= length consumed)%nat).
  { intros s1 [d Hd]. exists d, []. rewrite app_nil_r. splits; auto. cbn. lia. }
  assert (Step : forall s1 k1 d sent, d ++ s_stream s1 = s_stream s -> k_got k1 = k_got k ++ sent -> (length sent <= length d)%nat ->
            (exists c2 e2, s_stream s1 = c2 ++ s_stream s' /\ k_got k' = k_got k1 ++ e2 /\ (length e2 <= length c2)%nat) ->
            exists consumed emitted, s_stream s = consumed ++ s_stream s' /\ k_got k' = k_got k ++ emitted /\ (length emitted <= length consumed)%nat).
  { intros s1 k1 d sent Hd Hk Hl (c2 & e2 & P2 & G2 & L2). exists (d ++ c2), (sent ++ e2).
    rewrite <- Hd, P2, G2, Hk, <- !app_assoc, !app_length. splits; auto. lia. }
  destruct st.
  - destruct (transition s) as [r s1] eqn:T. destruct (transition_step _ _ _ T) as ((d & Hd) & _).
    destruct r as [e|[|]].
    + injection H as <- <- <- <-. apply Base. eauto.
    + apply (Step s1 k d []); auto; [symmetry; apply app_nil_r|cbn; lia|]. eapply IH; eauto.
    + injection H as <- <- <- <-. apply Base. eauto.
  - destruct (transition s) as [r s1] eqn:T. destruct (transition_step _ _ _ T) as ((d & Hd) & _).
    destruct r as [e|[|]].
    + injection H as <- <- <- <-. apply Base. eauto.
    + apply (Step s1 k d []); auto; [symmetry; apply app_nil_r|cbn; lia|]. eapply IH; eauto.
    + apply (Step s1 k d []); auto; [symmetry; apply app_nil_r|cbn; lia|]. eapply IH; eauto.
  - destruct (decode_octet s) as [o s1] eqn:D. destruct (decode_octet_step _ _ _ D) as ((d & Hd & Hl) & _).
    destruct o as [x| |x|e].
    + destruct (put_octet_rc k x) as [e k1] eqn:E. destruct (put_octet_rc_step _ _ _ _ E) as ((sent & Hk & Hs) & _).
      destruct e as [err|].
      * injection H as <- <- <- <-. exists d, sent. splits; auto. lia.
      * apply (Step s1 k1 d sent); auto; [lia|]. eapply IH; eauto.
    + injection H as <- <- <- <-. apply Base. eauto.
    + injection H as <- <- <- <-. apply Base. eauto.
    + destruct e; injection H as <- <- <- <-; apply Base; eauto.
Qed.

Lemma decode_loop_total : forall fuel sof st s k, (smeasure s < fuel)%nat -> decode_loop fuel sof st s k <> None.
Proof.
  induction fuel as [|f IH]; intros sof st s k Hm; [lia|]. cbn [decode_loop]. destruct st.
  - destruct (transition s) as [r s1] eqn:T. destruct (transition_step _ _ _ T) as (_ & _ & M & _).
    destruct r as [e|[|]]; try discriminate. apply IH. specialize (M true eq_refl). lia.
  - destruct (transition s) as [r s1] eqn:T. destruct (transition_step _ _ _ T) as (_ & _ & M & _).
    destruct r as [e|[|]]; try discriminate; apply IH; [specialize (M true eq_refl)|specialize (M false eq_refl)]; lia.
  - destruct (decode_octet s) as [o s1] eqn:D. destruct (decode_octet_step _ _ _ D) as (_ & _ & M & _).
    destruct o as [x| |x|e]; try discriminate; [|destruct e; discriminate].
    destruct (put_octet_rc k x) as [[err|] k1]; [discriminate|]. apply IH. lia.
Qed.

Theorem slip_decode_op_total sof st s k : slip_decode_op sof st s k <> None.
Proof. unfold slip_decode_op. apply decode_loop_total. unfold smeasure. lia. Qed.

Theorem slip_decode_op_bounded sof st s k rc st' s' k' : slip_decode_op sof st s k = Some (rc, st', s', k') ->
  exists consumed emitted, s_stream s = consumed ++ s_stream s' /\ k_got k' = k_got k ++ emitted /\
    (length emitted <= length consumed)%nat.
Proof. apply decode_loop_bounded. Qed.

(* error codes: EILSEQ is the decoder's own; every other code was produced by the source or the sink driver *)
Theorem decode_loop_errors : forall fuel sof st s k e st' s' k', answers s ->
  decode_loop fuel sof st s k = Some (DFail e, st', s', k') ->
  e = EILSEQ \/ src_error s e \/ snk_error k e.
Proof.
  induction fuel as [|f IH]; intros sof st s k e st' s' k' Ha H; [discriminate|]. cbn [decode_loop] in H.
  assert (Lift : forall s1 k1, (forall x, src_error s1 x -> src_error s x) -> (forall x, snk_error k1 x -> snk_error k x) ->
            e = EILSEQ \/ src_error s1 e \/ snk_error k1 e -> e = EILSEQ \/ src_error s e \/ snk_error k e).
  { intros s1 k1 F1 F2 [->|[Hs|Hk]]; auto. }
  destruct st.
  - destruct (transition s) as [r s1] eqn:T. destruct (transition_step _ _ _ T) as (_ & _ & _ & F & A).
    destruct (A Ha) as [Ha1 E1]. destruct r as [e1|[|]].
    + injection H as <- <- <- <-. right; left. apply E1. reflexivity.
    + apply (Lift s1 k F (fun x h => h)). eapply IH; eauto.
    + injection H as <- <- <- <-. left. reflexivity.
  - destruct (transition s) as [r s1] eqn:T. destruct (transition_step _ _ _ T) as (_ & _ & _ & F & A).
    destruct (A Ha) as [Ha1 E1]. destruct r as [e1|[|]].
    + injection H as <- <- <- <-. right; left. apply E1. reflexivity.
    + apply (Lift s1 k F (fun x h => h)). eapply IH; eauto.
    + apply (Lift s1 k F (fun x h => h)). eapply IH; eauto.
  - destruct (decode_octet s) as [o s1] eqn:D. destruct (decode_octet_step _ _ _ D) as (_ & _ & _ & F & A).
    destruct (A Ha) as [Ha1 E1]. destruct o as [x| |x|e1].
    + destruct (put_octet_rc k x) as [e2 k1] eqn:E. destruct (put_octet_rc_step _ _ _ _ E) as (_ & K1 & K2).
      destruct e2 as [err|].
      * injection H as <- <- <- <-. right; right. apply K1. reflexivity.
      * apply (Lift s1 k1 F K2). eapply IH; eauto.
    + discriminate.
    + injection H as <- <- <- <-. left. reflexivity.
    + specialize (E1 e1 eq_refl). destruct e1; injection H as <- <- <- <-; auto.
Qed.

Theorem slip_decode_op_errors sof st s k e st' s' k' : answers s ->
  slip_decode_op sof st s k = Some (DFail e, st', s', k') -> e = EILSEQ \/ src_error s e \/ snk_error k e.
Proof. apply decode_loop_errors. Qed.
