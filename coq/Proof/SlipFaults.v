(* C12, operational decoder (one call of rfc1055_decode) under EVERY behaviour script of the source and of the sink
   (short answers, EINTR/EAGAIN, hard errors at any position): the call returns; what it consumed is a prefix of the
   source's stream, what it emitted was appended to the sink, and it never emits more octets than it consumed; an
   error code other than EILSEQ is one a driver produced (the script's failure events, EINTR, EAGAIN, end of data). *)
From Ufw Require Import Base.Bits Base.Errno Model.Endpoints Model.Slip Proof.EndpointsLemmas Proof.EndpointsTotal.
From Coq Require Import Lia Bool ZifyN ZifyBool.
Local Open Scope N_scope.

Definition smeasure (s : src) : nat := (length (s_script s) + length (s_stream s))%nat.

Lemma get_octet_step s r d s' : source_get_octet s = (r, d, s') ->
  d ++ s_stream s' = s_stream s /\ (length d <= 1)%nat /\ (smeasure s' <= smeasure s)%nat /\
  (forall c, r = DOk c -> (smeasure s' < smeasure s)%nat).
Proof.
  intros H. destruct (get_octet_measure _ _ _ _ H) as (P & M & Z). pose proof (get_octet_script _ _ _ _ H) as Sc.
  unfold smeasure. destruct r as [c|e].
  - destruct (M c eq_refl) as [M1 M2]. splits; [exact P|exact M2|lia|intros; lia].
  - rewrite (Z e eq_refl) in *. cbn [app] in P. rewrite P. splits; [reflexivity|cbn; lia|lia|discriminate].
Qed.

(* the error codes a source / sink driver can produce *)
Definition src_error (s : src) (e : errno) : Prop := In (Fail e) (s_script s) \/ e = EINTR \/ e = EAGAIN \/ e = ENODATA.
Definition snk_error (k : snk) (e : errno) : Prop := In (Fail e) (k_script k) \/ e = EINTR \/ e = EAGAIN.

Lemma pop_in (sc : list ev) ev0 sc' x : pop_ev sc = (ev0, sc') -> In x sc' -> In x sc.
Proof. destruct sc as [|a r]; cbn; intros [= <- <-]; auto. Qed.
Lemma pop_fail (sc : list ev) e sc' : pop_ev sc = (Fail e, sc') -> In (Fail e) sc.
Proof. destruct sc as [|a r]; cbn; [discriminate|]. intros [= -> <-]. left. reflexivity. Qed.

Lemma get_octet_error s r d s' : source_get_octet s = (r, d, s') ->
  (forall e, r = DErr e -> src_error s e) /\ (forall e, src_error s' e -> src_error s e).
Proof.
  unfold source_get_octet, src_octet_call, src_chunk_call, src_error.
  destruct (pop_ev (s_script s)) as [ev0 sc] eqn:Ep.
  assert (Hin : forall x, In x sc -> In x (s_script s)) by (intros x; apply (pop_in _ _ _ _ Ep)).
  destruct (s_octet s); destruct ev0 as [g| | | |e0]; try (destruct (s_stream s));
    intros [= <- <- <-]; cbn [src_with s_script]; (split; [intros e [= <-]; auto|intros e [Hi|Hr]; auto]);
    try (left; apply (pop_fail _ _ _ Ep)).
Qed.

Lemma put_octet_error k x r k' : sink_put_octet k x = (r, k') ->
  (forall e, r = DErr e -> snk_error k e) /\ (forall e, snk_error k' e -> snk_error k e).
Proof.
  unfold sink_put_octet, snk_octet_call, snk_chunk_call, snk_error.
  destruct (pop_ev (k_script k)) as [ev0 sc] eqn:Ep.
  assert (Hin : forall y, In y sc -> In y (k_script k)) by (intros y; apply (pop_in _ _ _ _ Ep)).
  destruct (k_octet k); destruct ev0 as [g| | | |e0];
    intros [= <- <-]; cbn [snk_with k_script]; (split; [intros e [= <-]; auto|intros e [Hi|Hr]; auto]);
    try (left; apply (pop_fail _ _ _ Ep)).
Qed.

(* drivers that answer every call with at least one octet or with an error (no zero-length answers): the domain in which
   the decoder's error codes are specified *)
Definition ev_answers (e : ev) : Prop := match e with Zero => False | Give g => 1 <= g | _ => True end.
Definition answers (s : src) : Prop := Forall ev_answers (s_script s).

Lemma get_octet_answers s r d s' : answers s -> source_get_octet s = (r, d, s') ->
  answers s' /\ (forall c, r = DOk c -> length d = 1%nat).
Proof.
  unfold answers, source_get_octet, src_octet_call, src_chunk_call. intros Ha.
  destruct (s_script s) as [|ev0 sc] eqn:Es; cbn [pop_ev].
  - destruct (s_octet s); destruct (s_stream s) as [|x t] eqn:Et; intros [= <- <- <-]; cbn [src_with s_script];
      (split; [constructor|]); try discriminate; intros c _; try reflexivity.
    cbn [length]. rewrite firstn_length. cbn [length]. unfold SSIZE_MAX. lia.
  - inversion Ha as [|? ? He Hr]; subst.
    destruct (s_octet s); destruct ev0 as [g| | | |e0]; cbn in He; try contradiction;
      try (destruct (s_stream s) as [|x t] eqn:Et); intros [= <- <- <-]; cbn [src_with s_script];
      (split; [exact Hr|]); try discriminate; intros c _; try reflexivity.
    rewrite firstn_length. cbn [length]. lia.
Qed.

Lemma transition_step s r s' : transition s = (r, s') ->
  (exists d, d ++ s_stream s' = s_stream s) /\ (smeasure s' <= smeasure s)%nat /\
  (forall b, r = inr b -> (smeasure s' < smeasure s)%nat) /\
  (forall e, src_error s' e -> src_error s e) /\
  (answers s -> answers s' /\ forall e, r = inl e -> src_error s e).
Proof.
  unfold transition. destruct (source_get_octet s) as [[r1 d] s1] eqn:G.
  destruct (get_octet_step _ _ _ _ G) as (P & L & M & D). destruct (get_octet_error _ _ _ _ G) as [E1 E2].
  destruct r1 as [c|e]; [destruct d as [|x t]|]; intros [= <- <-].
  - split; [eauto|]. split; [exact M|]. split; [discriminate|]. split; [exact E2|].
    intros Ha. destruct (get_octet_answers _ _ _ _ Ha G) as [Ha' Hl]. specialize (Hl c eq_refl). discriminate.
  - split; [eauto|]. split; [exact M|]. split; [intros b _; exact (D c eq_refl)|]. split; [exact E2|].
    intros Ha. destruct (get_octet_answers _ _ _ _ Ha G) as [Ha' _]. split; [exact Ha'|discriminate].
  - split; [eauto|]. split; [exact M|]. split; [discriminate|]. split; [exact E2|].
    intros Ha. destruct (get_octet_answers _ _ _ _ Ha G) as [Ha' _]. split; [exact Ha'|].
    intros e' [= <-]. apply E1. reflexivity.
Qed.

Lemma decode_octet_step s o s' : decode_octet s = (o, s') ->
  (exists d, d ++ s_stream s' = s_stream s /\
     match o with OData _ => (1 <= length d)%nat | _ => True end) /\
  (smeasure s' <= smeasure s)%nat /\
  (match o with OErr _ => True | _ => (smeasure s' < smeasure s)%nat end) /\
  (forall e, src_error s' e -> src_error s e) /\
  (answers s -> answers s' /\ forall e, o = OErr e -> src_error s e).
Proof.
  unfold decode_octet. destruct (source_get_octet s) as [[r1 d1] s1] eqn:G1.
  destruct (get_octet_step _ _ _ _ G1) as (P1 & L1 & M1 & D1). destruct (get_octet_error _ _ _ _ G1) as [E1 F1].
  destruct r1 as [c1|e1].
  2:{ intros [= <- <-]. splits; eauto. intros Ha. destruct (get_octet_answers _ _ _ _ Ha G1) as [Ha' _]. split; [exact Ha'|].
      intros e [= <-]. apply E1. reflexivity. }
  destruct d1 as [|first t1].
  { intros [= <- <-]. splits; eauto. intros Ha. destruct (get_octet_answers _ _ _ _ Ha G1) as [Ha' Hl]. specialize (Hl c1 eq_refl). discriminate. }
  specialize (D1 c1 eq_refl).
  destruct (first =? RAW_ESC).
  - destruct (source_get_octet s1) as [[r2 d2] s2] eqn:G2.
    destruct (get_octet_step _ _ _ _ G2) as (P2 & L2 & M2 & D2). destruct (get_octet_error _ _ _ _ G2) as [E2 F2].
    assert (Hd : (first :: t1) ++ d2 ++ s_stream s2 = s_stream s) by (rewrite P2; exact P1).
    rewrite app_assoc in Hd.
    assert (Ha2 : answers s -> answers s2 /\ (forall c, r2 = DOk c -> length d2 = 1%nat)).
    { intros Ha. destruct (get_octet_answers _ _ _ _ Ha G1) as [Ha' _]. exact (get_octet_answers _ _ _ _ Ha' G2). }
    destruct r2 as [c2|e2].
    2:{ intros [= <- <-]. splits; eauto; [lia|]. intros Ha. destruct (Ha2 Ha) as [Ha' _]. split; [exact Ha'|].
        intros e [= <-]. apply F1, E2. reflexivity. }
    destruct d2 as [|second t2].
    { intros [= <- <-]. splits; eauto; [lia|]. intros Ha. destruct (Ha2 Ha) as [Ha' Hl]. specialize (Hl c2 eq_refl). discriminate. }
    specialize (D2 c2 eq_refl).
    destruct (second =? ESC_EOF); [|destruct (second =? ESC_ESC)]; intros [= <- <-];
      (splits; [eexists; split; [exact Hd|try exact I; rewrite app_length; cbn [length]; lia]|lia|lia|auto|]);
      intros Ha; destruct (Ha2 Ha) as [Ha' _]; (split; [exact Ha'|discriminate]).
  - assert (Ha1 : answers s -> answers s1) by (intros Ha; exact (proj1 (get_octet_answers _ _ _ _ Ha G1))).
    destruct (first =? RAW_EOF); intros [= <- <-];
      (splits; [eexists; split; [exact P1|try exact I; cbn [length]; lia]|lia|lia|auto|]);
      intros Ha; (split; [exact (Ha1 Ha)|discriminate]).
Qed.

Lemma put_octet_rc_step k x e k' : put_octet_rc k x = (e, k') ->
  (exists sent, k_got k' = k_got k ++ sent /\ (length sent <= 1)%nat) /\
  (forall err, e = Some err -> snk_error k err) /\ (forall err, snk_error k' err -> snk_error k err).
Proof.
  unfold put_octet_rc. destruct (sink_put_octet k x) as [r k1] eqn:E.
  destruct (put_octet_error _ _ _ _ E) as [E1 E2].
  destruct (put_octet_cases _ _ _ _ E) as [[-> G]|[(-> & G & _)|(err & -> & G)]]; intros [= <- <-]; rewrite G.
  - splits; [exists [x]; split; [reflexivity|cbn; lia]|discriminate|exact E2].
  - splits; [exists []; split; [symmetry; apply app_nil_r|cbn; lia]|discriminate|exact E2].
  - splits; [exists []; split; [symmetry; apply app_nil_r|cbn; lia]|intros e' [= <-]; apply E1; reflexivity|exact E2].
Qed.

(* ---------- one call of the decoder ---------- *)
Theorem decode_loop_bounded : forall fuel sof st s k rc st' s' k',
  decode_loop fuel sof st s k = Some (rc, st', s', k') ->
  exists consumed emitted, s_stream s = consumed ++ s_stream s' /\ k_got k' = k_got k ++ emitted /\
    (length emitted <= length consumed)%nat.
Proof.
  induction fuel as [|f IH]; intros sof st s k rc st' s' k' H; [discriminate|]. cbn [decode_loop] in H.
  assert (Base : forall s1, (exists d, d ++ s_stream s1 = s_stream s) ->
            exists consumed emitted, s_stream s = consumed ++ s_stream s1 /\ k_got k = k_got k ++ emitted /\ (length emitted <= length consumed)%nat).
  { intros s1 [d Hd]. exists d, []. rewrite app_nil_r. splits; auto. cbn. lia. }
  assert (Step : forall s1 k1 d sent, d ++ s_stream s1 = s_stream s -> k_got k1 = k_got k ++ sent -> (length sent <= length d)%nat ->
            (exists c2 e2, s_stream s1 = c2 ++ s_stream s' /\ k_got k' = k_got k1 ++ e2 /\ (length e2 <= length c2)%nat) ->
            exists consumed emitted, s_stream s = consumed ++ s_stream s' /\ k_got k' = k_got k ++ emitted /\ (length emitted <= length consumed)%nat).
  { intros s1 k1 d sent Hd Hk Hl (c2 & e2 & P2 & G2 & L2). exists (d ++ c2), (sent ++ e2).
    rewrite <- Hd, P2, G2, Hk, <- !app_assoc, !app_length. splits; auto. lia. }
  destruct st.
  - destruct (transition s) as [r s1] eqn:T. destruct (transition_step _ _ _ T) as ((d & Hd) & _).
    destruct r as [e|[|]].
    + injection H as <- <- <- <-. apply Base. eauto.
    + apply (Step s1 k d []); auto; [symmetry; apply app_nil_r|cbn; lia|]. eapply IH; eauto.
    + injection H as <- <- <- <-. apply Base. eauto.
  - destruct (transition s) as [r s1] eqn:T. destruct (transition_step _ _ _ T) as ((d & Hd) & _).
    destruct r as [e|[|]].
    + injection H as <- <- <- <-. apply Base. eauto.
    + apply (Step s1 k d []); auto; [symmetry; apply app_nil_r|cbn; lia|]. eapply IH; eauto.
    + apply (Step s1 k d []); auto; [symmetry; apply app_nil_r|cbn; lia|]. eapply IH; eauto.
  - destruct (decode_octet s) as [o s1] eqn:D. destruct (decode_octet_step _ _ _ D) as ((d & Hd & Hl) & _).
    destruct o as [x| |x|e].
    + destruct (put_octet_rc k x) as [e k1] eqn:E. destruct (put_octet_rc_step _ _ _ _ E) as ((sent & Hk & Hs) & _).
      destruct e as [err|].
      * injection H as <- <- <- <-. exists d, sent. splits; auto. lia.
      * apply (Step s1 k1 d sent); auto; [lia|]. eapply IH; eauto.
    + injection H as <- <- <- <-. apply Base. eauto.
    + injection H as <- <- <- <-. apply Base. eauto.
    + destruct e; injection H as <- <- <- <-; apply Base; eauto.
Qed.

Lemma decode_loop_total : forall fuel sof st s k, (smeasure s < fuel)%nat -> decode_loop fuel sof st s k <> None.
Proof.
  induction fuel as [|f IH]; intros sof st s k Hm; [lia|]. cbn [decode_loop]. destruct st.
  - destruct (transition s) as [r s1] eqn:T. destruct (transition_step _ _ _ T) as (_ & _ & M & _).
    destruct r as [e|[|]]; try discriminate. apply IH. specialize (M true eq_refl). lia.
  - destruct (transition s) as [r s1] eqn:T. destruct (transition_step _ _ _ T) as (_ & _ & M & _).
    destruct r as [e|[|]]; try discriminate; apply IH; [specialize (M true eq_refl)|specialize (M false eq_refl)]; lia.
  - destruct (decode_octet s) as [o s1] eqn:D. destruct (decode_octet_step _ _ _ D) as (_ & _ & M & _).
    destruct o as [x| |x|e]; try discriminate; [|destruct e; discriminate].
    destruct (put_octet_rc k x) as [[err|] k1]; [discriminate|]. apply IH. lia.
Qed.

Theorem slip_decode_op_total sof st s k : slip_decode_op sof st s k <> None.
Proof. unfold slip_decode_op. apply decode_loop_total. unfold smeasure. lia. Qed.

Theorem slip_decode_op_bounded sof st s k rc st' s' k' : slip_decode_op sof st s k = Some (rc, st', s', k') ->
  exists consumed emitted, s_stream s = consumed ++ s_stream s' /\ k_got k' = k_got k ++ emitted /\
    (length emitted <= length consumed)%nat.
Proof. apply decode_loop_bounded. Qed.

(* error codes: EILSEQ is the decoder's own; every other code was produced by the source or the sink driver *)
Theorem decode_loop_errors : forall fuel sof st s k e st' s' k', answers s ->
  decode_loop fuel sof st s k = Some (DFail e, st', s', k') ->
  e = EILSEQ \/ src_error s e \/ snk_error k e.
Proof.
  induction fuel as [|f IH]; intros sof st s k e st' s' k' Ha H; [discriminate|]. cbn [decode_loop] in H.
  assert (Lift : forall s1 k1, (forall x, src_error s1 x -> src_error s x) -> (forall x, snk_error k1 x -> snk_error k x) ->
            e = EILSEQ \/ src_error s1 e \/ snk_error k1 e -> e = EILSEQ \/ src_error s e \/ snk_error k e).
  { intros s1 k1 F1 F2 [->|[Hs|Hk]]; auto. }
  destruct st.
  - destruct (transition s) as [r s1] eqn:T. destruct (transition_step _ _ _ T) as (_ & _ & _ & F & A).
    destruct (A Ha) as [Ha1 E1]. destruct r as [e1|[|]].
    + injection H as <- <- <- <-. right; left. apply E1. reflexivity.
    + apply (Lift s1 k F (fun x h => h)). eapply IH; eauto.
    + injection H as <- <- <- <-. left. reflexivity.
  - destruct (transition s) as [r s1] eqn:T. destruct (transition_step _ _ _ T) as (_ & _ & _ & F & A).
    destruct (A Ha) as [Ha1 E1]. destruct r as [e1|[|]].
    + injection H as <- <- <- <-. right; left. apply E1. reflexivity.
    + apply (Lift s1 k F (fun x h => h)). eapply IH; eauto.
    + apply (Lift s1 k F (fun x h => h)). eapply IH; eauto.
  - destruct (decode_octet s) as [o s1] eqn:D. destruct (decode_octet_step _ _ _ D) as (_ & _ & _ & F & A).
    destruct (A Ha) as [Ha1 E1]. destruct o as [x| |x|e1].
    + destruct (put_octet_rc k x) as [e2 k1] eqn:E. destruct (put_octet_rc_step _ _ _ _ E) as (_ & K1 & K2).
      destruct e2 as [err|].
      * injection H as <- <- <- <-. right; right. apply K1. reflexivity.
      * apply (Lift s1 k1 F K2). eapply IH; eauto.
    + discriminate.
    + injection H as <- <- <- <-. left. reflexivity.
    + specialize (E1 e1 eq_refl). destruct e1; injection H as <- <- <- <-; auto.
Qed.

Theorem slip_decode_op_errors sof st s k e st' s' k' : answers s ->
  slip_decode_op sof st s k = Some (DFail e, st', s', k') -> e = EILSEQ \/ src_error s e \/ snk_error k e.
Proof. apply decode_loop_errors. Qed.

(* ---------- the operational decoder under driver faults refines the structural decoder ---------- *)
(* sinks that take the octet or fail (no zero-length answers); sources that never report EILSEQ themselves *)
Definition sink_answers (k : snk) : Prop := Forall ev_answers (k_script k).
Definition no_ilseq (s : src) : Prop := ~ In (Fail EILSEQ) (s_script s).

Lemma put_octet_rc_answers k x e k' : sink_answers k -> put_octet_rc k x = (e, k') ->
  sink_answers k' /\ (e = None -> k_got k' = k_got k ++ [x]) /\ (forall err, e = Some err -> k_got k' = k_got k).
Proof.
  unfold sink_answers, put_octet_rc, sink_put_octet, snk_octet_call, snk_chunk_call. intros Ha.
  destruct (k_script k) as [|ev0 sc] eqn:Es; cbn [pop_ev].
  - destruct (k_octet k); intros [= <- <-]; cbn [snk_with k_script k_got]; (split; [constructor|]); (split; [intros _|discriminate]); try reflexivity;
      cbn [length N.of_nat Pos.of_succ_nat]; unfold SSIZE_MAX; reflexivity.
  - inversion Ha as [|? ? He Hr]; subst.
    destruct (k_octet k); destruct ev0 as [g| | | |e0]; cbn in He; try contradiction; intros [= <- <-]; cbn [snk_with k_script k_got];
      (split; [exact Hr|]); (split; [try discriminate; intros _|try discriminate; intros err _]); try reflexivity;
      cbn [length N.of_nat Pos.of_succ_nat]; replace (N.min g 1) with 1 by lia; reflexivity.
Qed.

Lemma get_octet_no_ilseq s r d s' : no_ilseq s -> source_get_octet s = (r, d, s') -> no_ilseq s' /\ r <> DErr EILSEQ.
Proof.
  unfold no_ilseq, source_get_octet, src_octet_call, src_chunk_call. intros Hn.
  destruct (pop_ev (s_script s)) as [ev0 sc] eqn:Ep.
  assert (Hin : forall x, In x sc -> In x (s_script s)) by (intros x; apply (pop_in _ _ _ _ Ep)).
  assert (Hne : ev0 <> Fail EILSEQ).
  { intros ->. destruct (s_script s) as [|a r0]; cbn in Ep; [discriminate|]. injection Ep as -> <-. apply Hn. left. reflexivity. }
  destruct (s_octet s); destruct ev0 as [g| | | |e0]; try (destruct (s_stream s));
    intros [= <- <- <-]; cbn [src_with s_script]; (split; [intros Hi; apply Hn, Hin, Hi|]); try discriminate;
    intros [= ->]; apply Hne; reflexivity.
Qed.

(* what one octet-decoding step consumed, classified *)
Lemma decode_octet_shape s o s' : answers s -> no_ilseq s -> decode_octet s = (o, s') ->
  answers s' /\ no_ilseq s' /\
  exists d, s_stream s = d ++ s_stream s' /\
    match o with
    | OData x => (d = [x] /\ (x =? RAW_ESC) = false /\ (x =? RAW_EOF) = false) \/
                 (d = [RAW_ESC; ESC_EOF] /\ x = RAW_EOF) \/ (d = [RAW_ESC; ESC_ESC] /\ x = RAW_ESC)
    | OEnd => d = [RAW_EOF]
    | OIlseq x => d = [RAW_ESC; x] /\ (x =? ESC_EOF) = false /\ (x =? ESC_ESC) = false
    | OErr e => (d = [] \/ d = [RAW_ESC]) /\ e <> EILSEQ
    end.
Proof.
  intros Ha Hn. unfold decode_octet. destruct (source_get_octet s) as [[r1 d1] s1] eqn:G1.
  destruct (get_octet_answers _ _ _ _ Ha G1) as [Ha1 L1]. destruct (get_octet_no_ilseq _ _ _ _ Hn G1) as [Hn1 Ne1].
  destruct (get_octet_step _ _ _ _ G1) as (P1 & _).
  destruct r1 as [c1|e1].
  2:{ intros [= <- <-]. split; [exact Ha1|]. split; [exact Hn1|]. destruct (get_octet_measure _ _ _ _ G1) as (_ & _ & Z). rewrite (Z e1 eq_refl) in P1.
      exists []. split; [symmetry; exact P1|]. split; [left; reflexivity|]. intros ->. apply Ne1. reflexivity. }
  specialize (L1 c1 eq_refl). destruct d1 as [|first t1]; [discriminate|]. destruct t1; [|discriminate].
  destruct (first =? RAW_ESC) eqn:E1.
  - apply N.eqb_eq in E1. subst first.
    destruct (source_get_octet s1) as [[r2 d2] s2] eqn:G2.
    destruct (get_octet_answers _ _ _ _ Ha1 G2) as [Ha2 L2]. destruct (get_octet_no_ilseq _ _ _ _ Hn1 G2) as [Hn2 Ne2].
    destruct (get_octet_step _ _ _ _ G2) as (P2 & _).
    destruct r2 as [c2|e2].
    2:{ intros [= <- <-]. split; [exact Ha2|]. split; [exact Hn2|]. destruct (get_octet_measure _ _ _ _ G2) as (_ & _ & Z). rewrite (Z e2 eq_refl) in P2.
        exists [RAW_ESC]. split; [rewrite <- P1, <- P2; reflexivity|]. split; [right; reflexivity|]. intros ->. apply Ne2. reflexivity. }
    specialize (L2 c2 eq_refl). destruct d2 as [|second t2]; [discriminate|]. destruct t2; [|discriminate].
    assert (Hs : s_stream s = [RAW_ESC; second] ++ s_stream s2) by (rewrite <- P1, <- P2; reflexivity).
    destruct (second =? ESC_EOF) eqn:E2; [|destruct (second =? ESC_ESC) eqn:E3]; intros [= <- <-]; (split; [exact Ha2|]); (split; [exact Hn2|]);
      exists [RAW_ESC; second]; (split; [exact Hs|]).
    + apply N.eqb_eq in E2. subst second. right; left. auto.
    + apply N.eqb_eq in E3. subst second. right; right. auto.
    + auto.
  - destruct (first =? RAW_EOF) eqn:E2; intros [= <- <-]; (split; [exact Ha1|]); (split; [exact Hn1|]); exists [first]; (split; [symmetry; exact P1|]).
    + apply N.eqb_eq in E2. subst first. reflexivity.
    + left. auto.
Qed.

Lemma transition_shape s r s' : answers s -> no_ilseq s -> transition s = (r, s') ->
  answers s' /\ no_ilseq s' /\
  match r with
  | inr b => exists x, s_stream s = x :: s_stream s' /\ b = (x =? RAW_EOF)
  | inl e => s_stream s = s_stream s' /\ e <> EILSEQ
  end.
Proof.
  intros Ha Hn. unfold transition. destruct (source_get_octet s) as [[r1 d1] s1] eqn:G1.
  destruct (get_octet_answers _ _ _ _ Ha G1) as [Ha1 L1]. destruct (get_octet_no_ilseq _ _ _ _ Hn G1) as [Hn1 Ne1].
  destruct (get_octet_step _ _ _ _ G1) as (P1 & _).
  destruct r1 as [c1|e1].
  - specialize (L1 c1 eq_refl). destruct d1 as [|x t1]; [discriminate|]. destruct t1; [|discriminate].
    intros [= <- <-]. split; [exact Ha1|]. split; [exact Hn1|]. exists x. split; [symmetry; exact P1|reflexivity].
  - intros [= <- <-]. split; [exact Ha1|]. split; [exact Hn1|]. destruct (get_octet_measure _ _ _ _ G1) as (_ & _ & Z). rewrite (Z e1 eq_refl) in P1.
    split; [symmetry; exact P1|]. intros ->. apply Ne1. reflexivity.
Qed.

(* the verdict of one call, in terms of the structural decoder run on exactly the octets the call consumed *)
Definition refines (sof : bool) (st : sstate) (got consumed : list N) (rc : drc) (st' : sstate) (got' : list N) : Prop :=
  match rc with
  | DFrame => pdecode sof st consumed got = (PFrame, got', [], st')
  | DFail e =>
      (e = EILSEQ /\ pdecode sof st consumed got = (PIlseq, got', [], st')) \/
      (exists out, pdecode sof st consumed got = (PNoData, out, [], st') /\ (out = got' \/ exists x, out = got' ++ [x]))
  end.

Lemma refines_shift sof st got d c2 st1 got1 rc st' got' :
  pdecode sof st (d ++ c2) got = pdecode sof st1 c2 got1 ->
  refines sof st1 got1 c2 rc st' got' -> refines sof st got (d ++ c2) rc st' got'.
Proof. intros E. unfold refines. rewrite E. auto. Qed.

Theorem decode_loop_refines : forall fuel sof st s k rc st' s' k', answers s -> no_ilseq s -> sink_answers k ->
  decode_loop fuel sof st s k = Some (rc, st', s', k') ->
  exists consumed, s_stream s = consumed ++ s_stream s' /\ refines sof st (k_got k) consumed rc st' (k_got k').
Proof.
  induction fuel as [|f IH]; intros sof st s k rc st' s' k' Ha Hn Hk H; [discriminate|]. cbn [decode_loop] in H.
  destruct st.
  - (* SearchStart *)
    destruct (transition s) as [r s1] eqn:T. destruct (transition_shape _ _ _ Ha Hn T) as (Ha1 & Hn1 & Sh).
    destruct r as [e|[|]].
    + destruct Sh as [P Ne]. injection H as <- <- <- <-. exists []. split; [exact P|]. right. exists (k_got k). split; [reflexivity|left; reflexivity].
    + destruct Sh as (x & P & Hx). destruct (IH _ _ _ _ _ _ _ _ Ha1 Hn1 Hk H) as (c2 & P2 & R2).
      exists ([x] ++ c2). split; [rewrite P, P2; reflexivity|]. apply (refines_shift sof SearchStart (k_got k) [x] c2 Normal (k_got k)); [|exact R2].
      cbn [app pdecode]. rewrite <- Hx. reflexivity.
    + destruct Sh as (x & P & Hx). injection H as <- <- <- <-. exists [x]. split; [rewrite P; reflexivity|]. left. split; [reflexivity|].
      cbn [pdecode]. rewrite <- Hx. reflexivity.
  - (* SearchEnd *)
    destruct (transition s) as [r s1] eqn:T. destruct (transition_shape _ _ _ Ha Hn T) as (Ha1 & Hn1 & Sh).
    destruct r as [e|[|]].
    + destruct Sh as [P Ne]. injection H as <- <- <- <-. exists []. split; [exact P|]. right. exists (k_got k). split; [reflexivity|left; reflexivity].
    + destruct Sh as (x & P & Hx). destruct (IH _ _ _ _ _ _ _ _ Ha1 Hn1 Hk H) as (c2 & P2 & R2).
      exists ([x] ++ c2). split; [rewrite P, P2; reflexivity|].
      apply (refines_shift sof SearchEnd (k_got k) [x] c2 (if sof then SearchStart else Normal) (k_got k)); [|exact R2].
      cbn [app pdecode]. rewrite <- Hx. reflexivity.
    + destruct Sh as (x & P & Hx). destruct (IH _ _ _ _ _ _ _ _ Ha1 Hn1 Hk H) as (c2 & P2 & R2).
      exists ([x] ++ c2). split; [rewrite P, P2; reflexivity|]. apply (refines_shift sof SearchEnd (k_got k) [x] c2 SearchEnd (k_got k)); [|exact R2].
      cbn [app pdecode]. rewrite <- Hx. reflexivity.
  - (* Normal *)
    destruct (decode_octet s) as [o s1] eqn:D. destruct (decode_octet_shape _ _ _ Ha Hn D) as (Ha1 & Hn1 & d & P & Sh).
    destruct o as [x| |x|e].
    + destruct (put_octet_rc k x) as [e2 k1] eqn:E. destruct (put_octet_rc_answers _ _ _ _ Hk E) as (Hk1 & G1 & G2).
      assert (Hpd : forall c2, pdecode sof Normal (d ++ c2) (k_got k) = pdecode sof Normal c2 (k_got k ++ [x])).
      { intros c2. destruct Sh as [(-> & X1 & X2)|[(-> & ->)|(-> & ->)]]; cbn [app pdecode]; [rewrite X1, X2; reflexivity|reflexivity|reflexivity]. }
      destruct e2 as [err|].
      * injection H as <- <- <- <-. exists d. split; [exact P|]. right. exists (k_got k ++ [x]). split.
        -- rewrite <- (app_nil_r d), Hpd. reflexivity.
        -- right. exists x. rewrite (G2 err eq_refl). reflexivity.
      * destruct (IH _ _ _ _ _ _ _ _ Ha1 Hn1 Hk1 H) as (c2 & P2 & R2). rewrite (G1 eq_refl) in R2.
        exists (d ++ c2). split; [rewrite P, P2, app_assoc; reflexivity|].
        apply (refines_shift sof Normal (k_got k) d c2 Normal (k_got k ++ [x])); [apply Hpd|exact R2].
    + subst d. injection H as <- <- <- <-. exists [RAW_EOF]. split; [exact P|]. cbn [refines pdecode]. reflexivity.
    + destruct Sh as (-> & X1 & X2). injection H as <- <- <- <-. exists [RAW_ESC; x]. split; [exact P|]. left. split; [reflexivity|].
      cbn [pdecode]. rewrite X1, X2. reflexivity.
    + destruct Sh as [Hd Ne].
      assert (Hr : Some (DFail e, Normal, s1, k) = Some (rc, st', s', k')) by (destruct e; try exact H; contradiction Ne; reflexivity).
      injection Hr as <- <- <- <-. exists d. split; [exact P|]. right. exists (k_got k). split; [|left; reflexivity].
      destruct Hd as [->| ->]; reflexivity.
Qed.

(* one call of the decoder as the library runs it, under driver faults: what it did is what the structural decoder does on the
   octets it consumed - a frame, an invalid escape, or a stop in mid-frame with at most the octet in flight not delivered *)
Theorem slip_decode_op_refines sof st s k rc st' s' k' : answers s -> no_ilseq s -> sink_answers k ->
  slip_decode_op sof st s k = Some (rc, st', s', k') ->
  exists consumed, s_stream s = consumed ++ s_stream s' /\ refines sof st (k_got k) consumed rc st' (k_got k').
Proof. apply decode_loop_refines. Qed.
