(* C04, post-state, third part: the first / last / count fields the initialisation stores in every area describe exactly
   the registers whose address lies in the area - a contiguous run of the (ordered) register list. *)
From Ufw Require Import Base.Bits Model.RegTable Proof.ListLemmas Proof.RegInitLemmas Proof.RegInvariant Proof.RegInitInv.
From Coq Require Import Lia Bool ZifyN ZifyBool ZifyNat.
Local Open Scope N_scope.
Local Open Scope bool_scope.

(* ---------- a predicate that is convex along a list splits it into false* true* false* ---------- *)
Section Convex.
  Context {A : Type} (p : A -> bool).
  Definition convex (l : list A) : Prop :=
    forall l1 x l2 y l3, l = l1 ++ x :: l2 ++ y :: l3 -> p x = true -> p y = true -> forallb p l2 = true.
  Definition none (l : list A) : Prop := forallb (fun x => negb (p x)) l = true.

  Lemma convex_tl x l : convex (x :: l) -> convex l.
  Proof. intros H l1 a l2 b l3 E. apply (H (x :: l1) a l2 b l3). rewrite E. reflexivity. Qed.

  Lemma convex_decomp : forall l, convex l -> exists l1 l2 l3, l = l1 ++ l2 ++ l3 /\ none l1 /\ forallb p l2 = true /\ none l3.
  Proof.
    induction l as [|x r IH]; intros Hc.
    - exists [], [], []. repeat split.
    - destruct (IH (convex_tl _ _ Hc)) as (r1 & r2 & r3 & E & N1 & T2 & N3).
      destruct (p x) eqn:Px.
      + destruct r2 as [|y r2'].
        * exists [], [x], (r1 ++ r3). cbn [app] in *. subst r. repeat split; cbn; try rewrite Px; auto.
          unfold none in *. rewrite forallb_app, N1, N3. reflexivity.
        * (* x and y are both true: everything between them (r1) is true, but r1 is all false *)
          cbn [forallb] in T2. apply andb_true_iff in T2 as [Py T2'].
          assert (Hr1 : forallb p r1 = true).
          { apply (Hc [] x r1 y (r2' ++ r3)); [|exact Px|exact Py]. rewrite E. reflexivity. }
          assert (r1 = []).
          { destruct r1 as [|z r1']; [reflexivity|]. cbn in Hr1, N1. unfold none in N1. cbn in N1.
            apply andb_true_iff in Hr1 as [Hz _]. apply andb_true_iff in N1 as [Hz' _]. rewrite Hz in Hz'. discriminate. }
          subst r1. exists [], (x :: y :: r2'), r3. cbn [app] in *. subst r. repeat split; auto.
          cbn [forallb]. rewrite Px, Py, T2'. reflexivity.
      + exists (x :: r1), r2, r3. subst r. repeat split; auto. unfold none in *. cbn [forallb]. rewrite Px, N1. reflexivity.
  Qed.

  (* the indexed filter of such a list is the middle run with its positions *)
  Lemma filter_none k : forall l, none l -> filter (fun q : nat * A => p (snd q)) (combine (seq k (length l)) l) = [].
  Proof.
    intros l. revert k. induction l as [|x l IH]; intros k Hn; [reflexivity|]. unfold none in Hn. cbn [forallb] in Hn.
    apply andb_true_iff in Hn as [Hx Hl]. cbn [length seq combine filter snd]. apply negb_true_iff in Hx. rewrite Hx. apply IH. exact Hl.
  Qed.
  Lemma filter_all k : forall l, forallb p l = true -> filter (fun q : nat * A => p (snd q)) (combine (seq k (length l)) l) = combine (seq k (length l)) l.
  Proof.
    intros l. revert k. induction l as [|x l IH]; intros k Hn; [reflexivity|]. cbn [forallb] in Hn.
    apply andb_true_iff in Hn as [Hx Hl]. cbn [length seq combine filter snd]. rewrite Hx. f_equal. apply IH. exact Hl.
  Qed.
  Lemma combine_seq_app k (l1 l2 : list A) :
    combine (seq k (length (l1 ++ l2))) (l1 ++ l2) = combine (seq k (length l1)) l1 ++ combine (seq (k + length l1) (length l2)) l2.
  Proof.
    revert k. induction l1 as [|x l1 IH]; intros k.
    - cbn. rewrite Nat.add_0_r. reflexivity.
    - cbn [app length seq combine]. rewrite IH. replace (S k + length l1)%nat with (k + S (length l1))%nat by lia. reflexivity.
  Qed.

  Lemma filter_run l1 l2 l3 : none l1 -> forallb p l2 = true -> none l3 ->
    filter (fun q : nat * A => p (snd q)) (combine (seq 0 (length (l1 ++ l2 ++ l3))) (l1 ++ l2 ++ l3)) = combine (seq (length l1) (length l2)) l2.
  Proof.
    intros N1 T2 N3. rewrite combine_seq_app, filter_app, (filter_none 0 l1 N1). cbn [app Nat.add].
    rewrite combine_seq_app, filter_app, (filter_all _ l2 T2), (filter_none _ l3 N3). apply app_nil_r.
  Qed.
End Convex.

(* ---------- registers of an ordered list whose address lies in an interval form such a run ---------- *)
Lemma in_area_convex a : forall es, match es with [] => True | e0 :: er => chain e_addr (fun e => tsize (e_type e)) e0 er end ->
  convex (fun e => addr_in_area a (e_addr e)) es.
Proof.
  intros es Hc l1 x l2 y l3 E Px Py. apply forallb_forall. intros z Hz.
  apply In_nth_error in Hz as [i Hi].
  destruct es as [|e0 er]; [destruct l1; discriminate|].
  assert (Hx : nth_error (e0 :: er) (length l1) = Some x) by (rewrite E, nth_error_app2, Nat.sub_diag by lia; reflexivity).
  assert (Hzn : nth_error (e0 :: er) (length l1 + 1 + i) = Some z).
  { rewrite E, nth_error_app2 by lia. replace (length l1 + 1 + i - length l1)%nat with (S i) by lia. cbn [nth_error].
    rewrite nth_error_app1 by (apply nth_error_Some_lt in Hi; exact Hi). exact Hi. }
  assert (Hy : nth_error (e0 :: er) (length l1 + 1 + length l2) = Some y).
  { rewrite E, nth_error_app2 by lia. replace (length l1 + 1 + length l2 - length l1)%nat with (S (length l2)) by lia. cbn [nth_error].
    rewrite nth_error_app2, Nat.sub_diag by lia. reflexivity. }
  pose proof (nth_error_Some_lt _ _ _ Hi) as Hil.
  pose proof (chain_nth_le e_addr (fun e => tsize (e_type e)) er e0 (length l1) (length l1 + 1 + i)%nat x z Hc ltac:(lia) Hx Hzn) as L1.
  pose proof (chain_nth_le e_addr (fun e => tsize (e_type e)) er e0 (length l1 + 1 + i)%nat (length l1 + 1 + length l2)%nat z y Hc ltac:(lia) Hzn Hy) as L2.
  cbn beta in L1, L2. pose proof (tsize_pos (e_type x)). pose proof (tsize_pos (e_type z)).
  unfold addr_in_area in *. apply andb_true_iff in Px as [X1 X2]. apply andb_true_iff in Py as [Y1 Y2].
  apply N.leb_le in X1. apply N.ltb_lt in X2. apply N.leb_le in Y1. apply N.ltb_lt in Y2.
  apply andb_true_iff. split; [apply N.leb_le|apply N.ltb_lt]; lia.
Qed.

Lemma nth_error_mid {A} (l1 l2 l3 : list A) j e : nth_error (l1 ++ l2 ++ l3) j = Some e ->
  ((j < length l1)%nat /\ In e l1) \/ ((length l1 <= j < length l1 + length l2)%nat /\ In e l2) \/ ((length l1 + length l2 <= j)%nat /\ In e l3).
Proof.
  intros H. destruct (Nat.lt_ge_cases j (length l1)) as [L|L].
  - left. rewrite nth_error_app1 in H by exact L. split; [exact L|apply (nth_error_In _ _ H)].
  - rewrite nth_error_app2 in H by exact L. destruct (Nat.lt_ge_cases (j - length l1) (length l2)) as [M|M].
    + right; left. rewrite nth_error_app1 in H by exact M. split; [lia|apply (nth_error_In _ _ H)].
    + right; right. rewrite nth_error_app2 in H by exact M. split; [lia|apply (nth_error_In _ _ H)].
Qed.

(* the fields: count = number of registers in the area; if there are any, exactly the registers first..last lie in it *)
Theorem link_area_spec es a :
  match es with [] => True | e0 :: er => chain e_addr (fun e => tsize (e_type e)) e0 er end ->
  let a' := link_area es a in
  a_count a' = N.of_nat (length (filter (fun e => addr_in_area a (e_addr e)) es)) /\
  (a_count a' <> 0 -> a_last a' + 1 = a_first a' + a_count a') /\
  forall j e, nth_error es j = Some e ->
    (addr_in_area a (e_addr e) = true <-> a_count a' <> 0 /\ a_first a' <= N.of_nat j <= a_last a').
Proof.
  intros Hc. destruct (convex_decomp _ es (in_area_convex a es Hc)) as (l1 & l2 & l3 & E & N1 & T2 & N3).
  cbv zeta. unfold link_area.
  assert (Hf : filter (fun p0 : nat * entry => addr_in_area a (e_addr (snd p0))) (combine (seq 0 (length es)) es) = combine (seq (length l1) (length l2)) l2).
  { rewrite E. apply (filter_run (fun e => addr_in_area a (e_addr e)) l1 l2 l3 N1 T2 N3). }
  rewrite Hf.
  assert (Hcnt : length (filter (fun e => addr_in_area a (e_addr e)) es) = length l2).
  { rewrite E, !filter_app.
    assert (F1 : forall l, none (fun e => addr_in_area a (e_addr e)) l -> filter (fun e => addr_in_area a (e_addr e)) l = []).
    { induction l as [|x l IH]; intros Hn; [reflexivity|]. unfold none in Hn. cbn [forallb] in Hn. apply andb_true_iff in Hn as [Hx Hl].
      cbn [filter]. apply negb_true_iff in Hx. rewrite Hx. apply IH. exact Hl. }
    assert (F2 : forall l, forallb (fun e => addr_in_area a (e_addr e)) l = true -> filter (fun e => addr_in_area a (e_addr e)) l = l).
    { induction l as [|x l IH]; intros Hn; [reflexivity|]. cbn [forallb] in Hn. apply andb_true_iff in Hn as [Hx Hl]. cbn [filter]. rewrite Hx, IH by exact Hl. reflexivity. }
    rewrite (F1 l1 N1), (F1 l3 N3), (F2 l2 T2), app_nil_r. reflexivity. }
  assert (Hmem : forall j e, nth_error es j = Some e -> (addr_in_area a (e_addr e) = true <-> (length l1 <= j < length l1 + length l2)%nat)).
  { intros j e Hj. rewrite E in Hj. unfold none in N1, N3. rewrite forallb_forall in N1, N3, T2.
    destruct (nth_error_mid _ _ _ _ _ Hj) as [[L I]|[[L I]|[L I]]].
    - specialize (N1 e I). apply negb_true_iff in N1. rewrite N1. split; [discriminate|lia].
    - rewrite (T2 e I). split; [intros _; exact L|reflexivity].
    - specialize (N3 e I). apply negb_true_iff in N3. rewrite N3. split; [discriminate|lia]. }
  destruct l2 as [|y l2'].
  - cbn [length seq combine a_count a_first a_last]. rewrite Hcnt. split; [reflexivity|]. split; [intros H; contradiction H; reflexivity|].
    intros j e Hj. rewrite (Hmem j e Hj). cbn [length]. split; [lia|intros [H _]; contradiction H; reflexivity].
  - cbn [length seq combine a_count a_first a_last]. rewrite combine_length, seq_length, Nat.min_id, Hcnt. cbn [length].
    split; [reflexivity|]. split; [intros _; lia|].
    intros j e Hj. rewrite (Hmem j e Hj). cbn [length]. split; [intros H; split; [lia|lia]|intros [_ H]; lia].
Qed.

(* after a successful initialisation every area carries these fields for the table's registers *)
Theorem init_links t t' : reg_init t = ((ISuccess, 0), t') ->
  exists areas2, t_areas t' = map (link_area (t_entries t')) areas2 /\ entries_ordered t'.
Proof.
  intros H. destruct (proj1 (init_success_iff t) ltac:(rewrite H; reflexivity)) as (Hao & Heo & _).
  unfold reg_init in H. set (t0 := with_flags t false true) in *.
  change (t_areas t0) with (t_areas t) in H. change (t_entries t0) with (t_entries t) in H.
  destruct (t_areas t) as [|a0 ar] eqn:Ear; [discriminate|].
  unfold areas_ordered in Hao. rewrite Ear in Hao.
  rewrite check_areas_spec, (proj2 (first_break_none a_base a_size ar a0) Hao) in H.
  assert (Ece : (match t_entries t with [] => None | e0 :: er => check_entries e0 er 1 end) = None).
  { unfold entries_ordered in Heo. destruct (t_entries t) as [|e0 er]; [reflexivity|].
    rewrite check_entries_spec, (proj2 (first_break_none e_addr (fun e => tsize (e_type e)) er e0) Heo). reflexivity. }
  rewrite Ece in H.
  set (t1 := with_flags (zero_mem_areas t0) true true) in *.
  destruct (load_defaults (S (length (t_entries t1))) t1 0) as [[r|] t2] eqn:LD.
  { exfalso. injection H as Hr _. destruct (load_defaults_code _ _ _ r ltac:(rewrite LD; reflexivity)) as [E|E]; rewrite Hr in E; discriminate. }
  injection H as <-. cbn [t_areas t_entries]. exists (t_areas t2). split; [reflexivity|].
  unfold entries_ordered; cbn [t_entries].
  assert (E : t_entries t2 = t_entries t).
  { clear -LD. assert (G : forall fuel tt i tt', load_defaults fuel tt i = (None, tt') -> t_entries tt' = t_entries tt).
    { induction fuel as [|f IH]; intros tt i tt' H; cbn [load_defaults] in H; [injection H as <-; reflexivity|].
      destruct (nth_error (t_entries tt) (N.to_nat i)) as [e|]; [|injection H as <-; reflexivity].
      destruct (negb (entry_fits tt e)); [discriminate|]. destruct (entry_area tt e) as [[k a]|]; [|discriminate].
      destruct (a_has_write a && negb (a_skip a)); [|apply (IH _ _ _ H)].
      destruct (reg_setx tt i _ true) as [[c x0] tt1] eqn:Es. destruct c; try discriminate.
      rewrite (IH _ _ _ H). destruct (setx_success_form _ _ _ _ _ _ Es eq_refl) as (e1 & k1 & a1 & _ & _ & _ & _ & _ & Et1). rewrite Et1. reflexivity. }
    rewrite (G _ _ _ _ LD). reflexivity. }
  rewrite E. exact Heo.
Qed.

(* ... in the table's own terms: for every area of an initialised table *)
Theorem init_area_fields t t' : reg_init t = ((ISuccess, 0), t') ->
  forall a', In a' (t_areas t') ->
    a_count a' = N.of_nat (length (filter (fun e => addr_in_area a' (e_addr e)) (t_entries t'))) /\
    (a_count a' <> 0 -> a_last a' + 1 = a_first a' + a_count a') /\
    forall j e, nth_error (t_entries t') j = Some e ->
      (addr_in_area a' (e_addr e) = true <-> a_count a' <> 0 /\ a_first a' <= N.of_nat j <= a_last a').
Proof.
  intros H a' Hin. destruct (init_links t t' H) as (areas2 & Ea & Heo). rewrite Ea in Hin.
  apply in_map_iff in Hin as (a & <- & _).
  assert (Hsame : forall x, addr_in_area (link_area (t_entries t') a) x = addr_in_area a x).
  { intros x. unfold addr_in_area. destruct (link_area_same (t_entries t') a) as (-> & -> & _). reflexivity. }
  unfold entries_ordered in Heo. pose proof (link_area_spec (t_entries t') a Heo) as S. cbv zeta in S.
  destruct S as (S1 & S2 & S3). split; [|split; [exact S2|]].
  - rewrite S1. f_equal. f_equal. apply filter_ext. intros e. symmetry. apply Hsame.
  - intros j e Hj. rewrite Hsame. apply (S3 j e Hj).
Qed.
