(* The reader model's character classes are the tables of src/sx.c. *)
From Ufw Require Import Base.Bits Gen.Consts Model.Sx Proof.Sweep.
From Coq Require Import NArith List Bool.
Local Open Scope N_scope.
Local Open Scope bool_scope.
Definition sx_tables_ok (c : N) : bool :=
  Bool.eqb (is_syminit c) ((c =? 0) || existsb (N.eqb c) c_syminitchtab)
  && Bool.eqb (is_lower_hex c || is_digit c) (existsb (N.eqb c) c_digits).
Lemma sx_tables_sweep : all_from 128 0 sx_tables_ok = true.
Proof. vm_compute. reflexivity. Qed.
Lemma sx_constants : forall c, c < 128 ->
  is_syminit c = ((c =? 0) || existsb (N.eqb c) c_syminitchtab) /\
  (is_lower_hex c || is_digit c) = existsb (N.eqb c) c_digits /\
  (* digit2int: the index in the digit table *)
  (existsb (N.eqb c) c_digits = true -> nth_error c_digits (N.to_nat (digit_val c)) = Some c).
Proof.
  intros c Hc. pose proof (all_from_spec 128 0 sx_tables_ok sx_tables_sweep c ltac:(cbn; lia)) as H.
  unfold sx_tables_ok in H. apply andb_prop in H as [H1 H2]. apply eqb_prop in H1, H2. split; [exact H1|]. split; [exact H2|].
  intros Hd. revert Hd. clear.
  assert (C : forall d, In d c_digits -> nth_error c_digits (N.to_nat (digit_val d)) = Some d).
  { intros d Hin. cbn in Hin. repeat (destruct Hin as [<-|Hin]; [reflexivity|]). destruct Hin. }
  intros Hd. apply existsb_exists in Hd as (d & Hin & E). apply N.eqb_eq in E. subst d. apply C. exact Hin.
Qed.
