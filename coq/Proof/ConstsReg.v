(* The register-table model uses the type numbering and the size table rds_size of src/registers/core.c (in 16-bit atoms). *)
From Ufw Require Import Base.Bits Gen.Consts Model.RegTable.
From Coq Require Import NArith List.
Local Open Scope N_scope.
Definition type_number (t : rtype) : N :=
  match t with TU16 => c_REG_TYPE_UINT16 | TU32 => c_REG_TYPE_UINT32 | TU64 => c_REG_TYPE_UINT64 | TS16 => c_REG_TYPE_SINT16
             | TS32 => c_REG_TYPE_SINT32 | TS64 => c_REG_TYPE_SINT64 | TF32 => c_REG_TYPE_FLOAT32 | TF64 => c_REG_TYPE_FLOAT64 end.
Lemma register_constants : c_sizeof_RegisterAtom = 2 /\ forall t, nth_error c_rds_size (N.to_nat (type_number t)) = Some (tsize t).
Proof. split; [reflexivity|]. intros []; reflexivity. Qed.
