From Ufw Require Import Base.Bits Base.Errno Model.ByteBuffer Model.Endpoints Model.Varint Proof.Sweep Proof.ListLemmas Proof.ByteBufferLemmas.
From Coq Require Import Lia Bool.
Local Open Scope N_scope.
Ltac Zify.zify_post_hook ::= Z.div_mod_to_equations.

(* ---------- octet-level facts (finite sweeps) ---------- *)
Lemma land127_mod n : N.land n 127 = n mod 128.
Proof. change 127 with (N.ones 7). rewrite N.land_ones. reflexivity. Qed.
Lemma shiftr7_div n : N.shiftr n 7 = n / 128.
Proof. rewrite N.shiftr_div_pow2. reflexivity. Qed.

Lemma low_facts x : x < 128 ->
  N.lor x 128 = x + 128 /\ N.land x 127 = x /\ N.land (x + 128) 127 = x /\
  N.land x 128 = 0 /\ N.land (x + 128) 128 = 128.
Proof.
  intros H.
  pose proof (sweep128 (fun x => (N.lor x 128 =? x + 128) && (N.land x 127 =? x) && (N.land (x + 128) 127 =? x)
                                 && (N.land x 128 =? 0) && (N.land (x + 128) 128 =? 128)) eq_refl x H) as S.
  cbv beta in S. repeat (apply andb_prop in S as [S ?]).
  repeat split; apply N.eqb_eq; assumption.
Qed.

Lemma lor_shiftl_add acc x k : acc < 2 ^ k -> N.lor acc (N.shiftl x k) = acc + x * 2 ^ k.
Proof.
  intros H. rewrite <- N.lxor_lor, <- N.add_nocarry_lxor, N.shiftl_mul_pow2; try reflexivity.
  all: apply N.bits_inj; intro m; rewrite N.land_spec, N.bits_0;
    destruct (N.lt_ge_cases m k) as [Hm|Hm];
    [rewrite N.shiftl_spec_low by exact Hm; apply andb_false_r
    |destruct (N.eq_dec acc 0) as [->|Hz]; [rewrite N.bits_0; reflexivity|];
     rewrite (N.bits_above_log2 acc m); [reflexivity|];
     apply N.log2_lt_pow2 in H; lia].
Qed.

(* ---------- encoder: arithmetic form ---------- *)
Lemma encode_fuel_S f n :
  vi_encode_fuel (S f) n =
  if n / 128 =? 0 then [n mod 128] else (n mod 128 + 128) :: vi_encode_fuel f (n / 128).
Proof.
  cbn [vi_encode_fuel]. rewrite land127_mod, shiftr7_div.
  destruct (n / 128 =? 0); [reflexivity|].
  destruct (low_facts (n mod 128)) as (-> & _); [apply N.mod_lt; discriminate|reflexivity].
Qed.

Lemma length_fuel_S f n :
  vi_length_fuel (S f) n = if n / 128 =? 0 then 1 else 1 + vi_length_fuel f (n / 128).
Proof. cbn [vi_length_fuel]. rewrite shiftr7_div. reflexivity. Qed.

(* fuel f suffices for n when n < 128^f *)
Lemma small_div n : n / 128 = 0 -> n mod 128 = n.
Proof. intros E. pose proof (N.div_mod n 128) as H. rewrite E in H. lia. Qed.

Lemma pos_fuel f n : n < 128 ^ N.of_nat f -> n <> 0 -> (0 < f)%nat.
Proof. destruct f; [cbn; lia|lia]. Qed.

Lemma encode_length_fuel f : forall n, n < 128 ^ N.of_nat f -> (0 < f)%nat ->
  N.of_nat (length (vi_encode_fuel f n)) = vi_length_fuel f n /\
  1 <= vi_length_fuel f n <= N.of_nat f.
Proof.
  induction f as [|f IH]; intros n Hn Hf.
  - lia.
  - rewrite encode_fuel_S, length_fuel_S.
    destruct (N.eqb_spec (n / 128) 0) as [E|E]; [cbn; lia|].
    assert (Hn' : n / 128 < 128 ^ N.of_nat f).
    { apply N.div_lt_upper_bound; [discriminate|].
      rewrite <- N.pow_succ_r'. replace (N.succ (N.of_nat f)) with (N.of_nat (S f)) by lia. exact Hn. }
    destruct (IH _ Hn' (pos_fuel _ _ Hn' E)) as [H1 H2]. cbn [length]. split; lia.
Qed.

Lemma fuel_enough n : n < 128 ^ N.of_nat (S (N.to_nat (N.log2 n))).
Proof.
  destruct (N.eq_dec n 0) as [->|Hz]; [reflexivity|].
  assert (H : n < 2 ^ N.succ (N.log2 n)) by (apply N.log2_spec; lia).
  eapply N.lt_le_trans; [exact H|].
  replace (N.of_nat (S (N.to_nat (N.log2 n)))) with (N.succ (N.log2 n)) by lia.
  apply N.pow_le_mono_l. lia.
Qed.

(* more fuel does not change the result *)
Lemma encode_fuel_mono f : forall n g, n < 128 ^ N.of_nat f -> (0 < f)%nat -> (f <= g)%nat ->
  vi_encode_fuel g n = vi_encode_fuel f n.
Proof.
  induction f as [|f IH]; intros n g Hn Hf Hg; [lia|].
  destruct g as [|g]; [lia|]. rewrite !encode_fuel_S.
  destruct (N.eqb_spec (n / 128) 0) as [E|E]; [reflexivity|].
  assert (Hn' : n / 128 < 128 ^ N.of_nat f).
  { apply N.div_lt_upper_bound; [discriminate|].
    rewrite <- N.pow_succ_r'. replace (N.succ (N.of_nat f)) with (N.of_nat (S f)) by lia. exact Hn. }
  f_equal. apply IH; [exact Hn'|exact (pos_fuel _ _ Hn' E)|lia].
Qed.

Lemma length_fuel_mono f : forall n g, n < 128 ^ N.of_nat f -> (0 < f)%nat -> (f <= g)%nat ->
  vi_length_fuel g n = vi_length_fuel f n.
Proof.
  induction f as [|f IH]; intros n g Hn Hf Hg; [lia|].
  destruct g as [|g]; [lia|]. rewrite !length_fuel_S.
  destruct (N.eqb_spec (n / 128) 0) as [E|E]; [reflexivity|].
  assert (Hn' : n / 128 < 128 ^ N.of_nat f).
  { apply N.div_lt_upper_bound; [discriminate|].
    rewrite <- N.pow_succ_r'. replace (N.succ (N.of_nat f)) with (N.of_nat (S f)) by lia. exact Hn. }
  f_equal. apply IH; [exact Hn'|exact (pos_fuel _ _ Hn' E)|lia].
Qed.

Theorem encode_length n : N.of_nat (length (vi_encode n)) = vi_length n.
Proof. unfold vi_encode, vi_length. apply encode_length_fuel; [apply fuel_enough|lia]. Qed.

Lemma encode_as_fuel n f : n < 128 ^ N.of_nat f -> (0 < f)%nat ->
  vi_encode n = vi_encode_fuel f n /\ vi_length n = vi_length_fuel f n.
Proof.
  intros Hn Hf. unfold vi_encode, vi_length.
  destruct (Nat.le_ge_cases f (S (N.to_nat (N.log2 n)))) as [H|H].
  - split; [apply encode_fuel_mono|apply length_fuel_mono]; assumption.
  - split; symmetry; [apply encode_fuel_mono|apply length_fuel_mono]; auto using fuel_enough; lia.
Qed.

Theorem length_bound64 n : n < 2 ^ 64 -> 1 <= vi_length n <= 10.
Proof.
  intros H. assert (Hn : n < 128 ^ N.of_nat 10) by (cbn; lia).
  destruct (encode_as_fuel n 10 Hn) as [_ ->]; [lia|]. apply (encode_length_fuel 10 n Hn). lia.
Qed.
Theorem length_bound32 n : n < 2 ^ 32 -> 1 <= vi_length n <= 5.
Proof.
  intros H. assert (Hn : n < 128 ^ N.of_nat 5) by (cbn; lia).
  destruct (encode_as_fuel n 5 Hn) as [_ ->]; [lia|]. apply (encode_length_fuel 5 n Hn). lia.
Qed.

(* ---------- canonical form ---------- *)
Fixpoint value (l : list N) : N :=
  match l with [] => 0 | d :: r => N.land d 127 + 128 * value r end.

(* every octet but the last has the continuation bit, the last has not; the last is non-zero unless
   it is the only one *)
Fixpoint canonical (l : list N) : Prop :=
  match l with
  | [] => False
  | [d] => d < 128
  | d :: ((_ :: _) as r) => 128 <= d < 256 /\ canonical r /\ last r 0 <> 0
  end.

Lemma encode_fuel_canonical f : forall n, n < 128 ^ N.of_nat f -> (0 < f)%nat ->
  canonical (vi_encode_fuel f n) /\ value (vi_encode_fuel f n) = n /\
  (n <> 0 -> last (vi_encode_fuel f n) 0 <> 0).
Proof.
  induction f as [|f IH]; intros n Hn Hf; [lia|].
  rewrite encode_fuel_S.
  assert (Hm : n mod 128 < 128) by (apply N.mod_lt; discriminate).
  destruct (low_facts _ Hm) as (_ & L1 & L2 & _).
  destruct (N.eqb_spec (n / 128) 0) as [E|E].
  - cbn [canonical value last]. rewrite L1, (small_div n E). clear Hn. repeat split; lia.
  - assert (Hn' : n / 128 < 128 ^ N.of_nat f).
    { apply N.div_lt_upper_bound; [discriminate|].
      rewrite <- N.pow_succ_r'. replace (N.succ (N.of_nat f)) with (N.of_nat (S f)) by lia. exact Hn. }
    destruct (IH _ Hn' (pos_fuel _ _ Hn' E)) as (C & V & Lz). specialize (Lz E).
    cbn [value]. rewrite L2, V.
    destruct (vi_encode_fuel f (n / 128)) as [|d r] eqn:Er; [cbn in C; contradiction|].
    split; [|split; [rewrite N.add_comm; symmetry; apply N.div_mod; discriminate|]].
    + cbn [canonical]. repeat split; try lia; assumption.
    + intros _. exact Lz.
Qed.

Theorem encode_canonical n :
  canonical (vi_encode n) /\ value (vi_encode n) = n /\ (n <> 0 -> last (vi_encode n) 0 <> 0).
Proof. unfold vi_encode. apply encode_fuel_canonical; [apply fuel_enough|lia]. Qed.

(* ---------- the decoding loop on octet lists (shared shape of both decoders) ---------- *)
Fixpoint dec_list (fuel : nat) (l : list N) (i acc : N) : vres :=
  match fuel with
  | O => VIllegal
  | S f =>
      match l with
      | [] => VShort
      | d :: r =>
          let acc' := wrap 64 (N.lor acc (N.shiftl (N.land d 127) (7 * i))) in
          if N.land d 128 =? 0 then VOk acc' (i + 1) else dec_list f r (i + 1) acc'
      end
  end.

Lemma nth_error_skipn {A} (l : list A) i : nth_error l i = hd_error (skipn i l).
Proof. revert l; induction i as [|i IH]; intros [|x l]; cbn; auto. Qed.

Lemma tail_length b : bb_inv b -> length (bb_tail b) = N.to_nat (bb_size b - bb_offset b).
Proof.
  intros (Ho & Hu & Hs). unfold bb_tail. rewrite skipn_length, firstn_length. lia.
Qed.

Lemma decode_loop_list fuel : forall b i acc, bb_inv b ->
  vi_decode_loop fuel b i acc = dec_list fuel (skipn (N.to_nat i) (bb_tail b)) i acc.
Proof.
  induction fuel as [|f IH]; intros b i acc Hi; [reflexivity|].
  cbn [vi_decode_loop dec_list].
  pose proof (tail_length b Hi) as Hl.
  destruct (N.leb_spec (bb_size b - bb_offset b) i) as [Hr|Hr].
  - rewrite skipn_all2 by lia. reflexivity.
  - assert (E : nth_error (bb_mem b) (N.to_nat (bb_offset b + i)) = hd_error (skipn (N.to_nat i) (bb_tail b))).
    { unfold bb_tail. rewrite <- skipn_add, nth_error_skipn.
      destruct Hi as (Ho & Hu & Hs).
      replace (N.to_nat i + N.to_nat (bb_offset b))%nat with (N.to_nat (bb_offset b + i)) by lia.
      rewrite skipn_firstn_comm.
      destruct (skipn (N.to_nat (bb_offset b + i)) (bb_mem b)) as [|x t] eqn:Es.
      - exfalso. assert (length (skipn (N.to_nat (bb_offset b + i)) (bb_mem b)) = 0%nat) by (rewrite Es; reflexivity).
        rewrite skipn_length in H. lia.
      - replace (N.to_nat (bb_size b) - N.to_nat (bb_offset b + i))%nat with (S (N.to_nat (bb_size b) - N.to_nat (bb_offset b + i) - 1)) by lia.
        reflexivity. }
    rewrite E.
    destruct (skipn (N.to_nat i) (bb_tail b)) as [|d r] eqn:Es.
    + exfalso. assert (length (skipn (N.to_nat i) (bb_tail b)) = 0%nat) by (rewrite Es; reflexivity).
      rewrite skipn_length in H. lia.
    + cbn [hd_error]. destruct (N.land d 128 =? 0); [reflexivity|].
      rewrite IH by exact Hi.
      replace (N.to_nat (i + 1)) with (1 + N.to_nat i)%nat by lia.
      rewrite skipn_add, Es. reflexivity.
Qed.

(* ---------- source decoder on a plain (script-less) source = the same loop on the stream ---------- *)
Lemma plain_get_octet oct st calls :
  source_get_octet {| s_octet := oct; s_stream := st; s_script := []; s_calls := calls |} =
  match st with
  | [] => (DErr ENODATA, [], {| s_octet := oct; s_stream := []; s_script := []; s_calls := calls + 1 |})
  | x :: r => (DOk 1, [x], {| s_octet := oct; s_stream := r; s_script := []; s_calls := calls + 1 |})
  end.
Proof.
  unfold source_get_octet, src_octet_call, src_chunk_call, src_with; cbn [s_octet s_script s_stream s_calls pop_ev].
  destruct oct, st as [|x r]; try reflexivity.
  cbn [length]. replace (N.min (N.min SSIZE_MAX 1) (N.of_nat (S (length r)))) with 1 by (unfold SSIZE_MAX; lia).
  reflexivity.
Qed.

Definition sres_of (r : vres) : sres :=
  match r with VOk u c => SOk u c | VIllegal => SIllegal | VShort => SErr ENODATA end.

Lemma from_source_list fuel : forall oct st calls i acc,
  fst (vi_from_source_loop fuel {| s_octet := oct; s_stream := st; s_script := []; s_calls := calls |} i acc)
  = sres_of (dec_list fuel st i acc).
Proof.
  induction fuel as [|f IH]; intros oct st calls i acc; [reflexivity|].
  cbn [vi_from_source_loop dec_list]. rewrite plain_get_octet.
  destruct st as [|d r]; [reflexivity|].
  destruct (N.land d 128 =? 0); [reflexivity|]. apply IH.
Qed.

(* both decoders give the same verdict, value and count on every octet string *)
Theorem decoders_agree k l oct :
  let b := {| bb_mem := l; bb_size := N.of_nat (length l); bb_used := N.of_nat (length l); bb_offset := 0 |} in
  fst (vi_from_source k (src_plain oct l)) = sres_of (fst (vi_decode k b)).
Proof.
  intros b. unfold vi_from_source, src_plain. rewrite from_source_list.
  unfold vi_decode. rewrite decode_loop_list.
  2:{ unfold bb_inv, b; cbn. lia. }
  replace (skipn (N.to_nat 0) (bb_tail b)) with l.
  2:{ unfold bb_tail, b; cbn [bb_mem bb_size bb_offset]. cbn [N.to_nat skipn].
      rewrite Nat2N.id, firstn_all. reflexivity. }
  destruct (dec_list _ _ _ _); reflexivity.
Qed.

(* the buffer decoder's result depends on the octets in [offset, size) only (it reads nothing else) *)
Theorem decode_reads_unread_only k b1 b2 : bb_inv b1 -> bb_inv b2 -> bb_tail b1 = bb_tail b2 ->
  match fst (vi_decode k b1), fst (vi_decode k b2) with
  | VOk u1 c1, VOk u2 c2 => u1 = u2 /\ c1 = c2
  | VIllegal, VIllegal | VShort, VShort => True
  | _, _ => False
  end.
Proof.
  intros H1 H2 E. unfold vi_decode. rewrite !decode_loop_list by assumption. rewrite E.
  destruct (dec_list _ _ _ _); cbn; auto.
Qed.

(* an error consumes nothing *)
Theorem decode_error_consumes_nothing k b :
  match fst (vi_decode k b) with VOk _ _ => True | _ => snd (vi_decode k b) = b end.
Proof. unfold vi_decode. destruct (vi_decode_loop _ _ _ _); cbn; auto. Qed.

(* ---------- illegal and short ---------- *)
Lemma dec_list_all_continuation fuel : forall l i acc,
  Forall (fun d => N.land d 128 <> 0) l -> (fuel <= length l)%nat -> dec_list fuel l i acc = VIllegal.
Proof.
  induction fuel as [|f IH]; intros l i acc Hl Hf; [reflexivity|].
  destruct l as [|d r]; [cbn in Hf; lia|]. inversion Hl as [|? ? Hd Hr]; subst.
  cbn [dec_list]. destruct (N.eqb_spec (N.land d 128) 0); [contradiction|].
  apply IH; [exact Hr|cbn in Hf; lia].
Qed.

Lemma dec_list_short fuel : forall l i acc,
  Forall (fun d => N.land d 128 <> 0) l -> (length l < fuel)%nat -> dec_list fuel l i acc = VShort.
Proof.
  induction fuel as [|f IH]; intros l i acc Hl Hf; [lia|].
  destruct l as [|d r]; [reflexivity|]. inversion Hl as [|? ? Hd Hr]; subst.
  cbn [dec_list]. destruct (N.eqb_spec (N.land d 128) 0); [contradiction|].
  apply IH; [exact Hr|cbn in Hf; lia].
Qed.

(* ---------- round trip ---------- *)
Lemma dec_list_roundtrip f : forall n i acc r fuel,
  n < 128 ^ N.of_nat f -> (0 < f)%nat -> (f <= fuel)%nat ->
  acc < 2 ^ (7 * i) -> acc + 2 ^ (7 * i) * n < 2 ^ 64 ->
  dec_list fuel (vi_encode_fuel f n ++ r) i acc =
  VOk (acc + 2 ^ (7 * i) * n) (i + N.of_nat (length (vi_encode_fuel f n))).
Proof.
  induction f as [|f IH]; intros n i acc r fuel Hn Hf Hfu Hacc Htot; [lia|].
  destruct fuel as [|fuel]; [lia|].
  rewrite encode_fuel_S.
  assert (Hm : n mod 128 < 128) by (apply N.mod_lt; discriminate).
  destruct (low_facts _ Hm) as (_ & L1 & L2 & L3 & L4).
  pose proof (N.div_mod n 128 ltac:(discriminate)) as Hdm.
  assert (Hp : 0 < 2 ^ (7 * i)) by (apply N.neq_0_lt_0, N.pow_nonzero; discriminate).
  destruct (N.eqb_spec (n / 128) 0) as [E|E].
  - cbn [app dec_list length]. rewrite L1, L3. cbn [N.eqb].
    rewrite lor_shiftl_add by exact Hacc.
    rewrite (small_div n E) in *. unfold wrap. rewrite N.mod_small by lia.
    f_equal; lia.
  - cbn [app dec_list length]. rewrite L2, L4. cbn [N.eqb].
    rewrite lor_shiftl_add by exact Hacc.
    assert (Hn' : n / 128 < 128 ^ N.of_nat f).
    { apply N.div_lt_upper_bound; [discriminate|].
      rewrite <- N.pow_succ_r'. replace (N.succ (N.of_nat f)) with (N.of_nat (S f)) by lia. exact Hn. }
    assert (Hpow : 2 ^ (7 * (i + 1)) = 2 ^ (7 * i) * 128).
    { replace (7 * (i + 1)) with (7 * i + 7) by lia. rewrite N.pow_add_r. reflexivity. }
    assert (Htot' : acc + n mod 128 * 2 ^ (7 * i) + 2 ^ (7 * (i + 1)) * (n / 128) = acc + 2 ^ (7 * i) * n).
    { rewrite Hpow. rewrite Hdm at 3. lia. }
    unfold wrap. rewrite N.mod_small by nia.
    rewrite (IH (n / 128) (i + 1) _ r fuel Hn' (pos_fuel _ _ Hn' E)); try lia.
    + f_equal; lia.
    + rewrite Hpow. nia.
Qed.

Theorem decode_list_roundtrip n r fuel : n < 2 ^ 64 -> (10 <= fuel)%nat ->
  dec_list fuel (vi_encode n ++ r) 0 0 = VOk n (vi_length n).
Proof.
  intros Hn Hf. assert (Hn' : n < 128 ^ N.of_nat 10) by (cbn; lia).
  destruct (encode_as_fuel n 10 Hn') as [E1 E2]; [lia|].
  rewrite <- encode_length, E1.
  rewrite (dec_list_roundtrip 10 n 0 0 r fuel); try lia; try exact Hn'.
  all: try (f_equal; rewrite ?N.mul_0_r, ?N.pow_0_r; lia).
  all: rewrite ?N.mul_0_r, ?N.pow_0_r; lia.
Qed.

Theorem decode_list_roundtrip32 n r : n < 2 ^ 32 ->
  dec_list 5 (vi_encode n ++ r) 0 0 = VOk n (vi_length n).
Proof.
  intros Hn. assert (Hn' : n < 128 ^ N.of_nat 5) by (cbn; lia).
  destruct (encode_as_fuel n 5 Hn') as [E1 E2]; [lia|].
  rewrite <- encode_length, E1.
  rewrite (dec_list_roundtrip 5 n 0 0 r 5); try lia; try exact Hn'.
  all: try (f_equal; rewrite ?N.mul_0_r, ?N.pow_0_r; lia).
  all: rewrite ?N.mul_0_r, ?N.pow_0_r; lia.
Qed.

(* buffer decoder round trip: a buffer whose unread octets start with the encoding *)
Theorem decode_buf_roundtrip k b n r : bb_inv b -> bb_tail b = vi_encode n ++ r ->
  n < 2 ^ (match k with KU32 | KS32 => 32 | _ => 64 end) ->
  exists b', vi_decode k b = (VOk n (vi_length n), b') /\
             bb_offset b' = bb_offset b + vi_length n /\ bb_mem b' = bb_mem b /\ bb_used b' = bb_used b.
Proof.
  intros Hi Hu Hn. unfold vi_decode. rewrite decode_loop_list by exact Hi.
  cbn [N.to_nat skipn]. rewrite Hu.
  assert (E : dec_list (N.to_nat (vk_max k)) (vi_encode n ++ r) 0 0 = VOk n (vi_length n)).
  { destruct k; cbn [vk_max].
    - apply decode_list_roundtrip32; exact Hn.
    - apply decode_list_roundtrip32; exact Hn.
    - apply decode_list_roundtrip; [exact Hn|cbn; lia].
    - apply decode_list_roundtrip; [exact Hn|cbn; lia]. }
  rewrite E. eexists; split; [reflexivity|]. cbn. auto.
Qed.

Theorem from_source_roundtrip k n r oct :
  n < 2 ^ (match k with KU32 | KS32 => 32 | _ => 64 end) ->
  fst (vi_from_source k (src_plain oct (vi_encode n ++ r))) = SOk n (vi_length n).
Proof.
  intros Hn. unfold vi_from_source, src_plain. rewrite from_source_list.
  assert (E : dec_list (N.to_nat (vk_max k)) (vi_encode n ++ r) 0 0 = VOk n (vi_length n)).
  { destruct k; cbn [vk_max].
    - apply decode_list_roundtrip32; exact Hn.
    - apply decode_list_roundtrip32; exact Hn.
    - apply decode_list_roundtrip; [exact Hn|cbn; lia].
    - apply decode_list_roundtrip; [exact Hn|cbn; lia]. }
  rewrite E. reflexivity.
Qed.

(* signed kinds: the value delivered is the two's complement reading of what was encoded *)
Lemma wrapZ_lt w z : wrapZ w z < 2 ^ w.
Proof.
  unfold wrapZ. apply N2Z.inj_lt. rewrite Z2N.id, N2Z.inj_pow.
  - apply Z.mod_pos_bound. apply Z.pow_pos_nonneg; lia.
  - apply Z.mod_pos_bound. apply Z.pow_pos_nonneg; lia.
Qed.

Theorem signed_roundtrip32 z : (- 2 ^ 31 <= z < 2 ^ 31)%Z -> vk_result KS32 (vk_arg KS32 z) = z.
Proof.
  intros Hz. unfold vk_result, vk_arg, sext, wrap, wrapZ.
  change (Z.of_N 32) with 32%Z. change (2 ^ (32 - 1)) with 2147483648. change (2 ^ 32) with 4294967296.
  rewrite N.mod_small.
  2:{ apply N2Z.inj_lt. rewrite Z2N.id by (apply Z.mod_pos_bound; lia). change (Z.of_N 4294967296) with (2 ^ 32)%Z. apply Z.mod_pos_bound; lia. }
  destruct (N.ltb_spec (Z.to_N (z mod 2 ^ 32)) 2147483648) as [H|H];
    rewrite Z2N.id by (apply Z.mod_pos_bound; lia);
    apply N2Z.inj_lt in H || apply N2Z.inj_le in H;
    rewrite Z2N.id in H by (apply Z.mod_pos_bound; lia);
    change (Z.of_N 2147483648) with 2147483648%Z in H; change (Z.of_N 4294967296) with 4294967296%Z; lia.
Qed.

Theorem signed_roundtrip64 z : (- 2 ^ 63 <= z < 2 ^ 63)%Z -> vk_result KS64 (vk_arg KS64 z) = z.
Proof.
  intros Hz. unfold vk_result, vk_arg, sext, wrap, wrapZ.
  change (Z.of_N 64) with 64%Z. change (2 ^ (64 - 1)) with 9223372036854775808. change (2 ^ 64) with 18446744073709551616.
  rewrite N.mod_small.
  2:{ apply N2Z.inj_lt. rewrite Z2N.id by (apply Z.mod_pos_bound; lia). change (Z.of_N 18446744073709551616) with (2 ^ 64)%Z. apply Z.mod_pos_bound; lia. }
  destruct (N.ltb_spec (Z.to_N (z mod 2 ^ 64)) 9223372036854775808) as [H|H];
    rewrite Z2N.id by (apply Z.mod_pos_bound; lia);
    apply N2Z.inj_lt in H || apply N2Z.inj_le in H;
    rewrite Z2N.id in H by (apply Z.mod_pos_bound; lia);
    change (Z.of_N 9223372036854775808) with 9223372036854775808%Z in H; change (Z.of_N 18446744073709551616) with 18446744073709551616%Z; lia.
Qed.
