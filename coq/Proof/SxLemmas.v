(* The s-expression reader (Model/Sx.v): it inverts printing, and whatever it accepts is a printed tree. *)
From Ufw Require Import Base.Bits Model.Sx Proof.Sweep Proof.ListLemmas.
From Coq Require Import Lia Bool ZifyN ZifyBool ZifyNat.
Local Open Scope N_scope.
Local Open Scope bool_scope.

(* ---------- character classes: finite facts (all 256 octet values) ---------- *)
Definition class_ok (c : N) : bool :=
  (negb (is_syminit c) || (negb (is_space c) && negb (c =? LPAREN) && negb (c =? RPAREN) && negb (is_digit c) && negb (c =? HASH) && is_symch c))
  && (negb (is_digit c) || (negb (is_space c) && negb (c =? LPAREN) && negb (c =? RPAREN) && negb (c =? HASH) && is_xdigit c && is_symch c
                            && negb (is_syminit c)))
  && (negb (is_delim c) || (negb (is_symch c) && negb (is_digit c) && negb (is_xdigit c)))
  && (negb (is_space c) || (negb (c =? LPAREN) && negb (c =? RPAREN) && negb (c =? HASH) && is_delim c))
  && (negb (is_xdigit c) || (negb (is_space c) && negb (c =? LPAREN) && negb (c =? RPAREN) && negb (c =? HASH))).
Lemma class_sweep : all_from 256 0 class_ok = true.
Proof. vm_cast_no_check (eq_refl true). Qed.

Definition octet_text (l : list N) : Prop := Forall (fun c => c < 256) l.

Lemma class_facts c : c < 256 -> class_ok c = true.
Proof. intros H. apply (all_from_spec 256 0 class_ok class_sweep). cbn. lia. Qed.

Ltac split_ands H := repeat match type of H with _ && _ = true => let A := fresh in apply andb_prop in H as [H A]; try split_ands A end.
Ltac negs := repeat match goal with H : negb _ = true |- _ => apply negb_true_iff in H end.

Lemma syminit_facts c : c < 256 -> is_syminit c = true ->
  is_space c = false /\ (c =? LPAREN) = false /\ (c =? RPAREN) = false /\ is_digit c = false /\ (c =? HASH) = false /\ is_symch c = true.
Proof.
  intros H Hc. pose proof (class_facts c H) as F. unfold class_ok in F.
  apply andb_prop in F as [F _]. apply andb_prop in F as [F _]. apply andb_prop in F as [F _]. apply andb_prop in F as [F _].
  rewrite Hc in F. cbn [negb orb] in F. split_ands F. negs. auto 10.
Qed.
Lemma digit_facts c : c < 256 -> is_digit c = true ->
  is_space c = false /\ (c =? LPAREN) = false /\ (c =? RPAREN) = false /\ (c =? HASH) = false /\ is_xdigit c = true /\ is_symch c = true /\
  is_syminit c = false.
Proof.
  intros H Hc. pose proof (class_facts c H) as F. unfold class_ok in F.
  apply andb_prop in F as [F _]. apply andb_prop in F as [F _]. apply andb_prop in F as [F _]. apply andb_prop in F as [_ F].
  rewrite Hc in F. cbn [negb orb] in F. split_ands F. negs. auto 10.
Qed.
Lemma delim_facts c : c < 256 -> is_delim c = true -> is_symch c = false /\ is_digit c = false /\ is_xdigit c = false.
Proof.
  intros H Hc. pose proof (class_facts c H) as F. unfold class_ok in F.
  apply andb_prop in F as [F _]. apply andb_prop in F as [F _]. apply andb_prop in F as [_ F].
  rewrite Hc in F. cbn [negb orb] in F. split_ands F. negs. auto.
Qed.
Lemma space_facts c : c < 256 -> is_space c = true -> (c =? LPAREN) = false /\ (c =? RPAREN) = false /\ (c =? HASH) = false /\ is_delim c = true.
Proof.
  intros H Hc. pose proof (class_facts c H) as F. unfold class_ok in F.
  apply andb_prop in F as [F _]. apply andb_prop in F as [_ F].
  rewrite Hc in F. cbn [negb orb] in F. split_ands F. negs. auto.
Qed.
Lemma xdigit_facts c : c < 256 -> is_xdigit c = true -> is_space c = false /\ (c =? LPAREN) = false /\ (c =? RPAREN) = false /\ (c =? HASH) = false.
Proof.
  intros H Hc. pose proof (class_facts c H) as F. unfold class_ok in F.
  apply andb_prop in F as [_ F].
  rewrite Hc in F. cbn [negb orb] in F. split_ands F. negs. auto.
Qed.

(* ---------- span ---------- *)
Lemma span_app p a : forall b, forallb p a = true -> (match b with [] => True | c :: _ => p c = false end) ->
  span p (a ++ b) = (a, b).
Proof.
  induction a as [|x a IH]; intros b Ha Hb; cbn [app span].
  - destruct b as [|c b]; [reflexivity|]. cbn [span]. rewrite Hb. reflexivity.
  - cbn [forallb] in Ha. apply andb_prop in Ha as [Hx Ha]. rewrite Hx, (IH b Ha Hb). reflexivity.
Qed.

Lemma span_spec p l : forall a b, span p l = (a, b) ->
  l = (a ++ b)%list /\ forallb p a = true /\ (match b with [] => True | c :: _ => p c = false end).
Proof.
  induction l as [|x l IH]; intros a b H; cbn [span] in H.
  - injection H as <- <-. auto.
  - destruct (p x) eqn:Ex.
    + destruct (span p l) as [a' b'] eqn:E. injection H as <- <-. destruct (IH a' b' eq_refl) as (E1 & E2 & E3).
      subst l. cbn [app forallb]. rewrite Ex. auto.
    + injection H as <- <-. cbn. auto.
Qed.

(* ---------- what a printed atom looks like ---------- *)
Definition all_space (w : list N) : Prop := forallb is_space w = true.
Definition valid_sym (cs : list N) : Prop :=
  match cs with c :: r => is_syminit c = true /\ forallb is_symch r = true | [] => False end.
Inductive atom_text : sx -> list N -> Prop :=
| A_sym cs : valid_sym cs -> atom_text (Sym cs) cs
| A_dec ds : ds <> [] -> forallb is_digit ds = true -> atom_text (Int (number 10 ds)) ds
| A_hex ds : ds <> [] -> forallb is_xdigit ds = true -> atom_text (Int (number 16 ds)) (HASH :: CH_x :: ds).

Lemma octet_text_app a b : octet_text (a ++ b) <-> octet_text a /\ octet_text b.
Proof. unfold octet_text. apply Forall_app. Qed.

Lemma ends_well_stop (p : N -> bool) rest : octet_text rest -> ends_well rest = true ->
  (forall c, c < 256 -> is_delim c = true -> p c = false) ->
  match rest with [] => True | c :: _ => p c = false end.
Proof.
  intros Ha He Hp. destruct rest as [|c r]; [exact I|]. inversion Ha; subst. apply Hp; assumption.
Qed.

Lemma delim_not_symch c : c < 256 -> is_delim c = true -> is_symch c = false.
Proof. intros H Hd. apply (delim_facts c H Hd). Qed.
Lemma delim_not_digit c : c < 256 -> is_delim c = true -> is_digit c = false.
Proof. intros H Hd. apply (delim_facts c H Hd). Qed.
Lemma delim_not_xdigit c : c < 256 -> is_delim c = true -> is_xdigit c = false.
Proof. intros H Hd. apply (delim_facts c H Hd). Qed.

Lemma tok_atom w t s rest : octet_text (w ++ s ++ rest) -> all_space w -> atom_text t s -> ends_well rest = true ->
  token (w ++ s ++ rest) = {| t_status := SSuccess; t_node := Some t; t_used := Some (length w + length s)%nat |}.
Proof.
  intros Ha Hw Ht He. apply octet_text_app in Ha as [Haw Ha]. apply octet_text_app in Ha as [Has Har].
  unfold token. destruct Ht as [cs Hv|ds Hne Hd|ds Hne Hd].
  - (* symbol *)
    destruct cs as [|c r]; [destruct Hv|]. destruct Hv as [Hc Hr]. inversion Has as [|? ? Hc128 Hr128]; subst.
    destruct (syminit_facts c Hc128 Hc) as (S1 & S2 & S3 & S4 & S5 & S6).
    rewrite (span_app is_space w ((c :: r) ++ rest) Hw) by (cbn [app]; assumption).
    cbn [app].
    replace (match r ++ rest with x :: h :: _ => (c =? HASH) && (x =? CH_x) && is_xdigit h | _ => false end) with false
      by (destruct (r ++ rest) as [|x [|h l]]; try reflexivity; rewrite S5; reflexivity).
    rewrite S2, S3, S4, Hc.
    assert (Hsp : span is_symch (c :: r ++ rest) = (c :: r, rest)).
    { apply (span_app is_symch (c :: r) rest); [cbn [forallb]; rewrite S6, Hr; reflexivity|].
      apply ends_well_stop; try assumption. apply delim_not_symch. }
    rewrite Hsp, He. cbn [length]. reflexivity.
  - (* decimal *)
    destruct ds as [|c r]; [contradiction|]. cbn [forallb] in Hd. apply andb_prop in Hd as [Hc Hr].
    inversion Has as [|? ? Hc128 Hr128]; subst.
    destruct (digit_facts c Hc128 Hc) as (S1 & S2 & S3 & S4 & S5 & S6 & S7).
    rewrite (span_app is_space w ((c :: r) ++ rest) Hw) by (cbn [app]; assumption).
    cbn [app].
    replace (match r ++ rest with x :: h :: _ => (c =? HASH) && (x =? CH_x) && is_xdigit h | _ => false end) with false
      by (destruct (r ++ rest) as [|x [|h l]]; try reflexivity; rewrite S4; reflexivity).
    rewrite S2, S3, Hc.
    assert (Hsp : span is_digit (c :: r ++ rest) = (c :: r, rest)).
    { apply (span_app is_digit (c :: r) rest); [cbn [forallb]; rewrite Hc, Hr; reflexivity|].
      apply ends_well_stop; try assumption. apply delim_not_digit. }
    rewrite Hsp, He. reflexivity.
  - (* hexadecimal *)
    destruct ds as [|h r]; [contradiction|]. cbn [forallb] in Hd. apply andb_prop in Hd as [Hh Hr].
    rewrite (span_app is_space w ((HASH :: CH_x :: h :: r) ++ rest) Hw) by reflexivity.
    cbn [app tl]. rewrite Hh. change ((HASH =? HASH) && (CH_x =? CH_x)) with true. cbn [andb].
    assert (Hsp : span is_xdigit (h :: r ++ rest) = (h :: r, rest)).
    { apply (span_app is_xdigit (h :: r) rest); [cbn [forallb]; rewrite Hh, Hr; reflexivity|].
      apply ends_well_stop; try assumption. apply delim_not_xdigit. }
    rewrite Hsp, He. cbn [length]. f_equal. f_equal. lia.
Qed.

Lemma tok_lparen w r : all_space w ->
  token (w ++ LPAREN :: r) = {| t_status := SFoundList; t_node := None; t_used := Some (length w + 1)%nat |}.
Proof.
  intros Hw. unfold token. rewrite (span_app is_space w (LPAREN :: r) Hw) by reflexivity.
  replace (match r with x :: h :: _ => (LPAREN =? HASH) && (x =? CH_x) && is_xdigit h | _ => false end) with false
    by (destruct r as [|x [|h l]]; reflexivity).
  reflexivity.
Qed.
Lemma tok_rparen w r : all_space w ->
  token (w ++ RPAREN :: r) = {| t_status := SSuccess; t_node := Some Nil; t_used := Some (length w + 1)%nat |}.
Proof.
  intros Hw. unfold token. rewrite (span_app is_space w (RPAREN :: r) Hw) by reflexivity.
  replace (match r with x :: h :: _ => (RPAREN =? HASH) && (x =? CH_x) && is_xdigit h | _ => false end) with false
    by (destruct r as [|x [|h l]]; reflexivity).
  reflexivity.
Qed.

(* ---------- printed trees ---------- *)
Definition list_of (ts : list sx) : sx := fold_right Cons Nil ts.
Definition is_atom (t : sx) : bool := match t with Sym _ | Int _ => true | _ => false end.
Definition starts_delim (s : list N) : Prop := match s with c :: _ => is_delim c = true | [] => False end.

(* [renders t s]: s is a textual rendering of t - a symbol, an integer in decimal or #x hexadecimal of either letter case,
   or "(" elements ")" with arbitrary white space around the elements; an atom is followed by a delimiter *)
Inductive renders : sx -> list N -> Prop :=
| R_atom t s : atom_text t s -> renders t s
| R_list ts s : renders_elems ts s -> renders (list_of ts) (LPAREN :: s)
with renders_elems : list sx -> list N -> Prop :=
| RE_nil w : all_space w -> renders_elems [] (w ++ [RPAREN])
| RE_cons w t ts s1 s2 : all_space w -> renders t s1 -> renders_elems ts s2 ->
    (is_atom t = true -> starts_delim s2) -> renders_elems (t :: ts) (w ++ s1 ++ s2).
Scheme renders_mut := Induction for renders Sort Prop
  with renders_elems_mut := Induction for renders_elems Sort Prop.

Lemma atom_is_atom t s : atom_text t s -> is_atom t = true /\ t <> Nil.
Proof. intros H; destruct H; split; try reflexivity; discriminate. Qed.
Lemma atom_nonempty t s : atom_text t s -> (1 <= length s)%nat.
Proof. intros H; destruct H as [cs Hv|ds Hn _|ds _ _]; [destruct cs; [destruct Hv|cbn; lia]|destruct ds; [contradiction|cbn; lia]|cbn; lia]. Qed.
Lemma list_not_atom ts : is_atom (list_of ts) = false.
Proof. destruct ts; reflexivity. Qed.

Lemma starts_delim_ends_well s rest : starts_delim s -> ends_well (s ++ rest) = true.
Proof. destruct s as [|c r]; [intros []|]. cbn. auto. Qed.

Lemma skipn_app_exact {A} (a b : list A) n : n = length a -> skipn n (a ++ b) = b.
Proof. intros ->. rewrite skipn_app, skipn_all, Nat.sub_diag. reflexivity. Qed.

(* how the list parser handles one printed element *)
Definition elem_ok (t : sx) (s : list N) : Prop :=
  atom_text t s \/
  exists ts s', t = list_of ts /\ s = LPAREN :: s' /\
    forall fuel rest, (length s' < fuel)%nat -> octet_text (s' ++ rest) ->
      parse_list fuel (s' ++ rest) = Some (ROk (list_of ts) (length s')).

Lemma parse_list_complete_mut :
  forall ts s, renders_elems ts s ->
    forall fuel rest, (length s < fuel)%nat -> octet_text (s ++ rest) ->
      parse_list fuel (s ++ rest) = Some (ROk (list_of ts) (length s)).
Proof.
  apply (renders_elems_mut
           (fun t s _ => elem_ok t s)
           (fun ts s _ => forall fuel rest, (length s < fuel)%nat -> octet_text (s ++ rest) ->
                            parse_list fuel (s ++ rest) = Some (ROk (list_of ts) (length s)))).
  - (* atom *) intros t s Ha. left. exact Ha.
  - (* list *) intros ts s Hr IH. right. exists ts, s. auto.
  - (* no more elements *)
    intros w Hw fuel rest Hf Ha. destruct fuel as [|f]; [lia|]. cbn [parse_list].
    rewrite <- app_assoc. cbn [app]. rewrite tok_rparen by exact Hw. cbn [t_used t_status t_node].
    rewrite app_length. cbn [length list_of fold_right]. reflexivity.
  - (* an element and the rest *)
    intros w t ts s1 s2 Hw Hr1 IH1 Hr2 IH2 Hd fuel rest Hf Ha.
    destruct fuel as [|f]; [lia|]. cbn [parse_list]. rewrite !app_length in Hf.
    rewrite <- !app_assoc in *.
    destruct IH1 as [Hat|(ts1 & s1' & -> & -> & IHl)].
    + (* atom *)
      destruct (atom_is_atom _ _ Hat) as [Hia Hnn]. pose proof (atom_nonempty _ _ Hat) as Hne.
      rewrite (tok_atom w t s1 (s2 ++ rest)); try assumption; [|apply starts_delim_ends_well, Hd, Hia].
      cbn [t_used t_status t_node].
      rewrite (app_assoc w s1), skipn_app_exact by (rewrite app_length; reflexivity).
      assert (Ha2 : octet_text (s2 ++ rest)).
      { apply octet_text_app in Ha as [_ Ha]. apply octet_text_app in Ha as [_ Ha]. exact Ha. }
      rewrite (IH2 f rest) by (try assumption; lia).
      destruct t; try discriminate; cbn [list_of fold_right]; do 2 f_equal; rewrite !app_length; lia.
    + (* nested list *)
      cbn [app]. rewrite tok_lparen by exact Hw. cbn [t_used t_status t_node].
      assert (Ha1 : octet_text (s1' ++ s2 ++ rest)).
      { apply octet_text_app in Ha as [_ Ha]. inversion Ha; assumption. }
      assert (Ha2 : octet_text (s2 ++ rest)) by (apply octet_text_app in Ha1 as [_ Ha1]; exact Ha1).
      cbn [length] in Hf.
      replace (w ++ LPAREN :: s1' ++ s2 ++ rest)%list with ((w ++ [LPAREN]) ++ s1' ++ s2 ++ rest)%list
        by (rewrite <- app_assoc; reflexivity).
      rewrite skipn_app_exact by (rewrite app_length; reflexivity).
      rewrite (IHl f (s2 ++ rest)) by (try assumption; lia).
      replace ((w ++ [LPAREN]) ++ s1' ++ s2 ++ rest)%list with ((w ++ [LPAREN] ++ s1') ++ s2 ++ rest)%list
        by (rewrite <- !app_assoc; reflexivity).
      rewrite skipn_app_exact by (rewrite !app_length; cbn [length]; lia).
      rewrite (IH2 f rest) by (try assumption; lia).
      cbn [list_of fold_right]. do 2 f_equal. rewrite !app_length. cbn [length]. rewrite !app_length. lia.
Qed.

(* ---------- the reader inverts printing ---------- *)
Theorem parse_printed t s w rest : renders t s -> all_space w -> octet_text (w ++ s ++ rest) ->
  (is_atom t = true -> ends_well rest = true) ->
  sx_parse (w ++ s ++ rest) = Some (ROk t (length w + length s)).
Proof.
  intros Hr Hw Ha He. unfold sx_parse. destruct Hr as [t s Hat|ts s' Hre].
  - destruct (atom_is_atom _ _ Hat) as [Hia Hnn].
    rewrite (tok_atom w t s rest Ha Hw Hat (He Hia)). cbn [t_used t_status t_node].
    destruct t; try reflexivity; contradiction.
  - cbn [app]. rewrite tok_lparen by exact Hw. cbn [t_used t_status t_node].
    replace (w ++ LPAREN :: s' ++ rest)%list with ((w ++ [LPAREN]) ++ s' ++ rest)%list by (rewrite <- app_assoc; reflexivity).
    rewrite skipn_app_exact by (rewrite app_length; reflexivity).
    assert (Ha' : octet_text (s' ++ rest)).
    { apply octet_text_app in Ha as [_ Ha]. inversion Ha; assumption. }
    rewrite (parse_list_complete_mut ts s' Hre) by (try assumption; unfold parse_fuel; rewrite !app_length; cbn [length]; lia).
    do 2 f_equal. cbn [length]. lia.
Qed.

(* ---------- whatever the reader accepts is a printed tree ---------- *)
Lemma firstn_plus {A} (l : list A) a b : firstn (a + b) l = (firstn a l ++ firstn b (skipn a l))%list.
Proof.
  revert l; induction a as [|a IH]; intros l; [reflexivity|]. destruct l as [|x l]; cbn [Nat.add firstn skipn app].
  - rewrite firstn_nil. reflexivity.
  - rewrite IH. reflexivity.
Qed.

Definition token_shape (inp : list N) (tk : tokres) : Prop :=
  match t_used tk with
  | None => t_status tk = SSuccess /\ t_node tk = None
  | Some c =>
      (c <= length inp)%nat /\
      exists w body, firstn c inp = (w ++ body)%list /\ all_space w /\
        match t_status tk, t_node tk with
        | SSuccess, Some Nil => body = [RPAREN]
        | SSuccess, Some t => atom_text t body /\ ends_well (skipn c inp) = true
        | SSuccess, None => False
        | SFoundList, _ => body = [LPAREN]
        | _, _ => True
        end
  end.

Lemma firstn_app_exact {A} (a b : list A) n : n = length a -> firstn n (a ++ b) = a.
Proof. intros ->. rewrite firstn_app, Nat.sub_diag, firstn_all. cbn. apply app_nil_r. Qed.

Lemma token_inv inp : octet_text inp -> token_shape inp (token inp).
Proof.
  intros Ha. unfold token, token_shape.
  destruct (span is_space inp) as [w r] eqn:Es. destruct (span_spec _ _ _ _ Es) as (-> & Hw & Hr).
  apply octet_text_app in Ha as [Haw Har].
  destruct r as [|c r1]; [cbn; auto|].
  inversion Har as [|? ? Hc128 Hr128]; subst.
  destruct (match r1 with x :: h :: _ => (c =? HASH) && (x =? CH_x) && is_xdigit h | _ => false end) eqn:Ehex.
  - (* hexadecimal *)
    destruct r1 as [|x [|h r2]]; try discriminate.
    apply andb_prop in Ehex as [Ehex Eh]. apply andb_prop in Ehex as [Ec Ex]. apply N.eqb_eq in Ec, Ex. subst c x.
    cbn [tl]. destruct (span is_xdigit (h :: r2)) as [ds rest] eqn:Ed. destruct (span_spec _ _ _ _ Ed) as (E & Hds & Hrest).
    assert (Hne : ds <> []) by (intros ->; cbn in E; subst rest; rewrite Eh in Hrest; discriminate).
    assert (Hlen : (length w + 2 + length ds <= length (w ++ HASH :: CH_x :: h :: r2))%nat).
    { rewrite app_length. cbn [length]. assert (length (h :: r2) = length (ds ++ rest)) by (rewrite E; reflexivity).
      rewrite app_length in H. cbn [length] in H. lia. }
    assert (Hf : firstn (length w + 2 + length ds) (w ++ HASH :: CH_x :: h :: r2) = (w ++ HASH :: CH_x :: ds)%list).
    { rewrite E. replace (w ++ HASH :: CH_x :: ds ++ rest)%list with ((w ++ HASH :: CH_x :: ds) ++ rest)%list
        by (rewrite <- app_assoc; reflexivity).
      apply firstn_app_exact. rewrite app_length. cbn [length]. lia. }
    assert (Hs : skipn (length w + 2 + length ds) (w ++ HASH :: CH_x :: h :: r2) = rest).
    { rewrite E. replace (w ++ HASH :: CH_x :: ds ++ rest)%list with ((w ++ HASH :: CH_x :: ds) ++ rest)%list
        by (rewrite <- app_assoc; reflexivity).
      apply skipn_app_exact. rewrite app_length. cbn [length]. lia. }
    destruct (ends_well rest) eqn:Ee; cbn [t_used t_status t_node]; (split; [exact Hlen|]); exists w, (HASH :: CH_x :: ds);
      (split; [exact Hf|]); (split; [exact Hw|]); [|exact I].
    split; [apply A_hex; assumption|rewrite Hs; exact Ee].
  - clear Ehex. destruct (N.eqb_spec c LPAREN) as [->|Nl].
    { cbn [t_used t_status t_node]. split; [rewrite app_length; cbn [length]; lia|].
      exists w, [LPAREN]. split; [|split; [exact Hw|reflexivity]].
      replace (w ++ LPAREN :: r1)%list with ((w ++ [LPAREN]) ++ r1)%list by (rewrite <- app_assoc; reflexivity).
      apply firstn_app_exact. rewrite app_length. reflexivity. }
    destruct (N.eqb_spec c RPAREN) as [->|Nr].
    { cbn [t_used t_status t_node]. split; [rewrite app_length; cbn [length]; lia|].
      exists w, [RPAREN]. split; [|split; [exact Hw|reflexivity]].
      replace (w ++ RPAREN :: r1)%list with ((w ++ [RPAREN]) ++ r1)%list by (rewrite <- app_assoc; reflexivity).
      apply firstn_app_exact. rewrite app_length. reflexivity. }
    destruct (is_digit c) eqn:Edig.
    { destruct (span is_digit (c :: r1)) as [ds rest] eqn:Ed. destruct (span_spec _ _ _ _ Ed) as (E & Hds & Hrest).
      assert (Hne : ds <> []) by (intros ->; cbn in E; subst rest; rewrite Edig in Hrest; discriminate).
      assert (Hlen : (length w + length ds <= length (w ++ c :: r1))%nat).
      { rewrite E, !app_length. lia. }
      assert (Hf : firstn (length w + length ds) (w ++ c :: r1) = (w ++ ds)%list).
      { rewrite E, app_assoc. apply firstn_app_exact. rewrite app_length. reflexivity. }
      assert (Hs : skipn (length w + length ds) (w ++ c :: r1) = rest).
      { rewrite E, app_assoc. apply skipn_app_exact. rewrite app_length. reflexivity. }
      destruct (ends_well rest) eqn:Ee; cbn [t_used t_status t_node]; (split; [exact Hlen|]); exists w, ds;
        (split; [exact Hf|]); (split; [exact Hw|]); [|exact I].
      split; [apply A_dec; assumption|rewrite Hs; exact Ee]. }
    destruct (is_syminit c) eqn:Esym.
    { destruct (span is_symch (c :: r1)) as [cs rest] eqn:Ed. destruct (span_spec _ _ _ _ Ed) as (E & Hcs & Hrest).
      destruct (syminit_facts c Hc128 Esym) as (_ & _ & _ & _ & _ & Hsc).
      assert (Hv : valid_sym cs).
      { destruct cs as [|c' cs']; [cbn in E; subst rest; rewrite Hsc in Hrest; discriminate|].
        cbn [app] in E. injection E as <- E'. cbn [forallb] in Hcs. apply andb_prop in Hcs as [_ Hcs]. split; assumption. }
      assert (Hlen : (length w + length cs <= length (w ++ c :: r1))%nat).
      { rewrite E, !app_length. lia. }
      assert (Hf : firstn (length w + length cs) (w ++ c :: r1) = (w ++ cs)%list).
      { rewrite E, app_assoc. apply firstn_app_exact. rewrite app_length. reflexivity. }
      assert (Hs : skipn (length w + length cs) (w ++ c :: r1) = rest).
      { rewrite E, app_assoc. apply skipn_app_exact. rewrite app_length. reflexivity. }
      destruct (ends_well rest) eqn:Ee; cbn [t_used t_status t_node]; (split; [exact Hlen|]); exists w, cs;
        (split; [exact Hf|]); (split; [exact Hw|]); [|exact I].
      split; [apply A_sym; assumption|rewrite Hs; exact Ee]. }
    cbn [t_used t_status t_node]. split; [rewrite app_length; lia|].
    exists w, []. split; [rewrite app_nil_r; apply firstn_app_exact; reflexivity|]. split; [exact Hw|exact I].
Qed.

Lemma ascii_skipn n l : octet_text l -> octet_text (skipn n l).
Proof. unfold octet_text. revert l; induction n; intros [|x t] H; cbn; try constructor; inversion H; subst; auto. Qed.

Lemma elems_nonempty ts s : renders_elems ts s -> s <> [].
Proof.
  intros H. destruct H as [w _|w t ts s1 s2 _ Hr He _].
  - destruct w; discriminate.
  - intros E. apply app_eq_nil in E as [_ E]. apply app_eq_nil in E as [E1 _].
    destruct Hr as [t s Ha|ts' s']; [pose proof (atom_nonempty _ _ Ha); subst; cbn in *; lia|discriminate].
Qed.

Lemma ends_well_firstn l n : ends_well l = true -> firstn n l <> [] -> starts_delim (firstn n l).
Proof. destruct l as [|c r]; destruct n; cbn; intros; try congruence; assumption. Qed.

(* success of the list parser: the consumed octets are a rendering of the elements up to the closing parenthesis *)
Theorem parse_list_sound : forall fuel inp t c, octet_text inp -> parse_list fuel inp = Some (ROk t c) ->
  (c <= length inp)%nat /\ exists ts, t = list_of ts /\ renders_elems ts (firstn c inp).
Proof.
  induction fuel as [|f IH]; intros inp t c Ha H; [discriminate|].
  cbn [parse_list] in H. pose proof (token_inv inp Ha) as T. unfold token_shape in T.
  destruct (t_used (token inp)) as [c0|]; [|discriminate].
  destruct T as (Hc0 & w & body & Hf & Hw & Hb).
  destruct (t_status (token inp)); try discriminate.
  - (* an atom or the closing parenthesis *)
    destruct (t_node (token inp)) as [a|]; [|discriminate].
    destruct a as [cs|n| |a1 a2].
    + destruct Hb as [Hat He].
      destruct (parse_list f (skipn c0 inp)) as [[d c2|e]|] eqn:R; try discriminate. injection H as <- <-.
      destruct (IH _ _ _ (ascii_skipn c0 inp Ha) R) as (Hc2 & ts & -> & Hr).
      rewrite skipn_length in Hc2. split; [lia|]. exists (Sym cs :: ts). split; [reflexivity|].
      rewrite firstn_plus, Hf, <- app_assoc.
      apply RE_cons; try assumption; [apply R_atom; exact Hat|].
      intros _. apply ends_well_firstn; [exact He|apply (elems_nonempty _ _ Hr)].
    + destruct Hb as [Hat He].
      destruct (parse_list f (skipn c0 inp)) as [[d c2|e]|] eqn:R; try discriminate. injection H as <- <-.
      destruct (IH _ _ _ (ascii_skipn c0 inp Ha) R) as (Hc2 & ts & -> & Hr).
      rewrite skipn_length in Hc2. split; [lia|]. exists (Int n :: ts). split; [reflexivity|].
      rewrite firstn_plus, Hf, <- app_assoc.
      apply RE_cons; try assumption; [apply R_atom; exact Hat|].
      intros _. apply ends_well_firstn; [exact He|apply (elems_nonempty _ _ Hr)].
    + injection H as <- <-. split; [exact Hc0|]. exists []. split; [reflexivity|]. rewrite Hf, Hb. apply RE_nil. exact Hw.
    + destruct Hb as [Hat _]. inversion Hat.
  - (* a nested list *)
    destruct (parse_list f (skipn c0 inp)) as [[a c1|e]|] eqn:R1; try discriminate.
    destruct (parse_list f (skipn (c0 + c1) inp)) as [[d c2|e]|] eqn:R2; try discriminate. injection H as <- <-.
    destruct (IH _ _ _ (ascii_skipn c0 inp Ha) R1) as (Hc1 & ts1 & -> & Hr1).
    destruct (IH _ _ _ (ascii_skipn (c0 + c1) inp Ha) R2) as (Hc2 & ts & -> & Hr2).
    rewrite skipn_length in Hc1, Hc2. split; [lia|]. exists (list_of ts1 :: ts). split; [reflexivity|].
    assert (E : firstn (c0 + c1 + c2) inp = (w ++ (LPAREN :: firstn c1 (skipn c0 inp)) ++ firstn c2 (skipn (c0 + c1) inp))%list).
    { rewrite <- Nat.add_assoc, firstn_plus, Hf, Hb, firstn_plus, <- (skipn_add inp c1 c0), (Nat.add_comm c1 c0), <- app_assoc.
      reflexivity. }
    rewrite E. apply RE_cons; try assumption.
    + apply (R_list ts1 (firstn c1 (skipn c0 inp)) Hr1).
    + rewrite list_not_atom. discriminate.
Qed.

(* the reader never runs out of fuel: it terminates on every input *)
Lemma parse_list_total : forall fuel inp, octet_text inp -> (length inp < fuel)%nat -> parse_list fuel inp <> None.
Proof.
  induction fuel as [|f IH]; intros inp Ha Hl; [lia|].
  cbn [parse_list]. pose proof (token_inv inp Ha) as T. unfold token_shape in T.
  destruct (t_used (token inp)) as [c0|]; [|discriminate].
  destruct T as (Hc0 & w & body & Hf & Hw & Hb).
  assert (Hpos : forall b, body = [b] -> (1 <= c0)%nat).
  { intros b ->. assert (length (firstn c0 inp) = length (w ++ [b])) by (rewrite Hf; reflexivity).
    rewrite firstn_length, app_length in H. cbn [length] in H. lia. }
  destruct (t_status (token inp)); try discriminate.
  - destruct (t_node (token inp)) as [a|]; [|discriminate].
    assert (Hrec : a <> Nil -> (1 <= c0)%nat).
    { intros Hn. destruct a; try contradiction; destruct Hb as [Hat _]; pose proof (atom_nonempty _ _ Hat) as Hne;
        assert (Hlen : length (firstn c0 inp) = length (w ++ body)) by (rewrite Hf; reflexivity);
        rewrite firstn_length, app_length in Hlen; lia. }
    destruct a; try discriminate.
    + specialize (Hrec ltac:(discriminate)).
      pose proof (IH (skipn c0 inp) (ascii_skipn _ _ Ha) ltac:(rewrite skipn_length; lia)) as R.
      destruct (parse_list f (skipn c0 inp)) as [[d c2|e]|]; [discriminate|discriminate|contradiction].
    + specialize (Hrec ltac:(discriminate)).
      pose proof (IH (skipn c0 inp) (ascii_skipn _ _ Ha) ltac:(rewrite skipn_length; lia)) as R.
      destruct (parse_list f (skipn c0 inp)) as [[d c2|e]|]; [discriminate|discriminate|contradiction].
    + destruct Hb as [Hat _]. inversion Hat.
  - specialize (Hpos _ Hb).
    pose proof (IH (skipn c0 inp) (ascii_skipn _ _ Ha) ltac:(rewrite skipn_length; lia)) as R1.
    destruct (parse_list f (skipn c0 inp)) as [[a c1|e]|]; [|discriminate|contradiction].
    pose proof (IH (skipn (c0 + c1) inp) (ascii_skipn _ _ Ha) ltac:(rewrite skipn_length; lia)) as R2.
    destruct (parse_list f (skipn (c0 + c1) inp)) as [[d c2|e]|]; [discriminate|discriminate|contradiction].
Qed.

Theorem sx_parse_total inp : octet_text inp -> sx_parse inp <> None.
Proof.
  intros Ha. unfold sx_parse.
  destruct (t_used (token inp)) as [c0|]; [|discriminate].
  destruct (t_status (token inp)); try discriminate.
  - destruct (t_node (token inp)) as [[| | |]|]; discriminate.
  - pose proof (parse_list_total (parse_fuel inp) (skipn c0 inp) (ascii_skipn _ _ Ha)) as R.
    specialize (R ltac:(unfold parse_fuel; rewrite skipn_length; lia)).
    destruct (parse_list (parse_fuel inp) (skipn c0 inp)) as [[a c1|e]|]; [discriminate|discriminate|contradiction].
Qed.

(* success: the consumed octets are optional white space and a rendering of the returned tree, inside the input;
   an atom is followed by the end of the input or a delimiter *)
Theorem sx_parse_sound inp t c : octet_text inp -> sx_parse inp = Some (ROk t c) ->
  (c <= length inp)%nat /\
  exists w s, firstn c inp = (w ++ s)%list /\ all_space w /\ renders t s /\
              (is_atom t = true -> ends_well (skipn c inp) = true).
Proof.
  intros Ha H. unfold sx_parse in H. pose proof (token_inv inp Ha) as T. unfold token_shape in T.
  destruct (t_used (token inp)) as [c0|]; [|discriminate].
  destruct T as (Hc0 & w & body & Hf & Hw & Hb).
  destruct (t_status (token inp)); try discriminate.
  - destruct (t_node (token inp)) as [a|]; [|discriminate].
    destruct a; try discriminate; injection H as <- <-; destruct Hb as [Hat He];
      (split; [exact Hc0|]); exists w, body; repeat split; auto; apply R_atom; exact Hat.
  - destruct (parse_list (parse_fuel inp) (skipn c0 inp)) as [[a c1|e]|] eqn:R; try discriminate. injection H as <- <-.
    destruct (parse_list_sound _ _ _ _ (ascii_skipn c0 inp Ha) R) as (Hc1 & ts & -> & Hr).
    rewrite skipn_length in Hc1. split; [lia|].
    exists w, (LPAREN :: firstn c1 (skipn c0 inp)). split; [rewrite firstn_plus, Hf, Hb, <- app_assoc; reflexivity|].
    split; [exact Hw|]. split; [apply R_list; exact Hr|]. rewrite list_not_atom. discriminate.
Qed.

(* hence: an input that does not begin, after optional white space, with a complete expression is rejected *)
Corollary sx_parse_rejects inp : octet_text inp ->
  (forall w s rest t, inp = (w ++ s ++ rest)%list -> all_space w -> renders t s -> (is_atom t = true -> ends_well rest = true) -> False) ->
  exists e, sx_parse inp = Some (RErr e).
Proof.
  intros Ha Hno. pose proof (sx_parse_total inp Ha) as Ht.
  destruct (sx_parse inp) as [[t c|e]|] eqn:E; [|eauto|contradiction].
  exfalso. destruct (sx_parse_sound inp t c Ha E) as (Hc & w & s & Hf & Hw & Hr & He).
  apply (Hno w s (skipn c inp) t); try assumption.
  rewrite app_assoc, <- Hf. symmetry. apply firstn_skipn.
Qed.

(* ---------- numerals: the value read is the value written ---------- *)
Ltac Zify.zify_post_hook ::= Z.div_mod_to_equations.

Definition value (base : N) (ds : list N) : N := fold_left (fun acc d => acc * base + d) ds 0.

Lemma number_value_gen base : forall text ds acc, Forall2 (fun d c => digit_val c = d) ds text ->
  fold_left (fun a d => (a * base + digit_val d) mod 2 ^ 64) text (acc mod 2 ^ 64)
  = (fold_left (fun a d => a * base + d) ds acc) mod 2 ^ 64.
Proof.
  induction text as [|c text IH]; intros ds acc H; inversion H as [|d c' ds' text' Hd Hr]; subst; cbn [fold_left].
  - reflexivity.
  - rewrite <- (IH ds' (acc * base + digit_val c) Hr). f_equal.
    rewrite <- (N.add_mod_idemp_l (acc mod 2 ^ 64 * base)), N.mul_mod_idemp_l, N.add_mod_idemp_l by discriminate. reflexivity.
Qed.

Theorem number_value base ds text : Forall2 (fun d c => digit_val c = d) ds text -> value base ds < 2 ^ 64 ->
  number base text = value base ds.
Proof.
  intros H Hv. unfold number, value. change 0 with (0 mod 2 ^ 64) at 1.
  rewrite (number_value_gen base text ds 0 H). apply N.mod_small. exact Hv.
Qed.

(* positional digits, most significant first *)
Fixpoint digits_of (base : N) (fuel : nat) (n : N) : list N :=
  match fuel with
  | O => [n]
  | S f => if n <? base then [n] else (digits_of base f (n / base) ++ [n mod base])%list
  end.

Lemma value_app base a d : value base (a ++ [d]) = value base a * base + d.
Proof. unfold value. rewrite fold_left_app. reflexivity. Qed.

Lemma digits_value base : 2 <= base -> forall fuel n, value base (digits_of base fuel n) = n.
Proof.
  intros Hb. induction fuel as [|f IH]; intros n; cbn [digits_of].
  - unfold value; cbn. lia.
  - destruct (N.ltb_spec n base); [unfold value; cbn; lia|].
    rewrite value_app, IH, N.mul_comm. symmetry. apply N.div_mod. lia.
Qed.

Lemma digits_small base : 2 <= base -> forall fuel n, n < base ^ N.of_nat (S fuel) -> Forall (fun d => d < base) (digits_of base fuel n).
Proof.
  intros Hb. induction fuel as [|f IH]; intros n Hn; cbn [digits_of].
  - constructor; [|constructor]. replace (N.of_nat 1) with 1 in Hn by reflexivity. rewrite N.pow_1_r in Hn. exact Hn.
  - destruct (N.ltb_spec n base); [constructor; [assumption|constructor]|].
    apply Forall_app. split; [|constructor; [apply N.mod_lt; lia|constructor]].
    apply IH. rewrite Nat2N.inj_succ, N.pow_succ_r' in Hn. apply N.div_lt_upper_bound; lia.
Qed.

(* characters of a digit: decimal; hexadecimal in lower or upper case, chosen per digit *)
Definition dec_char (d : N) : N := 48 + d.
Definition hex_char (upper : bool) (d : N) : N := if d <? 10 then 48 + d else if upper then 55 + d else 87 + d.

Lemma dec_char_ok d : d < 10 -> digit_val (dec_char d) = d /\ is_digit (dec_char d) = true.
Proof.
  intros H.
  assert (C : d = 0 \/ d = 1 \/ d = 2 \/ d = 3 \/ d = 4 \/ d = 5 \/ d = 6 \/ d = 7 \/ d = 8 \/ d = 9) by lia.
  repeat (destruct C as [->|C]); try subst d; split; reflexivity.
Qed.
Lemma hex_char_ok u d : d < 16 -> digit_val (hex_char u d) = d /\ is_xdigit (hex_char u d) = true.
Proof.
  intros H.
  assert (C : d = 0 \/ d = 1 \/ d = 2 \/ d = 3 \/ d = 4 \/ d = 5 \/ d = 6 \/ d = 7 \/ d = 8 \/ d = 9 \/ d = 10 \/ d = 11
              \/ d = 12 \/ d = 13 \/ d = 14 \/ d = 15) by lia.
  repeat (destruct C as [->|C]); try subst d; destruct u; split; reflexivity.
Qed.

(* any decimal numeral of a 64-bit value reads back as that value; likewise any hexadecimal numeral in any mixture of cases *)
Theorem decimal_reads_back n : n < 2 ^ 64 ->
  let text := map dec_char (digits_of 10 19 n) in
  number 10 text = n /\ forallb is_digit text = true /\ text <> [].
Proof.
  intros Hn text.
  assert (Hs : Forall (fun d => d < 10) (digits_of 10 19 n)).
  { apply digits_small; [lia|]. eapply N.lt_trans; [exact Hn|]. vm_compute. reflexivity. }
  split; [|split].
  - rewrite (number_value 10 (digits_of 10 19 n) text).
    + apply digits_value. lia.
    + subst text. induction Hs; cbn [map]; constructor; [apply dec_char_ok; assumption|assumption].
    + rewrite digits_value by lia. exact Hn.
  - subst text. apply forallb_forall. intros c Hc. apply in_map_iff in Hc as (d & <- & Hd).
    rewrite Forall_forall in Hs. apply dec_char_ok. apply Hs. exact Hd.
  - subst text. destruct (digits_of 10 19 n) eqn:E; [|discriminate]. exfalso.
    cbn [digits_of] in E. destruct (n <? 10); [discriminate|]. apply app_eq_nil in E as [_ E]. discriminate.
Qed.

Theorem hexadecimal_reads_back n (cases : list bool) : n < 2 ^ 64 ->
  let ds := digits_of 16 15 n in
  let text := map (fun p => hex_char (fst p) (snd p)) (combine (cases ++ repeat false (length ds)) ds) in
  number 16 text = n /\ forallb is_xdigit text = true /\ text <> [].
Proof.
  intros Hn ds text.
  assert (Hs : Forall (fun d => d < 16) ds).
  { apply digits_small; [lia|]. eapply N.lt_le_trans; [exact Hn|]. vm_compute. discriminate. }
  assert (Hlen : (length ds <= length (cases ++ repeat false (length ds)))%nat) by (rewrite app_length, repeat_length; lia).
  assert (Hne : ds <> []).
  { subst ds. cbn [digits_of]. destruct (n <? 16); [discriminate|]. intros E. apply app_eq_nil in E as [_ E]. discriminate. }
  subst text. revert Hlen. generalize (cases ++ repeat false (length ds))%list as cs. intros cs Hlen.
  assert (F2 : Forall2 (fun d c => digit_val c = d) ds (map (fun p => hex_char (fst p) (snd p)) (combine cs ds))
               /\ forallb is_xdigit (map (fun p => hex_char (fst p) (snd p)) (combine cs ds)) = true).
  { clear Hne. revert cs Hlen. induction Hs as [|d ds' Hd Hs' IH]; intros cs Hlen.
    - destruct cs; cbn; auto.
    - destruct cs as [|u cs]; [cbn in Hlen; lia|]. cbn [combine map forallb fst snd].
      destruct (hex_char_ok u d Hd) as [E1 E2]. destruct (IH cs ltac:(cbn in Hlen; lia)) as [I1 I2].
      split; [constructor; assumption|rewrite E2, I2; reflexivity]. }
  destruct F2 as [F2 Fx]. split; [|split].
  - rewrite (number_value 16 ds _ F2); subst ds; rewrite digits_value by lia; [reflexivity|exact Hn].
  - exact Fx.
  - destruct ds as [|d ds']; [contradiction|]. destruct cs; [cbn in Hlen; lia|discriminate].
Qed.
