(* C09  Receiving and processing arbitrary input is memory-safe and resource-exact.
   Statements only (printed by Coq from the lemmas they are closed with); proofs in Proof/RegpLemmas.v; model Model/Regp.v.
   What a theorem about the model can carry: the index arithmetic (what is stored stays inside the block, the buffers handed to
   the backend are large enough, payloads are as long as announced), the allocator ledger, and the classification of oversize, short,
   empty frames and allocation failures.  The compiled code's real accesses are observed by ASan/UBSan on the executed cases. *)
From Ufw Require Import Base.Bits Base.Errno Model.Crc Model.ByteBuffer Model.Endpoints Model.Varint Model.Slip Model.Lenp
  Model.Regp Proof.LenpLemmas Proof.RegpFraming Proof.RegpLemmas.
From Coq Require Import Bool Lia.
Local Open Scope N_scope.
Local Open Scope bool_scope.

(* every outcome of a reception, for any source, block size and allocator verdict: channel error (nothing handed out, the block released by the receiver); empty frame = bad header encoding + EHEADERENC, nothing allocated; allocation failure = EBUSY + busy reply built from the first 16 octets; frame larger than the room behind the frame structure = ENOMEM + receive-overflow reply built from the header octets that were stored; otherwise the parser's verdict *)
Theorem C09_reception_cases :
  forall (p : regp) (s : src) (ok : bool) (r : recv_result),
         regp_recv p s ok = Some r ->
         exists (chan : option errno) (octets : list N) (s' : src),
           deframe p s = Some (chan, octets, s') /\
           rr_rest r = s' /\
           match chan with
           | Some e =>
               rr_rc r = RcChannel e /\
               rr_frame r = None /\
               rr_errid r = None /\
               rr_reply r = [] /\
               rr_block_to_caller r = false /\
               rr_allocated r = negb (length octets =? 0)%nat && ok /\ rr_freed_by_recv r = rr_allocated r
           | None =>
               rr_rc r = RcOk /\
               rr_freed_by_recv r = false /\
               rr_block_to_caller r = rr_allocated r /\
               (if (length octets =? 0)%nat
                then
                 rr_errid r = Some EBADMSG /\
                 rr_frame r = None /\ rr_allocated r = false /\ rr_reply r = resp_meta p META_EHEADERENC
                else
                 if negb ok
                 then
                  rr_errid r = Some EBUSY /\
                  rr_frame r = None /\
                  rr_allocated r = false /\ rr_reply r = early_response p (firstn 16 octets) R_EBUSY
                 else
                  rr_allocated r = true /\
                  (if room p <? N.of_nat (length octets)
                   then
                    rr_errid r = Some ENOMEM /\
                    rr_frame r = None /\
                    rr_reply r = early_response p (firstn 16 (firstn (N.to_nat (room p)) octets)) R_ERXOVERFLOW
                   else
                    match parse_frame octets with
                    | inl e =>
                        rr_errid r = Some (perr_errno e) /\
                        rr_frame r = match parse_header octets with
                                     | inl _ => None
                                     | inr f => Some f
                                     end /\
                        rr_reply r =
                        match e with
                        | PE_BADMSG => resp_meta p META_EHEADERENC
                        | PE_ILSEQ => resp_meta p META_EHEADERCRC
                        | _ => []
                        end
                    | inr f => rr_errid r = None /\ rr_frame r = Some f /\ rr_reply r = []
                    end))
           end.
Proof. exact (@recv_cases). Qed.
Print Assumptions C09_reception_cases.

(* a block is allocated iff it is either released by the receiver (exactly on a channel error) or handed to the caller (who releases it with regp_free); never both; none on allocation failure *)
Theorem C09_every_block_released_exactly_once :
  forall (p : regp) (s : src) (ok : bool) (r : recv_result),
         regp_recv p s ok = Some r ->
         rr_allocated r = xorb (rr_freed_by_recv r) (rr_block_to_caller r) /\
         (ok = false -> rr_allocated r = false) /\
         (rr_block_to_caller r = true -> rr_rc r = RcOk) /\
         (rr_freed_by_recv r = true -> exists e : errno, rr_rc r = RcChannel e).
Proof. exact (@recv_ledger). Qed.
Print Assumptions C09_every_block_released_exactly_once.

(* an accepted frame was stored completely inside the room of the block *)
Theorem C09_accepted_frame_inside_block :
  forall (p : regp) (s : src) (ok : bool) (r : recv_result) (f : rframe),
         regp_recv p s ok = Some r ->
         rr_rc r = RcOk ->
         rr_errid r = None ->
         rr_frame r = Some f ->
         exists octets : list N,
           parse_frame octets = inr f /\ N.of_nat (length octets) <= room p /\ rr_reply r = [] /\ rr_allocated r = true.
Proof. exact (@recv_accepted). Qed.
Print Assumptions C09_accepted_frame_inside_block.

(* payload = what follows the 12..16 header octets inside the received octets; fields in range *)
Theorem C09_parsed_header_shape :
  forall (raw : list N) (f : rframe),
         parse_header raw = inr f ->
         f_payload f = skipn (N.to_nat (f_hlen f)) raw /\
         f_hlen f <= N.of_nat (length raw) /\
         12 <= f_hlen f <= 16 /\
         f_type f < 16 /\
         f_meta f < 16 /\
         type_ok (f_type f) (f_meta f) = true /\
         (octets raw -> f_seq f < 65536 /\ f_addr f < 4294967296 /\ f_bsize f < 4294967296).
Proof. exact (@parse_header_shape). Qed.
Print Assumptions C09_parsed_header_shape.

(* the read buffer handed to the backend holds at least the requested block and lies behind the header inside the block (unit * room <= block size - frame structure - header); a read that does not fit is answered with ETXOVERFLOW carrying the buffer size; a write hands over exactly the received payload (whose length is the announced block, C06/C07) *)
Theorem C09_backend_buffers :
  forall (p : regp) (r : recv_result) (f : rframe) (backend : backend_call -> verdict),
         rr_rc r = RcOk ->
         rr_errid r = None ->
         rr_frame r = Some f ->
         is_request f = true ->
         let unit := if g_mem16 p then 2 else 1 in
         if negb (eqb (has_w16 f) (g_mem16 p))
         then regp_process p r backend = ([], Some (resp_0 p f R_EWORDSIZE))
         else
          if f_type f =? T_READ_REQ
          then
           if tx_room p f / unit <? f_bsize f
           then regp_process p r backend = ([], Some (resp_32 p f R_ETXOVERFLOW (trxbufsize p)))
           else
            let call :=
              {|
                bc_write := false;
                bc_addr := f_addr f;
                bc_bsize := f_bsize f;
                bc_payload := [];
                bc_room := tx_room p f / unit
              |} in
            bc_bsize call <= bc_room call /\
            unit * bc_room call <= tx_room p f /\
            regp_process p r backend =
            ([call],
             verdict_reply p f (backend call) (firstn (N.to_nat (unit * f_bsize f)) (vd_data (backend call)))
               (f_bsize f))
          else
           let call :=
             {|
               bc_write := true; bc_addr := f_addr f; bc_bsize := f_bsize f; bc_payload := f_payload f; bc_room := 0
             |} in
           regp_process p r backend = ([call], verdict_reply p f (backend call) [] 0).
Proof. exact (@process_request). Qed.
Print Assumptions C09_backend_buffers.

(* a reception terminates on every finite input, on both transports (never a hang: the model never runs out of fuel) *)
Theorem C09_reception_terminates :
  forall (p : regp) (oct : bool) (inp : list N) (calls : N) (ok : bool),
         regp_recv p (plain_src oct inp calls) ok <> None.
Proof. exact (@recv_total). Qed.
Print Assumptions C09_reception_terminates.

(* after every round of any session history: allocations = releases *)
Theorem C09_session_balance :
  forall (p : regp) (rounds : nat) (st : sess) (rs : list round) (st' : sess),
         serve rounds p st = Some (rs, st') ->
         ss_allocs st = ss_frees st ->
         ss_allocs st' = ss_frees st' /\
         Forall (fun rd : round => rd_allocs rd = rd_frees rd /\ (length (rd_calls rd) <= 1)%nat) rs.
Proof. exact (@serve_balanced). Qed.
Print Assumptions C09_session_balance.


(* the premises are satisfiable; an oversize frame (15 octets for 13 octets of room) and an allocation failure *)
Example C09_nonvacuous :
  let p := {| g_mem16 := false; g_serial := false; g_seq := 0; g_blocksize := 77 |} in
  let stream := [14; 0; 32; 0; 7; 0; 0; 0; 100; 0; 0; 0; 2; 1; 2] in
  (match regp_recv p (src_plain false stream) true with
   | Some r => Some (rr_errid r, rr_reply r, rr_block_to_caller r) | None => None end
   = Some (Some ENOMEM, [12; 64; 48; 0; 7; 0; 0; 0; 100; 0; 0; 0; 0], true)) /\
  (match regp_recv p (src_plain false stream) false with
   | Some r => Some (rr_errid r, rr_reply r, rr_allocated r) | None => None end
   = Some (Some EBUSY, [12; 96; 48; 0; 7; 0; 0; 0; 100; 0; 0; 0; 0], false)).
Proof. split; vm_compute; reflexivity. Qed.
