(* Correspondence entry point: one op name + arguments -> canonical observation.
   Extracted to OCaml (Extract.v) and driven by ocaml/driver.ml. *)
From Ufw Require Gen.BfGen_LM Gen.BfGen_BM.
From Ufw Require Import Base.Val Base.Bits Base.Errno Model.Crc Model.ByteBuffer Model.Endpoints Model.Varint Model.Ring Model.Slip Model.Lenp Model.Persist Model.BinFmt Gen.BfGen_LB Model.RegTable Model.Regp Model.Sx Model.BufEndpoints.
Local Open Scope string_scope.
Local Open Scope N_scope.

Definition run_crc (op : string) (a : list val) : list val :=
  if String.eqb op "crc.bytes" then [VN (spec_crc (argN 0 a) (argH 1 a))]
  else if String.eqb op "crc.split" then
    let c := argN 0 a in let l := argH 1 a in let k := N.to_nat (argN 2 a) in
    [VN (spec_crc c l); VN (spec_crc (spec_crc c (firstn k l)) (skipn k l))]
  else if String.eqb op "crc.u16" then
    [VN (spec_crc (argN 0 a) (List.concat (map host_bytes16 (argLN 1 a))))]
  else if String.eqb op "crc.buf" then
    (* ufw_buffer_crc16_arc / ufw_buffer_crc16_arc_u16: initial value 0; the word variant sees the first 2*(n/2) octets *)
    let l := argH 0 a in
    [VN (spec_crc 0 l); VN (spec_crc 0 (firstn (2 * (length l / 2)) l))]
  else [VS "unknown-op"].

(* ---------------- shared helpers ---------------- *)
Definition verr (e : option errno) : val :=
  match e with None => VN 0 | Some e => VS (ename e) end.
(* deterministic caller data used by both drivers: octet i of a block with seed s *)
Definition gen_octet (s i : N) : N := (s * 31 + i * 7 + 1) mod 256.
Definition gen_octets (s : N) (k : nat) : list N := map (fun i => gen_octet s (N.of_nat i)) (seq 0 k).
Fixpoint quads (l : list N) : list (N * N * N * N) :=
  match l with a :: b :: c :: d :: r => (a, b, c, d) :: quads r | _ => [] end.

(* ---------------- byte buffer (C18) ---------------- *)
Definition bb_decode (q : N * N * N * N) : bbop :=
  let '(code, a, b, c) := q in
  match code with
  | 0 => OpAdd (gen_octets b (N.to_nat (N.min a 512))) a
  | 1 => OpConsume a
  | 2 => OpConsumeAtMost a
  | 3 => OpRewind | 4 => OpClear | 5 => OpReset | 6 => OpRepeat
  | 7 => OpSet true a b c
  | _ => OpSet false a b c
  end.

Definition bb_obs (b : bbuf) (o : bbout) : list val :=
  (match o with
   | OutRc e => [verr e; VH []]
   | OutData e d => [verr e; VH d]
   | OutCount e d => [match e with None => VN (N.of_nat (length d)) | Some e => VS (ename e) end; VH d]
   | OutVoid => [VS "void"; VH []]
   end) ++ [VN (bb_size b); VN (bb_used b); VN (bb_offset b); VH (bb_mem b)].

Fixpoint bb_run (b : bbuf) (ops : list bbop) : list val :=
  match ops with
  | [] => []
  | o :: r => let '(b', out) := bb_step b o in bb_obs b' out ++ bb_run b' r
  end.

(* a set whose size exceeds the arena is outside the harness' domain *)
Definition bb_op_ok (arena : N) (o : bbop) : bool :=
  match o with OpSet _ size _ _ => size <=? arena | _ => true end.

Definition run_bb (op : string) (a : list val) : list val :=
  if String.eqb op "bb.hist" then
    let mem := argH 0 a in
    let ops := map bb_decode (quads (argLN 4 a)) in
    if negb (forallb (bb_op_ok (N.of_nat (length mem))) ops) || negb (argN 1 a <=? N.of_nat (length mem)) then [VS "skip"] else
    match bb_set true mem (argN 1 a) (argN 2 a) (argN 3 a) with
    | None => [VS "EINVAL"]
    | Some b => VN 0 :: bb_run b ops
    end
  else [VS "unknown-op"].

(* ---------------- varint (C14) ---------------- *)
Definition vkind_of (n : N) : vkind :=
  match n with 0 => KU32 | 1 => KS32 | 2 => KU64 | _ => KS64 end.
Definition vdres (r : dres) : val :=
  match r with DOk k => VN k | DErr e => VS (ename e) end.

Definition run_vi (op : string) (a : list val) : list val :=
  let k := vkind_of (argN 0 a) in
  if String.eqb op "vi.enc" then
    let size := argN 2 a in
    match bb_set true (repeat 0 (N.to_nat size)) size (argN 3 a) (argN 4 a) with
    | None => [VS "skip"]
    | Some b =>
        let '(e, len, b') := vi_encode_buf k b (argZ 1 a) in
        [match e with None => VN len | Some e => VS (ename e) end;
         VN (vi_length (vk_arg k (argZ 1 a))); VN (bb_used b'); VN (bb_offset b'); VH (bb_mem b')]
    end
  else if String.eqb op "vi.dec" then
    let mem := argH 1 a in let n := N.of_nat (length mem) in
    match bb_set true mem n (if (length a <=? 3)%nat then n else argN 3 a) (argN 2 a) with
    | None => [VS "skip"]
    | Some b =>
        let '(r, b') := vi_decode k b in
        match r with
        | VOk u c => [VN c; vint (vk_result k u); VN (bb_offset b')]
        | VIllegal => [VS "EILSEQ"; VS "-"; VN (bb_offset b')]
        | VShort => [VS "ENODATA"; VS "-"; VN (bb_offset b')]
        end
    end
  else if String.eqb op "vi.src" then
    let s := src_plain (argB 2 a) (argH 1 a) in
    let '(r, s') := vi_from_source k s in
    let pos := N.of_nat (length (argH 1 a) - length (s_stream s')) in
    match r with
    | SOk u c => [VN c; vint (vk_result k u); VN pos]
    | SIllegal => [VS "EILSEQ"; VS "-"; VN pos]
    | SErr e => [VS (ename e); VS "-"; VN pos]
    end
  else if String.eqb op "vi.sink" then
    match vi_to_sink k (argZ 1 a) (snk_plain (argB 2 a)) with
    | Some (r, k') => [vdres r; VH (k_got k')]
    | None => [VS "out-of-fuel"]
    end
  else [VS "unknown-op"].

(* ---------------- ring buffer (C19) ---------------- *)
Fixpoint pairs (l : list N) : list (N * N) :=
  match l with a :: b :: r => (a, b) :: pairs r | _ => [] end.
Definition rop_decode (w : N) (p : N * N) : rop :=
  let '(c, x) := p in
  match c with 0 => RPut (x mod 2 ^ w) | 1 => RGet | 2 => RClear | _ => ROverride (negb (x =? 0)) end.
Fixpoint ring_run (r : ring) (ops : list rop) : list val :=
  match ops with
  | [] => []
  | o :: t => let '(r', v) := ring_step r o in
              [VN v; VN (N.of_nat (ring_size r')); vbool (ring_empty r'); vbool (ring_full r');
               VL (map VN (ring_iter r' false)); VL (map VN (ring_iter r' true))] ++ ring_run r' t
  end.
Definition run_ring (op : string) (a : list val) : list val :=
  if String.eqb op "ring.hist" then
    if argN 0 a =? 0 then [VS "skip"] else
    ring_run (ring_init (N.to_nat (argN 0 a))) (map (rop_decode (argN 1 a)) (pairs (argLN 2 a)))
  else [VS "unknown-op"].

(* ---------------- endpoint scripts ---------------- *)
Definition ev_decode (z : Z) : ev :=
  if (0 <? z)%Z then Give (Z.to_N z)
  else if (z =? 0)%Z then Zero
  else if (z =? -4)%Z then Intr
  else if (z =? -11)%Z then Again
  else Fail (errno_of_N (Z.to_N (- z))).
Definition mk_src (octet : bool) (stream : list N) (script : list Z) : src :=
  {| s_octet := octet; s_stream := stream; s_script := map ev_decode script; s_calls := 0 |}.
Definition mk_snk (octet : bool) (script : list Z) : snk :=
  {| k_octet := octet; k_got := []; k_script := map ev_decode script; k_calls := 0 |}.
Definition verrno (e : option errno) : val := match e with None => VN 0 | Some e => VS (ename e) end.

(* ---------------- SLIP (C12) ---------------- *)
Definition sstate_of (n : N) : sstate := match n with 0 => SearchStart | 1 => SearchEnd | _ => Normal end.
Definition sstate_n (s : sstate) : N := match s with SearchStart => 0 | SearchEnd => 1 | Normal => 2 end.

Fixpoint slip_dec_calls (n : nat) (sof : bool) (st : sstate) (s : src) (k : snk) (total : nat) : list val :=
  match n with
  | O => []
  | S n' =>
      match slip_decode_op sof st s k with
      | None => [VS "out-of-fuel"]
      | Some (rc, st', s', k') =>
          let emitted := skipn (length (k_got k)) (k_got k') in
          let pos := N.of_nat (total - length (s_stream s')) in
          match rc with
          | DFrame => [VN 1; VH emitted; VN pos; VN (sstate_n st')] ++ slip_dec_calls n' sof st' s' k' total
          | DFail ENODATA => [VS "ENODATA"; VH emitted; VN pos; VN (sstate_n st')]
          | DFail e => [VS (ename e); VH emitted; VN pos; VN (sstate_n st')] ++ slip_dec_calls n' sof st' s' k' total
          end
      end
  end.

Definition run_slip (op : string) (a : list val) : list val :=
  if String.eqb op "slip.dec" then
    let sof := argB 0 a in
    let s := mk_src (argB 5 a) (argH 2 a) (argLZ 3 a) in
    let k := mk_snk (argB 6 a) (argLZ 4 a) in
    slip_dec_calls (N.to_nat (argN 7 a)) sof (sstate_of (argN 1 a)) s k (length (argH 2 a))
  else if String.eqb op "slip.enc" then
    let s := mk_src (argB 4 a) (argH 1 a) (argLZ 2 a) in
    let k := mk_snk (argB 5 a) (argLZ 3 a) in
    match slip_encode_op (argB 0 a) s k with
    | None => [VS "out-of-fuel"]
    | Some (e, s', k') => [verrno e; VH (k_got k')]
    end
  else if String.eqb op "slip.trace" then
    (* the pure multi-call decoder the theorems are about, against repeated calls of the implementation *)
    flat_map (fun '(r, out) =>
                [match r with PFrame => VN 1 | PIlseq => VS "EILSEQ" | PNoData => VS "ENODATA" end; VH out])
             (trace (argB 0 a) (sstate_of (argN 1 a)) (argH 2 a) [])
  else if String.eqb op "slip.spec" then
    (* encoder output vs the specification slip_encode, and the worst-case macro *)
    [VH (slip_encode (argB 0 a) (argH 1 a))]
  else [VS "unknown-op"].

(* ---------------- endpoints (C17) ---------------- *)
Definition src_pos (total : nat) (s : src) : val := VN (N.of_nat (total - length (s_stream s))).
Definition run_ep (op : string) (a : list val) : list val :=
  if String.eqb op "ep.get" || String.eqb op "ep.getatmost" then
    (* ep.get octet stream script n *)
    let s := mk_src (argB 0 a) (argH 1 a) (argLZ 2 a) in
    let n := argN 3 a in
    let total := length (argH 1 a) in
    match (if String.eqb op "ep.get" then source_get_chunk s n else source_get_chunk_atmost s n) with
    | None => [VS "out-of-fuel"]
    | Some (DOk c, d, s') => [VN c; VH d; src_pos total s'; VS "-"]
    | Some (DErr e, d, s') => [VS (ename e); VS "-"; (if errno_eqb e EINVAL then VS "-" else src_pos total s');
                               (if errno_eqb e EINVAL then vbool (s_calls s' =? 0) else VS "-")]
    end
  else if String.eqb op "ep.put" || String.eqb op "ep.putatmost" then
    (* ep.put octet data script n *)
    let k := mk_snk (argB 0 a) (argLZ 2 a) in
    if (argN 3 a <=? SSIZE_MAX) && (N.of_nat (length (argH 1 a)) <? argN 3 a) then [VS "skip"] else
    match (if String.eqb op "ep.put" then sink_put_chunk k (argH 1 a) (argN 3 a) else sink_put_chunk_atmost k (argH 1 a)) with
    | None => [VS "out-of-fuel"]
    | Some (r, k') => [vdres r; VH (k_got k');
                       (match r with DErr EINVAL => vbool (k_calls k' =? 0) | _ => VS "-" end)]
    end
  else
    (* plumbing: srcoctet stream srcscript snkoctet snkscript [asize] [n] *)
    let s := mk_src (argB 0 a) (argH 1 a) (argLZ 2 a) in
    let k := mk_snk (argB 3 a) (argLZ 4 a) in
    let total := length (argH 1 a) in
    let fin3 (r : dres * src * snk) := let '(rc, s', k') := r in [vdres rc; VH (k_got k'); src_pos total s'] in
    let fin3o (r : option (dres * src * snk)) := match r with None => [VS "out-of-fuel"] | Some x => fin3 x end in
    let fin4 (r : option (dres * src * snk * list N)) :=
      match r with None => [VS "out-of-fuel"]
      | Some (rc, s', k', aux) => [vdres rc; VH (k_got k'); src_pos total s'; VH aux] end in
    let aux := repeat 238 (N.to_nat (argN 5 a)) in
    if String.eqb op "ep.cbc" then fin3 (sts_cbc s k)
    else if String.eqb op "ep.atmost" then fin3 (sts_atmost s k (argN 5 a))
    else if String.eqb op "ep.some" then fin3 (sts_atmost s k 0)
    else if String.eqb op "ep.octets" then
      (fix go (fuel : nat) (s : src) (k : snk) : list val :=
         match fuel with
         | O => [VH (k_got k); src_pos total s]
         | S f =>
             match source_get_octet s with
             | (DOk c, x :: _, s') => if c =? 0 then ([VN 0; VS "-"; VS "-"] ++ go f s' k)%list
                                      else let '(r, k') := sink_put_octet k x in ([VN c; VN x; vdres r] ++ go f s' k')%list
             | (r, _, s') => ([vdres r; VS "-"; VS "-"] ++ go f s' k)%list
             end
         end) (N.to_nat (N.min (argN 5 a) 16)) s k
    else if String.eqb op "ep.ncbc" then fin3 (sts_n_cbc (N.to_nat (argN 5 a)) (argN 5 a) s k)
    else if String.eqb op "ep.draincbc" then fin3o (sts_drain_cbc (sts_fuel s k (N.of_nat total)) s k)
    else if String.eqb op "ep.stsn" then fin3o (sts_n s k (argN 5 a))
    else if String.eqb op "ep.stsdrain" then fin3o (sts_drain s k)
    else if String.eqb op "ep.someaux" then fin4 (sts_some_aux s k aux (argN 5 a))
    else if String.eqb op "ep.atmostaux" then fin4 (sts_atmost_aux s k aux (argN 6 a))
    else if String.eqb op "ep.naux" then fin4 (sts_n_aux s k aux (argN 6 a))
    else if String.eqb op "ep.drainaux" then fin4 (sts_drain_aux s k aux)
    else [VS "unknown-op"].

(* ---------------- length prefix (C13) ---------------- *)
Definition lkind_of (n : N) : lkind :=
  match n with 0 => LVar | 1 => LOct | 2 => LLe16 | 3 => LLe32 | 4 => LBe16 | _ => LBe32 end.
Fixpoint triples (l : list N) : list (N * N * N) :=
  match l with a :: b :: c :: r => (a, b, c) :: triples r | _ => [] end.
(* chunk list: consecutive slices of one memory block, each with (size, used, offset) *)
Fixpoint mk_chunks (mem : list N) (ts : list (N * N * N)) : list bbuf :=
  match ts with
  | [] => []
  | (sz, us, off) :: r =>
      {| bb_mem := firstn (N.to_nat sz) mem; bb_size := sz; bb_used := us; bb_offset := off |}
      :: mk_chunks (skipn (N.to_nat sz) mem) r
  end.
Definition mk_bbuf (mem : list N) (size used offset : N) : bbuf :=
  {| bb_mem := mem; bb_size := size; bb_used := used; bb_offset := offset |}.
Definition bbuf_ok (b : bbuf) : bool :=
  (bb_offset b <=? bb_used b) && (bb_used b <=? bb_size b) && (bb_size b <=? N.of_nat (length (bb_mem b))) && negb (bb_size b =? 0).
Definition sinkres (r : option (dres * snk)) : list val :=
  match r with None => [VS "out-of-fuel"] | Some (rc, k') => [vdres rc; VH (k_got k')] end.

Definition run_lenp (op : string) (a : list val) : list val :=
  let k := lkind_of (argN 0 a) in
  if String.eqb op "lenp.m2s" then
    let n := argN 4 a in
    if (n <=? lk_max k) && (n + 9 <=? SSIZE_MAX) && (N.of_nat (length (argH 3 a)) <? n) then [VS "skip"] else
    sinkres (lenp_memory_to_sink k (mk_snk (argB 1 a) (argLZ 2 a)) (argH 3 a) n)
  else if String.eqb op "lenp.b2s" then
    let b := mk_bbuf (argH 3 a) (argN 4 a) (argN 5 a) (argN 6 a) in
    if negb (bbuf_ok b) then [VS "skip"] else
    (sinkres (lenp_buffer_to_sink k (mk_snk (argB 1 a) (argLZ 2 a)) b) ++ [VN (bb_offset b)])%list
  else if String.eqb op "lenp.b2sn" then
    let b := mk_bbuf (argH 3 a) (argN 4 a) (argN 5 a) (argN 6 a) in
    if negb (bbuf_ok b) then [VS "skip"] else
    match lenp_buffer_to_sink_n k (mk_snk (argB 1 a) (argLZ 2 a)) b (argN 7 a) with
    | None => [VS "out-of-fuel"]
    | Some (rc, k', b') => [vdres rc; VH (k_got k'); match rc with DOk _ => VN (bb_offset b') | _ => VS "-" end]
    end
  else if String.eqb op "lenp.c2s" then
    let cs := mk_chunks (argH 4 a) (triples (argLN 5 a)) in
    if negb (forallb bbuf_ok cs) then [VS "skip"] else
    sinkres (lenp_chunks_to_sink k (mk_snk (argB 1 a) (argLZ 2 a)) (N.to_nat (argN 3 a)) cs)
  else if String.eqb op "lenp.menc" then
    let n := argN 2 a in
    if (n <=? lk_max k) && (n <=? SSIZE_MAX) && (N.of_nat (length (argH 1 a)) <? n) then [VS "skip"] else
    let '(e, p, pl) := lenp_memory_encode k (argH 1 a) n in
    match e with Some e => [VS (ename e); VS "-"; VS "-"] | None => [VN 0; VH p; VH pl] end
  else if String.eqb op "lenp.benc" then
    let b := mk_bbuf (argH 1 a) (argN 2 a) (argN 3 a) (argN 4 a) in
    if negb (bbuf_ok b) then [VS "skip"] else
    let '(e, p, pl) := lenp_buffer_encode k b in
    match e with Some e => [VS (ename e); VS "-"; VS "-"] | None => [VN 0; VH p; VH pl] end
  else if String.eqb op "lenp.bencn" then
    let b := mk_bbuf (argH 1 a) (argN 2 a) (argN 3 a) (argN 4 a) in
    if negb (bbuf_ok b) then [VS "skip"] else
    let '(e, p, pl, b') := lenp_buffer_encode_n k b (argN 5 a) in
    match e with Some e => [VS (ename e); VS "-"; VS "-"; VS "-"] | None => [VN 0; VH p; VH pl; VN (bb_offset b')] end
  else if String.eqb op "lenp.cuse" then
    let cs := mk_chunks (argH 2 a) (triples (argLN 3 a)) in
    if negb (forallb bbuf_ok cs) then [VS "skip"] else
    let '(e, p) := lenp_chunks_use k (N.to_nat (argN 1 a)) cs in
    match e with Some e => [VS (ename e); VS "-"] | None => [VN 0; VH p] end
  else if String.eqb op "lenp.mfs" then
    (* kind srcoct stream script size count : [count] consecutive frames from one stream *)
    let total := length (argH 2 a) in
    (fix go (n : nat) (s : src) : list val :=
       match n with
       | O => []
       | S n' =>
           match lenp_memory_from_source k s (argN 4 a) with
           | None => [VS "out-of-fuel"]
           | Some (DOk c, d, s') => ([VN c; VH d; src_pos total s'] ++ go n' s')%list
           | Some (DErr e, d, s') => [VS (ename e); VS "-"; VS "-"]
           end
       end) (N.to_nat (argN 5 a)) (mk_src (argB 1 a) (argH 2 a) (argLZ 3 a))
  else if String.eqb op "lenp.bfs" then
    let b := mk_bbuf (argH 4 a) (argN 5 a) (argN 6 a) (argN 7 a) in
    if negb (bbuf_ok b) then [VS "skip"] else
    match lenp_buffer_from_source k (mk_src (argB 1 a) (argH 2 a) (argLZ 3 a)) b with
    | None => [VS "out-of-fuel"]
    | Some (DOk c, s', b') => [VN c; VN (bb_used b'); VN (bb_offset b'); VH (bb_mem b')]
    | Some (DErr e, s', b') =>
        (* on failure the fields must be unchanged; memory inside the free region is unspecified *)
        [VS (ename e); VN (bb_used b'); VN (bb_offset b');
         VH (firstn (N.to_nat (bb_used b)) (bb_mem b))]
    end
  else if String.eqb op "lenp.d2s" then
    let total := length (argH 2 a) in
    match lenp_decode_source_to_sink k (mk_src (argB 1 a) (argH 2 a) (argLZ 3 a)) (mk_snk (argB 4 a) (argLZ 5 a)) with
    | None => [VS "out-of-fuel"]
    | Some (rc, s', k') => [vdres rc; VH (k_got k'); match rc with DOk _ => src_pos total s' | _ => VS "-" end]
    end
  else [VS "unknown-op"].

(* ---------------- persistent storage (C10, C11) ---------------- *)
Definition fault_decode (z : Z) : fault := if (z <? 0)%Z then Fok else Fshort (Z.to_N z).
Definition pacc_name (a : paccess) : val :=
  VS (match a with PSuccess => "SUCCESS" | PInvalidData => "INVALID_DATA" | PIoError => "IO_ERROR" | PAddrRange => "ADDRESS_OUT_OF_RANGE" end).
Definition ps_step_of (ckind : N) : N -> N -> N :=
  match ckind with 0 => step_trivial | 1 => spec_octet | _ => step_sum32 end.
Definition ps_obs (st : pstore) (m0 m : medium) (a : paccess) (d : val) : list val :=
  [pacc_name a; d; VH (m_img m); vbool (forallb (in_region st) (skipn (length (m_log m0)) (m_log m)));   (* the accesses of this operation *)
   vbool (N.of_nat (length (m_log m)) =? N.of_nat (length (m_log m0)))].
Fixpoint ps_run (step : N -> N -> N) (st : pstore) (m : medium) (ops : list (N * N * N * N)) : list val :=
  match ops with
  | [] => []
  | (8, a, _, _) :: r =>     (* the caller re-places the instance: persistent_place *)
      ([VS "place"] ++ ps_run step {| p_caddr := a; p_csize := p_csize st; p_dsize := p_dsize st; p_init := p_init st; p_bsize := p_bsize st |} m r)%list
  | (9, a, _, _) :: r =>     (* ... or gives it another auxiliary buffer size (0: none): persistent_buffer *)
      ([VS "buffer"] ++ ps_run step {| p_caddr := p_caddr st; p_csize := p_csize st; p_dsize := p_dsize st; p_init := p_init st; p_bsize := (if a =? 0 then 1 else a) |} m r)%list
  | (code, a, b, c) :: r =>
      let '(obs, m') :=
        match code with
        | 0 => let '(acc, m') := store step st m (gen_octets a (N.to_nat (p_dsize st))) in (ps_obs st m m' acc (VS "-"), m')
        | 1 => let '(acc, m') := store_part step st m (gen_octets a (N.to_nat (N.min c 64))) b c in (ps_obs st m m' acc (VS "-"), m')
        | 2 => let '(acc, m') := Persist.validate step st m in (ps_obs st m m' acc (VS "-"), m')
        | 3 => let '(acc, d, m') := fetch st m in (ps_obs st m m' acc (match acc with PSuccess => VH d | _ => VS "-" end), m')
        | 4 => let '(acc, d, m') := fetch_part st m a b in (ps_obs st m m' acc (match acc with PSuccess => VH d | _ => VS "-" end), m')
        | 5 => let '(acc, m') := reset st m a in (ps_obs st m m' acc (VS "-"), m')
        | 7 => let '(acc, m') := store step st m (map (fun j => (a / 256 ^ N.of_nat j) mod 256) (seq 0 (N.to_nat (p_dsize st)))) in (ps_obs st m m' acc (VS "-"), m')
        | _ => let m' := {| m_base := m_base m; m_img := upd (m_img m) (N.to_nat a) (N.lxor (nth (N.to_nat a) (m_img m) 0) b);
                           m_log := m_log m; m_rd := m_rd m; m_wr := m_wr m |} in
               ([VS "corrupt"; VS "-"; VH (m_img m'); VS "-"; VS "-"], m')
        end in
      (obs ++ ps_run step st m' r)%list
  end.
Definition run_ps (op : string) (a : list val) : list val :=
  if String.eqb op "ps.run" then
    let ckind := argN 3 a in
    let bs := argZ 6 a in
    let st := {| p_caddr := argN 2 a; p_csize := (if ckind =? 2 then 4 else 2); p_dsize := argN 5 a;
                 p_init := argN 4 a; p_bsize := (if (bs <=? 0)%Z then 1 else Z.to_N bs) |} in
    let m := {| m_base := argN 0 a; m_img := argH 1 a; m_log := []; m_rd := map fault_decode (argLZ 7 a);
                m_wr := map fault_decode (argLZ 8 a) |} in
    ps_run (ps_step_of ckind) st m (quads (argLN 9 a))
  else [VS "unknown-op"].

(* ---------------- endian codecs (C15): the translated functions of the build's configuration ---------------- *)
Fixpoint assoc {A} (k : string) (l : list (string * A)) : option A :=
  match l with [] => None | (n, v) :: r => if String.eqb n k then Some v else assoc k r end.
Definition sname (v : val) : string := match v with VS s => s | _ => "" end.

(* structural equality of observations *)
Fixpoint listN_eqb (a b : list N) : bool :=
  match a, b with [], [] => true | x :: a', y :: b' => (x =? y) && listN_eqb a' b' | _, _ => false end.
Definition val_eqb (a b : val) : bool :=
  match a, b with
  | VN x, VN y => x =? y | VZ x, VZ y => (x =? y)%Z | VH x, VH y => listN_eqb x y
  | VS x, VS y => String.eqb x y | _, _ => false
  end.
Fixpoint list_val_eqb (a b : list val) : bool :=
  match a, b with [], [] => true | x :: a', y :: b' => val_eqb x y && list_val_eqb a' b' | _, _ => false end.

Definition run_bf (op : string) (a : list val) : list val :=
  let name := sname (arg 0 a) in
  if String.eqb op "bf.ref" then
    match assoc name bf_ref_table with
    | Some f => [vint (f (map Z.of_N (argH 1 a)) (N.to_nat (argN 2 a)))]
    | None => [VS "no-such-function"]
    end
  else if String.eqb op "bf.set" then
    match assoc name bf_set_table with
    | Some f => let '(m, p) := f (map Z.of_N (argH 1 a)) (N.to_nat (argN 2 a)) (argZ 3 a) in
                [VH (map Z.to_N m); VN (N.of_nat p)]
    | None => [VS "no-such-function"]
    end
  else if String.eqb op "bf.int" then
    match assoc name bf_int_table with
    | Some f => [vint (f (argZ 1 a))]
    | None => [VS "no-such-function"]
    end
  else if String.eqb op "bf.self" then
    (* bf.self cfg s:name class width order memory position value: the function as translated for configuration cfg
       (0 = the build, 1 = little-endian with mask swaps, 2 = big-endian with mask swaps) against its specification;
       the implementation side of this operation is the constant "agree" *)
    let cfg := argN 0 a in let name := sname (arg 1 a) in
    let class := argN 2 a in let w := argN 3 a in let ord := argN 4 a in
    let mem := map Z.of_N (argH 5 a) in let pos := N.to_nat (argN 6 a) in let v := argZ 7 a in
    let isbig := cfg =? 2 in
    let k := N.to_nat (w / 8) in
    let tw := if w =? 16 then 16%Z else if w <=? 32 then 32%Z else 64%Z in
    let reft := if cfg =? 0 then bf_ref_table else if cfg =? 1 then BfGen_LM.bf_ref_table else BfGen_BM.bf_ref_table in
    let sett := if cfg =? 0 then bf_set_table else if cfg =? 1 then BfGen_LM.bf_set_table else BfGen_BM.bf_set_table in
    let intt := if cfg =? 0 then bf_int_table else if cfg =? 1 then BfGen_LM.bf_int_table else BfGen_BM.bf_int_table in
    let uref := if ord =? 0 then from_host isbig (rd mem pos k) else if ord =? 1 then ofbZ (rd mem pos k) else oflZ (rd mem pos k) in
    let verdict (got want : list val) := if list_val_eqb got want then [VS "agree"] else (VS "differ" :: got ++ VS "want" :: want)%list in
    if class <=? 2 then
      match assoc name reft with
      | Some f => verdict [vint (f mem pos)] [vint (if class =? 1 then sextZ (Z.of_N w) uref else uref)]
      | None => [VS "no-such-function"]
      end
    else if class =? 3 then
      match assoc name sett with
      | Some f => let '(m, p) := f mem pos v in
                  let u := (v mod 2 ^ tw)%Z in
                  let bytes := if ord =? 0 then host_bytes isbig k u else if ord =? 1 then bebZ k u else lebZ k u in
                  verdict [VH (map Z.to_N m); VN (N.of_nat p)] [VH (map Z.to_N (wr mem pos bytes)); VN (N.of_nat (pos + k))]
      | None => [VS "no-such-function"]
      end
    else
      match assoc name intt with
      | Some f => verdict [vint (f v)]
                    [vint (if class =? 4 then bswap k v
                           else if class =? 5 then (if (v <? 2 ^ Z.of_N w)%Z then 1 else 0)%Z
                           else (if ((- 2 ^ (Z.of_N w - 1) <=? v) && (v <? 2 ^ (Z.of_N w - 1)))%Z then 1 else 0)%Z)]
      | None => [VS "no-such-function"]
      end
  else [VS "unknown-op"].

(* ---------------- register table (C01-C05) ---------------- *)
Definition rtype_of (n : N) : rtype :=
  match n with 0 => TU16 | 1 => TU32 | 2 => TU64 | 3 => TS16 | 4 => TS32 | 5 => TS64 | 6 => TF32 | _ => TF64 end.
Definition rtype_n (t : rtype) : N :=
  match t with TU16 => 0 | TU32 => 1 | TU64 => 2 | TS16 => 3 | TS32 => 4 | TS64 => 5 | TF32 => 6 | TF64 => 7 end.
Definition rcheck_of (k a b : N) : rcheck :=
  match k with 0 => CTrivial | 1 => CFail | 2 => CMin a | 3 => CMax a | 4 => CRange a b | _ => CCallback a end.
Fixpoint mk_areas (l : list N) (words : list N) : list area :=
  match l with
  | base :: size :: flags :: kind :: r =>
      {| a_base := base; a_size := size; a_readable := N.testbit flags 0; a_writeable := N.testbit flags 1;
         a_skip := N.testbit flags 2; a_has_read := N.testbit kind 0; a_has_write := N.testbit kind 1;
         a_is_mem := N.testbit kind 2; a_words := firstn (N.to_nat size) words;
         a_first := 0; a_last := 0; a_count := 0 |} :: mk_areas r (skipn (N.to_nat size) words)
  | _ => []
  end.
Fixpoint mk_entries (l : list N) : list entry :=
  match l with
  | ty :: def :: addr :: ck :: a :: b :: r =>
      {| e_type := rtype_of ty; e_default := def; e_addr := addr; e_check := rcheck_of ck a b; e_touched := false |} :: mk_entries r
  | _ => []
  end.
Definition acode_name (c : acode) : val :=
  VS (match c with ASuccess => "SUCCESS" | AFailure => "FAILURE" | AUninit => "UNINITIALISED" | ANoEntry => "NOENTRY"
              | ARange => "RANGE" | AInvalid => "INVALID" | AReadOnly => "READONLY" | AIoError => "IO_ERROR" end).
Definition icode_name (c : icode) : val :=
  VS (match c with ISuccess => "I_SUCCESS" | INoAreas => "I_NO_AREAS" | IAreaOrder => "I_AREA_INVALID_ORDER"
              | IAreaOverlap => "I_AREA_ADDRESS_OVERLAP" | IEntryOrder => "I_ENTRY_INVALID_ORDER"
              | IEntryOverlap => "I_ENTRY_ADDRESS_OVERLAP" | IEntryHole => "I_ENTRY_IN_MEMORY_HOLE"
              | IEntryDefault => "I_ENTRY_INVALID_DEFAULT" end).
Definition reg_dump (t : table) : list val :=
  [vbool (t_init t); VL (map VN (List.concat (map a_words (t_areas t))));
   VL (map (fun e => vbool (e_touched e)) (t_entries t))].
Definition reg_links (t : table) : val :=
  VL (map VN (List.concat (map (fun a => [a_first a; a_last a; a_count a]) (t_areas t)))).
Definition accv (r : acc) : list val := [acode_name (fst r); VN (snd r)].
(* success carries no address *)
Definition accv' (r : acc) : list val :=
  match fst r with ASuccess => [acode_name ASuccess; VS "-"] | _ => accv r end.

Fixpoint reg_ops (fuel : nat) (t : table) (l : list N) : list val :=
  match fuel with
  | O => []
  | S f =>
      match l with
      | code :: nargs :: r =>
          let a := firstn (N.to_nat nargs) r in
          let rest := skipn (N.to_nat nargs) r in
          let g i := nth i a 0 in
          let '(obs, t') :=
            match code with
            | 0 => let '(r0, t1) := reg_init t in
                   ([icode_name (fst r0); (match fst r0 with ISuccess => VS "-" | _ => VN (snd r0) end);
                     (match fst r0 with ISuccess => reg_links t1 | _ => VS "-" end)], t1)
            | 1 => let '(r0, t1) := reg_setx t (g 0%nat) {| v_type := rtype_of (g 1%nat); v_bits := g 2%nat |} true in
                   (* the property names the class only for the bad handle: refused + is-it-NOENTRY + storage *)
                   ([match fst r0 with ASuccess => VS "SUCCESS" | ANoEntry => VS "NOENTRY" | AUninit => VS "UNINITIALISED" | _ => VS "REFUSED" end], t1)
            | 2 => let '(r0, t1) := reg_setx t (g 0%nat) {| v_type := rtype_of (g 1%nat); v_bits := g 2%nat |} false in
                   ([match fst r0 with ASuccess => VS "SUCCESS" | ANoEntry => VS "NOENTRY" | AUninit => VS "UNINITIALISED" | _ => VS "REFUSED" end], t1)
            | 3 => let '(r0, v) := reg_get t (g 0%nat) in
                   ((accv' r0 ++ (match fst r0, v with
                                 | ASuccess, Some v => [VN (rtype_n (v_type v)); VN (v_bits v)]
                                 | _, _ => [VS "-"; VS "-"] end))%list, t)
            | 4 => let '(r0, t1) := reg_bitop false t (g 0%nat) {| v_type := rtype_of (g 1%nat); v_bits := g 2%nat |} in
                   ([match fst r0 with ASuccess => VS "SUCCESS" | ANoEntry => VS "NOENTRY" | AUninit => VS "UNINITIALISED" | _ => VS "REFUSED" end], t1)
            | 5 => let '(r0, t1) := reg_bitop true t (g 0%nat) {| v_type := rtype_of (g 1%nat); v_bits := g 2%nat |} in
                   ([match fst r0 with ASuccess => VS "SUCCESS" | ANoEntry => VS "NOENTRY" | AUninit => VS "UNINITIALISED" | _ => VS "REFUSED" end], t1)
            | 6 => let '(r0, t1) := block_write t (g 0%nat) (g 1%nat) (skipn 2 a) in (accv' r0, t1)
            | 7 => let '(r0, ws) := block_read t (g 0%nat) (g 1%nat) in
                   ((accv' r0 ++ [match fst r0 with ASuccess => VL (map VN ws) | _ => VS "-" end])%list, t)
            | 8 => let '(r0, t1) := sanitise t in ([match fst r0 with ASuccess => VS "SUCCESS" | AUninit => VS "UNINITIALISED" | _ => VS "REFUSED" end], t1)
            | 9 => let '(r0, hs) := foreach_in t (g 0%nat) (g 1%nat) (map (fun x => (Z.of_N x - 1)%Z) (skipn 2 a)) in
                   ((accv' r0 ++ [VL (map VN hs)])%list, t)
            | 13 => (* a typed set while the write driver of callback-backed areas fails: idx type bits checked code.  The driver is
                       reached only by a set that would otherwise succeed on a register of a callback-backed area; nothing is stored *)
                   let '(r0, t1) := reg_setx t (g 0%nat) {| v_type := rtype_of (g 1%nat); v_bits := g 2%nat |} (negb (g 3%nat =? 0)) in
                   let custom := match nth_error (t_entries t) (N.to_nat (g 0%nat)) with
                                 | Some e => match find_area (t_areas t) (e_addr e) 0 with
                                             | Some (_, ar) => negb (a_is_mem ar) | None => false end
                                 | None => false end in
                   (match fst r0 with
                    | ASuccess => if custom then ([VS "BACKEND-FAILED"], t) else ([VS "SUCCESS"], t1)
                    | ANoEntry => ([VS "NOENTRY"], t1) | AUninit => ([VS "UNINITIALISED"], t1) | _ => ([VS "REFUSED"], t1) end)
            | 12 => (* the caller switches the table's byte order: register_make_bigendian *)
                   ([VS "order"], {| t_init := t_init t; t_during := t_during t; t_be := negb (g 0%nat =? 0); t_areas := t_areas t; t_entries := t_entries t |})
            | 11 => (* the caller edits the table description: register k gets a new address (to be followed by a new initialisation) *)
                   match nth_error (t_entries t) (N.to_nat (g 0%nat)) with
                   | Some e => ([VS "edit"], set_entries t (upd (t_entries t) (N.to_nat (g 0%nat))
                                   {| e_type := e_type e; e_default := e_default e; e_addr := g 1%nat; e_check := e_check e; e_touched := e_touched e |}))
                   | None => ([VS "edit"], t)
                   end
            | _ => (* out-of-band corruption: area index, offset, word *)
                   match nth_error (t_areas t) (N.to_nat (g 0%nat)) with
                   | Some ar => ([VS "corrupt"], set_area t (N.to_nat (g 0%nat)) (area_write ar (g 1%nat) [g 2%nat]))
                   | None => ([VS "corrupt"], t)
                   end
            end in
          (obs ++ reg_dump t' ++ reg_ops f t' rest)%list
      | _ => []
      end
  end.

Definition run_reg (op : string) (a : list val) : list val :=
  if String.eqb op "reg.run" then
    let t := {| t_init := false; t_during := false; t_be := argB 0 a;
                t_areas := mk_areas (argLN 1 a) (argLN 2 a); t_entries := mk_entries (argLN 3 a) |} in
    reg_ops (S (length (argLN 4 a))) t (argLN 4 a)
  else [VS "unknown-op"].

(* ---------------- register protocol (C06-C09) ---------------- *)
Definition rp_frame (r : recv_result) : list val :=
  match rr_frame r, rr_errid r with
  | Some f, (None | Some EPROTO | Some EFAULT) =>
      [VS "F"; VN (f_type f); VN (f_opts f); VN (f_meta f); VN (f_seq f); VN (f_addr f); VN (f_bsize f); VH (f_payload f)]
  | _, _ => [VS "-"]
  end.
Definition rp_call (c : backend_call) : list val :=
  if bc_write c then [VS "W"; VN (bc_addr c); VN (bc_bsize c); VH (bc_payload c)]
  else [VS "R"; VN (bc_addr c); VN (bc_bsize c)].
Definition rp_round (r : round) : list val :=
  let rr := rd_recv r in
  (VS "#" ::
   match rr_rc rr with
   | RcChannel e => [VS (ename e); VS "-"; VS "-"; VS "|"; VS "|"; VN 0]
   | RcOk => (VN 0 :: verrno (rr_errid rr) :: rp_frame rr) ++ [VS "|"] ++ flat_map rp_call (rd_calls r)
             ++ [VS "|"; (if rd_prc_ok r then VN 0 else VS (ename EINVAL))]
   end ++ [VH (rd_reply r); VN (rd_allocs r); VN (rd_frees r); VN 0])%list.
Definition flip_bit (raw : list N) (i : N) : list N :=
  upd raw (N.to_nat (i / 8)) (N.lxor (nth (N.to_nat (i / 8)) raw 0) (2 ^ (i mod 8))).
Definition run_rp (op : string) (a : list val) : list val :=
  if String.eqb op "rp.serve" || String.eqb op "rp.corrupt" then
    let corrupt := String.eqb op "rp.corrupt" in
    let bs := argN 3 a in
    if (bs <=? SIZEOF_RPFRAME) || (1048576 <? bs) then [VS "skip"] else
    let p := {| g_mem16 := argB 1 a; g_serial := argB 0 a; g_seq := 0; g_blocksize := bs |} in
    if corrupt && existsb (fun i => 8 * N.of_nat (List.length (argH 5 a)) <=? i) (argLN 4 a) then [VS "skip"] else
    let stream := if corrupt then frame_wire p (fold_left flip_bit (argLN 4 a) (argH 5 a)) [] else argH 5 a in
    let st := {| ss_src := src_plain (argB 2 a) stream;
                 ss_alloc := if corrupt then [] else map (fun z => negb (z =? 0)%Z) (argLZ 4 a);
                 ss_verdicts := triples (argLN 6 a); ss_allocs := 0; ss_frees := 0 |} in
    match serve 64 p st with
    | None => [VS "out-of-fuel"]
    | Some (rs, st') => (flat_map rp_round rs ++ [VS "#"; VN (ss_allocs st' - ss_frees st')])%list
    end
  else if String.eqb op "rp.emit" then
    let kind := argN 3 a in let n := argN 7 a in let pl := argH 9 a in
    (* first argument: bit 0 = serial transport; bit 1 = the sender re-attaches channel, memory and allocator (same arguments) after its
       session has started - reconfiguration calls leave the session alone, so the model ignores the bit *)
    let mem16 := argB 1 a in
    let unit := if (kind =? 3) || ((kind =? 4) && mem16) then 2 else 1 in
    if ((kind =? 2) || (kind =? 3) || (kind =? 4)) && negb (N.of_nat (List.length pl) =? n * unit) then [VS "skip"] else
    if (4294967296 <=? n) || (30 <? kind) || ((4 <? kind) && (kind <? 11)) || ((21 <? kind) && (kind <? 30)) then [VS "skip"] else
    let p := {| g_mem16 := mem16; g_serial := N.odd (argN 0 a); g_seq := argN 2 a mod 65536; g_blocksize := 128 |} in
    let '(wire, p') := emit p kind (argN 4 a) (argN 5 a mod 65536) (argN 6 a mod 4294967296) n (argN 8 a mod 4294967296) pl in
    let q := {| g_mem16 := mem16; g_serial := N.odd (argN 0 a); g_seq := 0; g_blocksize := SIZEOF_RPFRAME + N.of_nat (List.length wire) + 32 |} in
    ([VN 0; VN (g_seq p'); VH wire] ++
     match regp_recv q (src_plain false wire) true with
     | None => [VS "out-of-fuel"]
     | Some r =>
         match rr_rc r with
         | RcChannel e => [VS (ename e)]
         | RcOk => VN 0 :: verrno (rr_errid r) :: rp_frame r
         end ++ [VH (rr_reply r); VN (N.of_nat (List.length (s_stream (rr_rest r)))); VN 0]
     end)%list
  else [VS "unknown-op"].

(* ---------------- s-expression reader (C20) ---------------- *)
Definition sx_stname (s : sxstatus) : val :=
  VS (match s with SSuccess => "SUCCESS" | SFoundList => "FOUND_LIST" | SBrokenInt => "BROKEN_INTEGER" | SBrokenSym => "BROKEN_SYMBOL"
              | SUnknown => "UNKNOWN_INPUT" | SUnexpectedEnd => "UNEXPECTED_END" end).
Fixpoint sx_render (t : sx) : list val :=
  match t with
  | Sym cs => [VS "s"; VH cs] | Int n => [VS "i"; VN n] | Nil => [VS "n"]
  | Cons a d => (VS "c" :: sx_render a ++ sx_render d)%list
  end.
Definition run_sx (op : string) (a : list val) : list val :=
  let inp := argH 0 a in
  if existsb (fun c => 128 <=? c) inp then [VS "skip"] else
  if String.eqb op "sx.parse" then
    if negb (argB 1 a) && existsb (N.eqb 0) inp then [VS "skip"] else
    match sx_parse inp with
    | None => [VS "out-of-fuel"]
    | Some (ROk t c) => (sx_stname SSuccess :: VN (N.of_nat c) :: sx_render t ++ [VS "balanced"])%list
    | Some (RErr e) => [sx_stname e; VS "no-tree"; VS "balanced"]
    end
  else if String.eqb op "sx.tok" then
    let i := N.to_nat (argN 1 a) in
    if (List.length inp <? i)%nat then [VS "skip"] else
    let tk := token (skipn i inp) in
    (sx_stname (t_status tk) :: VN (match t_used tk with None => 0 | Some c => N.of_nat (i + c) end)
     :: match t_node tk with None => [VS "NULL"] | Some t => sx_render t end)%list
  else [VS "unknown-op"].

(* ---------------- the library's buffer endpoints (C17): src/endpoints/buffer.c ---------------- *)
Definition run_be (op : string) (a : list val) : list val :=
  if String.eqb op "be.get" then
    let size := argN 0 a in
    if (size =? 0) || negb (N.of_nat (length (argH 3 a)) =? size) || (size <? argN 1 a) || (argN 1 a <? argN 2 a) then [VS "skip"] else
    let b := mk_bbuf (argH 3 a) size (argN 1 a) (argN 2 a) in
    let out (r : dres * list N * bbuf) := let '(rc, d, b') := r in [vdres rc; VN (N.of_nat (length d)); VH d; VN (bb_offset b'); VN (bb_used b')] in
    if negb (argN 5 a =? 0) then out (get_chunk_atmost_d read_from_buffer b (argN 4 a))
    else match buffer_get_chunk b (argN 4 a) with None => [VS "out-of-fuel"] | Some r => out r end
  else if String.eqb op "be.chunks" then
    let useds := argLN 0 a in let offs := argLN 1 a in
    if (length useds =? 0)%nat || negb (length offs =? length useds)%nat || negb (forallb (fun p => negb (fst p =? 0) && (snd p <=? fst p)) (combine useds offs))
       || negb (N.of_nat (length (argH 2 a)) =? fold_right N.add 0 useds) || (N.of_nat (length useds) <? argN 3 a) then [VS "skip"] else
    let fix cut (us os : list N) (mem : list N) : list bbuf :=
      match us, os with
      | u :: us', o :: os' => mk_bbuf (firstn (N.to_nat u) mem) u u o :: cut us' os' (skipn (N.to_nat u) mem)
      | _, _ => []
      end in
    let c := {| c_list := cut useds offs (argH 2 a); c_active := N.to_nat (argN 3 a) |} in
    match chunks_get_chunk c (argN 4 a) with
    | None => [VS "out-of-fuel"]
    | Some (rc, d, c') => [vdres rc; VH d; VL (map (fun b => VN (bb_offset b)) (c_list c'))]
    end
  else if String.eqb op "be.put" then
    let size := argN 0 a in
    if (size =? 0) || negb (N.of_nat (length (argH 3 a)) =? size) || (size <? argN 1 a) || (argN 1 a <? argN 2 a) then [VS "skip"] else
    if (argN 5 a <=? SSIZE_MAX) && (N.of_nat (length (argH 4 a)) <? argN 5 a) then [VS "skip"] else
    let b := mk_bbuf (argH 3 a) size (argN 1 a) (argN 2 a) in
    match buffer_put_chunk b (argH 4 a) (argN 5 a) with
    | None => [VS "out-of-fuel"]
    | Some (rc, b') => [vdres rc; VN (bb_used b'); VN (bb_offset b'); VH (firstn (N.to_nat size) (bb_mem b'))]
    end
  else if String.eqb op "be.sts" then
    let ss := argN 0 a in let ks := argN 4 a in
    if (ss =? 0) || (ks =? 0) || negb (N.of_nat (length (argH 3 a)) =? ss) || negb (N.of_nat (length (argH 6 a)) =? ks) || (ss <? argN 1 a)
       || (argN 1 a <? argN 2 a) || (ks <? argN 5 a) then [VS "skip"] else
    let s := mk_bbuf (argH 3 a) ss (argN 1 a) (argN 2 a) in
    let k := mk_bbuf (argH 6 a) ks (argN 5 a) 0 in
    match buf_sts_n (S (N.to_nat (bb_rest s) + 1)) (argN 7 a) (argN 7 a) s k with
    | None => [VS "out-of-fuel"]
    | Some (rc, s', k') => [vdres rc; VN (bb_offset s'); VN (bb_used k'); VH (firstn (N.to_nat ks) (bb_mem k'))]
    end
  else [VS "unknown-op"].

Definition prefix_of (p s : string) : bool := String.prefix p s.

Definition dispatch (op : string) (a : list val) : list val :=
  if prefix_of "crc." op then run_crc op a
  else if prefix_of "bb." op then run_bb op a
  else if prefix_of "vi." op then run_vi op a
  else if prefix_of "ring." op then run_ring op a
  else if prefix_of "slip." op then run_slip op a
  else if prefix_of "ep." op then run_ep op a
  else if prefix_of "be." op then run_be op a
  else if prefix_of "lenp." op then run_lenp op a
  else if prefix_of "ps." op then run_ps op a
  else if prefix_of "bf." op then run_bf op a
  else if prefix_of "reg." op then run_reg op a
  else if prefix_of "rp." op then run_rp op a
  else if prefix_of "sx." op then run_sx op a
  else [VS "unknown-op"].
