(* Correspondence entry point: one op name + arguments -> canonical observation.
   Extracted to OCaml (Extract.v) and driven by ocaml/driver.ml. *)
From Ufw Require Import Base.Val Base.Bits Model.Crc.
Local Open Scope string_scope.
Local Open Scope N_scope.

Definition run_crc (op : string) (a : list val) : list val :=
  if String.eqb op "crc.bytes" then [VN (spec_crc (argN 0 a) (argH 1 a))]
  else if String.eqb op "crc.split" then
    let c := argN 0 a in let l := argH 1 a in let k := N.to_nat (argN 2 a) in
    [VN (spec_crc c l); VN (spec_crc (spec_crc c (firstn k l)) (skipn k l))]
  else if String.eqb op "crc.u16" then
    [VN (spec_crc (argN 0 a) (List.concat (map host_bytes16 (argLN 1 a))))]
  else [VS "unknown-op"].

Definition prefix_of (p s : string) : bool := String.prefix p s.

Definition dispatch (op : string) (a : list val) : list val :=
  if prefix_of "crc." op then run_crc op a
  else [VS "unknown-op"].
