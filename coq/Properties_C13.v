(* C13  Length-prefix framing carries exactly the designated octets.
   Statements only; proofs in Proof/LenpLemmas.v; model Model/Lenp.v. *)
From Ufw Require Import Base.Bits Base.Errno Model.ByteBuffer Model.Endpoints Model.Varint Model.Lenp
  Proof.LenpLemmas Proof.RegpFraming Proof.LenpTotal.
Local Open Scope N_scope.

(* the length in the kind's encoding: varint / one octet / 16,32-bit LE,BE; fixed kinds decode back *)
Theorem C13_prefix_le : forall k v, v < 256 ^ N.of_nat k -> of_le (le_bytes k v) = v.
Proof. exact of_le_le_bytes. Qed.
Print Assumptions C13_prefix_le.
Theorem C13_prefix_be : forall k v, v < 256 ^ N.of_nat k -> of_be (be_bytes k v) = v.
Proof. exact of_be_be_bytes. Qed.
Print Assumptions C13_prefix_be.

(* from memory into a sink: prefix ++ exactly the n given octets, total reported *)
Theorem C13_memory_to_sink : forall k oct got calls xs n,
  1 <= n -> n <= lk_max k -> n <= SSIZE_MAX - 10 -> n <= N.of_nat (length xs) ->
  exists calls', lenp_memory_to_sink k (plain_snk oct got calls) xs n =
    Some (DOk (N.of_nat (length (lenp_prefix k n)) + n),
          plain_snk oct (got ++ lenp_prefix k n ++ firstn (N.to_nat n) xs) calls').
Proof. exact memory_to_sink_ok. Qed.
Print Assumptions C13_memory_to_sink.

(* beyond the kind's maximum: refused before anything is emitted *)
Theorem C13_refused : forall k snk0 xs n, lk_max k < n \/ SSIZE_MAX < n ->
  lenp_memory_to_sink k snk0 xs n = Some (DErr EINVAL, snk0).
Proof. exact memory_to_sink_refused. Qed.
Print Assumptions C13_refused.

(* from a buffer's unread content *)
Theorem C13_buffer_to_sink : forall k oct got calls b,
  bb_inv b -> 1 <= bb_rest b -> bb_rest b <= lk_max k -> bb_rest b <= SSIZE_MAX - 10 ->
  exists calls', lenp_buffer_to_sink k (plain_snk oct got calls) b =
    Some (DOk (N.of_nat (length (lenp_prefix k (bb_rest b))) + bb_rest b),
          plain_snk oct (got ++ lenp_prefix k (bb_rest b) ++ bb_unread b) calls').
Proof. exact buffer_to_sink_ok. Qed.
Print Assumptions C13_buffer_to_sink.

(* from its first n unread octets, advancing the buffer by n *)
Theorem C13_buffer_to_sink_n : forall k oct got calls b n,
  bb_inv b -> 1 <= n -> n <= bb_rest b -> n <= lk_max k -> n <= SSIZE_MAX - 10 ->
  exists calls' b', lenp_buffer_to_sink_n k (plain_snk oct got calls) b n =
    Some (DOk (N.of_nat (length (lenp_prefix k n)) + n),
          plain_snk oct (got ++ lenp_prefix k n ++ firstn (N.to_nat n) (bb_unread b)) calls', b') /\
    bb_offset b' = bb_offset b + n /\ bb_unread b' = skipn (N.to_nat n) (bb_unread b) /\ bb_mem b' = bb_mem b.
Proof. exact buffer_to_sink_n_ok. Qed.
Print Assumptions C13_buffer_to_sink_n.
Theorem C13_buffer_to_sink_n_refused : forall k snk0 b n, bb_rest b < n ->
  lenp_buffer_to_sink_n k snk0 b n = Some (DErr EINVAL, snk0, b).
Proof. exact buffer_to_sink_n_refused. Qed.
Print Assumptions C13_buffer_to_sink_n_refused.

(* from a chunk list: the unread octets of the chunks from [active] on, in order, empty chunks allowed *)
Theorem C13_chunks_to_sink : forall k oct got calls active cs,
  let payload := List.concat (chunks_payload active cs) in
  let n := N.of_nat (length payload) in
  1 <= n -> n <= lk_max k -> n <= SSIZE_MAX - 10 ->
  exists calls', lenp_chunks_to_sink k (plain_snk oct got calls) active cs =
    Some (DOk (N.of_nat (length (lenp_prefix k n)) + n),
          plain_snk oct (got ++ lenp_prefix k n ++ payload) calls').
Proof. exact chunks_to_sink_ok. Qed.
Print Assumptions C13_chunks_to_sink.

(* into a prefix object *)
Theorem C13_memory_encode : forall k xs n, 1 <= n -> n <= lk_max k -> n <= SSIZE_MAX ->
  lenp_memory_encode k xs n = (None, lenp_prefix k n, firstn (N.to_nat n) xs).
Proof. exact memory_encode_ok. Qed.
Print Assumptions C13_memory_encode.

(* decoding, fixed-width kinds, EVERY behaviour script of the source (any fragmentation, zero-length
   returns, EINTR/EAGAIN): a successful call delivers exactly the payload and leaves the stream right
   behind the frame - hence consecutive frames decode in order *)
Theorem C13_decode_fixed : forall k s size n payload r c d s',
  k <> LVar -> n <= lk_max k -> N.of_nat (length payload) = n ->
  s_stream s = lenp_prefix k n ++ payload ++ r ->
  lenp_memory_from_source k s size = Some (DOk c, d, s') ->
  c = n /\ d = payload /\ s_stream s' = r /\ n <= size.
Proof. exact memory_from_source_fixed. Qed.
Print Assumptions C13_decode_fixed.

(* destination too small: an error, and nothing is written *)
Theorem C13_decode_enomem : forall k s size n payload r rc d s',
  k <> LVar -> n <= lk_max k -> s_stream s = lenp_prefix k n ++ payload ++ r -> size < n ->
  lenp_memory_from_source k s size = Some (rc, d, s') ->
  (forall c, rc <> DOk c) /\ d = [].
Proof. exact memory_from_source_enomem. Qed.
Print Assumptions C13_decode_enomem.

(* varint prefix (plain source) *)
Theorem C13_decode_var : forall oct calls size n payload r c d s',
  n < 2 ^ 64 -> N.of_nat (length payload) = n ->
  lenp_memory_from_source LVar (plain_src oct (vi_encode n ++ payload ++ r) calls) size = Some (DOk c, d, s') ->
  c = n /\ d = payload /\ s_stream s' = r /\ n <= size.
Proof. exact memory_from_source_var. Qed.
Print Assumptions C13_decode_var.

(* decoding from a source into a sink (the receive path of the register protocol): unconditional - the call returns, reports
   the announced length, hands exactly the framed octets to the sink in order and leaves what follows in the source *)
Theorem C13_decode_to_sink : forall oct payload r calls got kc, N.of_nat (length payload) < 2 ^ 64 ->
  exists calls' kc',
    lenp_decode_source_to_sink LVar (plain_src oct (vi_encode (N.of_nat (length payload)) ++ payload ++ r) calls) (plain_snk false got kc)
    = Some (DOk (N.of_nat (length payload)), plain_src oct r calls', plain_snk false (got ++ payload) kc').
Proof. exact lenp_d2s_var. Qed.
Print Assumptions C13_decode_to_sink.

(* ---- every behaviour script of the sink (fragmentation, zero-length returns, EINTR/EAGAIN, hard errors) ---- *)
(* whatever the sink does: what reached it is a prefix of [length prefix ++ the n designated octets]; a success means all of it
   reached the sink and the count is its length; EINTR/EAGAIN never come back *)
Theorem C13_memory_to_sink_any : forall k snk0 xs n r k', lenp_memory_to_sink k snk0 xs n = Some (r, k') ->
  exists sent, k_got k' = k_got snk0 ++ sent /\
    (exists rest, lenp_prefix k n ++ firstn (N.to_nat n) xs = sent ++ rest) /\
    (forall c, r = DOk c -> c = N.of_nat (length (lenp_prefix k n)) + n /\ sent = lenp_prefix k n ++ firstn (N.to_nat n) xs) /\
    (forall e, r = DErr e -> is_retry e = false).
Proof. exact memory_to_sink_any. Qed.
Print Assumptions C13_memory_to_sink_any.

(* decoding a fixed-width frame from ANY source into ANY sink: a reported success means exactly the framed octets were handed
   to the sink, in order, and the source stands right behind the frame; otherwise what reached the sink is a prefix of them *)
Theorem C13_decode_to_sink_fixed : forall k s snk0 n payload r res s' k',
  k <> LVar -> n <= lk_max k -> N.of_nat (length payload) = n ->
  s_stream s = lenp_prefix k n ++ payload ++ r ->
  lenp_decode_source_to_sink k s snk0 = Some (res, s', k') ->
  exists moved, k_got k' = k_got snk0 ++ moved /\ (exists rest, payload ++ r = moved ++ rest) /\
    (forall c, res = DOk c -> c = n /\ moved = payload /\ s_stream s' = r).
Proof. exact decode_to_sink_fixed. Qed.
Print Assumptions C13_decode_to_sink_fixed.

(* varint prefix from ANY source (any fragmentation, zero-length answers are outside: see Model/Varint.v; EINTR/EAGAIN/hard errors
   end the call with that error): a reported success delivered exactly the payload and left the stream right behind the frame *)
Theorem C13_decode_var_any : forall s size n payload r c d s',
  n < 2 ^ 64 -> N.of_nat (length payload) = n -> s_stream s = vi_encode n ++ payload ++ r ->
  lenp_memory_from_source LVar s size = Some (DOk c, d, s') ->
  c = n /\ d = payload /\ s_stream s' = r /\ n <= size.
Proof. exact memory_from_source_var_any. Qed.
Print Assumptions C13_decode_var_any.

(* decoding into a buffer: the payload is APPENDED to the filled region (the read position and everything filled before stay), the
   stream continues right behind the frame; with too little free space the call fails and the buffer is exactly as it was *)
Theorem C13_decode_into_buffer : forall k s b n payload r c s' b',
  k <> LVar -> n <= lk_max k -> N.of_nat (length payload) = n -> bb_inv b ->
  s_stream s = lenp_prefix k n ++ payload ++ r ->
  lenp_buffer_from_source k s b = Some (DOk c, s', b') ->
  c = n /\ bb_filled b' = bb_filled b ++ payload /\ bb_offset b' = bb_offset b /\ bb_size b' = bb_size b /\ s_stream s' = r /\ bb_inv b'.
Proof. exact buffer_from_source_fixed. Qed.
Print Assumptions C13_decode_into_buffer.
Theorem C13_decode_into_buffer_enomem : forall k s b n payload r rc s' b',
  k <> LVar -> n <= lk_max k -> s_stream s = lenp_prefix k n ++ payload ++ r -> bb_avail b < n ->
  lenp_buffer_from_source k s b = Some (rc, s', b') ->
  (forall c, rc <> DOk c) /\ b' = b.
Proof. exact buffer_from_source_enomem. Qed.
Print Assumptions C13_decode_into_buffer_enomem.

(* every entry point returns, whatever the drivers do (the model's fuel never runs out) *)
Theorem C13_encoders_return : forall k snk0,
  (forall xs n, lenp_memory_to_sink k snk0 xs n <> None) /\
  (forall b, lenp_buffer_to_sink k snk0 b <> None) /\
  (forall b n, lenp_buffer_to_sink_n k snk0 b n <> None) /\
  (forall active cs, lenp_chunks_to_sink k snk0 active cs <> None).
Proof.
  intros k snk0. split; [intros; apply memory_to_sink_total|]. split; [intros; apply buffer_to_sink_total|].
  split; [intros; apply buffer_to_sink_n_total|intros; apply chunks_to_sink_total].
Qed.
Print Assumptions C13_encoders_return.
Theorem C13_decoders_return : forall k s,
  (forall size, lenp_memory_from_source k s size <> None) /\
  (forall b, lenp_buffer_from_source k s b <> None) /\
  (forall snk0, lenp_decode_source_to_sink k s snk0 <> None).
Proof.
  intros k s. split; [intros; apply memory_from_source_total|]. split; [intros; apply buffer_from_source_total|intros; apply decode_source_to_sink_total].
Qed.
Print Assumptions C13_decoders_return.

Example C13_example :
  lenp_memory_to_sink LBe16 (snk_plain false) [7; 8; 9] 3 =
    Some (DOk 5, {| k_octet := false; k_got := [0; 3; 7; 8; 9]; k_script := []; k_calls := 2 |}) /\
  lenp_memory_from_source LVar (src_plain true [2; 65; 66; 1; 67]) 8 =
    Some (DOk 2, [65; 66], {| s_octet := true; s_stream := [1; 67]; s_script := []; s_calls := 3 |}).
Proof. split; vm_compute; reflexivity. Qed.
