(* C02  Block writes are validated as a whole and are all-or-nothing.
   Statements only; proofs in Proof/RegLemmas.v.  Proved: atomicity on failure, the order and addresses of the
   failure classes, soundness of the READONLY / NOENTRY addresses, and that success implies every overlapped
   register decodes and validates after the overlay and is marked touched; and, for tables whose areas are ordered,
   disjoint and full (areas_wf), the exact word image after a successful write - across area borders: every address of
   the request holds the written word, every other address its old word (Proof/RegMemory.v). *)
From Ufw Require Import Base.Bits Model.RegTable Proof.RegLemmas Proof.RegInitLemmas Proof.RegMemory.
From Coq Require Import Bool.
Local Open Scope N_scope.

Theorem C02_failure_atomic : forall t addr n buf r t',
  block_write t addr n buf = (r, t') -> fst r <> ASuccess -> t' = t.
Proof. exact block_write_failure_atomic. Qed.
Print Assumptions C02_failure_atomic.

Theorem C02_zero_length : forall t addr buf, t_init t = true -> block_write t addr 0 buf = ((ASuccess, 0), t).
Proof. exact block_write_zero. Qed.
Print Assumptions C02_zero_length.

(* failure class and address: read-only first, then unmapped, then the first register that fails after overlay *)
Theorem C02_failure_report : forall t addr n buf, t_init t = true -> n <> 0 ->
  fst (block_write t addr n buf) =
  match first_readonly (t_areas t) addr n with
  | Some a => (AReadOnly, a)
  | None => match first_hole (area_fuel t) t addr n with
            | Some a => (ANoEntry, a)
            | None => match malformed t (t_entries t) addr n buf with
                      | Some r => r
                      | None => (ASuccess, 0)
                      end
            end
  end.
Proof. exact block_write_report. Qed.
Print Assumptions C02_failure_report.

Theorem C02_readonly_address : forall areas addr n x, n <> 0 -> Forall (fun a => 0 < a_size a) areas ->
  first_readonly areas addr n = Some x ->
  addr <= x < addr + n /\ exists a, In a areas /\ area_is_writeable a = false /\ addr_in_area a x = true.
Proof. exact first_readonly_sound. Qed.
Print Assumptions C02_readonly_address.

Theorem C02_all_mapped : forall fuel t addr n, first_hole fuel t addr n = None ->
  forall x, addr <= x < addr + n -> exists i a, find_area (t_areas t) x 0 = Some (i, a).
Proof. exact first_hole_none. Qed.
Print Assumptions C02_all_mapped.

Theorem C02_success : forall t addr n buf t', block_write t addr n buf = ((ASuccess, 0), t') -> n <> 0 ->
  (forall x, addr <= x < addr + n -> exists i a, find_area (t_areas t) x 0 = Some (i, a)) /\
  first_readonly (t_areas t) addr n = None /\
  (forall e, In e (t_entries t) -> overlaps e addr n = true ->
     exists cur, entry_words t e = Some cur /\
       let lo := N.max addr (e_addr e) in let hi := N.min (addr + n) (e_addr e + tsize (e_type e)) in
       let new := blit cur (N.to_nat (lo - e_addr e)) (slice buf (N.to_nat (lo - addr)) (N.to_nat (hi - lo))) in
       let v := {| v_type := e_type e; v_bits := des_bits (t_be t) (e_type e) new |} in
       ser_ok v = true /\ validate (t_during t) e v = true) /\
  map e_touched (t_entries t') = map (fun e => e_touched e || overlaps e addr n) (t_entries t).
Proof. exact block_write_success_validated. Qed.
Print Assumptions C02_success.

(* the table as a flat word memory: [word_at t x] is the word of the area that maps x.  A successful block write stores
   exactly the n given words at addr .. addr+n-1 and leaves every other word (and the geometry) as it was *)
Theorem C02_word_image : forall t addr n buf t', areas_wf (t_areas t) -> n <> 0 -> n <= N.of_nat (length buf) ->
  block_write t addr n buf = ((ASuccess, 0), t') ->
  areas_wf (t_areas t') /\ same_geom (t_areas t) (t_areas t') /\
  forall x, word_at t' x = if (addr <=? x) && (x <? addr + n) then nth_error buf (N.to_nat (x - addr)) else word_at t x.
Proof. exact block_write_image. Qed.
Print Assumptions C02_word_image.

(* the general statement about the word-level writer, for any fuel that suffices and any mapped range *)
Theorem C02_write_words : forall fuel t addr ws,
  areas_wf (t_areas t) ->
  (forall i, i < N.of_nat (length ws) -> exists j a, find_area (t_areas t) (addr + i) 0 = Some (j, a)) ->
  (ws = [] \/ forall j a, find_area (t_areas t) addr 0 = Some (j, a) -> (length (t_areas t) - j <= fuel)%nat) ->
  let t' := write_words fuel t addr ws in
  same_geom (t_areas t) (t_areas t') /\ areas_wf (t_areas t') /\ flags_same t t' /\
  forall x, word_at t' x =
            if (addr <=? x) && (x <? addr + N.of_nat (length ws)) then nth_error ws (N.to_nat (x - addr)) else word_at t x.
Proof. exact write_words_at. Qed.
Print Assumptions C02_write_words.

(* ---- translator tie (Gen/RegLeafGen.v is regenerated from src/registers/core.c on every check): the predicates by which the
   block-write checks place an area relative to the request are the model's, for every area and request inside the 32-bit
   address space - including areas that reach its last address ---- *)
From Coq Require Import ZArith.
From Ufw Require Import Base.Cexpr Gen.RegLeafGen Proof.RegLeafT.

Theorem C02_T_area_touched_by_request : forall a e addr n, area_in_space a -> window_in_space addr n ->
  (eval (envC a e addr n) tabsC c_ra_range_touches =? 0)%Z = (addr <? a_base a + a_size a) && (a_base a <? addr + n).
Proof. exact C_ra_range_touches_zero. Qed.
Print Assumptions C02_T_area_touched_by_request.

Theorem C02_T_area_relative_to_request : forall a e addr n, area_in_space a -> window_in_space addr n ->
  eval (envC a e addr n) tabsC c_ra_range_touches =
    if a_base a + a_size a <=? addr then (-1)%Z else if addr + n <=? a_base a then 1%Z else 0%Z.
Proof. exact C_ra_range_touches. Qed.
Print Assumptions C02_T_area_relative_to_request.

Theorem C02_T_address_in_area : forall a e addr n, area_in_space a -> addr < SPACE ->
  eval (envC a e addr n) tabsC c_ra_addr_is_part_of = b2z (addr_in_area a addr).
Proof. exact C_ra_addr_is_part_of. Qed.
Print Assumptions C02_T_address_in_area.
