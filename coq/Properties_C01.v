(* C01  Typed register set/get is lossless and constraint-enforcing.
   Statements only; proofs in Proof/RegLemmas.v; model Model/RegTable.v (values as raw bit patterns,
   floats as IEEE-754 bit patterns; tied to src/registers/core.c by ./check C01). *)
From Coq Require Import ZArith Floats.SpecFloat.
From Flocq Require Import IEEE754.Binary IEEE754.Bits.
From Ufw Require Import Base.Bits Model.RegTable Proof.RegLemmas Proof.FloatOrder.
Local Open Scope N_scope.

(* the words of a value in the table's byte order decode back to it: every type, both orders, every bit pattern *)
Theorem C01_roundtrip_words : forall be t bits, bits < 2 ^ tbits t -> des_bits be t (ser_words be t bits) = bits.
Proof. exact ser_des_roundtrip. Qed.
Print Assumptions C01_roundtrip_words.

(* a successful set (checked or unchecked) followed by get returns the identical value; the register's words
   are exactly the value in the table's byte order *)
Theorem C01_set_get : forall t idx v c e i a,
  t_init t = true -> entry_at t idx = Some e -> entry_area t e = Some (i, a) ->
  e_addr e + tsize (e_type e) <= a_base a + a_size a -> N.of_nat (length (a_words a)) = a_size a ->
  v_type v = e_type e -> v_bits v < 2 ^ tbits (e_type e) ->
  fst (fst (reg_setx t idx v c)) = ASuccess ->
  let t' := snd (reg_setx t idx v c) in
  reg_get t' idx = ((ASuccess, 0), Some v) /\
  entry_words t' e = Some (ser_words (t_be t) (e_type e) (v_bits v)) /\
  t_entries t' = t_entries t /\ t_init t' = true.
Proof. exact set_then_get. Qed.
Print Assumptions C01_set_get.

(* ... and every other word of every area keeps its value *)
Theorem C01_set_frame : forall t idx v c e i a,
  t_init t = true -> entry_at t idx = Some e -> entry_area t e = Some (i, a) ->
  e_addr e + tsize (e_type e) <= a_base a + a_size a -> N.of_nat (length (a_words a)) = a_size a ->
  fst (fst (reg_setx t idx v c)) = ASuccess ->
  let t' := snd (reg_setx t idx v c) in
  (forall j, j <> i -> nth_error (t_areas t') j = nth_error (t_areas t) j) /\
  (exists a', nth_error (t_areas t') i = Some a' /\
     firstn (N.to_nat (e_addr e - a_base a)) (a_words a') = firstn (N.to_nat (e_addr e - a_base a)) (a_words a) /\
     skipn (N.to_nat (e_addr e - a_base a + tsize (e_type e))) (a_words a')
       = skipn (N.to_nat (e_addr e - a_base a + tsize (e_type e))) (a_words a) /\
     length (a_words a') = length (a_words a)).
Proof. exact set_frame. Qed.
Print Assumptions C01_set_frame.

(* a checked set succeeds exactly when the type matches and the min/max/range/callback/always-fail constraint holds
   ([validate]), the area has a write callback, and a float is finite-normal-or-zero ([ser_ok]) *)
Theorem C01_set_success_iff : forall t idx v e i a, t_init t = true -> entry_at t idx = Some e -> entry_area t e = Some (i, a) ->
  (fst (fst (reg_setx t idx v true)) = ASuccess <->
   validate (t_during t) e v = true /\ area_can_write a = true /\ ser_ok v = true).
Proof. exact set_success_iff. Qed.
Print Assumptions C01_set_success_iff.

(* a refused set leaves all storage unchanged *)
Theorem C01_refused_unchanged : forall t idx v c r t', reg_setx t idx v c = (r, t') -> fst r <> ASuccess -> t' = t.
Proof. exact setx_refused_unchanged. Qed.
Print Assumptions C01_refused_unchanged.

(* 'no such entry' exactly for a handle that is not a register of the table, one-past-the-end included,
   also by the unchecked variant *)
Theorem C01_noentry_iff : forall t idx v c, t_init t = true ->
  (fst (fst (reg_setx t idx v c)) = ANoEntry <-> N.of_nat (length (t_entries t)) <= idx).
Proof. exact setx_noentry_iff. Qed.
Print Assumptions C01_noentry_iff.

(* the unchecked variant skips only the type and constraint checks ... *)
Theorem C01_unsafe_success_iff : forall t idx v e i a, t_init t = true -> entry_at t idx = Some e -> entry_area t e = Some (i, a) ->
  (fst (fst (reg_setx t idx v false)) = ASuccess <-> area_can_write a = true /\ ser_ok v = true).
Proof. exact set_unsafe_success_iff. Qed.
Print Assumptions C01_unsafe_success_iff.
(* ... and stores exactly what the checked variant would *)
Theorem C01_unsafe_same : forall t idx v, fst (fst (reg_setx t idx v true)) = ASuccess ->
  reg_setx t idx v false = reg_setx t idx v true.
Proof. exact set_unsafe_same_as_checked. Qed.
Print Assumptions C01_unsafe_same.

(* non-vacuity: a big-endian table with a range-constrained s32 register; NaN refused *)

(* ---- the float ordering of the model is IEEE-754's (Flocq) ---- *)
(* for every pair of 32-bit patterns the model's "less or equal" is the comparison of the two numbers Flocq decodes from them
   (NaN unordered, -0 = +0, infinities at the ends, subnormals below the normals); no axioms *)
Theorem C01_float32_order_is_ieee : forall a b, a < 2 ^ 32 -> b < 2 ^ 32 ->
  f_le TF32 a b = cmp_le (SFcompare (ff2sf (binary_float_of_bits_aux 23 8 (Z.of_N a))) (ff2sf (binary_float_of_bits_aux 23 8 (Z.of_N b)))).
Proof. exact f_le32_is_ieee. Qed.
Print Assumptions C01_float32_order_is_ieee.
Theorem C01_float64_order_is_ieee : forall a b, a < 2 ^ 64 -> b < 2 ^ 64 ->
  f_le TF64 a b = cmp_le (SFcompare (ff2sf (binary_float_of_bits_aux 52 11 (Z.of_N a))) (ff2sf (binary_float_of_bits_aux 52 11 (Z.of_N b)))).
Proof. exact f_le64_is_ieee. Qed.
Print Assumptions C01_float64_order_is_ieee.
(* the same against Flocq's validated binary32 / binary64 numbers and its IEEE comparison Bcompare; the validity proofs inside
   b32_of_bits / b64_of_bits use the real-number axioms of Coq's standard library (listed below by Print Assumptions and named
   in the trusted base); nothing else in the development depends on them *)
Theorem C01_float32_order_is_Bcompare : forall a b, a < 2 ^ 32 -> b < 2 ^ 32 ->
  f_le TF32 a b = cmp_le (Bcompare 24 128 (b32_of_bits (Z.of_N a)) (b32_of_bits (Z.of_N b))).
Proof. exact f_le32_is_Bcompare. Qed.
Print Assumptions C01_float32_order_is_Bcompare.
Theorem C01_float64_order_is_Bcompare : forall a b, a < 2 ^ 64 -> b < 2 ^ 64 ->
  f_le TF64 a b = cmp_le (Bcompare 53 1024 (b64_of_bits (Z.of_N a)) (b64_of_bits (Z.of_N b))).
Proof. exact f_le64_is_Bcompare. Qed.
Print Assumptions C01_float64_order_is_Bcompare.
(* the classes the (de)serialiser accepts - zero and normal numbers - in Flocq's terms: zero, or finite with the hidden bit set *)
Theorem C01_float32_acceptable_is_ieee : forall a, a < 2 ^ 32 ->
  f_acceptable TF32 a = match ff2sf (binary_float_of_bits_aux 23 8 (Z.of_N a)) with
                        | S754_zero _ => true | S754_finite _ m _ => (8388608 <=? Zpos m)%Z | _ => false end.
Proof. exact acceptable32_is_ieee. Qed.
Print Assumptions C01_float32_acceptable_is_ieee.
Theorem C01_float64_acceptable_is_ieee : forall a, a < 2 ^ 64 ->
  f_acceptable TF64 a = match ff2sf (binary_float_of_bits_aux 52 11 (Z.of_N a)) with
                        | S754_zero _ => true | S754_finite _ m _ => (4503599627370496 <=? Zpos m)%Z | _ => false end.
Proof. exact acceptable64_is_ieee. Qed.
Print Assumptions C01_float64_acceptable_is_ieee.

Example C01_example :
  let a := {| a_base := 100; a_size := 4; a_readable := true; a_writeable := true; a_skip := false; a_has_read := true;
              a_has_write := true; a_is_mem := true; a_words := [1;2;3;4]; a_first := 0; a_last := 0; a_count := 0 |} in
  let t := {| t_init := true; t_during := false; t_be := true; t_areas := [a];
              t_entries := [{| e_type := TS32; e_default := 0; e_addr := 101; e_check := CRange 4294967286 10; e_touched := false |}] |} in
  a_words (nth 0 (t_areas (snd (reg_setx t 0 {| v_type := TS32; v_bits := 4294967291 |} true))) a) = [1; 65535; 64511; 4] /\
  fst (reg_setx t 0 {| v_type := TS32; v_bits := 11 |} true) = (ARange, 101) /\
  ser_ok {| v_type := TF32; v_bits := 2143289344 |} = false.
Proof. repeat split; vm_compute; reflexivity. Qed.
