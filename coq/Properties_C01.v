From Ufw Require Import Model.RegTable.
