(* C05  Register constraints are an invariant of every checked-operation history.
   Statements only.  Proved: a register written by a successful checked set satisfies its constraint afterwards (and
   reads back the value); every refused set / bit operation / block write changes nothing; bit set/clear change
   exactly the requested bits of unsigned registers and refuse signed, float and mismatched operands; block writes
   succeed only if every overlapped register validates after overlay.  The lift to arbitrary histories incl. sanitise
   rests on the correspondence run over long histories (DESIGN.md C05, partial). *)
From Ufw Require Import Base.Bits Model.RegTable Proof.RegLemmas.
From Coq Require Import Bool.
Local Open Scope N_scope.

Theorem C05_checked_set_establishes_constraint : forall t idx v e i a,
  t_init t = true -> entry_at t idx = Some e -> entry_area t e = Some (i, a) ->
  e_addr e + tsize (e_type e) <= a_base a + a_size a -> N.of_nat (length (a_words a)) = a_size a ->
  v_bits v < 2 ^ tbits (e_type e) ->
  fst (fst (reg_setx t idx v true)) = ASuccess ->
  let t' := snd (reg_setx t idx v true) in
  exists cur, reg_get t' idx = ((ASuccess, 0), Some cur) /\ validate (t_during t) e cur = true.
Proof. exact checked_set_establishes_constraint. Qed.
Print Assumptions C05_checked_set_establishes_constraint.

Theorem C05_refused_set_unchanged : forall t idx v c r t', reg_setx t idx v c = (r, t') -> fst r <> ASuccess -> t' = t.
Proof. exact setx_refused_unchanged. Qed.
Print Assumptions C05_refused_set_unchanged.
Theorem C05_refused_bitop_unchanged : forall clear t idx v r t', reg_bitop clear t idx v = (r, t') -> fst r <> ASuccess -> t' = t.
Proof. exact bitop_refused_unchanged. Qed.
Print Assumptions C05_refused_bitop_unchanged.
Theorem C05_refused_block_write_unchanged : forall t addr n buf r t',
  block_write t addr n buf = (r, t') -> fst r <> ASuccess -> t' = t.
Proof. exact block_write_failure_atomic. Qed.
Print Assumptions C05_refused_block_write_unchanged.

(* bit set / bit clear: exactly the requested bits, through the register's own validator; only unsigned, same type *)
Theorem C05_bit_ops : forall clear t idx v cur, reg_get t idx = ((ASuccess, 0), Some cur) ->
  reg_bitop clear t idx v =
  if negb (rtype_eqb (v_type cur) (v_type v)) || negb (is_unsigned (v_type cur)) then ((AInvalid, idx), t)
  else reg_setx t idx {| v_type := v_type cur;
                         v_bits := if clear then N.ldiff (v_bits cur) (v_bits v) else N.lor (v_bits cur) (v_bits v) |} true.
Proof. exact bitop_spec. Qed.
Print Assumptions C05_bit_ops.
