(* C05  Register constraints are an invariant of every checked-operation history.
   Statements only (printed by Coq from the lemmas they are closed with); proofs in Proof/RegLemmas.v, Proof/RegInvariant.v; model Model/RegTable.v.
   [Inv t]: the table is initialised, its entries are ordered and disjoint, every register lies wholly inside one area, all words are 16 bit,
   and every register whose words decode holds a value that satisfies its constraint.
   [InvB t]: Inv t and the areas are ordered, disjoint and full.
   Proved: InvB is preserved by EVERY checked operation - typed set, bit set, bit clear, block write (across area borders) and sanitise, accepted
   or refused - and hence by every history of them; under it every value a get delivers satisfies its register's constraint.
   Outside the invariant by construction: registers with the always-failing constraint (their default only validates during initialisation). *)
From Ufw Require Import Base.Bits Model.RegTable Proof.RegLemmas Proof.RegInitLemmas Proof.RegInvariant Proof.RegMemory Proof.RegBlockInv Proof.RegInitInv Proof.RegSanitise.
From Coq Require Import Bool Lia.
Local Open Scope N_scope.

(* the invariant is established by a successful initialisation of a plain table (memory-backed, default-loading areas; no always-failing constraint) *)
Theorem C05_invariant_established_by_init :
  forall t t' : table,
         plain_table t ->
         reg_init t = (ISuccess, 0, t') ->
         InvB t' /\
         t_entries t' = t_entries t /\
         (forall (idx : N) (e : entry),
          entry_at t' idx = Some e ->
          reg_get t' idx = (ASuccess, 0, Some {| v_type := e_type e; v_bits := e_default e |})).
Proof. exact (@init_establishes_invariant). Qed.
Print Assumptions C05_invariant_established_by_init.

(* the invariant survives every history of checked operations: typed set, bit set, bit clear, block write, sanitise *)
Theorem C05_history_invariant_all :
  forall (ops : list op_all) (t : table),
         InvB t -> RegBlockInv.defaults_typed t -> Forall (op_all_ok t) ops -> InvB (fold_left run_op_all ops t).
Proof. exact (@history_invariant_all). Qed.
Print Assumptions C05_history_invariant_all.

(* after any such history every value a get delivers satisfies the constraint of its register *)
Theorem C05_history_get_all :
  forall (ops : list op_all) (t : table) (idx : N) (e : entry) (v : rvalue),
         InvB t ->
         RegBlockInv.defaults_typed t ->
         Forall (op_all_ok t) ops ->
         entry_at (fold_left run_op_all ops t) idx = Some e ->
         reg_get (fold_left run_op_all ops t) idx = (ASuccess, 0, Some v) -> validate false e v = true.
Proof. exact (@history_get_all). Qed.
Print Assumptions C05_history_get_all.

(* one block write, accepted or refused, across area borders *)
Theorem C05_block_write_preserves :
  forall (t : table) (addr n : N) (buf : list N) (r : acc) (t' : table),
         InvB t ->
         n <= N.of_nat (length buf) ->
         Forall (fun w : N => w < 65536) (firstn (N.to_nat n) buf) -> block_write t addr n buf = (r, t') -> InvB t'.
Proof. exact (@block_write_preserves). Qed.
Print Assumptions C05_block_write_preserves.

(* one sanitise run *)
Theorem C05_sanitise_preserves :
  forall (t : table) (r : acc) (t' : table),
         InvB t ->
         Forall (fun e : entry => e_default e < 2 ^ tbits (e_type e)) (t_entries t) -> sanitise t = (r, t') -> InvB t'.
Proof. exact (@sanitise_preserves). Qed.
Print Assumptions C05_sanitise_preserves.

(* the sanitise clause: from a table satisfying the invariant, through ARBITRARY out-of-band corruption of the stored words, a successful sanitise leads back to the invariant; every register whose (corrupted) content decodes and satisfies its constraint keeps it, every other register holds its default, all touched marks are cleared *)
Theorem C05_sanitise_after_corruption :
  forall (t t2 : table) (x : N) (t' : table),
         InvB t ->
         defaults_typed t ->
         corrupted t t2 ->
         sanitise t2 = (ASuccess, x, t') ->
         InvB t' /\
         Forall (fun e' : entry => e_touched e' = false) (t_entries t') /\
         Forall2 same_entry (t_entries t) (t_entries t') /\
         (forall (j : nat) (e : entry),
          nth_error (t_entries t) j = Some e ->
          entry_words t' e = (if sane t2 e then entry_words t2 e else Some (default_words t e))).
Proof. exact (@sanitise_after_corruption). Qed.
Print Assumptions C05_sanitise_after_corruption.

(* the same from any structurally intact table (no assumption about the stored values) *)
Theorem C05_sanitise_restores :
  forall (t : table) (x : N) (t' : table),
         SInv t ->
         defaults_typed t ->
         sanitise t = (ASuccess, x, t') ->
         InvB t' /\
         Forall (fun e' : entry => e_touched e' = false) (t_entries t') /\
         Forall2 same_entry (t_entries t) (t_entries t') /\
         (forall (j : nat) (e : entry),
          nth_error (t_entries t) j = Some e ->
          entry_words t' e = (if sane t e then entry_words t e else Some (default_words t e))).
Proof. exact (@sanitise_restores). Qed.
Print Assumptions C05_sanitise_restores.

(* what corruption cannot change: flags, byte order, register list, geometry, word width *)
Theorem C05_corruption_keeps_structure :
  forall t t2 : table, SInv t -> corrupted t t2 -> SInv t2.
Proof. exact (@corrupted_sinv). Qed.
Print Assumptions C05_corruption_keeps_structure.

(* the invariant survives every history of checked typed operations with well-typed operands *)
Theorem C05_history_invariant :
  forall (ops : list cop) (t : table),
         Inv t -> Forall (fun op : cop => typed (cop_value op)) ops -> Inv (fold_left run_cop ops t).
Proof. exact (@history_invariant). Qed.
Print Assumptions C05_history_invariant.

(* after any such history every value a get delivers satisfies the constraint of its register *)
Theorem C05_history_get :
  forall (ops : list cop) (t : table) (idx : N) (e : entry) (v : rvalue),
         Inv t ->
         Forall (fun op : cop => typed (cop_value op)) ops ->
         entry_at (fold_left run_cop ops t) idx = Some e ->
         reg_get (fold_left run_cop ops t) idx = (ASuccess, 0, Some v) -> validate false e v = true.
Proof. exact (@history_get). Qed.
Print Assumptions C05_history_get.

(* what the invariant gives a reader *)
Theorem C05_invariant_means :
  forall (t : table) (idx : N) (e : entry) (v : rvalue),
         Inv t -> entry_at t idx = Some e -> reg_get t idx = (ASuccess, 0, Some v) -> validate false e v = true.
Proof. exact (@inv_get). Qed.
Print Assumptions C05_invariant_means.

(* one checked set, accepted or refused *)
Theorem C05_checked_set_preserves :
  forall (t : table) (idx : N) (v : rvalue) (r : acc) (t' : table),
         Inv t -> v_bits v < 2 ^ tbits (v_type v) -> reg_setx t idx v true = (r, t') -> Inv t'.
Proof. exact (@checked_set_preserves). Qed.
Print Assumptions C05_checked_set_preserves.

(* one bit operation, accepted or refused *)
Theorem C05_bitop_preserves :
  forall (clear : bool) (t : table) (idx : N) (v : rvalue) (r : acc) (t' : table),
         Inv t -> v_bits v < 2 ^ tbits (v_type v) -> reg_bitop clear t idx v = (r, t') -> Inv t'.
Proof. exact (@bitop_preserves). Qed.
Print Assumptions C05_bitop_preserves.

(* the frame: storing one register leaves the words (and the placement) of every register it does not meet untouched *)
Theorem C05_frame :
  forall (t : table) (e : entry) (i : nat) (a : area) (ws : list N) (e' : entry),
         entry_area t e = Some (i, a) ->
         e_addr e + N.of_nat (length ws) <= a_base a + a_size a ->
         N.of_nat (length (a_words a)) = a_size a ->
         N.of_nat (length ws) = tsize (e_type e) ->
         placed t e' ->
         ~ ranges_meet e e' ->
         let t' := set_area t i (area_write a (e_addr e - a_base a) ws) in
         placed t' e' /\ entry_words t' e' = entry_words t e'.
Proof. exact (@entry_words_frame). Qed.
Print Assumptions C05_frame.

(* in an ordered table two registers whose word ranges meet are the same register *)
Theorem C05_distinct_registers_do_not_meet :
  forall (es : list entry) (e0 : entry),
         chain e_addr (fun e : entry => tsize (e_type e)) e0 es ->
         forall e e' : entry, In e (e0 :: es) -> In e' (e0 :: es) -> ranges_meet e e' -> e = e'.
Proof. exact (@chain_distinct). Qed.
Print Assumptions C05_distinct_registers_do_not_meet.

(* a register written by a successful checked set satisfies its constraint and reads back the value *)
Theorem C05_checked_set_establishes_constraint :
  forall (t : table) (idx : N) (v : rvalue) (e : entry) (i : nat) (a : area),
         t_init t = true ->
         entry_at t idx = Some e ->
         entry_area t e = Some (i, a) ->
         e_addr e + tsize (e_type e) <= a_base a + a_size a ->
         N.of_nat (length (a_words a)) = a_size a ->
         v_bits v < 2 ^ tbits (e_type e) ->
         fst (fst (reg_setx t idx v true)) = ASuccess ->
         let t' := snd (reg_setx t idx v true) in
         exists cur : rvalue, reg_get t' idx = (ASuccess, 0, Some cur) /\ validate (t_during t) e cur = true.
Proof. exact (@checked_set_establishes_constraint). Qed.
Print Assumptions C05_checked_set_establishes_constraint.

(* a refused set changes nothing *)
Theorem C05_refused_set_unchanged :
  forall (t : table) (idx : N) (v : rvalue) (c : bool) (r : acc) (t' : table),
         reg_setx t idx v c = (r, t') -> fst r <> ASuccess -> t' = t.
Proof. exact (@setx_refused_unchanged). Qed.
Print Assumptions C05_refused_set_unchanged.

(* a refused bit operation changes nothing *)
Theorem C05_refused_bitop_unchanged :
  forall (clear : bool) (t : table) (idx : N) (v : rvalue) (r : acc) (t' : table),
         reg_bitop clear t idx v = (r, t') -> fst r <> ASuccess -> t' = t.
Proof. exact (@bitop_refused_unchanged). Qed.
Print Assumptions C05_refused_bitop_unchanged.

(* a refused block write changes nothing *)
Theorem C05_refused_block_write_unchanged :
  forall (t : table) (addr n : N) (buf : list N) (r : acc) (t' : table),
         block_write t addr n buf = (r, t') -> fst r <> ASuccess -> t' = t.
Proof. exact (@block_write_failure_atomic). Qed.
Print Assumptions C05_refused_block_write_unchanged.

(* a block write succeeds only if every overlapped register decodes and validates after the overlay *)
Theorem C05_block_write_validates :
  forall (t : table) (addr n : N) (buf : list N) (t' : table),
         block_write t addr n buf = (ASuccess, 0, t') ->
         n <> 0 ->
         (forall x : N, addr <= x < addr + n -> exists (i : nat) (a : area), find_area (t_areas t) x 0 = Some (i, a)) /\
         first_readonly (t_areas t) addr n = None /\
         (forall e : entry,
          In e (t_entries t) ->
          overlaps e addr n = true ->
          exists cur : list N,
            entry_words t e = Some cur /\
            (let lo := N.max addr (e_addr e) in
             let hi := N.min (addr + n) (e_addr e + tsize (e_type e)) in
             let new := blit cur (N.to_nat (lo - e_addr e)) (slice buf (N.to_nat (lo - addr)) (N.to_nat (hi - lo))) in
             let v := {| v_type := e_type e; v_bits := des_bits (t_be t) (e_type e) new |} in
             ser_ok v = true /\ validate (t_during t) e v = true)) /\
         map e_touched (t_entries t') = map (fun e : entry => e_touched e || overlaps e addr n) (t_entries t).
Proof. exact (@block_write_success_validated). Qed.
Print Assumptions C05_block_write_validates.

(* bit set / clear change exactly the requested bits of unsigned registers *)
Theorem C05_bit_ops :
  forall (clear : bool) (t : table) (idx : N) (v cur : rvalue),
         reg_get t idx = (ASuccess, 0, Some cur) ->
         reg_bitop clear t idx v =
         (if negb (rtype_eqb (v_type cur) (v_type v)) || negb (is_unsigned (v_type cur))
          then (AInvalid, idx, t)
          else
           reg_setx t idx
             {|
               v_type := v_type cur;
               v_bits := if clear then N.ldiff (v_bits cur) (v_bits v) else N.lor (v_bits cur) (v_bits v)
             |} true).
Proof. exact (@bitop_spec). Qed.
Print Assumptions C05_bit_ops.


(* the invariant is satisfiable, and a history on it: refused operations leave the old value *)
Definition ex_area : area := {| a_base := 0; a_size := 4; a_readable := true; a_writeable := true; a_skip := false; a_has_read := true;
                   a_has_write := true; a_is_mem := true; a_words := [5; 0; 0; 0]; a_first := 0; a_last := 1; a_count := 2 |}.
Definition ex_table : table :=
  {| t_init := true; t_during := false; t_be := false; t_areas := [ex_area];
     t_entries := [ {| e_type := TU16; e_default := 5; e_addr := 0; e_check := CRange 1 10; e_touched := false |};
                    {| e_type := TU32; e_default := 0; e_addr := 1; e_check := CMax 100; e_touched := false |} ] |}.
Example C05_invariant_holds_somewhere : Inv ex_table.
Proof.
  constructor; try reflexivity.
  - cbn. lia.
  - repeat constructor; exists 0%nat, ex_area; (split; [reflexivity|split; [cbn; lia|reflexivity]]).
  - repeat constructor; cbn; lia.
  - repeat constructor; intros ws Hw; vm_compute in Hw; injection Hw as <-; intros _; vm_compute; reflexivity.
Qed.
Example C05_history_example :
  let ops := [OpSet 0 {| v_type := TU16; v_bits := 11 |}; OpSet 0 {| v_type := TU16; v_bits := 7 |}; OpBitSet 0 {| v_type := TU16; v_bits := 8 |};
              OpSet 1 {| v_type := TU32; v_bits := 99 |}] in
  reg_get (fold_left run_cop ops ex_table) 0 = ((ASuccess, 0), Some {| v_type := TU16; v_bits := 7 |}) /\
  reg_get (fold_left run_cop ops ex_table) 1 = ((ASuccess, 0), Some {| v_type := TU32; v_bits := 99 |}).
Proof. split; vm_compute; reflexivity. Qed.

(* the sanitise clause is not vacuous: the example table with its first register corrupted to 0 (outside 1..10) and the second to
   0x00010000 = 65536 (above 100): sanitise succeeds and both registers hold their defaults again *)
Definition ex_corrupt : table :=
  {| t_init := true; t_during := false; t_be := false;
     t_areas := [ {| a_base := 0; a_size := 4; a_readable := true; a_writeable := true; a_skip := false; a_has_read := true;
                     a_has_write := true; a_is_mem := true; a_words := [0; 0; 1; 7]; a_first := 0; a_last := 1; a_count := 2 |} ];
     t_entries := t_entries ex_table |}.
Example C05_sanitise_example :
  InvB ex_table /\ defaults_typed ex_table /\ corrupted ex_table ex_corrupt /\
  match sanitise ex_corrupt with
  | ((ASuccess, _), t') => map a_words (t_areas t') = [[5; 0; 0; 7]]
  | _ => False
  end.
Proof.
  split; [split; [exact C05_invariant_holds_somewhere|]|].
  - split; [cbn; exact I|]. repeat constructor.
  - split; [repeat constructor; cbn; lia|]. split.
    + repeat split; repeat constructor; cbn; lia.
    + vm_compute. reflexivity.
Qed.
