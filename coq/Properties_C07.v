(* C07  Corrupted frames are never executed nor acknowledged.
   Statements only (printed by Coq from the lemmas they are closed with); proofs in Proof/RegpSpecLemmas.v (the receiver model =
   the independent reading of doc/regp.txt), Proof/CrcDetect.v (what CRC-16/ARC detects), Proof/RegpCorrupt.v (damaged frames).
   Bursts are measured in transmission order (least significant bit of each octet first).
   The property as stated is FALSE for one class of frames: C07_burst_refuted exhibits a 9-bit burst on a read request that is accepted
   (KNOWN_FINDINGS.txt C07-burst-header-crc-boundary); C07_boundary_bursts_exactly characterises the class (63 patterns), the other theorems
   are the part of the property that holds (C07_..._partial in DESIGN.md's terms). *)
From Ufw Require Import Base.Bits Base.Errno Model.Crc Model.Varint Model.Slip Model.Regp Model.RegpSpec
  Proof.CrcDetect Proof.RegpLemmas Proof.RegpSpecLemmas Proof.RegpCorrupt.
From Coq Require Import Bool Lia.
Local Open Scope N_scope.
Local Open Scope bool_scope.

(* for an arbitrary octet sequence the receiver's verdict equals that of the independent reading of the protocol document; in particular the payload checksum is verified whenever the frame declares one *)
Theorem C07_verdict_is_the_documents :
  forall raw : list N, to_sverdict raw = spec_classify raw.
Proof. exact (@classify_agrees). Qed.
Print Assumptions C07_verdict_is_the_documents.

(* the four error ids are the four fault classes *)
Theorem C07_verdict_vocabulary :
  forall raw : list N,
         match parse_frame raw with
         | inl PE_BADMSG => match to_sverdict raw with
                            | SBadHeader => True
                            | _ => False
                            end
         | inl PE_ILSEQ => match to_sverdict raw with
                           | SBadHeaderCrc => True
                           | _ => False
                           end
         | inl PE_FAULT => match to_sverdict raw with
                           | SBadSize _ _ => True
                           | _ => False
                           end
         | inl PE_PROTO => match to_sverdict raw with
                           | SBadPayloadCrc _ _ => True
                           | _ => False
                           end
         | inr f =>
             match to_sverdict raw with
             | SAccept h c1 c2 pl => h = hf f /\ c1 = f_hdcrc f /\ c2 = f_plcrc f /\ pl = f_payload f
             | _ => False
             end
         end.
Proof. exact (@to_sverdict_parse_frame). Qed.
Print Assumptions C07_verdict_vocabulary.

(* payload faults of requests are answered with the error response, header faults by the meta message (C09_reception_cases); nothing is executed (C06_failed_reception_never_executes) *)
Theorem C07_payload_faults_answered :
  forall (p : regp) (r : recv_result) (backend : backend_call -> verdict) (f : rframe) (e : errno),
         rr_rc r = RcOk ->
         rr_errid r = Some e ->
         rr_frame r = Some f ->
         e = EPROTO \/ e = EFAULT ->
         regp_process p r backend =
         ([],
          Some
            (if is_request f
             then resp_0 p f (if match e with
                                 | EPROTO => true
                                 | _ => false
                                 end then R_EPAYLOADCRC else R_EPAYLOADSIZE)
             else [])).
Proof. exact (@process_payload_fault). Qed.
Print Assumptions C07_payload_faults_answered.

(* CRC-16/ARC of a damaged message = CRC of the message xor CRC of the damage *)
Theorem C07_crc_linear :
  forall a e : list N, length a = length e -> spec_crc 0 (lxor_list a e) = N.lxor (spec_crc 0 a) (spec_crc 0 e).
Proof. exact (@crc_error). Qed.
Print Assumptions C07_crc_linear.

(* any damage inside a window of 16 consecutive bits, anywhere in a message of any length *)
Theorem C07_crc_detects_bursts :
  forall e : list N, burst16 e -> spec_crc 0 e <> 0.
Proof. exact (@burst_detected). Qed.
Print Assumptions C07_crc_detects_bursts.

(* any two damaged bits less than 32767 bits apart *)
Theorem C07_crc_detects_two_bits :
  forall (a : nat) (i : N) (d : nat) (j : N) (b : nat),
         i < 8 ->
         j < 8 -> (d < 4094)%nat -> spec_crc 0 (repeat 0 a ++ [2 ^ i] ++ repeat 0 d ++ [2 ^ j] ++ repeat 0 b) <> 0.
Proof. exact (@two_bits_detected). Qed.
Print Assumptions C07_crc_detects_two_bits.

(* frames without payload-checksum field: damage e on sequence/address/size, x on the stored checksum is reported as header-checksum fault unless CRC(e) = x *)
Theorem C07_header_fields_partial :
  forall (m1 m0 s1 s0 a3 a2 a1 a0 n3 n2 n1 n0 c1 c0 e2 e3 e4 e5 e6 e7 e8 e9 e10 e11 x1 x0 : N)
           (payload' : list N),
         let w0 := 256 * m1 + m0 in
         word_ok w0 = true ->
         opt_hdcrc ((w0 / 256) mod 16) = true ->
         opt_plcrc ((w0 / 256) mod 16) = false ->
         c0 < 256 ->
         x0 < 256 ->
         crc16arc [m1; m0; s1; s0; a3; a2; a1; a0; n3; n2; n1; n0] = 256 * c1 + c0 ->
         crc16arc [0; 0; e2; e3; e4; e5; e6; e7; e8; e9; e10; e11] <> 256 * x1 + x0 ->
         spec_classify
           (m1
            :: m0
               :: N.lxor s1 e2
                  :: N.lxor s0 e3
                     :: N.lxor a3 e4
                        :: N.lxor a2 e5
                           :: N.lxor a1 e6
                              :: N.lxor a0 e7
                                 :: N.lxor n3 e8
                                    :: N.lxor n2 e9
                                       :: N.lxor n1 e10 :: N.lxor n0 e11 :: N.lxor c1 x1 :: N.lxor c0 x0 :: payload') =
         SBadHeaderCrc.
Proof. exact (@hd_corruption). Qed.
Print Assumptions C07_header_fields_partial.

(* ... and when CRC(e) = x the header check passes (the frame is then judged by its payload size only) *)
Theorem C07_header_fields_unseen :
  forall (m1 m0 s1 s0 a3 a2 a1 a0 n3 n2 n1 n0 c1 c0 e2 e3 e4 e5 e6 e7 e8 e9 e10 e11 x1 x0 : N)
           (payload' : list N),
         let w0 := 256 * m1 + m0 in
         word_ok w0 = true ->
         opt_hdcrc ((w0 / 256) mod 16) = true ->
         opt_plcrc ((w0 / 256) mod 16) = false ->
         c0 < 256 ->
         x0 < 256 ->
         crc16arc [m1; m0; s1; s0; a3; a2; a1; a0; n3; n2; n1; n0] = 256 * c1 + c0 ->
         crc16arc [0; 0; e2; e3; e4; e5; e6; e7; e8; e9; e10; e11] = 256 * x1 + x0 ->
         spec_classify
           (m1
            :: m0
               :: N.lxor s1 e2
                  :: N.lxor s0 e3
                     :: N.lxor a3 e4
                        :: N.lxor a2 e5
                           :: N.lxor a1 e6
                              :: N.lxor a0 e7
                                 :: N.lxor n3 e8
                                    :: N.lxor n2 e9
                                       :: N.lxor n1 e10 :: N.lxor n0 e11 :: N.lxor c1 x1 :: N.lxor c0 x0 :: payload') =
         judge
           (fields_of w0 (N.lxor s1 e2) (N.lxor s0 e3) (N.lxor a3 e4) (N.lxor a2 e5) (N.lxor a1 e6) 
              (N.lxor a0 e7) (N.lxor n3 e8) (N.lxor n2 e9) (N.lxor n1 e10) (N.lxor n0 e11))
           (256 * N.lxor c1 x1 + N.lxor c0 x0) 0 payload'.
Proof. exact (@hd_corruption_unseen). Qed.
Print Assumptions C07_header_fields_unseen.

(* in particular every burst and every two-bit error inside the protected fields (CRC(e) <> 0 by the two theorems above) ... *)
Theorem C07_header_fields_inside :
  forall (m1 m0 s1 s0 a3 a2 a1 a0 n3 n2 n1 n0 c1 c0 e2 e3 e4 e5 e6 e7 e8 e9 e10 e11 : N) (payload' : list N),
         let w0 := 256 * m1 + m0 in
         word_ok w0 = true ->
         opt_hdcrc ((w0 / 256) mod 16) = true ->
         opt_plcrc ((w0 / 256) mod 16) = false ->
         c0 < 256 ->
         crc16arc [m1; m0; s1; s0; a3; a2; a1; a0; n3; n2; n1; n0] = 256 * c1 + c0 ->
         crc16arc [0; 0; e2; e3; e4; e5; e6; e7; e8; e9; e10; e11] <> 0 ->
         spec_classify
           (m1
            :: m0
               :: N.lxor s1 e2
                  :: N.lxor s0 e3
                     :: N.lxor a3 e4
                        :: N.lxor a2 e5
                           :: N.lxor a1 e6
                              :: N.lxor a0 e7
                                 :: N.lxor n3 e8
                                    :: N.lxor n2 e9 :: N.lxor n1 e10 :: N.lxor n0 e11 :: c1 :: c0 :: payload') =
         SBadHeaderCrc.
Proof. exact (@hd_fields_error). Qed.
Print Assumptions C07_header_fields_inside.

(* ... and every error confined to the stored checksum *)
Theorem C07_header_checksum_inside :
  forall (m1 m0 s1 s0 a3 a2 a1 a0 n3 n2 n1 n0 c1 c0 x1 x0 : N) (payload' : list N),
         let w0 := 256 * m1 + m0 in
         word_ok w0 = true ->
         opt_hdcrc ((w0 / 256) mod 16) = true ->
         opt_plcrc ((w0 / 256) mod 16) = false ->
         c0 < 256 ->
         x0 < 256 ->
         crc16arc [m1; m0; s1; s0; a3; a2; a1; a0; n3; n2; n1; n0] = 256 * c1 + c0 ->
         x1 <> 0 \/ x0 <> 0 ->
         spec_classify
           (m1
            :: m0
               :: s1 :: s0 :: a3 :: a2 :: a1 :: a0 :: n3 :: n2 :: n1 :: n0 :: N.lxor c1 x1 :: N.lxor c0 x0 :: payload') =
         SBadHeaderCrc.
Proof. exact (@hd_checksum_error). Qed.
Print Assumptions C07_header_checksum_inside.

(* one damaged bit in the protected octets and one in the stored checksum: the CRC of a single-bit error is never a single bit *)
Theorem C07_mixed_two_bits :
  forall (len q : nat) (i k : N),
         len = 12%nat \/ len = 14%nat ->
         (q < len)%nat -> i < 8 -> k < 16 -> crc16arc (repeat 0 q ++ [2 ^ i] ++ repeat 0 (len - 1 - q)) <> 2 ^ k.
Proof. exact (@mixed_two_bits). Qed.
Print Assumptions C07_mixed_two_bits.

(* bursts across the last block-size octet and the stored checksum: invisible to the header check exactly for the 63 listed patterns *)
Theorem C07_boundary_bursts_exactly :
  forall x y z : N,
         x < 256 ->
         y < 256 ->
         z < 256 ->
         x <> 0 ->
         shape3 x y z -> crc16arc [0; 0; 0; 0; 0; 0; 0; 0; 0; 0; 0; x] = 256 * y + z <-> In (x, y, z) unseen_bursts.
Proof. exact (@nopl_boundary_burst). Qed.
Print Assumptions C07_boundary_bursts_exactly.

(* their number *)
Theorem C07_unseen_patterns :
  length unseen_bursts = 63%nat.
Proof. exact (@unseen_count). Qed.
Print Assumptions C07_unseen_patterns.

(* for frames whose block size is cross-checked against the payload (responses, writes) these bursts change the block size and are reported as size fault *)
Theorem C07_cross_checked_frames_partial :
  forall (m1 m0 s1 s0 a3 a2 a1 a0 n3 n2 n1 n0 c1 c0 : N) (payload : list N)
           (e2 e3 e4 e5 e6 e7 e8 e9 e10 e11 x1 x0 : N),
         let w0 := 256 * m1 + m0 in
         let h := fields_of w0 s1 s0 a3 a2 a1 a0 n3 n2 n1 n0 in
         word_ok w0 = true ->
         opt_hdcrc ((w0 / 256) mod 16) = true ->
         opt_plcrc ((w0 / 256) mod 16) = false ->
         h_type h <> 0 ->
         h_type h <> 15 ->
         n3 < 256 ->
         n2 < 256 ->
         n1 < 256 ->
         n0 < 256 ->
         c0 < 256 ->
         e8 < 256 ->
         e9 < 256 ->
         e10 < 256 ->
         e11 < 256 ->
         x0 < 256 ->
         crc16arc [m1; m0; s1; s0; a3; a2; a1; a0; n3; n2; n1; n0] = 256 * c1 + c0 ->
         payload_rule h payload = true ->
         (e8 <> 0 \/ e9 <> 0 \/ e10 <> 0 \/ e11 <> 0) \/
         crc16arc [0; 0; e2; e3; e4; e5; e6; e7; e8; e9; e10; e11] <> 256 * x1 + x0 ->
         is_fault
           (spec_classify
              (m1
               :: m0
                  :: N.lxor s1 e2
                     :: N.lxor s0 e3
                        :: N.lxor a3 e4
                           :: N.lxor a2 e5
                              :: N.lxor a1 e6
                                 :: N.lxor a0 e7
                                    :: N.lxor n3 e8
                                       :: N.lxor n2 e9
                                          :: N.lxor n1 e10 :: N.lxor n0 e11 :: N.lxor c1 x1 :: N.lxor c0 x0 :: payload)).
Proof. exact (@nopl_frame_fault). Qed.
Print Assumptions C07_cross_checked_frames_partial.

(* frames with payload-checksum field: every damage behind the first word that the header check misses changes block size or payload checksum and is reported *)
Theorem C07_payload_frames_partial :
  forall (m1 m0 s1 s0 a3 a2 a1 a0 n3 n2 n1 n0 c1 c0 p1 p0 : N) (payload : list N)
           (e2 e3 e4 e5 e6 e7 e8 e9 e10 e11 x1 x0 y1 y0 : N),
         let w0 := 256 * m1 + m0 in
         let h := fields_of w0 s1 s0 a3 a2 a1 a0 n3 n2 n1 n0 in
         word_ok w0 = true ->
         opt_hdcrc ((w0 / 256) mod 16) = true ->
         opt_plcrc ((w0 / 256) mod 16) = true ->
         h_type h <> 0 ->
         h_type h <> 15 ->
         n3 < 256 ->
         n2 < 256 ->
         n1 < 256 ->
         n0 < 256 ->
         c0 < 256 ->
         p0 < 256 ->
         e8 < 256 ->
         e9 < 256 ->
         e10 < 256 ->
         e11 < 256 ->
         x0 < 256 ->
         y0 < 256 ->
         crc16arc [m1; m0; s1; s0; a3; a2; a1; a0; n3; n2; n1; n0; p1; p0] = 256 * c1 + c0 ->
         payload <> [] ->
         payload_rule h payload = true ->
         crc16arc payload = 256 * p1 + p0 ->
         (e8 <> 0 \/ e9 <> 0 \/ e10 <> 0 \/ e11 <> 0) \/
         (y1 <> 0 \/ y0 <> 0) \/ crc16arc [0; 0; e2; e3; e4; e5; e6; e7; e8; e9; e10; e11; y1; y0] <> 256 * x1 + x0 ->
         is_fault
           (spec_classify
              (m1
               :: m0
                  :: N.lxor s1 e2
                     :: N.lxor s0 e3
                        :: N.lxor a3 e4
                           :: N.lxor a2 e5
                              :: N.lxor a1 e6
                                 :: N.lxor a0 e7
                                    :: N.lxor n3 e8
                                       :: N.lxor n2 e9
                                          :: N.lxor n1 e10
                                             :: N.lxor n0 e11
                                                :: N.lxor c1 x1
                                                   :: N.lxor c0 x0 :: N.lxor p1 y1 :: N.lxor p0 y0 :: payload)).
Proof. exact (@pl_frame_fault). Qed.
Print Assumptions C07_payload_frames_partial.

(* same layout: the header-checksum criterion *)
Theorem C07_payload_frames_header :
  forall (m1 m0 s1 s0 a3 a2 a1 a0 n3 n2 n1 n0 c1 c0 p1 p0 e2 e3 e4 e5 e6 e7 e8 e9 e10 e11 x1 x0 y1 y0 : N)
           (payload' : list N),
         let w0 := 256 * m1 + m0 in
         word_ok w0 = true ->
         opt_hdcrc ((w0 / 256) mod 16) = true ->
         opt_plcrc ((w0 / 256) mod 16) = true ->
         c0 < 256 ->
         x0 < 256 ->
         crc16arc [m1; m0; s1; s0; a3; a2; a1; a0; n3; n2; n1; n0; p1; p0] = 256 * c1 + c0 ->
         crc16arc [0; 0; e2; e3; e4; e5; e6; e7; e8; e9; e10; e11; y1; y0] <> 256 * x1 + x0 ->
         spec_classify
           (m1
            :: m0
               :: N.lxor s1 e2
                  :: N.lxor s0 e3
                     :: N.lxor a3 e4
                        :: N.lxor a2 e5
                           :: N.lxor a1 e6
                              :: N.lxor a0 e7
                                 :: N.lxor n3 e8
                                    :: N.lxor n2 e9
                                       :: N.lxor n1 e10
                                          :: N.lxor n0 e11
                                             :: N.lxor c1 x1
                                                :: N.lxor c0 x0 :: N.lxor p1 y1 :: N.lxor p0 y0 :: payload') =
         SBadHeaderCrc.
Proof. exact (@hd_pl_corruption). Qed.
Print Assumptions C07_payload_frames_header.

(* same layout: any error confined to the stored header checksum *)
Theorem C07_payload_frames_checksum :
  forall (m1 m0 s1 s0 a3 a2 a1 a0 n3 n2 n1 n0 c1 c0 p1 p0 x1 x0 : N) (payload' : list N),
         let w0 := 256 * m1 + m0 in
         word_ok w0 = true ->
         opt_hdcrc ((w0 / 256) mod 16) = true ->
         opt_plcrc ((w0 / 256) mod 16) = true ->
         c0 < 256 ->
         x0 < 256 ->
         crc16arc [m1; m0; s1; s0; a3; a2; a1; a0; n3; n2; n1; n0; p1; p0] = 256 * c1 + c0 ->
         x1 <> 0 \/ x0 <> 0 ->
         spec_classify
           (m1
            :: m0
               :: s1
                  :: s0
                     :: a3
                        :: a2
                           :: a1 :: a0 :: n3 :: n2 :: n1 :: n0 :: N.lxor c1 x1 :: N.lxor c0 x0 :: p1 :: p0 :: payload') =
         SBadHeaderCrc.
Proof. exact (@hd_pl_checksum_error). Qed.
Print Assumptions C07_payload_frames_checksum.

(* damaged payload octets (burst, two bits: CRC of the damage <> 0) are reported as payload-checksum fault *)
Theorem C07_payload_octets :
  forall (m1 m0 s1 s0 a3 a2 a1 a0 n3 n2 n1 n0 c1 c0 p1 p0 : N) (payload ep : list N),
         let w0 := 256 * m1 + m0 in
         let h := fields_of w0 s1 s0 a3 a2 a1 a0 n3 n2 n1 n0 in
         word_ok w0 = true ->
         opt_hdcrc ((w0 / 256) mod 16) = true ->
         opt_plcrc ((w0 / 256) mod 16) = true ->
         crc16arc [m1; m0; s1; s0; a3; a2; a1; a0; n3; n2; n1; n0; p1; p0] = 256 * c1 + c0 ->
         payload <> [] ->
         payload_rule h payload = true ->
         crc16arc payload = 256 * p1 + p0 ->
         length ep = length payload ->
         crc16arc ep <> 0 ->
         spec_classify
           (m1
            :: m0
               :: s1
                  :: s0 :: a3 :: a2 :: a1 :: a0 :: n3 :: n2 :: n1 :: n0 :: c1 :: c0 :: p1 :: p0 :: lxor_list payload ep) =
         SBadPayloadCrc h (lxor_list payload ep).
Proof. exact (@payload_error). Qed.
Print Assumptions C07_payload_octets.

(* a single damaged bit in the first header word, other than the two checksum option bits: malformed header or header-checksum fault *)
Theorem C07_first_word_other_bits :
  forall (m1 m0 s1 s0 a3 a2 a1 a0 n3 n2 n1 n0 c1 c0 : N) (rest : list N) (d1 d0 : N),
         m1 < 256 ->
         m0 < 256 ->
         c0 < 256 ->
         single_bit d1 d0 ->
         d1 <> 2 ->
         d1 <> 4 ->
         let w0 := 256 * m1 + m0 in
         opt_hdcrc ((w0 / 256) mod 16) = true ->
         (if opt_plcrc ((w0 / 256) mod 16)
          then
           exists (p1 p0 : N) (payload : list N),
             rest = p1 :: p0 :: payload /\
             crc16arc [m1; m0; s1; s0; a3; a2; a1; a0; n3; n2; n1; n0; p1; p0] = 256 * c1 + c0
          else crc16arc [m1; m0; s1; s0; a3; a2; a1; a0; n3; n2; n1; n0] = 256 * c1 + c0) ->
         is_fault
           (spec_classify
              (N.lxor m1 d1
               :: N.lxor m0 d0 :: s1 :: s0 :: a3 :: a2 :: a1 :: a0 :: n3 :: n2 :: n1 :: n0 :: c1 :: c0 :: rest)).
Proof. exact (@first_word_other_bits). Qed.
Print Assumptions C07_first_word_other_bits.

(* the header-checksum option bit: the checksum octets count as payload, size fault *)
Theorem C07_first_word_hdcrc_bit :
  forall (m1 m0 s1 s0 a3 a2 a1 a0 n3 n2 n1 n0 c1 c0 : N) (rest : list N),
         m1 < 256 ->
         m0 < 256 ->
         let w0 := 256 * m1 + m0 in
         let h := fields_of w0 s1 s0 a3 a2 a1 a0 n3 n2 n1 n0 in
         word_ok w0 = true ->
         opt_hdcrc ((w0 / 256) mod 16) = true ->
         (if opt_plcrc ((w0 / 256) mod 16)
          then exists (p1 p0 : N) (payload : list N), rest = p1 :: p0 :: payload /\ payload_rule h payload = true
          else payload_rule h rest = true) ->
         is_fault
           (spec_classify
              (N.lxor m1 2 :: m0 :: s1 :: s0 :: a3 :: a2 :: a1 :: a0 :: n3 :: n2 :: n1 :: n0 :: c1 :: c0 :: rest)).
Proof. exact (@first_word_hdcrc_bit). Qed.
Print Assumptions C07_first_word_hdcrc_bit.

(* the payload-checksum option bit: header too short, header-checksum fault or size fault *)
Theorem C07_first_word_plcrc_bit :
  forall (m1 m0 s1 s0 a3 a2 a1 a0 n3 n2 n1 n0 c1 c0 : N) (rest : list N),
         m1 < 256 ->
         m0 < 256 ->
         let w0 := 256 * m1 + m0 in
         let h := fields_of w0 s1 s0 a3 a2 a1 a0 n3 n2 n1 n0 in
         word_ok w0 = true ->
         opt_hdcrc ((w0 / 256) mod 16) = true ->
         (if opt_plcrc ((w0 / 256) mod 16)
          then exists (p1 p0 : N) (payload : list N), rest = p1 :: p0 :: payload /\ payload_rule h payload = true
          else rest = []) ->
         is_fault
           (spec_classify
              (N.lxor m1 4 :: m0 :: s1 :: s0 :: a3 :: a2 :: a1 :: a0 :: n3 :: n2 :: n1 :: n0 :: c1 :: c0 :: rest)).
Proof. exact (@first_word_plcrc_bit). Qed.
Print Assumptions C07_first_word_plcrc_bit.

(* truncated or extended behind an intact header: size fault *)
Theorem C07_resized_frames :
  forall (m1 m0 s1 s0 a3 a2 a1 a0 n3 n2 n1 n0 c1 c0 : N) (payload payload' : list N),
         let w0 := 256 * m1 + m0 in
         let h := fields_of w0 s1 s0 a3 a2 a1 a0 n3 n2 n1 n0 in
         word_ok w0 = true ->
         opt_hdcrc ((w0 / 256) mod 16) = true ->
         opt_plcrc ((w0 / 256) mod 16) = false ->
         crc16arc [m1; m0; s1; s0; a3; a2; a1; a0; n3; n2; n1; n0] = 256 * c1 + c0 ->
         payload_rule h payload = true ->
         length payload <> length payload' ->
         spec_classify (m1 :: m0 :: s1 :: s0 :: a3 :: a2 :: a1 :: a0 :: n3 :: n2 :: n1 :: n0 :: c1 :: c0 :: payload') =
         SBadSize h payload'.
Proof. exact (@resized_payload_hd). Qed.
Print Assumptions C07_resized_frames.

(* the same with payload checksum *)
Theorem C07_resized_frames_pl :
  forall (m1 m0 s1 s0 a3 a2 a1 a0 n3 n2 n1 n0 c1 c0 p1 p0 : N) (payload payload' : list N),
         let w0 := 256 * m1 + m0 in
         let h := fields_of w0 s1 s0 a3 a2 a1 a0 n3 n2 n1 n0 in
         word_ok w0 = true ->
         opt_hdcrc ((w0 / 256) mod 16) = true ->
         opt_plcrc ((w0 / 256) mod 16) = true ->
         crc16arc [m1; m0; s1; s0; a3; a2; a1; a0; n3; n2; n1; n0; p1; p0] = 256 * c1 + c0 ->
         payload_rule h payload = true ->
         length payload <> length payload' ->
         spec_classify
           (m1 :: m0 :: s1 :: s0 :: a3 :: a2 :: a1 :: a0 :: n3 :: n2 :: n1 :: n0 :: c1 :: c0 :: p1 :: p0 :: payload') =
         SBadSize h payload'.
Proof. exact (@resized_payload_hd_pl). Qed.
Print Assumptions C07_resized_frames_pl.

(* cut inside the header it announces (incl. the empty frame): bad header encoding *)
Theorem C07_truncated_header :
  forall raw : list N,
         (length raw < 12)%nat \/
         (exists (m1 m0 : N) (t : list N),
            raw = m1 :: m0 :: t /\
            opt_hdcrc (((256 * m1 + m0) / 256) mod 16) = true /\
            ((length raw < 14)%nat \/ opt_plcrc (((256 * m1 + m0) / 256) mod 16) = true /\ (length raw < 16)%nat)) ->
         spec_classify raw = SBadHeader.
Proof. exact (@truncated_header). Qed.
Print Assumptions C07_truncated_header.

(* REFUTATION of the burst clause: a valid read request for 5 octets, a 9-bit burst, a valid read request for 9 octets *)
Theorem C07_burst_refuted :
  (exists (h : hfields) (c : N), spec_classify witness_frame = SAccept h c 0 [] /\ h_type h = 0 /\ h_bsize h = 5) /\
         burst16 witness_error /\
         (exists (h : hfields) (c : N),
            spec_classify (lxor_list witness_frame witness_error) = SAccept h c 0 [] /\ h_type h = 0 /\ h_bsize h = 9).
Proof. exact (@burst_unseen_witness). Qed.
Print Assumptions C07_burst_refuted.

